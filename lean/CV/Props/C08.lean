/-
C08 — ACL decisions follow rule semantics and depend only on the token's own policies.
Property theorems only; helper lemmas live in CV/Proofs/Acl*.lean, the model in CV/Acl.lean.

Reading guide. `ps` is the list of parsed policies attached to a token (directly, through roles or
synthesised from identities), `z` the policy authorizer compiled from them (`newPolicyAuthorizer`),
`chain z d` the decision after falling back to the default policy `d`, `authorize ps d r` both steps.
`z.tree s` is the radix tree of rule family `s`; `getPolicy` is the Go tree walk. `PStr.rank` orders
policy strings deny (4) > write (3) > list (2) > read (1) > anything that is not a level (0).
-/
import CV.Proofs.AclAuthz
import CV.Proofs.AclQueries
import CV.Proofs.AclCache
import CV.Proofs.AclRpc
namespace CV.Acl

/-! ## 1. merging: deny > write > list > read, slot by slot -/

/-- `takesPrecedenceOver` is exactly the order deny > write > list > read (a string that is not a
    level never takes precedence; equal levels do). -/
theorem takesPrecedence_is_rank_order (a b : PStr) :
    takesPrecedenceOver a b = true ↔ a.rank ≠ 0 ∧ b.rank ≤ a.rank :=
  takesPrecedenceOver_iff a b

/-- Policies that passed validation always compile into an authorizer. -/
theorem authorizer_exists (ps : List Policy) (hv : AllValid ps) : ∃ z, newPolicyAuthorizer ps = some z :=
  newPolicyAuthorizer_some hv

/-- The merged policy holds at most one rule per (kind, exact/prefix, name) slot. -/
theorem merge_slot_unique (ps : List Policy) : NodupSlots (mergePolicies ps).rules :=
  mergePolicies_nodup ps

/-- A slot is empty after merging iff no policy has a rule for it. -/
theorem merge_slot_empty_iff (ps : List Policy) (k : Kind) (pfx : Bool) (n : Bytes) :
    findSlot (mergePolicies ps).rules k pfx n = none ↔
      ∀ p ∈ ps, ∀ r ∈ p.rules, inSlot k pfx n r = false := by
  rw [findSlot_merged, accRule_none]
  simp only [allRules, List.mem_flatMap]
  exact ⟨fun h p hp r hr => h r ⟨p, hp, hr⟩, fun h r ⟨p, hp, hr⟩ => h p hp r hr⟩

/-- merge_is_max: the policy string a slot ends up with is the string of one of the rules given for
    that slot, and no rule given for that slot by any policy is stronger. For all policy lists, in
    any order, with any duplicates. -/
theorem merge_is_max (ps : List Policy) (k : Kind) (pfx : Bool) (n : Bytes) (m : Rule)
    (h : findSlot (mergePolicies ps).rules k pfx n = some m) :
    (∃ p ∈ ps, ∃ r ∈ p.rules, inSlot k pfx n r = true ∧ m.pol = r.pol) ∧
    ∀ p ∈ ps, ∀ r ∈ p.rules, inSlot k pfx n r = true → r.pol.rank ≤ m.pol.rank := by
  rw [findSlot_merged] at h
  have o := accRule_spec (allRules ps) none (fun e he => by cases he) m h
  refine ⟨?_, fun p hp r hr hs => o.polMax r (List.mem_flatMap.mpr ⟨p, hp, hr⟩) hs⟩
  rcases o.polFrom with ⟨e, he, _⟩ | ⟨r, hr, hs, e⟩
  · cases he
  · obtain ⟨p, hp, hrp⟩ := List.mem_flatMap.mp hr
    exact ⟨p, hp, r, hrp, hs, e⟩

/-- The same for the `intentions` string of service rules (the empty string ranks lowest, so an
    explicit intentions level of any policy wins over "derive it from the service level"). -/
theorem merge_intentions_is_max (ps : List Policy) (pfx : Bool) (n : Bytes) (m : Rule)
    (h : findSlot (mergePolicies ps).rules .service pfx n = some m) :
    (∃ p ∈ ps, ∃ r ∈ p.rules, inSlot .service pfx n r = true ∧ m.intent = r.intent) ∧
    ∀ p ∈ ps, ∀ r ∈ p.rules, inSlot .service pfx n r = true → r.intent.rank ≤ m.intent.rank := by
  rw [findSlot_merged] at h
  have o := accRule_spec (allRules ps) none (fun e he => by cases he) m h
  refine ⟨?_, fun p hp r hr hs => o.intMax rfl r (List.mem_flatMap.mpr ⟨p, hp, hr⟩) hs⟩
  rcases o.intFrom with ⟨e, he, _⟩ | ⟨r, hr, hs, e⟩
  · cases he
  · obtain ⟨p, hp, hrp⟩ := List.mem_flatMap.mp hr
    exact ⟨p, hp, r, hrp, hs, e⟩

/-- The scalar rules (acl, keyring, operator, mesh, peering): the merged string is empty or the
    string of one policy, and at least as strong as every policy's. -/
theorem merge_scalar_is_max (ps : List Policy) (s : Scalar) :
    (s.get (mergePolicies ps) = .empty ∨ ∃ p ∈ ps, s.get (mergePolicies ps) = s.get p) ∧
    ∀ p ∈ ps, (s.get p).rank ≤ (s.get (mergePolicies ps)).rank :=
  merged_scalar_spec ps s

/-! ## 2. lookup: the exact rule wins, otherwise the longest matching prefix rule -/

/-- walk_eq_lookup: the radix walk of `getPolicy` over the tree of family `s` computes the
    specification `lookupSpec` on the merged slot levels (exact level of the name if there is one,
    else the level of the last — longest — prefix of the name that has a prefix rule). -/
theorem walk_eq_lookup (ps : List Policy) (z : Authz) (hz : newPolicyAuthorizer ps = some z)
    (s : TreeSel) (n : Bytes) :
    getPolicy (z.tree s) n =
      lookupSpec (slotLevel s.f (mergePolicies ps).rules s.kind false)
        (slotLevel s.f (mergePolicies ps).rules s.kind true) n :=
  (authz_treeOf hz s).getPolicy_eq n

/-- exact_wins: a merged exact rule for the name decides, whatever prefix rules exist. -/
theorem exact_wins (ps : List Policy) (z : Authz) (hz : newPolicyAuthorizer ps = some z)
    (s : TreeSel) (n : Bytes) (a : Access)
    (h : slotLevel s.f (mergePolicies ps).rules s.kind false n = some a) :
    getPolicy (z.tree s) n = some a := by
  rw [walk_eq_lookup ps z hz]; simp [lookupSpec, h]

/-- longest_prefix: without an exact rule for the name, the prefix rule with the longest name that is
    a prefix of the name decides. -/
theorem longest_prefix (ps : List Policy) (z : Authz) (hz : newPolicyAuthorizer ps = some z)
    (s : TreeSel) (n p : Bytes) (a : Access)
    (hex : slotLevel s.f (mergePolicies ps).rules s.kind false n = none)
    (hp : p <+: n) (ha : slotLevel s.f (mergePolicies ps).rules s.kind true p = some a)
    (hmax : ∀ q, q <+: n → slotLevel s.f (mergePolicies ps).rules s.kind true q ≠ none → q.length ≤ p.length) :
    getPolicy (z.tree s) n = some a := by
  rw [walk_eq_lookup ps z hz]
  simp only [lookupSpec, hex]
  exact foldl_stepPr_longest _ n p a hp ha hmax

/-- no applicable rule: neither an exact rule for the name nor a prefix rule for any of its prefixes. -/
theorem no_rule_no_decision (ps : List Policy) (z : Authz) (hz : newPolicyAuthorizer ps = some z)
    (s : TreeSel) (n : Bytes)
    (hex : slotLevel s.f (mergePolicies ps).rules s.kind false n = none)
    (hpr : ∀ q, q <+: n → slotLevel s.f (mergePolicies ps).rules s.kind true q = none) :
    getPolicy (z.tree s) n = none := by
  rw [walk_eq_lookup ps z hz]
  simp only [lookupSpec, hex]
  exact foldl_stepPr_noMatch _ n hpr

/-! ### the same, end to end: from the source policies to the decision -/

/-- the per-name requests that are answered by one tree lookup -/
def namedReq : TreeSel → Access → Bytes → Option Req
  | .agent, .read, n => some (.agentRead n)
  | .agent, .write, n => some (.agentWrite n)
  | .event, .read, n => some (.eventRead n)
  | .event, .write, n => some (.eventWrite n)
  | .intention, .read, n => some (.intentionRead n)
  | .intention, .write, n => some (.intentionWrite n)
  | .key, .read, n => some (.keyRead n)
  | .key, .list, n => some (.keyList n)
  | .key, .write, n => some (.keyWrite n)
  | .node, .read, n => some (.nodeRead n false)
  | .node, .write, n => some (.nodeWrite n)
  | .query, .read, n => some (.queryRead n)
  | .query, .write, n => some (.queryWrite n)
  | .service, .read, n => some (.serviceRead n false)
  | .service, .write, n => some (.serviceWrite n)
  | .session, .read, n => some (.sessionRead n)
  | .session, .write, n => some (.sessionWrite n)
  | _, _, _ => none

/-- such a request is `enforce` applied to the rule `getPolicy` finds (`*` is special for intentions) -/
theorem decide_namedReq (z : Authz) (s : TreeSel) (acc : Access) (n : Bytes) (r : Req)
    (h : namedReq s acc n = some r) (hstar : s = .intention → n ≠ star) :
    z.decide r = enforceOpt (getPolicy (z.tree s) n) acc := by
  cases s <;> cases acc <;> simp only [namedReq, Option.some.injEq, reduceCtorEq] at h <;> subst h <;>
    simp [Authz.decide, Authz.tree, check, intentionLike, hstar]

/-- `a` is the strongest level any policy gives to the slot -/
def Strongest (ps : List Policy) (k : Kind) (pfx : Bool) (n : Bytes) (a : Access) : Prop :=
  (∃ p ∈ ps, ∃ r ∈ p.rules, inSlot k pfx n r = true ∧ r.pol = .lvl a) ∧
  ∀ p ∈ ps, ∀ r ∈ p.rules, inSlot k pfx n r = true → r.pol.rank ≤ a.rank

/-- no policy has a rule for the slot -/
def NoRule (ps : List Policy) (k : Kind) (pfx : Bool) (n : Bytes) : Prop :=
  ∀ p ∈ ps, ∀ r ∈ p.rules, inSlot k pfx n r = false

theorem slotLevel_of_strongest (ps : List Policy) (hv : AllValid ps) (s : TreeSel) (hs : s.plain)
    (pfx : Bool) (n : Bytes) (a : Access) (h : Strongest ps s.kind pfx n a) :
    slotLevel s.f (mergePolicies ps).rules s.kind pfx n = some a := by
  obtain ⟨⟨p, hp, r, hr, hin, hra⟩, hmax⟩ := h
  cases hm : findSlot (mergePolicies ps).rules s.kind pfx n with
  | none =>
    have := (merge_slot_empty_iff ps s.kind pfx n).mp hm p hp r hr
    rw [this] at hin; cases hin
  | some m =>
    have ⟨⟨p', hp', r', hr', hin', e⟩, hmx⟩ := merge_is_max ps s.kind pfx n m hm
    have h1 := hmx p hp r hr hin
    have h2 := hmax p' hp' r' hr' hin'
    have hok := allRules_ok hv r' (List.mem_flatMap.mpr ⟨p', hp', hr'⟩)
    have : m.pol = .lvl a := by
      apply PStr.eq_of_rank
      · rw [e]; exact hok.pol_clean
      · simp [PStr.clean]
      · rw [hra] at h1; rw [← e] at h2; simp only [PStr.rank] at h1 h2 ⊢; omega
    simp [slotLevel, hm, plain_f hs, this, PStr.level]

theorem slotLevel_none_of_noRule (ps : List Policy) (s : TreeSel) (pfx : Bool) (n : Bytes)
    (h : NoRule ps s.kind pfx n) : slotLevel s.f (mergePolicies ps).rules s.kind pfx n = none := by
  simp [slotLevel, (merge_slot_empty_iff ps s.kind pfx n).mpr h]

theorem noRule_of_slotLevel_ne_none (ps : List Policy) (s : TreeSel) (pfx : Bool) (n : Bytes)
    (h : slotLevel s.f (mergePolicies ps).rules s.kind pfx n ≠ none) : ¬ NoRule ps s.kind pfx n :=
  fun hn => h (slotLevel_none_of_noRule ps s pfx n hn)

/-- exact rule, end to end: if some policy has an exact rule for the name, the decision is that of
    the strongest level the policies give to that exact name — prefix rules and the default policy
    play no part. -/
theorem exact_rule_decides (ps : List Policy) (hv : AllValid ps) (z : Authz)
    (hz : newPolicyAuthorizer ps = some z) (d : Static) (s : TreeSel) (hs : s.plain) (acc : Access)
    (n : Bytes) (r : Req) (hr : namedReq s acc n = some r) (a : Access)
    (h : Strongest ps s.kind false n a) : chain z d r = enforce a acc := by
  have hd := decide_namedReq z s acc n r hr (fun e => absurd e hs)
  have := exact_wins ps z hz s n a (slotLevel_of_strongest ps hv s hs false n a h)
  simp only [chain, hd, this, enforceOpt]
  cases a <;> cases acc <;> simp [enforce]

/-- longest prefix, end to end: no policy has an exact rule for the name; `p` is the longest rule
    name among the prefix rules of all policies that is a prefix of the name; then the decision is that
    of the strongest level the policies give to prefix `p`. -/
theorem longest_prefix_decides (ps : List Policy) (hv : AllValid ps) (z : Authz)
    (hz : newPolicyAuthorizer ps = some z) (d : Static) (s : TreeSel) (hs : s.plain) (acc : Access)
    (n : Bytes) (r : Req) (hr : namedReq s acc n = some r) (p : Bytes) (a : Access)
    (hex : NoRule ps s.kind false n) (hp : p <+: n) (ha : Strongest ps s.kind true p a)
    (hmax : ∀ q, q <+: n → ¬ NoRule ps s.kind true q → q.length ≤ p.length) :
    chain z d r = enforce a acc := by
  have hd := decide_namedReq z s acc n r hr (fun e => absurd e hs)
  have := longest_prefix ps z hz s n p a (slotLevel_none_of_noRule ps s false n hex) hp
    (slotLevel_of_strongest ps hv s hs true p a ha)
    (fun q hq hne => hmax q hq (noRule_of_slotLevel_ne_none ps s true q hne))
  simp only [chain, hd, this, enforceOpt]
  cases a <;> cases acc <;> simp [enforce]

/-! ### … and for the derived intention tree

A service rule implies an intention rule for the same name: its explicit `intentions` level if any
policy gives one for that slot (the strongest such level), otherwise `read` when the merged service
level is read or write and `deny` when it is deny. -/

/-- the intention level a service level implies when no policy states `intentions` explicitly -/
def impliedIntention : Access → Access
  | .read | .write => .read
  | _ => .deny

/-- `a` is the intention level the policies give to the service slot (exact/prefix, name) -/
def IntentionLevel (ps : List Policy) (pfx : Bool) (n : Bytes) (a : Access) : Prop :=
  ((∃ p ∈ ps, ∃ r ∈ p.rules, inSlot .service pfx n r = true ∧ r.intent = .lvl a) ∧
    ∀ p ∈ ps, ∀ r ∈ p.rules, inSlot .service pfx n r = true → r.intent.rank ≤ a.rank) ∨
  ((∀ p ∈ ps, ∀ r ∈ p.rules, inSlot .service pfx n r = true → r.intent = .empty) ∧
    ∃ b, Strongest ps .service pfx n b ∧ a = impliedIntention b)

theorem merged_pol_of_strongest (ps : List Policy) (hv : AllValid ps) (k : Kind) (pfx : Bool) (n : Bytes)
    (a : Access) (h : Strongest ps k pfx n a) (m : Rule)
    (hm : findSlot (mergePolicies ps).rules k pfx n = some m) : m.pol = .lvl a := by
  obtain ⟨⟨p, hp, r, hr, hin, hra⟩, hmax⟩ := h
  have ⟨⟨p', hp', r', hr', hin', e⟩, hmx⟩ := merge_is_max ps k pfx n m hm
  have h1 := hmx p hp r hr hin
  have h2 := hmax p' hp' r' hr' hin'
  have hok := allRules_ok hv r' (List.mem_flatMap.mpr ⟨p', hp', hr'⟩)
  apply PStr.eq_of_rank
  · rw [e]; exact hok.pol_clean
  · simp [PStr.clean]
  · rw [hra] at h1; rw [← e] at h2; simp only [PStr.rank] at h1 h2 ⊢; omega

theorem slotLevel_intention (ps : List Policy) (hv : AllValid ps) (pfx : Bool) (n : Bytes) (a : Access)
    (h : IntentionLevel ps pfx n a) :
    slotLevel intentionOf (mergePolicies ps).rules .service pfx n = some a := by
  have hne : ∃ p ∈ ps, ∃ r ∈ p.rules, inSlot .service pfx n r = true := by
    rcases h with ⟨⟨p, hp, r, hr, hin, _⟩, _⟩ | ⟨_, b, ⟨⟨p, hp, r, hr, hin, _⟩, _⟩, _⟩
    · exact ⟨p, hp, r, hr, hin⟩
    · exact ⟨p, hp, r, hr, hin⟩
  cases hm : findSlot (mergePolicies ps).rules .service pfx n with
  | none =>
    obtain ⟨p, hp, r, hr, hin⟩ := hne
    have := (merge_slot_empty_iff ps .service pfx n).mp hm p hp r hr
    rw [this] at hin; cases hin
  | some m =>
    have ⟨⟨p', hp', r', hr', hin', e⟩, hmx⟩ := merge_intentions_is_max ps pfx n m hm
    have hok := allRules_ok hv r' (List.mem_flatMap.mpr ⟨p', hp', hr'⟩)
    rcases h with ⟨⟨p, hp, r, hr, hin, hra⟩, hmax⟩ | ⟨hall, b, hb, hab⟩
    · have h1 := hmx p hp r hr hin
      have h2 := hmax p' hp' r' hr' hin'
      have hi : m.intent = .lvl a := by
        apply PStr.eq_of_rank
        · rw [e]; exact hok.intent_clean
        · simp [PStr.clean]
        · rw [hra] at h1; rw [← e] at h2; simp only [PStr.rank] at h1 h2 ⊢; omega
      simp [slotLevel, hm, intentionOf, hi, PStr.level]
    · have hi : m.intent = .empty := by rw [e]; exact hall p' hp' r' hr' hin'
      have hp := merged_pol_of_strongest ps hv .service pfx n b hb m hm
      subst hab
      cases b <;> simp [slotLevel, hm, intentionOf, hi, hp, PStr.level, impliedIntention]

/-- exact rule, end to end, for intentions (`IntentionRead` / `IntentionWrite` of a name other than `*`) -/
theorem intention_exact_rule_decides (ps : List Policy) (hv : AllValid ps) (z : Authz)
    (hz : newPolicyAuthorizer ps = some z) (d : Static) (acc : Access) (n : Bytes) (hn : n ≠ star)
    (r : Req) (hr : namedReq .intention acc n = some r) (a : Access) (h : IntentionLevel ps false n a) :
    chain z d r = enforce a acc := by
  have hd := decide_namedReq z .intention acc n r hr (fun _ => hn)
  have := exact_wins ps z hz .intention n a (slotLevel_intention ps hv false n a h)
  simp only [chain, hd, this, enforceOpt]
  cases a <;> cases acc <;> simp [enforce]

/-- longest prefix, end to end, for intentions -/
theorem intention_longest_prefix_decides (ps : List Policy) (hv : AllValid ps) (z : Authz)
    (hz : newPolicyAuthorizer ps = some z) (d : Static) (acc : Access) (n : Bytes) (hn : n ≠ star)
    (r : Req) (hr : namedReq .intention acc n = some r) (p : Bytes) (a : Access)
    (hex : NoRule ps .service false n) (hp : p <+: n) (ha : IntentionLevel ps true p a)
    (hmax : ∀ q, q <+: n → ¬ NoRule ps .service true q → q.length ≤ p.length) :
    chain z d r = enforce a acc := by
  have hd := decide_namedReq z .intention acc n r hr (fun _ => hn)
  have := longest_prefix ps z hz .intention n p a (slotLevel_none_of_noRule ps .intention false n hex) hp
    (slotLevel_intention ps hv true p a ha)
    (fun q hq hne => hmax q hq (noRule_of_slotLevel_ne_none ps .intention true q hne))
  simp only [chain, hd, this, enforceOpt]
  cases a <;> cases acc <;> simp [enforce]

/-- default_decides: with no applicable rule (no exact rule for the name, no prefix rule for any prefix
    of the name, in any policy) the policy authorizer abstains and the default policy decides. -/
theorem default_decides (ps : List Policy) (z : Authz) (hz : newPolicyAuthorizer ps = some z)
    (d : Static) (s : TreeSel) (acc : Access) (n : Bytes) (r : Req) (hr : namedReq s acc n = some r)
    (hstar : s = .intention → n ≠ star)
    (hex : NoRule ps s.kind false n) (hpr : ∀ q, q <+: n → NoRule ps s.kind true q) :
    z.decide r = .dflt ∧ chain z d r = d.decide r := by
  have hd := decide_namedReq z s acc n r hr hstar
  have := no_rule_no_decision ps z hz s n (slotLevel_none_of_noRule ps s false n hex)
    (fun q hq => slotLevel_none_of_noRule ps s true q (hpr q hq))
  have hz' : z.decide r = .dflt := by simp only [hd, this, enforceOpt]
  refine ⟨hz', ?_⟩
  simp only [chain, hz', Static.decide]
  cases (if r.isManage = true then d.allowManage else d.defaultAllow) <;> rfl

/-- the scalar rules: without any acl / keyring / operator rule the default policy decides -/
theorem default_decides_scalar (ps : List Policy) (z : Authz) (hz : newPolicyAuthorizer ps = some z)
    (hacl : ∀ p ∈ ps, p.acl = .empty) : z.decide .aclRead = .dflt ∧ z.decide .aclWrite = .dflt := by
  have hm : Scalar.acl.get (mergePolicies ps) = .empty := by
    rcases (merged_scalar_spec ps .acl).1 with h | ⟨p, hp, h⟩
    · exact h
    · rw [h]; exact hacl p hp
  have hl := (loadRules_parts _ z hz).2.2.1
  simp only [Scalar.get] at hm
  rw [hm] at hl
  simp only [loadScalar, if_true, Option.some.injEq] at hl
  simp [Authz.decide, ← hl, enforceOpt]

/-! ## 3. the order of the policies does not matter -/

/-- merge_perm: for every request — named lookups, the scalar rules, the whole-tree questions
    (`NodeReadAll`, `ServiceWriteAny`, `IntentionRead("*")`, …) and the prefix questions
    (`KeyWritePrefix`, `ServiceReadPrefix`) — and every default policy, any reordering of the policy
    list gives the same decision. -/
theorem merge_perm (ps ps' : List Policy) (h : ps.Perm ps') (hv : AllValid ps) (d : Static) (r : Req) :
    authorize ps d r = authorize ps' d r := by
  obtain ⟨z, hz⟩ := newPolicyAuthorizer_some hv
  obtain ⟨z', hz'⟩ := newPolicyAuthorizer_some (hv.perm h)
  have e := (authz_perm h hv hz hz').decide r
  simp [authorize, hz, hz', chain, e]

/-! ## 4. whole-tree and prefix questions are sound -/

/-- `KeyWritePrefix(p) = Allow` implies `KeyWrite(n) = Allow` for every key `n` under `p`. -/
theorem keyWritePrefix_sound (ps : List Policy) (z : Authz) (hz : newPolicyAuthorizer ps = some z)
    (p n : Bytes) (hpn : p <+: n) (h : z.decide (.keyWritePrefix p) = .allow) :
    z.decide (.keyWrite n) = .allow :=
  (authz_treeOf hz .key).keyWritePrefix_sound p n hpn h

/-- `ServiceReadPrefix(p) = Allow` implies `ServiceRead(n) = Allow` for every name `n` under `p`. -/
theorem serviceReadPrefix_sound (ps : List Policy) (z : Authz) (hz : newPolicyAuthorizer ps = some z)
    (p n : Bytes) (hpn : p <+: n) (h : z.decide (.serviceReadPrefix p) = .allow) :
    z.decide (.serviceRead n false) = .allow :=
  (authz_treeOf hz .service).serviceReadPrefix_sound p n hpn h

/-- `NodeReadAll = Allow` implies `NodeRead(n) = Allow` for every node name. -/
theorem nodeReadAll_sound (ps : List Policy) (z : Authz) (hz : newPolicyAuthorizer ps = some z)
    (n : Bytes) (h : z.decide .nodeReadAll = .allow) : z.decide (.nodeRead n false) = .allow :=
  (authz_treeOf hz .node).allAllowed_read_sound n h

/-- `ServiceReadAll = Allow` implies `ServiceRead(n) = Allow` for every service name. -/
theorem serviceReadAll_sound (ps : List Policy) (z : Authz) (hz : newPolicyAuthorizer ps = some z)
    (n : Bytes) (h : z.decide .serviceReadAll = .allow) : z.decide (.serviceRead n false) = .allow :=
  (authz_treeOf hz .service).allAllowed_read_sound n h

/-- `ServiceWriteAny = Allow` iff some merged service rule (exact or prefix) grants write. -/
theorem serviceWriteAny_iff (ps : List Policy) (z : Authz) (hz : newPolicyAuthorizer ps = some z) :
    z.decide .serviceWriteAny = .allow ↔
      ∃ n, slotLevel (·.pol) (mergePolicies ps).rules .service false n = some .write ∨
           slotLevel (·.pol) (mergePolicies ps).rules .service true n = some .write :=
  (authz_treeOf hz .service).anyAllowed_write_iff

/-! ## 5. caches: decisions are a pure function of the token's own policies, roles, identities -/

/-- `ResolveToken` without any cache: the definition of "a function of the token's own links" -/
def resolveFresh (s : Store) (dc : Bytes) (secret : Bytes) : Except ResolveErr Authz :=
  if secret ∈ rootNames then .error .root
  else
    match s.token (if secret = [] then anonymousToken else secret) with
    | none => .error .notFound
    | some t =>
      match compileFresh (policiesFor s dc t) with
      | none => .error .compile
      | some z => .ok z

/-- compile_pure: `ACLPolicies.Compile` through caches that satisfy `CacheInv` returns exactly what
    parsing and compiling the same documents without caches returns. -/
theorem compile_pure (U : Doc → Prop) (hV : Versioned U) (c : Caches) (hc : CacheInv U c) (ds : List Doc)
    (hU : ∀ d ∈ ds, U d) : (compile c ds).authz = compileFresh ds :=
  (compile_spec hV c hc ds hU).1

/-- … and leaves caches that satisfy `CacheInv` (this is what the repaired aliasing defect broke: the
    merge mutated a cached parsed policy, so the cache no longer held `parse` of its key). -/
theorem compile_preserves_cache_inv (U : Doc → Prop) (hV : Versioned U) (c : Caches) (hc : CacheInv U c)
    (ds : List Doc) (hU : ∀ d ∈ ds, U d) : CacheInv U (compile c ds).caches :=
  (compile_spec hV c hc ds hU).2

theorem resolveToken_spec (U : Doc → Prop) (hV : Versioned U) (s : Store) (dc : Bytes) (c : Caches)
    (hc : CacheInv U c) (secret : Bytes) (hU : ∀ t, ∀ d ∈ policiesFor s dc t, U d) :
    (resolveToken s dc c secret).2 = resolveFresh s dc secret ∧ CacheInv U (resolveToken s dc c secret).1 := by
  by_cases hr : secret ∈ rootNames
  · have e1 : resolveToken s dc c secret = (c, .error .root) := by simp [resolveToken, hr]
    have e2 : resolveFresh s dc secret = .error .root := by simp [resolveFresh, hr]
    rw [e1, e2]; exact ⟨rfl, hc⟩
  · cases ht : s.token (if secret = [] then anonymousToken else secret) with
    | none =>
      have e1 : resolveToken s dc c secret = (c, .error .notFound) := by simp [resolveToken, hr, ht]
      have e2 : resolveFresh s dc secret = .error .notFound := by simp [resolveFresh, hr, ht]
      rw [e1, e2]; exact ⟨rfl, hc⟩
    | some t =>
      have ⟨h1, h2⟩ := compile_spec hV c hc (policiesFor s dc t) (hU t)
      cases hz : (compile c (policiesFor s dc t)).authz with
      | none =>
        rw [hz] at h1
        have e1 : resolveToken s dc c secret = ((compile c (policiesFor s dc t)).caches, .error .compile) := by
          simp [resolveToken, hr, ht, hz]
        have e2 : resolveFresh s dc secret = .error .compile := by simp [resolveFresh, hr, ht, ← h1]
        rw [e1, e2]; exact ⟨rfl, h2⟩
      | some z =>
        rw [hz] at h1
        have e1 : resolveToken s dc c secret = ((compile c (policiesFor s dc t)).caches, .ok z) := by
          simp [resolveToken, hr, ht, hz]
        have e2 : resolveFresh s dc secret = .ok z := by simp [resolveFresh, hr, ht, ← h1]
        rw [e1, e2]; exact ⟨rfl, h2⟩

/-- resolve_pure: whatever was resolved before (any cache contents satisfying `CacheInv`, in
    particular the caches left by any earlier resolutions of any other tokens), `ResolveToken`
    returns the cache-free function of the token's own policies, roles and identities. -/
theorem resolve_pure (U : Doc → Prop) (hV : Versioned U) (s : Store) (dc : Bytes) (c : Caches)
    (hc : CacheInv U c) (secret : Bytes) (hU : ∀ t, ∀ d ∈ policiesFor s dc t, U d) :
    (resolveToken s dc c secret).2 = resolveFresh s dc secret :=
  (resolveToken_spec U hV s dc c hc secret hU).1

theorem resolve_preserves_cache_inv (U : Doc → Prop) (hV : Versioned U) (s : Store) (dc : Bytes) (c : Caches)
    (hc : CacheInv U c) (secret : Bytes) (hU : ∀ t, ∀ d ∈ policiesFor s dc t, U d) :
    CacheInv U (resolveToken s dc c secret).1 :=
  (resolveToken_spec U hV s dc c hc secret hU).2

/-- own_links_only: the cache-free result depends on the rest of the system only through the token
    itself, the roles it links and the policies the token and these roles link — other tokens, other
    roles and other policies are irrelevant. Together with `resolve_pure` this is the statement that a
    decision is a function of the token's own policies, roles and identities. -/
theorem own_links_only (s s' : Store) (dc secret : Bytes)
    (ht : s.token (if secret = [] then anonymousToken else secret) = s'.token (if secret = [] then anonymousToken else secret))
    (hr : ∀ t, s.token (if secret = [] then anonymousToken else secret) = some t →
      ∀ rid ∈ t.roles, s.role rid = s'.role rid)
    (hd : ∀ t, s.token (if secret = [] then anonymousToken else secret) = some t →
      ∀ pid ∈ t.policies ++ (t.roles.filterMap s.role).flatMap (·.policies), s.doc pid = s'.doc pid) :
    resolveFresh s dc secret = resolveFresh s' dc secret := by
  unfold resolveFresh
  rw [← ht]
  cases h : s.token (if secret = [] then anonymousToken else secret) with
  | none => rfl
  | some t => simp only [policiesFor_congr s s' dc t (hr t h) (hd t h)]

/-- Eviction at any time, of any entries, keeps `CacheInv`. -/
theorem eviction_preserves_cache_inv (U : Doc → Prop) (c : Caches) (hc : CacheInv U c)
    (fp : CKey × Policy → Bool) (fa : AKey × Authz → Bool) :
    CacheInv U ⟨c.parsed.filter fp, c.authz.filter fa⟩ :=
  hc.subset (fun _ h => (List.mem_filter.mp h).1) (fun _ h => (List.mem_filter.mp h).1)

/-! ### whole histories -/

/-- what can happen between resolutions -/
inductive Op
  | putDoc (d : Doc) | delDoc (id : Bytes) | putRole (r : Role) | putToken (t : Token)
  | evict (fp : CKey × Policy → Bool) (fa : AKey × Authz → Bool)
  | resolve (secret : Bytes)

def stepStore (s : Store) : Op → Store
  | .putDoc d => s.putDoc d
  | .delDoc id => s.delDoc id
  | .putRole r => s.putRole r
  | .putToken t => s.putToken t
  | _ => s

/-- run a history through ONE pair of caches; collect what every resolution returned -/
def runOps (dc : Bytes) : Store → Caches → List Op → List (Except ResolveErr Authz)
  | _, _, [] => []
  | s, c, .resolve secret :: ops =>
    let (c', r) := resolveToken s dc c secret
    r :: runOps dc s c' ops
  | s, c, .evict fp fa :: ops => runOps dc s ⟨c.parsed.filter fp, c.authz.filter fa⟩ ops
  | s, c, op :: ops => runOps dc (stepStore s op) c ops

/-- the same history where every resolution is computed from scratch -/
def specOps (dc : Bytes) : Store → List Op → List (Except ResolveErr Authz)
  | _, [] => []
  | s, .resolve secret :: ops => resolveFresh s dc secret :: specOps dc s ops
  | s, op :: ops => specOps dc (stepStore s op) ops

theorem stepStore_docs (U : Doc → Prop) (s : Store) (hs : ∀ d ∈ s.docs, U d) (op : Op)
    (hop : ∀ d, op = .putDoc d → U d) : ∀ d ∈ (stepStore s op).docs, U d := by
  intro d hd
  cases op with
  | putDoc x =>
    simp only [stepStore, Store.putDoc, List.mem_cons, List.mem_filter] at hd
    rcases hd with rfl | hd
    · exact hop d rfl
    · exact hs d hd.1
  | delDoc id =>
    simp only [stepStore, Store.delDoc, List.mem_filter] at hd
    exact hs d hd.1
  | putRole r => exact hs d hd
  | putToken t => exact hs d hd
  | evict _ _ => exact hs d hd
  | resolve _ => exact hs d hd

/-- sequence_pure: for every history of policy / role / token writes, deletions, cache evictions and
    token resolutions through the same caches — where tokens may share policies, roles and identities
    in any way — every resolution returns exactly what a resolution from scratch returns at that
    point. `U` is the universe of policy versions: everything ever written plus the synthetic
    policies; `Versioned U` is the Raft guarantee that (id, ModifyIndex) identifies the content. -/
theorem sequence_pure (U : Doc → Prop) (hV : Versioned U) (hsvc : ∀ x, U (svcDoc x)) (hnode : ∀ x, U (nodeDoc x))
    (htp : ∀ x, U (tpDoc x))
    (dc : Bytes) (ops : List Op) (hops : ∀ d, Op.putDoc d ∈ ops → U d)
    (s : Store) (hs : ∀ d ∈ s.docs, U d) (c : Caches) (hc : CacheInv U c) :
    runOps dc s c ops = specOps dc s ops := by
  induction ops generalizing s c with
  | nil => rfl
  | cons op ops ih =>
    have hops' : ∀ d, Op.putDoc d ∈ ops → U d := fun d hd => hops d (List.mem_cons_of_mem _ hd)
    cases op with
    | resolve secret =>
      have hU := policiesFor_sub U hsvc hnode htp s hs dc
      have ⟨h1, h2⟩ := resolveToken_spec U hV s dc c hc secret hU
      simp only [runOps, specOps]
      rw [h1, ih hops' s hs _ h2]
    | evict fp fa =>
      simp only [runOps, specOps, stepStore]
      exact ih hops' s hs _ (eviction_preserves_cache_inv U c hc fp fa)
    | putDoc d =>
      simp only [runOps, specOps]
      exact ih hops' _ (stepStore_docs U s hs _ (fun x hx => by cases hx; exact hops d List.mem_cons_self)) c hc
    | delDoc id =>
      simp only [runOps, specOps]
      exact ih hops' _ (stepStore_docs U s hs _ (fun x hx => by cases hx)) c hc
    | putRole r =>
      simp only [runOps, specOps]
      exact ih hops' _ (stepStore_docs U s hs _ (fun x hx => by cases hx)) c hc
    | putToken t =>
      simp only [runOps, specOps]
      exact ih hops' _ (stepStore_docs U s hs _ (fun x hx => by cases hx)) c hc

/-- a service identity is rendered through the `builtin/service` template: same synthetic policy -/
theorem svcDoc_eq_tpDoc (x : SvcId) : svcDoc x = tpDoc ⟨.service, x.name, x.dcs⟩ := rfl

/-- a node identity is rendered through the `builtin/node` template, scoped to its datacenter -/
theorem nodeDoc_eq_tpDoc (x : NodeId) : nodeDoc x = tpDoc ⟨.node, x.name, [x.dc]⟩ := rfl

/-- the universe "written versions + every synthetic policy" -/
def HistU (hist : List Doc) (d : Doc) : Prop := d ∈ hist ∨ ∃ x, d = tpDoc x

theorem HistU.svc (hist : List Doc) (x : SvcId) : HistU hist (svcDoc x) := .inr ⟨_, svcDoc_eq_tpDoc x⟩
theorem HistU.node (hist : List Doc) (x : NodeId) : HistU hist (nodeDoc x) := .inr ⟨_, nodeDoc_eq_tpDoc x⟩
theorem HistU.tp (hist : List Doc) (x : TpId) : HistU hist (tpDoc x) := .inr ⟨x, rfl⟩

/-- The hypotheses of `sequence_pure` are satisfiable by every real history: if the written versions
    are pairwise consistent (same id and ModifyIndex ⇒ same rules — Raft bumps the index on every
    write) and real ids do not collide with the hash-derived ids of synthetic policies (the six
    template tags), the universe "written versions + all synthetic policies" is `Versioned`: the id of
    a synthetic policy determines its rules, whichever identity or templated policy produced it. -/
theorem versioned_history (hist : List Doc)
    (hcons : ∀ d ∈ hist, ∀ e ∈ hist, d.id = e.id → d.modIdx = e.modIdx → d.rules = e.rules)
    (hids : ∀ d ∈ hist, ∀ (k : Nat) (n : Bytes), k < 6 → d.id ≠ k :: n) :
    Versioned (HistU hist) := by
  have htag : ∀ t : Tmpl, t.tag < 6 := by intro t; cases t <;> decide
  intro d e hd he hid hmi
  rcases hd with hd | ⟨x, rfl⟩ <;> rcases he with he | ⟨y, rfl⟩
  · exact hcons d hd e he hid hmi
  · exact absurd hid (hids d hd _ _ (htag y.tmpl))
  · exact absurd hid.symm (hids e he _ _ (htag x.tmpl))
  · simp only [tpDoc, List.cons.injEq] at hid ⊢
    obtain ⟨h1, h2⟩ := hid
    have ht : x.tmpl = y.tmpl := by
      revert h1; cases x.tmpl <;> cases y.tmpl <;> simp [Tmpl.tag]
    rw [ht, h2]


/-! ## 5a. templated policies (`ACLTemplatedPolicies.Deduplicate`, `ACLTemplatedPolicy.SyntheticPolicy`)

Tokens and roles may carry templated policies (six builtin templates). `resolvePoliciesForIdentity`
concatenates the token's own list with those of its roles (in collection order — Go map order for
roles fetched by RPC), de-duplicates and renders one synthetic policy per surviving entry.
`sequence_pure`, `resolve_pure`, `own_links_only`, `resolve_rpc_pure` and `rpc_sequence_pure` above
cover these tokens (hypothesis `htp`, met by `HistU`). This section proves that the grants do not
depend on the order of the links. (Found in this round and repaired in /repo 13d014a: `Deduplicate`
used to key on template + variables only and keep the first entry, so the datacenter scope of a
templated policy depended on link order.) -/

theorem dedupTpsAux_mem (xs : List TpId) (seen : List TpId) :
    ∀ t ∈ dedupTpsAux seen xs, t ∈ xs ∧ seen.any (fun s => s.dup t) = false := by
  induction xs generalizing seen with
  | nil => intro t h; simp [dedupTpsAux] at h
  | cons x ts ih =>
    intro t h
    unfold dedupTpsAux at h
    by_cases hs : seen.any (fun s => s.dup x) = true
    · rw [if_pos hs] at h
      exact ⟨List.mem_cons_of_mem _ (ih seen t h).1, (ih seen t h).2⟩
    · rw [if_neg hs] at h
      rcases List.mem_cons.mp h with rfl | h
      · exact ⟨List.mem_cons_self, by simpa using hs⟩
      · have := ih (x :: seen) t h
        refine ⟨List.mem_cons_of_mem _ this.1, ?_⟩
        have h2 := this.2
        simp only [List.any_cons, Bool.or_eq_false_iff] at h2
        exact h2.2

/-- nothing is invented: every surviving templated policy is one of the token's own links -/
theorem tp_dedup_sub (xs : List TpId) : ∀ t ∈ dedupTps xs, t ∈ xs :=
  fun t h => (dedupTpsAux_mem xs [] t h).1

theorem sameScope_refl (a : List Bytes) : sameScope a a = true := by
  simp [sameScope]

theorem TpId.dup_refl (t : TpId) : t.dup t = true := by
  simp [TpId.dup, sameScope_refl]

theorem dedupTpsAux_complete (xs : List TpId) (seen : List TpId) :
    ∀ t ∈ xs, seen.any (fun s => s.dup t) = true ∨ ∃ e ∈ dedupTpsAux seen xs, e.dup t = true := by
  induction xs generalizing seen with
  | nil => intro t h; cases h
  | cons x ts ih =>
    intro t h
    unfold dedupTpsAux
    by_cases hs : seen.any (fun s => s.dup x) = true
    · rw [if_pos hs]
      rcases List.mem_cons.mp h with rfl | h
      · exact .inl hs
      · exact ih seen t h
    · rw [if_neg hs]
      rcases List.mem_cons.mp h with rfl | h
      · exact .inr ⟨t, List.mem_cons_self, t.dup_refl⟩
      · rcases ih (x :: seen) t h with h1 | ⟨e, he, hd⟩
        · simp only [List.any_cons, Bool.or_eq_true] at h1
          rcases h1 with h1 | h1
          · exact .inr ⟨x, List.mem_cons_self, h1⟩
          · exact .inl h1
        · exact .inr ⟨e, List.mem_cons_of_mem _ he, hd⟩

/-- nothing is lost: every link is represented by a surviving entry with the same template, the same
    variables and the same datacenter scope -/
theorem tp_dedup_complete (xs : List TpId) (t : TpId) (ht : t ∈ xs) : ∃ e ∈ dedupTps xs, e.dup t = true := by
  rcases dedupTpsAux_complete xs [] t ht with h | h
  · simp at h
  · exact h

theorem dedupTpsAux_pairwise (xs : List TpId) (seen : List TpId) :
    (dedupTpsAux seen xs).Pairwise (fun a b => a.dup b = false) := by
  induction xs generalizing seen with
  | nil => simp [dedupTpsAux]
  | cons x ts ih =>
    unfold dedupTpsAux
    by_cases hs : seen.any (fun s => s.dup x) = true
    · rw [if_pos hs]; exact ih seen
    · rw [if_neg hs, List.pairwise_cons]
      refine ⟨?_, ih _⟩
      intro b hb
      have := (dedupTpsAux_mem ts (x :: seen) b hb).2
      simp only [List.any_cons, Bool.or_eq_false_iff] at this
      exact this.1

/-- no two surviving entries are duplicates of each other -/
theorem tp_dedup_no_duplicates (xs : List TpId) : (dedupTps xs).Pairwise (fun a b => a.dup b = false) :=
  dedupTpsAux_pairwise xs []

/-- the rendered templates always validate: a token that links only identities and templated policies
    can never fail with "failed to parse" -/
theorem tp_template_valid (t : Tmpl) (n : Bytes) : (tpTemplate t n).valid = true := by
  cases t <;> rfl

/-- `filterPoliciesByScope` keeps a policy iff it has no datacenter list or lists the local datacenter -/
theorem mem_filterByScope_iff (dc : Bytes) (ds : List Doc) (d : Doc) :
    d ∈ filterByScope dc ds ↔ d ∈ ds ∧ (d.dcs = [] ∨ dc ∈ d.dcs) := by
  simp only [filterByScope, List.mem_flatMap]
  constructor
  · rintro ⟨x, hx, hd⟩
    by_cases he : x.dcs.isEmpty = true
    · rw [if_pos he, List.mem_singleton] at hd
      subst hd
      exact ⟨hx, .inl (List.isEmpty_iff.mp he)⟩
    · rw [if_neg he] at hd
      obtain ⟨y, hy, rfl⟩ := List.mem_map.mp hd
      have := List.mem_filter.mp hy
      exact ⟨hx, .inr (by have h2 := this.2; simp at h2; exact h2 ▸ this.1)⟩
  · rintro ⟨hd, hs⟩
    refine ⟨d, hd, ?_⟩
    by_cases he : d.dcs.isEmpty = true
    · rw [if_pos he]; exact List.mem_singleton.mpr rfl
    · rw [if_neg he]
      rcases hs with hs | hs
      · exact absurd (List.isEmpty_iff.mpr hs) he
      · exact List.mem_map.mpr ⟨dc, List.mem_filter.mpr ⟨hs, by simp⟩, rfl⟩

/-- duplicates are in scope in the same datacenters -/
theorem dup_scope {s t : TpId} (h : s.dup t = true) (dc : Bytes) :
    (s.dcs = [] ∨ dc ∈ s.dcs) ↔ (t.dcs = [] ∨ dc ∈ t.dcs) := by
  simp only [TpId.dup, sameScope, Bool.and_eq_true, List.all_eq_true, List.contains_iff_mem,
    decide_eq_true_eq] at h
  obtain ⟨⟨_, hst, hts⟩, _⟩ := h
  constructor
  · rintro (h | h)
    · left
      cases htd : t.dcs with
      | nil => rfl
      | cons y ys =>
        have := hts y (by rw [htd]; exact List.mem_cons_self)
        rw [h] at this; cases this
    · exact .inr (hst dc h)
  · rintro (h | h)
    · left
      cases hsd : s.dcs with
      | nil => rfl
      | cons y ys =>
        have := hst y (by rw [hsd]; exact List.mem_cons_self)
        rw [h] at this; cases this
    · exact .inr (hts dc h)

/-- what a templated policy grants, and where: the rendered rules of every link in scope -/
theorem tp_granted_iff (xs : List TpId) (dc : Bytes) (p : Policy) :
    p ∈ (filterByScope dc ((dedupTps xs).map tpDoc)).map (·.rules) ↔
      ∃ t ∈ xs, (t.dcs = [] ∨ dc ∈ t.dcs) ∧ tpTemplate t.tmpl t.keyName = p := by
  simp only [List.mem_map, mem_filterByScope_iff]
  constructor
  · rintro ⟨d, ⟨⟨t, ht, rfl⟩, hs⟩, rfl⟩
    exact ⟨t, tp_dedup_sub xs t ht, hs, rfl⟩
  · rintro ⟨t, ht, hs, rfl⟩
    obtain ⟨e, he, hd⟩ := tp_dedup_complete xs t ht
    refine ⟨tpDoc e, ⟨⟨e, he, rfl⟩, (dup_scope hd dc).mpr hs⟩, ?_⟩
    simp only [TpId.dup, Bool.and_eq_true, decide_eq_true_eq] at hd
    simp only [tpDoc, hd.1.1, hd.2]

/-- ORDER INDEPENDENCE of templated policies: in every datacenter the set of rule sets granted through
    templated policies is the same for every order of the links (token list, role links, lists inside
    the roles: any permutation of the concatenation) — with `merge_perm` (the order and multiplicity
    of the merged policies is irrelevant) the decision does not depend on link order. -/
theorem tp_link_order_irrelevant (xs ys : List TpId) (hp : xs.Perm ys) (dc : Bytes) (p : Policy) :
    p ∈ (filterByScope dc ((dedupTps xs).map tpDoc)).map (·.rules) ↔
      p ∈ (filterByScope dc ((dedupTps ys).map tpDoc)).map (·.rules) := by
  rw [tp_granted_iff, tp_granted_iff]
  constructor
  · rintro ⟨t, ht, h⟩; exact ⟨t, hp.mem_iff.mp ht, h⟩
  · rintro ⟨t, ht, h⟩; exact ⟨t, hp.mem_iff.mpr ht, h⟩

/-- regression witness of the repaired defect: roles `R1` = builtin/service{web}@dc1, `R2` =
    builtin/service{web}@dc2, resolver in dc2. The token linking [R1, R2] and the token linking
    [R2, R1] are both allowed `service:write web` (the defective code denied the first one). -/
def dc1 : Bytes := [100, 99, 49]
def dc2 : Bytes := [100, 99, 50]
def webB : Bytes := [119, 101, 98]
def roleR1 : Role := ⟨[1], [], [], [], [⟨.service, webB, [dc1]⟩]⟩
def roleR2 : Role := ⟨[2], [], [], [], [⟨.service, webB, [dc2]⟩]⟩
def tok12 : Token := ⟨[97], [], [[1], [2]], [], [], []⟩
def tok21 : Token := ⟨[98], [], [[2], [1]], [], [], []⟩
def orderOps : List Op := [.putRole roleR1, .putRole roleR2, .putToken tok12, .putToken tok21, .resolve [97], .resolve [98]]

theorem tp_scope_link_order_witness :
    (runOps dc2 Store.empty Caches.empty orderOps).map
      (fun r => match r with
        | .ok z => some (chain z .denyAll (.serviceWrite webB))
        | .error _ => none) = [some .allow, some .allow] ∧
    (runOps dc1 Store.empty Caches.empty orderOps).map
      (fun r => match r with
        | .ok z => some (chain z .denyAll (.serviceWrite webB))
        | .error _ => none) = [some .allow, some .allow] := by
  decide

/-- scopes that are the same set in a different spelling are duplicates, different sets are not -/
example : dedupTps [⟨.dns, [], [dc2, dc1, dc1]⟩, ⟨.dns, webB, [dc1, dc2]⟩, ⟨.dns, [], []⟩, ⟨.service, webB, [dc1]⟩,
    ⟨.service, webB, [dc1]⟩, ⟨.apiGateway, webB, [dc1]⟩] =
    [⟨.dns, [], [dc2, dc1, dc1]⟩, ⟨.dns, [], []⟩, ⟨.service, webB, [dc1]⟩, ⟨.apiGateway, webB, [dc1]⟩] := by decide


/-! ## 5b. RPC mode: the TTL caches for identities, roles and policies

`resolveRpc` (CV.AclRpc) is `ResolveToken` when nothing resolves locally: the token, its roles and its
policies are fetched from the servers and kept for their TTL (`Age() <= ACLTokenTTL`, `Age() <
ACLRoleTTL`, `Age() < ACLPolicyTTL`; negative answers included, re-fetched once aged). The decision can
then only be a function of the token's own objects *as of the freshest data the TTL contract allows*.
`trace` is the history of (clock, server state) moments; `InWindow trace now ttl get v` says that `v`
is what `get` read from the server state at some moment whose clock `t'` satisfies
`now - ttl ≤ t' ≤ now`. -/

/-- what the TTL contract promises about the answer `res` of a resolution of `secret` at clock `now` -/
def Admissible (cfg : RpcCfg) (trace : List Snap) (now : Nat) (secret : Bytes) (res : RpcResult) : Prop :=
  ∃ (tokV : Bytes → Option Token) (roleV : Bytes → Option Role) (docV : Bytes → Option Doc),
    (∀ k, InWindow trace now cfg.tokenTTL (fun st => st.token k) (tokV k)) ∧
    (∀ k, InWindow trace now cfg.roleTTL (fun st => st.role k) (roleV k)) ∧
    (∀ k, InWindow trace now cfg.policyTTL (fun st => st.doc k) (docV k)) ∧
    res = RpcResult.ofExcept (resolveFreshV tokV roleV docV cfg.dc secret)

/-- resolve_rpc_pure: with reachable servers and a down policy that waits for the servers
    (`extend-cache`, `allow`, `deny`), whatever the identity / role / policy / parsed-policy /
    authorizer caches hold from earlier resolutions of any tokens (any state satisfying `RpcInv`), the
    answer equals the cache-free resolution against a view in which each object consulted — the token,
    every role id, every policy id — has the value the servers held at some moment within that object's
    TTL window. The shared compile caches never show (`compile_pure`). -/
theorem resolve_rpc_pure (U : Doc → Prop) (hV : Versioned U) (hsvc : ∀ x, U (svcDoc x)) (hnode : ∀ x, U (nodeDoc x))
    (htp : ∀ x, U (tpDoc x))
    (cfg : RpcCfg) (hna : cfg.isAsync = false) (trace : List Snap) (now : Nat) (s : Store) (st : RpcState)
    (inv : RpcInv U trace now st) (hcur : (now, s) ∈ trace) (secret : Bytes) :
    Admissible cfg trace now secret (resolveRpc cfg true s now st secret).2 :=
  ⟨viewTok st.idents now cfg.tokenTTL s.token, viewOf st.roles now cfg.roleTTL s.role,
    viewOf st.pols now cfg.policyTTL s.doc,
    fun k => viewTok_window trace now cfg.tokenTTL s hcur inv.times st.idents inv.idents k,
    fun k => viewOf_window trace now cfg.roleTTL s hcur inv.times (fun st k => st.role k) st.roles inv.roles k,
    fun k => viewOf_window trace now cfg.policyTTL s hcur inv.times (fun st k => st.doc k) st.pols inv.pols k,
    (resolveRpc_up_spec U hV hsvc hnode htp cfg hna trace now s st inv hcur secret).1⟩

/-- … and leaves caches that satisfy the invariant again. -/
theorem resolve_rpc_preserves_inv (U : Doc → Prop) (hV : Versioned U) (hsvc : ∀ x, U (svcDoc x)) (hnode : ∀ x, U (nodeDoc x))
    (htp : ∀ x, U (tpDoc x))
    (cfg : RpcCfg) (hna : cfg.isAsync = false) (trace : List Snap) (now : Nat) (s : Store) (st : RpcState)
    (inv : RpcInv U trace now st) (hcur : (now, s) ∈ trace) (secret : Bytes) :
    RpcInv U trace now (resolveRpc cfg true s now st secret).1 :=
  (resolveRpc_up_spec U hV hsvc hnode htp cfg hna trace now s st inv hcur secret).2

/-- resolve_rpc_zero_ttl: with all three TTLs zero the answer is the cache-free resolution against
    the servers' state at the current clock — the current state `s`, provided no write happened earlier
    within the same clock value (real time always advances between two operations). -/
theorem resolve_rpc_zero_ttl (U : Doc → Prop) (hV : Versioned U) (hsvc : ∀ x, U (svcDoc x)) (hnode : ∀ x, U (nodeDoc x))
    (htp : ∀ x, U (tpDoc x))
    (cfg : RpcCfg) (hna : cfg.isAsync = false) (h0 : cfg.tokenTTL = 0 ∧ cfg.roleTTL = 0 ∧ cfg.policyTTL = 0)
    (trace : List Snap) (now : Nat) (s : Store) (st : RpcState)
    (inv : RpcInv U trace now st) (hcur : (now, s) ∈ trace) (hfresh : ∀ p ∈ trace, p.1 = now → p.2 = s)
    (secret : Bytes) :
    (resolveRpc cfg true s now st secret).2 = RpcResult.ofExcept (resolveFresh s cfg.dc secret) := by
  rw [(resolveRpc_up_spec U hV hsvc hnode htp cfg hna trace now s st inv hcur secret).1]
  have w1 := fun k => viewTok_window trace now cfg.tokenTTL s hcur inv.times st.idents inv.idents k
  have w2 := fun k => viewOf_window trace now cfg.roleTTL s hcur inv.times (fun st k => st.role k) st.roles inv.roles k
  have w3 := fun k => viewOf_window trace now cfg.policyTTL s hcur inv.times (fun st k => st.doc k) st.pols inv.pols k
  rw [h0.1] at w1; rw [h0.2.1] at w2; rw [h0.2.2] at w3
  have e1 : viewTok st.idents now cfg.tokenTTL s.token = s.token := by
    rw [h0.1]; exact funext fun k => (w1 k).zero hfresh
  have e2 : viewOf st.roles now cfg.roleTTL s.role = s.role := by
    rw [h0.2.1]; exact funext fun k => (w2 k).zero hfresh
  have e3 : viewOf st.pols now cfg.policyTTL s.doc = s.doc := by
    rw [h0.2.2]; exact funext fun k => (w3 k).zero hfresh
  rw [e1, e2, e3]
  rfl

/-! ### whole RPC-mode histories -/

inductive ROp
  | putDoc (d : Doc) | delDoc (id : Bytes) | putRole (r : Role) | delRole (id : Bytes)
  | putToken (t : Token) | delToken (secret : Bytes)
  | tick (n : Nat)
  | resolve (secret : Bytes)

def ROp.write (s : Store) : ROp → Store
  | .putDoc d => s.putDoc d
  | .delDoc id => s.delDoc id
  | .putRole r => s.putRole r
  | .delRole id => s.delRole id
  | .putToken t => s.putToken t
  | .delToken x => s.delToken x
  | _ => s

/-- one resolution of a history, with the history up to it -/
structure Resolution where
  trace : List Snap
  now : Nat
  secret : Bytes
  res : RpcResult

/-- run a history with reachable servers through ONE resolver; every write and every clock advance is
    a new moment of the trace -/
def runRpc (cfg : RpcCfg) : Store → Nat → List Snap → RpcState → List ROp → List Resolution
  | _, _, _, _, [] => []
  | s, now, trace, st, .resolve secret :: ops =>
    let r := resolveRpc cfg true s now st secret
    ⟨trace, now, secret, r.2⟩ :: runRpc cfg s now trace r.1 ops
  | s, now, trace, st, .tick n :: ops => runRpc cfg s (now + n) ((now + n, s) :: trace) st ops
  | s, now, trace, st, op :: ops => runRpc cfg (op.write s) now ((now, op.write s) :: trace) st ops

/-- rpc_sequence_pure: in every history of writes, deletions, clock advances and resolutions of any
    tokens through one resolver (reachable servers, waiting down policy), every resolution is
    `Admissible`: it equals the cache-free resolution on values the servers held within the TTL
    windows — it never depends on which other tokens were resolved before or on anything else the
    caches hold. -/
theorem rpc_sequence_pure (U : Doc → Prop) (hV : Versioned U) (hsvc : ∀ x, U (svcDoc x)) (hnode : ∀ x, U (nodeDoc x))
    (htp : ∀ x, U (tpDoc x))
    (cfg : RpcCfg) (hna : cfg.isAsync = false) (ops : List ROp) (hops : ∀ d, ROp.putDoc d ∈ ops → U d)
    (s : Store) (now : Nat) (trace : List Snap) (st : RpcState)
    (inv : RpcInv U trace now st) (hcur : (now, s) ∈ trace) :
    ∀ r ∈ runRpc cfg s now trace st ops, Admissible cfg r.trace r.now r.secret r.res := by
  induction ops generalizing s now trace st with
  | nil => intro r hr; cases hr
  | cons op ops ih =>
    have hops' : ∀ d, ROp.putDoc d ∈ ops → U d := fun d hd => hops d (List.mem_cons_of_mem _ hd)
    -- a write: the new moment (now, s') joins the trace
    have wr : ∀ s', (∀ d ∈ s'.docs, U d) →
        ∀ r ∈ runRpc cfg s' now ((now, s') :: trace) st ops, Admissible cfg r.trace r.now r.secret r.res := by
      intro s' hs'
      refine ih hops' s' now _ st (inv.mono (fun p hp => List.mem_cons_of_mem _ hp) (Nat.le_refl _) ?_ ?_) List.mem_cons_self
      · intro p hp
        rcases List.mem_cons.mp hp with rfl | hp
        · exact Nat.le_refl _
        · exact inv.times p hp
      · intro p hp
        rcases List.mem_cons.mp hp with rfl | hp
        · exact hs'
        · exact inv.docsU p hp
    have hsU : ∀ d ∈ s.docs, U d := inv.docsU _ hcur
    cases op with
    | resolve secret =>
      intro r hr
      simp only [runRpc, List.mem_cons] at hr
      rcases hr with rfl | hr
      · exact resolve_rpc_pure U hV hsvc hnode htp cfg hna trace now s st inv hcur secret
      · exact ih hops' s now trace _ (resolve_rpc_preserves_inv U hV hsvc hnode htp cfg hna trace now s st inv hcur secret) hcur r hr
    | tick n =>
      simp only [runRpc]
      refine ih hops' s (now + n) _ st (inv.mono (fun p hp => List.mem_cons_of_mem _ hp) (Nat.le_add_right _ _) ?_ ?_) List.mem_cons_self
      · intro p hp
        rcases List.mem_cons.mp hp with rfl | hp
        · exact Nat.le_refl _
        · exact Nat.le_trans (inv.times p hp) (Nat.le_add_right _ _)
      · intro p hp
        rcases List.mem_cons.mp hp with rfl | hp
        · exact hsU
        · exact inv.docsU p hp
    | putDoc d =>
      simp only [runRpc, ROp.write]
      apply wr
      intro x hx
      simp only [Store.putDoc, List.mem_cons, List.mem_filter] at hx
      rcases hx with rfl | hx
      · exact hops x List.mem_cons_self
      · exact hsU x hx.1
    | delDoc id =>
      simp only [runRpc, ROp.write]
      apply wr
      intro x hx
      simp only [Store.delDoc, List.mem_filter] at hx
      exact hsU x hx.1
    | putRole r => simp only [runRpc, ROp.write]; exact wr _ hsU
    | delRole id => simp only [runRpc, ROp.write]; exact wr _ hsU
    | putToken t => simp only [runRpc, ROp.write]; exact wr _ hsU
    | delToken x => simp only [runRpc, ROp.write]; exact wr _ hsU

/-! ## 6. non-vacuity and concrete witnesses -/

def web : Bytes := [119, 101, 98]
def P1 : Policy := { Policy.nil with rules := [⟨.service, false, web, .lvl .read, .empty⟩] }
def P2 : Policy := { Policy.nil with rules := [⟨.service, false, web, .lvl .write, .empty⟩] }
def P3 : Policy := { Policy.nil with rules := [⟨.service, true, [119], .lvl .deny, .empty⟩] }

example : AllValid [P1, P2, P3] := by intro p hp; simp at hp; rcases hp with rfl | rfl | rfl <;> decide

/-- write (P2) overrides read (P1) for the exact name; the exact rule beats the deny prefix rule (P3) -/
example : authorize [P1, P2, P3] .denyAll (.serviceWrite web) = some .allow := by decide
/-- the longest prefix rule (`service_prefix "w"` deny) decides a name without an exact rule -/
example : authorize [P1, P2, P3] .allowAll (.serviceRead [119, 120] false) = some .deny := by decide
/-- no applicable rule: the default decides -/
example : authorize [P1, P2, P3] .allowAll (.serviceRead [120] false) = some .allow := by decide
example : authorize [P1, P2, P3] .denyAll (.serviceRead [120] false) = some .deny := by decide
/-- hypotheses of `exact_rule_decides` are satisfiable -/
example : Strongest [P1, P2, P3] .service false web .write := by
  refine ⟨⟨P2, by simp, _, List.mem_singleton.mpr rfl, by decide, rfl⟩, ?_⟩
  intro p hp r hr hs
  simp at hp
  rcases hp with rfl | rfl | rfl <;> simp [P1, P2, P3] at hr <;> subst hr <;> revert hs <;> decide


/-- intentions: P2 (service web write, no explicit intentions) implies intention read on web -/
example : IntentionLevel [P1, P2] false web .read := by
  refine .inr ⟨?_, .write, ⟨⟨P2, by simp, _, List.mem_singleton.mpr rfl, by decide, rfl⟩, ?_⟩, rfl⟩
  · intro p hp r hr _
    simp at hp
    rcases hp with rfl | rfl <;> simp [P1, P2] at hr <;> subst hr <;> rfl
  · intro p hp r hr hs
    simp at hp
    rcases hp with rfl | rfl <;> simp [P1, P2] at hr <;> subst hr <;> revert hs <;> decide
example : authorize [P1, P2] .denyAll (.intentionRead web) = some .allow := by decide
example : authorize [P1, P2] .allowAll (.intentionWrite web) = some .deny := by decide

/-- The history of the repaired aliasing defect: token A = {P1, P2}, token B = {P1}. Through shared
    caches B is still denied `service:write` after A was resolved (the defective code granted it). -/
def docA : Doc := ⟨[65], 1, 0, [], P1⟩
def docB : Doc := ⟨[66], 1, 0, [], P2⟩
def tokA : Token := ⟨[97], [[65], [66]], [], [], [], []⟩
def tokB : Token := ⟨[98], [[65]], [], [], [], []⟩
def aliasOps : List Op := [.putDoc docA, .putDoc docB, .putToken tokA, .putToken tokB, .resolve [97], .resolve [98]]

def writeWeb (r : Except ResolveErr Authz) : Option Dec :=
  match r with
  | .ok z => some (chain z .denyAll (.serviceWrite web))
  | .error _ => none

example : (runOps [] Store.empty Caches.empty aliasOps).map writeWeb = [some .allow, some .deny] := by decide

/-- the hypotheses of `sequence_pure` are met by this history (universe = the two written versions
    plus all synthetic policies) -/
example : runOps [] Store.empty Caches.empty aliasOps = specOps [] Store.empty aliasOps := by
  refine sequence_pure (HistU [docA, docB])
    (versioned_history [docA, docB] (by decide) ?_) (HistU.svc _) (HistU.node _) (HistU.tp _)
    [] aliasOps ?_ Store.empty (fun d hd => by cases hd) Caches.empty (CacheInv.empty _)
  · intro d hd k n hk
    simp only [List.mem_cons, List.not_mem_nil, or_false] at hd
    rcases hd with rfl | rfl <;> simp [docA, docB] <;> omega
  · intro d hd
    simp only [aliasOps, List.mem_cons, Op.putDoc.injEq, reduceCtorEq, List.not_mem_nil, or_false] at hd
    left
    rcases hd with rfl | rfl <;> simp


/-- RPC mode, concrete: policy `docA` (service web read) is deleted on the servers right after token B
    was resolved. One tick later (TTL 3) B still reads web (stale but within the TTL window, as
    `Admissible` allows); six ticks later the entry has expired, the servers are asked, B is denied. -/
def rcfg : RpcCfg := ⟨3, 3, 3, .extend, .denyAll, []⟩
def rpcOps : List ROp :=
  [.putDoc docA, .putToken tokB, .resolve [98], .delDoc [65], .tick 1, .resolve [98], .tick 5, .resolve [98]]

example : (runRpc rcfg Store.empty 0 [(0, Store.empty)] RpcState.empty rpcOps).map
    (fun r => r.res.decide rcfg (.serviceRead web false)) = [some .allow, some .allow, some .deny] := by decide

/-- the hypotheses of `rpc_sequence_pure` are met by this history -/
example : ∀ r ∈ runRpc rcfg Store.empty 0 [(0, Store.empty)] RpcState.empty rpcOps,
    Admissible rcfg r.trace r.now r.secret r.res := by
  refine rpc_sequence_pure (HistU [docA, docB])
    (versioned_history [docA, docB] (by decide) ?_) (HistU.svc _) (HistU.node _) (HistU.tp _)
    rcfg rfl rpcOps ?_ Store.empty 0 _ RpcState.empty (RpcInv.init _) (List.mem_singleton.mpr rfl)
  · intro d hd k n hk
    simp only [List.mem_cons, List.not_mem_nil, or_false] at hd
    rcases hd with rfl | rfl <;> simp [docA, docB] <;> omega
  · intro d hd
    simp only [rpcOps, List.mem_cons, ROp.putDoc.injEq, reduceCtorEq, List.not_mem_nil, or_false] at hd
    left; rw [hd]; simp


/-! ### known finding: a negative entry written because the RPC failed

`fetchAndCachePoliciesForIdentity` / `fetchAndCacheRolesForIdentity` cache a fresh negative entry for
every id they could not serve from an expired entry when the RPC fails (known_findings:
`cache:rpc:negative-entry-written-on-rpc-error`). Such an entry is not a value the servers ever held, so
it breaks `RpcInv`; `resolve_rpc_pure` and `rpc_sequence_pure` are therefore stated for resolutions /
histories with reachable servers (`up = true`) from a state satisfying `RpcInv`. The full-strength
statement — `Admissible` for every resolution with reachable servers, whatever happened before — is
false: -/

def oCfg : RpcCfg := ⟨5, 1, 1, .deny, .allowAll, []⟩
def PD : Policy := { Policy.nil with rules := [⟨.service, true, [], .lvl .deny, .empty⟩] }
def docD : Doc := ⟨[65], 1, 0, [], PD⟩
def oStore : Store := (Store.empty.putDoc docD).putToken tokB
/-- clock 0: token B (→ policy `docD`: every service denied) is resolved; the policy entry expires;
    clock 2: the servers are unreachable, B is resolved (the down policy answers, `docD` gets a negative
    entry); the servers are back -/
def oSt1 : RpcState := (resolveRpc oCfg true oStore 0 RpcState.empty [98]).1
def oSt2 : RpcState := (resolveRpc oCfg false oStore 2 oSt1 [98]).1
def oTrace : List Snap := [(2, oStore), (0, oStore)]

/-- with the servers back, at the same clock, B may read every service (default allow): the policy
    that exists, and existed at every moment of the history, is ignored -/
theorem outage_witness_decisions :
    (resolveRpc oCfg true oStore 0 RpcState.empty [98]).2.decide oCfg (.serviceRead web false) = some .deny ∧
    (resolveRpc oCfg false oStore 2 oSt1 [98]).2.decide oCfg (.serviceRead web false) = some .deny ∧
    (resolveRpc oCfg true oStore 2 oSt2 [98]).2.decide oCfg (.serviceRead web false) = some .allow := by
  decide

/-- resolve_rpc_pure without `RpcInv` (i.e. after an outage) is false: no view of the token's own
    objects within their TTL windows — indeed no state the servers ever held — explains the answer. -/
theorem resolve_rpc_pure_outage_counterexample :
    ¬ Admissible oCfg oTrace 2 [98] (resolveRpc oCfg true oStore 2 oSt2 [98]).2 := by
  rintro ⟨tokV, roleV, docV, h1, _, h3, he⟩
  have ht : tokV [98] = some tokB := by
    obtain ⟨p, hp, _, _, hv⟩ := h1 [98]
    simp only [oTrace, List.mem_cons, List.not_mem_nil, or_false] at hp
    rcases hp with rfl | rfl <;> (rw [hv]; decide)
  have hd : docV [65] = some docD := by
    obtain ⟨p, hp, _, _, hv⟩ := h3 [65]
    simp only [oTrace, List.mem_cons, List.not_mem_nil, or_false] at hp
    rcases hp with rfl | rfl <;> (rw [hv]; decide)
  have hp : policiesForV roleV docV [] tokB = [docD] := by
    simp [policiesForV, tokB, Token.noLinks, dedupeSorted, insertSorted, hd, filterByScope, docD, synthDocs, dedupSvcs, dedupNodes, dedupTps, dedupTpsAux]
  have hr : (RpcResult.ofExcept (resolveFreshV tokV roleV docV oCfg.dc [98])).decide oCfg (.serviceRead web false) =
      some .deny := by
    have e : resolveFreshV tokV roleV docV oCfg.dc [98] =
        (match compileFresh [docD] with | none => .error .compile | some z => .ok z) := by
      have hroot : ([98] : Bytes) ∉ rootNames := by decide
      simp [resolveFreshV, hroot, ht, oCfg, hp]
      rfl
    rw [e]; decide
  have := congrArg (fun r => r.decide oCfg (.serviceRead web false)) he
  simp only [hr, outage_witness_decisions.2.2] at this
  cases this

end CV.Acl
