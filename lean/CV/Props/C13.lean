/-
C13 — intention decisions follow precedence, independent of write order.
-/
import CV.Ixn
namespace CV.Ixn

/-- The CE precedence table of `UpdatePrecedence` / `computeIntentionPrecedence`. -/
theorem prec_table (s d : Name) (hs : s ≠ star) (hd : d ≠ star) :
    precOf s d = 9 ∧ precOf star d = 8 ∧ precOf s star = 6 ∧ precOf star star = 5 := by
  simp [precOf, countExact, hs, hd]

end CV.Ixn
