/-
C13 — intention decisions follow precedence, independent of write order.

Property theorems only; the model is CV/Ixn.lean, helper lemmas are CV/Proofs/Ixn*.lean.
Everything is stated for consul CE (partition = namespace = `default`, no sameness groups) and for
byte-string names of any length; no bound on the number of intentions, entries or writes.

Reading guide
  * `StoreWF`       the invariant of the real store (one config entry per destination, distinct
                    (peer, name) sources with computed precedence; legacy rows unique per id and per
                    (source, destination)) — `reachable_store_wf` shows every history of writes keeps it
  * `Lower n`       the name is lower case. memdb lower-cases the config-entry key and the legacy index
                    keys while decisions compare exact bytes, so the theorems ask for lower-case entry /
                    destination / legacy-row names and lower-case query names; what happens otherwise is
                    kept visible in the `case_…_counterexample` theorems
  * `flatten st`    the set of intentions a store holds, whatever the representation
  * `mostSpecific`  "most specific wins" written without sorting
  * `checkDecision` `Intention.Check` / topology: source match, then destination decision
  * `authzDecision` agent authorize: destination match, then source (peer, name) decision
-/
import CV.Proofs.IxnCreate
set_option linter.unusedVariables false
namespace CV.Ixn

/-! ## precedence numbers and the comparator -/

/-- The CE precedence table of `UpdatePrecedence` / `computeIntentionPrecedence`:
    exact→exact 9, *→exact 8, exact→* 6, *→* 5 — destination exactness dominates. -/
theorem prec_table (s d : Name) (hs : s ≠ star) (hd : d ≠ star) :
    precOf s d = 9 ∧ precOf star d = 8 ∧ precOf s star = 6 ∧ precOf star star = 5 := by
  simp [precOf, countExact, hs, hd]

/-- `IntentionPrecedenceSorter.Less` is a strict weak order, it orders any two intentions with
    different (peer, source, destination), and intentions it cannot order agree on precedence and key:
    on a store without duplicate keys it is a strict total order, so the sort has exactly one answer. -/
theorem less_strict_total_on_distinct_keys :
    StrictWeak less ∧
    (∀ a b : Ixn, a.key ≠ b.key → less a b = true ∨ less b a = true) ∧
    (∀ a b : Ixn, less a b = false → less b a = false → a.prec = b.prec ∧ a.key = b.key) := by
  refine ⟨less_strictWeak, ?_, fun a b => less_tri⟩
  intro a b hk
  cases h1 : less a b with
  | true => exact Or.inl rfl
  | false =>
    cases h2 : less b a with
    | true => exact Or.inr rfl
    | false => exact absurd (less_tri h1 h2).2 hk

/-- Sorting by precedence gives the same list for every order of the input, as long as no two
    intentions share a key. (This is why the unstable `sort.Sort` of the Go code is deterministic.) -/
theorem sort_perm_invariant {xs ys : List Ixn} (h : KeysNodup xs) (hp : xs.Perm ys) :
    sortIxns xs = sortIxns ys :=
  isort_perm_invariant less_strictWeak hp
    (fun a ha b hb h1 h2 => h.keyInj a ha b hb (less_tri h1 h2).2)

/-- `Sources[i].Precedence` is an exported field a client may send (fresh structs carry 0, a
    read-modify-write carries what the store returned, anything else is garbage): `normalize` ignores it.
    Whatever values come in, the stored entry — hence the stored precedence — is a function of the names. -/
theorem stored_precedence_ignores_input (legacy : Bool) (dst : Name) (srcs : List Src) (f : Src → Nat) :
    normalize legacy ⟨dst, srcs.map fun s => { s with prec := f s }⟩ = normalize legacy ⟨dst, srcs⟩ ∧
    ∀ s ∈ (normalize legacy ⟨dst, srcs⟩).sources, s.prec = precOf s.name dst := by
  constructor
  · simp only [normalize, List.map_map]
    congr 2
  · intro s hs
    simp only [normalize, mem_isort, List.mem_map] at hs
    obtain ⟨s0, _, rfl⟩ := hs
    simp [normSrc]

/-- … so every write operation gives the same store and the same answer for any input precedences. -/
theorem writes_ignore_input_precedence (st : Store) (dst : Name) (srcs : List Src) (v : Src) (f : Src → Nat) :
    applyOpE st (.ent ⟨dst, srcs.map fun s => { s with prec := f s }⟩) = applyOpE st (.ent ⟨dst, srcs⟩) ∧
    applyOpE st (.up dst { v with prec := f v }) = applyOpE st (.up dst v) := by
  constructor
  · simp only [applyOpE, applyEntry, (stored_precedence_ignores_input false dst srcs f).1]
  · simp only [applyOpE, mutUpsert]
    split
    · rfl
    · cases hg : getEntry st.entries dst with
      | none =>
        have := (stored_precedence_ignores_input false dst [v] (fun _ => f v)).1
        simp only [List.map_cons, List.map_nil] at this
        simp only [this]
      | some prev =>
        have hu : ∀ l : List Src, (upsertSource v.name { v with prec := f v } l).map (normSrc false prev.name) =
            (upsertSource v.name v l).map (normSrc false prev.name) := by
          intro l
          induction l with
          | nil => simp [upsertSource, normSrc]
          | cons x xs ih =>
            simp only [upsertSource]
            split
            · simp [normSrc]
            · simp only [List.map_cons, ih]
        simp only [normalize, hu]

/-! ## the store invariant holds for every history -/

/-- Every history of writes (config entries applied or deleted, upsert / delete / legacy-create
    mutations, legacy rows set or deleted; accepted or rejected, in any mix) leaves the store
    well formed. `Op.local`: legacy table rows have no peer and name both ends (what `Intention.Validate`
    enforces; memdb's unique (source, destination) index does not cover rows with an empty name), and the
    destination names of written entries / all names of legacy rows are lower case. -/
theorem reachable_store_wf (cfgMode : Bool) (ops : List Op) (ho : ∀ o ∈ ops, o.local) :
    StoreWF (run { cfgMode := cfgMode } ops) :=
  storeWF_run (storeWF_empty cfgMode) ops ho

/-- Faithful-model observation (kept visible): the legacy table's unique (source, destination) index
    does not cover rows with an empty name, so `LegacyIntentionSet` accepts two of them — which is why
    `Op.local` asks for named rows (the legacy RPC validated `DestinationName must be set`). -/
theorem legacy_unnamed_rows_duplicate_counterexample :
    let w : Name := [119]
    (runE { cfgMode := false } [.lset [1] ⟨[], w, [], .allow, 0, 0⟩, .lset [2] ⟨[], w, [], .deny, 0, 0⟩]).map
      (fun st => (flatten st).map (·.key)) = some [([], w, []), ([], w, [])] := by
  decide

/-- Faithful-model observation (kept visible): names that differ only in letter case. The config entry
    `Web` is found under the key `web`, so the authorize pipeline (destination match, then source check)
    applies its `api → Web` deny to the target `web`, while the check pipeline (source match, then exact
    destination comparison) does not: the two pipelines disagree. Hence the `Lower` hypotheses. -/
theorem case_variant_destination_pipelines_disagree_counterexample :
    let web : Name := [119]; let Web : Name := [87]; let api : Name := [97]
    let st := (applyOpE { cfgMode := true } (.ent ⟨Web, [⟨[], api, .deny, 0, 0, []⟩]⟩)).1
    authzDecision st [] api web true false = ⟨false, false, true⟩ ∧
    checkDecision st api web true false = ⟨true, false, false⟩ := by
  decide

/-- … and an entry `web` silently replaces the entry `Web` (one primary key). -/
theorem case_variant_entry_overwrites_counterexample :
    let web : Name := [119]; let Web : Name := [87]; let api : Name := [97]
    (runE { cfgMode := true } [.ent ⟨Web, [⟨[], api, .deny, 0, 0, []⟩]⟩, .ent ⟨web, [⟨[], api, .allow, 0, 0, []⟩]⟩]).map
      (fun st => (flatten st).map (·.dst)) = some [web] := by
  decide

/-! ## decisions -/

/-- HEADLINE. In every well-formed store, both decision pipelines decide a concrete pair
    `(peer/)s → d` by the single most specific stored intention covering it — exact destination
    before wildcard destination, then exact source before wildcard source — and by the default policy
    when none covers it. L7 permissions turn the answer into `allowPerms`. -/
theorem decision_most_specific {st : Store} (h : StoreWF st) (peer s d : Name) (hs : s ≠ star) (hd : d ≠ star)
    (hls : Lower s) (hld : Lower d) (defaultAllow allowPerms : Bool) :
    checkDecision st s d defaultAllow allowPerms
      = verdict (mostSpecific (flatten st) [] s d) defaultAllow allowPerms ∧
    authzDecision st peer s d defaultAllow allowPerms
      = verdict (mostSpecific (flatten st) peer s d) defaultAllow allowPerms :=
  ⟨check_most_specific h s d hs hd hls _ _, authz_most_specific h peer s d hs hd hld _ _⟩

/-- The same for every history of writes, starting from an empty store in either mode. -/
theorem decision_most_specific_reachable (cfgMode : Bool) (ops : List Op) (ho : ∀ o ∈ ops, o.local)
    (peer s d : Name) (hs : s ≠ star) (hd : d ≠ star) (hls : Lower s) (hld : Lower d) (da ap : Bool) :
    let st := run { cfgMode := cfgMode } ops
    checkDecision st s d da ap = verdict (mostSpecific (flatten st) [] s d) da ap ∧
    authzDecision st peer s d da ap = verdict (mostSpecific (flatten st) peer s d) da ap :=
  decision_most_specific (reachable_store_wf cfgMode ops ho) peer s d hs hd hls hld da ap

/-- `mostSpecific` means what it says: its result is stored, covers the pair, and no stored covering
    intention has a higher specificity rank (2·[destination exact] + [source exact]). -/
theorem mostSpecific_is_most_specific {F : List Ixn} {peer s d : Name} (hs : s ≠ star) (hd : d ≠ star) {i : Ixn}
    (h : mostSpecific F peer s d = some i) :
    i ∈ F ∧ covers peer s d i = true ∧ ∀ j ∈ F, covers peer s d j = true → spec j ≤ spec i :=
  mostSpecific_some hs hd h

/-- With distinct keys the most specific covering intention is unique: two covering intentions of the
    same rank are the same intention. -/
theorem most_specific_unique {F : List Ixn} (hk : KeysNodup F) {peer s d : Name} {i j : Ixn}
    (hi : i ∈ F) (hj : j ∈ F) (ci : covers peer s d i = true) (cj : covers peer s d j = true)
    (hr : spec i = spec j) : i = j := by
  apply hk.keyInj i hi j hj
  simp only [covers, Bool.and_eq_true, decide_eq_true_eq, Bool.or_eq_true] at ci cj
  simp only [spec] at hr
  simp only [Ixn.key, Prod.mk.injEq]
  grind

/-- The default policy decides when no stored intention covers the pair (and only then: otherwise
    `mostSpecific` is `some _` by `mostSpecific_eq_none_iff`). -/
theorem default_policy_when_none_covers {st : Store} (h : StoreWF st) (peer s d : Name) (hs : s ≠ star) (hd : d ≠ star)
    (hls : Lower s) (hld : Lower d) (hnone : ∀ i ∈ flatten st, covers peer s d i = false) (da ap : Bool) :
    authzDecision st peer s d da ap = ⟨da, false, false⟩ ∧
    (peer = [] → checkDecision st s d da ap = ⟨da, false, false⟩) := by
  constructor
  · rw [(decision_most_specific h peer s d hs hd hls hld da ap).2, (mostSpecific_eq_none_iff _ _ _ _).mpr hnone]
    rfl
  · intro hp
    subst hp
    rw [(decision_most_specific h [] s d hs hd hls hld da ap).1, (mostSpecific_eq_none_iff _ _ _ _).mpr hnone]
    rfl

/-- For local callers the two pipelines (source match + destination decision, destination match +
    source decision) agree. -/
theorem check_and_authz_agree {st : Store} (h : StoreWF st) (s d : Name) (hs : s ≠ star) (hd : d ≠ star)
    (hls : Lower s) (hld : Lower d) (da ap : Bool) :
    checkDecision st s d da ap = authzDecision st [] s d da ap := by
  rw [(decision_most_specific h [] s d hs hd hls hld da ap).1, (decision_most_specific h [] s d hs hd hls hld da ap).2]

/-- `IntentionDecision` is "head of the matching part of the match list". -/
theorem check_agrees_with_match (st : Store) (s d : Name) (da ap : Bool) :
    checkDecision st s d da ap =
      verdict (((matchList st .source s).filter (ixnMatch .destination [] d)).head?) da ap := by
  simp [checkDecision, decision, List.head?_filter]

/-! ## match and list results -/

/-- What `IntentionMatch` returns: exactly the stored intentions covering the name on the queried
    side (see `inMatch` for the peer-twin clause of source matches). -/
theorem match_sound_and_complete {st : Store} (h : StoreWF st) (side : Side) (n : Name) (hn : Lower n) (i : Ixn) :
    i ∈ matchList st side n ↔ inMatch (flatten st) side n i :=
  mem_matchList h side n hn i

/-- Match results come in precedence order: nothing later is `Less` than something earlier, hence the
    precedence numbers and the specificity rank never increase along the list; no intention appears twice. -/
theorem match_sorted {st : Store} (h : StoreWF st) (side : Side) (n : Name) (hn : Lower n) :
    (matchList st side n).Pairwise (fun a b => less b a = false ∧ b.prec ≤ a.prec ∧ spec b ≤ spec a ∧ a.key ≠ b.key) := by
  obtain ⟨R, hR, hRk, hm⟩ := matchList_eq_sort h side n hn
  have hs : Sorted less (sortIxns R) := isort_sorted less_strictWeak R
  have hwf : PrecWF R := (flatten_precWF h).subset (fun i hi => ((hm i).mp hi).1)
  have hnd : KeysNodup (sortIxns R) := hRk.perm (isort_perm R).symm (fun h => fun e => h e.symm)
  rw [hR]
  unfold Sorted at hs
  apply List.Pairwise.imp_of_mem _ (hs.and hnd)
  intro a b ha hb ⟨hlt, hne⟩
  have pa := (hwf a (mem_isort.mp ha)).trans (precOf_cases a.src a.dst)
  have pb := (hwf b (mem_isort.mp hb)).trans (precOf_cases b.src b.dst)
  refine ⟨hlt, ?_, ?_, hne⟩
  · simp only [less] at hlt
    by_cases hp : b.prec = a.prec
    · omega
    · simp only [ne_eq, hp, not_false_eq_true, if_true, decide_eq_false_iff_not] at hlt; omega
  · simp only [less] at hlt
    simp only [spec]
    by_cases hp : b.prec = a.prec
    · grind
    · simp only [ne_eq, hp, not_false_eq_true, if_true, decide_eq_false_iff_not] at hlt
      grind

/-- `Store.Intentions` lists exactly the stored intentions, in precedence order. -/
theorem list_sorted_and_complete {st : Store} (h : StoreWF st) :
    (∀ i, i ∈ listAll st ↔ i ∈ flatten st) ∧ Sorted less (listAll st) :=
  ⟨fun i => mem_isort, isort_sorted less_strictWeak _⟩

/-- Faithful-model observation (kept visible): a source match can return a *peer*-sourced intention —
    here `p/web → api` rides along because the same entry also has a local `web` source.
    `decision_most_specific` shows this never changes a decision (the local twin sorts first). -/
theorem source_match_returns_peer_twin_counterexample :
    let web : Name := [119]; let api : Name := [97]; let p : Name := [112]
    let st := (applyOpE { cfgMode := true }
      (.ent ⟨api, [⟨p, web, .deny, 0, 0, []⟩, ⟨[], web, .allow, 0, 0, []⟩]⟩)).1
    (matchList st .source web).map (·.peer) = [[], p] := by
  decide

/-! ## write order and representation do not matter -/

/-- HEADLINE. Two well-formed stores holding the same set of intentions give the same answers to
    every query — whatever the order of writes that produced them, the order of entries in the table,
    the order of sources inside an entry, and whether the set is kept as config entries or as legacy
    rows (`legacy_and_config_entry_agree` is the instance `a.cfgMode ≠ b.cfgMode`). -/
theorem decision_write_order_independent {a b : Store} (ha : StoreWF a) (hb : StoreWF b) (h : SameSet a b) :
    SameAnswers a b := by
  have hm := fun side n hn => matchList_sameSet ha hb h side n hn
  refine ⟨listAll_sameSet ha hb h, hm, ?_, ?_⟩
  · intro s d da ap hl; simp only [checkDecision, hm _ _ hl]
  · intro peer s d da ap hl; simp only [authzDecision, hm _ _ hl]

/-- … in particular for any two histories of writes that end with the same set. -/
theorem histories_with_same_set_agree (m m' : Bool) (ops ops' : List Op)
    (ho : ∀ o ∈ ops, o.local) (ho' : ∀ o ∈ ops', o.local)
    (h : SameSet (run { cfgMode := m } ops) (run { cfgMode := m' } ops')) :
    SameAnswers (run { cfgMode := m } ops) (run { cfgMode := m' } ops') :=
  decision_write_order_independent (reachable_store_wf m ops ho) (reachable_store_wf m' ops' ho') h

theorem localOnly_empty (m : Bool) : LocalOnly { cfgMode := m } := by
  intro i hi; cases m <;> simp [flatten] at hi

/-- Creating a set of local intentions with pairwise distinct (destination, source) through upsert
    mutations, in any two orders (both accepted): same stored set, hence the same answers. -/
theorem upserts_in_any_order_agree (ws ws' : List (Name × Src)) (hp : ws.Perm ws')
    (hloc : ∀ w ∈ ws, w.2.peer = []) (hlow : ∀ w ∈ ws, Lower w.1)
    (hd : ws.Pairwise fun a b => ¬ (a.1 = b.1 ∧ a.2.name = b.2.name))
    {a b : Store} (ha : runE { cfgMode := true } (upOps ws) = some a)
    (hb : runE { cfgMode := true } (upOps ws') = some b) :
    (∀ i, i ∈ flatten a ↔ ∃ w ∈ ws, i = ixnOf w.1 w.2) ∧ SameAnswers a b := by
  have e0 : ∀ i, i ∉ flatten ({ cfgMode := true } : Store) := by intro i; simp [flatten]
  have hd' : ws'.Pairwise fun a b => ¬ (a.1 = b.1 ∧ a.2.name = b.2.name) :=
    hd.perm hp (fun h => fun e => h ⟨e.1.symm, e.2.symm⟩)
  have hlow' : ∀ w ∈ ws', Lower w.1 := fun w hw => hlow w (hp.mem_iff.mpr hw)
  have ma := mem_flatten_runE_ups (storeWF_empty true) rfl (localOnly_empty true) ws hloc hlow hd
    (fun _ _ i hi => absurd hi (e0 i)) ha
  have mb := mem_flatten_runE_ups (storeWF_empty true) rfl (localOnly_empty true) ws'
    (fun w hw => hloc w (hp.mem_iff.mpr hw)) hlow' hd' (fun _ _ i hi => absurd hi (e0 i)) hb
  have wa := storeWF_runE (storeWF_empty true) (upOps ws)
    (by simp only [upOps, List.mem_map]; rintro o ⟨w, hw, rfl⟩; exact hlow w hw) ha
  have wb := storeWF_runE (storeWF_empty true) (upOps ws')
    (by simp only [upOps, List.mem_map]; rintro o ⟨w, hw, rfl⟩; exact hlow' w hw) hb
  refine ⟨fun i => by simpa [e0 i] using ma i, decision_write_order_independent wa wb ?_⟩
  intro i
  rw [ma, mb]
  simp only [e0 i, false_or]
  constructor
  · rintro ⟨w, hw, rfl⟩; exact ⟨w, hp.mem_iff.mp hw, rfl⟩
  · rintro ⟨w, hw, rfl⟩; exact ⟨w, hp.mem_iff.mpr hw, rfl⟩

/-- Writing whole config entries (one per destination) in any order and with the sources of each entry
    in any order: the stored set is the described set. Two descriptions of the same set (entries
    permuted, sources permuted) therefore give the same answers. -/
theorem entries_in_any_order_agree (es es' : List Entry)
    (hd : es.Pairwise fun a b => a.name ≠ b.name) (hd' : es'.Pairwise fun a b => a.name ≠ b.name)
    (hlow : ∀ e ∈ es, Lower e.name) (hlow' : ∀ e ∈ es', Lower e.name)
    (hsame : ∀ i, (∃ e ∈ es, ∃ s ∈ e.sources, i = ixnOf e.name s) ↔ (∃ e ∈ es', ∃ s ∈ e.sources, i = ixnOf e.name s))
    {a b : Store} (ha : runE { cfgMode := true } (entOps es) = some a)
    (hb : runE { cfgMode := true } (entOps es') = some b) :
    (∀ i, i ∈ flatten a ↔ ∃ e ∈ es, ∃ s ∈ e.sources, i = ixnOf e.name s) ∧ SameAnswers a b := by
  have e0 : ∀ i, i ∉ flatten ({ cfgMode := true } : Store) := by intro i; simp [flatten]
  have ma := mem_flatten_runE_ents (storeWF_empty true) rfl es hlow hd (fun _ _ i hi => absurd hi (e0 i)) ha
  have mb := mem_flatten_runE_ents (storeWF_empty true) rfl es' hlow' hd' (fun _ _ i hi => absurd hi (e0 i)) hb
  have wa := storeWF_runE (storeWF_empty true) (entOps es)
    (by simp only [entOps, List.mem_map]; rintro o ⟨w, hw, rfl⟩; exact hlow w hw) ha
  have wb := storeWF_runE (storeWF_empty true) (entOps es')
    (by simp only [entOps, List.mem_map]; rintro o ⟨w, hw, rfl⟩; exact hlow' w hw) hb
  refine ⟨fun i => by simpa [e0 i] using ma i, decision_write_order_independent wa wb ?_⟩
  intro i
  rw [ma, mb]
  simp only [e0 i, false_or]
  exact hsame i

/-- Legacy table rows with distinct ids, written in any order: same answers. -/
theorem legacy_rows_in_any_order_agree (rs rs' : List (Name × Ixn)) (hp : rs.Perm rs')
    (hd : rs.Pairwise fun a b => a.1 ≠ b.1) (hloc : ∀ x ∈ rs, (x.2.peer = [] ∧ x.2.src ≠ [] ∧ x.2.dst ≠ []) ∧ Lower x.2.src ∧ Lower x.2.dst)
    {a b : Store} (ha : runE { cfgMode := false } (lsetOps rs) = some a)
    (hb : runE { cfgMode := false } (lsetOps rs') = some b) :
    (∀ i, i ∈ flatten a ↔ ∃ x ∈ rs, i = normRow x.2) ∧ SameAnswers a b := by
  have e0 : ∀ i, i ∉ flatten ({ cfgMode := false } : Store) := by intro i; simp [flatten]
  have hd' : rs'.Pairwise fun a b => a.1 ≠ b.1 := hd.perm hp (fun h => fun e => h e.symm)
  have ma := mem_flatten_runE_lsets (st0 := { cfgMode := false }) rfl rs hd (by simp) ha
  have mb := mem_flatten_runE_lsets (st0 := { cfgMode := false }) rfl rs' hd' (by simp) hb
  have wa := storeWF_runE (storeWF_empty false) (lsetOps rs)
    (by simp only [lsetOps, List.mem_map]; rintro o ⟨x, hx, rfl⟩; exact hloc x hx) ha
  have wb := storeWF_runE (storeWF_empty false) (lsetOps rs')
    (by simp only [lsetOps, List.mem_map]; rintro o ⟨x, hx, rfl⟩; exact hloc x (hp.mem_iff.mpr hx)) hb
  refine ⟨fun i => by simpa [e0 i] using ma i, decision_write_order_independent wa wb ?_⟩
  intro i
  rw [ma, mb]
  simp only [e0 i, false_or]
  constructor
  · rintro ⟨w, hw, rfl⟩; exact ⟨w, hp.mem_iff.mp hw, rfl⟩
  · rintro ⟨w, hw, rfl⟩; exact ⟨w, hp.mem_iff.mpr hw, rfl⟩

/-- Legacy and config-entry representations agree: the same set of local intentions written as legacy
    rows (any ids, any order) and through upsert mutations (any order) gives the same answers. -/
theorem legacy_and_config_entry_agree (ws : List (Name × Src)) (rs : List (Name × Ixn))
    (hloc : ∀ w ∈ ws, w.2.peer = []) (hlow : ∀ w ∈ ws, Lower w.1)
    (hd : ws.Pairwise fun a b => ¬ (a.1 = b.1 ∧ a.2.name = b.2.name))
    (hrd : rs.Pairwise fun a b => a.1 ≠ b.1) (hrl : ∀ x ∈ rs, (x.2.peer = [] ∧ x.2.src ≠ [] ∧ x.2.dst ≠ []) ∧ Lower x.2.src ∧ Lower x.2.dst)
    (hsame : ∀ i, (∃ w ∈ ws, i = ixnOf w.1 w.2) ↔ (∃ x ∈ rs, i = normRow x.2))
    {a b : Store} (ha : runE { cfgMode := true } (upOps ws) = some a)
    (hb : runE { cfgMode := false } (lsetOps rs) = some b) : SameAnswers a b := by
  have ma := (upserts_in_any_order_agree ws ws (List.Perm.refl _) hloc hlow hd ha ha).1
  have mb := (legacy_rows_in_any_order_agree rs rs (List.Perm.refl _) hrd hrl hb hb).1
  have wa := storeWF_runE (storeWF_empty true) (upOps ws)
    (by simp only [upOps, List.mem_map]; rintro o ⟨w, hw, rfl⟩; exact hlow w hw) ha
  have wb := storeWF_runE (storeWF_empty false) (lsetOps rs)
    (by simp only [lsetOps, List.mem_map]; rintro o ⟨x, hx, rfl⟩; exact hrl x hx) hb
  apply decision_write_order_independent wa wb
  intro i
  rw [ma, mb]
  exact hsame i

/-! ## non-vacuity: concrete stores, writes and decisions -/

namespace Ex
def web : Name := [119, 101, 98]
def api : Name := [97, 112, 105]
def db  : Name := [100, 98]
def p1  : Name := [112, 49]

/-- `* → api` deny, `web → api` allow, `web → *` deny, `p1/web → api` deny, `* → *` allow -/
def writes : List Op :=
  [.ent ⟨api, [⟨[], star, .deny, 0, 0, []⟩, ⟨p1, web, .deny, 0, 0, []⟩, ⟨[], web, .allow, 0, 0, []⟩]⟩,
   .up star ⟨[], web, .deny, 0, 0, []⟩, .up star ⟨[], star, .allow, 0, 0, []⟩]
def st : Store := run { cfgMode := true } writes

/-- the same set written in another order and shape -/
def writes' : List Op :=
  [.up star ⟨[], star, .allow, 0, 0, []⟩, .up api ⟨[], web, .allow, 0, 0, []⟩, .up star ⟨[], web, .deny, 0, 0, []⟩,
   .ent ⟨api, [⟨[], web, .allow, 0, 0, []⟩, ⟨p1, web, .deny, 0, 0, []⟩, ⟨[], star, .deny, 0, 0, []⟩]⟩]
def st' : Store := run { cfgMode := true } writes'

theorem writes_local : ∀ o ∈ writes, o.local := by
  intro o ho; simp only [writes, List.mem_cons, List.not_mem_nil, or_false] at ho
  rcases ho with rfl | rfl | rfl <;> trivial
theorem writes'_local : ∀ o ∈ writes', o.local := by
  intro o ho; simp only [writes', List.mem_cons, List.not_mem_nil, or_false] at ho
  rcases ho with rfl | rfl | rfl | rfl <;> trivial

-- `web → api` is decided by the exact intention (allow), not by `* → api` (deny) or `web → *` (deny)
example : checkDecision st web api false false = ⟨true, false, true⟩ := by decide
-- `db → api` by `* → api` (destination exactness first), not by `* → *`
example : checkDecision st db api true false = ⟨false, false, false⟩ := by decide
-- `web → db` by `web → *`
example : authzDecision st [] web db true false = ⟨false, false, false⟩ := by decide
-- `db → db` by `* → *`, a peer caller `p1/web → api` by its own intention, `p1/db → api` by the default
example : authzDecision st [] db db false false = ⟨true, false, false⟩ := by decide
example : authzDecision st p1 web api true false = ⟨false, false, true⟩ := by decide
example : authzDecision st p1 db api true false = ⟨true, false, false⟩ := by decide
-- the hypotheses of the order-independence theorem are met by the two histories
theorem same_list : (flatten st).length = 5 ∧ listAll st = listAll st' := by decide
example : SameAnswers st st' :=
  histories_with_same_set_agree true true writes writes' writes_local writes'_local (sameSet_of_listAll_eq same_list.2)
-- accepted upserts in two orders (hypotheses of `upserts_in_any_order_agree`)
example : (runE { cfgMode := true } (upOps [(api, ⟨[], web, .allow, 0, 0, []⟩), (star, ⟨[], web, .deny, 1, 0, []⟩)])).isSome = false := by
  decide -- L7 permissions on a wildcard destination are rejected
example : (runE { cfgMode := true } (upOps [(api, ⟨[], web, .none, 2, 0, []⟩), (star, ⟨[], web, .deny, 0, 0, []⟩)])).isSome = true := by
  decide
-- an L7 intention decides by `allowPerms`
example : (runE { cfgMode := true } (upOps [(api, ⟨[], web, .none, 2, 0, []⟩)])).map
    (fun s => (checkDecision s web api false false, checkDecision s web api false true))
    = some (⟨false, true, true⟩, ⟨true, true, true⟩) := by decide
-- legacy rows
example : (runE { cfgMode := false } (lsetOps [([1], ⟨[], web, api, .allow, 0, 0⟩), ([2], ⟨[], star, api, .deny, 0, 0⟩)])).map
    (fun s => (checkDecision s web api false false, checkDecision s db api true false))
    = some (⟨true, false, true⟩, ⟨false, false, false⟩) := by decide
end Ex

end CV.Ixn
