/-
C03 — the KV store behaves as a sequential versioned map.
Property theorems only. Model: CV.Store.* (the code as it is); specification: CV.Store.KvSpec
(a plain map, written from the property statement); helper lemmas: CV/Proofs/StoreKV.lean.
`abs : State → KMap` reads the KV table as a sequential map; `kvOpOf` maps a KV command to the
spec operation; `resOf` maps its answer.
-/
import CV.Proofs.StoreKV
import CV.Proofs.StoreSorted
import CV.Proofs.StoreCascade2
namespace CV.Store
open CV

/-- Refinement, one command: every KV write — set, check-and-set, delete, delete-cas, delete-tree,
    lock, unlock — has exactly the effect on the map and reports exactly the success / failure that
    the sequential versioned map gives. For all states, keys (any bytes), values, flags, sessions and
    supplied indexes. (delete-tree: for prefixes that do not end in a NUL byte — see
    `delete_tree_exact_counterexample`.) -/
theorem kv_refines (s : State) (idx : Nat) (c : Cmd) (op : KvOp) (h : kvOpOf c = some op)
    (hp : ∀ p, op = .deleteTree p → noNulEnd p = true) :
    abs (apply s idx c).1 = (specStep (abs s) (sessionLive s) idx op).1 ∧
    resOf (apply s idx c).2 = (specStep (abs s) (sessionLive s) idx op).2 := by
  cases c <;> simp only [kvOpOf] at h <;> try (cases h)
  · exact refines_set s idx _
  · exact refines_cas s idx _
  · exact refines_delete s idx _
  · exact refines_deleteCas s idx _ _
  · exact refines_deleteTree s idx _ (hp _ rfl)
  · exact refines_lock s idx _
  · exact refines_unlock s idx _

/-- KV writes INSIDE transactions: a write verb of `txnDispatch` succeeds exactly when the direct command
    reports ok / true and then leaves the working copy in exactly the state the direct command
    produces (so `kv_refines` applies to it verbatim); when it fails, the direct command changes
    nothing either. Read / check verbs never write. -/
theorem kv_txn_verb_is_direct_command (s : State) (idx : Nat) (v : KvVerb) (e : KV) (c : Cmd)
    (h : cmdOfVerb v e = some c) :
    (∀ s' rs, txnKV s idx v e = .ok (s', rs) →
        s' = (apply s idx c).1 ∧ ((apply s idx c).2 = .ok ∨ (apply s idx c).2 = .bool true)) ∧
    (∀ er, txnKV s idx v e = .error er →
        (apply s idx c).1 = s ∧ ((apply s idx c).2 = .err er ∨ (apply s idx c).2 = .bool false)) :=
  txnKV_same_as_direct s idx v e c h

theorem kv_txn_read_verbs_pure (s s' : State) (idx : Nat) (v : KvVerb) (e : KV) (rs : List TxnRes)
    (h : cmdOfVerb v e = none) (hr : txnKV s idx v e = .ok (s', rs)) : s' = s :=
  txnKV_reads_pure s s' idx v e rs h hr

/-- In every reachable state the KV table is strictly sorted by key (bytewise, the order of memdb's
    primary index): keys are unique, and `list` / dumps show the map in key order. -/
theorem kv_sorted_reachable (log : Log) : KvSorted (replay State.empty log) :=
  kvSorted_replay _ log kvSorted_empty

/-- get returns exactly the map's content (and the table index). -/
theorem kv_get_refines (s : State) (k : Key) (hk : k ≠ []) :
    ∃ x, kvGet s k = .ok (kvMaxIndex s, x) ∧ x.map toEnt = specGet (abs s) k := by
  refine ⟨kvFind s k, by simp [kvGet, hk], ?_⟩
  unfold specGet; rw [mget_abs']

/-- list returns exactly the map's entries under the prefix, in the map's order. -/
theorem kv_list_refines (s : State) (p : Key) (hp : noNulEnd p = true) :
    absKV (kvList s p).2 = specList (abs s) p := by
  unfold kvList specList abs
  simp only
  have : (fun (e : KV) => prefixMatch p e.key) = (fun e => p.isPrefixOf e.key) := by
    funext e; rw [prefixMatch_eq p e.key hp]
  rw [this]
  exact absKV_filter (fun k => p.isPrefixOf k) s.kvs

/-- A write that changes nothing changes NOTHING: not the entry's modify index, not the index table,
    not the tombstones — the whole state is untouched (and the write still reports success). -/
theorem noop_write_keeps_modify (s : State) (idx : Nat) (e x : KV) (hk : e.key ≠ []) (hf : kvFind s e.key = some x)
    (hv : e.val = x.val) (hfl : e.flags = x.flags) (hl : e.lockIdx = x.lockIdx) :
    apply s idx (.kvSet e) = (s, .ok) := by
  have hxk : x.key = e.key := (tfind_some hf).2
  simp [apply, kvSetTxn, hk, hf, kvEqual, hv, hfl, hl, hxk, liftS, Except.map]

/-- … and a write that does change the entry stamps it with the command's index. -/
theorem changing_write_sets_modify (s : State) (idx : Nat) (e x : KV) (hk : e.key ≠ []) (hf : kvFind s e.key = some x)
    (hne : ¬ (e.val = x.val ∧ e.flags = x.flags ∧ e.lockIdx = x.lockIdx)) :
    ∃ y, kvFind (apply s idx (.kvSet e)).1 e.key = some y ∧ y.modify = idx ∧ y.create = x.create ∧ y.session = x.session := by
  have hxk : x.key = e.key := (tfind_some hf).2
  have hneq : kvEqual x { e with create := x.create, session := x.session } = false := by
    simp only [kvEqual, hxk]
    simp
    intro h1 h2 h3
    exact absurd ⟨h3.symm, h2.symm, h1.symm⟩ hne
  simp only [apply, kvSetTxn, hk, hf, if_false, Bool.false_eq_true, hneq, liftS, Except.map]
  exact ⟨_, kvFind_kvInsert_self s _, rfl, rfl, rfl⟩

/-- The create index of a key never changes while the key exists: for every KV command, a key present
    before and after carries the same create index. (Commands of the other families reach the KV table
    only through session invalidation, which releases or deletes rows; the release keeps every field
    but `session` and `modify` — `CV.Store.invalidateKeys`.) -/
theorem create_index_stable (s : State) (idx : Nat) (c : Cmd) (op : KvOp) (h : kvOpOf c = some op)
    (k : Key) (x y : KV) (hx : kvFind s k = some x) (hy : kvFind (apply s idx c).1 k = some y) :
    y.create = x.create :=
  kv_cmd_rel CreateKeep (fun _ _ _ _ hx hy => by rw [hx] at hy; cases hy; rfl)
    (fun _ _ _ _ _ _ hr => createKeep_set hr) (fun _ _ _ _ hr => createKeep_del hr) createKeep_tree
    s idx c op h k x y hx hy

/-- … and for every command outside the KV verbs (session create / destroy, register, deregister of a
    node / service / check, reap, prepared queries) as well as for every non-KV operation inside a
    transaction: each row afterwards is a row from before with the same key, create index, value, flags
    and lock counter (such commands only release or delete rows). -/
theorem create_index_stable_nonkv (s : State) (idx : Nat) (c : Cmd) (hc : c.isPlainNonKv = true) :
    ∀ e' ∈ (apply s idx c).1.kvs, ∃ e ∈ s.kvs,
      e'.key = e.key ∧ e'.create = e.create ∧ e'.val = e.val ∧ e'.flags = e.flags ∧ e'.lockIdx = e.lockIdx := by
  intro e' he'
  obtain ⟨e, he, hfrom⟩ := kc_apply (kvRel_closed idx s) c hc (kvRel_refl idx s) e' he'
  refine ⟨e, he, ?_⟩
  rcases hfrom with rfl | ⟨-, rfl⟩ <;> simp

theorem create_index_stable_txn_op (s s' : State) (idx : Nat) (op : TxnOp) (rs : List TxnRes)
    (hop : ∀ v e, op ≠ .kv v e) (hr : txnStep s idx op = .ok (s', rs)) :
    ∀ e' ∈ s'.kvs, ∃ e ∈ s.kvs,
      e'.key = e.key ∧ e'.create = e.create ∧ e'.val = e.val ∧ e'.flags = e.flags ∧ e'.lockIdx = e.lockIdx := by
  intro e' he'
  obtain ⟨e, he, hfrom⟩ := kc_txnStep (kvRel_closed idx s) hop hr (kvRel_refl idx s) e' he'
  refine ⟨e, he, ?_⟩
  rcases hfrom with rfl | ⟨-, rfl⟩ <;> simp

/-- Lock counter, fresh acquisition: when the key is unlocked (or absent) a successful lock stores
    the old counter plus one (1 for a new key) and records the session as holder. -/
theorem lock_counter_fresh (s : State) (idx : Nat) (e : KV)
    (hok : (apply s idx (.kvLock e)).2 = .bool true)
    (hfree : ∀ x, kvFind s e.key = some x → x.session = "") :
    ∃ y, kvFind (apply s idx (.kvLock e)).1 e.key = some y ∧ y.session = e.session ∧
      y.lockIdx = (match kvFind s e.key with | some x => x.lockIdx + 1 | none => 1) := by
  obtain ⟨e', hd⟩ := (apply_lock_true_iff s idx e).mp hok
  obtain ⟨hs', hk', hk, hs, -⟩ := lockDecision_some hd
  obtain ⟨s', w, hr⟩ := kvSetTxn_ok (s := s) (idx := idx) (e := e') (upd := true) (hk' ▸ hk)
  obtain ⟨⟨y, hy, -, -, hl, hsess, -, -⟩, -⟩ := kvSetTxn_find hr
  refine ⟨y, ?_, (hsess rfl).trans hs', ?_⟩
  · simp [apply, kvLockTxn, hd, hr, liftB, Except.map, ← hk', hy]
  · rw [hl]
    simp only [lockDecision, hs, hk, if_false] at hd
    split at hd
    · simp at hd
    · cases hf : kvFind s e.key with
      | none => simp [hf] at hd; rw [← hd]
      | some x =>
        have hx := hfree x hf
        simp only [hf, hx] at hd
        have : ¬ ("" = e.session) := fun hh => hs hh.symm
        simp [this] at hd
        rw [← hd]

/-- Lock counter, re-acquisition by the holder: the counter is unchanged. -/
theorem lock_counter_reacquire (s : State) (idx : Nat) (e x : KV)
    (hok : (apply s idx (.kvLock e)).2 = .bool true)
    (hx : kvFind s e.key = some x) (hheld : x.session = e.session) :
    ∃ y, kvFind (apply s idx (.kvLock e)).1 e.key = some y ∧ y.session = e.session ∧ y.lockIdx = x.lockIdx := by
  obtain ⟨e', hd⟩ := (apply_lock_true_iff s idx e).mp hok
  obtain ⟨hs', hk', hk, hs, -⟩ := lockDecision_some hd
  obtain ⟨s', w, hr⟩ := kvSetTxn_ok (s := s) (idx := idx) (e := e') (upd := true) (hk' ▸ hk)
  obtain ⟨⟨y, hy, -, -, hl, hsess, -, -⟩, -⟩ := kvSetTxn_find hr
  refine ⟨y, ?_, (hsess rfl).trans hs', ?_⟩
  · simp [apply, kvLockTxn, hd, hr, liftB, Except.map, ← hk', hy]
  · rw [hl]
    simp only [lockDecision, hs, hk, if_false, hx, hheld, if_true] at hd
    split at hd
    · simp at hd
    · simp at hd; rw [← hd]

/-- Lock counter, release: a successful unlock clears the holder and leaves the counter unchanged. -/
theorem lock_counter_release (s : State) (idx : Nat) (e x : KV)
    (hok : (apply s idx (.kvUnlock e)).2 = .bool true) (hx : kvFind s e.key = some x) :
    ∃ y, kvFind (apply s idx (.kvUnlock e)).1 e.key = some y ∧ y.session = "" ∧ y.lockIdx = x.lockIdx := by
  obtain ⟨e', hd⟩ := (apply_unlock_true_iff s idx e).mp hok
  obtain ⟨hs', hk', hk⟩ := unlockDecision_some hd
  obtain ⟨s', w, hr⟩ := kvSetTxn_ok (s := s) (idx := idx) (e := e') (upd := true) (hk' ▸ hk)
  obtain ⟨⟨y, hy, -, -, hl, hsess, -, -⟩, -⟩ := kvSetTxn_find hr
  refine ⟨y, ?_, (hsess rfl).trans hs', ?_⟩
  · simp [apply, kvUnlockTxn, hd, hr, liftB, Except.map, ← hk', hy]
  · rw [hl]
    simp only [unlockDecision, hk, if_false, hx] at hd
    repeat' (split at hd)
    all_goals (simp at hd)
    rw [← hd]

/-- delete-tree removes exactly the keys that have the prefix; siblings such as "ab" next to "a/"
    are untouched. FULL STATEMENT (for every prefix `p`):
      abs (apply s idx (.kvDeleteTree p)).1 = (abs s).filter (fun x => !p.isPrefixOf x.1)
    It is FALSE for the code as it is when `p` ends in a NUL byte (`delete_tree_exact_counterexample`,
    recorded finding kv:delete-tree-nul-terminated-prefix); proved for every other prefix. -/
theorem delete_tree_exact_partial (s : State) (idx : Nat) (p : Key) (hp : noNulEnd p = true) :
    abs (apply s idx (.kvDeleteTree p)).1 = (abs s).filter (fun x => !p.isPrefixOf x.1) :=
  (refines_deleteTree s idx p hp).1

/-- the witness state of the counterexample: the single key "a" -/
def witnessA : State := { kvs := [⟨[97], "=v", 0, "", 0, 1, 1⟩] }

/-- `KVSDeleteTree("a\x00")` deletes the key "a", which does not have that prefix. -/
theorem delete_tree_exact_counterexample :
    ([97, 0] : Key).isPrefixOf [97] = false ∧ (apply witnessA 2 (.kvDeleteTree [97, 0])).1.kvs = [] := by
  decide

/-- … and `KVSList("a\x00")` returns the key "a". -/
theorem list_nul_prefix_counterexample : ((kvList witnessA [97, 0]).2.map (·.key)) = [[97]] := by
  decide

/-- KV histories: replaying any sequence of KV commands on the store and on the sequential map
    (with the sessions that exist at the start — KV commands never create or destroy sessions)
    ends in the same map, for every history, by induction over the list. -/
def specReplay (live : String → Bool) (m : KMap) : Log → KMap
  | [] => m
  | (i, c) :: rest =>
    match kvOpOf c with
    | some op => specReplay live (specStep m live i op).1 rest
    | none => specReplay live m rest

/-- every command of the log is a KV write (with a delete-tree prefix that does not end in NUL) -/
def KvLog (log : Log) : Prop :=
  ∀ ic ∈ log, ∃ op, kvOpOf ic.2 = some op ∧ ∀ p, op = .deleteTree p → noNulEnd p = true

/-- (KV-only histories; the general statement is `history_refines` below.) -/
theorem history_refines_partial (s : State) (log : Log) (h : KvLog log) :
    abs (replay s log) = specReplay (sessionLive s) (abs s) log := by
  induction log generalizing s with
  | nil => rfl
  | cons ic rest ih =>
    obtain ⟨i, c⟩ := ic
    obtain ⟨op, hop, hp⟩ := h (i, c) (by simp)
    have hrest : KvLog rest := fun x hx => h x (by simp [hx])
    have hstep := (kv_refines s i c op hop hp).1
    have hsess := sessionLive_congr (kv_cmd_sessions s i c op hop)
    simp only [replay, List.foldl_cons, specReplay, hop] at ih ⊢
    rw [← hstep, ← hsess]
    exact ih (apply s i c).1 hrest

/-- the sequential map's reaction to ONE command of any non-transaction type: a KV verb is a `specStep`;
    every other command acts on the map only through the sessions it ends (`specEnd`: the keys of the
    sessions that are gone afterwards are released or deleted by behaviour, nothing else moves) -/
def specCmd (m : KMap) (s s' : State) (idx : Nat) (c : Cmd) : KMap :=
  match kvOpOf c with
  | some op => (specStep m (sessionLive s) idx op).1
  | none => specEnd m idx (fun h => !sessionLive s' h) (behOf s)

/-- not a transaction, and a delete-tree prefix that does not end in NUL -/
def PlainCmd (c : Cmd) : Prop := (∀ ops, c ≠ .txn ops) ∧ (∀ p, c = .kvDeleteTree p → noNulEnd p = true)

/-- Refinement for EVERY non-transaction command — KV verbs, session create / destroy, register,
    deregister of a node / service / check (with all cascades), tombstone reap, prepared queries —
    from any state satisfying the lock invariant. -/
theorem cmd_refines (s : State) (hinv : LockInv s) (idx : Nat) (c : Cmd) (hc : PlainCmd c) :
    abs (apply s idx c).1 = specCmd (abs s) s (apply s idx c).1 idx c := by
  unfold specCmd
  cases hk : kvOpOf c with
  | some op =>
    simp only
    exact (kv_refines s idx c op hk (by
      intro p hp
      cases c <;> simp only [kvOpOf] at hk <;> try (cases hk)
      all_goals (first | (cases hp; exact hc.2 _ rfl) | cases hp))).1
  | none =>
    simp only
    by_cases he : c.endsSessionsOnly = true
    · exact ends_only_refines s hinv idx c he
    · -- what is left is session create: the KV table is untouched and no holder disappears
      cases c <;> simp [Cmd.endsSessionsOnly, kvOpOf] at he hk
      · rename_i r
        have hview : (apply s idx (.sessionCreate r)).1.kvs = s.kvs ∧
            ∀ h, sessionLive s h = true → sessionLive (apply s idx (.sessionCreate r)).1 h = true := by
          simp only [apply]
          cases hq : sessionCreate s idx r with
          | error e => exact ⟨rfl, fun _ hl => hl⟩
          | ok s' => exact sessionCreate_view hq
        unfold abs specEnd
        rw [hview.1]
        symm
        apply filterMap_self
        intro x hx
        simp only [absKV, List.mem_map] at hx
        obtain ⟨e, he', rfl⟩ := hx
        by_cases hs : e.session = ""
        · simp [toEnt, hs]
        · have := hview.2 e.session (sessionLive_of_live (hinv.1 e he' hs))
          simp [toEnt, this]
      · rename_i ops
        exact absurd rfl (hc.1 ops)

/-- the sequential map along a history (the implementation's session tables tell the specification
    which sessions exist, exactly as `live` does in `specStep`) -/
def specHistory : State → KMap → Log → KMap
  | _, m, [] => m
  | s, m, (i, c) :: rest => specHistory (apply s i c).1 (specCmd m s (apply s i c).1 i c) rest

/-- History refinement: for every history of non-transaction commands of ALL types — arbitrary keys,
    values, flags, indexes, interleaved with session creation / destruction, catalog registration and
    deregistration with their cascades, and tombstone reaping — the KV table is, after every prefix,
    exactly the sequential versioned map. (Transactions: each KV verb inside is the direct command —
    `kv_txn_verb_is_direct_command` — and every other verb only releases or deletes rows —
    `create_index_stable_txn_op`; the transaction as a whole is the fold of its verbs, CV.Props.C05.) -/
theorem history_refines (s : State) (hinv : LockInv s) (log : Log) (h : ∀ ic ∈ log, PlainCmd ic.2) :
    abs (replay s log) = specHistory s (abs s) log := by
  induction log generalizing s with
  | nil => rfl
  | cons ic rest ih =>
    obtain ⟨i, c⟩ := ic
    have hc := h (i, c) (by simp)
    simp only [replay, List.foldl_cons, specHistory] at ih ⊢
    rw [← cmd_refines s hinv i c hc]
    exact ih (apply s i c).1 (lockInv_apply i c hinv) (fun x hx => h x (by simp [hx]))

/-- from the empty store in particular -/
theorem history_refines_from_empty (log : Log) (h : ∀ ic ∈ log, PlainCmd ic.2) :
    abs (replay State.empty log) = specHistory State.empty [] log :=
  history_refines State.empty lockInv_empty log h

/-! ### non-vacuity -/

/-- a state with a live session and a locked key -/
def demo : State :=
  replay State.empty
    [(1, .register ⟨⟨"n1", "", "10.0.0.1", 0, 0⟩, none, []⟩),
     (2, .sessionCreate ⟨"aaaaaaaa-0000-0000-0000-000000000001", "n1", "", "release", [], 0⟩),
     (3, .kvLock ⟨[97], "=v", 0, "aaaaaaaa-0000-0000-0000-000000000001", 0, 0, 0⟩)]

/- (test, `#guard`) the demo state holds key "a" locked with counter 1; a second lock by the same session keeps it -/
#guard demo.kvs.map (fun e => (e.key, e.lockIdx, e.session)) == [([97], 1, "aaaaaaaa-0000-0000-0000-000000000001")]
#guard (apply demo 4 (.kvLock ⟨[97], "=v", 0, "aaaaaaaa-0000-0000-0000-000000000001", 0, 0, 0⟩)).2 == .bool true

/-- the hypotheses of the refinement / history theorems are satisfiable by non-trivial logs -/
example : KvLog [(4, .kvSet ⟨[97], "=w", 1, "", 0, 0, 0⟩), (5, .kvDeleteTree [97]), (6, .kvDeleteCas [98] 3)] := by
  intro ic hic
  simp at hic
  rcases hic with rfl | rfl | rfl
  · exact ⟨_, rfl, by intro p hp; cases hp⟩
  · exact ⟨_, rfl, by intro p hp; cases hp; decide⟩
  · exact ⟨_, rfl, by intro p hp; cases hp⟩

/-- a history mixing all command families satisfies the hypothesis of `history_refines` -/
example : ∀ ic ∈ ([(1, .register ⟨⟨"n1", "", "a", 0, 0⟩, none, []⟩), (2, .sessionCreate ⟨"s", "n1", "", "delete", [], 0⟩),
    (3, .kvLock ⟨[97], "=v", 0, "s", 0, 0, 0⟩), (4, .deregister "n1" "" ""), (5, .kvDeleteTree [97, 47])] : Log),
    PlainCmd ic.2 := by
  intro ic hic
  simp at hic
  rcases hic with rfl | rfl | rfl | rfl | rfl <;>
    exact ⟨(by intro ops h; cases h), (by intro p h; first | (cases h; decide) | cases h)⟩

example : noNulEnd [] = true ∧ noNulEnd [97, 47] = true ∧ noNulEnd [97, 0] = false := by decide

end CV.Store
