/-
CV.Stream — model of consul's event streaming path (property C11).

Mirrors, as the code is:
  * agent/consul/state/memdb.go            `txn.Commit`: events are computed from the change set
                                           before the memdb commit and handed to `Publish`
                                           afterwards; `Publish` only enqueues on `publishCh`
  * agent/consul/state/catalog_events.go   `ServiceHealthEventsFromChanges`, `ServiceHealthSnapshot`,
                                           `serviceHealthToConnectEvents`, `connectEventsByServiceKind`,
                                           `isConnectProxyDestinationServiceChange`
  * agent/consul/state/config_entry_events.go `ConfigEntryEventsFromChanges`, `configEntrySnapshot`
  * agent/consul/state/acl_events.go       `aclChangeUnsubscribeEvent`
  * agent/consul/state/catalog.go          the index bookkeeping that decides the index a health /
                                           connect query (and therefore a snapshot) reports
  * agent/consul/stream/event_publisher.go `Subscribe`, `publishEvent`, snapshot cache, `RefreshAllTopics`
  * agent/consul/stream/event_snapshot.go  `appendAndSplice`, `spliceFromTopicBuffer`
  * agent/consul/stream/subscription.go    `Next`, close states
  * agent/submatview/handler.go, materializer.go  handler state machine, `updateView`, `reset`
  * agent/rpcclient/health/view.go, agent/rpcclient/configentry/view.go  `Update` (upsert / delete by id)

Representation choice (documented abstraction): the lock-free linked list of `event_buffer.go`
is append-only and every subscription only ever walks forward from the item it was attached at.
The model therefore gives every attached subscription (and every cached snapshot) its own copy
of the suffix it can still reach (`inbox`, `tail`); `publishOne` appends to all copies. What
`Subscribe` inspects of a topic buffer — whether it exists and what its most recent item is — is
kept per key in `lasts`. Core-only Lean; no Mathlib.
-/
import CV.Proto
namespace CV.Stream

/-! ## Catalog: state, queries, writes, events -/

inductive Topic | health | connect | cfg
deriving DecidableEq, Repr

inductive Subj | named (s : String) | wild
deriving DecidableEq, Repr

structure Key where
  topic : Topic
  subj  : Subj
deriving DecidableEq, Repr

inductive Kind | typical | native | proxy (dest : String)
deriving DecidableEq, Repr

/-- a service instance row (`structs.ServiceNode`), key `(node, sid)` -/
structure Svc where
  node : String
  sid  : String
  name : String
  port : Nat
  kind : Kind
deriving DecidableEq, Repr

/-- what a view stores per id: the rendered `CheckServiceNode` / config entry -/
structure Val where
  name : String
  port : Nat
  addr : Nat
  kind : Kind
deriving DecidableEq, Repr

abbrev Id := String × String          -- (node, service id)  /  (config entry name, "")
abbrev View := List (Id × Val)        -- association list, first match wins

structure Cat where
  nodes   : List (String × Nat)       -- node → address
  svcs    : List Svc
  cfgs    : List (String × Nat)       -- service-defaults name → content
  svcIdx  : List (String × Nat)       -- index table rows `service.<name>`
  extinct : Option Nat                -- index table row `service_last_extinction`
  catIdx  : Nat                       -- max of the nodes / services / checks table indexes
  cfgIdx  : Nat                       -- index of the config-entries table
deriving DecidableEq, Repr

def Cat.empty : Cat := ⟨[], [], [], [], none, 0, 0⟩

def lookup? {α β : Type} [DecidableEq α] (k : α) : List (α × β) → Option β
  | [] => none
  | (a, b) :: r => if a = k then some b else lookup? k r

def upsert {α β : Type} [DecidableEq α] (k : α) (v : β) (l : List (α × β)) : List (α × β) :=
  (k, v) :: l.filter (fun p => p.1 ≠ k)

def erase {α β : Type} [DecidableEq α] (k : α) (l : List (α × β)) : List (α × β) :=
  l.filter (fun p => p.1 ≠ k)

/-- `indexUpdateMaxTxn` -/
def bump (k : String) (idx : Nat) (l : List (String × Nat)) : List (String × Nat) :=
  match lookup? k l with
  | some old => upsert k (max old idx) l
  | none => upsert k idx l

def Svc.key (s : Svc) : Id := (s.node, s.sid)

def findSvc (c : Cat) (node sid : String) : Option Svc :=
  c.svcs.find? (fun s => s.node = node ∧ s.sid = sid)

def nodeAddr (c : Cat) (node : String) : Nat :=
  match lookup? node c.nodes with
  | some a => a
  | none => 0      -- unreachable for rows of a well-formed catalog (a service row needs its node)

def render (c : Cat) (s : Svc) : Id × Val := (s.key, ⟨s.name, s.port, nodeAddr c s.node, s.kind⟩)

/-- does instance `s` belong to the result of the query behind `k`?
    (memdb indexes `service` / `connect` of the services table) -/
def belongs (k : Key) (s : Svc) : Bool :=
  match k.topic, k.subj with
  | .health, .named n => s.name = n
  | .connect, .named n =>
      (match s.kind with
       | .native => s.name = n
       | .proxy d => d = n
       | .typical => false)
  | _, _ => false

/-- the direct query: `CheckServiceNodes` / `CheckConnectServiceNodes` / `ConfigEntry` /
    `ConfigEntriesByKind`, as an association list -/
def query (k : Key) (c : Cat) : View :=
  match k.topic, k.subj with
  | .cfg, .named n => (c.cfgs.filter (fun p => p.1 = n)).map fun p => ((p.1, ""), ⟨p.1, p.2, 0, .typical⟩)
  | .cfg, .wild => c.cfgs.map fun p => ((p.1, ""), ⟨p.1, p.2, 0, .typical⟩)
  | _, _ => (c.svcs.filter (belongs k)).map (render c)

def svcIndexOr (c : Cat) (name : String) : Nat :=
  match lookup? name c.svcIdx with
  | some i => i
  | none => c.catIdx

/-- `maxIndexAndWatchChForService(serviceExists=false)` -/
def absentIdx (c : Cat) (name : String) : Nat :=
  match c.extinct with
  | some e => e
  | none => svcIndexOr c name

/-- the index the direct query reports (`checkServiceNodesTxn`, `configEntryTxn`) -/
def queryIdx (k : Key) (c : Cat) : Nat :=
  match k.topic, k.subj with
  | .cfg, _ => c.cfgIdx
  | _, .wild => 0
  | _, .named n =>
      let rs := c.svcs.filter (belongs k)
      if rs.isEmpty then absentIdx c n
      else rs.foldl (fun m s => max m (svcIndexOr c s.name)) 0

/-- one catalog-level event, already routed to a topic buffer key (`topicSubject`) -/
structure Ev where
  key : Key
  del : Bool
  id  : Id
  val : Val
deriving DecidableEq, Repr

inductive Write
  | reg (node : String) (addr : Nat) (svc : Option Svc)   -- structs.RegisterRequest (svc.node = node)
  | dereg (node : String) (sid : Option String)           -- structs.DeregisterRequest
  | cfgSet (name : String) (val : Nat)                    -- ConfigEntryUpsert of a service-defaults
  | cfgDel (name : String)                                -- ConfigEntryDelete
  | tok (secret : String)                                 -- ACLTokenSet
  | kv                                                    -- any write outside the catalog
deriving DecidableEq, Repr

def hkey (name : String) : Key := ⟨.health, .named name⟩
def ckey (name : String) : Key := ⟨.connect, .named name⟩

/-- `newServiceHealthEventRegister` on the health topic -/
def regEv (c : Cat) (s : Svc) : Ev := ⟨hkey s.name, false, s.key, (render c s).2⟩
/-- `newServiceHealthEventDeregister` -/
def deregEv (c : Cat) (s : Svc) : Ev := ⟨hkey s.name, true, s.key, (render c s).2⟩

/-- `connectEventsByServiceKind` (no terminating gateways in the model) -/
def connectCopy (e : Ev) : List Ev :=
  match e.key.topic, e.val.kind with
  | .health, .native => [{ e with key := ckey e.val.name }]
  | .health, .proxy d => [{ e with key := ckey d }]
  | _, _ => []

def destOf : Kind → String
  | .proxy d => d
  | _ => ""

def svcsOnNode (c : Cat) (node : String) : List Svc := c.svcs.filter (fun s => s.node = node)

def putSvc (svcs : List Svc) (s : Svc) : List Svc :=
  match svcs.find? (fun t => t.node = s.node ∧ t.sid = s.sid) with
  | some _ => svcs.map (fun t => if t.node = s.node ∧ t.sid = s.sid then s else t)
  | none => svcs ++ [s]

def maxOpt : Option Nat → Nat → Nat
  | some e, i => max e i
  | none, i => i

/-- `deleteServiceTxn` index bookkeeping + row removal for one instance -/
def dropSvc (idx : Nat) (c : Cat) (s : Svc) : Cat :=
  let svcs := c.svcs.filter (fun t => ¬ (t.node = s.node ∧ t.sid = s.sid))
  if svcs.any (fun t => t.name = s.name) then
    { c with svcs := svcs, catIdx := idx, svcIdx := bump s.name idx c.svcIdx }
  else
    { c with svcs := svcs, catIdx := idx, svcIdx := erase s.name c.svcIdx,
             extinct := some (maxOpt c.extinct idx) }

/-- `ensureNodeTxn`: row, table index, and the service indexes of every instance on the node -/
def setNode (idx : Nat) (c : Cat) (node : String) (addr : Nat) : Cat :=
  { c with nodes := upsert node addr c.nodes, catIdx := idx, svcIdx := (svcsOnNode c node).foldl (fun m s => bump s.name idx m) c.svcIdx }

/-- `ensureServiceTxn` / `catalogInsertService`: row, table index, `service.<name>` index -/
def regCat (idx : Nat) (c : Cat) (s : Svc) : Cat :=
  { c with svcs := putSvc c.svcs s, catIdx := idx, svcIdx := bump s.name idx c.svcIdx }

/-- The commit of one write at Raft index `idx`: the new catalog, the events
    `processDBChanges` computes for it (health events, then their Connect copies; config entry
    events), and the tokens of its `closeSubscriptionPayload`. -/
def applyWrite (idx : Nat) (c : Cat) : Write → Cat × List Ev × List String
  | .kv => (c, [], [])
  | .tok t => (c, [], [t])
  | .cfgSet n v =>
      ({ c with cfgs := upsert n v c.cfgs, cfgIdx := idx },
       [⟨⟨.cfg, .named n⟩, false, (n, ""), ⟨n, v, 0, .typical⟩⟩], [])
  | .cfgDel n =>
      (match lookup? n c.cfgs with
       | none => (c, [], [])
       | some v => ({ c with cfgs := erase n c.cfgs, cfgIdx := idx },
                    [⟨⟨.cfg, .named n⟩, true, (n, ""), ⟨n, v, 0, .typical⟩⟩], []))
  | .dereg node (some sid) =>
      (match findSvc c node sid with
       | none => (c, [], [])
       | some s =>
           let h := [deregEv c s]
           (dropSvc idx c s, h ++ h.flatMap connectCopy, []))
  | .dereg node none =>
      (match lookup? node c.nodes with
       | none => (c, [], [])
       | some _ =>
           let ss := svcsOnNode c node
           let h := ss.map (deregEv c)
           let c1 := ss.foldl (dropSvc idx) c
           ({ c1 with nodes := erase node c1.nodes, catIdx := idx }, h ++ h.flatMap connectCopy, []))
  | .reg node addr svc =>
      let nodeChanged := lookup? node c.nodes ≠ some addr
      let c1 : Cat := if nodeChanged then setNode idx c node addr else c
      let before := svc.bind fun s => findSvc c node s.sid
      let svcChanged := match svc with
        | none => false
        | some s => before ≠ some s
      let c2 : Cat := match svc with
        | some s => if svcChanged then regCat idx c1 s else c1
        | none => c1
      -- events
      let nodeEvs := if nodeChanged then (svcsOnNode c2 node).map (regEv c2) else []
      let svcEvs := match svc with
        | none => []
        | some s =>
          if svcChanged then
            (match before with
             | some b =>
                (if b.name ≠ s.name then [deregEv c b] else []) ++
                (match b.kind with
                 | .proxy d => if d ≠ destOf s.kind then [(⟨ckey d, true, b.key, (render c b).2⟩ : Ev)] else []
                 | _ => [])
             | none => []) ++
            (if nodeChanged then [] else [regEv c2 s])
          else []
      let evs := nodeEvs ++ svcEvs
      (c2, evs ++ evs.flatMap connectCopy, [])

/-- `ServiceHealthSnapshot` / `configEntrySnapshot`: the event groups appended before the
    end-of-snapshot marker (one buffer item per health node; one item for config entries) -/
def snapshotItems (k : Key) (c : Cat) : List (List Ev) :=
  match k.topic with
  | .cfg =>
      let q := query k c
      if q.isEmpty then [] else [q.map fun p => ⟨k, false, p.1, p.2⟩]
  | _ => (query k c).map fun p => [⟨k, false, p.1, p.2⟩]

/-! ## Views (HealthView.Update, ConfigEntryView / ConfigEntryListView.Update) -/

def applyEv (v : View) (e : Ev) : View :=
  if e.del then erase e.id v else upsert e.id e.val v

def applyEvs (v : View) (es : List Ev) : View := es.foldl applyEv v

/-! ## Publisher, subscriptions, materializers -/

/-- one item of a topic buffer: the events of one commit routed to one key.
    `post` is a ghost annotation: the result of the direct query right after that commit. -/
structure Item where
  idx  : Nat
  evs  : List Ev
  post : View
deriving DecidableEq, Repr

/-- what `Subscription.Next` can return -/
inductive Step
  | nstf                                      -- NewSnapshotToFollow
  | eos (idx : Nat) (post : View)             -- EndOfSnapshot (ghost: the query result it was built from)
  | item (it : Item)                          -- a snapshot item or a topic buffer item
deriving DecidableEq, Repr

structure Batch where
  idx   : Nat
  evs   : List Ev
  close : List String
  cat   : Cat                                 -- ghost: the catalog right after this commit
deriving DecidableEq, Repr

inductive SubState | none | opened | force | acl
deriving DecidableEq, Repr

inductive Handler
  | snap (acc : List Ev)
  | stream
  | resume
  | bad                   -- a handler returned an error (framing event where none may occur)
deriving DecidableEq, Repr

/-- what a subscriber's token may read (`acl.Authorizer` built from one small policy):
    everything, nothing, `service "<n>" {read}` for some names (+ every node), or
    `node "<n>" {read}` for some nodes (+ every service) -/
inductive Authz
  | all
  | none
  | svcs (names : List String)
  | nodes (names : List String)
deriving DecidableEq, Repr

def Authz.svcOk : Authz → String → Bool
  | .all, _ => true
  | .none, _ => false
  | .svcs l, n => l.contains n
  | .nodes _, _ => true

def Authz.nodeOk : Authz → String → Bool
  | .all, _ => true
  | .none, _ => false
  | .svcs _, _ => true
  | .nodes l, n => l.contains n

/-- `Payload.HasReadPermission`: `CheckServiceNode.CanRead` (node:read on the node and
    service:read on the service name) / `ServiceConfigEntry.CanRead` (service:read on the name) -/
def Authz.entryOk (a : Authz) (t : Topic) (id : Id) (v : Val) : Bool :=
  match t with
  | .cfg => a.svcOk v.name
  | _ => a.nodeOk id.1 && a.svcOk v.name

def Authz.allowed (a : Authz) (e : Ev) : Bool := a.entryOk e.key.topic e.id e.val

/-- the direct query result after ACL filtering (aclfilter semantics) -/
def fview (a : Authz) (t : Topic) (v : View) : View := v.filter fun p => a.entryOk t p.1 p.2

/-- what `Subscription.Next` + the ACL filter of the subscribe loop hand to the handler: a pure
    function of (authorizer, shared item); `none`: everything in the item was filtered out and the
    loop continues with the next item. The shared item itself is never modified. -/
def visible (a : Authz) (_t : Topic) : Step → Option Step
  | .nstf => some .nstf
  | .eos i post => some (.eos i post)
  | .item it =>
      let evs := it.evs.filter a.allowed
      -- (the ghost `post` stays the UNFILTERED query result: statements compare the view with its
      --  ACL-filter, see `IsFilterOf`)
      if evs.isEmpty ∧ ¬ it.evs.isEmpty then none else some (.item ⟨it.idx, evs, it.post⟩)

/-- client side: `materializer` (view, index) + the current handler of `subscribeOnce` -/
structure Mat where
  h     : Handler
  view  : View
  index : Nat
  expect : View           -- ghost: the direct-query result belonging to the last `updateView`
deriving DecidableEq, Repr

/-- a materializer (client side) together with its current subscription (server side) -/
structure Client where
  id    : Nat
  key   : Key
  tok   : String
  rpc   : Bool            -- RPCMaterializer (resets on Aborted) vs LocalMaterializer
  authz : Authz           -- what the subscriber's token may read
  sub   : SubState
  inbox : List Step
  m     : Mat
  -- ghost
  sidx   : Nat            -- index of the end-of-snapshot marker of the current subscription (0: none yet)
  lastDelivered : Nat     -- index of the last event `Next` returned in the current subscription
  mono   : Bool           -- delivered indexes of the current subscription never decreased
deriving DecidableEq, Repr

structure CacheEnt where
  key  : Key
  snap : List Item
  sidx : Nat
  post : View
  tail : List Item
deriving DecidableEq, Repr

structure Sys where
  cat     : Cat
  queue   : List Batch                 -- publishCh
  lasts   : List (Key × Item)          -- live topic buffers: key ↦ most recent item (absent: only the sentinel)
  cache   : List CacheEnt              -- snapCache
  ttl     : Bool                       -- snapCacheTTL ≠ 0
  clients : List Client
  lastIdx : Nat                        -- ghost: Raft index of the last commit (1 before any FSM command)
deriving DecidableEq, Repr

def Sys.init (ttl : Bool) : Sys := ⟨Cat.empty, [], [], [], ttl, [], 1⟩

inductive Act
  | client (id : Nat) (key : Key) (tok : String) (rpc : Bool) (authz : Authz)
  | commit (idx : Nat) (w : Write)
  | publishOne
  | subscribe (id : Nat)
  | next (id : Nat)
  | unsub (id : Nat)
  | expire
  | restore (c : Cat)
deriving DecidableEq, Repr

def wildOf (k : Key) : Option Key :=
  match k.topic with
  | .cfg => some ⟨.cfg, .wild⟩
  | _ => none

/-- the events of a batch that `publishEvent` groups under buffer key `k` -/
def evsFor (k : Key) (evs : List Ev) : List Ev :=
  evs.filter fun e => e.key = k ∨ wildOf e.key = some k

def attached (c : Client) : Bool := c.sub ≠ .none

def hasBuf (y : Sys) (k : Key) : Bool := y.clients.any fun c => c.key = k ∧ attached c

def setClient (y : Sys) (c : Client) : Sys :=
  { y with clients := y.clients.map fun d => if d.id = c.id then c else d }

def getClient (y : Sys) (id : Nat) : Option Client := y.clients.find? fun c => c.id = id

/-- `txn.Commit` + `EventPublisher.Publish` -/
def commit (y : Sys) (idx : Nat) (w : Write) : Sys :=
  let (c', evs, close) := applyWrite idx y.cat w
  { y with cat := c', queue := y.queue ++ [⟨idx, evs, close, c'⟩], lastIdx := idx }

def dedupKeys : List Key → List Key
  | [] => []
  | k :: r => if k ∈ dedupKeys r then dedupKeys r else k :: dedupKeys r

/-- the buffer keys a batch is grouped under (`groupedEvents` of `publishEvent`; a Go map:
    the order in which the buffers are appended to is not observable) -/
def keysOf (evs : List Ev) : List Key :=
  dedupKeys (evs.flatMap fun e => e.key :: (wildOf e.key).toList)

/-- deliver one batch to the buffer of key `k` (if it has subscribers) -/
def publishKey (b : Batch) (y : Sys) (k : Key) : Sys :=
  if hasBuf y k then
    let it : Item := ⟨b.idx, evsFor k b.evs, query k b.cat⟩
    { y with
      lasts := upsert k it y.lasts,
      cache := y.cache.map (fun e => if e.key = k then { e with tail := e.tail ++ [it] } else e),
      clients := y.clients.map fun c =>
        if c.key = k ∧ attached c then { c with inbox := c.inbox ++ [.item it] } else c }
  else y

/-- `publishEvent` of one queued batch -/
def publishOne (y : Sys) : Sys :=
  match y.queue with
  | [] => y
  | b :: rest =>
      let cs := y.clients.map fun c =>
        if c.sub = .opened ∧ b.close.contains c.tok then { c with sub := .acl } else c
      let y1 : Sys := { y with queue := rest, clients := cs }
      (keysOf b.evs).foldl (publishKey b) y1

def snapIdx (k : Key) (c : Cat) : Nat :=
  let i := queryIdx k c
  if i = 0 then 1 else i

/-- prologue of `subscribeOnce`: `m.handler = initialHandler(req.Index)` -/
def Mat.start (m : Mat) : Mat := { m with h := if m.index = 0 then .snap [] else .resume }

/-- what a (cached) snapshot will still deliver: its items, the end-of-snapshot marker, and the
    part of the topic buffer it was spliced onto -/
def CacheEnt.steps (e : CacheEnt) : List Step :=
  e.snap.map .item ++ [.eos e.sidx e.post] ++ e.tail.map .item

/-- `eventSnapshot.appendAndSplice`: run the snapshot function, append the end-of-snapshot marker
    (index 0 is replaced by 1), splice at the most recent topic buffer item if its index is larger
    than the snapshot index, else at the live tail -/
def freshEnt (k : Key) (c : Cat) (last : Option Item) : CacheEnt :=
  let si := snapIdx k c
  let tail := match last with
    | some it => if it.idx > si then [it] else []
    | none => []
  ⟨k, (snapshotItems k c).map (fun evs => ⟨queryIdx k c, evs, query k c⟩), si, query k c, tail⟩

def openSub (c : Client) (inbox : List Step) : Client :=
  { c with sub := .opened, m := c.m.start, sidx := 0, lastDelivered := 0, mono := true, inbox := inbox }

/-- `req.Index > 0 && topicHead.HasEventIndex(req.Index)` -/
def resumes (c : Client) (last : Option Item) : Bool :=
  c.m.index ≠ 0 && (match last with
    | some it => it.idx = c.m.index
    | none => false)

/-- the leading `NewSnapshotToFollow` a stale (index ≠ 0) client gets -/
def preamble (c : Client) : List Step := if c.m.index ≠ 0 then [.nstf] else []

/-- `EventPublisher.Subscribe` for client `id`, request index = the materializer's index -/
def subscribe (y : Sys) (id : Nat) : Sys :=
  match getClient y id with
  | none => y
  | some c =>
    if attached c then y else
    let last : Option Item := lookup? c.key y.lasts
    if resumes c last then
      -- the client view is fresh: resume after the most recent item
      setClient y (openSub c [])
    else
      match y.cache.find? (fun e => e.key = c.key) with
      | some e => setClient y (openSub c (preamble c ++ e.steps))
      | none =>
          let e := freshEnt c.key y.cat last
          setClient { y with cache := if y.ttl then y.cache ++ [e] else y.cache } (openSub c (preamble c ++ e.steps))

/-- `materializer.updateView` (+ ghost bookkeeping) -/
def updateView (m : Mat) (evs : List Ev) (idx : Nat) (post : View) : Mat :=
  { m with view := applyEvs m.view evs, index := idx, expect := post }

/-- `materializer.reset` (the handler is dead until the next `subscribeOnce` installs one) -/
def Mat.reset (m : Mat) : Mat := { m with view := [], index := 0, h := .snap [] }

/-- the handler state machine of `submatview/handler.go` on one received event -/
def handle (m : Mat) : Step → Mat
  | .nstf =>
      (match m.h with
       | .resume => m.reset                                               -- reset(); newSnapshotHandler
       | _ => { m with view := [], index := 0, h := .bad })               -- view.Update rejects a framing event
  | .eos idx post =>
      (match m.h with
       | .snap acc => { updateView m acc idx post with h := .stream }
       | .bad => m
       | _ => { m with view := [], index := 0, h := .bad })
  | .item it =>
      (match m.h with
       | .snap acc => { m with h := .snap (acc ++ it.evs) }
       | .bad => m
       | _ => { updateView m it.evs it.idx it.post with h := .stream })

def stepIdx : Step → Option Nat
  | .eos i _ => some i
  | .item it => some it.idx
  | _ => none

/-- result of one `Subscription.Next` + handler call, as the harness prints it -/
inductive NextRes
  | nosub
  | block
  | err (s : SubState)
  | skip (st : Step)                 -- the whole item was filtered out by the subscriber's ACL
  | ev (st : Step) (c : Client)

/-- `handle` with the duplicate-event guard of internal/storage/inmem/watch.go (`Index ≤ last ⇒
    skip`) applied where the materializer would call `updateView` for a streamed event -/
def handleG (m : Mat) (st : Step) : Mat :=
  match st with
  | .item it =>
      (match m.h with
       | .stream => if it.idx ≤ m.index then m else handle m st
       | .resume => if it.idx ≤ m.index then m else handle m st
       | _ => handle m st)
  | _ => handle m st

/-- one iteration of the loop of `subscribeOnce`, for a given handler step function -/
def nextWith (hd : Mat → Step → Mat) (y : Sys) (id : Nat) : Sys × NextRes :=
  match getClient y id with
  | none => (y, .nosub)
  | some c =>
    match c.sub with
    | .none => (y, .nosub)
    | .force | .acl =>
        -- ErrSubForceClosed / ErrACLChanged: the server side of an RPC stream answers Aborted and the
        -- RPC materializer resets; the local materializer keeps view and index
        let c' := if c.rpc then { c with m := c.m.reset } else c
        (setClient y c', .err c.sub)
    | .opened =>
      match c.inbox with
      | [] => (y, .block)
      | st0 :: rest =>
          match visible c.authz c.key.topic st0 with
          | none => (setClient y { c with inbox := rest }, .skip st0)
          | some st =>
          let c1 := { c with inbox := rest, m := hd c.m st }
          let c2 := match stepIdx st with
            | some i => { c1 with lastDelivered := i, mono := c1.mono && decide (c.lastDelivered ≤ i),
                                  sidx := (match st with | .eos j _ => j | _ => c1.sidx) }
            | none => c1
          (setClient y c2, .ev st c2)

/-- one iteration of the loop of `subscribeOnce` (the code as it is) -/
def next (y : Sys) (id : Nat) : Sys × NextRes := nextWith handle y id

/-- the same with the index guard in the materializer -/
def nextG (y : Sys) (id : Nat) : Sys × NextRes := nextWith handleG y id

/-- `Subscription.Unsubscribe` (+ `freeBuf`) -/
def unsub (y : Sys) (id : Nat) : Sys :=
  match getClient y id with
  | none => y
  | some c =>
    if ¬ attached c then y else
    let y1 := setClient y { c with sub := .none, inbox := [] }
    if hasBuf y1 c.key then y1
    else { y1 with lasts := erase c.key y1.lasts, cache := y1.cache.filter fun e => e.key ≠ c.key }

/-- the `time.AfterFunc(snapCacheTTL)` callbacks -/
def expire (y : Sys) : Sys := { y with cache := [] }

/-- `FSM.Restore`: new state store, `RefreshAllTopics` (evict every cached snapshot, force-close
    every subscription). Queued batches stay queued. -/
def restore (y : Sys) (c : Cat) : Sys :=
  { y with cat := c, cache := [],
           clients := y.clients.map fun d => if d.sub = .opened then { d with sub := .force } else d }

def addClient (y : Sys) (id : Nat) (key : Key) (tok : String) (rpc : Bool) (authz : Authz := .all) : Sys :=
  if (getClient y id).isSome then y else
  { y with clients := y.clients ++ [⟨id, key, tok, rpc, authz, .none, [], ⟨.snap [], [], 0, []⟩, 0, 0, true⟩] }

def step (y : Sys) : Act → Sys
  | .client id k t r a => addClient y id k t r a
  | .commit idx w => commit y idx w
  | .publishOne => publishOne y
  | .subscribe id => subscribe y id
  | .next id => (next y id).1
  | .unsub id => unsub y id
  | .expire => expire y
  | .restore c => restore y c

def run (y : Sys) (acts : List Act) : Sys := acts.foldl step y

/-- the system with the index guard in every materializer -/
def stepG (y : Sys) : Act → Sys
  | .next id => (nextG y id).1
  | a => step y a

def runG (y : Sys) (acts : List Act) : Sys := acts.foldl stepG y

end CV.Stream
