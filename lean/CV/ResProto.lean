/-
CV.ResProto — the locking protocol of `inmem.Store.WriteCAS` / `DeleteCAS` as an interleaving model
(property C18).

Every writer thread runs   eventLock.Lock → [read, check] → tx.Commit → publishEvent (send on publishCh)
→ eventLock.Unlock   (a rejected CAS goes Lock → Unlock).  The atomic actions of all threads, of readers
and of the publisher goroutine interleave arbitrarily; `step` applies one action if it is enabled and
leaves the state unchanged otherwise, so *every* list of actions is an interleaving.

  db      committed events, in commit order          (memdb + event index)
  chan    events sent on publishCh, in send order    (FIFO channel drained by one goroutine)
  nDisp   how many of them the publisher goroutine has dispatched to the topic buffers
  seen    per observer: (number of dispatched events it had received, the db it then read)

`locking := false` is the same protocol with `eventLock` removed — used to show the lock is what the
ordering theorem rests on.
-/
import CV.Proto
namespace CV.Res.Proto

inductive PC where
  | idle
  | locked
  | committed (e : Nat)     -- tx.Commit done, event `e` not yet sent
  | published
deriving DecidableEq, Repr

inductive Act where
  | lock (t : Nat)
  | commit (t : Nat)
  | publish (t : Nat)
  | unlock (t : Nat)
  | dispatch                 -- one iteration of EventPublisher.Run
  | readAfterEvent (o : Nat) -- an observer takes what has been dispatched so far, then reads the store
deriving DecidableEq, Repr

structure PState where
  pc    : Nat → PC
  lock  : Option Nat
  db    : List Nat
  chan  : List Nat
  nDisp : Nat
  seen  : List (Nat × List Nat × List Nat)   -- observer, events received, db read afterwards

def PState.init : PState := { pc := fun _ => .idle, lock := none, db := [], chan := [], nDisp := 0, seen := [] }

def setPc (f : Nat → PC) (t : Nat) (p : PC) : Nat → PC := fun u => if u = t then p else f u

def step (locking : Bool) (s : PState) : Act → PState
  | .lock t =>
    if s.pc t = .idle ∧ (locking = false ∨ s.lock = none) then { s with pc := setPc s.pc t .locked, lock := some t } else s
  | .commit t =>
    if s.pc t = .locked then { s with pc := setPc s.pc t (.committed s.db.length), db := s.db ++ [s.db.length] } else s
  | .publish t =>
    match s.pc t with
    | .committed e => { s with pc := setPc s.pc t .published, chan := s.chan ++ [e] }
    | _ => s
  | .unlock t =>
    if s.pc t = .locked ∨ s.pc t = .published then
      { s with pc := setPc s.pc t .idle, lock := if s.lock = some t then none else s.lock }
    else s
  | .dispatch => if s.nDisp < s.chan.length then { s with nDisp := s.nDisp + 1 } else s
  | .readAfterEvent o => { s with seen := s.seen ++ [(o, s.chan.take s.nDisp, s.db)] }

def run (locking : Bool) (s : PState) : List Act → PState
  | [] => s
  | a :: as => run locking (step locking s a) as

end CV.Res.Proto

/-! ### lock order of `WatchList` versus `Restoration.Commit`

`EventPublisher.Subscribe` takes the publisher lock `P` and, holding it, runs the snapshot handler, which
takes the store's `mu` (read) in `Store.txn`.  `Restoration.Commit` takes `mu` (write) and, holding it,
calls `RefreshTopic`, which takes `P`.  Two program counters suffice:

  WatchList          0 ─take P→ 1 ─take mu.R→ 2 ─release both→ 3
  Restoration.Commit 0 ─take mu.W→ 1 ─take P→ 2 ─release both→ 3
-/
namespace CV.Res.LockOrder

structure LState where
  w : Nat
  r : Nat
deriving DecidableEq, Repr

inductive LAct where
  | watch | restore
deriving DecidableEq, Repr

def step (s : LState) : LAct → LState
  | .watch =>
    if s.w = 0 then (if s.r = 2 then s else { s with w := 1 })                  -- P is free unless Commit holds it
    else if s.w = 1 then (if s.r = 1 ∨ s.r = 2 then s else { s with w := 2 })   -- mu.R needs mu not write-held
    else if s.w = 2 then { s with w := 3 }
    else s
  | .restore =>
    if s.r = 0 then (if s.w = 2 then s else { s with r := 1 })                  -- mu.W needs no reader
    else if s.r = 1 then (if s.w = 1 ∨ s.w = 2 then s else { s with r := 2 })   -- P is held by WatchList
    else if s.r = 2 then { s with r := 3 }
    else s

def run (s : LState) : List LAct → LState
  | [] => s
  | a :: as => run (step s a) as

end CV.Res.LockOrder
