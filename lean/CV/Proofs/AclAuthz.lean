/-
Helper lemmas for C08, part 3: the compiled authorizer as a function of the merged slot levels;
existence for valid policies; invariance under reordering of the policies.
-/
import CV.Proofs.AclTree
namespace CV.Acl

/-! ### the trees of an authorizer -/

inductive TreeSel | agent | intention | key | node | service | session | event | query
deriving DecidableEq, Repr

def Authz.tree (z : Authz) : TreeSel → Tree
  | .agent => z.agent | .intention => z.intention | .key => z.key | .node => z.node
  | .service => z.service | .session => z.session | .event => z.event | .query => z.query

/-- the rule kind a tree is loaded from (the intention tree is derived from the service rules) -/
def TreeSel.kind : TreeSel → Kind
  | .agent => .agent | .intention => .service | .key => .key | .node => .node
  | .service => .service | .session => .session | .event => .event | .query => .query

/-- which string of the rule the tree holds -/
def TreeSel.f : TreeSel → Rule → PStr
  | .intention => intentionOf
  | _ => fun r => r.pol

theorem loadRules_parts (m : Policy) (z : Authz) (h : loadRules m = some z) :
    (∀ s : TreeSel, loadKind s.f m.rules s.kind = some (z.tree s)) ∧ z.tp = [] ∧
    loadScalar m.acl = some z.aclR ∧ loadScalar m.keyring = some z.keyringR ∧
    loadScalar m.operator = some z.operatorR ∧ loadScalar m.mesh = some z.meshR ∧
    loadScalar m.peering = some z.peeringR := by
  simp only [loadRules, Option.bind_eq_bind, Option.bind_eq_some_iff, Option.pure_def, Option.some.injEq] at h
  obtain ⟨a, ha, k, hk, n, hn, s, hs, i, hi, x, hx, e, he, q, hq, c1, h1, c2, h2, c3, h3, c4, h4, c5, h5, rfl⟩ := h
  refine ⟨?_, rfl, h1, h2, h3, h4, h5⟩
  intro sel
  cases sel <;> simp only [TreeSel.f, TreeSel.kind, Authz.tree] <;> assumption

/-! ### queries only look at `get` and `any` -/

theorem TreeEquiv.getPolicy {t t' : Tree} (h : TreeEquiv t t') (seg : Bytes) : getPolicy t seg = getPolicy t' seg := by
  simp only [Acl.getPolicy, h.path]

theorem TreeEquiv.check {t t' : Tree} (h : TreeEquiv t t') (seg : Bytes) (req : Access) :
    check t seg req = check t' seg req := by
  simp only [Acl.check, h.getPolicy]

theorem TreeEquiv.anyAllowed {t t' : Tree} (h : TreeEquiv t t') (req : Access) : anyAllowed t req = anyAllowed t' req := by
  simp only [Acl.anyAllowed, h.get, h.any]

theorem TreeEquiv.allAllowed {t t' : Tree} (h : TreeEquiv t t') (req : Access) : allAllowed t req = allAllowed t' req := by
  simp only [Acl.allAllowed, h.get, h.any]

theorem TreeEquiv.lastPrefixOnPath {t t' : Tree} (h : TreeEquiv t t') (seg : Bytes) :
    lastPrefixOnPath t seg = lastPrefixOnPath t' seg := by
  simp only [Acl.lastPrefixOnPath, h.path]

theorem TreeEquiv.keyWritePrefix {t t' : Tree} (h : TreeEquiv t t') (p : Bytes) : keyWritePrefix t p = keyWritePrefix t' p := by
  simp only [Acl.keyWritePrefix, h.lastPrefixOnPath, h.any]

theorem TreeEquiv.serviceReadPrefix {t t' : Tree} (h : TreeEquiv t t') (p : Bytes) :
    serviceReadPrefix t p = serviceReadPrefix t' p := by
  simp only [Acl.serviceReadPrefix, h.lastPrefixOnPath, h.any]

theorem TreeEquiv.intentionLike {t t' : Tree} (h : TreeEquiv t t') (n : Bytes) (req : Access) :
    intentionLike t n req = intentionLike t' n req := by
  simp only [Acl.intentionLike, h.anyAllowed, h.allAllowed, h.check]

theorem TreeEquiv.refl (t : Tree) : TreeEquiv t t := ⟨fun _ => rfl, fun _ => rfl⟩

/-- two authorizers that cannot be told apart by any request -/
structure AuthzEquiv (z z' : Authz) : Prop where
  tree : ∀ s, TreeEquiv (z.tree s) (z'.tree s)
  tp : TreeEquiv z.tp z'.tp
  aclR : z.aclR = z'.aclR
  keyringR : z.keyringR = z'.keyringR
  operatorR : z.operatorR = z'.operatorR
  meshR : z.meshR = z'.meshR
  peeringR : z.peeringR = z'.peeringR

theorem AuthzEquiv.decide {z z' : Authz} (h : AuthzEquiv z z') (r : Req) : z.decide r = z'.decide r := by
  have hag := h.tree .agent
  have hin := h.tree .intention
  have hke := h.tree .key
  have hno := h.tree .node
  have hse := h.tree .service
  have hss := h.tree .session
  have hev := h.tree .event
  have hqu := h.tree .query
  simp only [Authz.tree] at hag hin hke hno hse hss hev hqu
  cases r <;>
    simp only [Authz.decide, h.aclR, h.keyringR, h.operatorR, h.meshR, h.peeringR,
      hag.check, hin.intentionLike, h.tp.intentionLike, hke.check, hke.keyWritePrefix, hno.check, hno.allAllowed,
      hse.check, hse.allAllowed, hse.anyAllowed, hse.serviceReadPrefix, hss.check, hev.check, hqu.check]

/-! ### validity gives clean strings, and the merge keeps them clean -/

/-- what `Validate` guarantees about a rule, as the merge needs it -/
def RuleOK (r : Rule) : Prop := (∃ a, r.pol = .lvl a) ∧ (r.intent = .empty ∨ ∃ a, r.intent = .lvl a)

theorem isPolicyValid_lvl {p : PStr} {b : Bool} (h : isPolicyValid p b = true) : ∃ a, p = .lvl a := by
  cases p <;> simp [isPolicyValid, PStr.level] at h ⊢

theorem ruleValid_ok {r : Rule} (h : ruleValid r = true) : RuleOK r := by
  simp only [ruleValid, Bool.and_eq_true] at h
  refine ⟨isPolicyValid_lvl h.1, ?_⟩
  have h2 := h.2
  split at h2
  · simp only [Bool.or_eq_true, decide_eq_true_eq] at h2
    rcases h2 with h2 | h2
    · exact .inl h2
    · exact .inr (isPolicyValid_lvl h2)
  · simp only [decide_eq_true_eq] at h2; exact .inl h2

theorem RuleOK.pol_clean {r : Rule} (h : RuleOK r) : r.pol.clean := by
  obtain ⟨a, ha⟩ := h.1; rw [ha]; simp [PStr.clean]

theorem RuleOK.intent_clean {r : Rule} (h : RuleOK r) : r.intent.clean := by
  rcases h.2 with h | ⟨a, h⟩ <;> rw [h] <;> simp [PStr.clean]

theorem combine_ok {e r : Rule} (he : RuleOK e) (hr : RuleOK r) : RuleOK (combine e r) := by
  by_cases hs : r.kind = .service
  · refine ⟨?_, ?_⟩
    · rw [combine_pol]; rcases mergeScalar_cases e.pol r.pol with h | h <;> rw [h]
      · exact he.1
      · exact hr.1
    · rw [combine_intent_service e r hs]; rcases mergeScalar_cases e.intent r.intent with h | h <;> rw [h]
      · exact he.2
      · exact hr.2
  · rcases combine_cases_of_not_service e r hs with h | h <;> rw [h]
    · exact he
    · exact hr

theorem mergeRule_ok (r : Rule) (ctx : List Rule) (hr : RuleOK r) (hc : ∀ e ∈ ctx, RuleOK e) :
    ∀ e ∈ mergeRule r ctx, RuleOK e := by
  induction ctx with
  | nil => intro e he; simp only [mergeRule, List.mem_singleton] at he; rw [he]; exact hr
  | cons x xs ih =>
    intro e he
    simp only [mergeRule] at he
    split at he
    · rcases List.mem_cons.mp he with rfl | he
      · exact combine_ok (hc x List.mem_cons_self) hr
      · exact hc e (List.mem_cons_of_mem _ he)
    · rcases List.mem_cons.mp he with rfl | he
      · exact hc e List.mem_cons_self
      · exact ih (fun y hy => hc y (List.mem_cons_of_mem _ hy)) e he

theorem fold_mergeRule_ok (rs ctx : List Rule) (hr : ∀ r ∈ rs, RuleOK r) (hc : ∀ e ∈ ctx, RuleOK e) :
    ∀ e ∈ rs.foldl (fun c r => mergeRule r c) ctx, RuleOK e := by
  induction rs generalizing ctx with
  | nil => exact hc
  | cons r rs ih =>
    exact ih _ (fun x hx => hr x (List.mem_cons_of_mem _ hx))
      (mergeRule_ok r ctx (hr r List.mem_cons_self) hc)

def AllValid (ps : List Policy) : Prop := ∀ p ∈ ps, p.valid = true

theorem allRules_ok {ps : List Policy} (h : AllValid ps) : ∀ r ∈ allRules ps, RuleOK r := by
  intro r hr
  obtain ⟨p, hp, hrp⟩ := List.mem_flatMap.mp hr
  have := h p hp
  simp only [Policy.valid, Bool.and_eq_true, List.all_eq_true] at this
  exact ruleValid_ok (this.2 r hrp)

theorem merged_ok {ps : List Policy} (h : AllValid ps) : ∀ r ∈ (mergePolicies ps).rules, RuleOK r := by
  rw [mergePolicies_rules]
  exact fold_mergeRule_ok _ _ (allRules_ok h) (fun e he => by cases he)

theorem scalarValid_clean {p : PStr} (h : scalarValid p = true) : p = .empty ∨ ∃ a, p = .lvl a := by
  simp only [scalarValid, Bool.or_eq_true, decide_eq_true_eq] at h
  rcases h with h | h
  · exact .inl h
  · exact .inr (isPolicyValid_lvl h)

theorem sel_level_some (s : TreeSel) {r : Rule} (h : RuleOK r) : ∃ a, (s.f r).level = some a := by
  obtain ⟨a, ha⟩ := h.1
  cases s <;> simp only [TreeSel.f]
  case intention =>
    unfold intentionOf
    split
    · split <;> simp [PStr.level]
    · rcases h.2 with h2 | ⟨b, hb⟩
      · contradiction
      · rw [hb]; simp [PStr.level]
  all_goals (rw [ha]; simp [PStr.level])

/-- the scalar projections of a policy -/
inductive Scalar | acl | keyring | operator | mesh | peering
deriving DecidableEq, Repr

def Scalar.get : Scalar → Policy → PStr
  | .acl => (·.acl) | .keyring => (·.keyring) | .operator => (·.operator) | .mesh => (·.mesh) | .peering => (·.peering)

theorem Scalar.get_merge (s : Scalar) (c p : Policy) : s.get (mergePolicy c p) = mergeScalar (s.get c) (s.get p) := by
  cases s <;> rfl

theorem scalar_valid {ps : List Policy} (h : AllValid ps) (s : Scalar) (p : Policy) (hp : p ∈ ps) :
    s.get p = .empty ∨ ∃ a, s.get p = .lvl a := by
  have := h p hp
  simp only [Policy.valid, Bool.and_eq_true] at this
  cases s <;> simp only [Scalar.get] <;> apply scalarValid_clean <;> simp [this]

/-- the merged scalar: `.empty` or the string of one policy, and at least as strong as every policy's -/
theorem merged_scalar_spec (ps : List Policy) (s : Scalar) :
    (s.get (mergePolicies ps) = .empty ∨ ∃ p ∈ ps, s.get (mergePolicies ps) = s.get p) ∧
    ∀ p ∈ ps, (s.get p).rank ≤ (s.get (mergePolicies ps)).rank := by
  have h := foldl_mergePolicy_scalar s.get s.get_merge ps Policy.nil
  have hspec := foldl_mergeScalar_spec s.get ps (s.get Policy.nil)
  have he : s.get Policy.nil = .empty := by cases s <;> rfl
  rw [he] at h hspec
  simp only [mergePolicies]
  rw [h]
  exact ⟨hspec.1, hspec.2.2⟩

theorem merged_scalar_clean {ps : List Policy} (h : AllValid ps) (s : Scalar) :
    s.get (mergePolicies ps) = .empty ∨ ∃ a, s.get (mergePolicies ps) = .lvl a := by
  rcases (merged_scalar_spec ps s).1 with h1 | ⟨p, hp, h1⟩
  · exact .inl h1
  · rw [h1]; exact scalar_valid h s p hp

theorem loadScalar_some {p : PStr} (h : p = .empty ∨ ∃ a, p = .lvl a) : ∃ o, loadScalar p = some o := by
  rcases h with h | ⟨a, h⟩ <;> rw [h] <;> simp [loadScalar, PStr.level]

/-- valid policies always compile -/
theorem newPolicyAuthorizer_some {ps : List Policy} (h : AllValid ps) : ∃ z, newPolicyAuthorizer ps = some z := by
  have hok := merged_ok h
  have ht : ∀ s : TreeSel, ∃ t, loadKind s.f (mergePolicies ps).rules s.kind = some t :=
    fun s => loadKind_some _ _ _ fun r hr _ => sel_level_some s (hok r hr)
  obtain ⟨t1, e1⟩ := ht .agent
  obtain ⟨t2, e2⟩ := ht .key
  obtain ⟨t3, e3⟩ := ht .node
  obtain ⟨t4, e4⟩ := ht .service
  obtain ⟨t5, e5⟩ := ht .intention
  obtain ⟨t6, e6⟩ := ht .session
  obtain ⟨t7, e7⟩ := ht .event
  obtain ⟨t8, e8⟩ := ht .query
  obtain ⟨c1, f1⟩ := loadScalar_some (merged_scalar_clean h .acl)
  obtain ⟨c2, f2⟩ := loadScalar_some (merged_scalar_clean h .keyring)
  obtain ⟨c3, f3⟩ := loadScalar_some (merged_scalar_clean h .operator)
  obtain ⟨c4, f4⟩ := loadScalar_some (merged_scalar_clean h .mesh)
  obtain ⟨c5, f5⟩ := loadScalar_some (merged_scalar_clean h .peering)
  simp only [TreeSel.f, TreeSel.kind, Scalar.get] at e1 e2 e3 e4 e5 e6 e7 e8 f1 f2 f3 f4 f5
  simp only [newPolicyAuthorizer, loadRules, e1, e2, e3, e4, e5, e6, e7, e8, f1, f2, f3, f4, f5,
    Option.bind_eq_bind, Option.bind_some, Option.pure_def]
  exact ⟨_, rfl⟩

/-! ### the merged slot as a function of all rules; reordering -/

theorem findSlot_merged (ps : List Policy) (k : Kind) (pfx : Bool) (n : Bytes) :
    findSlot (mergePolicies ps).rules k pfx n = accRule k pfx n none (allRules ps) := by
  rw [mergePolicies_rules, findSlot_fold]; rfl

theorem allRules_perm {ps ps' : List Policy} (h : ps.Perm ps') : (allRules ps).Perm (allRules ps') :=
  List.Perm.flatMap_right _ h

theorem AllValid.perm {ps ps' : List Policy} (h : ps.Perm ps') (hv : AllValid ps) : AllValid ps' :=
  fun p hp => hv p (h.mem_iff.mpr hp)

/-- the rule a slot ends up with does not depend on the order in which the rules were merged,
    as far as the authorizer can see it (policy string; intentions string for service rules) -/
theorem accRule_perm {rs rs' : List Rule} (hp : ∀ r, r ∈ rs ↔ r ∈ rs') (hok : ∀ r ∈ rs, RuleOK r)
    (k : Kind) (pfx : Bool) (n : Bytes) :
    (accRule k pfx n none rs = none ↔ accRule k pfx n none rs' = none) ∧
    ∀ m m', accRule k pfx n none rs = some m → accRule k pfx n none rs' = some m' →
      m.pol = m'.pol ∧ (k = .service → m.intent = m'.intent) := by
  have hok' : ∀ r ∈ rs', RuleOK r := fun r hr => hok r ((hp r).mpr hr)
  refine ⟨?_, ?_⟩
  · rw [accRule_none, accRule_none]
    exact ⟨fun h r hr => h r ((hp r).mpr hr), fun h r hr => h r ((hp r).mp hr)⟩
  · intro m m' hm hm'
    have o := accRule_spec rs none (fun e he => by cases he) m hm
    have o' := accRule_spec rs' none (fun e he => by cases he) m' hm'
    have polR : ∃ r ∈ rs, inSlot k pfx n r = true ∧ m.pol = r.pol := by
      rcases o.polFrom with ⟨e, he, _⟩ | h
      · cases he
      · exact h
    have polR' : ∃ r ∈ rs', inSlot k pfx n r = true ∧ m'.pol = r.pol := by
      rcases o'.polFrom with ⟨e, he, _⟩ | h
      · cases he
      · exact h
    have intR : ∃ r ∈ rs, inSlot k pfx n r = true ∧ m.intent = r.intent := by
      rcases o.intFrom with ⟨e, he, _⟩ | h
      · cases he
      · exact h
    have intR' : ∃ r ∈ rs', inSlot k pfx n r = true ∧ m'.intent = r.intent := by
      rcases o'.intFrom with ⟨e, he, _⟩ | h
      · cases he
      · exact h
    refine ⟨?_, ?_⟩
    · obtain ⟨r, hr, hs, e⟩ := polR
      obtain ⟨r', hr', hs', e'⟩ := polR'
      apply PStr.eq_of_rank
      · rw [e]; exact (hok r hr).pol_clean
      · rw [e']; exact (hok' r' hr').pol_clean
      · have a1 := o'.polMax r ((hp r).mp hr) hs
        have a2 := o.polMax r' ((hp r').mpr hr') hs'
        rw [← e] at a1; rw [← e'] at a2; omega
    · intro hsv
      obtain ⟨r, hr, hs, e⟩ := intR
      obtain ⟨r', hr', hs', e'⟩ := intR'
      apply PStr.eq_of_rank
      · rw [e]; exact (hok r hr).intent_clean
      · rw [e']; exact (hok' r' hr').intent_clean
      · have a1 := o'.intMax hsv r ((hp r).mp hr) hs
        have a2 := o.intMax hsv r' ((hp r').mpr hr') hs'
        rw [← e] at a1; rw [← e'] at a2; omega

theorem slotLevel_perm {ps ps' : List Policy} (h : ps.Perm ps') (hv : AllValid ps) (s : TreeSel)
    (pfx : Bool) (n : Bytes) :
    slotLevel s.f (mergePolicies ps).rules s.kind pfx n = slotLevel s.f (mergePolicies ps').rules s.kind pfx n := by
  have hp : ∀ r, r ∈ allRules ps ↔ r ∈ allRules ps' := fun r => (allRules_perm h).mem_iff
  have ⟨h1, h2⟩ := accRule_perm hp (allRules_ok hv) s.kind pfx n
  simp only [slotLevel, findSlot_merged]
  cases hm : accRule s.kind pfx n none (allRules ps) with
  | none => rw [h1.mp hm]
  | some m =>
    cases hm' : accRule s.kind pfx n none (allRules ps') with
    | none => rw [h1.mpr hm'] at hm; cases hm
    | some m' =>
      have ⟨e1, e2⟩ := h2 m m' hm hm'
      simp only [Option.bind_some]
      cases s <;> simp only [TreeSel.f, e1]
      case intention =>
        have := e2 rfl
        simp only [intentionOf, e1, this]

theorem merged_scalar_perm {ps ps' : List Policy} (h : ps.Perm ps') (hv : AllValid ps) (s : Scalar) :
    s.get (mergePolicies ps) = s.get (mergePolicies ps') := by
  have hv' := hv.perm h
  have ⟨a1, a2⟩ := merged_scalar_spec ps s
  have ⟨b1, b2⟩ := merged_scalar_spec ps' s
  apply PStr.eq_of_rank
  · rcases merged_scalar_clean hv s with e | ⟨a, e⟩ <;> rw [e] <;> simp [PStr.clean]
  · rcases merged_scalar_clean hv' s with e | ⟨a, e⟩ <;> rw [e] <;> simp [PStr.clean]
  · have l1 : (s.get (mergePolicies ps)).rank ≤ (s.get (mergePolicies ps')).rank := by
      rcases a1 with e | ⟨p, hp, e⟩
      · rw [e]; simp [PStr.rank]
      · rw [e]; exact b2 p (h.mem_iff.mp hp)
    have l2 : (s.get (mergePolicies ps')).rank ≤ (s.get (mergePolicies ps)).rank := by
      rcases b1 with e | ⟨p, hp, e⟩
      · rw [e]; simp [PStr.rank]
      · rw [e]; exact a2 p (h.mem_iff.mpr hp)
    omega

/-- the tree of selector `s` of the authorizer compiled from `ps` represents the merged slot levels -/
theorem authz_treeOf {ps : List Policy} {z : Authz} (h : newPolicyAuthorizer ps = some z) (s : TreeSel) :
    TreeOf (z.tree s) (slotLevel s.f (mergePolicies ps).rules s.kind false)
      (slotLevel s.f (mergePolicies ps).rules s.kind true) :=
  loadKind_treeOf _ _ (mergePolicies_nodup ps) _ _ ((loadRules_parts _ z h).1 s)

theorem authz_perm {ps ps' : List Policy} (h : ps.Perm ps') (hv : AllValid ps) {z z' : Authz}
    (hz : newPolicyAuthorizer ps = some z) (hz' : newPolicyAuthorizer ps' = some z') : AuthzEquiv z z' := by
  have p := loadRules_parts _ z hz
  have p' := loadRules_parts _ z' hz'
  have sc : ∀ s : Scalar, s.get (mergePolicies ps) = s.get (mergePolicies ps') := merged_scalar_perm h hv
  have s1 := sc .acl; have s2 := sc .keyring; have s3 := sc .operator; have s4 := sc .mesh; have s5 := sc .peering
  simp only [Scalar.get] at s1 s2 s3 s4 s5
  refine ⟨?_, ?_, ?_, ?_, ?_, ?_, ?_⟩
  · intro s
    have t := authz_treeOf hz s
    have t' := authz_treeOf hz' s
    have e1 : slotLevel s.f (mergePolicies ps).rules s.kind false = slotLevel s.f (mergePolicies ps').rules s.kind false :=
      funext fun n => slotLevel_perm h hv s false n
    have e2 : slotLevel s.f (mergePolicies ps).rules s.kind true = slotLevel s.f (mergePolicies ps').rules s.kind true :=
      funext fun n => slotLevel_perm h hv s true n
    rw [e1, e2] at t
    exact t.equiv t'
  · rw [p.2.1, p'.2.1]; exact TreeEquiv.refl _
  · have a := p.2.2.1; have b := p'.2.2.1; rw [s1] at a; rw [a] at b; exact Option.some.inj b
  · have a := p.2.2.2.1; have b := p'.2.2.2.1; rw [s2] at a; rw [a] at b; exact Option.some.inj b
  · have a := p.2.2.2.2.1; have b := p'.2.2.2.2.1; rw [s3] at a; rw [a] at b; exact Option.some.inj b
  · have a := p.2.2.2.2.2.1; have b := p'.2.2.2.2.2.1; rw [s4] at a; rw [a] at b; exact Option.some.inj b
  · have a := p.2.2.2.2.2.2; have b := p'.2.2.2.2.2.2; rw [s5] at a; rw [a] at b; exact Option.some.inj b

/-- a rule family whose tree holds the policy level itself (everything but the derived intention tree) -/
def TreeSel.plain (s : TreeSel) : Prop := s ≠ .intention

theorem plain_f {s : TreeSel} (h : s.plain) (r : Rule) : s.f r = r.pol := by
  cases s <;> simp [TreeSel.f, TreeSel.plain] at h ⊢

end CV.Acl
