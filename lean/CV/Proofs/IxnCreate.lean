/-
Helper lemmas for C13, part 5: what the store holds after a set of intentions has been created
(by upsert mutations, as legacy rows, or as whole config entries) — a set that does not depend on
the order of creation.
-/
import CV.Proofs.IxnWrites
set_option linter.unusedSimpArgs false
set_option linter.unusedVariables false
namespace CV.Ixn

/-- the intention a source `v` of destination `dst` stands for once written -/
def ixnOf (dst : Name) (v : Src) : Ixn := ⟨v.peer, v.name, dst, v.act, v.perms, precOf v.name dst⟩

theorem toIxn_normSrc (legacy : Bool) (dst : Name) (srcs : List Src) (s : Src) :
    toIxn ⟨dst, srcs⟩ (normSrc legacy dst s) = ixnOf dst s := by
  simp [toIxn, normSrc, ixnOf]

theorem toIxn_of_prec {e : Entry} {s : Src} (h : s.prec = precOf s.name e.name) : toIxn e s = ixnOf e.name s := by
  simp [toIxn, ixnOf, h]

theorem mem_putEntryX_iff {es : List Entry} {e x : Entry} :
    x ∈ putEntryX es e ↔ x = e ∨ (x ∈ es ∧ x.name ≠ e.name) := by
  unfold putEntryX
  split
  · next hany =>
    simp only [List.any_eq_true, decide_eq_true_eq] at hany
    obtain ⟨y, hy, hyn⟩ := hany
    simp only [List.mem_map]
    constructor
    · rintro ⟨z, hz, rfl⟩
      split
      · exact Or.inl rfl
      · next hne => exact Or.inr ⟨hz, hne⟩
    · rintro (rfl | ⟨hx, hne⟩)
      · exact ⟨y, hy, by simp [hyn]⟩
      · exact ⟨x, hx, by simp [hne]⟩
  · next hnone =>
    simp only [List.any_eq_true, decide_eq_true_eq, not_exists, not_and] at hnone
    simp only [List.mem_append, List.mem_singleton]
    constructor
    · rintro (hx | rfl)
      · exact Or.inr ⟨hx, hnone x hx⟩
      · exact Or.inl rfl
    · rintro (rfl | ⟨hx, _⟩)
      · exact Or.inr rfl
      · exact Or.inl hx

theorem flatten_cfg_mk (es : List Entry) (rows : List (Name × Ixn)) :
    flatten ⟨true, es, rows⟩ = es.flatMap Entry.toIxns := rfl

theorem flatten_cfg {st : Store} (hc : st.cfgMode = true) : flatten st = st.entries.flatMap Entry.toIxns := by
  simp [flatten, hc]

/-- the stored set after an entry has been put -/
theorem mem_flatMap_putEntry (es : List Entry) (e' : Entry) (hl : ∀ e ∈ es, Lower e.name) (he : Lower e'.name)
    (i : Ixn) :
    i ∈ (putEntry es e').flatMap Entry.toIxns ↔
      i ∈ e'.toIxns ∨ (i ∈ es.flatMap Entry.toIxns ∧ i.dst ≠ e'.name) := by
  rw [putEntry_lower hl he]
  simp only [List.mem_flatMap, mem_putEntryX_iff]
  constructor
  · rintro ⟨x, (rfl | ⟨hx, hne⟩), hi⟩
    · exact Or.inl hi
    · refine Or.inr ⟨⟨x, hx, hi⟩, ?_⟩
      simp only [Entry.toIxns, List.mem_map] at hi
      obtain ⟨s, _, rfl⟩ := hi
      exact hne
  · rintro (hi | ⟨⟨x, hx, hi⟩, hne⟩)
    · exact ⟨e', Or.inl rfl, hi⟩
    · refine ⟨x, Or.inr ⟨hx, ?_⟩, hi⟩
      simp only [Entry.toIxns, List.mem_map] at hi
      obtain ⟨s, _, rfl⟩ := hi
      exact hne

theorem mem_normalize_toIxns (legacy : Bool) (e : Entry) (i : Ixn) :
    i ∈ (normalize legacy e).toIxns ↔ ∃ s ∈ e.sources, i = ixnOf e.name s := by
  simp only [Entry.toIxns, normalize, List.mem_map, mem_isort]
  constructor
  · rintro ⟨s', ⟨s, hs, rfl⟩, rfl⟩
    exact ⟨s, hs, toIxn_normSrc _ _ _ _⟩
  · rintro ⟨s, hs, rfl⟩
    exact ⟨normSrc legacy e.name s, ⟨s, hs, rfl⟩, toIxn_normSrc _ _ _ _⟩

/-! ### upsert mutations of local intentions -/

/-- all stored sources are local (no peer) -/
def LocalOnly (st : Store) : Prop := ∀ i ∈ flatten st, i.peer = []

theorem mem_upsertSource {n : Name} {v : Src} {srcs : List Src} (hd : srcs.Pairwise fun a b => a.name ≠ b.name)
    (hv : v.name = n) (x : Src) :
    x ∈ upsertSource n v srcs ↔ x = v ∨ (x ∈ srcs ∧ x.name ≠ n) := by
  induction srcs with
  | nil => simp [upsertSource]
  | cons s rest ih =>
    rw [List.pairwise_cons] at hd
    unfold upsertSource
    split
    · next hs =>
      simp only [List.mem_cons]
      constructor
      · rintro (h | h)
        · exact Or.inl h
        · refine Or.inr ⟨Or.inr h, ?_⟩
          rw [← hs]; exact (hd.1 x h).symm
      · rintro (h | ⟨h | h, hne⟩)
        · exact Or.inl h
        · subst h; exact absurd hs hne
        · exact Or.inr h
    · next hs =>
      simp only [List.mem_cons, ih hd.2]
      constructor
      · rintro (h | h | ⟨h, hne⟩)
        · subst h; exact Or.inr ⟨Or.inl rfl, hs⟩
        · exact Or.inl h
        · exact Or.inr ⟨Or.inr h, hne⟩
      · rintro (h | ⟨h | h, hne⟩)
        · exact Or.inr (Or.inl h)
        · exact Or.inl h
        · exact Or.inr (Or.inr ⟨h, hne⟩)

theorem local_names_distinct {e : Entry} (hw : EntryWF e) (hl : ∀ s ∈ e.sources, s.peer = []) :
    e.sources.Pairwise fun a b => a.name ≠ b.name := by
  have := hw.nodup
  rw [List.pairwise_iff_forall_sublist] at this ⊢
  intro a b hab
  have ha := hl a (hab.subset (by simp))
  have hb := hl b (hab.subset (by simp))
  have := this hab
  simp only [srcKey, ne_eq, Prod.mk.injEq, not_and] at this
  intro heq
  exact this (by rw [ha, hb]) heq

/-- the stored set after an accepted upsert of a local intention into a local-only store -/
theorem mem_flatten_mutUpsert {st : Store} (h : StoreWF st) (hc : st.cfgMode = true) (hl : LocalOnly st)
    (dst : Name) (v : Src) (hld : Lower dst) (hacc : (mutUpsert st dst v).2 = none) (i : Ixn) :
    i ∈ flatten (mutUpsert st dst v).1 ↔
      i = ixnOf dst v ∨ (i ∈ flatten st ∧ ¬ (i.src = v.name ∧ i.dst = dst)) := by
  unfold mutUpsert at hacc ⊢
  simp only [hc, Bool.not_true, Bool.false_eq_true, if_false, getEntry_lower h.lowerEntries hld] at hacc ⊢
  cases hg : getEntryX st.entries dst with
  | none =>
    simp only [hg] at hacc ⊢
    have hnone := getEntryX_eq_none.mp hg
    split at hacc
    · cases hacc
    · next hv =>
      simp only [hv]
      rw [flatten_cfg_mk, mem_flatMap_putEntry _ _ h.lowerEntries (by simpa [normalize] using hld),
        mem_normalize_toIxns, ← flatten_cfg hc]
      simp only [List.mem_singleton, exists_eq_left]
      constructor
      · rintro (h1 | ⟨h1, h2⟩)
        · exact Or.inl h1
        · exact Or.inr ⟨h1, fun hh => h2 (by simpa [normalize] using hh.2)⟩
      · rintro (h1 | ⟨h1, _⟩)
        · exact Or.inl h1
        · refine Or.inr ⟨h1, ?_⟩
          obtain ⟨e, he, s, _, rfl⟩ := (mem_flatten_cfg hc).mp h1
          simpa [normalize, toIxn] using hnone e he
  | some prev =>
    simp only [hg] at hacc ⊢
    obtain ⟨hprev, hpn⟩ := (getEntryX_eq_some h.names).mp hg
    have hpw := h.entries prev hprev
    have hdn := local_names_distinct hpw (fun s hs =>
      hl (toIxn prev s) ((mem_flatten_cfg hc).mpr ⟨prev, hprev, s, hs, rfl⟩))
    split at hacc
    · cases hacc
    · next hv =>
      simp only [hv]
      rw [flatten_cfg_mk, mem_flatMap_putEntry _ _ h.lowerEntries (by simpa [normalize] using h.lowerEntries prev hprev),
        mem_normalize_toIxns, ← flatten_cfg hc]
      simp only [mem_upsertSource hdn rfl]
      have hname : (normalize false ⟨prev.name, upsertSource v.name v prev.sources⟩).name = dst := by
        simp [normalize, hpn]
      rw [hname]
      simp only [hpn]
      constructor
      · rintro (⟨s, (rfl | ⟨hs, hne⟩), rfl⟩ | ⟨h1, h2⟩)
        · exact Or.inl rfl
        · refine Or.inr ⟨?_, ?_⟩
          · apply (mem_flatten_cfg hc).mpr
            refine ⟨prev, hprev, s, hs, ?_⟩
            rw [toIxn_of_prec (hpw.prec s hs), hpn]
          · simp only [ixnOf]; exact fun hh => hne hh.1
        · exact Or.inr ⟨h1, fun hh => h2 hh.2⟩
      · rintro (rfl | ⟨h1, h2⟩)
        · exact Or.inl ⟨v, Or.inl rfl, rfl⟩
        · by_cases hd : i.dst = dst
          · obtain ⟨e, he, s, hs, rfl⟩ := (mem_flatten_cfg hc).mp h1
            have : e = prev := entry_unique h.names he hprev (by simpa [toIxn, hpn] using hd)
            subst this
            refine Or.inl ⟨s, Or.inr ⟨hs, ?_⟩, ?_⟩
            · intro hh; exact h2 ⟨by simpa [toIxn] using hh, hd⟩
            · rw [toIxn_of_prec (hpw.prec s hs), hpn]
          · exact Or.inr ⟨h1, hd⟩

theorem mutUpsert_cfgMode (st : Store) (dst : Name) (v : Src) : (mutUpsert st dst v).1.cfgMode = st.cfgMode := by
  unfold mutUpsert
  split
  · rfl
  · simp only
    split <;> rfl

def upOps (ws : List (Name × Src)) : List Op := ws.map fun w => Op.up w.1 w.2

/-- the stored set after a sequence of accepted upserts of local intentions with pairwise distinct
    (destination, source), none of which is stored yet -/
theorem mem_flatten_runE_ups {st0 st : Store} (h : StoreWF st0) (hc : st0.cfgMode = true) (hl : LocalOnly st0)
    (ws : List (Name × Src)) (hloc : ∀ w ∈ ws, w.2.peer = []) (hlow : ∀ w ∈ ws, Lower w.1)
    (hd : ws.Pairwise fun a b => ¬ (a.1 = b.1 ∧ a.2.name = b.2.name))
    (hfresh : ∀ w ∈ ws, ∀ i ∈ flatten st0, ¬ (i.src = w.2.name ∧ i.dst = w.1))
    (hr : runE st0 (upOps ws) = some st) (i : Ixn) :
    i ∈ flatten st ↔ i ∈ flatten st0 ∨ ∃ w ∈ ws, i = ixnOf w.1 w.2 := by
  induction ws generalizing st0 with
  | nil =>
    simp only [upOps, List.map_nil, runE, Option.some.injEq] at hr
    subst hr; simp
  | cons w rest ih =>
    rw [List.pairwise_cons] at hd
    simp only [upOps, List.map_cons, runE, applyOpE] at hr
    split at hr
    · next st1 heq =>
      have hacc : (mutUpsert st0 w.1 w.2).2 = none := by rw [heq]
      have hst1 : (mutUpsert st0 w.1 w.2).1 = st1 := by rw [heq]
      have hlw := hlow w List.mem_cons_self
      have hm := fun j => mem_flatten_mutUpsert h hc hl w.1 w.2 hlw hacc j
      rw [hst1] at hm
      have h1 : StoreWF st1 := hst1 ▸ storeWF_mutUpsert h w.1 w.2 hlw
      have hc1 : st1.cfgMode = true := by rw [← hst1, mutUpsert_cfgMode, hc]
      have hl1 : LocalOnly st1 := by
        intro j hj
        rcases (hm j).mp hj with rfl | ⟨hj0, _⟩
        · simpa [ixnOf] using hloc w List.mem_cons_self
        · exact hl j hj0
      have hf1 : ∀ x ∈ rest, ∀ j ∈ flatten st1, ¬ (j.src = x.2.name ∧ j.dst = x.1) := by
        intro x hx j hj
        rcases (hm j).mp hj with rfl | ⟨hj0, _⟩
        · have := hd.1 x hx
          simp only [ixnOf]
          exact fun hh => this ⟨hh.2, hh.1⟩
        · exact hfresh x (List.mem_cons_of_mem _ hx) j hj0
      have := ih h1 hc1 hl1 (fun x hx => hloc x (List.mem_cons_of_mem _ hx))
        (fun x hx => hlow x (List.mem_cons_of_mem _ hx)) hd.2 hf1 hr
      rw [this, hm]
      have hw0 := hfresh w List.mem_cons_self i
      simp only [List.mem_cons, exists_eq_or_imp]
      constructor
      · rintro ((h1 | ⟨h1, _⟩) | h1)
        · exact Or.inr (Or.inl h1)
        · exact Or.inl h1
        · exact Or.inr (Or.inr h1)
      · rintro (h1 | h1 | h1)
        · exact Or.inl (Or.inr ⟨h1, hw0 h1⟩)
        · exact Or.inl (Or.inl h1)
        · exact Or.inr h1
    · cases hr

/-! ### legacy rows -/

/-- `UpdatePrecedence` on a legacy row -/
def normRow (r : Ixn) : Ixn := { r with prec := precOf r.src r.dst }

def lsetOps (rs : List (Name × Ixn)) : List Op := rs.map fun x => Op.lset x.1 x.2

theorem legacySet_cfgMode (st : Store) (id : Name) (r : Ixn) : (legacySet st id r).1.cfgMode = st.cfgMode := by
  unfold legacySet
  split
  · rfl
  · split
    · rfl
    · simp only
      split
      · rfl
      · split <;> rfl

theorem legacySet_new {st : Store} (hc : st.cfgMode = false) (id : Name) (r : Ixn)
    (hnew : ∀ x ∈ st.rows, x.1 ≠ id) (hacc : (legacySet st id r).2 = none) :
    (legacySet st id r).1.rows = st.rows ++ [(id, normRow r)] := by
  have hany : st.rows.any (·.1 = id) = false := by
    rw [Bool.eq_false_iff]
    simp only [ne_eq, List.any_eq_true, decide_eq_true_eq, not_exists, not_and]
    exact hnew
  unfold legacySet at hacc ⊢
  simp only [hc, Bool.false_eq_true, if_false] at hacc ⊢
  by_cases hid : id = []
  · simp [hid] at hacc
  · simp only [hid, if_false] at hacc ⊢
    split at hacc
    · cases hacc
    · next hdup =>
      simp only [hdup, hany, Bool.false_eq_true, if_false, normRow]

theorem mem_flatten_runE_lsets {st0 st : Store} (hc : st0.cfgMode = false) (rs : List (Name × Ixn))
    (hd : rs.Pairwise fun a b => a.1 ≠ b.1) (hfresh : ∀ x ∈ rs, ∀ y ∈ st0.rows, y.1 ≠ x.1)
    (hr : runE st0 (lsetOps rs) = some st) (i : Ixn) :
    i ∈ flatten st ↔ i ∈ flatten st0 ∨ ∃ x ∈ rs, i = normRow x.2 := by
  induction rs generalizing st0 with
  | nil =>
    simp only [lsetOps, List.map_nil, runE, Option.some.injEq] at hr
    subst hr; simp
  | cons x rest ih =>
    rw [List.pairwise_cons] at hd
    simp only [lsetOps, List.map_cons, runE, applyOpE] at hr
    split at hr
    · next st1 heq =>
      have hacc : (legacySet st0 x.1 x.2).2 = none := by rw [heq]
      have hst1 : (legacySet st0 x.1 x.2).1 = st1 := by rw [heq]
      have hrows := legacySet_new hc x.1 x.2 (hfresh x List.mem_cons_self) hacc
      rw [hst1] at hrows
      have hc1 : st1.cfgMode = false := by rw [← hst1, legacySet_cfgMode, hc]
      have hf1 : ∀ z ∈ rest, ∀ y ∈ st1.rows, y.1 ≠ z.1 := by
        intro z hz y hy
        rw [hrows] at hy
        rcases List.mem_append.mp hy with hy' | hy'
        · exact hfresh z (List.mem_cons_of_mem _ hz) y hy'
        · simp only [List.mem_singleton] at hy'
          subst hy'
          exact hd.1 z hz
      have := ih hc1 hd.2 hf1 hr
      rw [this]
      simp only [flatten, hc, hc1, hrows, Bool.false_eq_true, if_false, List.map_append, List.map_cons,
        List.map_nil, List.mem_append, List.mem_singleton, List.mem_cons, exists_eq_or_imp]
      simp only [List.not_mem_nil, or_false]
      constructor
      · rintro ((h1 | h1) | h1)
        · exact Or.inl h1
        · exact Or.inr (Or.inl h1)
        · exact Or.inr (Or.inr h1)
      · rintro (h1 | h1 | h1)
        · exact Or.inl (Or.inl h1)
        · exact Or.inl (Or.inr h1)
        · exact Or.inr h1
    · cases hr

/-! ### whole config entries -/

def entOps (es : List Entry) : List Op := es.map Op.ent

theorem applyEntry_cfgMode (st : Store) (e : Entry) : (applyEntry st e).1.cfgMode = st.cfgMode := by
  unfold applyEntry
  simp only
  split <;> rfl

theorem mem_flatten_applyEntry {st : Store} (hc : st.cfgMode = true) (e : Entry)
    (hl : ∀ x ∈ st.entries, Lower x.name) (hle : Lower e.name)
    (hacc : (applyEntry st e).2 = none) (i : Ixn) :
    i ∈ flatten (applyEntry st e).1 ↔ (∃ s ∈ e.sources, i = ixnOf e.name s) ∨ (i ∈ flatten st ∧ i.dst ≠ e.name) := by
  unfold applyEntry at hacc ⊢
  simp only at hacc ⊢
  split at hacc
  · cases hacc
  · next hv =>
    simp only [hv]
    have hcm : st = ⟨true, st.entries, st.rows⟩ := by cases st; simp_all
    rw [hcm]
    simp only
    rw [flatten_cfg_mk, flatten_cfg_mk, mem_flatMap_putEntry _ _ hl (by simpa [normalize] using hle),
      mem_normalize_toIxns]
    simp [normalize]

theorem mem_flatten_runE_ents {st0 st : Store} (h : StoreWF st0) (hc : st0.cfgMode = true) (es : List Entry)
    (hlow : ∀ e ∈ es, Lower e.name)
    (hd : es.Pairwise fun a b => a.name ≠ b.name) (hfresh : ∀ e ∈ es, ∀ i ∈ flatten st0, i.dst ≠ e.name)
    (hr : runE st0 (entOps es) = some st) (i : Ixn) :
    i ∈ flatten st ↔ i ∈ flatten st0 ∨ ∃ e ∈ es, ∃ s ∈ e.sources, i = ixnOf e.name s := by
  induction es generalizing st0 with
  | nil =>
    simp only [entOps, List.map_nil, runE, Option.some.injEq] at hr
    subst hr; simp
  | cons e rest ih =>
    rw [List.pairwise_cons] at hd
    simp only [entOps, List.map_cons, runE, applyOpE] at hr
    split at hr
    · next st1 heq =>
      have hacc : (applyEntry st0 e).2 = none := by rw [heq]
      have hst1 : (applyEntry st0 e).1 = st1 := by rw [heq]
      have hle := hlow e List.mem_cons_self
      have hm := fun j => mem_flatten_applyEntry hc e h.lowerEntries hle hacc j
      rw [hst1] at hm
      have h1 : StoreWF st1 := hst1 ▸ storeWF_applyEntry h e hle
      have hc1 : st1.cfgMode = true := by rw [← hst1, applyEntry_cfgMode, hc]
      have hf1 : ∀ x ∈ rest, ∀ j ∈ flatten st1, j.dst ≠ x.name := by
        intro x hx j hj
        rcases (hm j).mp hj with ⟨s, _, rfl⟩ | ⟨hj0, _⟩
        · simpa [ixnOf] using hd.1 x hx
        · exact hfresh x (List.mem_cons_of_mem _ hx) j hj0
      have := ih h1 hc1 (fun x hx => hlow x (List.mem_cons_of_mem _ hx)) hd.2 hf1 hr
      rw [this, hm]
      have hw0 := hfresh e List.mem_cons_self i
      simp only [List.mem_cons, exists_eq_or_imp]
      constructor
      · rintro ((h1 | ⟨h1, _⟩) | h1)
        · exact Or.inr (Or.inl h1)
        · exact Or.inl h1
        · exact Or.inr (Or.inr h1)
      · rintro (h1 | h1 | h1)
        · exact Or.inl (Or.inr ⟨h1, hw0 h1⟩)
        · exact Or.inl (Or.inl h1)
        · exact Or.inr h1
    · cases hr

end CV.Ixn
