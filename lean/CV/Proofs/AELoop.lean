/-
Loops, `updateSyncState`, `syncChanges`, `syncFull`: registrations are never changed by syncing,
and `GInv` is preserved whatever the RPC outcomes are.
-/
import CV.Proofs.AEStep
namespace CV.AE
open AMap

variable {T : Prop} {Rs Rc Ps Pc : Id → Prop}

/-! ### syncing never changes what is registered locally -/

theorem liveSvc_dropSvc (l : Local) (id : Id) (hl : liveSvc l id = none) (i : Id) :
    liveSvc (dropSvc l id) i = liveSvc l i := by
  unfold liveSvc; rw [dropSvc_svcs]; split
  · rename_i e; subst e; simpa [liveSvc] using hl.symm
  · rfl

theorem liveChk_dropSvc (l : Local) (id : Id) (k : Id) : liveChk (dropSvc l id) k = liveChk l k := by
  unfold liveChk; rw [dropSvc_chks]
  cases hk : l.chks.get? k with
  | none => rfl
  | some e =>
    simp only
    cases hp : pruneKeep id k e with
    | true => simp
    | false =>
      obtain ⟨d, tok, loc, b, rfl, _⟩ := pruneKeep_false hp
      simp [Ent.live?]

theorem svcStep_live (cfg : Cfg) (f : Faults) (s : St) (id : Id) :
    (∀ i, liveSvc (svcStep cfg f s id).l i = liveSvc s.l i) ∧
    (∀ k, liveChk (svcStep cfg f s id).l k = liveChk s.l k) := by
  have hdel : ∀ e : Ent SvcDef, s.l.svcs.get? id = some e → e.deleted = true →
      (∀ i, liveSvc (deleteService f id s).l i = liveSvc s.l i) ∧
      (∀ k, liveChk (deleteService f id s).l k = liveChk s.l k) := by
    intro e he hd
    have hlive : liveSvc s.l id = none := by simp [liveSvc, he, live?_deleted e hd]
    unfold deleteService
    split
    · exact ⟨fun _ => rfl, fun _ => rfl⟩
    · cases f.svc id with
      | denied => exact ⟨fun i => liveSvc_markSvc _ _ _, fun _ => rfl⟩
      | fail => exact ⟨fun _ => rfl, fun _ => rfl⟩
      | ok => exact ⟨fun i => liveSvc_dropSvc s.l id hlive i, fun k => liveChk_dropSvc s.l id k⟩
      | lost => exact ⟨fun _ => rfl, fun _ => rfl⟩
  unfold svcStep
  split
  · exact ⟨fun _ => rfl, fun _ => rfl⟩
  · rename_i b he; exact hdel _ he rfl
  · rename_i d t lo b he; exact hdel _ he rfl
  · rename_i d tok loc he
    have hm : ∀ ks, (∀ i, liveSvc (markChks (markSvc s.l id) ks) i = liveSvc s.l i) ∧
        (∀ k, liveChk (markChks (markSvc s.l id) ks) k = liveChk s.l k) := by
      intro ks
      refine ⟨fun i => ?_, fun k => ?_⟩
      · show liveSvc (markSvc s.l id) i = _; exact liveSvc_markSvc _ _ _
      · rw [liveChk_markChks]; rfl
    unfold syncService
    simp only
    cases f.svc id with
    | denied => exact hm _
    | fail => exact ⟨fun _ => rfl, fun _ => rfl⟩
    | ok =>
      simp only; split
      · exact ⟨fun _ => rfl, fun _ => rfl⟩
      · exact hm _
    | lost =>
      simp only; split <;> exact ⟨fun _ => rfl, fun _ => rfl⟩
  · exact ⟨fun _ => rfl, fun _ => rfl⟩

theorem chkStep_live (cfg : Cfg) (f : Faults) (s : St) (k : Id) :
    (∀ i, liveSvc (chkStep cfg f s k).l i = liveSvc s.l i) ∧
    (∀ k', liveChk (chkStep cfg f s k).l k' = liveChk s.l k') := by
  have hdel : ∀ e : Ent ChkDef, s.l.chks.get? k = some e → e.deleted = true →
      (∀ i, liveSvc (deleteCheck f k s).l i = liveSvc s.l i) ∧
      (∀ k', liveChk (deleteCheck f k s).l k' = liveChk s.l k') := by
    intro e he hd
    have hlive : liveChk s.l k = none := by simp [liveChk, he, live?_deleted e hd]
    unfold deleteCheck
    split
    · exact ⟨fun _ => rfl, fun _ => rfl⟩
    · cases f.chk k with
      | denied => exact ⟨fun _ => rfl, fun k' => liveChk_markChks _ _ _⟩
      | fail => exact ⟨fun _ => rfl, fun _ => rfl⟩
      | ok =>
        refine ⟨fun _ => rfl, fun k' => ?_⟩
        simp only [liveChk, get?_erase]
        split
        · rename_i e'; subst e'; simpa [liveChk] using hlive.symm
        · rfl
      | lost => exact ⟨fun _ => rfl, fun _ => rfl⟩
  unfold chkStep
  split
  · exact ⟨fun _ => rfl, fun _ => rfl⟩
  · rename_i b he; exact hdel _ he rfl
  · rename_i d t lo b he; exact hdel _ he rfl
  · rename_i d tok loc he
    unfold syncCheck
    simp only
    cases f.chk k with
    | denied => exact ⟨fun _ => rfl, fun k' => liveChk_markChks _ _ _⟩
    | fail => exact ⟨fun _ => rfl, fun _ => rfl⟩
    | ok =>
      simp only; split
      · exact ⟨fun _ => rfl, fun _ => rfl⟩
      · exact ⟨fun _ => rfl, fun k' => liveChk_markChks _ _ _⟩
    | lost =>
      simp only; split <;> exact ⟨fun _ => rfl, fun _ => rfl⟩
  · exact ⟨fun _ => rfl, fun _ => rfl⟩

/-- what a refusal pattern must put into the refused sets -/
structure Covers (f : Faults) (l : Local) (Rs Rc : Id → Prop) : Prop where
  svc : ∀ id, f.svc id = .denied → Rs id
  chk : ∀ k, f.chk k = .denied → Rc k
  rid : ∀ k d, liveChk l k = some d → f.svc d.sid = .denied → Rc k

theorem svcFold_GInv (cfg : Cfg) (f : Faults) (l0 : Local) (hcov : Covers f l0 Rs Rc) (ks : List Id) :
    ∀ s : St, GInv T Rs Rc Ps Pc s.l s.c → (∀ k, liveChk s.l k = liveChk l0 k) → (∀ i, liveSvc s.l i = liveSvc l0 i) →
      GInv T Rs Rc Ps Pc (ks.foldl (svcStep cfg f) s).l (ks.foldl (svcStep cfg f) s).c ∧
      (∀ k, liveChk (ks.foldl (svcStep cfg f) s).l k = liveChk l0 k) ∧
      (∀ i, liveSvc (ks.foldl (svcStep cfg f) s).l i = liveSvc l0 i) := by
  induction ks with
  | nil => intro s g h1 h2; exact ⟨g, h1, h2⟩
  | cons id ks ih =>
    intro s g h1 h2
    simp only [List.foldl_cons]
    obtain ⟨p1, p2⟩ := svcStep_live cfg f s id
    apply ih
    · apply svcStep_GInv cfg f s id (hcov.svc id) _ g
      intro k dk hk hsid hden
      exact hcov.rid k dk (by rw [← h1]; exact hk) (by rw [hsid]; exact hden)
    · intro k; rw [p2, h1]
    · intro i; rw [p1, h2]

theorem chkFold_GInv (cfg : Cfg) (f : Faults) (l0 : Local) (hcov : Covers f l0 Rs Rc) (ks : List Id) :
    ∀ s : St, GInv T Rs Rc Ps Pc s.l s.c → (∀ k, liveChk s.l k = liveChk l0 k) → (∀ i, liveSvc s.l i = liveSvc l0 i) →
      GInv T Rs Rc Ps Pc (ks.foldl (chkStep cfg f) s).l (ks.foldl (chkStep cfg f) s).c ∧
      (∀ k, liveChk (ks.foldl (chkStep cfg f) s).l k = liveChk l0 k) ∧
      (∀ i, liveSvc (ks.foldl (chkStep cfg f) s).l i = liveSvc l0 i) := by
  induction ks with
  | nil => intro s g h1 h2; exact ⟨g, h1, h2⟩
  | cons k ks ih =>
    intro s g h1 h2
    simp only [List.foldl_cons]
    obtain ⟨p1, p2⟩ := chkStep_live cfg f s k
    apply ih
    · exact chkStep_GInv cfg f s k (hcov.chk k) g
    · intro k'; rw [p2, h1]
    · intro i; rw [p1, h2]

theorem GInv_node {l : Local} {c : Cat} (b : Bool) (v : Option Nat) (g : GInv T Rs Rc Ps Pc l c) :
    GInv T Rs Rc Ps Pc { l with nodeInSync := b } { c with node := v } :=
  ⟨g.lwf, g.cwf, g.nek, g.nrb, g.snd, g.tgt⟩

theorem syncNode_frame (cfg : Cfg) (f : Faults) (s : St) :
    (syncNode cfg f s).1.l.svcs = s.l.svcs ∧ (syncNode cfg f s).1.l.chks = s.l.chks ∧
    (syncNode cfg f s).1.c.svcs = s.c.svcs ∧ (syncNode cfg f s).1.c.chks = s.c.chks := by
  unfold syncNode; cases f.node <;> exact ⟨rfl, rfl, rfl, rfl⟩

theorem live_congr {l l' : Local} (h1 : l'.svcs = l.svcs) (h2 : l'.chks = l.chks) :
    (∀ i, liveSvc l' i = liveSvc l i) ∧ (∀ k, liveChk l' k = liveChk l k) := by
  refine ⟨fun i => ?_, fun k => ?_⟩
  · simp [liveSvc, h1]
  · simp [liveChk, h2]

/-- `SyncChanges` preserves the invariant and the registrations, whatever happens to its RPCs -/
theorem syncChanges_GInv (cfg : Cfg) (ord : Order) (f : Faults) (l : Local) (c : Cat)
    (hcov : Covers f l Rs Rc) (g : GInv T Rs Rc Ps Pc l c) :
    GInv T Rs Rc Ps Pc (syncChanges cfg ord f l c).l (syncChanges cfg ord f l c).c ∧
    (∀ k, liveChk (syncChanges cfg ord f l c).l k = liveChk l k) ∧
    (∀ i, liveSvc (syncChanges cfg ord f l c).l i = liveSvc l i) := by
  unfold syncChanges
  -- the state after the node step
  have hnode : ∀ s1 : St, s1.l.svcs = l.svcs → s1.l.chks = l.chks → s1.c.svcs = c.svcs → s1.c.chks = c.chks →
      (GInv T Rs Rc Ps Pc s1.l s1.c ∧ (∀ k, liveChk s1.l k = liveChk l k) ∧ (∀ i, liveSvc s1.l i = liveSvc l i)) := by
    intro s1 h1 h2 h3 h4
    obtain ⟨q1, q2⟩ := live_congr h1 h2
    exact ⟨GInv_congr h1 h2 h3 h4 g, q2, q1⟩
  have hloops : ∀ s1 : St, (GInv T Rs Rc Ps Pc s1.l s1.c ∧ (∀ k, liveChk s1.l k = liveChk l k) ∧ (∀ i, liveSvc s1.l i = liveSvc l i)) →
      (GInv T Rs Rc Ps Pc (syncRest cfg ord f s1).l (syncRest cfg ord f s1).c ∧
       (∀ k, liveChk (syncRest cfg ord f s1).l k = liveChk l k) ∧
       (∀ i, liveSvc (syncRest cfg ord f s1).l i = liveSvc l i)) := by
    intro s1 ⟨g1, a1, a2⟩
    obtain ⟨g2, b1, b2⟩ := svcFold_GInv cfg f l hcov _ s1 g1 a1 a2
    exact chkFold_GInv cfg f l hcov _ _ g2 b1 b2
  by_cases hn : l.nodeInSync = true
  · rw [if_pos hn]
    exact hloops _ (hnode _ rfl rfl rfl rfl)
  · rw [if_neg hn]
    obtain ⟨e1, e2, e3, e4⟩ := syncNode_frame cfg f ⟨l, c, true⟩
    have base := hnode (syncNode cfg f ⟨l, c, true⟩).1 e1 e2 e3 e4
    by_cases hgo : (syncNode cfg f ⟨l, c, true⟩).2 = true
    · rw [if_pos hgo]; exact hloops _ base
    · rw [if_neg hgo]; exact base

end CV.AE
