/-
Helper lemmas for C11, catalog side: well-formedness of the modelled catalog is preserved by
every write, and a snapshot replays to exactly the query result it was built from.
-/
import CV.Proofs.StreamView
namespace CV.Stream

/-- memdb primary keys are unique -/
structure WF (c : Cat) : Prop where
  svcs : (c.svcs.map Svc.key).Nodup
  cfgs : (c.cfgs.map (·.1)).Nodup

theorem WF.empty : WF Cat.empty := ⟨by simp [Cat.empty], by simp [Cat.empty]⟩

section
variable {α β : Type} [DecidableEq α]

theorem nodup_keys_filter (p : α × β → Bool) {l : List (α × β)} (h : (l.map (·.1)).Nodup) :
    ((l.filter p).map (·.1)).Nodup :=
  List.Nodup.sublist (List.Sublist.map _ List.filter_sublist) h

theorem nodup_keys_upsert (k : α) (v : β) {l : List (α × β)} (h : (l.map (·.1)).Nodup) :
    ((upsert k v l).map (·.1)).Nodup := by
  unfold upsert
  rw [List.map_cons, List.nodup_cons]
  refine ⟨?_, nodup_keys_filter _ h⟩
  intro hm
  obtain ⟨p, hp, hk⟩ := List.mem_map.mp hm
  have := (List.mem_filter.mp hp).2
  simp at this
  exact this hk

theorem nodup_keys_erase (k : α) {l : List (α × β)} (h : (l.map (·.1)).Nodup) :
    ((erase k l).map (·.1)).Nodup := nodup_keys_filter _ h

theorem lookup?_none_of_not_mem {k : α} {l : List (α × β)} (h : k ∉ l.map (·.1)) : lookup? k l = none := by
  induction l with
  | nil => rfl
  | cons p r ih =>
    obtain ⟨a, b⟩ := p
    simp only [List.map_cons, List.mem_cons, not_or] at h
    have : ¬ a = k := fun e => h.1 e.symm
    simp [this, ih h.2]
end

theorem dropSvc_svcs (idx : Nat) (c : Cat) (s : Svc) :
    (dropSvc idx c s).svcs = c.svcs.filter (fun t => ¬ (t.node = s.node ∧ t.sid = s.sid)) := by
  simp only [dropSvc]; split <;> rfl
theorem dropSvc_cfgs (idx : Nat) (c : Cat) (s : Svc) : (dropSvc idx c s).cfgs = c.cfgs := by
  simp only [dropSvc]; split <;> rfl

theorem dropSvc_wf (idx : Nat) {c : Cat} (s : Svc) (h : WF c) : WF (dropSvc idx c s) := by
  refine ⟨?_, by rw [dropSvc_cfgs]; exact h.cfgs⟩
  rw [dropSvc_svcs]
  exact List.Nodup.sublist (List.Sublist.map _ List.filter_sublist) h.svcs

theorem foldl_dropSvc_wf (idx : Nat) (ss : List Svc) {c : Cat} (h : WF c) : WF (ss.foldl (dropSvc idx) c) := by
  induction ss generalizing c with
  | nil => exact h
  | cons s r ih => exact ih (dropSvc_wf idx s h)

theorem putSvc_keys_nodup {l : List Svc} (s : Svc) (h : (l.map Svc.key).Nodup) :
    ((putSvc l s).map Svc.key).Nodup := by
  unfold putSvc
  cases hf : l.find? (fun t => t.node = s.node ∧ t.sid = s.sid) with
  | some t =>
    simp only
    have : (l.map fun t => if t.node = s.node ∧ t.sid = s.sid then s else t).map Svc.key = l.map Svc.key := by
      rw [List.map_map]
      apply List.map_congr_left
      intro t _
      by_cases ht : t.node = s.node ∧ t.sid = s.sid
      · simp [ht, Svc.key]
      · simp [ht]
    rw [this]; exact h
  | none =>
    simp only
    rw [List.map_append, List.nodup_append]
    refine ⟨h, by simp, ?_⟩
    intro a ha b hb
    simp only [List.map_cons, List.map_nil, List.mem_singleton] at hb
    subst hb
    intro hab
    obtain ⟨t, ht, hk⟩ := List.mem_map.mp ha
    have := List.find?_eq_none.mp hf t ht
    apply this
    simp only [Svc.key, Prod.mk.injEq] at hk hab
    subst hab
    simp only [Prod.mk.injEq] at hk
    simp [hk.1, hk.2]

theorem applyWrite_wf (idx : Nat) {c : Cat} (w : Write) (h : WF c) : WF (applyWrite idx c w).1 := by
  cases w with
  | kv => exact h
  | tok t => exact h
  | cfgSet n v => exact ⟨h.svcs, nodup_keys_upsert n v h.cfgs⟩
  | cfgDel n =>
    simp only [applyWrite]
    cases lookup? n c.cfgs with
    | none => exact h
    | some v => exact ⟨h.svcs, nodup_keys_erase n h.cfgs⟩
  | dereg node sid =>
    cases sid with
    | some sid =>
      simp only [applyWrite]
      cases findSvc c node sid with
      | none => exact h
      | some s => exact dropSvc_wf idx s h
    | none =>
      simp only [applyWrite]
      cases lookup? node c.nodes with
      | none => exact h
      | some a =>
        have := foldl_dropSvc_wf idx (svcsOnNode c node) h
        exact ⟨this.svcs, this.cfgs⟩
  | reg node addr svc =>
    simp only [applyWrite]
    cases svc with
    | none =>
      simp only
      split <;> exact ⟨h.svcs, h.cfgs⟩
    | some s =>
      simp only
      split <;> split <;>
        first
          | exact ⟨h.svcs, h.cfgs⟩
          | exact ⟨putSvc_keys_nodup s h.svcs, h.cfgs⟩

/-- replaying registrations of an association list with unique keys yields that list -/
theorem lookup?_applyEvs_regs (k : Key) (i : Id) (q : View) (v : View) (hn : (q.map (·.1)).Nodup) :
    lookup? i (applyEvs v (q.map fun p => (⟨k, false, p.1, p.2⟩ : Ev))) =
      match lookup? i q with
      | some x => some x
      | none => lookup? i v := by
  induction q generalizing v with
  | nil => simp
  | cons p r ih =>
    obtain ⟨a, b⟩ := p
    rw [List.map_cons, List.nodup_cons] at hn
    simp only [List.map_cons, applyEvs_cons, lookup?_cons]
    rw [ih _ hn.2]
    by_cases h : a = i
    · subst h
      rw [lookup?_none_of_not_mem hn.1]
      simp [lookup?_applyEv]
    · have h' : ¬ i = a := fun e => h e.symm
      simp [h, lookup?_applyEv, h']

theorem query_keys_nodup (k : Key) {c : Cat} (h : WF c) : ((query k c).map (·.1)).Nodup := by
  have hcfg : ∀ l : List (String × Nat), (l.map (·.1)).Nodup →
      ((l.map fun p => (((p.1, ""), ⟨p.1, p.2, 0, .typical⟩) : Id × Val)).map (·.1)).Nodup := by
    intro l hl
    rw [List.map_map]
    have : ((fun p : Id × Val => p.1) ∘ fun p : String × Nat => (((p.1, ""), ⟨p.1, p.2, 0, .typical⟩) : Id × Val))
        = (fun s : String => ((s, "") : Id)) ∘ (·.1) := rfl
    rw [this, ← List.map_map]
    exact List.Pairwise.map _ (fun a b hab e => hab (by simpa using e)) hl
  have hsvc : (((c.svcs.filter (belongs k)).map (render c)).map (·.1)).Nodup := by
    rw [List.map_map]
    have : ((fun p : Id × Val => p.1) ∘ render c) = Svc.key := rfl
    rw [this]
    exact List.Nodup.sublist (List.Sublist.map _ List.filter_sublist) h.svcs
  obtain ⟨t, sj⟩ := k
  cases t <;> cases sj <;> simp only [query] <;>
    first
      | exact hsvc
      | exact hcfg _ h.cfgs
      | exact hcfg _ (nodup_keys_filter _ h.cfgs)

theorem snapshot_flat (k : Key) (c : Cat) :
    (snapshotItems k c).flatMap id = (query k c).map fun p => (⟨k, false, p.1, p.2⟩ : Ev) := by
  unfold snapshotItems
  split
  · by_cases h : (query k c).isEmpty
    · have : query k c = [] := by simpa using h
      simp [this]
    · simp [h]
  · generalize query k c = q
    induction q with
    | nil => rfl
    | cons p r ih => simpa using ih

theorem snapshot_exact (k : Key) {c : Cat} (h : WF c) :
    ViewEq (applyEvs [] ((snapshotItems k c).flatMap id)) (query k c) := by
  intro i
  rw [snapshot_flat, lookup?_applyEvs_regs k i _ _ (query_keys_nodup k h)]
  cases lookup? i (query k c) <;> simp

end CV.Stream
