/-
A state of the shared store model on which the full-strength round trip fails: a service-level check whose stored
copy of the service name is stale. The online path produces it (service id `s0` registered as "api" with check
`c1`, then re-registered as "web": `ensureServiceTxn` rewrites the service row, nothing refreshes the check row);
the harness replays exactly that history against the real store on every run (scenario
`store-service-renamed-by-id`, known findings `snap:checks:ServiceName:stale-online-copy` and, outside the base
tables, `snap:kind-service-names:row-stale-after-service-renamed`) and the `rts` line of that cut confirms the value
computed here.
-/
import CV.Proofs.StoreSnapMain
set_option linter.unusedSimpArgs false
namespace CV.Store.SnapCex
open CV CV.Store

theorem lc_lit (s t : String) (h : s.toList.map Char.toLower = t.toList) : lc s = t := by
  apply String.ext; rw [lc, String.toList_map]; exact h

theorem lc_n1 : lc "n1" = "n1" := lc_lit _ _ (by decide)
theorem lc_s0 : lc "s0" = "s0" := lc_lit _ _ (by decide)
theorem lc_c1 : lc "c1" = "c1" := lc_lit _ _ (by decide)

def n1 : Node := ⟨"n1", "", "10.0.0.1", 1, 1⟩
def web : Svc := ⟨"n1", "s0", "web", 80, 1, 2⟩
/-- the check row still says "api" -/
def c1 : Chk := ⟨"n1", "c1", "passing", "s0", "api", "", "", "", 1, 1⟩
def stale : State := { nodes := [n1], svcs := [web], chks := [c1] }

theorem stale_snapshot :
    (snapshotS stale).recs = [SRec.reg ⟨n1, none, []⟩, SRec.reg ⟨n1, some web, []⟩, SRec.reg ⟨n1, none, [c1]⟩] := by
  simp [snapshotS, stale, nodeRecs, svcsOf, chksOf, n1, web, c1, lc_n1]

/-- restore rewrites the check's service name from "api" to "web" -/
theorem stale_restore :
    ∃ r, restoreS (snapshotS stale) = .ok r ∧ r.nodes = [n1] ∧ r.svcs = [web] ∧ r.chks = [{ c1 with svcName := "web" }] := by
  have hK : ∀ PN PV PC, CatKeys (fun _ => True) PN PV PC := fun _ _ _ =>
    ⟨fun _ => ⟨trivial, trivial⟩, fun _ _ => trivial, fun _ => ⟨trivial, trivial, trivial, trivial⟩,
      fun _ _ => ⟨⟨trivial, trivial, trivial⟩, trivial⟩, fun _ => ⟨trivial, trivial⟩⟩
  obtain ⟨e1, h1⟩ := step_node (cinv_empty (fun _ => True)) (snapshotS stale).last n1
    (fun _ hx => hx.elim) (fun _ hx => hx.elim) (by simp [n1]) (hK _ _ _)
  obtain ⟨e2, h2⟩ := step_svc h1 (snapshotS stale).last n1 web (Or.inl rfl) rfl
    (fun _ hx => hx.elim) (hK _ _ _)
  have e3 := step_chk_recompute h2 (snapshotS stale).last n1 c1 web (Or.inl rfl) rfl
    (fun _ hx => hx.elim) (by simp [c1]) (by simp [c1]) (Or.inl rfl) rfl rfl
  refine ⟨chkInsert (bumpServiceIdx (svcInsert (nodeInsert State.empty n1) web) (snapshotS stale).last web.name)
    { c1 with svcName := web.name } (snapshotS stale).last, ?_, ?_, ?_, ?_⟩
  · unfold restoreS
    rw [stale_snapshot]
    simp only [foldE, e1, e2, e3]
  · rw [catView_nodes_eq (catView_chkInsert _ _ _), catView_nodes (catView_bumpServiceIdx _ _ _),
      catView_nodes_eq (catView_svcInsert _ _), catView_nodes_eq (catView_nodeInsert _ _)]
    simp [State.empty, tupsert]
  · rw [catView_svcs_eq (catView_chkInsert _ _ _), catView_svcs (catView_bumpServiceIdx _ _ _),
      catView_svcs_eq (catView_svcInsert _ _), catView_svcs_eq (catView_nodeInsert _ _)]
    simp [State.empty, tupsert]
  · rw [catView_chks_eq (catView_chkInsert _ _ _), catView_chks (catView_bumpServiceIdx _ _ _),
      catView_chks_eq (catView_svcInsert _ _), catView_chks_eq (catView_nodeInsert _ _)]
    simp [State.empty, tupsert, web]

/-! ### a well-formed state (non-vacuity of `SnapWF`) -/

theorem strLt_eval (a b : String) : strLt a b = decide (a.toList < b.toList) := by
  simp [strLt, String.lt_iff]

theorem lc_kvs : lc "kvs" = "kvs" := lc_lit _ _ (by decide)
theorem lc_nodes : lc "nodes" = "nodes" := lc_lit _ _ (by decide)
theorem lc_pnodes : lc ("peer.~:" ++ "nodes") = "peer.~:nodes" := lc_lit _ _ (by decide)
theorem lc_pnode : lc ("peer.~:node." ++ "n1") = "peer.~:node.n1" := lc_lit _ _ (by decide)
theorem lc_pnode' : lc "peer.~:node.n1" = "peer.~:node.n1" := lc_lit _ _ (by decide)
theorem lc_pnodes' : lc "peer.~:nodes" = "peer.~:nodes" := lc_lit _ _ (by decide)

/-- one node, one key, and the four index rows their writes leave -/
def sample : State :=
  { nodes := [n1], kvs := [⟨[97], "=v", 0, "", 0, 3, 3⟩],
    index := [("kvs", 3), ("nodes", 1), ("peer.~:node.n1", 1), ("peer.~:nodes", 1)] }

theorem sample_wf : SnapWF sample where
  cat :=
    { ns := by simp [sample, TSorted]
      vs := by simp [sample, TSorted]
      cs := by simp [sample, TSorted]
      nodeIds := by simp [sample]
      nodeCreate := by simp [sample, n1]
      svcNode := by simp [sample]
      chkNode := by simp [sample]
      chkStatus := by simp [sample]
      chkSvc := by simp [sample] }
  kvS := by simp [sample, TSorted]
  kvKey := by simp [sample]
  tombS := by simp [sample, TSorted]
  tombKey := by simp [sample]
  sessS := by simp [sample, TSorted]
  sc := rfl
  pqS := by simp [sample, TSorted]
  idxS := by
    simp only [IdxSorted, TSorted, sample, List.pairwise_cons, List.mem_cons, List.mem_singleton, forall_eq_or_imp, forall_eq,
      strLt_eval]
    decide
  idxNorm := by
    simp only [sample, List.mem_cons, List.mem_singleton, forall_eq_or_imp, forall_eq, lc_kvs, lc_nodes, lc_pnode', lc_pnodes']
    simp
  idxCover :=
    { cat :=
        { nodes := fun _ => ⟨⟨("nodes", 1), by simp [sample], lc_nodes⟩, ⟨("peer.~:nodes", 1), by simp [sample], lc_pnodes⟩⟩
          node := fun n hn => by
            have : n = n1 := by simpa [sample] using hn
            subst this
            exact ⟨("peer.~:node.n1", 1), by simp [sample], lc_pnode⟩
          svcs := fun ⟨v, hv⟩ => by simp [sample] at hv
          svc := fun v hv => by simp [sample] at hv
          chks := fun ⟨c, hc⟩ => by simp [sample] at hc }
      sessions := fun h => absurd rfl h
      kvs := fun _ => ⟨("kvs", 3), by simp [sample], lc_kvs⟩
      tombs := fun h => absurd rfl h
      queries := fun h => absurd rfl h }

end CV.Store.SnapCex
