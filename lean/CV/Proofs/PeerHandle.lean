/-
Helper lemmas for C17: the shape of a successful `handleUpdate`, the deletion-only updates, and the
exported-service-list pruning.
-/
import CV.Proofs.PeerReg
set_option linter.unusedSectionVars false
set_option linter.unusedSimpArgs false
namespace CV.Peer

/-- the deregistrations of the clean-up pass, in the order they are sent -/
def cleanupCmds (p : String) (cl : Cleanup) : List Op :=
  cl.ops ++ cl.nchks.map fun (nk : String × String) => Op.deregChk p nk.1 nk.2

theorem cleanupCmds_dereg (p : String) (snap : Snap) (st : List CSN) :
    ∀ o ∈ cleanupCmds p (cleanup p snap st), o.isDereg = true := by
  intro o ho
  simp only [cleanupCmds, List.mem_append, List.mem_map] at ho
  rcases ho with ho | ⟨nk, _, rfl⟩
  · have := ((cleanup_spec p snap st).1 o).mp ho
    obtain ⟨x, _, h | ⟨ss, _, k, _, _, _, h⟩⟩ := this
    · rw [h.2]; rfl
    · rw [h]; rfl
  · rfl

/-- A processed update (no error, no panic) went through all four phases. -/
theorem handleUpdate_ok {c : Cat} {p sn : String} {insts : List Inst}
    (he : (handleUpdate c p sn insts).err = none) (hp : (handleUpdate c p sn insts).panic = false) :
    ∃ st snap c1 l1, csn c p sn = .ok st ∧ mkSnap insts = some snap ∧
      runOps c (snap.flatMap (regOpsNode p st)) = (c1, none, l1) ∧
      (handleUpdate c p sn insts).cat =
        (dropUnused p (runOps c1 (cleanupCmds p (cleanup p snap st))).1 (cleanup p snap st).unused).1 := by
  unfold handleUpdate at he hp ⊢
  split at he
  · simp at he
  · rename_i st hst
    split at he
    · simp at hp
      split at hp <;> simp_all
    · rename_i snap hsnap
      split at he
      · simp at he
      · rename_i c1 l1 hr
        refine ⟨st, snap, c1, l1, hst, hsnap, hr, ?_⟩
        simp only [hst, hsnap, hr, cleanupCmds]

theorem runOps_fst {c c1 : Cat} {ops l : List Op} {e : Option Err} (h : runOps c ops = (c1, e, l)) :
    (runOps c ops).1 = c1 := by rw [h]

/-- After a processed update every instance of `(p, sn)` in the catalog has a (node, id) of the snapshot. -/
theorem handleUpdate_instances_in_snapshot {c : Cat} {p sn : String} {insts : List Inst}
    (he : (handleUpdate c p sn insts).err = none) (hp : (handleUpdate c p sn insts).panic = false) :
    ∀ s ∈ (handleUpdate c p sn insts).cat.svcs, s.peer = p → s.name = sn →
      ∃ x ∈ insts, x.node.name = s.node ∧ x.svc.sid = s.sid := by
  obtain ⟨st, snap, c1, l1, hst, hsnap, hr, hcat⟩ := handleUpdate_ok he hp
  obtain ⟨wf, keys⟩ := mkSnap_keys hsnap
  intro s hs hsp hsn
  rw [hcat] at hs
  have hd := runOps_deregs _ c1 (cleanupCmds_dereg p snap st)
  have hs2 := (sub_dropUnused p _ _).svcs s hs
  have hs1 := hd.2.2.1.svcs s hs2
  rw [← runOps_fst hr] at hs1
  rcases (runOps_origin _ c).2.1 s hs1 with h0 | ⟨r, sd, hr1, hsd, rfl⟩
  · obtain ⟨x, hx, hxs⟩ := (csn_ok hst).2 s h0 hsp hsn
    obtain ⟨_, _, _, _, _, hnn, _⟩ := (csn_ok hst).1 x hx
    cases hk : snapInst snap s.node s.sid with
    | none =>
      exfalso
      have hop : Op.deregSvc p s.node s.sid ∈ cleanupCmds p (cleanup p snap st) := by
        simp only [cleanupCmds, List.mem_append]
        left
        apply ((cleanup_spec p snap st).1 _).mpr
        refine ⟨x, hx, Or.inl ⟨?_, ?_⟩⟩
        · rw [hnn, hxs]; exact hk
        · rw [hnn, hxs]
      exact hd.2.2.2.1 p s.node s.sid hop s hs2 ⟨hsp, rfl, rfl⟩
    | some ss =>
      exact (keys s.node s.sid).mp (by rw [hk]; simp)
  · obtain ⟨nd, hnd, _, hnode, hsvc, _⟩ := regOps_shape p st snap r hr1
    obtain ⟨ss, hss, hssd, _⟩ := hsvc sd hsd
    apply (keys _ _).mp
    rw [snapInst_isSome_iff wf]
    exact ⟨nd, hnd, by simp [hnode], ss, hss, by simp [hssd]⟩

/-! ### deleting a service: an update with no instances -/

theorem handleUpdate_nil_sub (c : Cat) (p sn : String) : Sub (handleUpdate c p sn []).cat c := by
  unfold handleUpdate
  split
  · exact Sub.refl c
  · rename_i st _
    simp only [mkSnap, List.all_nil, if_true, List.foldl_nil, List.flatMap_nil, runOps]
    exact Sub.trans (sub_dropUnused p _ _) (runOps_deregs _ c (cleanupCmds_dereg p [] st)).2.2.1

theorem handleUpdate_nil_panic (c : Cat) (p sn : String) : (handleUpdate c p sn []).panic = false := by
  unfold handleUpdate
  split
  · rfl
  · simp only [mkSnap, List.all_nil, if_true, List.foldl_nil, List.flatMap_nil, runOps]

/-! ### the exported-service list -/

theorem pruneAll_stuck (p : String) (keep names : List String) (r : Res) (h : r.err.isSome || r.panic) :
    pruneAll p keep names r = r := by
  cases names with
  | nil => rfl
  | cons sn rest => simp only [pruneAll, h, if_true]

theorem pruneAll_spec (p : String) (keep : List String) (names : List String) (r : Res)
    (hr : r.err = none ∧ r.panic = false) (hfin : (pruneAll p keep names r).err = none) :
    Sub (pruneAll p keep names r).cat r.cat ∧ (pruneAll p keep names r).panic = false ∧
    ∀ s ∈ (pruneAll p keep names r).cat.svcs, s.peer = p → s.name ∈ names → s.name ∈ keep := by
  induction names generalizing r with
  | nil => exact ⟨Sub.refl _, hr.2, by simp⟩
  | cons sn rest ih =>
    simp only [pruneAll] at hfin ⊢
    have h0 : (r.err.isSome || r.panic) = false := by simp [hr.1, hr.2]
    simp only [h0] at hfin ⊢
    simp only [Bool.false_eq_true, if_false] at hfin ⊢
    split
    · rename_i hk
      simp only [hk, if_true] at hfin
      obtain ⟨a, b, d⟩ := ih r hr hfin
      refine ⟨a, b, fun s hs hp hn => ?_⟩
      simp only [List.mem_cons] at hn
      rcases hn with hn | hn
      · rw [hn]; exact hk
      · exact d s hs hp hn
    · rename_i hk
      simp only [hk, if_false] at hfin
      have he1 : (handleUpdate r.cat p sn []).err = none := by
        cases he : (handleUpdate r.cat p sn []).err with
        | none => rfl
        | some e =>
          rw [pruneAll_stuck p keep rest _ (by simp [he])] at hfin
          simp [he] at hfin
      have hp1 := handleUpdate_nil_panic r.cat p sn
      obtain ⟨a, b, d⟩ := ih { handleUpdate r.cat p sn [] with log := r.log ++ (handleUpdate r.cat p sn []).log } ⟨he1, hp1⟩ hfin
      refine ⟨Sub.trans a (handleUpdate_nil_sub r.cat p sn), b, fun s hs hp hn => ?_⟩
      simp only [List.mem_cons] at hn
      rcases hn with hn | hn
      · exfalso
        have hs1 := a.svcs s hs
        obtain ⟨x, hx, _⟩ := handleUpdate_instances_in_snapshot he1 hp1 s hs1 hp hn
        cases hx
      · exact d s hs hp hn

end CV.Peer
