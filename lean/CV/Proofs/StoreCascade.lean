/-
A generic ladder for predicates that depend only on the KV table: everything outside the KV verbs
(sessions, checks, catalog, prepared queries, the invalidation cascade) changes the KV table only
through `invalidateKeys`, so a predicate that is insensitive to the other tables and closed under
`invalidateKeys` is preserved by every non-KV function of the store model.
Used for C03/C04: "non-KV commands only release or delete rows" and "released rows survive".
-/
import CV.Proofs.StoreLock
namespace CV.Store
open CV

/-- `P` looks at the KV table only and is closed under session invalidation at index `idx` -/
structure KvClosed (idx : Nat) (P : State → Prop) : Prop where
  kvs_only : ∀ s s' : State, s'.kvs = s.kvs → P s → P s'
  invalidate : ∀ (s : State) (sess : Sess), P s → P (invalidateKeys s idx sess)

theorem kvs_of_view {s s' : State} (h : lockView s' = lockView s) : s'.kvs = s.kvs :=
  congrArg Prod.fst h

variable {idx : Nat} {P : State → Prop}

theorem kc_view (hP : KvClosed idx P) {s s' : State} (h : lockView s' = lockView s) : P s → P s' :=
  hP.kvs_only s s' (kvs_of_view h)

theorem kc_removeSession (hP : KvClosed idx P) {s : State} (id : String) (sess : Sess) (h : P s) :
    P (dropSessionRefs (invalidateKeys
      { s with sessions := terase Sess.pk (lc id) s.sessions, index := idxSet s.index "sessions" idx } idx sess) idx id) := by
  apply hP.kvs_only _ _ (dropSessionRefs_rest _ idx id).1
  apply hP.invalidate
  exact hP.kvs_only s _ rfl h

def KcDel (idx : Nat) (P : State → Prop) (n : Nat) : Prop :=
  ∀ s id s', deleteSessionF n s idx id = .ok s' → P s → P s'
def KcChk (idx : Nat) (P : State → Prop) (n : Nat) : Prop :=
  ∀ s p hc s', ensureCheckF n s idx p hc = .ok s' → P s → P s'

theorem kcDel_zero (_hP : KvClosed idx P) : KcDel idx P 0 := by
  intro s id s' hr h
  rw [deleteSessionF] at hr
  split at hr
  · simp at hr; exact hr ▸ h
  · simp at hr

theorem kcDel_succ (hP : KvClosed idx P) {n : Nat} (hq : KcChk idx P n) : KcDel idx P (n + 1) := by
  intro s id s' hr h
  rw [deleteSessionF] at hr
  split at hr
  · simp at hr; exact hr ▸ h
  · next sess hf =>
    simp only at hr
    exact foldE_ind P _ (fun st c st' hst hc => hq st _ _ st' hc hst) _ _ _
      (kc_removeSession hP id sess h) hr

theorem kcChk_of (hP : KvClosed idx P) {n : Nat} (hp : ∀ m, n = m + 1 → KcDel idx P m) : KcChk idx P n := by
  intro s p hc s' hr h
  rw [ensureCheckF] at hr
  split at hr
  · simp at hr
  · next s1 hc1 md hprep =>
    have h1 : P s1 := kc_view hP (checkPrep_view hprep) h
    split at hr
    · simp at hr; rw [← hr]; exact kc_view hP (lockView_checkFinish _ _ _ _ _) h1
    · simp at hr
    · next m _ =>
      split at hr
      · simp at hr
      · next s2 hfold =>
        simp at hr; rw [← hr]
        refine kc_view hP (lockView_checkFinish _ _ _ _ _) ?_
        exact foldE_ind P _ (fun st sid st' hst hc => hp m rfl st sid st' hc hst) _ _ _ h1 hfold

theorem kc_cascade (hP : KvClosed idx P) (n : Nat) : KcDel idx P n ∧ KcChk idx P n := by
  induction n with
  | zero => exact ⟨kcDel_zero hP, kcChk_of hP (by intro m hm; omega)⟩
  | succ n ih =>
    exact ⟨kcDel_succ hP ih.2, kcChk_of hP (by intro m hm; have : m = n := by omega
                                               subst this; exact ih.1)⟩

theorem kc_deleteSession (hP : KvClosed idx P) {s s' : State} {id : String}
    (hr : deleteSession s idx id = .ok s') (h : P s) : P s' :=
  (kc_cascade hP _).1 s id s' hr h

theorem kc_ensureCheck (hP : KvClosed idx P) {s s' : State} {p : Bool} {hc : Chk}
    (hr : ensureCheck s idx p hc = .ok s') (h : P s) : P s' :=
  (kc_cascade hP _).2 s p hc s' hr h

theorem kc_updateSessionCheck (hP : KvClosed idx P) {s s' : State} {x : Sess} {st : String}
    (hr : updateSessionCheck s idx x st = .ok s') (h : P s) : P s' := by
  unfold updateSessionCheck at hr
  exact foldE_ind P _ (fun a c a' ha hc => kc_ensureCheck hP hc ha) _ _ _ h hr

theorem kc_sessionCreate (hP : KvClosed idx P) {s s' : State} {r : SessReq}
    (hr : sessionCreate s idx r = .ok s') (h : P s) : P s' := by
  simp only [sessionCreate] at hr
  repeat' (split at hr)
  all_goals (try simp at hr)
  all_goals (exact kc_updateSessionCheck hP hr (hP.kvs_only s _ rfl h))

theorem kc_pqSet (hP : KvClosed idx P) {s s' : State} {id sess : String}
    (hr : pqSet s idx id sess = .ok s') (h : P s) : P s' := by
  simp only [pqSet] at hr
  repeat' (split at hr)
  all_goals (try simp at hr)
  all_goals (subst hr)
  all_goals (exact hP.kvs_only s _ rfl h)

theorem kc_pqDelete (hP : KvClosed idx P) {s : State} {id : String} (h : P s) : P (pqDelete s idx id) := by
  unfold pqDelete
  split
  · exact h
  · exact hP.kvs_only s _ rfl h

theorem kc_deleteCheck (hP : KvClosed idx P) {s s' : State} {node id : String}
    (hr : deleteCheck s idx node id = .ok s') (h : P s) : P s' := by
  simp only [deleteCheck] at hr
  split at hr
  · simp at hr; exact hr ▸ h
  · exact foldE_ind P _ (fun a c a' ha hc => kc_deleteSession hP hc ha) _ _ _
      (kc_view hP (lockView_deleteCheckPre _ _ _ _ _) h) hr

theorem kc_deleteService (hP : KvClosed idx P) {s s' : State} {node id : String}
    (hr : deleteService s idx node id = .ok s') (h : P s) : P s' := by
  simp only [deleteService] at hr
  split at hr
  · simp at hr; exact hr ▸ h
  · split at hr
    · simp at hr
    · next s1 hfold =>
      simp at hr; rw [← hr]
      have h1 : P s1 := foldE_ind P _ (fun a c a' ha hc => kc_deleteCheck hP hc ha) _ _ _ h hfold
      exact kc_view hP (lockView_deleteServicePost _ _ _ _ _) h1

theorem kc_deleteNode (hP : KvClosed idx P) {s s' : State} {name : String}
    (hr : deleteNode s idx name = .ok s') (h : P s) : P s' := by
  simp only [deleteNode] at hr
  split at hr
  · simp at hr; exact hr ▸ h
  · split at hr
    · simp at hr
    · next s2 hf2 =>
      split at hr
      · simp at hr
      · next s3 hf3 =>
        have h1 : P (List.foldl (fun st (v : Svc) => bumpServiceIdx st idx v.name) s
            (List.filter (fun v => lc v.node == lc name) s.svcs)) :=
          kc_view hP (lockView_foldl (fun st (v : Svc) => bumpServiceIdx st idx v.name) (fun st b => rfl) _ s) h
        have h2 : P s2 := foldE_ind P _ (fun a c a' ha hc => kc_deleteService hP hc ha) _ _ _ h1 hf2
        have h3 : P s3 := foldE_ind P _ (fun a c a' ha hc => kc_deleteCheck hP hc ha) _ _ _ h2 hf3
        exact foldE_ind P _ (fun a c a' ha hc => kc_deleteSession hP hc ha) _ _ _
          (kc_view hP (lockView_deleteNodePost _ _ _) h3) hr

theorem kc_ensureNode (hP : KvClosed idx P) {s s' : State} {n : Node}
    (hr : ensureNode s idx n = .ok s') (h : P s) : P s' := by
  simp only [ensureNode] at hr
  split at hr
  · simp at hr
  · next s1 byId hr1 =>
    have h1 : P s1 := by
      repeat' (split at hr1)
      all_goals (try simp at hr1)
      all_goals (obtain ⟨rfl, -⟩ := hr1)
      all_goals (first | exact h | exact kc_deleteNode hP (by assumption) h)
    repeat' (split at hr)
    all_goals (try simp at hr)
    all_goals (subst hr)
    all_goals (first | exact h1 | exact kc_view hP (lockView_nodeInsert _ _) h1)

theorem kc_ensureService (hP : KvClosed idx P) {s s' : State} {v : Svc}
    (hr : ensureService s idx v = .ok s') (h : P s) : P s' := by
  unfold ensureService at hr
  split at hr
  · simp at hr
  · split at hr
    · simp only at hr
      split at hr
      · simp at hr; exact hr ▸ h
      · simp at hr; rw [← hr]; exact kc_view hP (lockView_svcInsert _ _) h
    · simp at hr; rw [← hr]; exact kc_view hP (lockView_svcInsert _ _) h

theorem kc_ensureRegistration (hP : KvClosed idx P) {s s' : State} {r : RegReq}
    (hr : ensureRegistration s idx r = .ok s') (h : P s) : P s' := by
  simp only [ensureRegistration] at hr
  split at hr
  · simp at hr
  · next s1 hr1 =>
    have h1 : P s1 := by
      repeat' (split at hr1)
      all_goals (try simp at hr1)
      all_goals (first | exact hr1 ▸ h | exact kc_ensureNode hP hr1 h)
    split at hr
    · simp at hr
    · next s2 hr2 =>
      have h2 : P s2 := by
        repeat' (split at hr2)
        all_goals (try simp at hr2)
        all_goals (first | exact hr2 ▸ h1 | exact kc_ensureService hP hr2 h1)
      refine foldE_ind P _ ?_ _ _ _ h2 hr
      intro a c a' ha hc
      unfold ensureCheckIfNodeMatches at hc
      split at hc
      · simp at hc
      · exact kc_ensureCheck hP hc ha

section cas
variable (hP : KvClosed idx P)
include hP

theorem kc_ensureNodeCas {s s' : State} {n : Node} {b : Bool}
    (hr : ensureNodeCas s idx n = .ok (s', b)) (h : P s) : P s' := by
  unfold ensureNodeCas at hr
  repeat' (split at hr)
  all_goals (try simp at hr)
  all_goals (obtain ⟨rfl, -⟩ := hr)
  all_goals (first | exact h | exact kc_ensureNode hP (by assumption) h)

theorem kc_deleteNodeCas {s s' : State} {c : Nat} {n : String} {b : Bool}
    (hr : deleteNodeCas s idx c n = .ok (s', b)) (h : P s) : P s' := by
  unfold deleteNodeCas at hr
  repeat' (split at hr)
  all_goals (try simp at hr)
  all_goals (obtain ⟨rfl, -⟩ := hr)
  all_goals (first | exact h | exact kc_deleteNode hP (by assumption) h)

theorem kc_ensureServiceCas {s s' : State} {v : Svc} {b : Bool}
    (hr : ensureServiceCas s idx v = .ok (s', b)) (h : P s) : P s' := by
  unfold ensureServiceCas at hr
  repeat' (split at hr)
  all_goals (try simp at hr)
  all_goals (obtain ⟨rfl, -⟩ := hr)
  all_goals (first | exact h | exact kc_ensureService hP (by assumption) h)

theorem kc_deleteServiceCas {s s' : State} {c : Nat} {n i : String} {b : Bool}
    (hr : deleteServiceCas s idx c n i = .ok (s', b)) (h : P s) : P s' := by
  unfold deleteServiceCas at hr
  repeat' (split at hr)
  all_goals (try simp at hr)
  all_goals (obtain ⟨rfl, -⟩ := hr)
  all_goals (first | exact h | exact kc_deleteService hP (by assumption) h)

theorem kc_ensureCheckCas {s s' : State} {c : Chk} {b : Bool}
    (hr : ensureCheckCas s idx c = .ok (s', b)) (h : P s) : P s' := by
  unfold ensureCheckCas at hr
  repeat' (split at hr)
  all_goals (try simp at hr)
  all_goals (obtain ⟨rfl, -⟩ := hr)
  all_goals (first | exact h | exact kc_ensureCheck hP (by assumption) h)

theorem kc_deleteCheckCas {s s' : State} {c : Nat} {n i : String} {b : Bool}
    (hr : deleteCheckCas s idx c n i = .ok (s', b)) (h : P s) : P s' := by
  unfold deleteCheckCas at hr
  repeat' (split at hr)
  all_goals (try simp at hr)
  all_goals (obtain ⟨rfl, -⟩ := hr)
  all_goals (first | exact h | exact kc_deleteCheck hP (by assumption) h)

/-- one transaction operation that is not a KV verb -/
theorem kc_txnStep {s s' : State} {op : TxnOp} {rs : List TxnRes} (hop : ∀ v e, op ≠ .kv v e)
    (hr : txnStep s idx op = .ok (s', rs)) (h : P s) : P s' := by
  cases op with
  | kv v e => exact absurd rfl (hop v e)
  | node v n =>
    simp only [txnStep, txnNode] at hr
    cases v <;> simp only [okRes] at hr <;> repeat' (split at hr)
    all_goals (try simp at hr)
    all_goals (try (obtain ⟨rfl, -⟩ := hr))
    all_goals (first
      | exact h
      | exact kc_ensureNode hP (by assumption) h
      | exact kc_ensureNodeCas hP (by assumption) h
      | exact kc_deleteNode hP (by assumption) h
      | exact kc_deleteNodeCas hP (by assumption) h)
  | service v x =>
    simp only [txnStep, txnService] at hr
    cases v <;> simp only [okRes] at hr <;> repeat' (split at hr)
    all_goals (try simp at hr)
    all_goals (try (obtain ⟨rfl, -⟩ := hr))
    all_goals (first
      | exact h
      | exact kc_ensureService hP (by assumption) h
      | exact kc_ensureServiceCas hP (by assumption) h
      | exact kc_deleteService hP (by assumption) h
      | exact kc_deleteServiceCas hP (by assumption) h)
  | check v c =>
    simp only [txnStep, txnCheck] at hr
    cases v <;> simp only [okRes] at hr <;> repeat' (split at hr)
    all_goals (try simp at hr)
    all_goals (try (obtain ⟨rfl, -⟩ := hr))
    all_goals (first
      | exact h
      | exact kc_ensureCheck hP (by assumption) h
      | exact kc_ensureCheckCas hP (by assumption) h
      | exact kc_deleteCheck hP (by assumption) h
      | exact kc_deleteCheckCas hP (by assumption) h)
  | sessionDelete id =>
    simp only [txnStep, okRes] at hr
    split at hr
    · simp at hr; exact hr.1 ▸ kc_deleteSession hP (by assumption) h
    · simp at hr

end cas

/-- the commands that are not KV writes and not transactions -/
def Cmd.isPlainNonKv : Cmd → Bool
  | .sessionCreate _ | .sessionDestroy _ | .register _ | .deregister _ _ _ | .reap _ | .pqSet _ _ | .pqDelete _ => true
  | _ => false

theorem kc_liftS {s : State} {r : Except Err State} (h : P s) (hr : ∀ s', r = .ok s' → P s') :
    P (liftS s r).1 := by
  cases r with
  | ok s' => exact hr s' rfl
  | error e => exact h

/-- every command outside the KV verbs and transactions preserves a KV-only, invalidation-closed predicate -/
theorem kc_apply (hP : KvClosed idx P) {s : State} (c : Cmd) (hc : c.isPlainNonKv = true) (h : P s) :
    P (apply s idx c).1 := by
  cases c <;> simp [Cmd.isPlainNonKv] at hc
  · exact kc_liftS h (fun s' hr => kc_sessionCreate hP hr h)
  · exact kc_liftS h (fun s' hr => kc_deleteSession hP hr h)
  · exact kc_liftS h (fun s' hr => kc_ensureRegistration hP hr h)
  · simp only [apply]
    split
    · exact kc_liftS h (fun s' hr => kc_deleteService hP hr h)
    · split
      · exact kc_liftS h (fun s' hr => kc_deleteCheck hP hr h)
      · exact kc_liftS h (fun s' hr => kc_deleteNode hP hr h)
  · exact hP.kvs_only s _ rfl h
  · exact kc_liftS h (fun s' hr => kc_pqSet hP hr h)
  · exact kc_pqDelete hP h

/-! ### instances -/

/-- `e'` is the row `e`, or `e` released at index `idx` (only `session` and `modify` differ) -/
def RowFrom (idx : Nat) (e e' : KV) : Prop :=
  e' = e ∨ (e.session ≠ "" ∧ e' = { e with session := "", modify := idx })

theorem RowFrom.trans {idx : Nat} {a b c : KV} (h1 : RowFrom idx a b) (h2 : RowFrom idx b c) : RowFrom idx a c := by
  rcases h1 with rfl | ⟨ha, rfl⟩
  · exact h2
  · rcases h2 with rfl | ⟨hb, -⟩
    · exact Or.inr ⟨ha, rfl⟩
    · simp at hb

theorem mem_invalidateKeys_from {s : State} {idx : Nat} {sess : Sess} {e' : KV}
    (h : e' ∈ (invalidateKeys s idx sess).kvs) : ∃ e ∈ s.kvs, RowFrom idx e e' ∧
      (sess.behavior = .delete → heldBy sess.id e = false) := by
  unfold invalidateKeys at h
  simp only at h
  split at h
  · next hemp =>
    simp [List.isEmpty_iff] at hemp
    exact ⟨e', h, Or.inl rfl, fun _ => hemp e' h⟩
  · split at h
    · next hb =>
      simp only [List.mem_map] at h
      obtain ⟨e, he, rfl⟩ := h
      refine ⟨e, he, ?_, fun hd => by rw [hb] at hd; cases hd⟩
      by_cases hh : heldBy sess.id e = true
      · simp only [hh, if_true]
        exact Or.inr ⟨by simp [heldBy] at hh; exact hh.1, rfl⟩
      · simp only [hh]; exact Or.inl rfl
    · simp only [List.mem_filter] at h
      exact ⟨e', h.1, Or.inl rfl, fun _ => by simpa using h.2⟩

/-- every row is a row of `s0`, possibly released at `idx` -/
def KvRel (idx : Nat) (s0 s' : State) : Prop := ∀ e' ∈ s'.kvs, ∃ e ∈ s0.kvs, RowFrom idx e e'

theorem kvRel_refl (idx : Nat) (s : State) : KvRel idx s s := fun e he => ⟨e, he, Or.inl rfl⟩

theorem kvRel_closed (idx : Nat) (s0 : State) : KvClosed idx (KvRel idx s0) where
  kvs_only := by intro s s' h hp e' he'; rw [h] at he'; exact hp e' he'
  invalidate := by
    intro s sess hp e' he'
    obtain ⟨e, he, hf, -⟩ := mem_invalidateKeys_from he'
    obtain ⟨e0, he0, hf0⟩ := hp e he
    exact ⟨e0, he0, hf0.trans hf⟩

/-- a row that nobody holds survives every invalidation -/
theorem survive_closed (idx : Nat) (r : KV) (hr : r.session = "") : KvClosed idx (fun s => r ∈ s.kvs) where
  kvs_only := by intro s s' h hp; rw [h]; exact hp
  invalidate := by
    intro s sess hp
    have hnh : heldBy sess.id r = false := by simp [heldBy, hr]
    unfold invalidateKeys
    simp only
    split
    · exact hp
    · split
      · simp only [List.mem_map]
        exact ⟨r, hp, by simp [hnh]⟩
      · simp only [List.mem_filter]
        exact ⟨hp, by simp [hnh]⟩

/-- every row descends from a row of `s0` that was not held by session `sid` -/
def KvRelNot (idx : Nat) (sid : String) (s0 s' : State) : Prop :=
  ∀ e' ∈ s'.kvs, ∃ e ∈ s0.kvs, heldBy sid e = false ∧ RowFrom idx e e'

theorem kvRelNot_closed (idx : Nat) (sid : String) (s0 : State) : KvClosed idx (KvRelNot idx sid s0) where
  kvs_only := by intro s s' h hp e' he'; rw [h] at he'; exact hp e' he'
  invalidate := by
    intro s sess hp e' he'
    obtain ⟨e, he, hf, -⟩ := mem_invalidateKeys_from he'
    obtain ⟨e0, he0, hn, hf0⟩ := hp e he
    exact ⟨e0, he0, hn, hf0.trans hf⟩

/-- the state right after the destroyed session's own rows were handled, and the rest of the cascade -/
theorem deleteSession_unfold {s s' : State} {idx : Nat} {id : String} {sess : Sess}
    (hf : sessFind s id = some sess) (hr : deleteSession s idx id = .ok s') :
    ∃ n, foldE (fun st c => ensureCheckF n st idx false
              { c with status := critical, output := sessionCheckOutput sess critical })
          (sessionTypedChecks (dropSessionRefs (invalidateKeys
              { s with sessions := terase Sess.pk (lc id) s.sessions, index := idxSet s.index "sessions" idx } idx sess) idx id) sess)
          (dropSessionRefs (invalidateKeys
              { s with sessions := terase Sess.pk (lc id) s.sessions, index := idxSet s.index "sessions" idx } idx sess) idx id)
        = .ok s' := by
  unfold deleteSession at hr
  have hfuel : fuelFor s = (2 * s.sessions.length + 1) + 1 := rfl
  rw [hfuel, deleteSessionF, hf] at hr
  exact ⟨_, hr⟩

theorem heldBy_congr {a b : String} (h : lc a = lc b) : heldBy a = heldBy b := by
  funext e; simp [heldBy, h]

theorem apply_destroy_ok {s : State} {idx : Nat} {id : String}
    (hok : (apply s idx (.sessionDestroy id)).2 = .ok) :
    deleteSession s idx id = .ok (apply s idx (.sessionDestroy id)).1 := by
  simp only [apply] at hok ⊢
  cases hd : deleteSession s idx id with
  | ok s' => simp [liftS]
  | error e => simp [hd, liftS] at hok

theorem destroy_delete_rows {s : State} {idx : Nat} {id : String} {sess : Sess}
    (hf : sessFind s id = some sess) (hb : sess.behavior = .delete)
    (hok : (apply s idx (.sessionDestroy id)).2 = .ok) :
    KvRelNot idx id s (apply s idx (.sessionDestroy id)).1 := by
  obtain ⟨n, hfold⟩ := deleteSession_unfold hf (apply_destroy_ok hok)
  have hid : lc sess.id = lc id := (tfind_some hf).2
  have hP := kvRelNot_closed idx id s
  refine foldE_ind _ _ (fun st c st' hst hc => (kc_cascade hP n).2 st _ _ st' hc hst) _ _ _ ?_ hfold
  intro e' he'
  rw [(dropSessionRefs_rest _ idx id).1] at he'
  obtain ⟨e, he, hfrom, hnh⟩ := mem_invalidateKeys_from he'
  exact ⟨e, he, by rw [← heldBy_congr hid]; exact hnh hb, hfrom⟩

theorem destroy_release_rows {s : State} {idx : Nat} {id : String} {sess : Sess}
    (hf : sessFind s id = some sess) (hb : sess.behavior = .release)
    (hok : (apply s idx (.sessionDestroy id)).2 = .ok)
    (e : KV) (he : e ∈ s.kvs) (hh : heldBy id e = true) :
    { e with session := "", modify := idx } ∈ (apply s idx (.sessionDestroy id)).1.kvs := by
  obtain ⟨n, hfold⟩ := deleteSession_unfold hf (apply_destroy_ok hok)
  have hid : lc sess.id = lc id := (tfind_some hf).2
  have hh' : heldBy sess.id e = true := by rw [heldBy_congr hid]; exact hh
  have hP := survive_closed idx { e with session := "", modify := idx } rfl
  refine foldE_ind _ _ (fun st c st' hst hc => (kc_cascade hP n).2 st _ _ st' hc hst) _ _ _ ?_ hfold
  show _ ∈ (dropSessionRefs _ idx id).kvs
  rw [(dropSessionRefs_rest _ idx id).1]
  unfold invalidateKeys
  simp only
  have hne : (List.filter (heldBy sess.id) s.kvs).isEmpty = false := by
    rw [Bool.eq_false_iff]
    intro hc
    rw [List.isEmpty_iff] at hc
    have : e ∈ List.filter (heldBy sess.id) s.kvs := List.mem_filter.mpr ⟨he, hh'⟩
    rw [hc] at this; simp at this
  simp only [hne, Bool.false_eq_true, if_false, hb]
  simp only [List.mem_map]
  exact ⟨e, he, by simp [hh']⟩

end CV.Store
