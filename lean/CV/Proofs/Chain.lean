/-
Helper lemmas for C15 (CV.Chain): association lists, `removeUnusedNodes` (reach), the cycle detector.
-/
import CV.Chain
set_option linter.unusedVariables false
set_option linter.unusedSimpArgs false
namespace CV.Chain

/-! ### association lists -/

theorem alook_filter_key {α : Type} (p : String → Bool) (k : String) (l : List (String × α)) (hk : p k = true) :
    alook k (l.filter fun kv => p kv.1) = alook k l := by
  induction l with
  | nil => rfl
  | cons x xs ih =>
    obtain ⟨a, v⟩ := x
    by_cases hpa : p a = true
    · simp only [List.filter_cons, hpa, if_true, alook]
      split <;> simp_all
    · have hne : a ≠ k := fun h => hpa (h ▸ hk)
      simp only [List.filter_cons, hpa, alook, hne, if_false]
      simpa using ih

theorem akeys_filter_key {α : Type} (p : String → Bool) (l : List (String × α)) (k : String)
    (h : k ∈ akeys (l.filter fun kv => p kv.1)) : p k = true ∧ k ∈ akeys l := by
  simp only [akeys, List.mem_map, List.mem_filter] at h ⊢
  obtain ⟨x, ⟨hx, hp⟩, rfl⟩ := h
  exact ⟨hp, x, hx, rfl⟩

theorem alook_some_of_mem_keys {α : Type} {k : String} {l : List (String × α)} (h : k ∈ akeys l) :
    ∃ v, alook k l = some v := by
  induction l with
  | nil => simp [akeys] at h
  | cons x xs ih =>
    obtain ⟨a, v⟩ := x
    by_cases ha : a = k
    · exact ⟨v, by simp [alook, ha]⟩
    · have : k ∈ akeys xs := by
        simp only [akeys, List.map_cons, List.mem_cons] at h
        rcases h with h | h
        · exact absurd h.symm ha
        · exact h
      obtain ⟨w, hw⟩ := ih this
      exact ⟨w, by simp [alook, ha, hw]⟩

/-! ### graph vocabulary -/

/-- `b` is a `NextNode` of the node stored under `a` -/
def Edge (nodes : List (String × Node)) (a b : String) : Prop := ∃ n, alook a nodes = some n ∧ b ∈ n.next

inductive Reach (nodes : List (String × Node)) : String → String → Prop
  | refl (a : String) : Reach nodes a a
  | step {a b c : String} : Reach nodes a b → Edge nodes b c → Reach nodes a c

/-! ### `reach` (removeUnusedNodes) -/

theorem reach_spec (nodes : List (String × Node)) (todo visited vis : List String)
    (h : reach nodes todo visited = .ok vis) :
    (∀ k ∈ visited, k ∈ vis) ∧ (∀ k ∈ todo, k ∈ vis) ∧
    (∀ k ∈ vis, k ∈ visited ∨ ∃ n, alook k nodes = some n ∧ ∀ m ∈ n.next, m ∈ vis) := by
  fun_induction reach nodes todo visited generalizing vis with
  | case1 visited =>
    cases h
    exact ⟨fun k hk => hk, fun k hk => (nomatch hk), fun k hk => Or.inl hk⟩
  | case2 visited k rest hv ih =>
    obtain ⟨h1, h2, h3⟩ := ih vis h
    refine ⟨h1, ?_, h3⟩
    intro x hx
    rcases List.mem_cons.mp hx with rfl | hx
    · exact h1 _ hv
    · exact h2 _ hx
  | case3 visited k rest hv hn => cases h
  | case4 visited k rest hv n hn ih =>
    obtain ⟨h1, h2, h3⟩ := ih vis h
    refine ⟨fun x hx => h1 x (List.mem_cons_of_mem _ hx), ?_, ?_⟩
    · intro x hx
      rcases List.mem_cons.mp hx with rfl | hx
      · exact h1 _ List.mem_cons_self
      · exact h2 _ (List.mem_append_right _ hx)
    · intro x hx
      rcases h3 x hx with hx' | hx'
      · rcases List.mem_cons.mp hx' with rfl | hx'
        · exact Or.inr ⟨n, hn, fun m hm => h2 m (List.mem_append_left _ hm)⟩
        · exact Or.inl hx'
      · exact Or.inr hx'

theorem reach_pres (P : String → Prop) (nodes : List (String × Node)) (todo visited vis : List String)
    (hP : ∀ k n, P k → alook k nodes = some n → ∀ m ∈ n.next, P m)
    (hv : ∀ k ∈ visited, P k) (ht : ∀ k ∈ todo, P k)
    (h : reach nodes todo visited = .ok vis) : ∀ k ∈ vis, P k := by
  fun_induction reach nodes todo visited generalizing vis with
  | case1 visited => cases h; exact hv
  | case2 visited k rest hvis ih => exact ih vis hv (fun x hx => ht x (List.mem_cons_of_mem _ hx)) h
  | case3 visited k rest hvis hn => cases h
  | case4 visited k rest hvis n hn ih =>
    apply ih vis _ _ h
    · intro x hx
      rcases List.mem_cons.mp hx with rfl | hx
      · exact ht _ List.mem_cons_self
      · exact hv _ hx
    · intro x hx
      rcases List.mem_append.mp hx with hx | hx
      · exact hP k n (ht _ List.mem_cons_self) hn x hx
      · exact ht x (List.mem_cons_of_mem _ hx)

/-! ### the cycle detector: a successful run yields a rank that decreases along every edge -/

theorem dfsNode_ok_iff (nodes : List (String × Node)) (path : List String) (k : String) :
    dfsNode nodes path k = .ok () ↔
      k ∉ path ∧ ∃ n, alook k nodes = some n ∧ dfsList nodes (k :: path) n.next.reverse = .ok () := by
  rw [dfsNode]
  split
  · rename_i h; simp [h]
  · rename_i h
    split
    · rename_i hn; simp [hn]
    · rename_i n hn; simp [h, hn]

theorem dfsList_ok_iff (nodes : List (String × Node)) (path ks : List String) :
    dfsList nodes path ks = .ok () ↔ ∀ c ∈ ks, dfsNode nodes path c = .ok () := by
  induction ks with
  | nil => rw [dfsList]; simp
  | cons c cs ih =>
    rw [dfsList]
    split
    · rename_i e he; simp [he]
    · rename_i u he
      cases u
      simp [he, ih]

/-- fewer forbidden nodes never turn a clean run into a failing one -/
theorem dfs_mono (nodes : List (String × Node)) :
    (∀ (p' : List String) (k : String), ∀ p : List String, (∀ x ∈ p', x ∈ p) →
        dfsNode nodes p k = .ok () → dfsNode nodes p' k = .ok ()) ∧
    (∀ (p' ks : List String), ∀ p : List String, (∀ x ∈ p', x ∈ p) →
        dfsList nodes p ks = .ok () → dfsList nodes p' ks = .ok ()) := by
  apply dfsNode.mutual_induct nodes
    (motive1 := fun p' k => ∀ p : List String, (∀ x ∈ p', x ∈ p) → dfsNode nodes p k = .ok () → dfsNode nodes p' k = .ok ())
    (motive2 := fun p' ks => ∀ p : List String, (∀ x ∈ p', x ∈ p) → dfsList nodes p ks = .ok () → dfsList nodes p' ks = .ok ())
  · intro p' k hk p hsub h
    exact absurd (hsub k hk) ((dfsNode_ok_iff nodes p k).mp h).1
  · intro p' k hk hn p hsub h
    obtain ⟨_, n, hn', _⟩ := (dfsNode_ok_iff nodes p k).mp h
    rw [hn] at hn'; cases hn'
  · intro p' k hk n hn ih p hsub h
    obtain ⟨hkp, n', hn', hl⟩ := (dfsNode_ok_iff nodes p k).mp h
    rw [hn] at hn'; cases hn'
    refine (dfsNode_ok_iff nodes p' k).mpr ⟨hk, n, hn, ih (k :: p) ?_ hl⟩
    intro x hx
    rcases List.mem_cons.mp hx with rfl | hx
    · exact List.mem_cons_self
    · exact List.mem_cons_of_mem _ (hsub x hx)
  · intro p' p hsub h
    rw [dfsList]
  · intro p' c cs e he ih1 p hsub h
    have := (dfsList_ok_iff nodes p (c :: cs)).mp h c List.mem_cons_self
    rw [ih1 p hsub this] at he; cases he
  · intro p' c cs a he ih1 ih2 p hsub h
    have hall := (dfsList_ok_iff nodes p (c :: cs)).mp h
    refine (dfsList_ok_iff nodes p' (c :: cs)).mpr ?_
    intro x hx
    rcases List.mem_cons.mp hx with rfl | hx
    · exact ih1 p hsub (hall _ List.mem_cons_self)
    · have : dfsList nodes p cs = .ok () := (dfsList_ok_iff nodes p cs).mpr fun y hy => hall y (List.mem_cons_of_mem _ hy)
      exact (dfsList_ok_iff nodes p' cs).mp (ih2 p hsub this) x hx

mutual
/-- longest walk from `k` that avoids `path` (same recursion as the detector) -/
def height (nodes : List (String × Node)) (path : List String) (k : String) : Nat :=
  if hp : k ∈ path then 0
  else
    match hn : alook k nodes with
    | none => 0
    | some n => 1 + heightL nodes (k :: path) n.next.reverse
termination_by (unseen (akeys nodes) path, 0)
decreasing_by
  exact Prod.Lex.left _ _ (unseen_lt (alook_key_mem hn) hp)

def heightL (nodes : List (String × Node)) (path : List String) (ks : List String) : Nat :=
  match ks with
  | [] => 0
  | c :: cs => max (height nodes path c) (heightL nodes path cs)
termination_by (unseen (akeys nodes) path, ks.length + 1)
decreasing_by
  · exact Prod.Lex.right _ (by simp)
  · exact Prod.Lex.right _ (by simp)
end

theorem height_unfold (nodes : List (String × Node)) (path : List String) (k : String) (n : Node)
    (hk : k ∉ path) (hn : alook k nodes = some n) :
    height nodes path k = 1 + heightL nodes (k :: path) n.next.reverse := by
  rw [height]
  simp only [hk, dite_false]
  split
  · rename_i h; rw [hn] at h; cases h
  · rename_i n' h
    rw [hn] at h; cases h; rfl

theorem heightL_ge (nodes : List (String × Node)) (path ks : List String) (c : String) (hc : c ∈ ks) :
    height nodes path c ≤ heightL nodes path ks := by
  induction ks with
  | nil => cases hc
  | cons x xs ih =>
    rw [heightL]
    rcases List.mem_cons.mp hc with rfl | h
    · exact Nat.le_max_left _ _
    · exact Nat.le_trans (ih h) (Nat.le_max_right _ _)

/-- on clean runs the height does not depend on the forbidden set -/
theorem height_indep (nodes : List (String × Node)) :
    (∀ (p1 : List String) (k : String), ∀ p2 : List String,
        dfsNode nodes p1 k = .ok () → dfsNode nodes p2 k = .ok () → height nodes p1 k = height nodes p2 k) ∧
    (∀ (p1 ks : List String), ∀ p2 : List String,
        dfsList nodes p1 ks = .ok () → dfsList nodes p2 ks = .ok () → heightL nodes p1 ks = heightL nodes p2 ks) := by
  apply dfsNode.mutual_induct nodes
    (motive1 := fun p1 k => ∀ p2 : List String,
        dfsNode nodes p1 k = .ok () → dfsNode nodes p2 k = .ok () → height nodes p1 k = height nodes p2 k)
    (motive2 := fun p1 ks => ∀ p2 : List String,
        dfsList nodes p1 ks = .ok () → dfsList nodes p2 ks = .ok () → heightL nodes p1 ks = heightL nodes p2 ks)
  · intro p1 k hk p2 h1 _
    exact absurd hk ((dfsNode_ok_iff nodes p1 k).mp h1).1
  · intro p1 k hk hn p2 h1 _
    obtain ⟨_, n, hn', _⟩ := (dfsNode_ok_iff nodes p1 k).mp h1
    rw [hn] at hn'; cases hn'
  · intro p1 k hk n hn ih p2 h1 h2
    obtain ⟨_, n1, hn1, hl1⟩ := (dfsNode_ok_iff nodes p1 k).mp h1
    obtain ⟨hk2, n2, hn2, hl2⟩ := (dfsNode_ok_iff nodes p2 k).mp h2
    rw [hn] at hn1 hn2; cases hn1; cases hn2
    rw [height_unfold nodes p1 k n hk hn, height_unfold nodes p2 k n hk2 hn, ih (k :: p2) hl1 hl2]
  · intro p1 p2 _ _
    simp only [heightL]
  · intro p1 c cs e he ih1 p2 h1 _
    have := (dfsList_ok_iff nodes p1 (c :: cs)).mp h1 c List.mem_cons_self
    rw [this] at he; cases he
  · intro p1 c cs a he ih1 ih2 p2 h1 h2
    have hall1 := (dfsList_ok_iff nodes p1 (c :: cs)).mp h1
    have hall2 := (dfsList_ok_iff nodes p2 (c :: cs)).mp h2
    rw [heightL, heightL]
    rw [ih1 p2 (hall1 _ List.mem_cons_self) (hall2 _ List.mem_cons_self)]
    rw [ih2 p2 ((dfsList_ok_iff nodes p1 cs).mpr fun y hy => hall1 y (List.mem_cons_of_mem _ hy))
      ((dfsList_ok_iff nodes p2 cs).mpr fun y hy => hall2 y (List.mem_cons_of_mem _ hy))]

/-- `Good nodes k`: the detector finds nothing below `k` -/
def Good (nodes : List (String × Node)) (k : String) : Prop := dfsNode nodes [] k = .ok ()

/-- the rank extracted from a clean detector run -/
def rankOf (nodes : List (String × Node)) (k : String) : Nat := height nodes [] k

theorem good_edge (nodes : List (String × Node)) (k : String) (n : Node) (hg : Good nodes k)
    (hn : alook k nodes = some n) (m : String) (hm : m ∈ n.next) :
    Good nodes m ∧ rankOf nodes m < rankOf nodes k := by
  obtain ⟨hk, n', hn', hl⟩ := (dfsNode_ok_iff nodes [] k).mp hg
  rw [hn] at hn'; cases hn'
  have hm' : m ∈ n.next.reverse := List.mem_reverse.mpr hm
  have g1 : dfsNode nodes [k] m = .ok () := (dfsList_ok_iff nodes [k] _).mp hl m hm'
  have g0 : dfsNode nodes [] m = .ok () := (dfs_mono nodes).1 [] m [k] (fun x hx => nomatch hx) g1
  refine ⟨g0, ?_⟩
  unfold rankOf
  have e : height nodes [k] m = height nodes [] m := (height_indep nodes).1 [k] m [] g1 g0
  have hge := heightL_ge nodes [k] n.next.reverse m hm'
  rw [height_unfold nodes [] k n hk hn]
  omega

/-! ### flatten: invariants of the node table that every absorption preserves -/

theorem alook_aset {α : Type} (k k' : String) (v w : α) (l : List (String × α)) (h : alook k l = some w) :
    alook k' (aset k v l) = if k' = k then some v else alook k' l := by
  induction l with
  | nil => simp [alook] at h
  | cons x xs ih =>
    obtain ⟨a, u⟩ := x
    by_cases ha : a = k
    · subst ha
      simp only [aset, if_true, alook]
      by_cases hk : k' = a
      · subst hk; simp
      · have : ¬ a = k' := fun e => hk e.symm
        simp [hk, this]
    · have hx : alook k xs = some w := by simpa [alook, ha] using h
      simp only [aset, ha, if_false, alook]
      rw [ih hx]
      by_cases hk : k' = k
      · have : ¬ a = k' := fun e => ha (e.trans hk)
        simp [hk, this]
        intro e; exact absurd e ha
      · simp only [hk, if_false]

theorem akeys_aset {α : Type} (k : String) (v w : α) (l : List (String × α)) (h : alook k l = some w) :
    akeys (aset k v l) = akeys l := by
  induction l with
  | nil => simp [alook] at h
  | cons x xs ih =>
    obtain ⟨a, u⟩ := x
    by_cases ha : a = k
    · subst ha; simp [aset, akeys]
    · have hx : alook k xs = some w := by simpa [alook, ha] using h
      have := ih hx
      simp only [akeys] at this
      simp [aset, ha, akeys, this]

/-- what `absorb` can produce: kept splits, or inner splits of a splitter child -/
theorem absorb_spec (nodes : List (String × Node)) (ss ss' : List CSplit) (ch : Bool)
    (h : absorb nodes ss = some (ss', ch)) :
    ∀ s' ∈ ss', s' ∈ ss ∨ ∃ s ∈ ss, ∃ inner lb, ∃ i ∈ inner,
      alook s.next nodes = some (.splitter inner lb) ∧ s'.next = i.next := by
  induction ss generalizing ss' ch with
  | nil =>
    simp only [absorb, Option.some.injEq, Prod.mk.injEq] at h
    intro s' hs'; rw [← h.1] at hs'; cases hs'
  | cons s rest ih =>
    rw [absorb] at h
    split at h
    · cases h
    · rename_i rest' ch' hr
      have ih' := ih rest' ch' hr
      split at h
      · cases h
      · rename_i inner lb hn
        cases h
        intro s' hs'
        rcases List.mem_append.mp hs' with hs' | hs'
        · obtain ⟨i, hi, rfl⟩ := List.mem_map.mp hs'
          exact Or.inr ⟨s, List.mem_cons_self, inner, lb, i, hi, hn, rfl⟩
        · rcases ih' s' hs' with h1 | ⟨s0, hs0, rest0⟩
          · exact Or.inl (List.mem_cons_of_mem _ h1)
          · exact Or.inr ⟨s0, List.mem_cons_of_mem _ hs0, rest0⟩
      · cases h
        intro s' hs'
        rcases List.mem_cons.mp hs' with rfl | hs'
        · exact Or.inl List.mem_cons_self
        · rcases ih' s' hs' with h1 | ⟨s0, hs0, rest0⟩
          · exact Or.inl (List.mem_cons_of_mem _ h1)
          · exact Or.inr ⟨s0, List.mem_cons_of_mem _ hs0, rest0⟩

/-- every splitter node has at least one split -/
def NE (nodes : List (String × Node)) : Prop := ∀ k ss lb, alook k nodes = some (.splitter ss lb) → ss ≠ []

theorem absorb_nonempty (nodes : List (String × Node)) (ss ss' : List CSplit) (ch : Bool) (hne : NE nodes)
    (h : absorb nodes ss = some (ss', ch)) (hss : ss ≠ []) : ss' ≠ [] := by
  cases ss with
  | nil => exact absurd rfl hss
  | cons s rest =>
    rw [absorb] at h
    split at h
    · cases h
    · split at h
      · cases h
      · rename_i inner lb hn
        cases h
        have := hne _ _ _ hn
        cases inner with
        | nil => exact absurd rfl this
        | cons i is => simp
      · cases h; simp

/-- an invariant of node tables that survives replacing one splitter's splits by `absorb`'s output
    survives a whole pass and the whole loop -/
theorem flattenRound_pres (I : List (String × Node) → Prop)
    (hstep : ∀ nodes k ss lb ss' ch, I nodes → alook k nodes = some (.splitter ss lb) →
      absorb nodes ss = some (ss', ch) → I (aset k (.splitter ss' lb) nodes))
    (nodes : List (String × Node)) (order : List String) (n' : List (String × Node)) (c : Bool)
    (hI : I nodes) (h : flattenRound nodes order = some (n', c)) : I n' := by
  fun_induction flattenRound nodes order generalizing n' c with
  | case1 nodes => cases h; exact hI
  | case2 nodes k ks hn => cases h
  | case3 nodes k ks ss lb hn ha => cases h
  | case4 nodes k ks ss lb hn ss' ch ha hr ih => cases h
  | case5 nodes k ks ss lb hn ss' ch ha n'' ch' hr ih =>
    cases h
    apply ih _ _ _ hr
    split
    · exact hstep nodes k ss lb ss' ch hI hn ha
    · exact hI
  | case6 nodes k ks n hn hns ih => exact ih _ _ hI h

theorem flattenLoop_pres (I : List (String × Node) → Prop)
    (hstep : ∀ nodes k ss lb ss' ch, I nodes → alook k nodes = some (.splitter ss lb) →
      absorb nodes ss = some (ss', ch) → I (aset k (.splitter ss' lb) nodes))
    (fuel : Nat) (order : List String) (nodes n' : List (String × Node))
    (hI : I nodes) (h : flattenLoop fuel order nodes = some n') : I n' := by
  induction fuel generalizing nodes with
  | zero => simp [flattenLoop] at h
  | succ f ih =>
    rw [flattenLoop] at h
    split at h
    · cases h
    · rename_i n1 ch hr
      have h1 := flattenRound_pres I hstep nodes order n1 ch hI hr
      split at h
      · exact ih n1 h1 h
      · cases h; exact h1

/-- the pass stops only when no splitter points at a splitter any more -/
def Flat (nodes : List (String × Node)) : Prop :=
  ∀ k ss lb, alook k nodes = some (.splitter ss lb) → ∀ s ∈ ss, ∀ n, alook s.next nodes = some n → n.isSplitter = false

/-- relation between the table before flattening (`n0`) and a table reached by absorptions -/
structure FlatInv (n0 nodes : List (String × Node)) : Prop where
  keys : akeys nodes = akeys n0
  same : ∀ k n, alook k nodes = some n → n.isSplitter = false → alook k n0 = some n
  back : ∀ k ss lb, alook k nodes = some (.splitter ss lb) → ∃ ss0, alook k n0 = some (.splitter ss0 lb)
  rank : ∀ k n, alook k nodes = some n → Good n0 k → ∀ m ∈ n.next, Good n0 m ∧ rankOf n0 m < rankOf n0 k
  ne   : NE n0 → NE nodes

theorem flatInv_refl (n0 : List (String × Node)) : FlatInv n0 n0 :=
  ⟨rfl, fun k n h _ => h, fun k ss lb h => ⟨ss, h⟩, fun k n h hg m hm => good_edge n0 k n hg h m hm, fun h => h⟩

theorem flatInv_step (n0 : List (String × Node)) :
    ∀ nodes k ss lb ss' ch, FlatInv n0 nodes → alook k nodes = some (.splitter ss lb) →
      absorb nodes ss = some (ss', ch) → FlatInv n0 (aset k (.splitter ss' lb) nodes) := by
  intro nodes k ss lb ss' ch hI hk ha
  have hlook := fun k' => alook_aset k k' (Node.splitter ss' lb) (Node.splitter ss lb) nodes hk
  refine ⟨?_, ?_, ?_, ?_, ?_⟩
  · rw [akeys_aset k _ _ nodes hk]; exact hI.keys
  · intro k' n h hns
    rw [hlook k'] at h
    split at h
    · cases h; simp [Node.isSplitter] at hns
    · exact hI.same k' n h hns
  · intro k' ss1 lb1 h
    rw [hlook k'] at h
    split at h
    · rename_i e; cases h; subst e; exact hI.back _ _ _ hk
    · exact hI.back k' ss1 lb1 h
  · intro k' n h hg m hm
    rw [hlook k'] at h
    split at h
    · rename_i e
      cases h; subst e
      simp only [Node.next, List.mem_map] at hm
      obtain ⟨s', hs', rfl⟩ := hm
      have hold := hI.rank k' _ hk hg
      rcases absorb_spec nodes ss ss' ch ha s' hs' with h1 | ⟨s, hs, inner, lbi, i, hi, hn, hnext⟩
      · exact hold s'.next (by simp only [Node.next, List.mem_map]; exact ⟨s', h1, rfl⟩)
      · have hb := hold s.next (by simp only [Node.next, List.mem_map]; exact ⟨s, hs, rfl⟩)
        have hc := hI.rank s.next _ hn hb.1 i.next (by simp only [Node.next, List.mem_map]; exact ⟨i, hi, rfl⟩)
        rw [hnext]
        exact ⟨hc.1, Nat.lt_trans hc.2 hb.2⟩
    · exact hI.rank k' n h hg m hm
  · intro hne0 k' ss1 lb1 h
    rw [hlook k'] at h
    split at h
    · cases h
      exact absorb_nonempty nodes ss _ ch (hI.ne hne0) ha (hI.ne hne0 _ _ _ hk)
    · exact hI.ne hne0 k' ss1 lb1 h

theorem flattenLoop_inv (fuel : Nat) (order : List String) (n0 n' : List (String × Node))
    (h : flattenLoop fuel order n0 = some n') : FlatInv n0 n' :=
  flattenLoop_pres (FlatInv n0) (flatInv_step n0) fuel order n0 n' (flatInv_refl n0) h

theorem absorb_unchanged (nodes : List (String × Node)) (ss ss' : List CSplit)
    (h : absorb nodes ss = some (ss', false)) :
    ∀ s ∈ ss, ∀ n, alook s.next nodes = some n → n.isSplitter = false := by
  induction ss generalizing ss' with
  | nil => intro s hs; cases hs
  | cons s rest ih =>
    rw [absorb] at h
    split at h
    · cases h
    · rename_i rest' ch' hr
      split at h
      · cases h
      · simp at h
      · rename_i n hns hn
        simp only [Option.some.injEq, Prod.mk.injEq] at h
        obtain ⟨_, rfl⟩ := h
        intro x hx n' hn'
        rcases List.mem_cons.mp hx with rfl | hx
        · rw [hn] at hn'; cases hn'
          cases n with
          | splitter i l => exact absurd rfl (hns i l)
          | router _ => rfl
          | resolver _ _ _ _ _ _ => rfl
        · exact ih rest' hr x hx n' hn'

theorem flattenRound_unchanged (nodes : List (String × Node)) (order : List String) (n' : List (String × Node))
    (h : flattenRound nodes order = some (n', false)) :
    n' = nodes ∧ ∀ k ∈ order, ∀ ss lb, alook k nodes = some (.splitter ss lb) →
      ∀ s ∈ ss, ∀ n, alook s.next nodes = some n → n.isSplitter = false := by
  fun_induction flattenRound nodes order generalizing n' with
  | case1 nodes => cases h; exact ⟨rfl, fun k hk => nomatch hk⟩
  | case2 nodes k ks hn => cases h
  | case3 nodes k ks ss lb hn ha => cases h
  | case4 nodes k ks ss lb hn ss' ch ha hr ih => cases h
  | case5 nodes k ks ss lb hn ss' ch ha n'' ch' hr ih =>
    simp only [Option.some.injEq, Prod.mk.injEq, Bool.or_eq_false_iff] at h
    obtain ⟨rfl, rfl, rfl⟩ := h
    simp only [Bool.false_eq_true, if_false] at hr ih
    obtain ⟨e, hall⟩ := ih _ hr
    refine ⟨e, ?_⟩
    intro k' hk' ss1 lb1 h1
    rcases List.mem_cons.mp hk' with rfl | hk'
    · rw [hn] at h1; cases h1
      exact absorb_unchanged nodes _ ss' ha
    · exact hall k' hk' ss1 lb1 h1
  | case6 nodes k ks n hns hn ih =>
    obtain ⟨e, hall⟩ := ih _ h
    refine ⟨e, ?_⟩
    intro k' hk' ss1 lb1 h1
    rcases List.mem_cons.mp hk' with rfl | hk'
    · rw [hn] at h1; cases h1; exact absurd rfl (hns ss1 lb1)
    · exact hall k' hk' ss1 lb1 h1

theorem flattenLoop_flat (fuel : Nat) (order : List String) (nodes n' : List (String × Node))
    (h : flattenLoop fuel order nodes = some n') :
    ∀ k ∈ order, ∀ ss lb, alook k n' = some (.splitter ss lb) →
      ∀ s ∈ ss, ∀ n, alook s.next n' = some n → n.isSplitter = false := by
  induction fuel generalizing nodes with
  | zero => simp [flattenLoop] at h
  | succ f ih =>
    rw [flattenLoop] at h
    split at h
    · cases h
    · rename_i n1 ch hr
      split at h
      · exact ih n1 h
      · rename_i hch
        cases h
        have : ch = false := by cases ch <;> simp_all
        subst this
        obtain ⟨e, hall⟩ := flattenRound_unchanged nodes order _ hr
        subst e
        exact hall

/-! ### `sort.Strings`: the visiting order of the repaired flatten depends only on the *set* of keys -/

theorem insertKey_perm (k : String) (l : List String) : (insertKey k l).Perm (k :: l) := by
  induction l with
  | nil => exact List.Perm.refl _
  | cons x xs ih =>
    simp only [insertKey]
    split
    · exact List.Perm.refl _
    · exact (List.Perm.cons x ih).trans (List.Perm.swap k x xs)

theorem sortKeys_perm_self (l : List String) : (sortKeys l).Perm l := by
  induction l with
  | nil => exact List.Perm.refl _
  | cons k ks ih => exact (insertKey_perm k _).trans (List.Perm.cons k ih)

theorem insertKey_sorted (k : String) (l : List String) (h : l.Pairwise (· ≤ ·)) :
    (insertKey k l).Pairwise (· ≤ ·) := by
  induction l with
  | nil => simp [insertKey]
  | cons x xs ih =>
    simp only [insertKey]
    have hx := List.pairwise_cons.mp h
    split
    · rename_i hlt
      refine List.pairwise_cons.mpr ⟨?_, h⟩
      intro y hy
      have hkx : k ≤ x := String.not_lt.mp (String.lt_asymm hlt)
      rcases List.mem_cons.mp hy with rfl | hy
      · exact hkx
      · exact String.le_trans hkx (hx.1 y hy)
    · rename_i hnlt
      refine List.pairwise_cons.mpr ⟨?_, ih hx.2⟩
      intro y hy
      have := (insertKey_perm k xs).subset hy
      rcases List.mem_cons.mp this with rfl | hy
      · exact String.not_lt.mp hnlt
      · exact hx.1 y hy

theorem sortKeys_sorted (l : List String) : (sortKeys l).Pairwise (· ≤ ·) := by
  induction l with
  | nil => simp [sortKeys]
  | cons k ks ih => exact insertKey_sorted k _ ih

theorem sortKeys_perm {l l' : List String} (h : l.Perm l') : sortKeys l = sortKeys l' :=
  List.Perm.eq_of_pairwise (fun a b _ _ h1 h2 => String.le_antisymm h1 h2) (sortKeys_sorted l) (sortKeys_sorted l')
    ((sortKeys_perm_self l).trans (h.trans (sortKeys_perm_self l').symm))

end CV.Chain
