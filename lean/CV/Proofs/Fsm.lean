/-
Helper lemmas about `CV.Fsm` (dispatch layer of the consul FSM, property C01).
-/
import CV.Fsm

namespace CV.Fsm
open CV

variable {E S R : Type}

theorem mem_of_lookup {α : Type} (l : List (Nat × α)) (k : Nat) (v : α)
    (h : l.lookup k = some v) : (k, v) ∈ l := by
  induction l with
  | nil => simp [List.lookup] at h
  | cons x xs ih =>
    obtain ⟨a, b⟩ := x
    by_cases hk : k = a
    · subst hk
      simp [List.lookup] at h
      subst h
      simp
    · have : (k == a) = false := by simpa using hk
      simp [List.lookup, this] at h
      exact List.mem_cons_of_mem _ (ih h)

/-- `dispatch` as an explicit case split on the lookup (used by most proofs). -/
theorem dispatch_cons (tbl : Table E S R) (ced : Bool) (env : E) (s : S) (idx b0 : Nat) (p : Bytes) :
    dispatch tbl ced env s idx (b0 :: p) =
      match tbl.lookup (splitType b0).1 with
      | some h =>
        match h env s idx p with
        | some (s', r) => (s', .handled (splitType b0).1 r)
        | none => (s, .panicHandler (splitType b0).1)
      | none =>
        if (splitType b0).2 then (s, .ignored)
        else if ced && decide (entFloor ≤ (splitType b0).1) then (s, .ignored)
        else (s, .panicUnknown) := by
  rfl

theorem dispatch_env_irrelevant (tbl : Table E S R) (hI : EnvIndependent tbl) (ced : Bool) (e₁ e₂ : E)
    (s : S) (idx : Nat) (buf : Bytes) :
    dispatch tbl ced e₁ s idx buf = dispatch tbl ced e₂ s idx buf := by
  cases buf with
  | nil => rfl
  | cons b0 p =>
    rw [dispatch_cons, dispatch_cons]
    cases hl : tbl.lookup (splitType b0).1 with
    | none => rfl
    | some h =>
      have hm := mem_of_lookup tbl _ _ hl
      have := hI _ hm e₁ e₂ s idx p
      simp only at this
      simp only [this]

theorem runFrom_env_irrelevant (tbl : Table E S R) (hI : EnvIndependent tbl) (ced : Bool)
    (envs₁ envs₂ : Nat → E) (log : List (Nat × Bytes)) :
    ∀ (pos₁ pos₂ : Nat) (s : S), runFrom tbl ced envs₁ pos₁ s log = runFrom tbl ced envs₂ pos₂ s log := by
  induction log with
  | nil => intro _ _ _; rfl
  | cons x rest ih =>
    intro pos₁ pos₂ s
    obtain ⟨idx, buf⟩ := x
    simp only [runFrom]
    rw [dispatch_env_irrelevant tbl hI ced (envs₁ pos₁) (envs₂ pos₂) s idx buf]
    rw [ih (pos₁ + 1) (pos₂ + 1)]

/-- outcome and invariant of one dispatch under the relative hypothesis -/
theorem dispatch_env_irrelevant_on (Inv : S → Prop) (tbl : Table E S R) (hI : EnvIndependentOn Inv tbl)
    (ced : Bool) (e₁ e₂ : E) (s : S) (idx : Nat) (buf : Bytes) (hs : Inv s) :
    dispatch tbl ced e₁ s idx buf = dispatch tbl ced e₂ s idx buf := by
  cases buf with
  | nil => rfl
  | cons b0 p =>
    rw [dispatch_cons, dispatch_cons]
    cases hl : tbl.lookup (splitType b0).1 with
    | none => rfl
    | some h =>
      have hm := mem_of_lookup tbl _ _ hl
      have := hI.indep _ hm e₁ e₂ s idx p hs
      simp only at this
      simp only [this]

theorem dispatch_preserves (Inv : S → Prop) (tbl : Table E S R) (hI : EnvIndependentOn Inv tbl)
    (ced : Bool) (e : E) (s : S) (idx : Nat) (buf : Bytes) (hs : Inv s) :
    Inv (dispatch tbl ced e s idx buf).1 := by
  cases buf with
  | nil => exact hs
  | cons b0 p =>
    rw [dispatch_cons]
    cases hl : tbl.lookup (splitType b0).1 with
    | none =>
      simp only
      split
      · exact hs
      · split <;> exact hs
    | some h =>
      have hm := mem_of_lookup tbl _ _ hl
      simp only
      cases hh : h e s idx p with
      | none => exact hs
      | some sr =>
        obtain ⟨s', r⟩ := sr
        exact hI.preserved _ hm e s s' r idx p hs hh

theorem runFrom_env_irrelevant_on (Inv : S → Prop) (tbl : Table E S R) (hI : EnvIndependentOn Inv tbl)
    (ced : Bool) (envs₁ envs₂ : Nat → E) (log : List (Nat × Bytes)) :
    ∀ (pos₁ pos₂ : Nat) (s : S), Inv s →
      runFrom tbl ced envs₁ pos₁ s log = runFrom tbl ced envs₂ pos₂ s log := by
  induction log with
  | nil => intro _ _ _ _; rfl
  | cons x rest ih =>
    intro pos₁ pos₂ s hs
    obtain ⟨idx, buf⟩ := x
    simp only [runFrom]
    rw [dispatch_env_irrelevant_on Inv tbl hI ced (envs₁ pos₁) (envs₂ pos₂) s idx buf hs]
    have hs' := dispatch_preserves Inv tbl hI ced (envs₂ pos₂) s idx buf hs
    rw [ih (pos₁ + 1) (pos₂ + 1) _ hs']

theorem runFrom_state_inv (Inv : S → Prop) (tbl : Table E S R) (hI : EnvIndependentOn Inv tbl)
    (ced : Bool) (envs : Nat → E) (log : List (Nat × Bytes)) :
    ∀ (pos : Nat) (s : S), Inv s → Inv (runFrom tbl ced envs pos s log).state := by
  induction log with
  | nil => intro _ s hs; exact hs
  | cons x rest ih =>
    intro pos s hs
    obtain ⟨idx, buf⟩ := x
    have hs' := dispatch_preserves Inv tbl hI ced (envs pos) s idx buf hs
    simp only [runFrom]
    split
    · exact hs'
    · exact ih (pos + 1) _ hs'

/-- results never outnumber the log; they are as many as the log iff the server survived -/
theorem runFrom_results_length (tbl : Table E S R) (ced : Bool) (envs : Nat → E)
    (log : List (Nat × Bytes)) :
    ∀ (pos : Nat) (s : S), (runFrom tbl ced envs pos s log).results.length ≤ log.length ∧
      ((runFrom tbl ced envs pos s log).crashed = false →
        (runFrom tbl ced envs pos s log).results.length = log.length) := by
  induction log with
  | nil => intro _ _; simp [runFrom]
  | cons x rest ih =>
    intro pos s
    obtain ⟨idx, buf⟩ := x
    simp only [runFrom]
    split
    · simp
    · have := ih (pos + 1) (dispatch tbl ced (envs pos) s idx buf).1
      simp only [List.length_cons]
      exact ⟨by omega, fun hc => by have := this.2 hc; omega⟩

/-- a surviving replica has no panic among its outcomes; a dead one has exactly one, the last -/
theorem runFrom_panics (tbl : Table E S R) (ced : Bool) (envs : Nat → E) (log : List (Nat × Bytes)) :
    ∀ (pos : Nat) (s : S),
      ((runFrom tbl ced envs pos s log).crashed = false →
          ∀ o ∈ (runFrom tbl ced envs pos s log).results, o.isPanic = false) ∧
      ((runFrom tbl ced envs pos s log).crashed = true →
          ∃ pre last, (runFrom tbl ced envs pos s log).results = pre ++ [last] ∧ last.isPanic = true ∧
            ∀ o ∈ pre, o.isPanic = false) := by
  induction log with
  | nil => intro _ _; simp [runFrom]
  | cons x rest ih =>
    intro pos s
    obtain ⟨idx, buf⟩ := x
    simp only [runFrom]
    cases hp : (dispatch tbl ced (envs pos) s idx buf).2.isPanic with
    | true =>
      simp only [if_true]
      refine ⟨by simp, fun _ => ⟨[], _, by simp, hp, by simp⟩⟩
    | false =>
      simp only [Bool.false_eq_true, if_false]
      have ih' := ih (pos + 1) (dispatch tbl ced (envs pos) s idx buf).1
      refine ⟨?_, ?_⟩
      · intro hc o ho
        rcases List.mem_cons.mp ho with h | h
        · subst h; exact hp
        · exact ih'.1 hc o h
      · intro hc
        obtain ⟨pre, last, h1, h2, h3⟩ := ih'.2 hc
        refine ⟨(dispatch tbl ced (envs pos) s idx buf).2 :: pre, last, by simp [h1], h2, ?_⟩
        intro o ho
        rcases List.mem_cons.mp ho with h | h
        · subst h; exact hp
        · exact h3 o h

/-- replaying `l₁ ++ l₂` = replaying `l₁`, then (if still alive) `l₂` from where `l₁` ended -/
theorem runFrom_append (tbl : Table E S R) (ced : Bool) (envs : Nat → E) (l₁ l₂ : List (Nat × Bytes)) :
    ∀ (pos : Nat) (s : S),
      runFrom tbl ced envs pos s (l₁ ++ l₂) =
        let t₁ := runFrom tbl ced envs pos s l₁
        if t₁.crashed then t₁
        else
          let t₂ := runFrom tbl ced envs (pos + l₁.length) t₁.state l₂
          ⟨t₂.state, t₁.results ++ t₂.results, t₂.crashed⟩ := by
  induction l₁ with
  | nil => intro pos s; simp [runFrom]
  | cons x rest ih =>
    intro pos s
    obtain ⟨idx, buf⟩ := x
    simp only [List.cons_append, runFrom]
    cases hp : (dispatch tbl ced (envs pos) s idx buf).2.isPanic with
    | true => simp
    | false =>
      simp only [Bool.false_eq_true, if_false]
      rw [ih (pos + 1)]
      simp only [List.length_cons]
      have : pos + 1 + rest.length = pos + (rest.length + 1) := by omega
      rw [this]
      split <;> simp

end CV.Fsm
