/-
Helper lemmas for C11: what `publishOne` does to inboxes, cache tails and the queue.
-/
import CV.Proofs.StreamSim
namespace CV.Stream

def mkItem (k : Key) (b : Batch) : Item := ⟨b.idx, evsFor k b.evs, query k b.cat⟩

/-- the step a queued batch will become for subscribers of `k` (none: nothing routed to `k`) -/
def kItem (k : Key) (b : Batch) : Option Step :=
  if evsFor k b.evs = [] then none else some (.item (mkItem k b))

def queueItems (k : Key) (q : List Batch) : List Step := q.filterMap (kItem k)

theorem mem_dedupKeys (k : Key) (l : List Key) : k ∈ dedupKeys l ↔ k ∈ l := by
  induction l with
  | nil => simp [dedupKeys]
  | cons a r ih =>
    unfold dedupKeys
    by_cases h : a ∈ dedupKeys r
    · simp only [h, ↓reduceIte, ih, List.mem_cons]
      constructor
      · exact Or.inr
      · rintro (rfl | h')
        · exact ih.mp h
        · exact h'
    · simp [h, ih]

theorem nodup_dedupKeys (l : List Key) : (dedupKeys l).Nodup := by
  induction l with
  | nil => simp [dedupKeys]
  | cons a r ih =>
    unfold dedupKeys
    by_cases h : a ∈ dedupKeys r
    · simpa [h] using ih
    · simp [h, ih]

theorem mem_keysOf (k : Key) (evs : List Ev) : k ∈ keysOf evs ↔ evsFor k evs ≠ [] := by
  unfold keysOf evsFor
  rw [mem_dedupKeys, List.mem_flatMap, Ne, List.filter_eq_nil_iff]
  constructor
  · rintro ⟨e, he, hk⟩ hall
    apply hall e he
    simp only [List.mem_cons, Option.mem_toList] at hk
    rcases hk with rfl | hk
    · simp
    · simp [hk]
  · intro h
    have : ∃ e, e ∈ evs ∧ (decide (e.key = k ∨ wildOf e.key = some k)) = true :=
      Classical.byContradiction fun hc => h (fun a ha hp => hc ⟨a, ha, hp⟩)
    obtain ⟨e, he, hp⟩ := this
    refine ⟨e, he, ?_⟩
    simp only [decide_eq_true_eq] at hp
    simp only [List.mem_cons, Option.mem_toList]
    rcases hp with rfl | hp
    · exact Or.inl rfl
    · exact Or.inr hp

/-- `publishKey` never changes who is attached to what -/
theorem publishKey_clients (b : Batch) (y : Sys) (k : Key) :
    (publishKey b y k).clients = y.clients.map fun c =>
      if c.key = k ∧ attached c then { c with inbox := c.inbox ++ [.item (mkItem k b)] } else c := by
  unfold publishKey
  by_cases h : hasBuf y k
  · simp [h, mkItem]
  · simp only [h, Bool.false_eq_true, ↓reduceIte]
    symm
    have : ∀ c ∈ y.clients, ¬ (c.key = k ∧ attached c) := by
      intro c hc hk
      apply h
      unfold hasBuf
      rw [List.any_eq_true]
      exact ⟨c, hc, by simpa using hk⟩
    calc y.clients.map _ = y.clients.map id := by
          apply List.map_congr_left
          intro c hc
          simp [this c hc]
      _ = y.clients := by simp

theorem hasBuf_congr {y y' : Sys} (h : y'.clients.map (fun c => (c.key, c.sub)) = y.clients.map (fun c => (c.key, c.sub)))
    (k : Key) : hasBuf y' k = hasBuf y k := by
  unfold hasBuf
  have e : ∀ l : List Client, (l.any fun c => decide (c.key = k ∧ attached c)) =
      ((l.map fun c => (c.key, c.sub)).any fun p => decide (p.1 = k ∧ p.2 ≠ .none)) := by
    intro l; simp [List.any_map, attached, Function.comp_def]
  rw [e, e, h]

theorem publishKey_shape (b : Batch) (y : Sys) (k : Key) :
    (publishKey b y k).clients.map (fun c => (c.key, c.sub)) = y.clients.map (fun c => (c.key, c.sub)) := by
  rw [publishKey_clients, List.map_map]
  apply List.map_congr_left
  intro c _
  by_cases h : c.key = k ∧ attached c <;> simp [h]

theorem publishKey_cache (b : Batch) (y : Sys) (k : Key) :
    (publishKey b y k).cache = y.cache.map fun e =>
      if e.key = k ∧ hasBuf y k then { e with tail := e.tail ++ [mkItem k b] } else e := by
  unfold publishKey
  by_cases h : hasBuf y k
  · simp [h, mkItem]
  · simp [h]

theorem publishKey_queue (b : Batch) (y : Sys) (k : Key) : (publishKey b y k).queue = y.queue := by
  unfold publishKey; split <;> rfl
theorem publishKey_cat (b : Batch) (y : Sys) (k : Key) : (publishKey b y k).cat = y.cat := by
  unfold publishKey; split <;> rfl
theorem publishKey_lastIdx (b : Batch) (y : Sys) (k : Key) : (publishKey b y k).lastIdx = y.lastIdx := by
  unfold publishKey; split <;> rfl

/-- the whole fold of `publishEvent`: every attached client of a key the batch is routed to
    gets exactly one item appended; everybody else is untouched -/
theorem foldl_publishKey_clients (b : Batch) (keys : List Key) (hn : keys.Nodup) (y : Sys) :
    (keys.foldl (publishKey b) y).clients = y.clients.map fun c =>
      if c.key ∈ keys ∧ attached c then { c with inbox := c.inbox ++ [.item (mkItem c.key b)] } else c := by
  induction keys generalizing y with
  | nil => simp
  | cons k r ih =>
    rw [List.foldl_cons, ih (List.nodup_cons.mp hn).2, publishKey_clients, List.map_map]
    apply List.map_congr_left
    intro c _
    have hk : k ∉ r := (List.nodup_cons.mp hn).1
    by_cases h1 : c.key = k
    · have : c.key ∉ r := h1 ▸ hk
      by_cases h2 : attached c
      · subst h1
        simp [h2, this]
      · simp [h1, h2, hk]
    · by_cases h2 : attached c
      · by_cases h3 : c.key ∈ r <;> simp [h1, h2, h3]
      · simp [h1, h2]

theorem foldl_publishKey_shape (b : Batch) (keys : List Key) (y : Sys) :
    (keys.foldl (publishKey b) y).clients.map (fun c => (c.key, c.sub)) = y.clients.map (fun c => (c.key, c.sub)) := by
  induction keys generalizing y with
  | nil => rfl
  | cons k r ih => rw [List.foldl_cons, ih, publishKey_shape]

theorem foldl_publishKey_cache (b : Batch) (keys : List Key) (hn : keys.Nodup) (y : Sys) :
    (keys.foldl (publishKey b) y).cache = y.cache.map fun e =>
      if e.key ∈ keys ∧ hasBuf y e.key then { e with tail := e.tail ++ [mkItem e.key b] } else e := by
  induction keys generalizing y with
  | nil => simp
  | cons k r ih =>
    rw [List.foldl_cons, ih (List.nodup_cons.mp hn).2, publishKey_cache, List.map_map]
    apply List.map_congr_left
    intro e _
    have hk : k ∉ r := (List.nodup_cons.mp hn).1
    have hb : ∀ k', hasBuf (publishKey b y k) k' = hasBuf y k' := hasBuf_congr (publishKey_shape b y k)
    by_cases h1 : e.key = k
    · have : e.key ∉ r := h1 ▸ hk
      by_cases h2 : hasBuf y k
      · simp [h1, h2, hk, hb]
      · simp [h1, h2, hk, hb]
    · by_cases h3 : e.key ∈ r <;> simp [h1, h3, hb]

theorem foldl_publishKey_queue (b : Batch) (keys : List Key) (y : Sys) :
    (keys.foldl (publishKey b) y).queue = y.queue := by
  induction keys generalizing y with
  | nil => rfl
  | cons k r ih => rw [List.foldl_cons, ih, publishKey_queue]
theorem foldl_publishKey_cat (b : Batch) (keys : List Key) (y : Sys) :
    (keys.foldl (publishKey b) y).cat = y.cat := by
  induction keys generalizing y with
  | nil => rfl
  | cons k r ih => rw [List.foldl_cons, ih, publishKey_cat]
theorem foldl_publishKey_lastIdx (b : Batch) (keys : List Key) (y : Sys) :
    (keys.foldl (publishKey b) y).lastIdx = y.lastIdx := by
  induction keys generalizing y with
  | nil => rfl
  | cons k r ih => rw [List.foldl_cons, ih, publishKey_lastIdx]

/-- pending steps of a subscriber are unchanged by moving the head batch from the queue
    into its inbox -/
theorem pending_publish (k : Key) (b : Batch) (rest : List Batch) (inbox : List Step) :
    (if k ∈ keysOf b.evs then inbox ++ [Step.item (mkItem k b)] else inbox) ++ queueItems k rest
      = inbox ++ queueItems k (b :: rest) := by
  unfold queueItems
  rw [List.filterMap_cons]
  by_cases h : k ∈ keysOf b.evs
  · have h' := (mem_keysOf k b.evs).mp h
    simp [h, kItem, h']
  · have h' : evsFor k b.evs = [] :=
      Classical.byContradiction fun hc => h ((mem_keysOf k b.evs).mpr hc)
    simp [h, kItem, h']

end CV.Stream
