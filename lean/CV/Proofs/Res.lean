/-
Helper lemmas for C18: the rows table (`lookup` / `upsert` / `remove`), single CAS steps, and runs of
the sequential specification.
-/
import CV.Res
import CV.ResLin
import Std.Data.String.ToNat
namespace CV.Res
open Lin

theorem lookup_some {k : Bytes} {rows : Rows} {r : Res} (h : lookup k rows = some r) :
    r ∈ rows ∧ idKey r.id = k := by
  induction rows with
  | nil => simp [lookup] at h
  | cons x xs ih =>
    simp only [lookup] at h
    split at h
    · simp_all
    · have := ih h; simp_all

theorem lookup_upsert (r : Res) (rows : Rows) (k : Bytes) :
    lookup k (upsert r rows) = if idKey r.id = k then some r else lookup k rows := by
  induction rows with
  | nil => simp [upsert, lookup]
  | cons x xs ih =>
    simp only [upsert]
    split
    · simp only [lookup]; grind
    · split
      · simp only [lookup]; try grind
      · simp only [lookup, ih]; try grind

theorem lookup_remove (k k' : Bytes) (rows : Rows) :
    lookup k' (remove k rows) = if k' = k then none else lookup k' rows := by
  induction rows with
  | nil => simp [remove, lookup]
  | cons x xs ih =>
    simp only [remove] at ih ⊢
    simp only [List.filter_cons]
    split
    · simp only [lookup, ih]; grind
    · simp only [lookup, ih]; grind

theorem mem_upsert {x r : Res} {rows : Rows} (h : x ∈ upsert r rows) : x = r ∨ x ∈ rows := by
  induction rows with
  | nil => simp_all [upsert]
  | cons y ys ih =>
    simp only [upsert] at h
    split at h
    · simp_all; grind
    · split at h
      · simp_all
      · simp only [List.mem_cons] at h ⊢; grind

theorem mem_remove {x : Res} {k : Bytes} {rows : Rows} (h : x ∈ remove k rows) : x ∈ rows := by
  simp only [remove, List.mem_filter] at h; exact h.1

/-! ### runs of the sequential specification -/

/-- the sequence contains no snapshot restore -/
def NoRestore : List HCall → Prop
  | [] => True
  | .restore _ :: _ => False
  | _ :: cs => NoRestore cs

instance : (cs : List HCall) → Decidable (NoRestore cs)
  | [] => isTrue trivial
  | c :: cs => by
    cases c <;> simp only [NoRestore] <;> first | exact instDecidableFalse | exact (instDecidableNoRestore cs)

/-- every write stores a version that has never been stored before (`used` = versions seen so far) -/
def FreshFrom : List String → List HCall → Prop
  | _, [] => True
  | used, .write res _ :: cs => res.version ∉ used ∧ FreshFrom (res.version :: used) cs
  | used, _ :: cs => FreshFrom used cs

/-- the call addresses storage key `k` and presents version `v` -/
def presents (k : Bytes) (v : String) : HCall → Bool
  | .write res vsn => idKey res.id = k && vsn = v
  | .delete id vsn => idKey id = k && vsn = v
  | _ => false

/-- a trace entry that committed (an event was published) and presented `(k, v)` -/
def committedPresenting (k : Bytes) (v : String) (t : HCall × HRet × Option WEv) : Bool :=
  t.2.2.isSome && presents k v t.1

/-- the call addresses storage key `k` -/
def touches (k : Bytes) : HCall → Bool
  | .write res _ => idKey res.id = k
  | .delete id _ => idKey id = k
  | _ => false

theorem specStep_write (st : Rows) (res : Res) (vsn : String) :
    specStep st (.write res vsn) =
      match lookup (idKey res.id) st with
      | none => if vsn ≠ "" then (st, .w .cas, none) else (upsert res st, .w .ok, some (.upsert res))
      | some ex =>
        if ex.id.uid ≠ res.id.uid then (st, .w .wrongUid, none)
        else if ex.version ≠ vsn then (st, .w .cas, none)
        else (upsert res st, .w .ok, some (.upsert res)) := by
  simp only [specStep, DB.writeCAS]
  split <;> (try split) <;> (try split) <;> simp_all

theorem specStep_delete (st : Rows) (id : RID) (vsn : String) :
    specStep st (.delete id vsn) =
      match lookup (idKey id) st with
      | none => (st, .d true, none)
      | some ex =>
        if id.uid ≠ ex.id.uid then (st, .d true, none)
        else if vsn ≠ ex.version then (st, .d false, none)
        else (remove (idKey id) st, .d true, some (.delete ex)) := by
  simp only [specStep, DB.deleteCAS]
  split <;> (try split) <;> (try split) <;> simp_all

/-- Once `v` has been used and is not the current version of `k`, no later operation presenting
    `(k, v)` commits: versions only ever change to fresh ones. -/
theorem no_commit_when_dead (k : Bytes) (v : String) (hne : v ≠ "") :
    ∀ (ops : List HCall) (st : Rows) (used : List String), NoRestore ops → FreshFrom used ops →
      (∀ r ∈ st, r.version ∈ used) → v ∈ used → (∀ r, lookup k st = some r → r.version ≠ v) →
      (trace st ops).filter (committedPresenting k v) = [] := by
  intro ops
  induction ops with
  | nil => intros; simp [trace]
  | cons c cs ih =>
    intro st used hnr hf hP hv hdead
    cases c with
    | restore rs => simp [NoRestore] at hnr
    | read id =>
      simp only [trace, List.filter_cons, committedPresenting, specStep]
      simpa using ih st used (by simpa [NoRestore] using hnr) (by simpa [FreshFrom] using hf) hP hv hdead
    | list q =>
      simp only [trace, List.filter_cons, committedPresenting, specStep]
      simpa using ih st used (by simpa [NoRestore] using hnr) (by simpa [FreshFrom] using hf) hP hv hdead
    | listOwner id =>
      simp only [trace, List.filter_cons, committedPresenting, specStep]
      simpa using ih st used (by simpa [NoRestore] using hnr) (by simpa [FreshFrom] using hf) hP hv hdead
    | delete id vsn =>
      have hnr' : NoRestore cs := by simpa [NoRestore] using hnr
      have hf' : FreshFrom used cs := by simpa [FreshFrom] using hf
      simp only [trace, List.filter_cons, committedPresenting, specStep_delete]
      cases hl : lookup (idKey id) st with
      | none => simpa using ih st used hnr' hf' hP hv hdead
      | some ex =>
        simp only []
        by_cases h1 : id.uid ≠ ex.id.uid
        · simpa [h1] using ih st used hnr' hf' hP hv hdead
        · by_cases h2 : vsn ≠ ex.version
          · simpa [h1, h2] using ih st used hnr' hf' hP hv hdead
          · simp only [h1, h2, if_false]
            have hrest := ih (remove (idKey id) st) used hnr' hf'
              (fun r hr => hP r (mem_remove hr)) hv
              (by intro r hr; rw [lookup_remove] at hr; split at hr <;> simp_all)
            have hhead : presents k v (.delete id vsn) = false := by
              simp only [presents]
              by_cases hk : idKey id = k
              · subst hk
                have := hdead ex hl
                simp_all
              · simp [hk]
            simp [hhead, hrest]
    | write res vsn =>
      have hnr' : NoRestore cs := by simpa [NoRestore] using hnr
      have hf' : FreshFrom (res.version :: used) cs := by simp only [FreshFrom] at hf; exact hf.2
      have hfr : res.version ∉ used := by simp only [FreshFrom] at hf; exact hf.1
      have hP' : ∀ r ∈ st, r.version ∈ res.version :: used := fun r hr => List.mem_cons_of_mem _ (hP r hr)
      have hv' : v ∈ res.version :: used := List.mem_cons_of_mem _ hv
      have hPu : ∀ r ∈ upsert res st, r.version ∈ res.version :: used := by
        intro r hr; rcases mem_upsert hr with h | h
        · subst h; exact List.mem_cons_self
        · exact hP' r h
      have hdu : ∀ r, lookup k (upsert res st) = some r → r.version ≠ v := by
        intro r hr; rw [lookup_upsert] at hr
        split at hr
        · cases hr; intro e; exact hfr (e ▸ hv)
        · exact hdead r hr
      simp only [trace, List.filter_cons, committedPresenting, specStep_write]
      cases hl : lookup (idKey res.id) st with
      | none =>
        simp only []
        by_cases h0 : vsn ≠ ""
        · simpa [h0] using ih st _ hnr' hf' hP' hv' hdead
        · simp only [h0, if_false]
          have hhead : presents k v (.write res vsn) = false := by
            simp only [presents]
            have : vsn = "" := by simpa using h0
            by_cases hk : idKey res.id = k
            · simp [hk, this]; intro e; exact hne e
            · simp [hk]
          simp [hhead, ih _ _ hnr' hf' hPu hv' hdu]
      | some ex =>
        simp only []
        by_cases h1 : ex.id.uid ≠ res.id.uid
        · simpa [h1] using ih st _ hnr' hf' hP' hv' hdead
        · by_cases h2 : ex.version ≠ vsn
          · simpa [h1, h2] using ih st _ hnr' hf' hP' hv' hdead
          · simp only [h1, h2, if_false]
            have hhead : presents k v (.write res vsn) = false := by
              simp only [presents]
              by_cases hk : idKey res.id = k
              · subst hk
                have := hdead ex hl
                simp_all
              · simp [hk]
            simp [hhead, ih _ _ hnr' hf' hPu hv' hdu]

/-- the versions seen after a call -/
def usedAfter (used : List String) : HCall → List String
  | .write res _ => res.version :: used
  | _ => used

theorem freshFrom_cons {used : List String} {c : HCall} {cs : List HCall} (h : FreshFrom used (c :: cs)) :
    FreshFrom (usedAfter used c) cs ∧ (∀ res vsn, c = .write res vsn → res.version ∉ used) := by
  cases c <;> simp_all [FreshFrom, usedAfter]

theorem noRestore_cons {c : HCall} {cs : List HCall} (h : NoRestore (c :: cs)) :
    NoRestore cs ∧ (∀ rs, c ≠ .restore rs) := by
  cases c <;> simp_all [NoRestore]

/-- stored versions stay inside the set of versions seen -/
theorem versions_used_step (st : Rows) (c : HCall) (used : List String) (hc : ∀ rs, c ≠ .restore rs)
    (hP : ∀ r ∈ st, r.version ∈ used) : ∀ r ∈ (specStep st c).1, r.version ∈ usedAfter used c := by
  cases c with
  | restore rs => exact absurd rfl (hc rs)
  | read id => simpa [specStep, usedAfter] using hP
  | list q => simpa [specStep, usedAfter] using hP
  | listOwner id => simpa [specStep, usedAfter] using hP
  | delete id vsn =>
    rw [specStep_delete]
    intro r hr
    simp only [usedAfter]
    split at hr
    · exact hP r hr
    · split at hr
      · exact hP r hr
      · split at hr
        · exact hP r hr
        · exact hP r (mem_remove hr)
  | write res vsn =>
    rw [specStep_write]
    intro r hr
    simp only [usedAfter]
    have hu : ∀ r ∈ upsert res st, r.version ∈ res.version :: used := by
      intro r hr; rcases mem_upsert hr with h | h
      · subst h; exact List.mem_cons_self
      · exact List.mem_cons_of_mem _ (hP r h)
    split at hr
    · split at hr
      · exact List.mem_cons_of_mem _ (hP r hr)
      · exact hu r hr
    · split at hr
      · exact List.mem_cons_of_mem _ (hP r hr)
      · split at hr
        · exact List.mem_cons_of_mem _ (hP r hr)
        · exact hu r hr

/-- A committed operation presenting `(k, v)`, `v ≠ ""`, consumed the current version `v` of `k`:
    `v` had been seen, and it is not the version of `k` afterwards. -/
theorem commit_kills (st : Rows) (c : HCall) (used : List String) (k : Bytes) (v : String) (hne : v ≠ "")
    (hP : ∀ r ∈ st, r.version ∈ used) (hfr : ∀ res vsn, c = .write res vsn → res.version ∉ used)
    (h : committedPresenting k v (c, (specStep st c).2.1, (specStep st c).2.2) = true) :
    v ∈ used ∧ ∀ r, lookup k (specStep st c).1 = some r → r.version ≠ v := by
  cases c with
  | restore rs => simp [committedPresenting, presents] at h
  | read id => simp [committedPresenting, presents] at h
  | list q => simp [committedPresenting, presents] at h
  | listOwner id => simp [committedPresenting, presents] at h
  | delete id vsn =>
    rw [specStep_delete] at h ⊢
    simp only [committedPresenting, presents, Bool.and_eq_true, decide_eq_true_eq] at h
    obtain ⟨hsome, hk, hvv⟩ := h
    subst hk hvv
    cases hl : lookup (idKey id) st with
    | none => simp [hl] at hsome
    | some ex =>
      simp only [hl] at hsome ⊢
      by_cases h1 : id.uid ≠ ex.id.uid
      · simp [h1] at hsome
      · by_cases h2 : vsn ≠ ex.version
        · simp [h1, h2] at hsome
        · simp only [h1, h2, if_false]
          have hvx : vsn = ex.version := by simpa using h2
          refine ⟨hvx ▸ hP ex (lookup_some hl).1, ?_⟩
          intro r hr; rw [lookup_remove] at hr; simp at hr
  | write res vsn =>
    rw [specStep_write] at h ⊢
    simp only [committedPresenting, presents, Bool.and_eq_true, decide_eq_true_eq] at h
    obtain ⟨hsome, hk, hvv⟩ := h
    subst hk hvv
    have hfresh := hfr res vsn rfl
    cases hl : lookup (idKey res.id) st with
    | none =>
      simp only [hl] at hsome ⊢
      by_cases h0 : vsn ≠ ""
      · simp [h0] at hsome
      · exact absurd (by simpa using h0) hne
    | some ex =>
      simp only [hl] at hsome ⊢
      by_cases h1 : ex.id.uid ≠ res.id.uid
      · simp [h1] at hsome
      · by_cases h2 : ex.version ≠ vsn
        · simp [h1, h2] at hsome
        · simp only [h1, h2, if_false]
          have hvx : ex.version = vsn := by simpa using h2
          have hvu : vsn ∈ used := hvx ▸ hP ex (lookup_some hl).1
          refine ⟨hvu, ?_⟩
          intro r hr; rw [lookup_upsert] at hr; simp at hr; subst hr
          intro e; exact hfresh (e ▸ hvu)

theorem at_most_one_aux (k : Bytes) (v : String) (hne : v ≠ "") :
    ∀ (ops : List HCall) (st : Rows) (used : List String), NoRestore ops → FreshFrom used ops →
      (∀ r ∈ st, r.version ∈ used) →
      ((trace st ops).filter (committedPresenting k v)).length ≤ 1 := by
  intro ops
  induction ops with
  | nil => intros; simp [trace]
  | cons c cs ih =>
    intro st used hnr hf hP
    obtain ⟨hnr', hc⟩ := noRestore_cons hnr
    obtain ⟨hf', hfr⟩ := freshFrom_cons hf
    have hP' := versions_used_step st c used hc hP
    simp only [trace, List.filter_cons]
    split
    · next hhead =>
      obtain ⟨hvu, hdead⟩ := commit_kills st c used k v hne hP hfr hhead
      have hvu' : v ∈ usedAfter used c := by cases c <;> simp_all [usedAfter]
      rw [no_commit_when_dead k v hne cs _ _ hnr' hf' hP' hvu' hdead]
      simp
    · exact ih _ _ hnr' hf' hP'

/-! ### uid stability and stale lifetimes -/

/-- the trace entry is a committed delete of storage key `k` -/
def deletesKey (k : Bytes) (t : HCall × HRet × Option WEv) : Bool :=
  match t.2.2 with
  | some (.delete r) => idKey r.id = k
  | _ => false

/-- One step never changes the uid of a resource that is present before and after it. -/
theorem uid_stable_step (st : Rows) (c : HCall) (hc : ∀ rs, c ≠ .restore rs) (k : Bytes) (a b : Res)
    (ha : lookup k st = some a) (hb : lookup k (specStep st c).1 = some b) : b.id.uid = a.id.uid := by
  cases c with
  | restore rs => exact absurd rfl (hc rs)
  | read id => simp_all [specStep]
  | list q => simp_all [specStep]
  | listOwner id => simp_all [specStep]
  | delete id vsn =>
    rw [specStep_delete] at hb
    split at hb
    · simp_all
    · split at hb
      · simp_all
      · split at hb
        · simp_all
        · rw [lookup_remove] at hb; split at hb <;> simp_all
  | write res vsn =>
    rw [specStep_write] at hb
    split at hb
    · next hl =>
      split at hb
      · simp_all
      · rw [lookup_upsert] at hb; split at hb
        · next hk => rw [hk] at hl; simp_all
        · simp_all
    · next ex hl =>
      split at hb
      · simp_all
      · split at hb
        · simp_all
        · rw [lookup_upsert] at hb; split at hb
          · next hk => rw [hk] at hl; simp_all
          · simp_all

/-- A present resource stays present across a step unless the step is a committed delete of it. -/
theorem present_step (st : Rows) (c : HCall) (hc : ∀ rs, c ≠ .restore rs) (k : Bytes) (a : Res)
    (ha : lookup k st = some a)
    (hd : deletesKey k (c, (specStep st c).2.1, (specStep st c).2.2) = false) :
    ∃ b, lookup k (specStep st c).1 = some b := by
  cases c with
  | restore rs => exact absurd rfl (hc rs)
  | read id => exact ⟨a, by simpa [specStep] using ha⟩
  | list q => exact ⟨a, by simpa [specStep] using ha⟩
  | listOwner id => exact ⟨a, by simpa [specStep] using ha⟩
  | delete id vsn =>
    rw [specStep_delete] at hd ⊢
    split
    · exact ⟨a, ha⟩
    · next ex hl =>
      split
      · exact ⟨a, ha⟩
      · split
        · exact ⟨a, ha⟩
        · simp only [lookup_remove]
          split
          · next hk => simp_all [deletesKey]; exact absurd (lookup_some hl).2 (by simpa [hk] using hd)
          · exact ⟨a, ha⟩
  | write res vsn =>
    rw [specStep_write]
    split
    · split
      · exact ⟨a, ha⟩
      · simp only [lookup_upsert]; split
        · exact ⟨_, rfl⟩
        · exact ⟨a, ha⟩
    · split
      · exact ⟨a, ha⟩
      · split
        · exact ⟨a, ha⟩
        · simp only [lookup_upsert]; split
          · exact ⟨_, rfl⟩
          · exact ⟨a, ha⟩

theorem uid_stable_run (k : Bytes) :
    ∀ (ops : List HCall) (st : Rows) (a : Res), NoRestore ops → lookup k st = some a →
      (trace st ops).all (fun t => !deletesKey k t) = true →
      ∃ b, lookup k (finalRows st ops) = some b ∧ b.id.uid = a.id.uid := by
  intro ops
  induction ops with
  | nil => intro st a _ ha _; exact ⟨a, ha, rfl⟩
  | cons c cs ih =>
    intro st a hnr ha hall
    obtain ⟨hnr', hc⟩ := noRestore_cons hnr
    simp only [trace, List.all_cons, Bool.and_eq_true, Bool.not_eq_true'] at hall
    obtain ⟨b, hb⟩ := present_step st c hc k a ha hall.1
    have hu := uid_stable_step st c hc k a b ha hb
    obtain ⟨b', hb', hu'⟩ := ih _ b hnr' hb hall.2
    exact ⟨b', hb', hu'.trans hu⟩

/-- every write / delete of the sequence that addresses `k` carries uid `u` (a client that still holds
    the identity of an earlier lifetime), and there is no restore -/
def StaleOn (k : Bytes) (u : Bytes) : List HCall → Prop
  | [] => True
  | .write res _ :: cs => (idKey res.id = k → res.id.uid = u) ∧ StaleOn k u cs
  | .delete id _ :: cs => (idKey id = k → id.uid = u) ∧ StaleOn k u cs
  | .restore _ :: _ => False
  | _ :: cs => StaleOn k u cs

theorem stale_step (st : Rows) (c : HCall) (k u : Bytes) (cur : Res) (hs : StaleOn k u [c])
    (hcur : lookup k st = some cur) (hu : cur.id.uid ≠ u) :
    lookup k (specStep st c).1 = some cur ∧
    (touches k c = true → (specStep st c).1 = st ∧ (specStep st c).2.2 = none) := by
  cases c with
  | restore rs => simp [StaleOn] at hs
  | read id => simp [specStep, hcur, touches]
  | list q => simp [specStep, hcur, touches]
  | listOwner id => simp [specStep, hcur, touches]
  | delete id vsn =>
    simp only [StaleOn, and_true] at hs
    rw [specStep_delete]
    by_cases hk : idKey id = k
    · have hid := hs hk
      subst hk
      simp only [hcur, touches]
      have : id.uid ≠ cur.id.uid := by rw [hid]; exact fun e => hu e.symm
      simp [this, hcur]
    · simp only [touches, hk, decide_false]
      split
      · simp [hcur]
      · split
        · simp [hcur]
        · split
          · simp [hcur]
          · simp [lookup_remove, hcur]; exact fun e => hk e.symm
  | write res vsn =>
    simp only [StaleOn, and_true] at hs
    rw [specStep_write]
    by_cases hk : idKey res.id = k
    · have hid := hs hk
      subst hk
      simp only [hcur, touches]
      have : cur.id.uid ≠ res.id.uid := by rw [hid]; exact hu
      simp [this, hcur]
    · simp only [touches, hk, decide_false]
      split
      · split
        · simp [hcur]
        · simp [lookup_upsert, hk, hcur]
      · split
        · simp [hcur]
        · split
          · simp [hcur]
          · simp [lookup_upsert, hk, hcur]

theorem staleOn_cons {k u : Bytes} {c : HCall} {cs : List HCall} (h : StaleOn k u (c :: cs)) :
    StaleOn k u [c] ∧ StaleOn k u cs := by
  cases c <;> simp_all [StaleOn]

theorem stale_run (k u : Bytes) (cur : Res) (hu : cur.id.uid ≠ u) :
    ∀ (ops : List HCall) (st : Rows), StaleOn k u ops → lookup k st = some cur →
      lookup k (finalRows st ops) = some cur ∧
      (trace st ops).all (fun t => !(touches k t.1 && t.2.2.isSome)) = true := by
  intro ops
  induction ops with
  | nil => intro st _ h; exact ⟨h, by simp [trace]⟩
  | cons c cs ih =>
    intro st hs hcur
    obtain ⟨h1, h2⟩ := staleOn_cons hs
    obtain ⟨hl, ht⟩ := stale_step st c k u cur h1 hcur hu
    obtain ⟨hf, ha⟩ := ih _ h2 hl
    refine ⟨by simpa [finalRows] using hf, ?_⟩
    simp only [trace, List.all_cons, ha, Bool.and_true]
    cases htc : touches k c with
    | false => simp
    | true => simp [(ht htc).2]

/-! ### inmem.Backend: the counter produces fresh versions -/

/-- what `inmem.Backend` hands to the store for a sequence of calls: every write gets the decimal of
    the incremented counter as the version to store (the version given in `res` is overwritten) -/
def backendCalls : Nat → List HCall → List HCall
  | _, [] => []
  | ctr, .write res vsn :: cs => .write { res with version := toString (ctr + 1) } vsn :: backendCalls (ctr + 1) cs
  | ctr, c :: cs => c :: backendCalls ctr cs

theorem toString_nat_inj {m n : Nat} (h : toString m = toString n) : m = n :=
  Nat.repr_inj.mp (show Nat.repr m = Nat.repr n from h)

theorem backendCalls_fresh :
    ∀ (ops : List HCall) (ctr : Nat) (used : List String),
      (∀ v ∈ used, ∃ n, n ≤ ctr ∧ v = toString n) → FreshFrom used (backendCalls ctr ops) := by
  intro ops
  induction ops with
  | nil => intros; simp [backendCalls, FreshFrom]
  | cons c cs ih =>
    intro ctr used hb
    cases c with
    | write res vsn =>
      simp only [backendCalls, FreshFrom]
      refine ⟨?_, ih (ctr + 1) _ ?_⟩
      · intro hm
        obtain ⟨n, hn, e⟩ := hb _ hm
        have := toString_nat_inj e
        omega
      · intro v hv
        rcases List.mem_cons.mp hv with h | h
        · exact ⟨ctr + 1, Nat.le_refl _, h⟩
        · obtain ⟨n, hn, e⟩ := hb v h
          exact ⟨n, by omega, e⟩
    | delete id vsn => simpa [backendCalls, FreshFrom] using ih ctr used hb
    | read id => simpa [backendCalls, FreshFrom] using ih ctr used hb
    | list q => simpa [backendCalls, FreshFrom] using ih ctr used hb
    | listOwner id => simpa [backendCalls, FreshFrom] using ih ctr used hb
    | restore rs => simpa [backendCalls, FreshFrom] using ih ctr used hb

theorem backendCalls_noRestore : ∀ (ops : List HCall) (ctr : Nat), NoRestore ops → NoRestore (backendCalls ctr ops) := by
  intro ops
  induction ops with
  | nil => intros; simp [backendCalls, NoRestore]
  | cons c cs ih => intro ctr h; cases c <;> simp_all [backendCalls, NoRestore]

/-! ### creations: at most one per lifetime -/

/-- every write of the sequence stores a non-empty version (both backends do) -/
def NonEmptyWrites : List HCall → Prop
  | [] => True
  | .write res _ :: cs => res.version ≠ "" ∧ NonEmptyWrites cs
  | _ :: cs => NonEmptyWrites cs

theorem nonEmptyWrites_cons {c : HCall} {cs : List HCall} (h : NonEmptyWrites (c :: cs)) :
    NonEmptyWrites cs ∧ (∀ res vsn, c = .write res vsn → res.version ≠ "") := by
  cases c <;> simp_all [NonEmptyWrites]

/-- while `k` is present (with a non-empty version) nothing presenting the empty version commits on it -/
theorem no_empty_commit_while_present (st : Rows) (c : HCall) (k : Bytes) (a : Res)
    (ha : lookup k st = some a) (hne : a.version ≠ "") :
    committedPresenting k "" (c, (specStep st c).2.1, (specStep st c).2.2) = false := by
  cases c with
  | restore rs => simp [committedPresenting, presents]
  | read id => simp [committedPresenting, presents]
  | list q => simp [committedPresenting, presents]
  | listOwner id => simp [committedPresenting, presents]
  | delete id vsn =>
    rw [specStep_delete]
    simp only [committedPresenting, presents]
    by_cases hk : idKey id = k
    · subst hk
      by_cases hv : vsn = ""
      · subst hv
        simp only [ha]
        by_cases h1 : id.uid ≠ a.id.uid
        · simp [h1]
        · have : ("" : String) ≠ a.version := fun e => hne e.symm
          simp [h1, this]
      · simp [hv]
    · simp [hk]
  | write res vsn =>
    rw [specStep_write]
    simp only [committedPresenting, presents]
    by_cases hk : idKey res.id = k
    · subst hk
      by_cases hv : vsn = ""
      · subst hv
        simp only [ha]
        by_cases h1 : a.id.uid ≠ res.id.uid
        · simp [h1]
        · simp [h1, hne]
      · simp [hv]
    · simp [hk]

theorem no_create_while_present (k : Bytes) :
    ∀ (ops : List HCall) (st : Rows) (used : List String) (a : Res), NoRestore ops → NonEmptyWrites ops →
      (∀ r ∈ st, r.version ∈ used) → "" ∉ used → lookup k st = some a →
      (trace st ops).all (fun t => !deletesKey k t) = true →
      (trace st ops).filter (committedPresenting k "") = [] := by
  intro ops
  induction ops with
  | nil => intros; simp [trace]
  | cons c cs ih =>
    intro st used a hnr hnw hP hu ha hall
    obtain ⟨hnr', hc⟩ := noRestore_cons hnr
    obtain ⟨hnw', hw⟩ := nonEmptyWrites_cons hnw
    simp only [trace, List.all_cons, Bool.and_eq_true, Bool.not_eq_true'] at hall
    have hav : a.version ≠ "" := fun e => hu (e ▸ hP a (lookup_some ha).1)
    have hhead := no_empty_commit_while_present st c k a ha hav
    obtain ⟨b, hb⟩ := present_step st c hc k a ha hall.1
    have hP' := versions_used_step st c used hc hP
    have hu' : "" ∉ usedAfter used c := by
      cases c <;> simp_all [usedAfter]
    simp only [trace, List.filter_cons, hhead]
    exact ih _ _ b hnr' hnw' hP' hu' hb hall.2

/-- a committed operation presenting the empty version on `k` is a creation: `k` is present afterwards -/
theorem empty_commit_creates (st : Rows) (c : HCall) (k : Bytes)
    (h : committedPresenting k "" (c, (specStep st c).2.1, (specStep st c).2.2) = true)
    (hst : ∀ r ∈ st, r.version ≠ "") : ∃ b, lookup k (specStep st c).1 = some b := by
  cases c with
  | restore rs => simp [committedPresenting, presents] at h
  | read id => simp [committedPresenting, presents] at h
  | list q => simp [committedPresenting, presents] at h
  | listOwner id => simp [committedPresenting, presents] at h
  | delete id vsn =>
    rw [specStep_delete] at h
    simp only [committedPresenting, presents, Bool.and_eq_true, decide_eq_true_eq] at h
    obtain ⟨hsome, hk, hv⟩ := h
    subst hk hv
    cases hl : lookup (idKey id) st with
    | none => simp [hl] at hsome
    | some ex =>
      have := hst ex (lookup_some hl).1
      simp only [hl] at hsome
      by_cases h1 : id.uid ≠ ex.id.uid
      · simp [h1] at hsome
      · have : ("" : String) ≠ ex.version := fun e => this e.symm
        simp [h1, this] at hsome
  | write res vsn =>
    rw [specStep_write] at h ⊢
    simp only [committedPresenting, presents, Bool.and_eq_true, decide_eq_true_eq] at h
    obtain ⟨hsome, hk, hv⟩ := h
    subst hk hv
    cases hl : lookup (idKey res.id) st with
    | none => simp [lookup_upsert]
    | some ex =>
      have := hst ex (lookup_some hl).1
      simp only [hl] at hsome
      by_cases h1 : ex.id.uid ≠ res.id.uid
      · simp [h1] at hsome
      · simp [h1, this] at hsome

theorem creates_at_most_one_aux (k : Bytes) :
    ∀ (ops : List HCall) (st : Rows) (used : List String), NoRestore ops → NonEmptyWrites ops →
      (∀ r ∈ st, r.version ∈ used) → "" ∉ used →
      (trace st ops).all (fun t => !deletesKey k t) = true →
      ((trace st ops).filter (committedPresenting k "")).length ≤ 1 := by
  intro ops
  induction ops with
  | nil => intros; simp [trace]
  | cons c cs ih =>
    intro st used hnr hnw hP hu hall
    obtain ⟨hnr', hc⟩ := noRestore_cons hnr
    obtain ⟨hnw', hw⟩ := nonEmptyWrites_cons hnw
    have hall' := hall
    simp only [trace, List.all_cons, Bool.and_eq_true, Bool.not_eq_true'] at hall'
    have hP' := versions_used_step st c used hc hP
    have hu' : "" ∉ usedAfter used c := by
      cases c <;> simp_all [usedAfter]
    simp only [trace, List.filter_cons]
    split
    · next hhead =>
      obtain ⟨b, hb⟩ := empty_commit_creates st c k hhead (fun r hr e => hu (e ▸ hP r hr))
      rw [no_create_while_present k cs _ _ b hnr' hnw' hP' hu' hb hall'.2]
      simp
    · exact ih _ _ hnr' hnw' hP' hu' hall'.2

end CV.Res
