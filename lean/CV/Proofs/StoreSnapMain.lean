/-
Helper lemmas for CV.Store.Snap, part 3: all nodes, the phases after the catalog, and the composition.
-/
import CV.Proofs.StoreSnapCat
import CV.Proofs.StoreEnv
import CV.Store.Query
set_option linter.unusedSectionVars false
set_option linter.unusedSimpArgs false
namespace CV.Store
open CV

/-- Well-formed catalog tables: key order (one row per key), node ids unique, every service / check has its
    node, a service-level check has its service and carries that service's CURRENT name, no check has an
    empty status, node rows carry a create index. (`v.node = n.name` is spelling-exact: service rows of a
    node re-registered under another letter case keep the old spelling — case-folding family.) -/
structure CatWF (s : State) : Prop where
  ns : TSorted Node.pk strLt s.nodes
  vs : TSorted Svc.pk strLt s.svcs
  cs : TSorted Chk.pk strLt s.chks
  nodeIds : ∀ a ∈ s.nodes, ∀ b ∈ s.nodes, a.id ≠ "" → lc a.id = lc b.id → a = b
  nodeCreate : ∀ n ∈ s.nodes, n.create ≠ 0
  svcNode : ∀ v ∈ s.svcs, ∃ n ∈ s.nodes, v.node = n.name
  chkNode : ∀ c ∈ s.chks, ∃ n ∈ s.nodes, lc c.node = lc n.name
  chkStatus : ∀ c ∈ s.chks, c.status ≠ ""
  chkSvc : ∀ c ∈ s.chks, c.svcId ≠ "" →
    ∃ v ∈ s.svcs, lc v.node = lc c.node ∧ lc v.id = lc c.svcId ∧ c.svcName = v.name

theorem node_name_ne {s : State} (w : CatWF s) {a b : Node} (ha : a ∈ s.nodes) (hb : b ∈ s.nodes) (hne : a ≠ b) :
    lc a.name ≠ lc b.name := fun e => hne (tsorted_unique strLt_ord w.ns ha hb e)

theorem mem_svcsOf {s : State} {n : Node} {v : Svc} : v ∈ svcsOf s n ↔ v ∈ s.svcs ∧ lc v.node = lc n.name := by
  simp [svcsOf]
theorem mem_chksOf {s : State} {n : Node} {c : Chk} : c ∈ chksOf s n ↔ c ∈ s.chks ∧ lc c.node = lc n.name := by
  simp [chksOf]

/-- all records of one node -/
theorem one_node {K : String → Prop} {s : State} (w : CatWF s) (last : Nat) {st : State} {PN : Node → Prop} {PV : Svc → Prop} {PC : Chk → Prop}
    (h : CInv K st PN PV PC) (n : Node) (hn : n ∈ s.nodes)
    (hPN : ∀ x, PN x → x ∈ s.nodes ∧ x ≠ n)
    (hPV : ∀ x, PV x → x ∈ s.svcs ∧ lc x.node ≠ lc n.name)
    (hPC : ∀ x, PC x → x ∈ s.chks ∧ lc x.node ≠ lc n.name)
    (hK : CatKeys K (fun x => x = n ∨ PN x) (fun x => x ∈ svcsOf s n ∨ PV x) (fun x => x ∈ chksOf s n ∨ PC x)) :
    ∃ st', foldE (restoreRec last) (nodeRecs s n) st = .ok st' ∧
      CInv K st' (fun x => x = n ∨ PN x) (fun x => x ∈ svcsOf s n ∨ PV x) (fun x => x ∈ chksOf s n ∨ PC x) := by
  -- the node record
  obtain ⟨e1, h1⟩ := step_node h last n
    (fun x hx => node_name_ne w (hPN x hx).1 hn (hPN x hx).2)
    (fun x hx hh => (hPN x hx).2 (w.nodeIds x (hPN x hx).1 n hn hh.1 hh.2))
    (w.nodeCreate n hn) (hK.mono (fun _ hx => hx) (fun _ hx => Or.inr hx) (fun _ hx => Or.inr hx))
  have hnP : (fun x => x = n ∨ PN x) n := Or.inl rfl
  -- its services
  have hsub : (svcsOf s n).Sublist s.svcs := List.filter_sublist
  obtain ⟨s2, e2, h2⟩ := loop_svc last n hnP (svcsOf s n) (nodeInsert st n) PV h1
    (fun v hv => by
      obtain ⟨hv1, hv2⟩ := mem_svcsOf.mp hv
      obtain ⟨m, hm, e⟩ := w.svcNode v hv1
      have : m = n := tsorted_unique strLt_ord w.ns hm hn (by show lc m.name = lc n.name; rw [← e]; exact hv2)
      rw [e, this])
    (tsorted_keys_ne strLt_ord (List.Pairwise.sublist hsub w.vs))
    (fun v hv x hx e => by
      obtain ⟨hv1, hv2⟩ := mem_svcsOf.mp hv
      have := tsorted_unique strLt_ord w.vs (hPV x hx).1 hv1 e
      exact (hPV x hx).2 (this ▸ hv2))
    (hK.mono (fun _ hx => hx) (fun _ hx => hx) (fun _ hx => Or.inr hx))
  -- its checks
  have hsubc : (chksOf s n).Sublist s.chks := List.filter_sublist
  obtain ⟨s3, e3, h3⟩ := loop_chk last n hnP (chksOf s n) s2 PC h2
    (fun c hc => (mem_chksOf.mp hc).2)
    (tsorted_keys_ne strLt_ord (List.Pairwise.sublist hsubc w.cs))
    (fun c hc x hx e => by
      obtain ⟨hc1, hc2⟩ := mem_chksOf.mp hc
      have := tsorted_unique strLt_ord w.cs (hPC x hx).1 hc1 e
      exact (hPC x hx).2 (this ▸ hc2))
    (fun c hc => w.chkStatus c (mem_chksOf.mp hc).1)
    (fun c hc hs => by
      obtain ⟨hc1, hc2⟩ := mem_chksOf.mp hc
      obtain ⟨v, hv, a, b, d⟩ := w.chkSvc c hc1 hs
      exact ⟨v, Or.inl (mem_svcsOf.mpr ⟨hv, a.trans hc2⟩), a, b, d⟩) hK
  refine ⟨s3, ?_, h3⟩
  unfold nodeRecs
  simp only [foldE, e1]
  rw [foldE_append, e2]
  exact e3

/-- the catalog phase: all nodes in table order -/
theorem all_nodes {K : String → Prop} {s : State} (w : CatWF s) (last : Nat) :
    ∀ (ns : List Node) (st : State) (PN : Node → Prop) (PV : Svc → Prop) (PC : Chk → Prop), CInv K st PN PV PC →
      (∀ n ∈ ns, n ∈ s.nodes) → ns.Nodup →
      (∀ x, PN x → x ∈ s.nodes ∧ x ∉ ns) →
      (∀ x, PV x → x ∈ s.svcs ∧ ∀ n ∈ ns, lc x.node ≠ lc n.name) →
      (∀ x, PC x → x ∈ s.chks ∧ ∀ n ∈ ns, lc x.node ≠ lc n.name) →
      CatKeys K (fun x => x ∈ ns ∨ PN x) (fun x => (∃ n ∈ ns, x ∈ svcsOf s n) ∨ PV x)
          (fun x => (∃ n ∈ ns, x ∈ chksOf s n) ∨ PC x) →
      ∃ st', foldE (restoreRec last) (ns.flatMap (nodeRecs s)) st = .ok st' ∧
        CInv K st' (fun x => x ∈ ns ∨ PN x) (fun x => (∃ n ∈ ns, x ∈ svcsOf s n) ∨ PV x)
          (fun x => (∃ n ∈ ns, x ∈ chksOf s n) ∨ PC x) := by
  intro ns
  induction ns with
  | nil =>
    intro st PN PV PC h _ _ _ _ _ _
    exact ⟨st, rfl, h.congr (fun x => by simp) (fun x => by simp) (fun x => by simp)⟩
  | cons n ns ih =>
    intro st PN PV PC h hmem hnd hPN hPV hPC hK
    obtain ⟨hn_notin, hnd'⟩ := List.nodup_cons.mp hnd
    have hn : n ∈ s.nodes := hmem n List.mem_cons_self
    obtain ⟨s1, e1, h1⟩ := one_node w last h n hn
      (fun x hx => ⟨(hPN x hx).1, fun e => (hPN x hx).2 (e ▸ List.mem_cons_self)⟩)
      (fun x hx => ⟨(hPV x hx).1, (hPV x hx).2 n List.mem_cons_self⟩)
      (fun x hx => ⟨(hPC x hx).1, (hPC x hx).2 n List.mem_cons_self⟩)
      (hK.mono
        (fun x hx => by
          rcases hx with rfl | hx
          · exact Or.inl List.mem_cons_self
          · exact Or.inr hx)
        (fun x hx => by
          rcases hx with hx | hx
          · exact Or.inl ⟨n, List.mem_cons_self, hx⟩
          · exact Or.inr hx)
        (fun x hx => by
          rcases hx with hx | hx
          · exact Or.inl ⟨n, List.mem_cons_self, hx⟩
          · exact Or.inr hx))
    have hne : ∀ m ∈ ns, lc n.name ≠ lc m.name := fun m hm =>
      node_name_ne w hn (hmem m (List.mem_cons_of_mem _ hm)) (fun e => hn_notin (e ▸ hm))
    obtain ⟨st', e2, h2⟩ := ih s1 _ _ _ h1 (fun m hm => hmem m (List.mem_cons_of_mem _ hm)) hnd'
      (fun x hx => by
        rcases hx with rfl | hx
        · exact ⟨hn, hn_notin⟩
        · exact ⟨(hPN x hx).1, fun hm => (hPN x hx).2 (List.mem_cons_of_mem _ hm)⟩)
      (fun x hx => by
        rcases hx with hx | hx
        · obtain ⟨a, b⟩ := mem_svcsOf.mp hx
          exact ⟨a, fun m hm => b ▸ hne m hm⟩
        · exact ⟨(hPV x hx).1, fun m hm => (hPV x hx).2 m (List.mem_cons_of_mem _ hm)⟩)
      (fun x hx => by
        rcases hx with hx | hx
        · obtain ⟨a, b⟩ := mem_chksOf.mp hx
          exact ⟨a, fun m hm => b ▸ hne m hm⟩
        · exact ⟨(hPC x hx).1, fun m hm => (hPC x hx).2 m (List.mem_cons_of_mem _ hm)⟩)
      (hK.mono
        (fun x hx => by
          rcases hx with hx | rfl | hx
          · exact Or.inl (List.mem_cons_of_mem _ hx)
          · exact Or.inl List.mem_cons_self
          · exact Or.inr hx)
        (fun x hx => by
          rcases hx with ⟨m, hm, hx⟩ | hx | hx
          · exact Or.inl ⟨m, List.mem_cons_of_mem _ hm, hx⟩
          · exact Or.inl ⟨n, List.mem_cons_self, hx⟩
          · exact Or.inr hx)
        (fun x hx => by
          rcases hx with ⟨m, hm, hx⟩ | hx | hx
          · exact Or.inl ⟨m, List.mem_cons_of_mem _ hm, hx⟩
          · exact Or.inl ⟨n, List.mem_cons_self, hx⟩
          · exact Or.inr hx))
    refine ⟨st', ?_, h2.congr (fun x => ?_) (fun x => ?_) (fun x => ?_)⟩
    · rw [List.flatMap_cons, foldE_append, e1]; exact e2
    · simp only [List.mem_cons]
      constructor
      · rintro (hx | hx | hx)
        · exact Or.inl (Or.inr hx)
        · exact Or.inl (Or.inl hx)
        · exact Or.inr hx
      · rintro ((hx | hx) | hx)
        · exact Or.inr (Or.inl hx)
        · exact Or.inl hx
        · exact Or.inr (Or.inr hx)
    · constructor
      · rintro (⟨m, hm, hx⟩ | hx | hx)
        · exact Or.inl ⟨m, List.mem_cons_of_mem _ hm, hx⟩
        · exact Or.inl ⟨n, List.mem_cons_self, hx⟩
        · exact Or.inr hx
      · rintro (⟨m, hm, hx⟩ | hx)
        · rcases List.mem_cons.mp hm with rfl | hm
          · exact Or.inr (Or.inl hx)
          · exact Or.inl ⟨m, hm, hx⟩
        · exact Or.inr (Or.inr hx)
    · constructor
      · rintro (⟨m, hm, hx⟩ | hx | hx)
        · exact Or.inl ⟨m, List.mem_cons_of_mem _ hm, hx⟩
        · exact Or.inl ⟨n, List.mem_cons_self, hx⟩
        · exact Or.inr hx
      · rintro (⟨m, hm, hx⟩ | hx)
        · rcases List.mem_cons.mp hm with rfl | hm
          · exact Or.inr (Or.inl hx)
          · exact Or.inl ⟨m, hm, hx⟩
        · exact Or.inr (Or.inr hx)

/-- **the catalog phase restores nodes, services and checks exactly** and leaves every other table empty -/
theorem catalog_phase {K : String → Prop} {s : State} (w : CatWF s) (last : Nat)
    (hK : CatKeys K (· ∈ s.nodes) (· ∈ s.svcs) (· ∈ s.chks)) :
    ∃ c, foldE (restoreRec last) (s.nodes.flatMap (nodeRecs s)) State.empty = .ok c ∧
      c.nodes = s.nodes ∧ c.svcs = s.svcs ∧ c.chks = s.chks ∧ otherView c = otherView State.empty ∧ IdxSorted c.index ∧
      KeysIn K c.index := by
  have nd : s.nodes.Nodup :=
    List.Pairwise.imp (fun hab => by intro e; subst e; exact absurd rfl (lt_ne strLt_ord hab)) w.ns
  obtain ⟨c, e, h⟩ := all_nodes (K := K) w last s.nodes State.empty _ _ _ (cinv_empty K) (fun _ hn => hn) nd
    (fun _ hx => hx.elim) (fun _ hx => hx.elim) (fun _ hx => hx.elim)
    (hK.mono (fun x hx => hx.elim (fun h => h) False.elim)
      (fun x hx => hx.elim (fun ⟨_, _, h⟩ => (mem_svcsOf.mp h).1) False.elim)
      (fun x hx => hx.elim (fun ⟨_, _, h⟩ => (mem_chksOf.mp h).1) False.elim))
  refine ⟨c, e, ?_, ?_, ?_, h.other, h.ix, h.ks⟩
  · apply tsorted_ext strLt_ord h.ns w.ns
    intro x; rw [h.mn]; simp
  · apply tsorted_ext strLt_ord h.vs w.vs
    intro x; rw [h.mv]
    constructor
    · rintro (⟨n, _, hx⟩ | hx)
      · exact (mem_svcsOf.mp hx).1
      · exact hx.elim
    · intro hx
      obtain ⟨n, hn, e⟩ := w.svcNode x hx
      exact Or.inl ⟨n, hn, mem_svcsOf.mpr ⟨hx, by rw [e]⟩⟩
  · apply tsorted_ext strLt_ord h.cs w.cs
    intro x; rw [h.mc]
    constructor
    · rintro (⟨n, _, hx⟩ | hx)
      · exact (mem_chksOf.mp hx).1
      · exact hx.elim
    · intro hx
      obtain ⟨n, hn, e⟩ := w.chkNode x hx
      exact Or.inl ⟨n, hn, mem_chksOf.mpr ⟨hx, e⟩⟩

/-! ### the phases after the catalog -/

theorem foldE_total {β : Type} (f : State → β → Except Err State) (g : State → β → State) (l : List β) (s : State)
    (h : ∀ st, ∀ b ∈ l, f st b = .ok (g st b)) : foldE f l s = .ok (l.foldl g s) := by
  induction l generalizing s with
  | nil => rfl
  | cons b bs ih =>
    simp only [foldE, h s b List.mem_cons_self, List.foldl_cons]
    exact ih _ (fun st x hx => h st x (List.mem_cons_of_mem _ hx))

/-- session_checks as `Restore.Session` rebuilds it: every session's check links, in session order -/
def deriveSC (acc : List SessCheck) (l : List Sess) : List SessCheck :=
  l.foldl (fun t x => x.checks.foldl (fun t c => tupsert SessCheck.pk strLt ⟨x.node, c, x.id⟩ t) t) acc

theorem phase_sess (l : List Sess) (st : State) :
    l.foldl restoreSession st =
      { st with sessions := tInsertAll Sess.pk strLt st.sessions l
                sessChecks := deriveSC st.sessChecks l
                index := l.foldl (fun ix x => idxMax ix "sessions" x.modify) st.index } := by
  induction l generalizing st with
  | nil => rfl
  | cons x xs ih => simp only [List.foldl_cons, ih, restoreSession, tInsertAll, deriveSC]

def restoreKV' (st : State) (e : KV) : State :=
  { st with kvs := tupsert KV.pk keyLt e st.kvs, index := idxMax st.index "kvs" e.modify }
def restoreTomb' (st : State) (t : Tomb) : State :=
  { st with tombs := tupsert Tomb.pk keyLt t st.tombs, index := idxMax st.index "tombstones" t.idx }

theorem phase_kv (l : List KV) (st : State) :
    l.foldl restoreKV' st =
      { st with kvs := tInsertAll KV.pk keyLt st.kvs l
                index := l.foldl (fun ix e => idxMax ix "kvs" e.modify) st.index } := by
  induction l generalizing st with
  | nil => rfl
  | cons x xs ih => simp only [List.foldl_cons, ih, restoreKV', tInsertAll]

theorem phase_tomb (l : List Tomb) (st : State) :
    l.foldl restoreTomb' st =
      { st with tombs := tInsertAll Tomb.pk keyLt st.tombs l
                index := l.foldl (fun ix t => idxMax ix "tombstones" t.idx) st.index } := by
  induction l generalizing st with
  | nil => rfl
  | cons x xs ih => simp only [List.foldl_cons, ih, restoreTomb', tInsertAll]

theorem phase_pq (l : List PQ) (st : State) :
    l.foldl restorePQ st =
      { st with queries := tInsertAll PQ.pk strLt st.queries l
                index := l.foldl (fun ix q => idxMax ix "prepared-queries" q.modify) st.index } := by
  induction l generalizing st with
  | nil => rfl
  | cons x xs ih => simp only [List.foldl_cons, ih, restorePQ, tInsertAll]

theorem phase_index (l : List (String × Nat)) (st : State) :
    l.foldl (fun a r => a.setIdx r.1 r.2) st = { st with index := l.foldl (fun ix r => idxSet ix r.1 r.2) st.index } := by
  induction l generalizing st with
  | nil => rfl
  | cons x xs ih =>
    simp only [List.foldl_cons]
    rw [ih]
    rfl

theorem idxSorted_foldl_max {β : Type} (k : String) (f : β → Nat) (l : List β) {ix : List (String × Nat)}
    (h : IdxSorted ix) : IdxSorted (l.foldl (fun a x => idxMax a k (f x)) ix) := by
  induction l generalizing ix with
  | nil => exact h
  | cons x xs ih => exact ih (idxSorted_max h k _)

/-- the records before the index table -/
def earlyRecs (s : State) : List SRec :=
  s.nodes.flatMap (nodeRecs s) ++ s.sessions.map SRec.sess ++ s.kvs.map SRec.kv ++ s.tombs.map SRec.tomb ++ s.queries.map SRec.pq

/-- index table of the store after every restorer that runs before `IndexRestore` -/
def earlyIndex (c : State) (s : State) : List (String × Nat) :=
  s.queries.foldl (fun ix q => idxMax ix "prepared-queries" q.modify)
    (s.tombs.foldl (fun ix t => idxMax ix "tombstones" t.idx)
      (s.kvs.foldl (fun ix e => idxMax ix "kvs" e.modify)
        (s.sessions.foldl (fun ix x => idxMax ix "sessions" x.modify) c.index)))

/-- `k` is the key of a row of the original index table -/
def HasRow (s : State) (k : String) : Prop := ∃ x ∈ s.index, k = x.1

/-- The index table has a row for every key that a restorer running before `IndexRestore` computes:
    the table-level rows of each non-empty table (with their `peer.~:` twins), `peer.~:node.<name>` per node,
    `peer.~:service.<name>` and the `service_kind.typical` pair per service. (Keys as memdb stores them:
    lower-cased.) Every write of the online path creates these rows, and only `deleteServiceTxn` /
    `deleteNodeTxn` remove a per-name row — when the last instance of that name is gone. -/
structure IdxCovers (s : State) : Prop where
  cat : CatKeys (HasRow s) (· ∈ s.nodes) (· ∈ s.svcs) (· ∈ s.chks)
  sessions : s.sessions ≠ [] → HasRow s (lc "sessions")
  kvs : s.kvs ≠ [] → HasRow s (lc "kvs")
  tombs : s.tombs ≠ [] → HasRow s (lc "tombstones")
  queries : s.queries ≠ [] → HasRow s (lc "prepared-queries")

theorem keysIn_foldl_max {β : Type} {K : String → Prop} (k : String) (f : β → Nat) (l : List β) (hk : l ≠ [] → K (lc k))
    {ix : List (String × Nat)} (h : KeysIn K ix) : KeysIn K (l.foldl (fun a x => idxMax a k (f x)) ix) := by
  cases l with
  | nil => exact h
  | cons y ys =>
    have hk' := hk (by simp)
    have : ∀ (l : List β) (ix : List (String × Nat)), KeysIn K ix → KeysIn K (l.foldl (fun a x => idxMax a k (f x)) ix) := by
      intro l
      induction l with
      | nil => intro ix h; exact h
      | cons z zs ih => intro ix h; exact ih _ (keysIn_max h hk' _)
    exact this _ _ h

/-- Well-formed states: well-formed catalog, the other tables in key order with non-empty keys,
    session_checks is the derived table, and the index table is in key order, lower-cased, and has a row for
    every key the restorers before `IndexRestore` compute. -/
structure SnapWF (s : State) : Prop where
  cat : CatWF s
  kvS : TSorted KV.pk keyLt s.kvs
  kvKey : ∀ e ∈ s.kvs, e.key ≠ []
  tombS : TSorted Tomb.pk keyLt s.tombs
  tombKey : ∀ t ∈ s.tombs, t.key ≠ []
  sessS : TSorted Sess.pk strLt s.sessions
  sc : s.sessChecks = deriveSC [] s.sessions
  pqS : TSorted PQ.pk strLt s.queries
  idxS : IdxSorted s.index
  idxNorm : ∀ r ∈ s.index, lc r.1 = r.1
  idxCover : IdxCovers s

/-- the restorers before `IndexRestore`, evaluated: every table but the index table is already the original -/
theorem early_phase {K : String → Prop} {s : State} (w : CatWF s) (last : Nat)
    (kvKey : ∀ e ∈ s.kvs, e.key ≠ []) (tombKey : ∀ t ∈ s.tombs, t.key ≠ [])
    (hK : CatKeys K (· ∈ s.nodes) (· ∈ s.svcs) (· ∈ s.chks))
    (hKs : s.sessions ≠ [] → K (lc "sessions")) (hKk : s.kvs ≠ [] → K (lc "kvs"))
    (hKt : s.tombs ≠ [] → K (lc "tombstones")) (hKq : s.queries ≠ [] → K (lc "prepared-queries")) :
    ∃ ix, IdxSorted ix ∧ KeysIn K ix ∧
      foldE (restoreRec last) (earlyRecs s) State.empty =
        .ok { kvs := tInsertAll KV.pk keyLt [] s.kvs, tombs := tInsertAll Tomb.pk keyLt [] s.tombs,
              sessions := tInsertAll Sess.pk strLt [] s.sessions, sessChecks := deriveSC [] s.sessions,
              nodes := s.nodes, svcs := s.svcs, chks := s.chks,
              queries := tInsertAll PQ.pk strLt [] s.queries, index := ix, loc := {} } := by
  obtain ⟨c, ec, hn, hv, hc, ho, hix, hks⟩ := catalog_phase w last hK
  have hcform : c = { nodes := s.nodes, svcs := s.svcs, chks := s.chks, index := c.index } := by
    cases c
    simp only [otherView, State.empty, Prod.mk.injEq] at ho
    simp_all
  refine ⟨earlyIndex c s, ?_, ?_, ?_⟩
  · unfold earlyIndex
    exact idxSorted_foldl_max _ _ _ (idxSorted_foldl_max _ _ _ (idxSorted_foldl_max _ _ _ (idxSorted_foldl_max _ _ _ hix)))
  · unfold earlyIndex
    exact keysIn_foldl_max _ _ _ hKq (keysIn_foldl_max _ _ _ hKt (keysIn_foldl_max _ _ _ hKk (keysIn_foldl_max _ _ _ hKs hks)))
  · unfold earlyRecs
    rw [foldE_append, foldE_append, foldE_append, foldE_append, ec]
    simp only []
    rw [foldE_map, foldE_total (fun st x => restoreRec last st (SRec.sess x)) restoreSession _ _ (fun _ _ _ => rfl)]
    simp only []
    rw [foldE_map, foldE_total (fun st x => restoreRec last st (SRec.kv x)) restoreKV' _ _
      (fun st e he => by simp [restoreRec, restoreKV, restoreKV', kvKey e he])]
    simp only []
    rw [foldE_map, foldE_total (fun st x => restoreRec last st (SRec.tomb x)) restoreTomb' _ _
      (fun st t ht => by simp [restoreRec, restoreTomb, restoreTomb', tombKey t ht])]
    simp only []
    rw [foldE_map, foldE_total (fun st x => restoreRec last st (SRec.pq x)) restorePQ _ _ (fun _ _ _ => rfl)]
    rw [phase_sess, phase_kv, phase_tomb, phase_pq, hcform]
    simp [earlyIndex]

/-- the index phase as a `tupsert` fold of the rows themselves (their keys are already lower-cased) -/
theorem index_fold_tinsert (l acc : List (String × Nat)) (hn : ∀ r ∈ l, lc r.1 = r.1) :
    l.foldl (fun a r => idxSet a r.1 r.2) acc = tInsertAll (·.1) strLt acc l := by
  induction l generalizing acc with
  | nil => rfl
  | cons r rs ih =>
    have hr : lc r.1 = r.1 := hn r List.mem_cons_self
    simp only [List.foldl_cons, tInsertAll]
    have : idxSet acc r.1 r.2 = tupsert (·.1) strLt r acc := by
      unfold idxSet; rw [hr]
    rw [this]
    exact ih _ (fun x hx => hn x (List.mem_cons_of_mem _ hx))

/-- the whole restore fold of a snapshot, with the index table of the early phase made explicit -/
theorem restore_eval {K : String → Prop} {s : State} (w : CatWF s) (kvKey : ∀ e ∈ s.kvs, e.key ≠ []) (tombKey : ∀ t ∈ s.tombs, t.key ≠ [])
    (hK : CatKeys K (· ∈ s.nodes) (· ∈ s.svcs) (· ∈ s.chks))
    (hKs : s.sessions ≠ [] → K (lc "sessions")) (hKk : s.kvs ≠ [] → K (lc "kvs"))
    (hKt : s.tombs ≠ [] → K (lc "tombstones")) (hKq : s.queries ≠ [] → K (lc "prepared-queries")) :
    ∃ ix, IdxSorted ix ∧ KeysIn K ix ∧
      foldE (restoreRec (lastIndexS s)) (earlyRecs s) State.empty =
        .ok { kvs := tInsertAll KV.pk keyLt [] s.kvs, tombs := tInsertAll Tomb.pk keyLt [] s.tombs,
              sessions := tInsertAll Sess.pk strLt [] s.sessions, sessChecks := deriveSC [] s.sessions,
              nodes := s.nodes, svcs := s.svcs, chks := s.chks,
              queries := tInsertAll PQ.pk strLt [] s.queries, index := ix, loc := {} } ∧
      restoreS (snapshotS s) =
        .ok { kvs := tInsertAll KV.pk keyLt [] s.kvs, tombs := tInsertAll Tomb.pk keyLt [] s.tombs,
              sessions := tInsertAll Sess.pk strLt [] s.sessions, sessChecks := deriveSC [] s.sessions,
              nodes := s.nodes, svcs := s.svcs, chks := s.chks,
              queries := tInsertAll PQ.pk strLt [] s.queries,
              index := s.index.foldl (fun a r => idxSet a r.1 r.2) ix, loc := {} } := by
  obtain ⟨ix, hix, hks, e⟩ := early_phase w (lastIndexS s) kvKey tombKey hK hKs hKk hKt hKq
  refine ⟨ix, hix, hks, e, ?_⟩
  have hrecs : (snapshotS s).recs = earlyRecs s ++ s.index.map (fun r => SRec.index r.1 r.2) := by
    simp [snapshotS, earlyRecs]
  unfold restoreS
  rw [hrecs, foldE_append]
  have hl : (snapshotS s).last = lastIndexS s := rfl
  rw [hl, e]
  simp only []
  rw [foldE_map, foldE_total (fun st (r : String × Nat) => restoreRec (lastIndexS s) st (SRec.index r.1 r.2))
    (fun a r => a.setIdx r.1 r.2) _ _ (fun _ _ _ => rfl), phase_index]

/-- two stores with the same replicated tables replay a log to the same replicated tables and results -/
theorem replay_repl_agree' (log : Log) : ∀ (s₁ s₂ : State), s₁.repl = s₂.repl →
    (replay s₁ log).repl = (replay s₂ log).repl ∧ replayResults s₁ log = replayResults s₂ log := by
  induction log with
  | nil => intro s₁ s₂ h; exact ⟨h, rfl⟩
  | cons x rest ih =>
    intro s₁ s₂ h
    obtain ⟨idx, c⟩ := x
    have ha := apply_sim (a := s₁) (b := s₂) h idx c
    have := ih _ _ ha.1
    simp only [replay, List.foldl_cons, replayResults] at this ⊢
    exact ⟨this.1, by rw [ha.2, this.2]⟩

theorem replay_append (s : State) (a b : Log) : replay s (a ++ b) = replay (replay s a) b := by
  simp [replay, List.foldl_append]

theorem replayResults_append (s : State) (a b : Log) :
    replayResults s (a ++ b) = replayResults s a ++ replayResults (replay s a) b := by
  induction a generalizing s with
  | nil => rfl
  | cons x xs ih =>
    obtain ⟨i, c⟩ := x
    simp only [List.cons_append, replayResults, replay, List.foldl_cons, List.cons.injEq, true_and]
    exact ih _

theorem repl_repl (s : State) : s.repl.repl = s.repl := rfl

end CV.Store
