/-
The generic walk of CV.Proofs.StoreCatWalk one level up: predicates on the catalog with gateway-services and
mesh-topology (`GState`) closed under the G-level service / config-entry functions are preserved by every command.
-/
import CV.Proofs.StoreGwProj
import CV.Proofs.StoreCatWalk
namespace CV.Store
open CV

structure GClosed (W : SvcReq → Prop) (Wc : String → String → Prop) (Q : GState → Prop) : Prop where
  aux : ∀ (g : GState) (x' : XState), auxView x' = auxView g.x → Q g → Q { g with x := x' }
  setSt : ∀ (g : GState) (p : String) (st' : State), st'.svcs = (g.x.cat p).st.svcs → Q g →
    Q { g with x := g.x.setCat p { g.x.cat p with st := st' } }
  ensureService : ∀ {g g' : GState} {p node : String} {idx : Nat} {q : SvcReq}, W q →
    ensureServiceG g p idx node q = .ok g' → Q g → Q g'
  deleteService : ∀ {g g' : GState} {p node id : String} {idx : Nat}, deleteServiceG g p idx node id = .ok g' → Q g → Q g'
  configUpsert : ∀ {g g' : GState} {idx : Nat} {kind name tok : String} {dest : Bool}, Wc kind name →
    configUpsertG g idx kind name dest tok = .ok g' → Q g → Q g'
  configDelete : ∀ (g : GState) (idx : Nat) (kind name : String), Wc kind name → Q g → Q (configDeleteG g idx kind name)
  typical : ∀ x : Svc, W (typicalReq x)

/-- the requests of a command satisfy `W`, the (kind, name) of the config entries it names satisfy `Wc` -/
def XCmd.gOk (W : SvcReq → Prop) (Wc : String → String → Prop) : XCmd → Prop
  | .register r => ∀ q, r.svc = some q → W q
  | .txn ops => ∀ op ∈ ops, op.reqOk W
  | .configSet kind name _ _ => Wc kind name
  | .configDelete kind name => Wc kind name
  | _ => True

def XLog.gOk (W : SvcReq → Prop) (Wc : String → String → Prop) (log : XLog) : Prop := ∀ ic ∈ log, ic.2.gOk W Wc

variable {W : SvcReq → Prop} {Wc : String → String → Prop} {Q : GState → Prop}

theorem foldG_ind {β : Type} (Q : GState → Prop) (f : GState → β → Except XErr GState)
    (hf : ∀ st b st', Q st → f st b = .ok st' → Q st') :
    ∀ (l : List β) (s s' : GState), Q s → foldG f l s = .ok s' → Q s' := by
  intro l
  induction l with
  | nil => intro s s' hs h; simp [foldG] at h; exact h ▸ hs
  | cons b bs ih =>
    intro s s' hs h
    simp only [foldG] at h
    split at h
    · next st' heq => exact ih st' s' (hf s b st' hs heq) h
    · simp at h

theorem gc_onSt (hQ : GClosed W Wc Q) {g g' : GState} {p : String} {f : State → Except Err State}
    (h : (g.onX fun s => s.onSt p f) = .ok g') (hf : ∀ st st', f st = .ok st' → st'.svcs = st.svcs) (hs : Q g) : Q g' := by
  unfold GState.onX XState.onSt at h
  simp only at h
  cases hst : f (g.x.cat p).st with
  | error e => rw [hst] at h; simp at h
  | ok st' => rw [hst] at h; simp at h; subst h; exact hQ.setSt g p st' (hf _ _ hst) hs

theorem gc_deleteNodeG (hQ : GClosed W Wc Q) {g g' : GState} {p name : String} {idx : Nat}
    (h : deleteNodeG g p idx name = .ok g') (hs : Q g) : Q g' := by
  unfold deleteNodeG at h
  extract_lets c svcs st1 at h
  split at h
  · simp at h; exact h ▸ hs
  · split at h
    · simp at h
    · next g2 hf2 =>
      have hst1 : st1.svcs = (g.x.cat p).st.svcs := catView_svcs (foldl_bump_view idx _ _)
      have h1 : Q { g with x := g.x.setCat p { c with st := st1 } } := hQ.setSt g p st1 hst1 hs
      have h2 : Q g2 := foldG_ind Q _ (fun st b st' hst hb => hQ.deleteService hb hst) _ _ _ h1 hf2
      extract_lets s2 c2 cs s3 at h
      split at h
      · simp at h
      · next st3 hf3 =>
        extract_lets st5 ids at h
        split at h
        · simp at h
        · next st6 hf6 =>
          simp at h; subst h
          have h3 : Q { g2 with x := s3 } := by
            unfold s3; split
            · exact hQ.aux g2 _ rfl h2
            · exact h2
          have e3 : st3.svcs = c2.st.svcs := svcs_foldE_deleteCheck _ _ _ hf3
          have e5 : st5.svcs = st3.svcs := by
            have := catView_deleteNodePost st3 idx name
            simp only [catView, Prod.mk.injEq] at this
            exact this.2.1
          have e6 : st6.svcs = st5.svcs := svcs_foldE_deleteSession _ _ _ hf6
          have hc2 : s3.cat p = c2 := by
            unfold s3; split <;> rfl
          have := hQ.setSt { g2 with x := s3 } p st6 (by show st6.svcs = (s3.cat p).st.svcs; rw [hc2, e6, e5, e3]) h3
          simp only at this
          rw [hc2] at this
          exact this

theorem gc_ensureNodeG (hQ : GClosed W Wc Q) {g g' : GState} {p : String} {idx : Nat} {node : Node}
    (h : ensureNodeG g p idx node = .ok g') (hs : Q g) : Q g' := by
  unfold ensureNodeG at h
  extract_lets st r at h
  have hr : ∀ g1 byId, r = Except.ok (g1, byId) → Q g1 := by
    intro g1 byId hr
    unfold r at hr
    repeat' (split at hr)
    all_goals (try simp at hr)
    all_goals (obtain ⟨rfl, -⟩ := hr)
    all_goals (first | exact hs | (next hd => exact gc_deleteNodeG hQ hd hs))
  clear_value r
  split at h
  · simp at h
  · next _ g1 byId =>
    have h1 := hr g1 byId rfl
    simp only at h
    have ins : ∀ n, Q { g1 with x := g1.x.setCat p { g1.x.cat p with st := nodeInsert (g1.x.cat p).st n } } := by
      intro n
      refine hQ.setSt g1 p _ ?_ h1
      have := catView_nodeInsert (g1.x.cat p).st n
      simp only [catView, Prod.mk.injEq] at this
      exact this.2.1
    split at h
    · split at h
      · simp at h; exact h ▸ h1
      · simp at h; subst h; exact ins _
    · simp at h; subst h; exact ins _

theorem gc_registerG (hQ : GClosed W Wc Q) {g g' : GState} {idx : Nat} {r : XRegReq}
    (h : registerG g idx r = .ok g') (hw : ∀ q, r.svc = some q → W q) (hs : Q g) : Q g' := by
  unfold registerG at h
  extract_lets p r1 at h
  have h1 : ∀ g1, r1 = Except.ok g1 → Q g1 := by
    intro g1 hr
    unfold r1 at hr
    split at hr
    · split at hr
      · simp at hr; exact hr ▸ hs
      · exact gc_ensureNodeG hQ hr hs
    · exact gc_ensureNodeG hQ hr hs
  clear_value r1
  split at h
  · simp at h
  · next _ g1 =>
    have hs1 := h1 g1 rfl
    extract_lets c1 r2 at h
    have h2 : ∀ g2, r2 = Except.ok g2 → Q g2 := by
      intro g2 hr
      unfold r2 at hr
      split at hr
      · simp at hr; exact hr ▸ hs1
      · next q hq =>
        split at hr
        · split at hr
          · simp at hr; exact hr ▸ hs1
          · exact hQ.ensureService (hw q hq) hr hs1
        · simp at hr
        · exact hQ.ensureService (hw q hq) hr hs1
    clear_value r2
    split at h
    · simp at h
    · next _ g2 => exact gc_onSt hQ h (fun st st' hst => svcs_foldE_checks _ _ _ hst) (h2 g2 rfl)

theorem gc_deregisterG (hQ : GClosed W Wc Q) {g g' : GState} {idx : Nat} {p node svcId chkId : String}
    (h : deregisterG g idx p node svcId chkId = .ok g') (hs : Q g) : Q g' := by
  unfold deregisterG at h
  split at h
  · exact hQ.deleteService h hs
  · split at h
    · exact gc_onSt hQ h (fun st st' hst => (deleteCheck_spec hst).2.1) hs
    · exact gc_deleteNodeG hQ h hs

theorem gc_txnNodeG (hQ : GClosed W Wc Q) {g g' : GState} {idx : Nat} {v : CatVerb} {n : Node} {rs : List TxnRes}
    (h : txnNodeG g idx v n = .ok (g', rs)) (hs : Q g) : Q g' := by
  unfold txnNodeG at h
  cases v <;> simp only at h
  · split at h
    · simp [okResG] at h; exact h.1 ▸ hs
    · simp at h
  · split at h
    · next s1 h1 => simp [okResG] at h; exact h.1 ▸ gc_ensureNodeG hQ h1 hs
    · simp at h
  · split at h
    · next s1 h1 =>
      simp [okResG] at h
      unfold ensureNodeCasG at h1
      split at h1
      · simp at h1
      · split at h1
        · next s2 h2 => simp at h1; exact h.1 ▸ h1 ▸ gc_ensureNodeG hQ h2 hs
        · simp at h1
    · simp at h
    · simp at h
  · split at h
    · next s1 h1 => simp [okResG] at h; exact h.1 ▸ gc_deleteNodeG hQ h1 hs
    · simp at h
  · split at h
    · next s1 h1 =>
      simp [okResG] at h
      unfold deleteNodeCasG at h1
      split at h1
      · simp at h1
      · split at h1
        · simp at h1
        · split at h1
          · next s2 h2 => simp at h1; exact h.1 ▸ h1 ▸ gc_deleteNodeG hQ h2 hs
          · simp at h1
    · simp at h
    · simp at h

theorem gc_txnServiceG (hQ : GClosed W Wc Q) {g g' : GState} {idx : Nat} {v : CatVerb} {node : String} {q : SvcReq} {rs : List TxnRes}
    (h : txnServiceG g idx v node q = .ok (g', rs)) (hw : W q) (hs : Q g) : Q g' := by
  unfold txnServiceG at h
  cases v <;> simp only at h
  · split at h
    · simp [okResG] at h; exact h.1 ▸ hs
    · simp at h
  · split at h
    · next s1 h1 => simp [okResG] at h; exact h.1 ▸ hQ.ensureService hw h1 hs
    · simp at h
  · split at h
    · next s1 h1 =>
      simp [okResG] at h
      unfold ensureServiceCasG at h1
      split at h1
      · simp at h1
      · split at h1
        · next s2 h2 => simp at h1; exact h.1 ▸ h1 ▸ hQ.ensureService hw h2 hs
        · simp at h1
    · simp at h
    · simp at h
  · split at h
    · next s1 h1 => simp [okResG] at h; exact h.1 ▸ hQ.deleteService h1 hs
    · simp at h
  · split at h
    · next s1 h1 =>
      simp [okResG] at h
      unfold deleteServiceCasG at h1
      split at h1
      · simp at h1
      · split at h1
        · simp at h1
        · split at h1
          · next s2 h2 => simp at h1; exact h.1 ▸ h1 ▸ hQ.deleteService h2 hs
          · simp at h1
    · simp at h
    · simp at h

theorem gc_setLocSt (hQ : GClosed W Wc Q) {g : GState} {st' : State} (h : st'.svcs = g.x.loc.st.svcs) (hs : Q g) :
    Q { g with x := { g.x with loc := { g.x.loc with st := st' } } } := by
  have heq : ({ g.x with loc := { g.x.loc with st := st' } } : XState) = g.x.setCat "" { g.x.cat "" with st := st' } := by
    unfold XState.setCat XState.cat; simp
  rw [heq]
  exact hQ.setSt g "" st' (by rw [← loc_eq_cat]; exact h) hs

theorem gc_txnStepG (hQ : GClosed W Wc Q) {g g' : GState} {idx : Nat} {op : XTxnOp} {rs : List TxnRes}
    (h : txnStepG g idx op = .ok (g', rs)) (hw : op.reqOk W) (hs : Q g) : Q g' := by
  cases op with
  | service v node q => exact gc_txnServiceG hQ h hw hs
  | base bop =>
    cases bop with
    | node v n => exact gc_txnNodeG hQ h hs
    | service v x => exact gc_txnServiceG hQ h (hQ.typical x) hs
    | kv v e =>
      simp only [txnStepG] at h
      split at h
      · next st' rs' hst =>
        simp [okResG] at h; obtain ⟨rfl, -⟩ := h
        exact gc_setLocSt hQ (catView_svcs (catView_txnKV hst)) hs
      · simp at h
    | check v c =>
      simp only [txnStepG] at h
      split at h
      · next st' rs' hst =>
        simp [okResG] at h; obtain ⟨rfl, -⟩ := h
        exact gc_setLocSt hQ (svcs_txnCheck hst) hs
      · simp at h
    | sessionDelete id =>
      simp only [txnStepG] at h
      split at h
      · next st' rs' hst =>
        simp [okResG] at h; obtain ⟨rfl, -⟩ := h
        refine gc_setLocSt hQ ?_ hs
        simp only [txnStep] at hst
        split at hst
        · next s1 h1 => simp [okRes] at hst; rw [← hst.1]; exact (casRel_deleteSession h1).svcs
        · simp at hst
      · simp at h

theorem gc_txnLoopG (hQ : GClosed W Wc Q) (idx : Nat) : ∀ (ops : List XTxnOp) (i : Nat) (g : GState) (rs : List TxnRes)
    (es : List (Nat × XErr)), (∀ op ∈ ops, op.reqOk W) → Q g → Q (txnLoopG idx ops i g rs es).1 := by
  intro ops
  induction ops with
  | nil => intro i g rs es _ hs; exact hs
  | cons op rest ih =>
    intro i g rs es hw hs
    have hw' : ∀ op ∈ rest, op.reqOk W := fun o ho => hw o (List.mem_cons_of_mem _ ho)
    simp only [txnLoopG]
    split
    · next g' r hstep => exact ih _ _ _ _ hw' (gc_txnStepG hQ hstep (hw op List.mem_cons_self) hs)
    · exact ih _ _ _ _ hw' hs

theorem gc_txnRWG (hQ : GClosed W Wc Q) {g : GState} (idx : Nat) (ops : List XTxnOp) (hw : ∀ op ∈ ops, op.reqOk W) (hs : Q g) :
    Q (txnRWG g idx ops).1 := by
  unfold txnRWG
  have := gc_txnLoopG hQ idx ops 0 g [] [] hw hs
  generalize txnLoopG idx ops 0 g [] [] = r at this
  obtain ⟨g', rs, es⟩ := r
  simp only
  split
  · exact this
  · exact hs

theorem gc_liftSG {g : GState} {r : Except XErr GState} (hs : Q g) (hr : ∀ g', r = .ok g' → Q g') : Q (liftSG g r).1 := by
  cases r with
  | ok g' => exact hr g' rfl
  | error e => exact hs

theorem gc_coordUpdate (hQ : GClosed W Wc Q) (g : GState) (us : List CoordRow) (hs : Q g) : Q { g with x := coordUpdate g.x us } := by
  refine hQ.aux g _ ?_ hs
  unfold coordUpdate
  induction us generalizing g with
  | nil => rfl
  | cons u rest ih =>
    simp only [List.foldl_cons]
    split
    · exact (ih { g with x := { g.x with coords := tupsert CoordRow.pk strLt u g.x.coords } } (hQ.aux g _ rfl hs))
    · exact ih g hs

theorem gc_stepG (hQ : GClosed W Wc Q) {g : GState} (idx : Nat) (c : XCmd) (hw : c.gOk W Wc) (hs : Q g) : Q (stepG g idx c).1 := by
  cases c with
  | register r => exact gc_liftSG hs (fun g' h => gc_registerG hQ h hw hs)
  | deregister p node svcId chkId => exact gc_liftSG hs (fun g' h => gc_deregisterG hQ h hs)
  | coords us => exact gc_coordUpdate hQ g us hs
  | sysmeta k v =>
    show Q { g with x := sysMetaSet g.x k v }
    refine hQ.aux g _ ?_ hs
    unfold sysMetaSet; cases v <;> rfl
  | configSet kind name dest tok => exact gc_liftSG hs (fun g' h => hQ.configUpsert hw h hs)
  | configDelete kind name => exact hQ.configDelete g idx kind name hw hs
  | txn ops => simp only [stepG]; exact gc_txnRWG hQ idx ops hw hs
  | store c =>
    have plain : ∀ (c' : Cmd), c'.isPlain = true →
        Q { g with x := { g.x with loc := { g.x.loc with st := (apply g.x.loc.st idx c').1 } } } :=
      fun c' hc => gc_setLocSt hQ (svcs_apply_plain idx c' hc) hs
    cases c with
    | register r =>
      refine gc_liftSG hs (fun g' h => gc_registerG hQ h ?_ hs)
      intro q hq
      simp only [Option.map_eq_some_iff] at hq
      obtain ⟨x, -, rfl⟩ := hq
      exact hQ.typical x
    | deregister node svcId chkId => exact gc_liftSG hs (fun g' h => gc_deregisterG hQ h hs)
    | txn ops =>
      simp only [stepG]
      refine gc_txnRWG hQ idx _ ?_ hs
      intro op hop
      obtain ⟨b, -, rfl⟩ := List.mem_map.mp hop
      trivial
    | kvSet e => exact plain (.kvSet e) rfl
    | kvCas e => exact plain (.kvCas e) rfl
    | kvDelete k => exact plain (.kvDelete k) rfl
    | kvDeleteCas k ci => exact plain (.kvDeleteCas k ci) rfl
    | kvDeleteTree p => exact plain (.kvDeleteTree p) rfl
    | kvLock e => exact plain (.kvLock e) rfl
    | kvUnlock e => exact plain (.kvUnlock e) rfl
    | sessionCreate r => exact plain (.sessionCreate r) rfl
    | sessionDestroy id => exact plain (.sessionDestroy id) rfl
    | reap u => exact plain (.reap u) rfl
    | pqSet id sess => exact plain (.pqSet id sess) rfl
    | pqDelete id => exact plain (.pqDelete id) rfl

theorem gc_applyG (hQ : GClosed W Wc Q) {g : GState} (idx : Nat) (c : XCmd) (hw : c.gOk W Wc) (hs : Q g) : Q (applyG g idx c).1 := by
  unfold applyG
  have h := gc_stepG hQ idx c hw hs
  generalize stepG g idx c = r at h
  obtain ⟨g', res⟩ := r
  exact hQ.aux g' _ rfl h

theorem gc_replayG (hQ : GClosed W Wc Q) : ∀ (log : XLog) (g : GState), XLog.gOk W Wc log → Q g → Q (replayG g log) := by
  intro log
  induction log with
  | nil => intro g _ hs; exact hs
  | cons ic rest ih =>
    intro g hw hs
    unfold replayG
    simp only [List.foldl_cons]
    exact ih _ (fun x hx => hw x (List.mem_cons_of_mem _ hx)) (gc_applyG hQ ic.1 ic.2 (hw ic List.mem_cons_self) hs)

end CV.Store
