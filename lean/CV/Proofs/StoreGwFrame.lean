/-
Stage 2 of C07: the gateway-services functions touch the mesh-topology table only at pairs whose downstream is a
gateway name. `Gn` is a set of (lower-cased, NUL-free) gateway names; when every gateway-services row belongs to a
gateway of `Gn`, each function keeps that property and leaves the topology rows with another downstream alone (`TStep`).
-/
import CV.Proofs.StoreGwWalk
import CV.Proofs.StoreCatDerived
namespace CV.Store
open CV

theorem pk2_inj_right {a b a' b' : String} (hb : NF b) (hb' : NF b') (h : pk2 a b = pk2 a' b') :
    lc a = lc a' ∧ lc b = lc b' := by
  unfold pk2 at h
  have h2 := congrArg String.toList h
  simp only [String.toList_append, nul_toList, List.append_assoc, List.singleton_append] at h2
  have h3 := congrArg List.reverse h2
  simp only [List.reverse_append, List.reverse_cons, List.append_assoc, List.singleton_append] at h3
  have n1 : nulC ∉ (lc b).toList.reverse := by rw [List.mem_reverse]; exact hb
  have n2 : nulC ∉ (lc b').toList.reverse := by rw [List.mem_reverse]; exact hb'
  obtain ⟨r1, r2⟩ := list_split_inj nulC _ _ _ _ n1 n2 h3
  exact ⟨String.ext (List.reverse_inj.mp r2), String.ext (List.reverse_inj.mp r1)⟩

section Frame
variable (Gn : List String)

/-- every gateway-services row belongs to a gateway of `Gn`; every topology row has a NUL-free downstream -/
structure TOk (T : GTabs) : Prop where
  names : ∀ m ∈ T.gw, lc m.gateway ∈ Gn
  nf : ∀ r ∈ T.topo, NF r.dn

/-- the step keeps `TOk` and the topology rows whose downstream is not a gateway of `Gn` -/
structure TStep (T T' : GTabs) : Prop where
  ok : TOk Gn T'
  out : ∀ r, lc r.dn ∉ Gn → (r ∈ T'.topo ↔ r ∈ T.topo)

variable {Gn}

theorem TStep.refl {T : GTabs} (h : TOk Gn T) : TStep Gn T T := ⟨h, fun _ _ => Iff.rfl⟩

theorem TStep.trans {T T1 T2 : GTabs} (h1 : TStep Gn T T1) (h2 : TStep Gn T1 T2) : TStep Gn T T2 :=
  ⟨h2.ok, fun r hr => (h2.out r hr).trans (h1.out r hr)⟩

theorem nf_of_mem (hGn : ∀ n ∈ Gn, NF n) {x : String} (h : lc x ∈ Gn) : NF x :=
  (NF_congr (lc_idem x)).mp (hGn _ h)

/-- a row whose downstream is outside `Gn` does not have the key of a pair with a downstream inside -/
theorem key_ne_of_out (hGn : ∀ n ∈ Gn, NF n) {r : TopoRow} (hnf : NF r.dn) (hr : lc r.dn ∉ Gn) {s gname : String}
    (hg : lc gname ∈ Gn) : r.pk ≠ pk2 s gname := by
  intro hk
  exact hr ((pk2_inj_right hnf (nf_of_mem hGn hg) hk).2 ▸ hg)

theorem tstep_foldl {β : Type} (f : GTabs → β → GTabs) (l : List β)
    (hf : ∀ T b, b ∈ l → TOk Gn T → TStep Gn T (f T b)) : ∀ (T : GTabs), TOk Gn T → TStep Gn T (l.foldl f T) := by
  induction l with
  | nil => intro T h; exact TStep.refl h
  | cons b bs ih =>
    intro T h
    simp only [List.foldl_cons]
    have h1 := hf T b List.mem_cons_self h
    exact h1.trans (ih (fun T' b' hb' => hf T' b' (List.mem_cons_of_mem _ hb')) _ h1.ok)

theorem tstep_topo_upsert (hGn : ∀ n ∈ Gn, NF n) {T : GTabs} (h : TOk Gn T) (gw' : List GwRow) (hgw : ∀ m ∈ gw', lc m.gateway ∈ Gn)
    (new : TopoRow) (hnew : lc new.dn ∈ Gn) : TStep Gn T { gw := gw', topo := tupsert TopoRow.pk strLt new T.topo } := by
  refine ⟨⟨hgw, ?_⟩, ?_⟩
  · intro r hr
    rcases mem_tupsert hr with rfl | hr
    · exact nf_of_mem hGn hnew
    · exact h.nf r hr
  · intro r hr
    constructor
    · intro hm
      rcases mem_tupsert hm with rfl | hm
      · exact absurd hnew hr
      · exact hm
    · intro hm
      rcases mem_tupsert_of_mem (lt := strLt) (r := new) hm with h1 | h1
      · exact h1
      · exact absurd h1 (key_ne_of_out hGn (h.nf r hm) hr (s := new.up) hnew)

theorem tstep_topo_erase (hGn : ∀ n ∈ Gn, NF n) {T : GTabs} (h : TOk Gn T) (gw' : List GwRow) (hgw : ∀ m ∈ gw', lc m.gateway ∈ Gn)
    (s gname : String) (hg : lc gname ∈ Gn) : TStep Gn T { gw := gw', topo := terase TopoRow.pk (pk2 s gname) T.topo } := by
  refine ⟨⟨hgw, fun r hr => h.nf r (mem_terase.mp hr).1⟩, ?_⟩
  intro r hr
  rw [mem_terase]
  exact ⟨fun hm => hm.1, fun hm => ⟨hm, key_ne_of_out hGn (h.nf r hm) hr hg⟩⟩

theorem tstep_gw_only {T : GTabs} (h : TOk Gn T) (gw' : List GwRow) (hgw : ∀ m ∈ gw', lc m.gateway ∈ Gn) :
    TStep Gn T { gw := gw', topo := T.topo } :=
  ⟨⟨hgw, h.nf⟩, fun _ _ => Iff.rfl⟩

theorem tstep_gwUpdate (hGn : ∀ n ∈ Gn, NF n) {T : GTabs} (h : TOk Gn T) (idx : Nat) (m : GwRow) (hm : lc m.gateway ∈ Gn) :
    TStep Gn T (gwUpdate T idx m) := by
  unfold gwUpdate
  extract_lets m1
  cases hm1 : m1 with
  | none => exact TStep.refl h
  | some m' =>
    simp only
    have hgate : m'.gateway = m.gateway := by
      unfold m1 at hm1
      split at hm1
      · split at hm1
        · simp at hm1
        · simp at hm1; rw [← hm1]
      · simp at hm1; rw [← hm1]
    have hgw : ∀ x ∈ tupsert GwRow.pk strLt m' T.gw, lc x.gateway ∈ Gn := by
      intro x hx
      rcases mem_tupsert hx with rfl | hx
      · rw [hgate]; exact hm
      · exact h.names x hx
    unfold topoIngressInsert
    split
    · exact tstep_gw_only h _ hgw
    · exact tstep_topo_upsert hGn h _ hgw _ (by show lc m'.gateway ∈ Gn; rw [hgate]; exact hm)

theorem tstep_gwNamespace (hGn : ∀ n ∈ Gn, NF n) {T : GTabs} (h : TOk Gn T) (x : XState) (idx : Nat) (w : GwRow)
    (hw : lc w.gateway ∈ Gn) : TStep Gn T (gwNamespace T x idx w) := by
  unfold gwNamespace
  extract_lets T1 T2
  have h1 : TStep Gn T T1 := by
    unfold T1
    refine tstep_foldl _ _ ?_ T h
    intro T' r _ hT'
    simp only
    repeat' split
    all_goals first | exact TStep.refl hT' | exact tstep_gwUpdate hGn hT' idx _ hw
  have h2 : TStep Gn T1 T2 := by
    unfold T2
    refine tstep_foldl _ _ ?_ T1 h1.ok
    intro T' c _ hT'
    repeat' split
    all_goals first | exact TStep.refl hT' | exact tstep_gwUpdate hGn hT' idx _ hw
  exact h1.trans (h2.trans (tstep_gwUpdate hGn h2.ok idx w hw))

theorem tstep_gwCheckWildcards (hGn : ∀ n ∈ Gn, NF n) {T : GTabs} (h : TOk Gn T) (x : XState) (idx : Nat) (name : String)
    (ns : Option Bool) (kind : GsKind) : TStep Gn T (gwCheckWildcards T x idx name ns kind) := by
  unfold gwCheckWildcards
  refine tstep_foldl _ _ ?_ T h
  intro T' w hwm hT'
  have hw : lc w.gateway ∈ Gn := h.names w (List.mem_filter.mp hwm).1
  repeat' split
  all_goals first | exact TStep.refl hT' | exact tstep_gwUpdate hGn hT' idx _ hw

theorem tstep_gwCheck (hGn : ∀ n ∈ Gn, NF n) {T : GTabs} (h : TOk Gn T) (idx : Nat) (name : String) (kind : GsKind) :
    TStep Gn T (gwCheck T idx name kind) := by
  unfold gwCheck
  split
  · next g hg => exact tstep_gwUpdate hGn h idx _ (h.names g (List.mem_of_find?_eq_some hg))
  · exact TStep.refl h

theorem tstep_gwCleanup (hGn : ∀ n ∈ Gn, NF n) {T : GTabs} (h : TOk Gn T) (x : XState) (idx : Nat) (name : String) (c : Bool) :
    TStep Gn T (gwCleanup T x idx name c) := by
  unfold gwCleanup
  simp only
  refine tstep_foldl _ _ ?_ T h
  intro T' m hmm hT'
  have hm : lc m.gateway ∈ Gn := h.names m (List.mem_filter.mp hmm).1
  have hgw : ∀ y ∈ terase GwRow.pk m.pk T'.gw, lc y.gateway ∈ Gn := fun y hy => hT'.names y (mem_terase.mp hy).1
  repeat' split
  all_goals first
    | exact TStep.refl hT'
    | exact tstep_gwCheck hGn hT' idx _ _
    | exact tstep_topo_erase hGn hT' _ hgw _ _ hm
    | exact tstep_gw_only hT' _ hgw

theorem tstep_gwConfigSet (hGn : ∀ n ∈ Gn, NF n) {T : GTabs} (h : TOk Gn T) (x : XState) (idx : Nat) (kind name tok : String)
    (hn : kind = "ingress-gateway" ∨ kind = "terminating-gateway" → lc name ∈ Gn) : TStep Gn T (gwConfigSet T x idx kind name tok) := by
  unfold gwConfigSet
  by_cases hk : kind ≠ "ingress-gateway" ∧ kind ≠ "terminating-gateway"
  · rw [if_pos hk]; exact TStep.refl h
  · rw [if_neg hk]
    have hname : lc name ∈ Gn := by
      apply hn
      by_cases h1 : kind = "ingress-gateway"
      · exact Or.inl h1
      · exact Or.inr (Classical.byContradiction fun h2 => hk ⟨h1, h2⟩)
    extract_lets noChange T0
    by_cases hc : noChange = true
    · rw [if_pos hc]; exact TStep.refl h
    · rw [if_neg hc]
      have h0 : TStep Gn T T0 := by
        unfold T0
        refine ⟨⟨fun m hm => h.names m (List.mem_filter.mp hm).1, ?_⟩, ?_⟩
        · intro r hr
          simp only at hr
          split at hr
          · exact h.nf r (List.mem_filter.mp hr).1
          · exact h.nf r hr
        · intro r hr
          simp only
          split
          · rw [List.mem_filter]
            refine ⟨fun hm => hm.1, fun hm => ⟨hm, ?_⟩⟩
            simp only [bne_iff_ne, ne_eq]
            exact fun he => hr (he ▸ hname)
          · exact Iff.rfl
      refine h0.trans (tstep_foldl _ _ ?_ _ h0.ok)
      intro T' m hmm hT'
      have hm : lc m.gateway ∈ Gn := by
        unfold cfgGwRows at hmm
        repeat' split at hmm
        all_goals (try simp at hmm)
        · obtain ⟨l, _, hl⟩ := hmm
          split at hl
          · simp at hl
            obtain ⟨n, _, rfl⟩ := hl
            exact hname
          · simp at hl
        · obtain ⟨n, _, rfl⟩ := hmm
          exact hname
      split
      · exact tstep_gwNamespace hGn hT' x idx m hm
      · exact tstep_gwUpdate hGn hT' idx m hm

end Frame

end CV.Store
