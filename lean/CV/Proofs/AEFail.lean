/-
Records whose RPC fails are left exactly as they were.
-/
import CV.Proofs.AEClean
namespace CV.AE
open AMap

def Failed (o : Outcome) : Prop := o = .fail ∨ o = .lost

theorem svcStep_svcs_self_failed (cfg : Cfg) (f : Faults) (s : St) (id : Id) (h : Failed (f.svc id)) :
    (svcStep cfg f s id).l.svcs = s.l.svcs := by
  have hdel : (deleteService f id s).l.svcs = s.l.svcs := by
    unfold deleteService; split
    · rfl
    · rcases h with h | h <;> rw [h]
  unfold svcStep
  split
  · rfl
  · exact hdel
  · exact hdel
  · unfold syncService; simp only
    rcases h with h | h <;> rw [h]
    simp only; split <;> rfl
  · rfl

theorem fold_svcs_failed (cfg : Cfg) (f : Faults) (id : Id) (h : Failed (f.svc id)) (ks : List Id) :
    ∀ s : St, (ks.foldl (svcStep cfg f) s).l.svcs.get? id = s.l.svcs.get? id := by
  induction ks with
  | nil => intro s; rfl
  | cons i ks ih =>
    intro s
    simp only [List.foldl_cons]
    rw [ih]
    by_cases e : id = i
    · subst e; rw [svcStep_svcs_self_failed cfg f s id h]
    · exact svcStep_svcs_other cfg f s i id e

theorem chkFold_svcs (cfg : Cfg) (f : Faults) (ks : List Id) :
    ∀ s : St, (ks.foldl (chkStep cfg f) s).l.svcs = s.l.svcs := by
  induction ks with
  | nil => intro s; rfl
  | cons k ks ih => intro s; simp only [List.foldl_cons]; rw [ih, chkStep_svcs]

/-- what a service step can do to the record of a check -/
theorem svcStep_chks_frame (cfg : Cfg) (f : Faults) (s : St) (id k : Id) :
    (svcStep cfg f s id).l.chks.get? k = s.l.chks.get? k ∨
    (∃ d tok loc b del, s.l.chks.get? k = some (.ent d tok loc b del) ∧ d.sid = id ∧ ¬ Failed (f.svc id)) := by
  have hdel : (deleteService f id s).l.chks.get? k = s.l.chks.get? k ∨
      (∃ d tok loc b del, s.l.chks.get? k = some (.ent d tok loc b del) ∧ d.sid = id ∧ ¬ Failed (f.svc id)) := by
    unfold deleteService; split
    · exact Or.inl rfl
    · cases ho : f.svc id with
      | denied => exact Or.inl rfl
      | fail => exact Or.inl rfl
      | lost => exact Or.inl rfl
      | ok =>
        simp only
        have := dropSvc_chks s.l id k
        unfold dropSvc at this; simp only at this
        rw [this]
        cases hk : s.l.chks.get? k with
        | none => exact Or.inl rfl
        | some e =>
          simp only
          cases hp : pruneKeep id k e with
          | true => exact Or.inl (by simp)
          | false =>
            obtain ⟨d, tok, loc, b, rfl, hsid⟩ := pruneKeep_false hp
            exact Or.inr ⟨d, tok, loc, b, true, rfl, hsid, by unfold Failed; simp⟩
  have hmark : ∀ tok loc, f.svc id = .ok ∨ f.svc id = .denied →
      (markChks (markSvc s.l id) ((piggy cfg s.l id (effTok cfg tok loc)).map (·.1))).chks.get? k = s.l.chks.get? k ∨
      (∃ d tok loc b del, s.l.chks.get? k = some (.ent d tok loc b del) ∧ d.sid = id ∧ ¬ Failed (f.svc id)) := by
    intro tok loc ho
    rw [markChks_chks]
    split
    · rename_i hk
      rw [List.mem_map] at hk
      obtain ⟨⟨k', dk⟩, hm, rfl⟩ := hk
      obtain ⟨t, lo, h1, h2, _⟩ := piggy_mem hm
      exact Or.inr ⟨dk, t, lo, false, false, h1, h2, by unfold Failed; rcases ho with ho | ho <;> rw [ho] <;> simp⟩
    · exact Or.inl rfl
  unfold svcStep
  split
  · exact Or.inl rfl
  · exact hdel
  · exact hdel
  · rename_i d tok loc he
    unfold syncService; simp only
    cases ho : f.svc id with
    | denied => have := hmark tok loc (Or.inr ho); rw [ho] at this; exact this
    | fail => exact Or.inl rfl
    | ok =>
      simp only; split
      · exact Or.inl rfl
      · have := hmark tok loc (Or.inl ho); rw [ho] at this; exact this
    | lost => simp only; split <;> exact Or.inl rfl
  · exact Or.inl rfl

theorem chkStep_chks_self_failed (cfg : Cfg) (f : Faults) (s : St) (k : Id) (h : Failed (f.chk k)) :
    (chkStep cfg f s k).l.chks = s.l.chks := by
  have hdel : (deleteCheck f k s).l.chks = s.l.chks := by
    unfold deleteCheck; split
    · rfl
    · rcases h with h | h <;> rw [h]
  unfold chkStep
  split
  · rfl
  · exact hdel
  · exact hdel
  · unfold syncCheck; simp only
    rcases h with h | h <;> rw [h]
    · rfl
    · simp only; split <;> rfl
  · rfl

/-- the record of a check survives the service loop untouched when the RPC of the service it is
    bound to fails -/
theorem svcFold_chk_failed (cfg : Cfg) (f : Faults) (k : Id) (e : Ent ChkDef)
    (hs : ∀ d tok loc b del, e = .ent d tok loc b del → Failed (f.svc d.sid)) (ks : List Id) :
    ∀ s : St, s.l.chks.get? k = some e → (ks.foldl (svcStep cfg f) s).l.chks.get? k = some e := by
  induction ks with
  | nil => intro s h; exact h
  | cons i ks ih =>
    intro s h
    simp only [List.foldl_cons]
    apply ih
    rcases svcStep_chks_frame cfg f s i k with h' | ⟨d, tok, loc, b, del, h1, h2, h3⟩
    · rw [h', h]
    · rw [h] at h1; cases h1
      exact absurd (h2 ▸ hs d tok loc b del rfl) h3

theorem chkFold_chk_failed (cfg : Cfg) (f : Faults) (k : Id) (h : Failed (f.chk k)) (ks : List Id) :
    ∀ s : St, (ks.foldl (chkStep cfg f) s).l.chks.get? k = s.l.chks.get? k := by
  induction ks with
  | nil => intro s; rfl
  | cons i ks ih =>
    intro s
    simp only [List.foldl_cons]
    rw [ih]
    by_cases e : k = i
    · subst e; rw [chkStep_chks_self_failed cfg f s k h]
    · exact chkStep_chks_other cfg f s i k e

end CV.AE
