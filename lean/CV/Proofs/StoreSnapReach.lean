/-
C02 round 4, part E: `SnapWF` holds in every state reachable from the empty store by a disciplined log.

`SnapDisc log` (decidable) excludes exactly the log shapes the proof cannot do without:
  * two spellings of one node name (differing by case) — known findings `snap:case-folding:*`;
  * a service instance (node, id) registered under two names, i.e. renamed in place — known findings
    `snap:checks:ServiceName:stale-online-copy` / `snap:kind-service-names:row-stale-after-service-renamed`
    (the stored checks keep the old name, `restore_snapshot_store_counterexample`);
  * a session created under the ID of a session that is live at that point of the history (insertSessionTxn
    replaces the row and leaves the old session's check links behind; the servers draw fresh UUIDs, so no real
    history has this shape — `sessNewB` replays the model to see which sessions are live);
  * NUL characters in node names and session IDs (they are separators of the composite memdb keys);
  * Raft index 0 (a node created at index 0 has CreateIndex 0, which `Restore.Registration` cannot tell from
    "no such node" — Raft indexes start at 1).
-/
import CV.Proofs.StoreSnapReachD
import CV.Proofs.StoreSorted
set_option linter.unusedSectionVars false
set_option linter.unusedSimpArgs false
set_option linter.unusedVariables false
namespace CV.Store
open CV

/-! ### `W` is closed under every primitive, hence under `apply` -/

theorem w_closed (N : Names) (C : List String) (i : Nat) (hi : i ≠ 0) :
    PrimClosedK i N.guard (FreshId C) (W N C LSc) where
  idxPos := hi
  kvInsert s e _ he h := h.kvInsert e he
  kvDelete s s' k hr h := h.kvDelete hr
  kvDeleteTree s p _ h := h.kvDeleteTree i p
  sessionDrop s id sess _ h := h.sessionDrop i id sess
  checkPrep s s1 p hc hc1 md hr _ h := W.checkPrep hr h
  checkFinish sA s1 s p hc hc1 md hr hC hcas _ hA h := W.checkFinish hr hC hcas hA h
  chkRows s h c hc := h.cat.chkN c hc
  insertSession s x hF h := h.insertSession x i hF
  pqSet s s' id sess hr h := W.pqSet hr h
  pqDelete s id h := h.pqDelete i id
  nodeInsert s n _ hN hcr hctx h := h.nodeInsert n hN hcr hctx
  nodeNames s h := h.cat.nodeN
  nodeCreate s h := h.cat.nodeCreate
  nodeIds s h := h.cat.nodeIds
  deleteCheckPre s node id x _ h := h.deleteCheckPre i node id x
  deleteServicePost s node id v hN _ hno h := h.deleteServicePost i node id v hN hno
  deleteNodePost s name _ nosvc nochk h := h.deleteNodePost i name nosvc nochk
  bumpServiceIdx s name _ h := h.bump i name
  svcInsert s v _ hS hN hnode h := h.svcInsert v hS hN hnode

theorem w_apply {N : Names} {C : List String} {s : State} (i : Nat) (hi : i ≠ 0) (c : Cmd) (hG : c.ok N.guard)
    (hF : ∀ r, c = .sessionCreate r → FreshId C s r.id) (h : W N C LSc s) : W N C LSc (apply s i c).1 := by
  by_cases hc : ∀ u, c ≠ .reap u
  · exact pk_apply (w_closed N C i hi) c hc hG hF h
  · have : ∃ u, c = .reap u := by
      cases c <;> simp at hc ⊢
    obtain ⟨u, rfl⟩ := this
    exact h.reap u

theorem W.mono {N : Names} {C C' : List String} {L : List SessCheck → List Sess → Prop} {s : State}
    (h : W N C L s) (hC : ∀ a ∈ C, a ∈ C') : W N C' L s :=
  ⟨h.kv, ⟨h.sess.sessS, h.sess.sessNF, fun x hx => hC _ (h.sess.sessIn x hx), h.sess.sc⟩, h.cat, h.pqS, h.idx, h.cov⟩

theorem w_empty (N : Names) : W N [] LSc State.empty := by
  refine ⟨⟨?_, ?_, ?_⟩, ⟨?_, ?_, ?_, rfl⟩, ⟨?_, ?_, ?_, ?_, ?_, ?_, ?_, ?_, ?_, ?_, ?_, ?_, ?_⟩, ?_, idxNF_nil, ⟨?_, ?_, ?_, ?_, ?_, ?_, ?_⟩⟩
  all_goals (first
    | exact tsorted_nil _ _
    | (intro x hx; simp [State.empty] at hx))

/-! ### the log discipline -/

/-- the session ID a command creates -/
def Cmd.sessId : Cmd → Option String
  | .sessionCreate r => some r.id
  | _ => none

/-- the session IDs a log creates, in order -/
def sessIds (log : Log) : List String := log.filterMap (fun ic => ic.2.sessId)

/-- every session is created under a NUL-free ID that is not live at that point of the history -/
def sessNewB : State → Log → Bool
  | _, [] => true
  | s, (i, c) :: rest =>
    (match c.sessId with
      | some id => decide (NF id) && (sessFind s id).isNone
      | none => true) && sessNewB (apply s i c).1 rest

/-- the naming part of the discipline -/
structure NameDisc (log : Log) : Prop where
  /-- Raft indexes start at 1 -/
  idxPos : ∀ ic ∈ log, ic.1 ≠ 0
  /-- node names are NUL-free and come in one spelling -/
  nodes : ∀ ic ∈ log, ∀ a ∈ ic.2.nodes, NF a ∧ ∀ ic' ∈ log, ∀ b ∈ ic'.2.nodes, lc a = lc b → a = b
  /-- an instance key is registered under one service name -/
  svcs : ∀ ic ∈ log, ∀ t ∈ ic.2.svcs, ∀ ic' ∈ log, ∀ u ∈ ic'.2.svcs, pk2 t.1 t.2.1 = pk2 u.1 u.2.1 → t.2.2 = u.2.2
  /-- check payloads name NUL-free nodes -/
  chks : ∀ ic ∈ log, ∀ t ∈ ic.2.chks, NF t.1

structure SnapDisc (log : Log) : Prop extends NameDisc log where
  /-- session IDs are NUL-free and not live when they are created -/
  sessNew : sessNewB State.empty log = true

instance (log : Log) : Decidable (SnapDisc log) :=
  decidable_of_iff
    ((∀ ic ∈ log, ic.1 ≠ 0) ∧
     (∀ ic ∈ log, ∀ a ∈ ic.2.nodes, NF a ∧ ∀ ic' ∈ log, ∀ b ∈ ic'.2.nodes, lc a = lc b → a = b) ∧
     (∀ ic ∈ log, ∀ t ∈ ic.2.svcs, ∀ ic' ∈ log, ∀ u ∈ ic'.2.svcs, pk2 t.1 t.2.1 = pk2 u.1 u.2.1 → t.2.2 = u.2.2) ∧
     (∀ ic ∈ log, ∀ t ∈ ic.2.chks, NF t.1) ∧ sessNewB State.empty log = true)
    ⟨fun ⟨a, b, c, d, e⟩ => ⟨⟨a, b, c, d⟩, e⟩, fun ⟨⟨a, b, c, d⟩, e⟩ => ⟨a, b, c, d, e⟩⟩

theorem sessNewB_take (log : Log) : ∀ (s : State) (k : Nat), sessNewB s log = true → sessNewB s (log.take k) = true := by
  induction log with
  | nil => intro s k h; simp [sessNewB]
  | cons ic rest ih =>
    intro s k h
    obtain ⟨i, c⟩ := ic
    cases k with
    | zero => simp [sessNewB]
    | succ k =>
      simp only [List.take_succ_cons, sessNewB, Bool.and_eq_true] at h ⊢
      exact ⟨h.1, ih _ k h.2⟩

theorem SnapDisc.take {log : Log} (h : SnapDisc log) (k : Nat) : SnapDisc (log.take k) := by
  have hm : ∀ ic ∈ log.take k, ic ∈ log := fun ic hic => List.mem_of_mem_take hic
  refine ⟨⟨fun ic hic => h.idxPos ic (hm ic hic), ?_, ?_, fun ic hic => h.chks ic (hm ic hic)⟩,
    sessNewB_take log _ k h.sessNew⟩
  · intro ic hic a ha
    obtain ⟨h1, h2⟩ := h.nodes ic (hm ic hic) a ha
    exact ⟨h1, fun ic' hic' b hb => h2 ic' (hm ic' hic') b hb⟩
  · intro ic hic t ht ic' hic' u hu
    exact h.svcs ic (hm ic hic) t ht ic' (hm ic' hic') u hu

/-- the naming discipline a log follows: the name of the first payload with the key -/
def Names.ofLog (log : Log) : Names where
  nm key := match (log.flatMap (fun ic => ic.2.svcs)).find? (fun t => pk2 t.1 t.2.1 == key) with
    | some t => t.2.2
    | none => ""
  sp k := match (log.flatMap (fun ic => ic.2.nodes)).find? (fun a => lc a == k) with
    | some a => a
    | none => ""

theorem NameDisc.guard {log : Log} (h : NameDisc log) : ∀ ic ∈ log, ic.2.ok (Names.ofLog log).guard := by
  intro ic hic
  refine ⟨fun _ _ => trivial, ?_, ?_, ?_⟩
  · intro t ht
    show t.2.2 = (Names.ofLog log).nm (pk2 t.1 t.2.1)
    unfold Names.ofLog
    simp only
    have hmem : t ∈ log.flatMap (fun ic => ic.2.svcs) := List.mem_flatMap.mpr ⟨ic, hic, ht⟩
    cases hf : (log.flatMap (fun ic => ic.2.svcs)).find? (fun u => pk2 u.1 u.2.1 == pk2 t.1 t.2.1) with
    | none =>
      rw [List.find?_eq_none] at hf
      exact absurd (hf t hmem) (by simp)
    | some u =>
      have hu := List.mem_of_find?_eq_some hf
      have hk := List.find?_some hf
      obtain ⟨ic', hic', hu'⟩ := List.mem_flatMap.mp hu
      simp only
      exact h.svcs ic hic t ht ic' hic' u hu' (by have := hk; simp at this; exact this.symm)
  · intro a ha
    obtain ⟨h1, h2⟩ := h.nodes ic hic a ha
    refine ⟨h1, ?_⟩
    show a = (Names.ofLog log).sp (lc a)
    unfold Names.ofLog
    simp only
    have hmem : a ∈ log.flatMap (fun ic => ic.2.nodes) := List.mem_flatMap.mpr ⟨ic, hic, ha⟩
    cases hf : (log.flatMap (fun ic => ic.2.nodes)).find? (fun b => lc b == lc a) with
    | none =>
      rw [List.find?_eq_none] at hf
      exact absurd (hf a hmem) (by simp)
    | some b =>
      have hb := List.mem_of_find?_eq_some hf
      have hk := List.find?_some hf
      obtain ⟨ic', hic', hb'⟩ := List.mem_flatMap.mp hb
      simp only
      exact h2 ic' hic' b hb' (by have := hk; simp at this; exact this.symm)
  · intro t ht
    exact h.chks ic hic t ht

/-! ### reachability -/

/-- the walk along the log; `C` is any list that contains the (lower-cased) session IDs the log creates -/
theorem w_replay (N : Names) (C : List String) (log : Log) : ∀ (s : State), W N C LSc s →
    (∀ ic ∈ log, ic.1 ≠ 0 ∧ ic.2.ok N.guard) → (∀ a ∈ sessIds log, lc a ∈ C) → sessNewB s log = true →
    W N C LSc (replay s log) := by
  induction log with
  | nil => intro s h _ _ _; exact h
  | cons ic rest ih =>
    intro s h hok hin hnew
    obtain ⟨i, c⟩ := ic
    obtain ⟨hi, hG⟩ := hok (i, c) List.mem_cons_self
    have hok' : ∀ ic ∈ rest, ic.1 ≠ 0 ∧ ic.2.ok N.guard := fun x hx => hok x (List.mem_cons_of_mem _ hx)
    simp only [sessNewB, Bool.and_eq_true] at hnew
    obtain ⟨hnew1, hnew2⟩ := hnew
    show W N C LSc (replay (apply s i c).1 rest)
    have hin' : ∀ a ∈ sessIds rest, lc a ∈ C := by
      intro a ha
      refine hin a ?_
      unfold sessIds at ha ⊢
      rw [List.filterMap_cons]
      split
      · exact ha
      · exact List.mem_cons_of_mem _ ha
    refine ih _ (w_apply i hi c hG ?_ h) hok' hin' hnew2
    intro r hr; subst hr
    simp only [Cmd.sessId, Bool.and_eq_true, decide_eq_true_eq] at hnew1
    obtain ⟨hnf, hnone⟩ := hnew1
    refine ⟨hnf, hin r.id (by simp [sessIds, List.filterMap_cons, Cmd.sessId]), ?_⟩
    intro y hy e
    have hfn : sessFind s r.id = none := by
      cases hf : sessFind s r.id with
      | none => rfl
      | some x => rw [hf] at hnone; simp at hnone
    exact tfind_none hfn y hy e

theorem w_reachable (log : Log) (hd : SnapDisc log) :
    W (Names.ofLog log) ((sessIds log).map lc) LSc (replay State.empty log) :=
  w_replay (Names.ofLog log) _ log State.empty ((w_empty _).mono (fun _ h => by cases h))
    (fun ic hic => ⟨hd.idxPos ic hic, hd.toNameDisc.guard ic hic⟩)
    (fun a ha => List.mem_map_of_mem ha) hd.sessNew

/-- the syntactic form of the session clause: NUL-free IDs, no ID created twice -/
theorem sessNewB_of_distinct (N : Names) (log : Log) : ∀ (s : State) (C : List String), W N C LSc s →
    (∀ ic ∈ log, ic.1 ≠ 0 ∧ ic.2.ok N.guard) → (∀ a ∈ sessIds log, NF a ∧ lc a ∉ C) → ((sessIds log).map lc).Nodup →
    sessNewB s log = true := by
  induction log with
  | nil => intro s C _ _ _ _; rfl
  | cons ic rest ih =>
    intro s C h hok hnew hnd
    obtain ⟨i, c⟩ := ic
    obtain ⟨hi, hG⟩ := hok (i, c) List.mem_cons_self
    have hok' : ∀ ic ∈ rest, ic.1 ≠ 0 ∧ ic.2.ok N.guard := fun x hx => hok x (List.mem_cons_of_mem _ hx)
    simp only [sessNewB, Bool.and_eq_true]
    cases hs : c.sessId with
    | none =>
      have hids : sessIds ((i, c) :: rest) = sessIds rest := by simp [sessIds, List.filterMap_cons, hs]
      rw [hids] at hnew hnd
      refine ⟨rfl, ih _ C (w_apply i hi c hG ?_ h) hok' hnew hnd⟩
      intro r hr; subst hr; simp [Cmd.sessId] at hs
    | some id =>
      have hids : sessIds ((i, c) :: rest) = id :: sessIds rest := by simp [sessIds, List.filterMap_cons, hs]
      rw [hids] at hnew hnd
      obtain ⟨hnf, hnotin⟩ := hnew id List.mem_cons_self
      rw [List.map_cons, List.nodup_cons] at hnd
      have hfresh : ∀ y ∈ s.sessions, lc y.id ≠ lc id := fun y hy e => hnotin (e ▸ h.sess.sessIn y hy)
      have hnone : sessFind s id = none := tfind_none_of_keys (fun y hy => hfresh y hy)
      have h' : W N (lc id :: C) LSc s := h.mono (fun a ha => List.mem_cons_of_mem _ ha)
      refine ⟨by simp [hnf, hnone], ih _ (lc id :: C) (w_apply i hi c hG ?_ h') hok' ?_ hnd.2⟩
      · intro r hr; subst hr
        simp only [Cmd.sessId, Option.some.injEq] at hs
        subst hs
        exact ⟨hnf, List.mem_cons_self, hfresh⟩
      · intro a ha
        obtain ⟨h1, h2⟩ := hnew a (List.mem_cons_of_mem _ ha)
        refine ⟨h1, ?_⟩
        intro hmem
        rcases List.mem_cons.mp hmem with e | e
        · exact hnd.1 (e ▸ List.mem_map_of_mem ha)
        · exact h2 e

theorem SnapDisc.ofDistinct {log : Log} (h : NameDisc log) (hnf : ∀ a ∈ sessIds log, NF a)
    (hnd : ((sessIds log).map lc).Nodup) : SnapDisc log :=
  ⟨h, sessNewB_of_distinct (Names.ofLog log) log State.empty [] (w_empty _)
    (fun ic hic => ⟨h.idxPos ic hic, h.guard ic hic⟩) (fun a ha => ⟨hnf a ha, by simp⟩) hnd⟩

/-! ### from `W` to `SnapWF` -/

theorem cov_covers {s : State} (h : Cov s) : IdxCovers s := by
  refine ⟨⟨?_, ?_, ?_, ?_, ?_⟩, ?_, ?_, ?_, ?_⟩
  · rintro ⟨n, hn⟩
    exact ⟨h.node n hn _ (Or.inl rfl), h.node n hn _ (Or.inr (Or.inl rfl))⟩
  · intro n hn
    exact h.node n hn _ (Or.inr (Or.inr rfl))
  · rintro ⟨v, hv⟩
    exact ⟨h.svc v hv _ (Or.inl rfl), h.svc v hv _ (Or.inr (Or.inl rfl)), h.svc v hv _ (Or.inr (Or.inr (Or.inl rfl))),
      h.svc v hv _ (Or.inr (Or.inr (Or.inr (Or.inl rfl))))⟩
  · intro v hv
    exact ⟨⟨h.svc v hv _ (Or.inr (Or.inr (Or.inr (Or.inr (Or.inl rfl))))),
      h.svc v hv _ (Or.inr (Or.inr (Or.inr (Or.inr (Or.inr (Or.inl rfl)))))),
      h.svc v hv _ (Or.inr (Or.inr (Or.inr (Or.inr (Or.inr (Or.inr (Or.inl rfl)))))))⟩,
      h.svc v hv _ (Or.inr (Or.inr (Or.inr (Or.inr (Or.inr (Or.inr (Or.inr rfl)))))))⟩
  · rintro ⟨c, hc⟩
    exact ⟨h.chk c hc _ (Or.inl rfl), h.chk c hc _ (Or.inr rfl)⟩
  · intro hne
    obtain ⟨x, hx⟩ := List.exists_mem_of_ne_nil _ hne
    exact h.sess x hx
  · intro hne
    obtain ⟨x, hx⟩ := List.exists_mem_of_ne_nil _ hne
    exact h.kv x hx
  · intro hne
    obtain ⟨x, hx⟩ := List.exists_mem_of_ne_nil _ hne
    exact h.tomb x hx
  · intro hne
    obtain ⟨x, hx⟩ := List.exists_mem_of_ne_nil _ hne
    exact h.pq x hx

theorem wcat_catWF {N : Names} {s : State} (w : WCat N s) : CatWF s := by
  refine ⟨w.ns, w.vs, w.cs, ?_, w.nodeCreate, ?_, ?_, w.chkStatus, ?_⟩
  · intro a ha b hb ha1 hlc
    refine w.nodeIds a ha b hb ha1 ?_ hlc
    intro hb0
    rw [hb0] at hlc
    have : lc a.id = "" := by rw [hlc]; exact lc_eq_empty.mpr rfl
    exact ha1 (lc_eq_empty.mp this)
  · intro v hv
    have hsome := w.svcNode v hv
    unfold nodeFind at hsome
    cases hf : tfind Node.pk (lc v.node) s.nodes with
    | none => rw [hf] at hsome; simp at hsome
    | some n =>
      obtain ⟨hn, hk⟩ := tfind_some hf
      refine ⟨n, hn, ?_⟩
      have hk' : lc n.name = lc v.node := hk
      rw [(w.svcN v hv).2, (w.nodeN n hn).2, hk']
  · intro c hc
    have hsome := w.chkNode c hc
    unfold nodeFind at hsome
    cases hf : tfind Node.pk (lc c.node) s.nodes with
    | none => rw [hf] at hsome; simp at hsome
    | some n =>
      obtain ⟨hn, hk⟩ := tfind_some hf
      exact ⟨n, hn, (show lc n.name = lc c.node from hk).symm⟩
  · intro c hc hne
    obtain ⟨v, hv, hnm⟩ := w.chkSvc c hc hne
    obtain ⟨hvm, hk⟩ := tfind_some hv
    obtain ⟨k1, k2⟩ := pk2_inj (w.svcN v hvm).1 (w.chkN c hc) hk
    exact ⟨v, hvm, k1, k2, hnm⟩

theorem w_snapWF {N : Names} {C : List String} {s : State} (h : W N C LSc s) (hk : KvSorted s) : SnapWF s where
  cat := wcat_catWF h.cat
  kvS := by
    unfold KvSorted at hk
    exact List.Pairwise.imp (fun {a b} hab => by simp only [keyLt, KV.pk]; exact decide_eq_true hab) hk
  kvKey := h.kv.kvKey
  tombS := h.kv.tombS
  tombKey := h.kv.tombKey
  sessS := h.sess.sessS
  sc := h.sess.sc
  pqS := h.pqS
  idxS := h.idx.1
  idxNorm := h.idx.2
  idxCover := cov_covers h.cov

theorem snapWF_reachable (log : Log) (hd : SnapDisc log) : SnapWF (replay State.empty log) := by
  exact w_snapWF (w_reachable log hd) (kvSorted_replay _ log kvSorted_empty)

end CV.Store
