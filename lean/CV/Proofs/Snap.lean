/-
Helper lemmas for CV.Snap (property C02): sorted tables, memdb-insert (`upsert`) algebra, the phases of
the restore fold, the generic cut-point lemma. Core-only.
-/
import CV.Snap
namespace CV.Snap

/-! ### the byte order (Go's `bytes.Compare` / memdb radix order) is a strict total order -/

theorem blt_irrefl (a : Bytes) : ¬ a < a := List.lt_irrefl a
theorem blt_trans {a b c : Bytes} (h₁ : a < b) (h₂ : b < c) : a < c := List.lt_trans h₁ h₂
theorem blt_asymm {a b : Bytes} (h : a < b) : ¬ b < a := List.lt_asymm h
theorem blt_ne {a b : Bytes} (h : a < b) : a ≠ b := fun e => blt_irrefl b (e ▸ h)
theorem blt_total {a b : Bytes} (h₁ : ¬ a < b) (h₂ : a ≠ b) : b < a := by
  apply Classical.byContradiction
  intro h₃
  exact h₂ (List.le_antisymm (List.not_lt.mp h₃) (List.not_lt.mp h₁))

/-! ### tables in id-index order -/

variable {α : Type}

/-- a memdb table: rows in strictly increasing index-key order (so keys are unique) -/
def Sorted (k : α → Bytes) (l : List α) : Prop := l.Pairwise (fun a b => k a < k b)

instance (k : α → Bytes) (l : List α) : Decidable (Sorted k l) := by unfold Sorted; infer_instance

theorem sorted_nil (k : α → Bytes) : Sorted k [] := List.Pairwise.nil

theorem sorted_cons {k : α → Bytes} {x : α} {l : List α} :
    Sorted k (x :: l) ↔ (∀ y ∈ l, k x < k y) ∧ Sorted k l := List.pairwise_cons

theorem sorted_key_inj {k : α → Bytes} {l : List α} (h : Sorted k l) {a b : α}
    (ha : a ∈ l) (hb : b ∈ l) (e : k a = k b) : a = b := by
  induction l with
  | nil => cases ha
  | cons x xs ih =>
    obtain ⟨hx, hs⟩ := sorted_cons.mp h
    rcases List.mem_cons.mp ha with rfl | ha' <;> rcases List.mem_cons.mp hb with rfl | hb'
    · rfl
    · exact absurd e (blt_ne (hx _ hb'))
    · exact absurd e.symm (blt_ne (hx _ ha'))
    · exact ih hs ha' hb'

theorem mem_upsert_imp {k : α → Bytes} {x y : α} {l : List α} (h : y ∈ upsert k x l) : y = x ∨ y ∈ l := by
  induction l with
  | nil => simp [upsert] at h; exact Or.inl h
  | cons z zs ih =>
    unfold upsert at h
    split at h
    · simp at h ⊢; rcases h with h | h | h <;> simp [h]
    · split at h
      · simp at h ⊢; rcases h with h | h <;> simp [h]
      · simp at h ⊢
        rcases h with h | h
        · simp [h]
        · rcases ih h with h | h <;> simp [h]

theorem mem_upsert {k : α → Bytes} {x : α} {l : List α} (hs : Sorted k l) (y : α) :
    y ∈ upsert k x l ↔ y = x ∨ (y ∈ l ∧ k y ≠ k x) := by
  induction l with
  | nil => simp [upsert]
  | cons z zs ih =>
    obtain ⟨hz, hzs⟩ := sorted_cons.mp hs
    unfold upsert
    split
    next hlt =>
      simp only [List.mem_cons]
      constructor
      · rintro (h | h | h)
        · exact Or.inl h
        · subst h; exact Or.inr ⟨Or.inl rfl, (blt_ne hlt).symm⟩
        · exact Or.inr ⟨Or.inr h, (blt_ne (blt_trans hlt (hz _ h))).symm⟩
      · rintro (h | ⟨h | h, _⟩)
        · exact Or.inl h
        · exact Or.inr (Or.inl h)
        · exact Or.inr (Or.inr h)
    next hnlt =>
      split
      next heq =>
        simp only [List.mem_cons]
        constructor
        · rintro (h | h)
          · exact Or.inl h
          · exact Or.inr ⟨Or.inr h, by rw [heq]; exact (blt_ne (hz _ h)).symm⟩
        · rintro (h | ⟨h | h, hne⟩)
          · exact Or.inl h
          · subst h; exact absurd heq.symm hne
          · exact Or.inr h
      next hne =>
        have hgt : k z < k x := blt_total hnlt hne
        simp only [List.mem_cons, ih hzs]
        constructor
        · rintro (h | h | ⟨h, hn⟩)
          · subst h; exact Or.inr ⟨Or.inl rfl, blt_ne hgt⟩
          · exact Or.inl h
          · exact Or.inr ⟨Or.inr h, hn⟩
        · rintro (h | ⟨h | h, hn⟩)
          · exact Or.inr (Or.inl h)
          · exact Or.inl h
          · exact Or.inr (Or.inr ⟨h, hn⟩)

theorem upsert_sorted {k : α → Bytes} {x : α} {l : List α} (hs : Sorted k l) : Sorted k (upsert k x l) := by
  induction l with
  | nil => simp [upsert, Sorted]
  | cons z zs ih =>
    obtain ⟨hz, hzs⟩ := sorted_cons.mp hs
    unfold upsert
    split
    next hlt =>
      refine sorted_cons.mpr ⟨?_, hs⟩
      intro y hy
      rcases List.mem_cons.mp hy with rfl | hy
      · exact hlt
      · exact blt_trans hlt (hz _ hy)
    next hnlt =>
      split
      next heq =>
        refine sorted_cons.mpr ⟨?_, hzs⟩
        intro y hy
        rw [heq]; exact hz _ hy
      next hne =>
        have hgt : k z < k x := blt_total hnlt hne
        refine sorted_cons.mpr ⟨?_, ih hzs⟩
        intro y hy
        rcases (mem_upsert hzs y).mp hy with rfl | ⟨hy, _⟩
        · exact hgt
        · exact hz _ hy

/-- two tables in index order with the same rows are the same list -/
theorem sorted_ext {k : α → Bytes} {l₁ l₂ : List α} (h₁ : Sorted k l₁) (h₂ : Sorted k l₂)
    (h : ∀ y, y ∈ l₁ ↔ y ∈ l₂) : l₁ = l₂ := by
  have n₁ : l₁.Nodup := List.Pairwise.imp (fun hab => by intro e; exact blt_irrefl _ (e ▸ hab)) h₁
  have n₂ : l₂.Nodup := List.Pairwise.imp (fun hab => by intro e; exact blt_irrefl _ (e ▸ hab)) h₂
  have p : l₁.Perm l₂ := (List.perm_ext_iff_of_nodup n₁ n₂).mpr h
  exact List.Perm.eq_of_pairwise (fun a b _ _ hab hba => absurd hba (blt_asymm hab)) h₁ h₂ p

theorem upsert_mem_self {k : α → Bytes} {x : α} {l : List α} (hs : Sorted k l) (hx : x ∈ l) :
    upsert k x l = l := by
  apply sorted_ext (upsert_sorted hs) hs
  intro y
  rw [mem_upsert hs]
  constructor
  · rintro (rfl | ⟨h, _⟩)
    · exact hx
    · exact h
  · intro hy
    by_cases e : k y = k x
    · exact Or.inl (sorted_key_inj hs hy hx e)
    · exact Or.inr ⟨hy, e⟩

theorem upsert_upsert_same {k : α → Bytes} {x x' : α} {l : List α} (hs : Sorted k l) (e : k x = k x') :
    upsert k x (upsert k x' l) = upsert k x l := by
  apply sorted_ext (upsert_sorted (upsert_sorted hs)) (upsert_sorted hs)
  intro y
  rw [mem_upsert (upsert_sorted hs), mem_upsert hs, mem_upsert hs]
  constructor
  · rintro (h | ⟨h | ⟨h, _⟩, hn⟩)
    · exact Or.inl h
    · subst h; exact absurd e.symm hn
    · exact Or.inr ⟨h, hn⟩
  · rintro (h | ⟨h, hn⟩)
    · exact Or.inl h
    · exact Or.inr ⟨Or.inr ⟨h, by rw [← e]; exact hn⟩, hn⟩

/-- inserting all rows of `l` one after the other -/
def insertAll (k : α → Bytes) (acc l : List α) : List α := l.foldl (fun a x => upsert k x a) acc

theorem insertAll_sorted {k : α → Bytes} {acc : List α} (l : List α) (ha : Sorted k acc) :
    Sorted k (insertAll k acc l) := by
  induction l generalizing acc with
  | nil => exact ha
  | cons x xs ih => exact ih (upsert_sorted ha)

theorem mem_insertAll {k : α → Bytes} {acc : List α} (l : List α) (ha : Sorted k acc) (hl : Sorted k l) (y : α) :
    y ∈ insertAll k acc l ↔ y ∈ l ∨ (y ∈ acc ∧ ∀ x ∈ l, k y ≠ k x) := by
  induction l generalizing acc with
  | nil => simp [insertAll]
  | cons x xs ih =>
    obtain ⟨hx, hxs⟩ := sorted_cons.mp hl
    show y ∈ insertAll k (upsert k x acc) xs ↔ _
    rw [ih (upsert_sorted ha) hxs, mem_upsert ha]
    constructor
    · rintro (h | ⟨h | ⟨h, hn⟩, hall⟩)
      · exact Or.inl (List.mem_cons_of_mem _ h)
      · exact Or.inl (h ▸ List.mem_cons_self)
      · refine Or.inr ⟨h, fun x' hx' => ?_⟩
        rcases List.mem_cons.mp hx' with rfl | hx'
        · exact hn
        · exact hall _ hx'
    · rintro (h | ⟨h, hall⟩)
      · rcases List.mem_cons.mp h with rfl | h
        · exact Or.inr ⟨Or.inl rfl, fun x' hx' => blt_ne (hx _ hx')⟩
        · exact Or.inl h
      · exact Or.inr ⟨Or.inr ⟨h, hall _ List.mem_cons_self⟩, fun x' hx' => hall _ (List.mem_cons_of_mem _ hx')⟩

/-- re-inserting a table, row by row, into a store whose rows are all overwritten gives the table back -/
theorem insertAll_cover {k : α → Bytes} {acc l : List α} (ha : Sorted k acc) (hl : Sorted k l)
    (hc : ∀ y ∈ acc, ∃ x ∈ l, k y = k x) : insertAll k acc l = l := by
  apply sorted_ext (insertAll_sorted l ha) hl
  intro y
  rw [mem_insertAll l ha hl]
  constructor
  · rintro (h | ⟨h, hn⟩)
    · exact h
    · obtain ⟨x, hx, e⟩ := hc y h
      exact absurd e (hn x hx)
  · exact Or.inl

theorem insertAll_nil {k : α → Bytes} {l : List α} (hl : Sorted k l) : insertAll k [] l = l :=
  insertAll_cover (sorted_nil k) hl (fun _ h => by cases h)

/-! ### the index table -/

theorem maxMerge_sorted {key : Bytes} {v : Nat} {i : List IdxRow} (h : Sorted idxKey i) :
    Sorted idxKey (maxMerge key v i) := by
  unfold maxMerge
  split
  · split
    · exact h
    · exact upsert_sorted h
  · exact upsert_sorted h

theorem mem_maxMerge_imp {key : Bytes} {v : Nat} {i : List IdxRow} {y : IdxRow} (h : y ∈ maxMerge key v i) :
    y ∈ i ∨ idxKey y = lc key := by
  unfold maxMerge at h
  split at h
  · split at h
    · exact Or.inl h
    · rcases mem_upsert_imp h with rfl | h
      · exact Or.inr rfl
      · exact Or.inl h
  · rcases mem_upsert_imp h with rfl | h
    · exact Or.inr rfl
    · exact Or.inl h

theorem foldl_maxMerge_sorted {β : Type} (key : Bytes) (f : β → Nat) (l : List β) {i : List IdxRow}
    (h : Sorted idxKey i) : Sorted idxKey (l.foldl (fun a x => maxMerge key (f x) a) i) := by
  induction l generalizing i with
  | nil => exact h
  | cons x xs ih => exact ih (maxMerge_sorted h)

theorem mem_foldl_maxMerge_imp {β : Type} (key : Bytes) (f : β → Nat) (l : List β) {i : List IdxRow} {y : IdxRow}
    (h : y ∈ l.foldl (fun a x => maxMerge key (f x) a) i) : y ∈ i ∨ (l ≠ [] ∧ idxKey y = lc key) := by
  induction l generalizing i with
  | nil => exact Or.inl h
  | cons x xs ih =>
    rcases ih h with h | ⟨_, h⟩
    · rcases mem_maxMerge_imp h with h | h
      · exact Or.inl h
      · exact Or.inr ⟨by simp, h⟩
    · exact Or.inr ⟨by simp, h⟩

theorem idxGet_of_mem {i : List IdxRow} (h : Sorted idxKey i) {r : IdxRow} (hr : r ∈ i) {key : Bytes}
    (hk : idxKey r = lc key) : idxGet i key = some r.value := by
  unfold idxGet
  cases hf : i.find? (fun r => idxKey r = lc key) with
  | none =>
    have := List.find?_eq_none.mp hf r hr
    simp [hk] at this
  | some r' =>
    have hm := List.mem_of_find?_eq_some hf
    have hp := List.find?_some hf
    simp only [decide_eq_true_eq] at hp
    have : r' = r := sorted_key_inj h hm hr (hp.trans hk.symm)
    simp [this]

/-- a max-merge with a value the stored row already dominates changes nothing -/
theorem maxMerge_noop {i : List IdxRow} (h : Sorted idxKey i) {r : IdxRow} (hr : r ∈ i) {key : Bytes}
    (hk : idxKey r = lc key) {v : Nat} (hv : v ≤ r.value) : maxMerge key v i = i := by
  unfold maxMerge
  rw [idxGet_of_mem h hr hk]
  simp [hv]

theorem foldl_maxMerge_noop {β : Type} (key : Bytes) (f : β → Nat) (l : List β) {i : List IdxRow}
    (h : Sorted idxKey i) {r : IdxRow} (hr : r ∈ i) (hk : idxKey r = lc key) (hv : ∀ x ∈ l, f x ≤ r.value) :
    l.foldl (fun a x => maxMerge key (f x) a) i = i := by
  induction l with
  | nil => rfl
  | cons x xs ih =>
    rw [List.foldl_cons, maxMerge_noop h hr hk (hv x List.mem_cons_self)]
    exact ih (fun y hy => hv y (List.mem_cons_of_mem _ hy))

/-- a max-merge never removes or changes a row keyed differently -/
theorem mem_maxMerge_of_ne {key : Bytes} {v : Nat} {i : List IdxRow} (h : Sorted idxKey i) {r : IdxRow}
    (hr : r ∈ i) (hk : idxKey r ≠ lc key) : r ∈ maxMerge key v i := by
  unfold maxMerge
  split
  · split
    · exact hr
    · exact (mem_upsert h r).mpr (Or.inr ⟨hr, hk⟩)
  · exact (mem_upsert h r).mpr (Or.inr ⟨hr, hk⟩)

theorem mem_foldl_maxMerge_of_ne {β : Type} (key : Bytes) (f : β → Nat) (l : List β) {i : List IdxRow}
    (h : Sorted idxKey i) {r : IdxRow} (hr : r ∈ i) (hk : idxKey r ≠ lc key) :
    r ∈ l.foldl (fun a x => maxMerge key (f x) a) i := by
  induction l generalizing i with
  | nil => exact hr
  | cons x xs ih => exact ih (maxMerge_sorted h) (mem_maxMerge_of_ne h hr hk)

/-- rows restored after the index table are dominated by it: the table's index row exists and is at least
    the ModifyIndex of every row (every write to the table sets the table index to its own, larger, index) -/
def LateBounded (key : Bytes) (late : List Late) (idx : List IdxRow) : Prop :=
  late ≠ [] → ∃ r ∈ idx, idxKey r = lc key ∧ ∀ p ∈ late, p.modify ≤ r.value

/-- every index row computed by the restorers that run before IndexRestore is keyed by a table that has a
    verbatim row in the snapshot -/
theorem early_index_covered (s : State)
    (hasS : s.sessions ≠ [] → ∃ r ∈ s.index, idxKey r = lc kSessions)
    (hasK : s.kvs ≠ [] → ∃ r ∈ s.index, idxKey r = lc kKvs)
    (hasT : s.tombs ≠ [] → ∃ r ∈ s.index, idxKey r = lc kTombstones) :
    ∀ y ∈ s.tombs.foldl (fun a t => maxMerge kTombstones t.index a)
            (s.kvs.foldl (fun a e => maxMerge kKvs e.modify a)
              (s.sessions.foldl (fun a x => maxMerge kSessions x.modify a) [])),
      ∃ x ∈ s.index, idxKey y = idxKey x := by
  intro y hy
  rcases mem_foldl_maxMerge_imp _ _ _ hy with hy | ⟨hne, hk⟩
  · rcases mem_foldl_maxMerge_imp _ _ _ hy with hy | ⟨hne, hk⟩
    · rcases mem_foldl_maxMerge_imp _ _ _ hy with hy | ⟨hne, hk⟩
      · cases hy
      · obtain ⟨r, hr, e⟩ := hasS hne; exact ⟨r, hr, hk.trans e.symm⟩
    · obtain ⟨r, hr, e⟩ := hasK hne; exact ⟨r, hr, hk.trans e.symm⟩
  · obtain ⟨r, hr, e⟩ := hasT hne; exact ⟨r, hr, hk.trans e.symm⟩

theorem late_noop {key : Bytes} {late : List Late} {idx : List IdxRow} (hs : Sorted idxKey idx)
    (h : LateBounded key late idx) : late.foldl (fun a p => maxMerge key p.modify a) idx = idx := by
  cases late with
  | nil => rfl
  | cons x xs =>
    obtain ⟨r, hr, hk, hv⟩ := h (by simp)
    exact foldl_maxMerge_noop key _ _ hs hr hk hv

/-! ### the phases of the restore fold -/

/-- session_checks as the restorers rebuild it: every session's check links, re-inserted in session order -/
def deriveChecks (acc : List SCheck) (l : List Sess) : List SCheck :=
  l.foldl (fun a s => (checkRows s).foldl (fun a c => upsert scKey c a) a) acc

theorem phase_sessions (n : Nat) (l : List Sess) (st : State) :
    (l.map Rec.session).foldl (restorer n) st =
      { st with sessions := insertAll sessKey st.sessions l
                sessionChecks := deriveChecks st.sessionChecks l
                index := l.foldl (fun a s => maxMerge kSessions s.modify a) st.index } := by
  induction l generalizing st with
  | nil => rfl
  | cons x xs ih => simp only [List.map_cons, List.foldl_cons, ih, restorer, insertAll, deriveChecks]

theorem phase_kvs (n : Nat) (l : List KV) (st : State) :
    (l.map Rec.kv).foldl (restorer n) st =
      { st with kvs := insertAll kvKey st.kvs l
                index := l.foldl (fun a e => maxMerge kKvs e.modify a) st.index } := by
  induction l generalizing st with
  | nil => rfl
  | cons x xs ih => simp only [List.map_cons, List.foldl_cons, ih, restorer, insertAll]

theorem phase_tombs (n : Nat) (l : List Tomb) (st : State) :
    (l.map Rec.tomb).foldl (restorer n) st =
      { st with tombs := insertAll tombKey st.tombs l
                index := l.foldl (fun a t => maxMerge kTombstones t.index a) st.index } := by
  induction l generalizing st with
  | nil => rfl
  | cons x xs ih => simp only [List.map_cons, List.foldl_cons, ih, restorer, insertAll]

theorem phase_index (n : Nat) (l : List IdxRow) (st : State) :
    (l.map Rec.index).foldl (restorer n) st = { st with index := insertAll idxKey st.index l } := by
  induction l generalizing st with
  | nil => rfl
  | cons x xs ih => simp only [List.map_cons, List.foldl_cons, ih, restorer, insertAll]

theorem phase_peerings (n : Nat) (l : List Late) (st : State) :
    (l.map Rec.peering).foldl (restorer n) st =
      { st with peerings := insertAll lateKey st.peerings l
                index := l.foldl (fun a p => maxMerge kPeering p.modify a) st.index } := by
  induction l generalizing st with
  | nil => rfl
  | cons x xs ih => simp only [List.map_cons, List.foldl_cons, ih, restorer, insertAll]

theorem phase_bundles (n : Nat) (l : List Late) (st : State) :
    (l.map Rec.bundle).foldl (restorer n) st =
      { st with bundles := insertAll lateKey st.bundles l
                index := l.foldl (fun a p => maxMerge kBundles p.modify a) st.index } := by
  induction l generalizing st with
  | nil => rfl
  | cons x xs ih => simp only [List.map_cons, List.foldl_cons, ih, restorer, insertAll]

/-- the whole restore fold, phase by phase -/
theorem restore_snapshot_eq (s : State) :
    restore (snapshot s) =
      let i₁ := s.sessions.foldl (fun a x => maxMerge kSessions x.modify a) []
      let i₂ := s.kvs.foldl (fun a e => maxMerge kKvs e.modify a) i₁
      let i₃ := s.tombs.foldl (fun a t => maxMerge kTombstones t.index a) i₂
      let i₄ := insertAll idxKey i₃ s.index
      let i₅ := s.peerings.foldl (fun a p => maxMerge kPeering p.modify a) i₄
      let i₆ := s.bundles.foldl (fun a p => maxMerge kBundles p.modify a) i₅
      { index := i₆
        kvs := insertAll kvKey [] s.kvs
        tombs := insertAll tombKey [] s.tombs
        sessions := insertAll sessKey [] s.sessions
        sessionChecks := deriveChecks [] s.sessions
        peerings := insertAll lateKey [] s.peerings
        bundles := insertAll lateKey [] s.bundles } := by
  simp only [restore, snapshot, Format.restore, Format.snapshot, fmt, persisters, List.flatMap_cons,
    List.flatMap_nil, List.append_nil, List.foldl_append, phase_sessions, phase_kvs, phase_tombs,
    phase_index, phase_peerings, phase_bundles, State.empty]

/-! ### deterministic machines -/

variable {S R C Res : Type}

theorem Machine.run_append (m : Machine S C Res) (s : S) (xs ys : List C) :
    m.run s (xs ++ ys) = ((m.run (m.run s xs).1 ys).1, (m.run s xs).2 ++ (m.run (m.run s xs).1 ys).2) := by
  induction xs generalizing s with
  | nil => simp [Machine.run]
  | cons x xs ih => simp [Machine.run, ih]

end CV.Snap
