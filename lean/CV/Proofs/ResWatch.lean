/-
Helper lemmas for C18, watch part: the world invariant that ties every subject buffer and every watch
to the log of committed events, and its preservation by every operation except `restore`.
-/
import CV.Res
namespace CV.Res

/-! ### bookkeeping lists -/

theorem lookup_upsert' (r : Res) (rows : Rows) (k : Bytes) :
    lookup k (upsert r rows) = if idKey r.id = k then some r else lookup k rows := by
  induction rows with
  | nil => simp [upsert, lookup]
  | cons x xs ih =>
    simp only [upsert]
    split
    · simp only [lookup]; grind
    · split
      · simp only [lookup]; try grind
      · simp only [lookup, ih]; try grind

theorem lookup_remove' (k k' : Bytes) (rows : Rows) :
    lookup k' (remove k rows) = if k' = k then none else lookup k' rows := by
  induction rows with
  | nil => simp [remove, lookup]
  | cons x xs ih =>
    simp only [remove] at ih ⊢
    simp only [List.filter_cons]
    split
    · simp only [lookup, ih]; grind
    · simp only [lookup, ih]; grind


theorem lookup_some_key {k : Bytes} {rows : Rows} {r : Res} (h : lookup k rows = some r) : idKey r.id = k := by
  induction rows with
  | nil => simp [lookup] at h
  | cons x xs ih =>
    simp only [lookup] at h
    split at h
    · cases h; assumption
    · exact ih h


theorem findSub_some {k : Bytes} {ss : List Sub} {s : Sub} (h : findSub k ss = some s) : s ∈ ss ∧ s.key = k := by
  induction ss with
  | nil => simp [findSub] at h
  | cons x xs ih =>
    simp only [findSub] at h
    split at h
    · cases h; simp_all
    · have := ih h; simp_all

theorem findSub_none {k : Bytes} {ss : List Sub} (h : findSub k ss = none) : ∀ s ∈ ss, s.key ≠ k := by
  induction ss with
  | nil => simp
  | cons x xs ih =>
    simp only [findSub] at h
    split at h
    · cases h
    · intro s hs; rcases List.mem_cons.mp hs with e | e
      · subst e; assumption
      · exact ih h s e

theorem findSub_of_mem {ss : List Sub} (hnd : (ss.map (·.key)).Nodup) {s : Sub} (hs : s ∈ ss) :
    findSub s.key ss = some s := by
  induction ss with
  | nil => cases hs
  | cons x xs ih =>
    simp only [List.map_cons, List.nodup_cons, List.mem_map, not_exists, not_and] at hnd
    simp only [findSub]
    rcases List.mem_cons.mp hs with e | e
    · subst e; simp
    · have : x.key ≠ s.key := fun h => hnd.1 s e h.symm
      simp [this, ih hnd.2 e]

theorem findSub_setSub (s : Sub) (ss : List Sub) (k : Bytes) :
    findSub k (setSub s ss) = if s.key = k then some s else findSub k ss := by
  induction ss with
  | nil => simp [setSub, findSub]
  | cons x xs ih =>
    simp only [setSub]
    split
    · next h => simp only [findSub]; split <;> simp_all
    · next h =>
      simp only [findSub, ih]
      split <;> grind

theorem mem_setSub {s x : Sub} {ss : List Sub} (h : x ∈ setSub s ss) : x = s ∨ (x ∈ ss ∧ x.key ≠ s.key) ∨ (x ∈ ss ∧ ∃ y ∈ ss, y.key = s.key) := by
  induction ss with
  | nil => simp_all [setSub]
  | cons y ys ih =>
    simp only [setSub] at h
    split at h
    · next hk =>
      rcases List.mem_cons.mp h with e | e
      · exact Or.inl e
      · exact Or.inr (Or.inr ⟨List.mem_cons_of_mem _ e, y, List.mem_cons_self, hk⟩)
    · next hk =>
      rcases List.mem_cons.mp h with e | e
      · subst e; exact Or.inr (Or.inl ⟨List.mem_cons_self, hk⟩)
      · rcases ih e with h1 | h1 | h1
        · exact Or.inl h1
        · exact Or.inr (Or.inl ⟨List.mem_cons_of_mem _ h1.1, h1.2⟩)
        · obtain ⟨hx, z, hz, hzk⟩ := h1
          exact Or.inr (Or.inr ⟨List.mem_cons_of_mem _ hx, z, List.mem_cons_of_mem _ hz, hzk⟩)

/-- with distinct keys: the members of `setSub s ss` are `s` and the members of `ss` with another key -/
theorem mem_setSub_nodup {s x : Sub} {ss : List Sub} (hnd : (ss.map (·.key)).Nodup) (h : x ∈ setSub s ss) :
    x = s ∨ (x ∈ ss ∧ x.key ≠ s.key) := by
  induction ss with
  | nil => simp_all [setSub]
  | cons y ys ih =>
    simp only [List.map_cons, List.nodup_cons, List.mem_map, not_exists, not_and] at hnd
    simp only [setSub] at h
    split at h
    · next hk =>
      rcases List.mem_cons.mp h with e | e
      · exact Or.inl e
      · exact Or.inr ⟨List.mem_cons_of_mem _ e, fun hx => hnd.1 x e (hx.trans hk.symm)⟩
    · next hk =>
      rcases List.mem_cons.mp h with e | e
      · subst e; exact Or.inr ⟨List.mem_cons_self, hk⟩
      · rcases ih hnd.2 e with h1 | h1
        · exact Or.inl h1
        · exact Or.inr ⟨List.mem_cons_of_mem _ h1.1, h1.2⟩

theorem keys_setSub (s : Sub) (ss : List Sub) :
    (setSub s ss).map (·.key) = if (findSub s.key ss).isSome then ss.map (·.key) else ss.map (·.key) ++ [s.key] := by
  induction ss with
  | nil => simp [setSub, findSub]
  | cons x xs ih =>
    simp only [setSub, findSub]
    split
    · next h => simp [h]
    · next h => simp only [List.map_cons, ih, h, if_false]; split <;> simp

theorem nodup_setSub {s : Sub} {ss : List Sub} (hnd : (ss.map (·.key)).Nodup) : ((setSub s ss).map (·.key)).Nodup := by
  rw [keys_setSub]
  split
  · exact hnd
  · next h =>
    have hn : findSub s.key ss = none := by simpa using h
    rw [List.nodup_append]
    refine ⟨hnd, by simp, ?_⟩
    intro a ha b hb
    simp at hb; subst hb
    obtain ⟨y, hy, e⟩ := List.mem_map.mp ha
    intro hab
    exact findSub_none hn y hy (e.trans hab)

theorem findSub_dropSub (k k' : Bytes) (ss : List Sub) :
    findSub k (dropSub k' ss) = if k = k' then none else findSub k ss := by
  induction ss with
  | nil => simp [dropSub, findSub]
  | cons x xs ih =>
    simp only [dropSub, List.filter_cons] at ih ⊢
    split
    · next h => simp only [findSub, ih]; split <;> grind
    · next h => simp only [findSub, ih]; split <;> grind

theorem findSub_map_dispatch (e : Ev) (k : Bytes) (ss : List Sub) :
    findSub k (ss.map (dispatch e)) = (findSub k ss).map (dispatch e) := by
  have hk : ∀ s : Sub, (dispatch e s).key = s.key := by intro s; simp only [dispatch]; split <;> rfl
  induction ss with
  | nil => simp [findSub]
  | cons x xs ih => simp only [List.map_cons, findSub, hk, ih]; split <;> simp

theorem mem_setAt {α : Type} {l : List α} {i : Nat} {a x : α} (h : x ∈ setAt l i a) : x = a ∨ x ∈ l := by
  induction l generalizing i with
  | nil => simp [setAt] at h
  | cons y ys ih =>
    cases i with
    | zero => simp only [setAt, List.mem_cons] at h ⊢; grind
    | succ i =>
      simp only [setAt, List.mem_cons] at h ⊢
      rcases h with e | e
      · exact Or.inr (Or.inl e)
      · rcases ih e with h1 | h1
        · exact Or.inl h1
        · exact Or.inr (Or.inr h1)

theorem mem_of_getElem? {α : Type} {l : List α} {i : Nat} {a : α} (h : l[i]? = some a) : a ∈ l :=
  List.mem_of_getElem? h

/-- replacing position `i` changes the number of elements satisfying `p` by exactly the difference -/
theorem count_setAt {α : Type} (p : α → Bool) {l : List α} {i : Nat} {a b : α} (h : l[i]? = some a) :
    ((setAt l i b).filter p).length + (if p a then 1 else 0) = (l.filter p).length + (if p b then 1 else 0) := by
  induction l generalizing i with
  | nil => simp at h
  | cons y ys ih =>
    cases i with
    | zero =>
      simp only [List.getElem?_cons_zero, Option.some.injEq] at h
      subst h
      simp only [setAt, List.filter_cons]
      cases p y <;> cases p b <;> simp
    | succ i =>
      simp only [List.getElem?_cons_succ] at h
      have := ih h
      simp only [setAt, List.filter_cons]
      cases p y <;> simp <;> omega

/-! ### what `Watch.Next` returns -/

/-- the events of a list that `Watch.Next` would return, in order -/
def vis (q : Query) (l : List Ev) : List WEv := (l.filter (delivers q)).map (·.ev)

theorem vis_append (q : Query) (a b : List Ev) : vis q (a ++ b) = vis q a ++ vis q b := by
  simp [vis, List.filter_append]

theorem vis_nil (q : Query) : vis q [] = [] := rfl

theorem takeFirst_some {q : Query} {l : List Ev} {e : Ev} {rest : List Ev} (h : takeFirst q l = some (e, rest)) :
    vis q l = e.ev :: vis q rest := by
  induction l with
  | nil => simp [takeFirst] at h
  | cons x xs ih =>
    simp only [takeFirst] at h
    split at h
    · next hd => cases h; simp [vis, List.filter_cons, hd]
    · next hd => simp only [vis, List.filter_cons, hd] at ih ⊢; simpa using ih h

theorem takeFirst_none {q : Query} {l : List Ev} (h : takeFirst q l = none) : vis q l = [] := by
  induction l with
  | nil => rfl
  | cons x xs ih =>
    simp only [takeFirst] at h
    split at h
    · cases h
    · next hd => simp only [vis, List.filter_cons, hd] at ih ⊢; simpa using ih h

theorem nextFromBatches_some {q : Query} :
    ∀ {bs : List (List Ev)} {n : Nat} {e : Ev} {rest : List Ev} {m : Nat},
      (∀ b ∈ bs, guardSkips 0 b = false) → nextFromBatches q bs n = some (e, rest, m) →
      ∃ k, m = n + k ∧ 1 ≤ k ∧ k ≤ bs.length ∧ vis q bs.flatten = e.ev :: vis q (rest ++ (bs.drop k).flatten) := by
  intro bs
  induction bs with
  | nil => intro n e rest m _ h; simp [nextFromBatches] at h
  | cons b bs ih =>
    intro n e rest m hg h
    have hb : guardSkips 0 b = false := hg b List.mem_cons_self
    simp only [nextFromBatches, hb] at h
    cases ht : takeFirst q b with
    | some p =>
      obtain ⟨e', rest'⟩ := p
      simp only [ht] at h
      cases h
      refine ⟨1, rfl, Nat.le_refl _, by simp, ?_⟩
      simp only [List.flatten_cons, vis_append, takeFirst_some ht, List.drop_one, List.tail_cons]
      simp
    | none =>
      simp only [ht] at h
      obtain ⟨k, hm, hk1, hk2, hv⟩ := ih (fun b' hb' => hg b' (List.mem_cons_of_mem _ hb')) h
      refine ⟨k + 1, by omega, by omega, by simp; omega, ?_⟩
      simp only [List.flatten_cons, vis_append, takeFirst_none ht, List.nil_append, List.drop_succ_cons]
      simpa [vis_append] using hv

theorem nextFromBatches_none {q : Query} :
    ∀ {bs : List (List Ev)} {n : Nat}, (∀ b ∈ bs, guardSkips 0 b = false) → nextFromBatches q bs n = none →
      vis q bs.flatten = [] := by
  intro bs
  induction bs with
  | nil => intros; rfl
  | cons b bs ih =>
    intro n hg h
    have hb : guardSkips 0 b = false := hg b List.mem_cons_self
    simp only [nextFromBatches, hb] at h
    cases ht : takeFirst q b with
    | some p => simp [ht] at h
    | none =>
      simp only [ht] at h
      simp only [List.flatten_cons, vis_append, takeFirst_none ht, List.nil_append]
      exact ih (fun b' hb' => hg b' (List.mem_cons_of_mem _ hb')) h

/-- everything the watch still has in front of it: `w.events`, the unfetched snapshot batch, and the
    part of the subject buffer from its position on -/
def Watch.stream (wt : Watch) (buf : List (List Ev)) : List Ev :=
  wt.inbox ++ (match wt.snap with | some b => b | none => []) ++ (buf.drop wt.pos).flatten

/-- the fields `next` never touches -/
def Watch.sameId (a b : Watch) : Prop :=
  a.q = b.q ∧ a.subj = b.subj ∧ a.st = b.st ∧ a.released = b.released ∧ a.gD = b.gD ∧ a.gP = b.gP ∧ a.gSq = b.gSq

/-- `Next` on an open watch moves exactly one visible event (if there is one) from the stream to the
    delivered list and never skips a visible one. -/
theorem next_open_spec (wt : Watch) (buf : List (List Ev)) (hpos : wt.pos ≤ buf.length)
    (hbuf : ∀ b ∈ buf, guardSkips 0 b = false) (hsnap : ∀ b, wt.snap = some b → guardSkips 0 b = false)
    (hopen : wt.st = .opened) :
    (wt.next buf).1.sameId wt ∧ (wt.next buf).1.pos ≤ buf.length ∧
    (∀ b, (wt.next buf).1.snap = some b → guardSkips 0 b = false) ∧
    (wt.next buf).1.gDelivered ++ vis wt.q ((wt.next buf).1.stream buf) = wt.gDelivered ++ vis wt.q (wt.stream buf) := by
  unfold Watch.next
  cases hi : takeFirst wt.q wt.inbox with
  | some p =>
    obtain ⟨e, rest⟩ := p
    refine ⟨by simp [Watch.sameId], hpos, hsnap, ?_⟩
    simp only [Watch.stream, vis_append, takeFirst_some hi, List.append_assoc, List.cons_append, List.singleton_append]
    simp
  | none =>
    have hvi := takeFirst_none hi
    simp only [hopen]
    cases hs : wt.snap with
    | none =>
      simp only [List.nil_append]
      cases hn : nextFromBatches wt.q (buf.drop wt.pos) 0 with
      | some p =>
        obtain ⟨e, rest, n⟩ := p
        obtain ⟨k, hk, hk1, hk2, hv⟩ := nextFromBatches_some (fun b hb => hbuf b (List.mem_of_mem_drop hb)) hn
        obtain rfl : n = k := by omega
        simp only [List.length_drop] at hk2
        refine ⟨by simp [Watch.sameId, hopen], by simp; omega, by simp, ?_⟩
        simp only [Watch.stream, hs, List.append_nil, vis_append, hvi, List.nil_append, hv, List.drop_drop, Nat.sub_zero]
        simp [vis_append, Nat.add_comm]
      | none =>
        have hv := nextFromBatches_none (fun b hb => hbuf b (List.mem_of_mem_drop hb)) hn
        have hnil : buf.drop (wt.pos + (buf.length - wt.pos - 0)) = [] := List.drop_eq_nil_of_le (by omega)
        refine ⟨by simp [Watch.sameId, hopen], by simp; omega, by simp, ?_⟩
        simp only [Watch.stream, hs, List.append_nil, vis_append, hvi, List.nil_append, hv, List.length_drop, hnil]
        simp [vis]
    | some b =>
      have hb := hsnap b hs
      simp only [List.singleton_append]
      have hall : ∀ b' ∈ b :: buf.drop wt.pos, guardSkips 0 b' = false := by
        intro b' hb'; rcases List.mem_cons.mp hb' with h | h
        · exact h ▸ hb
        · exact hbuf b' (List.mem_of_mem_drop h)
      cases hn : nextFromBatches wt.q (b :: buf.drop wt.pos) 0 with
      | some p =>
        obtain ⟨e, rest, n⟩ := p
        obtain ⟨k, hk, hk1, hk2, hv⟩ := nextFromBatches_some hall hn
        obtain rfl : n = k := by omega
        simp only [List.length_cons, List.length_drop] at hk2
        refine ⟨by simp [Watch.sameId, hopen], by simp; omega, by simp, ?_⟩
        simp only [List.flatten_cons] at hv
        rw [vis_append] at hv
        simp only [Watch.stream, hs, List.append_nil, vis_append, hvi, List.nil_append]
        rw [hv]
        obtain ⟨k', rfl⟩ : ∃ k', n = k' + 1 := ⟨n - 1, by omega⟩
        simp [vis_append, List.drop_drop, Nat.add_comm]
      | none =>
        have hv := nextFromBatches_none hall hn
        simp only [List.flatten_cons] at hv
        rw [vis_append] at hv
        have hnil : buf.drop (wt.pos + (buf.length - wt.pos + 1 - 1)) = [] := List.drop_eq_nil_of_le (by omega)
        refine ⟨by simp [Watch.sameId, hopen], by simp; omega, by simp, ?_⟩
        simp only [Watch.stream, hs, vis_append, hvi, List.nil_append, List.length_cons, List.length_drop, hnil, hv]
        simp [vis]

/-- `Next` on a watch that was closed by the caller only drains `w.events`. -/
theorem next_unsub_spec (wt : Watch) (buf : List (List Ev)) (hst : wt.st = .unsub) :
    (wt.next buf).1.sameId wt ∧
    (wt.next buf).1.gDelivered ++ vis wt.q (wt.next buf).1.inbox = wt.gDelivered ++ vis wt.q wt.inbox := by
  unfold Watch.next
  cases hi : takeFirst wt.q wt.inbox with
  | some p =>
    obtain ⟨e, rest⟩ := p
    refine ⟨by simp [Watch.sameId], ?_⟩
    simp [takeFirst_some hi]
  | none =>
    simp only [hst]
    refine ⟨by simp [Watch.sameId, hst], ?_⟩
    rw [takeFirst_none hi]
    simp [vis]

/-! ### the invariant -/

/-- the effect of a committed event on the rows -/
def applyEv (rows : Rows) (e : Ev) : Rows :=
  match e.ev with
  | .upsert r => upsert r rows
  | .delete r => remove (idKey r.id) rows
  | .eos => rows

/-- the store contents after a sequence of committed events (from the empty store) -/
def replay (log : List Ev) : Rows := log.foldl applyEv []

/-- the committed events the publisher goroutine has already dispatched -/
def World.disp (w : World) : List Ev := w.log.take (w.log.length - w.queue.length)

/-- What a watcher is entitled to, given the history variables recorded when its snapshot was taken:
    the listing of the store as it was after `gP` commits (at event index `gP + 2`), EndOfSnapshot, then
    every dispatched event for its subject from dispatch position `gD` on — filtered by its query. -/
def expected (disp log : List Ev) (wt : Watch) : List WEv :=
  vis wt.q (snapshotBatch ⟨replay (log.take wt.gP), wt.gP + 2⟩ wt.gSq) ++
  vis wt.q ((disp.drop wt.gD).flatMap (hitsOf wt.subj))

def liveCount (ws : List Watch) (k : Bytes) : Nat :=
  (ws.filter (fun wt => !wt.released && decide (wt.subj = k))).length

structure CacheOk (disp log : List Ev) (s : Sub) (c : Cache) : Prop where
  pos   : c.pos ≤ s.buf.length
  gD    : c.gD ≤ disp.length
  gDP   : c.gD ≤ c.gP
  gP    : c.gP ≤ log.length
  buf   : (s.buf.drop c.pos).flatten = (disp.drop c.gD).flatMap (hitsOf s.key)
  batch : c.batch = snapshotBatch ⟨replay (log.take c.gP), c.gP + 2⟩ c.gSq

structure SubInv (disp log : List Ev) (ws : List Watch) (s : Sub) : Prop where
  cache : ∃ c, s.cache = some c ∧ CacheOk disp log s c
  bufOk : ∀ b ∈ s.buf, guardSkips 0 b = false
  refs  : liveCount ws s.key ≤ s.refs

structure WatchInv (disp log : List Ev) (subs : List Sub) (wt : Watch) : Prop where
  stRel : (wt.st = .opened ∧ wt.released = false) ∨ (wt.st = .unsub ∧ wt.released = true)
  gP    : wt.gP ≤ log.length
  gDP   : wt.gD ≤ wt.gP
  gDd   : wt.gD ≤ disp.length
  live  : wt.released = false → ∃ s c, findSub wt.subj subs = some s ∧ s.cache = some c ∧
            wt.gD = c.gD ∧ wt.gP = c.gP ∧ wt.gSq = c.gSq ∧ wt.pos ≤ s.buf.length ∧
            (∀ b, wt.snap = some b → guardSkips 0 b = false) ∧
            wt.gDelivered ++ vis wt.q (wt.stream s.buf) = vis wt.q (c.batch ++ (s.buf.drop c.pos).flatten)
  dead  : wt.released = true → wt.gDelivered ++ vis wt.q wt.inbox <+: expected disp log wt

structure WInv (w : World) : Prop where
  rows    : w.db.rows = replay w.log
  evIdx   : w.db.evIdx = w.log.length + 2
  qsuf    : ∃ d, w.log = d ++ w.queue
  logIdx  : w.log.map (·.idx) = List.range' 3 w.log.length
  keys    : (w.subs.map (·.key)).Nodup
  subs    : ∀ s ∈ w.subs, SubInv w.disp w.log w.watches s
  watches : ∀ wt ∈ w.watches, WatchInv w.disp w.log w.subs wt

theorem winv_init : WInv World.init := by
  constructor <;> simp [World.init, DB.empty, replay, World.disp]

theorem log_idx_pos {w : World} (h : WInv w) : ∀ e ∈ w.log, 0 < e.idx := by
  intro e he
  have : e.idx ∈ w.log.map (·.idx) := List.mem_map.mpr ⟨e, he, rfl⟩
  rw [h.logIdx, List.mem_range'_1] at this
  omega

theorem replay_append (log : List Ev) (e : Ev) : replay (log ++ [e]) = applyEv (replay log) e := by
  simp [replay, List.foldl_append]

theorem disp_eq {w : World} : ∀ d, w.log = d ++ w.queue → w.disp = d := by
  intro d hd
  simp only [World.disp, hd, List.length_append, Nat.add_sub_cancel, List.take_left']

/-! ### commits -/

theorem cacheOk_log_append {disp log : List Ev} {s : Sub} {c : Cache} (e : Ev) (h : CacheOk disp log s c) :
    CacheOk disp (log ++ [e]) s c := by
  refine ⟨h.pos, h.gD, h.gDP, by simp; have := h.gP; omega, h.buf, ?_⟩
  rw [h.batch, List.take_append_of_le_length h.gP]

theorem subInv_log_append {disp log : List Ev} {ws : List Watch} {s : Sub} (e : Ev) (h : SubInv disp log ws s) :
    SubInv disp (log ++ [e]) ws s := by
  obtain ⟨c, hc, hok⟩ := h.cache
  exact ⟨⟨c, hc, cacheOk_log_append e hok⟩, h.bufOk, h.refs⟩

theorem expected_log_append {disp log : List Ev} {wt : Watch} (e : Ev) (h : wt.gP ≤ log.length) :
    expected disp (log ++ [e]) wt = expected disp log wt := by
  simp only [expected, List.take_append_of_le_length h]

theorem watchInv_log_append {disp log : List Ev} {subs : List Sub} {wt : Watch} (e : Ev)
    (h : WatchInv disp log subs wt) : WatchInv disp (log ++ [e]) subs wt := by
  refine ⟨h.stRel, by simp; have := h.gP; omega, h.gDP, h.gDd, h.live, ?_⟩
  intro hr
  rw [expected_log_append e h.gP]
  exact h.dead hr

/-- a committed event: rows and index move on, the event joins the log and the publish queue -/
theorem winv_commit {w : World} (h : WInv w) (db' : DB) (e : Ev)
    (hrows : db'.rows = applyEv w.db.rows e) (hidx : db'.evIdx = w.db.evIdx + 1) (he : e.idx = w.db.evIdx + 1) :
    WInv (w.commit db' (some e)) := by
  obtain ⟨d, hd⟩ := h.qsuf
  have hdisp : (w.commit db' (some e)).disp = w.disp := by
    simp only [World.commit, World.disp, List.length_append, List.length_singleton]
    have : w.log.length + 1 - (w.queue.length + 1) = w.log.length - w.queue.length := by omega
    rw [this, List.take_append_of_le_length (by omega)]
  refine ⟨?_, ?_, ⟨d, ?_⟩, ?_, h.keys, ?_, ?_⟩
  · simp only [World.commit]; rw [hrows, h.rows, replay_append]
  · simp only [World.commit, List.length_append, List.length_singleton]; rw [hidx, h.evIdx]
  · simp only [World.commit]; rw [hd]; simp
  · simp only [World.commit, List.map_append, List.map_cons, List.map_nil, List.length_append, List.length_singleton]
    rw [h.logIdx, he, h.evIdx, List.range'_concat]
    simp; omega
  · intro s hs
    rw [hdisp]
    exact subInv_log_append e (h.subs s hs)
  · intro wt hwt
    rw [hdisp]
    exact watchInv_log_append e (h.watches wt hwt)

theorem winv_commit_none {w : World} (h : WInv w) : WInv (w.commit w.db none) := by
  simpa [World.commit] using h

theorem winv_ctr {w : World} (h : WInv w) (n : Nat) : WInv { w with ctr := n } := by
  exact ⟨h.rows, h.evIdx, h.qsuf, h.logIdx, h.keys, h.subs, h.watches⟩

theorem writeCAS_cases (db : DB) (res : Res) (vsn : String) :
    (∃ r, db.writeCAS res vsn = (db, r, none)) ∨
    (∃ db' e, db.writeCAS res vsn = (db', .ok, some e) ∧ db'.rows = applyEv db.rows e ∧
      db'.evIdx = db.evIdx + 1 ∧ e.idx = db.evIdx + 1) := by
  simp only [DB.writeCAS]
  split
  · split
    · exact Or.inl ⟨_, rfl⟩
    · exact Or.inr ⟨_, _, rfl, by simp [applyEv], rfl, rfl⟩
  · split
    · exact Or.inl ⟨_, rfl⟩
    · split
      · exact Or.inl ⟨_, rfl⟩
      · exact Or.inr ⟨_, _, rfl, by simp [applyEv], rfl, rfl⟩

theorem deleteCAS_cases (db : DB) (id : RID) (vsn : String) :
    (∃ ok, db.deleteCAS id vsn = (db, ok, none)) ∨
    (∃ db' e, db.deleteCAS id vsn = (db', true, some e) ∧ db'.rows = applyEv db.rows e ∧
      db'.evIdx = db.evIdx + 1 ∧ e.idx = db.evIdx + 1) := by
  simp only [DB.deleteCAS]
  split
  · exact Or.inl ⟨_, rfl⟩
  · next ex hl =>
    split
    · exact Or.inl ⟨_, rfl⟩
    · split
      · exact Or.inl ⟨_, rfl⟩
      · refine Or.inr ⟨_, _, rfl, ?_, rfl, rfl⟩
        simp only [applyEv]
        have := (lookup_some_key hl)
        rw [this]

theorem winv_storeWrite {w : World} (h : WInv w) (res : Res) (vsn : String) : WInv (w.storeWrite res vsn).1 := by
  simp only [World.storeWrite]
  rcases writeCAS_cases w.db res vsn with ⟨r, hr⟩ | ⟨db', e, hr, h1, h2, h3⟩
  · rw [hr]; exact winv_commit_none h
  · rw [hr]; exact winv_commit h db' e h1 h2 h3

theorem winv_delete {w : World} (h : WInv w) (id : RID) (vsn : String) : WInv (w.delete id vsn).1 := by
  simp only [World.delete]
  rcases deleteCAS_cases w.db id vsn with ⟨r, hr⟩ | ⟨db', e, hr, h1, h2, h3⟩
  · rw [hr]; exact winv_commit_none h
  · rw [hr]; exact winv_commit h db' e h1 h2 h3

/-! ### the publisher goroutine -/

theorem dispatch_key (e : Ev) (s : Sub) : (dispatch e s).key = s.key := by
  simp only [dispatch]; split <;> rfl

theorem dispatch_cache (e : Ev) (s : Sub) : (dispatch e s).cache = s.cache := by
  simp only [dispatch]; split <;> rfl

theorem dispatch_refs (e : Ev) (s : Sub) : (dispatch e s).refs = s.refs := by
  simp only [dispatch]; split <;> rfl

theorem dispatch_len (e : Ev) (s : Sub) : s.buf.length ≤ (dispatch e s).buf.length := by
  simp only [dispatch]; split <;> simp

theorem dispatch_drop_flatten (e : Ev) (s : Sub) (p : Nat) (hp : p ≤ s.buf.length) :
    ((dispatch e s).buf.drop p).flatten = (s.buf.drop p).flatten ++ hitsOf s.key e := by
  simp only [dispatch]
  split
  · next h => simp [List.isEmpty_iff.mp h]
  · simp [List.drop_append_of_le_length hp]

theorem dispatch_bufOk (e : Ev) (s : Sub) (he : 0 < e.idx) (h : ∀ b ∈ s.buf, guardSkips 0 b = false) :
    ∀ b ∈ (dispatch e s).buf, guardSkips 0 b = false := by
  simp only [dispatch]
  split
  · exact h
  · next hne =>
    intro b hb
    rcases List.mem_append.mp hb with hb | hb
    · exact h b hb
    · simp only [List.mem_singleton] at hb
      subst hb
      simp only [hitsOf] at hne ⊢
      cases hf : (evSubjects e).filter (· = s.key) with
      | nil => simp [hf, hitsOf] at hne
      | cons x xs => simp [guardSkips]; omega

theorem drop_append_singleton {α : Type} (d : List α) (e : α) (n : Nat) (h : n ≤ d.length) :
    (d ++ [e]).drop n = d.drop n ++ [e] := List.drop_append_of_le_length h

theorem expected_disp_append {d log : List Ev} {wt : Watch} (e : Ev) (h : wt.gD ≤ d.length) :
    expected (d ++ [e]) log wt = expected d log wt ++ vis wt.q (hitsOf wt.subj e) := by
  simp [expected, drop_append_singleton d e wt.gD h, List.flatMap_append, vis_append]

theorem winv_pump {w : World} (h : WInv w) : WInv w.pump.1 := by
  unfold World.pump
  split
  · exact h
  · next e q hq =>
    obtain ⟨d, hd⟩ := h.qsuf
    rw [hq] at hd
    have hdisp : w.disp = d ++ [] := by simp; exact disp_eq d (by rw [hd, hq])
    simp only [List.append_nil] at hdisp
    have hepos : 0 < e.idx := log_idx_pos h e (by rw [hd]; simp)
    have hdisp' : ({ w with queue := q, subs := w.subs.map (dispatch e) } : World).disp = d ++ [e] :=
      disp_eq (d ++ [e]) (by simp [hd])
    refine ⟨h.rows, h.evIdx, ⟨d ++ [e], by simp [hd]⟩, h.logIdx, ?_, ?_, ?_⟩
    · have : (w.subs.map (dispatch e)).map (·.key) = w.subs.map (·.key) := by
        simp [List.map_map, Function.comp_def, dispatch_key]
      simp only [this]; exact h.keys
    · intro s' hs'
      obtain ⟨s, hs, rfl⟩ := List.mem_map.mp hs'
      rw [hdisp']
      have hsi := h.subs s hs
      rw [hdisp] at hsi
      obtain ⟨c, hc, hok⟩ := hsi.cache
      refine ⟨⟨c, by rw [dispatch_cache]; exact hc, ?_⟩, dispatch_bufOk e s hepos hsi.bufOk,
        by rw [dispatch_key, dispatch_refs]; exact hsi.refs⟩
      refine ⟨Nat.le_trans hok.pos (dispatch_len e s), by simp; have := hok.gD; omega, hok.gDP, hok.gP, ?_, hok.batch⟩
      rw [dispatch_drop_flatten e s c.pos hok.pos, dispatch_key, drop_append_singleton d e c.gD hok.gD,
        List.flatMap_append, hok.buf]
      simp
    · intro wt hwt
      have hwi := h.watches wt hwt
      rw [hdisp] at hwi
      rw [hdisp']
      refine ⟨hwi.stRel, hwi.gP, hwi.gDP, by simp; have := hwi.gDd; omega, ?_, ?_⟩
      · intro hr
        obtain ⟨s, c, hf, hc, e1, e2, e3, hpos, hsn, heq⟩ := hwi.live hr
        have hs := (findSub_some hf).1
        have hsi := h.subs s hs
        rw [hdisp] at hsi
        obtain ⟨c', hc', hok⟩ := hsi.cache
        obtain rfl : c' = c := by rw [hc] at hc'; cases hc'; rfl
        refine ⟨dispatch e s, c', by simp only [findSub_map_dispatch, hf, Option.map_some], by rw [dispatch_cache]; exact hc,
          e1, e2, e3, Nat.le_trans hpos (dispatch_len e s), hsn, ?_⟩
        simp only [Watch.stream] at heq ⊢
        rw [dispatch_drop_flatten e s wt.pos hpos, dispatch_drop_flatten e s c'.pos hok.pos]
        simp only [← List.append_assoc, vis_append] at heq ⊢
        rw [heq]
      · intro hr
        rw [expected_disp_append e hwi.gDd]
        exact (hwi.dead hr).trans (List.prefix_append _ _)

/-! ### `Watch.Next` -/

theorem expected_sameId {disp log : List Ev} {a b : Watch} (h : a.sameId b) : expected disp log a = expected disp log b := by
  obtain ⟨h1, h2, _, _, h5, h6, h7⟩ := h
  simp only [expected, h1, h2, h5, h6, h7]

theorem liveCount_setAt {ws : List Watch} {i : Nat} {a b : Watch} (k : Bytes) (h : ws[i]? = some a)
    (hr : b.released = a.released) (hs : b.subj = a.subj) : liveCount (setAt ws i b) k = liveCount ws k := by
  have := count_setAt (fun wt => !wt.released && decide (wt.subj = k)) (b := b) h
  simp only [liveCount]
  simp only [hr, hs] at this
  omega

theorem watchNext_none (w : World) (i : Nat) (h : w.watches[i]? = none) : (w.watchNext i).1 = w := by
  simp [World.watchNext, h]

theorem watchNext_some (w : World) (i : Nat) (wt : Watch) (h : w.watches[i]? = some wt) :
    (w.watchNext i).1 = { w with watches := setAt w.watches i (wt.next (w.bufOf wt)).1 } := by
  simp [World.watchNext, h]

theorem winv_watchNext {w : World} (h : WInv w) (i : Nat) : WInv (w.watchNext i).1 := by
  cases hget : w.watches[i]? with
  | none => rw [watchNext_none w i hget]; exact h
  | some wt =>
    rw [watchNext_some w i wt hget]
    have hmem : wt ∈ w.watches := List.mem_of_getElem? hget
    have hwi := h.watches wt hmem
    generalize hbuf : w.bufOf wt = buf
    simp only [World.bufOf] at hbuf
    have hdisp : ({ w with watches := setAt w.watches i (wt.next buf).1 } : World).disp = w.disp := rfl
    rcases hwi.stRel with ⟨hopen, hrel⟩ | ⟨hunsub, hrel⟩
    · -- open watch
      obtain ⟨s, c, hf, hc, e1, e2, e3, hpos, hsn, heq⟩ := hwi.live hrel
      have hb : buf = s.buf := by rw [← hbuf, hf]
      subst hb
      have hsi := h.subs s (findSub_some hf).1
      obtain ⟨hid, hpos', hsn', heq'⟩ := next_open_spec wt s.buf hpos hsi.bufOk hsn hopen
      obtain ⟨q1, q2, q3, q4, q5, q6, q7⟩ := hid
      refine ⟨h.rows, h.evIdx, h.qsuf, h.logIdx, h.keys, ?_, ?_⟩
      · intro s' hs'
        have := h.subs s' hs'
        exact ⟨this.cache, this.bufOk, by show liveCount (setAt w.watches i _) s'.key ≤ s'.refs; rw [liveCount_setAt s'.key hget q4 q2]; exact this.refs⟩
      · intro x hx
        rcases mem_setAt hx with rfl | hx
        · refine ⟨Or.inl ⟨by rw [q3]; exact hopen, by rw [q4]; exact hrel⟩, by rw [q6]; exact hwi.gP,
            by rw [q5, q6]; exact hwi.gDP, by rw [q5]; exact hwi.gDd, ?_, ?_⟩
          · intro _
            refine ⟨s, c, by rw [q2]; exact hf, hc, by rw [q5]; exact e1, by rw [q6]; exact e2, by rw [q7]; exact e3,
              hpos', hsn', ?_⟩
            rw [q1, heq', heq]
          · intro hr; rw [q4, hrel] at hr; cases hr
        · exact h.watches x hx
    · -- closed by the caller
      obtain ⟨hid, heq'⟩ := next_unsub_spec wt buf hunsub
      have hid' := hid
      obtain ⟨q1, q2, q3, q4, q5, q6, q7⟩ := hid
      refine ⟨h.rows, h.evIdx, h.qsuf, h.logIdx, h.keys, ?_, ?_⟩
      · intro s' hs'
        have := h.subs s' hs'
        exact ⟨this.cache, this.bufOk, by show liveCount (setAt w.watches i _) s'.key ≤ s'.refs; rw [liveCount_setAt s'.key hget q4 q2]; exact this.refs⟩
      · intro x hx
        rcases mem_setAt hx with rfl | hx
        · refine ⟨Or.inr ⟨by rw [q3]; exact hunsub, by rw [q4]; exact hrel⟩, by rw [q6]; exact hwi.gP,
            by rw [q5, q6]; exact hwi.gDP, by rw [q5]; exact hwi.gDd, ?_, ?_⟩
          · intro hr; rw [q4, hrel] at hr; cases hr
          · intro _
            rw [q1, heq', expected_sameId hid']
            exact hwi.dead hrel
        · exact h.watches x hx

/-! ### `WatchList` -/

theorem liveCount_append_one (ws : List Watch) (a : Watch) (k : Bytes) :
    liveCount (ws ++ [a]) k = liveCount ws k + (if (!a.released && decide (a.subj = k)) = true then 1 else 0) := by
  simp only [liveCount, List.filter_append, List.length_append, List.filter_cons, List.filter_nil]
  split <;> simp

theorem liveCount_zero {ws : List Watch} {k : Bytes} (h : ∀ x ∈ ws, x.released = false → x.subj ≠ k) :
    liveCount ws k = 0 := by
  simp only [liveCount, List.length_eq_zero_iff, List.filter_eq_nil_iff]
  intro x hx
  cases hr : x.released with
  | true => simp
  | false => simp [h x hx hr]

theorem snapshotBatch_guard (db : DB) (sq : Query) (h : 0 < db.evIdx) : guardSkips 0 (snapshotBatch db sq) = false := by
  simp only [snapshotBatch]
  cases hl : list db.rows sq with
  | nil => simp [guardSkips]; omega
  | cons r rs => simp [guardSkips]; omega

/-- a watch's invariant only looks at the cache and the buffer of its own subject entry -/
theorem watchInv_subs_congr {disp log : List Ev} {subs subs' : List Sub} {x : Watch}
    (h : WatchInv disp log subs x)
    (hs : x.released = false → ∀ s, findSub x.subj subs = some s →
      ∃ s', findSub x.subj subs' = some s' ∧ s'.cache = s.cache ∧ s'.buf = s.buf) :
    WatchInv disp log subs' x := by
  refine ⟨h.stRel, h.gP, h.gDP, h.gDd, ?_, h.dead⟩
  intro hr
  obtain ⟨s, c, hf, hc, e1, e2, e3, hpos, hsn, heq⟩ := h.live hr
  obtain ⟨s', hf', hc', hb'⟩ := hs hr s hf
  exact ⟨s', c, hf', by rw [hc', hc], e1, e2, e3, by rw [hb']; exact hpos, hsn, by rw [hb']; exact heq⟩

theorem disp_length (w : World) (h : WInv w) : w.disp.length = w.log.length - w.queue.length := by
  obtain ⟨d, hd⟩ := h.qsuf
  rw [disp_eq d hd, hd]; simp

theorem winv_watchOpen {w : World} (h : WInv w) (q : Query) : WInv (w.watchOpen q).1 := by
  unfold World.watchOpen
  generalize hsub : q.subject = ks
  obtain ⟨key, sq⟩ := ks
  simp only []
  cases hf : findSub key w.subs with
  | some s =>
    -- the subject has a buffer, hence (restore-free) a cached snapshot
    have hsmem := (findSub_some hf).1
    have hskey : s.key = key := (findSub_some hf).2
    have hsi := h.subs s hsmem
    obtain ⟨c, hc, hok⟩ := hsi.cache
    simp only [hc]
    generalize hs' : ({ s with refs := s.refs + 1, cache := some c } : Sub) = sub'
    have hk' : sub'.key = key := by rw [← hs']; exact hskey
    have hb' : sub'.buf = s.buf := by rw [← hs']
    have hc' : sub'.cache = some c := by rw [← hs']
    have hr' : sub'.refs = s.refs + 1 := by rw [← hs']
    generalize hw0 : (Watch.mk q key [] (some c.batch) c.pos WState.opened false 0 c.gD c.gP c.gSq []) = wt0
    have hlive0 : ∀ k, (!wt0.released && decide (wt0.subj = k)) = decide (key = k) := by intro k; rw [← hw0]; simp
    refine ⟨h.rows, h.evIdx, h.qsuf, h.logIdx, nodup_setSub h.keys, ?_, ?_⟩
    · intro x hx
      show SubInv w.disp w.log (w.watches ++ [wt0]) x
      rcases mem_setSub_nodup h.keys hx with rfl | ⟨hxm, hxk⟩
      · refine ⟨⟨c, hc', ⟨by rw [hb']; exact hok.pos, hok.gD, hok.gDP, hok.gP, by rw [hb', hk', ← hskey]; exact hok.buf, hok.batch⟩⟩,
          by rw [hb']; exact hsi.bufOk, ?_⟩
        rw [liveCount_append_one, hlive0, hk', hr']
        have := hsi.refs; rw [hskey] at this
        simp; omega
      · have hx := h.subs x hxm
        refine ⟨hx.cache, hx.bufOk, ?_⟩
        rw [liveCount_append_one, hlive0]
        have : key ≠ x.key := by rw [← hk']; exact fun e => hxk e.symm
        simp [this]; exact hx.refs
    · intro x hx
      show WatchInv w.disp w.log (setSub sub' w.subs) x
      rcases List.mem_append.mp hx with hx | hx
      · apply watchInv_subs_congr (h.watches x hx)
        intro _ s0 hs0
        rw [findSub_setSub, hk']
        split
        · next e => rw [← e, hf] at hs0; cases hs0; exact ⟨sub', rfl, by rw [hc', hc], hb'⟩
        · exact ⟨s0, hs0, rfl, rfl⟩
      · simp only [List.mem_singleton] at hx
        subst hx
        rw [← hw0]
        refine ⟨Or.inl ⟨rfl, rfl⟩, hok.gP, hok.gDP, hok.gD, ?_, by intro hr; cases hr⟩
        intro _
        refine ⟨sub', c, by rw [findSub_setSub, hk']; simp, hc', rfl, rfl, rfl, by rw [hb']; exact hok.pos, ?_, ?_⟩
        · intro b hb; simp only [Option.some.injEq] at hb; subst hb
          rw [hok.batch]; exact snapshotBatch_guard _ _ (by simp)
        · simp [Watch.stream, hb']
  | none =>
    simp only []
    have hnone := findSub_none hf
    obtain ⟨c, hc0⟩ : ∃ c : Cache, c = Cache.mk (snapshotBatch w.db sq) (splicePos [] w.db.evIdx)
        (w.log.length - w.queue.length) w.log.length sq := ⟨_, rfl⟩
    generalize hs' : (Sub.mk key [] (0 + 1) (some (Cache.mk (snapshotBatch w.db sq) (splicePos [] w.db.evIdx)
        (w.log.length - w.queue.length) w.log.length sq))) = sub'
    have hk' : sub'.key = key := by rw [← hs']
    have hb' : sub'.buf = [] := by rw [← hs']
    have hc' : sub'.cache = some c := by rw [← hs', hc0]
    have hr' : sub'.refs = 1 := by rw [← hs']
    have hcpos : c.pos = 0 := by rw [hc0]; simp [splicePos]
    have hcgD : c.gD = w.disp.length := by rw [hc0, disp_length w h]
    have hcgP : c.gP = w.log.length := by rw [hc0]
    have hcb : c.batch = snapshotBatch ⟨replay (w.log.take c.gP), c.gP + 2⟩ c.gSq := by
      rw [hcgP, List.take_length, ← h.rows, ← h.evIdx, hc0]
    generalize hw0 : (Watch.mk q key [] (some (snapshotBatch w.db sq)) (splicePos [] w.db.evIdx) WState.opened false 0
        (w.log.length - w.queue.length) w.log.length sq []) = wt0
    have hw0' : wt0 = Watch.mk q key [] (some c.batch) c.pos WState.opened false 0 c.gD c.gP c.gSq [] := by
      rw [← hw0, hc0]
    have hlive0 : ∀ k, (!wt0.released && decide (wt0.subj = k)) = decide (key = k) := by intro k; rw [← hw0]; simp
    have hok : CacheOk w.disp w.log sub' c := by
      refine ⟨by rw [hcpos]; omega, by rw [hcgD]; exact Nat.le_refl _, ?_, by rw [hcgP]; exact Nat.le_refl _, ?_, hcb⟩
      · rw [hcgD, hcgP, disp_length w h]; omega
      · rw [hb', hcgD]; simp
    have hnolive : ∀ x ∈ w.watches, x.released = false → x.subj ≠ key := by
      intro x hx hr e
      obtain ⟨s, _, hfs, _⟩ := (h.watches x hx).live hr
      rw [e, hf] at hfs; cases hfs
    refine ⟨h.rows, h.evIdx, h.qsuf, h.logIdx, nodup_setSub h.keys, ?_, ?_⟩
    · intro x hx
      show SubInv w.disp w.log (w.watches ++ [wt0]) x
      rcases mem_setSub_nodup h.keys hx with rfl | ⟨hxm, hxk⟩
      · refine ⟨⟨c, hc', hok⟩, by rw [hb']; simp, ?_⟩
        rw [liveCount_append_one, hlive0, hk', hr', liveCount_zero hnolive]
        simp
      · have hx := h.subs x hxm
        refine ⟨hx.cache, hx.bufOk, ?_⟩
        rw [liveCount_append_one, hlive0]
        have : key ≠ x.key := fun e => hnone x hxm e.symm
        simp [this]; exact hx.refs
    · intro x hx
      show WatchInv w.disp w.log (setSub sub' w.subs) x
      rcases List.mem_append.mp hx with hx | hx
      · apply watchInv_subs_congr (h.watches x hx)
        intro hr s0 hs0
        rw [findSub_setSub, hk']
        split
        · next e => exact absurd e.symm (hnolive x hx hr)
        · exact ⟨s0, hs0, rfl, rfl⟩
      · simp only [List.mem_singleton] at hx
        subst hx
        rw [hw0']
        refine ⟨Or.inl ⟨rfl, rfl⟩, hok.gP, hok.gDP, hok.gD, ?_, by intro hr; cases hr⟩
        intro _
        refine ⟨sub', c, by rw [findSub_setSub, hk']; simp, hc', rfl, rfl, rfl, by rw [hb', hcpos]; simp, ?_, ?_⟩
        · intro b hb; simp only [Option.some.injEq] at hb; subst hb
          rw [hcb]; exact snapshotBatch_guard _ _ (by simp)
        · simp [Watch.stream, hb']

/-! ### `Watch.Close` -/

theorem liveCount_setAt_close {ws : List Watch} {i : Nat} {a b : Watch} (k : Bytes) (h : ws[i]? = some a)
    (ha : a.released = false) (hb : b.released = true) :
    liveCount (setAt ws i b) k + (if a.subj = k then 1 else 0) = liveCount ws k := by
  have := count_setAt (fun wt => !wt.released && decide (wt.subj = k)) (b := b) h
  simp only [liveCount]
  simp only [ha, hb] at this
  split <;> simp_all

theorem liveCount_pos {ws : List Watch} {x : Watch} {k : Bytes} (hx : x ∈ ws) (hr : x.released = false)
    (hk : x.subj = k) : 0 < liveCount ws k := by
  simp only [liveCount]
  apply List.length_pos_of_mem (a := x)
  simp [List.mem_filter, hx, hr, hk]

theorem setAt_self {α : Type} {l : List α} {i : Nat} {a : α} (h : l[i]? = some a) : setAt l i a = l := by
  induction l generalizing i with
  | nil => rfl
  | cons y ys ih =>
    cases i with
    | zero => simp only [List.getElem?_cons_zero, Option.some.injEq] at h; subst h; rfl
    | succ i => simp only [List.getElem?_cons_succ] at h; simp [setAt, ih h]

theorem mem_dropSub {x : Sub} {k : Bytes} {ss : List Sub} (h : x ∈ dropSub k ss) : x ∈ ss ∧ x.key ≠ k := by
  simpa [dropSub, List.mem_filter] using h

theorem nodup_dropSub {k : Bytes} {ss : List Sub} (h : (ss.map (·.key)).Nodup) : ((dropSub k ss).map (·.key)).Nodup := by
  simp only [dropSub]
  exact h.sublist ((List.filter_sublist).map _)

/-- a live watch, together with the invariant of its subject entry, has received exactly a prefix of
    what it is entitled to, and everything else is still in front of it -/
theorem live_expected {disp log : List Ev} {wt : Watch} {s : Sub} {c : Cache}
    (hk : s.key = wt.subj) (hok : CacheOk disp log s c) (e1 : wt.gD = c.gD) (e2 : wt.gP = c.gP) (e3 : wt.gSq = c.gSq)
    (heq : wt.gDelivered ++ vis wt.q (wt.stream s.buf) = vis wt.q (c.batch ++ (s.buf.drop c.pos).flatten)) :
    wt.gDelivered ++ vis wt.q (wt.stream s.buf) = expected disp log wt := by
  rw [heq, vis_append, hok.buf, hok.batch, expected, e1, e2, e3, hk]

theorem watchClose_none (w : World) (i : Nat) (h : w.watches[i]? = none) : (w.watchClose i).1 = w := by
  simp [World.watchClose, h]

theorem winv_watchClose {w : World} (h : WInv w) (i : Nat) : WInv (w.watchClose i).1 := by
  cases hget : w.watches[i]? with
  | none => rw [watchClose_none w i hget]; exact h
  | some wt =>
    have hmem : wt ∈ w.watches := List.mem_of_getElem? hget
    have hwi := h.watches wt hmem
    simp only [World.watchClose, hget]
    rcases hwi.stRel with ⟨hopen, hrel⟩ | ⟨hunsub, hrel⟩
    · -- a live watch is closed
      obtain ⟨s, c, hf, hc, e1, e2, e3, hpos, hsn, heq⟩ := hwi.live hrel
      have hsmem := (findSub_some hf).1
      have hskey : s.key = wt.subj := (findSub_some hf).2
      have hsi := h.subs s hsmem
      obtain ⟨c', hc', hok⟩ := hsi.cache
      obtain rfl : c' = c := by rw [hc] at hc'; cases hc'; rfl
      simp only [hopen, hrel, hf, if_true, Bool.false_eq_true, if_false]
      generalize hw' : ({ wt with st := WState.unsub, released := true } : Watch) = wt'
      have hr' : wt'.released = true := by rw [← hw']
      have hcount := fun k => liveCount_setAt_close (b := wt') k hget hrel hr'
      have hdead : WatchInv w.disp w.log (if s.refs ≤ 1 then dropSub s.key w.subs else setSub { s with refs := s.refs - 1 } w.subs) wt' := by
        refine ⟨Or.inr ⟨by rw [← hw'], hr'⟩, by rw [← hw']; exact hwi.gP, by rw [← hw']; exact hwi.gDP,
          by rw [← hw']; exact hwi.gDd, (by intro hr; rw [hr'] at hr; cases hr), ?_⟩
        intro _
        have hexp := live_expected hskey hok e1 e2 e3 heq
        have hsame : expected w.disp w.log wt' = expected w.disp w.log wt := by rw [← hw']; rfl
        rw [hsame, ← hexp]
        have : wt'.gDelivered ++ vis wt'.q wt'.inbox = wt.gDelivered ++ vis wt.q wt.inbox := by rw [← hw']
        rw [this]
        simp only [Watch.stream, vis_append, ← List.append_assoc]
        exact ((List.prefix_append _ _).trans (List.prefix_append _ _))
      -- no other live watch uses the entry if it is about to be dropped
      have hother : ∀ x ∈ setAt w.watches i wt', x.released = false → s.refs ≤ 1 → x.subj ≠ s.key := by
        intro x hx hxr hle hxs
        have h1 := liveCount_pos hx hxr hxs
        have h2 := hcount s.key
        rw [if_pos hskey.symm] at h2
        have h3 := hsi.refs
        omega
      refine ⟨h.rows, h.evIdx, h.qsuf, h.logIdx, ?_, ?_, ?_⟩
      · show ((if s.refs ≤ 1 then dropSub s.key w.subs else setSub { s with refs := s.refs - 1 } w.subs).map (·.key)).Nodup
        split
        · exact nodup_dropSub h.keys
        · exact nodup_setSub h.keys
      · intro x hx
        show SubInv w.disp w.log (setAt w.watches i wt') x
        have hx' : x ∈ (if s.refs ≤ 1 then dropSub s.key w.subs else setSub { s with refs := s.refs - 1 } w.subs) := hx
        split at hx'
        · obtain ⟨hxm, hxk⟩ := mem_dropSub hx'
          have hxi := h.subs x hxm
          refine ⟨hxi.cache, hxi.bufOk, ?_⟩
          have := hcount x.key; have := hxi.refs; omega
        · next hgt =>
          rcases mem_setSub_nodup h.keys hx' with rfl | ⟨hxm, hxk⟩
          · refine ⟨⟨c', hc, ⟨hok.pos, hok.gD, hok.gDP, hok.gP, hok.buf, hok.batch⟩⟩, hsi.bufOk, ?_⟩
            have h2 := hcount s.key
            rw [if_pos hskey.symm] at h2
            have h3 := hsi.refs
            show liveCount (setAt w.watches i wt') s.key ≤ s.refs - 1
            omega
          · have hxi := h.subs x hxm
            refine ⟨hxi.cache, hxi.bufOk, ?_⟩
            have := hcount x.key; have := hxi.refs; omega
      · intro x hx
        show WatchInv w.disp w.log (if s.refs ≤ 1 then dropSub s.key w.subs else setSub { s with refs := s.refs - 1 } w.subs) x
        rcases mem_setAt hx with rfl | hxo
        · exact hdead
        · apply watchInv_subs_congr (h.watches x hxo)
          intro hxr s0 hs0
          split
          · next hle =>
            rw [findSub_dropSub]
            rw [if_neg (hother x hx hxr hle)]
            exact ⟨s0, hs0, rfl, rfl⟩
          · rw [findSub_setSub]
            split
            · next e =>
              have : s0 = s := by
                have : findSub x.subj w.subs = some s := by rw [← e]; exact findSub_of_mem h.keys hsmem
                rw [this] at hs0; cases hs0; rfl
              subst this
              exact ⟨_, rfl, rfl, rfl⟩
            · exact ⟨s0, hs0, rfl, rfl⟩
    · -- already closed: nothing changes
      have hst : (if wt.st = WState.opened then WState.unsub else wt.st) = wt.st := by rw [hunsub]; simp
      have hw' : ({ wt with st := (if wt.st = WState.opened then WState.unsub else wt.st), released := true } : Watch) = wt := by
        rw [hst]; cases wt; simp_all
      simp only [hrel, if_true]
      rw [hw', setAt_self hget]
      exact h

/-! ### all operations but `restore` -/

/-- the sequence contains no snapshot restore -/
def RestoreFree : List WOp → Prop
  | [] => True
  | .restore _ :: _ => False
  | _ :: ops => RestoreFree ops

theorem winv_step {w : World} (h : WInv w) (op : WOp) (hop : ∀ rs, op ≠ .restore rs) : WInv (w.step op).1 := by
  cases op with
  | restore rs => exact absurd rfl (hop rs)
  | bwrite res => simp only [World.step, World.backendWrite]; exact winv_storeWrite (winv_ctr h _) _ _
  | swrite res vsn => simp only [World.step]; exact winv_storeWrite h _ _
  | delete id vsn => simp only [World.step]; exact winv_delete h _ _
  | rwrite idx res =>
    simp only [World.step, World.raftWrite]
    split
    · exact h
    · exact winv_storeWrite h _ _
  | rdelete id vsn =>
    simp only [World.step, World.raftDelete]
    split
    · exact h
    · exact winv_delete h _ _
  | read id => exact h
  | list q => exact h
  | listOwner id => exact h
  | wopen q => simp only [World.step]; exact winv_watchOpen h q
  | wnext i => simp only [World.step]; exact winv_watchNext h i
  | wclose i => simp only [World.step]; exact winv_watchClose h i
  | pump => simp only [World.step]; exact winv_pump h
  | snap => exact h

theorem restoreFree_cons {op : WOp} {ops : List WOp} (h : RestoreFree (op :: ops)) :
    (∀ rs, op ≠ .restore rs) ∧ RestoreFree ops := by
  cases op <;> simp_all [RestoreFree]

theorem winv_run : ∀ (ops : List WOp) (w : World), WInv w → RestoreFree ops → WInv (w.run ops) := by
  intro ops
  induction ops with
  | nil => intro w h _; exact h
  | cons op ops ih =>
    intro w h hr
    obtain ⟨h1, h2⟩ := restoreFree_cons hr
    exact ih _ (winv_step h op h1) h2

/-- what the invariant says about one watch: nothing it is entitled to is lost or reordered -/
theorem winv_watch {w : World} (h : WInv w) (wt : Watch) (hwt : wt ∈ w.watches) :
    wt.gD ≤ wt.gP ∧ wt.gP ≤ w.log.length ∧
    (wt.released = false → wt.gDelivered ++ vis wt.q (wt.stream (w.bufOf wt)) = expected w.disp w.log wt) ∧
    wt.gDelivered <+: expected w.disp w.log wt := by
  have hwi := h.watches wt hwt
  have hlive : wt.released = false → wt.gDelivered ++ vis wt.q (wt.stream (w.bufOf wt)) = expected w.disp w.log wt := by
    intro hr
    obtain ⟨s, c, hf, hc, e1, e2, e3, hpos, hsn, heq⟩ := hwi.live hr
    have hsi := h.subs s (findSub_some hf).1
    obtain ⟨c', hc', hok⟩ := hsi.cache
    obtain rfl : c' = c := by rw [hc] at hc'; cases hc'; rfl
    have : w.bufOf wt = s.buf := by simp [World.bufOf, hf]
    rw [this]
    exact live_expected (findSub_some hf).2 hok e1 e2 e3 heq
  refine ⟨hwi.gDP, hwi.gP, hlive, ?_⟩
  cases hr : wt.released with
  | false => rw [← hlive hr]; exact List.prefix_append _ _
  | true => exact (List.prefix_append _ _).trans (hwi.dead hr)

/-! ### no stale events when the publisher has caught up at every `WatchList` -/

/-- every snapshot in use was taken with nothing committed-but-undispatched -/
def NoStale (w : World) : Prop :=
  (∀ s ∈ w.subs, ∀ c, s.cache = some c → c.gD = c.gP) ∧ (∀ wt ∈ w.watches, wt.gD = wt.gP)

/-- at every `WatchList` of the run the publish queue is empty -/
def isWatchOpen : WOp → Bool
  | .wopen _ => true
  | _ => false

def QuiescentOpens : World → List WOp → Prop
  | _, [] => True
  | w, op :: ops => (isWatchOpen op = true → w.queue = []) ∧ QuiescentOpens (w.step op).1 ops

theorem noStale_commit {w : World} (h : NoStale w) (db' : DB) (e : Option Ev) : NoStale (w.commit db' e) := by
  cases e <;> exact h

theorem noStale_storeWrite {w : World} (h : NoStale w) (res : Res) (vsn : String) : NoStale (w.storeWrite res vsn).1 := by
  simp only [World.storeWrite]; exact noStale_commit h _ _

theorem noStale_delete {w : World} (h : NoStale w) (id : RID) (vsn : String) : NoStale (w.delete id vsn).1 := by
  simp only [World.delete]; exact noStale_commit h _ _

theorem noStale_step {w : World} (hi : WInv w) (h : NoStale w) (op : WOp) (hop : ∀ rs, op ≠ .restore rs)
    (hq : ∀ q, op = .wopen q → w.queue = []) : NoStale (w.step op).1 := by
  cases op with
  | restore rs => exact absurd rfl (hop rs)
  | bwrite res => simp only [World.step, World.backendWrite]; exact noStale_storeWrite (w := { w with ctr := w.ctr + 1 }) h _ _
  | swrite res vsn => simp only [World.step]; exact noStale_storeWrite h _ _
  | delete id vsn => simp only [World.step]; exact noStale_delete h _ _
  | rwrite idx res =>
    simp only [World.step, World.raftWrite]
    split
    · exact h
    · exact noStale_storeWrite h _ _
  | rdelete id vsn =>
    simp only [World.step, World.raftDelete]
    split
    · exact h
    · exact noStale_delete h _ _
  | read id => exact h
  | list q => exact h
  | listOwner id => exact h
  | snap => exact h
  | pump =>
    simp only [World.step, World.pump]
    split
    · exact h
    · refine ⟨?_, h.2⟩
      intro s' hs' c hc
      obtain ⟨s, hs, rfl⟩ := List.mem_map.mp hs'
      rw [dispatch_cache] at hc
      exact h.1 s hs c hc
  | wnext i =>
    simp only [World.step]
    cases hget : w.watches[i]? with
    | none => rw [watchNext_none w i hget]; exact h
    | some wt =>
      rw [watchNext_some w i wt hget]
      refine ⟨h.1, ?_⟩
      intro x hx
      rcases mem_setAt hx with rfl | hx
      · have hmem : wt ∈ w.watches := List.mem_of_getElem? hget
        have hwi := hi.watches wt hmem
        have hid : (wt.next (w.bufOf wt)).1.sameId wt := by
          rcases hwi.stRel with ⟨hopen, hrel⟩ | ⟨hunsub, hrel⟩
          · obtain ⟨s, c, hf, hc, e1, e2, e3, hpos, hsn, heq⟩ := hwi.live hrel
            have : w.bufOf wt = s.buf := by simp [World.bufOf, hf]
            rw [this]
            exact (next_open_spec wt s.buf hpos (hi.subs s (findSub_some hf).1).bufOk hsn hopen).1
          · exact (next_unsub_spec wt _ hunsub).1
        obtain ⟨_, _, _, _, q5, q6, _⟩ := hid
        rw [q5, q6]; exact h.2 wt hmem
      · exact h.2 x hx
  | wclose i =>
    simp only [World.step]
    cases hget : w.watches[i]? with
    | none => rw [watchClose_none w i hget]; exact h
    | some wt =>
      have hmem : wt ∈ w.watches := List.mem_of_getElem? hget
      simp only [World.watchClose, hget]
      refine ⟨?_, ?_⟩
      · intro s' hs' c hc
        simp only [] at hs'
        split at hs'
        · exact h.1 s' hs' c hc
        · split at hs'
          · exact h.1 s' hs' c hc
          · next s hf =>
            split at hs'
            · exact h.1 s' (mem_dropSub hs').1 c hc
            · rcases mem_setSub_nodup hi.keys hs' with rfl | ⟨hm, _⟩
              · exact h.1 s (findSub_some hf).1 c hc
              · exact h.1 s' hm c hc
      · intro x hx
        rcases mem_setAt hx with rfl | hx
        · exact h.2 wt hmem
        · exact h.2 x hx
  | wopen q =>
    have hq0 := hq q rfl
    simp only [World.step, World.watchOpen]
    generalize q.subject = ks
    obtain ⟨key, sq⟩ := ks
    simp only []
    cases hf : findSub key w.subs with
    | some s =>
      simp only []
      cases hc : s.cache with
      | some c =>
        simp only []
        have hcc := h.1 s (findSub_some hf).1 c hc
        refine ⟨?_, ?_⟩
        · intro s' hs' c' hc'
          rcases mem_setSub_nodup hi.keys hs' with rfl | ⟨hm, _⟩
          · simp only [Option.some.injEq] at hc'; subst hc'; exact hcc
          · exact h.1 s' hm c' hc'
        · intro x hx
          rcases List.mem_append.mp hx with hx | hx
          · exact h.2 x hx
          · simp only [List.mem_singleton] at hx; subst hx; exact hcc
      | none =>
        obtain ⟨c, hc', _⟩ := (hi.subs s (findSub_some hf).1).cache
        rw [hc] at hc'; cases hc'
    | none =>
      simp only [hq0, List.length_nil, Nat.sub_zero]
      refine ⟨?_, ?_⟩
      · intro s' hs' c' hc'
        rcases mem_setSub_nodup hi.keys hs' with rfl | ⟨hm, _⟩
        · simp only [Option.some.injEq] at hc'; subst hc'; rfl
        · exact h.1 s' hm c' hc'
      · intro x hx
        rcases List.mem_append.mp hx with hx | hx
        · exact h.2 x hx
        · simp only [List.mem_singleton] at hx; subst hx; rfl

theorem noStale_run : ∀ (ops : List WOp) (w : World), WInv w → NoStale w → RestoreFree ops → QuiescentOpens w ops →
    NoStale (w.run ops) := by
  intro ops
  induction ops with
  | nil => intro w _ h _ _; exact h
  | cons op ops ih =>
    intro w hi h hr hq
    obtain ⟨h1, h2⟩ := restoreFree_cons hr
    exact ih _ (winv_step hi op h1) (noStale_step hi h op h1 (fun q e => hq.1 (by rw [e]; rfl))) h2 hq.2

/-! ### reads reflect every committed event -/

/-- the value of resource `k` after one more committed event -/
def stepLast (k : Bytes) (v : Option Res) (e : Ev) : Option Res :=
  match e.ev with
  | .upsert r => if idKey r.id = k then some r else v
  | .delete r => if idKey r.id = k then none else v
  | .eos => v

/-- the event is about resource `k` -/
def onKey (k : Bytes) (e : Ev) : Bool :=
  match e.ev.res? with
  | some r => idKey r.id = k
  | none => false

theorem lookup_foldl_applyEv (k : Bytes) :
    ∀ (log : List Ev) (rows : Rows), lookup k (log.foldl applyEv rows) = log.foldl (stepLast k) (lookup k rows) := by
  intro log
  induction log with
  | nil => intro rows; rfl
  | cons e es ih =>
    intro rows
    simp only [List.foldl_cons, ih]
    congr 1
    simp only [applyEv, stepLast]
    cases e.ev with
    | upsert r => simp only [lookup_upsert']
    | delete r => simp only [lookup_remove']; split <;> grind
    | eos => rfl

theorem stepLast_onKey {k : Bytes} {e : Ev} (h : onKey k e = true) (v v' : Option Res) : stepLast k v e = stepLast k v' e := by
  simp only [onKey, WEv.res?] at h
  simp only [stepLast]
  cases he : e.ev with
  | upsert r => simp_all
  | delete r => simp_all
  | eos => simp_all

end CV.Res
