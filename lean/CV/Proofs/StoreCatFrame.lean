/-
Frame lemmas for the catalog tables of the shared store model (used by C07):
what the base functions (`deleteSessionF` / `ensureCheckF` and everything built on them) can do to
`nodes`, `svcs`, `chks` and `sessions`.

`CasRel s s'` — the relation maintained by the session-invalidation cascade: nodes and services are
untouched, no session appears, and every check row of `s'` has a row of `s` with the same node, id and
service binding (the cascade only rewrites status / output of session-typed checks).
-/
import CV.Proofs.StoreBasic
namespace CV.Store
open CV

/-- the catalog tables (plus sessions) of a state -/
def catView (s : State) : List Node × List Svc × List Chk × List Sess := (s.nodes, s.svcs, s.chks, s.sessions)

@[simp] theorem catView_setIdx (s : State) (k v) : catView (s.setIdx k v) = catView s := rfl
@[simp] theorem catView_maxIdx (s : State) (k v) : catView (s.maxIdx k v) = catView s := rfl
@[simp] theorem catView_delIdx (s : State) (k) : catView (s.delIdx k) = catView s := rfl
@[simp] theorem catView_maxIdx2 (s : State) (k v) : catView (s.maxIdx2 k v) = catView s := rfl
@[simp] theorem catView_bumpServiceIdx (s : State) (i n) : catView (bumpServiceIdx s i n) = catView s := rfl
@[simp] theorem catView_with_index (s : State) (c) : catView { s with index := c } = catView s := rfl
@[simp] theorem catView_with_kvs (s : State) (c) : catView { s with kvs := c } = catView s := rfl
@[simp] theorem catView_with_tombs (s : State) (c) : catView { s with tombs := c } = catView s := rfl
@[simp] theorem catView_with_loc (s : State) (c) : catView { s with loc := c } = catView s := rfl
@[simp] theorem catView_with_queries (s : State) (c) : catView { s with queries := c } = catView s := rfl
@[simp] theorem catView_with_sessChecks (s : State) (c) : catView { s with sessChecks := c } = catView s := rfl

theorem catView_foldl {β : Type} (f : State → β → State) (hf : ∀ st b, catView (f st b) = catView st)
    (l : List β) (s : State) : catView (l.foldl f s) = catView s := by
  induction l generalizing s with
  | nil => rfl
  | cons b bs ih =>
    show catView (bs.foldl f (f s b)) = catView s
    rw [ih, hf]

@[simp] theorem catView_updateAll (s : State) (i n) : catView (updateAllServiceIndexesOfNode s i n) = catView s := by
  unfold updateAllServiceIndexesOfNode
  exact catView_foldl (fun st (v : Svc) => bumpServiceIdx st i v.name) (fun st b => rfl) _ s

theorem catView_nodes {s s' : State} (h : catView s' = catView s) : s'.nodes = s.nodes := congrArg (·.1) h
theorem catView_svcs {s s' : State} (h : catView s' = catView s) : s'.svcs = s.svcs := congrArg (·.2.1) h
theorem catView_chks {s s' : State} (h : catView s' = catView s) : s'.chks = s.chks := congrArg (·.2.2.1) h
theorem catView_sessions {s s' : State} (h : catView s' = catView s) : s'.sessions = s.sessions := congrArg (·.2.2.2) h

/-- same node, check id and service binding -/
def ChkSame (a b : Chk) : Prop := a.node = b.node ∧ a.id = b.id ∧ a.svcId = b.svcId

theorem ChkSame.rfl' (a : Chk) : ChkSame a a := ⟨rfl, rfl, rfl⟩
theorem ChkSame.trans {a b c : Chk} (h1 : ChkSame a b) (h2 : ChkSame b c) : ChkSame a c :=
  ⟨h1.1.trans h2.1, h1.2.1.trans h2.2.1, h1.2.2.trans h2.2.2⟩

structure CasRel (s s' : State) : Prop where
  nodes : s'.nodes = s.nodes
  svcs : s'.svcs = s.svcs
  chks : ∀ c' ∈ s'.chks, ∃ c ∈ s.chks, ChkSame c' c
  sess : ∀ x ∈ s'.sessions, x ∈ s.sessions

theorem CasRel.refl (s : State) : CasRel s s :=
  ⟨rfl, rfl, fun c hc => ⟨c, hc, ChkSame.rfl' c⟩, fun _ h => h⟩

theorem CasRel.trans {a b c : State} (h1 : CasRel a b) (h2 : CasRel b c) : CasRel a c where
  nodes := h2.nodes.trans h1.nodes
  svcs := h2.svcs.trans h1.svcs
  chks := fun x hx => by
    obtain ⟨y, hy, hxy⟩ := h2.chks x hx
    obtain ⟨z, hz, hyz⟩ := h1.chks y hy
    exact ⟨z, hz, hxy.trans hyz⟩
  sess := fun x hx => h1.sess x (h2.sess x hx)

theorem CasRel.of_view {s s' : State} (h : catView s' = catView s) : CasRel s s' :=
  ⟨catView_nodes h, catView_svcs h, fun c hc => ⟨c, (catView_chks h) ▸ hc, ChkSame.rfl' c⟩,
   fun x hx => (catView_sessions h) ▸ hx⟩

theorem catView_invalidateKeys (s : State) (idx : Nat) (sess : Sess) : catView (invalidateKeys s idx sess) = catView s := by
  unfold invalidateKeys
  simp only
  split
  · rfl
  · split <;> rfl

theorem catView_dropSessionRefs (s : State) (idx : Nat) (id : String) : catView (dropSessionRefs s idx id) = catView s := by
  unfold dropSessionRefs
  simp only
  split <;> rfl

/-- `checkPrep`: only index rows change; the completed check keeps node, id and service binding, and
    its parents were found -/
theorem checkPrep_cat {s s1 : State} {idx : Nat} {p : Bool} {hc hc1 : Chk} {m : Bool}
    (hr : checkPrep s idx p hc = .ok (s1, hc1, m)) :
    catView s1 = catView s ∧ ChkSame hc1 hc ∧ (nodeFind s hc.node).isSome = true ∧
    (hc.svcId ≠ "" → (svcFind s hc.node hc.svcId).isSome = true) := by
  unfold checkPrep at hr
  extract_lets ex hcA hcB at hr
  have hA : ChkSame hcA hc := by
    unfold hcA
    cases ex with
    | some x => exact ⟨rfl, rfl, rfl⟩
    | none => dsimp only; split <;> exact ⟨rfl, rfl, rfl⟩
  have hB : ChkSame hcB hc := by
    unfold hcB
    split
    · exact ⟨hA.1, hA.2.1, hA.2.2⟩
    · exact hA
  clear_value hcB
  clear hA hcA
  clear_value ex
  obtain ⟨hn, hi, hs⟩ := hB
  rw [hn, hs] at hr
  split at hr
  · simp at hr
  · next hnode =>
    split at hr
    · next hsv =>
      split at hr
      · simp at hr
      · next v hsvc =>
        have hsome : (svcFind s hc.node hc.svcId).isSome = true := by rw [hsvc]; rfl
        have hnsome : (nodeFind s hc.node).isSome = true := by rw [hnode]; rfl
        dsimp only at hr
        repeat' (split at hr)
        all_goals (simp only [Except.ok.injEq, Prod.mk.injEq] at hr)
        all_goals (obtain ⟨rfl, rfl, -⟩ := hr)
        all_goals (exact ⟨by first | rfl | simp, ⟨rfl, hi, rfl⟩, hnsome, fun _ => hsome⟩)
    · next hsv =>
      have hnsome : (nodeFind s hc.node).isSome = true := by rw [hnode]; rfl
      have hemp : hc.svcId = "" := by simpa using hsv
      repeat' (split at hr)
      all_goals (simp only [Except.ok.injEq, Prod.mk.injEq] at hr)
      all_goals (obtain ⟨rfl, rfl, -⟩ := hr)
      all_goals (exact ⟨by first | rfl | simp, ⟨hn, hi, hs⟩, hnsome, fun h => absurd hemp h⟩)


/-! ### NUL-free node names make the two-part primary keys injective -/

def nulC : Char := Char.ofNat 0

/-- the lower-cased spelling contains no NUL byte -/
def NF (s : String) : Prop := nulC ∉ (lc s).toList

instance (s : String) : Decidable (NF s) := by unfold NF; infer_instance

theorem nul_toList : nul.toList = [nulC] := by decide

theorem list_split_inj {α : Type} (z : α) : ∀ (l1 l1' l2 l2' : List α), z ∉ l1 → z ∉ l1' →
    l1 ++ z :: l2 = l1' ++ z :: l2' → l1 = l1' ∧ l2 = l2' := by
  intro l1
  induction l1 with
  | nil =>
    intro l1' l2 l2' _ h' h
    cases l1' with
    | nil => simp at h; exact ⟨rfl, h⟩
    | cons a as => simp at h; simp at h'; exact absurd h.1.symm (by intro hh; exact h'.1 hh.symm)
  | cons a as ih =>
    intro l1' l2 l2' h1 h' h
    cases l1' with
    | nil => simp at h; simp at h1; exact absurd h.1 (fun hh => h1.1 hh.symm)
    | cons b bs =>
      simp at h h1 h'
      obtain ⟨hab, hrest⟩ := h
      obtain ⟨r1, r2⟩ := ih bs l2 l2' h1.2 h'.2 hrest
      exact ⟨by rw [hab, r1], r2⟩

theorem pk2_inj {a b a' b' : String} (ha : NF a) (ha' : NF a') (h : pk2 a b = pk2 a' b') :
    lc a = lc a' ∧ lc b = lc b' := by
  unfold pk2 at h
  have h2 := congrArg String.toList h
  simp only [String.toList_append, nul_toList, List.append_assoc, List.singleton_append] at h2
  obtain ⟨r1, r2⟩ := list_split_inj nulC _ _ _ _ ha ha' h2
  exact ⟨String.ext r1, String.ext r2⟩

theorem pk2_congr {a b a' b' : String} (h1 : lc a = lc a') (h2 : lc b = lc b') : pk2 a b = pk2 a' b' := by
  unfold pk2; rw [h1, h2]

theorem NF_congr {a b : String} (h : lc a = lc b) : NF a ↔ NF b := by unfold NF; rw [h]

/-! ### generic table facts -/

section Tbl
variable {α κ : Type} [DecidableEq κ]

theorem tfind_none {key : α → κ} {k : κ} {l : List α} (h : tfind key k l = none) : ∀ x ∈ l, key x ≠ k := by
  unfold tfind at h
  rw [List.find?_eq_none] at h
  intro x hx hk
  exact h x hx (by simp [hk])

theorem terase_of_tfind_none {key : α → κ} {k : κ} {l : List α} (h : tfind key k l = none) : terase key k l = l := by
  unfold terase
  rw [List.filter_eq_self]
  intro x hx
  simpa using tfind_none h x hx

theorem foldE_ind_mem {β : Type} (P : State → Prop) (f : State → β → Except Err State) :
    ∀ (l : List β) (s s' : State), (∀ st b st', b ∈ l → P st → f st b = .ok st' → P st') →
      P s → foldE f l s = .ok s' → P s' := by
  intro l
  induction l with
  | nil => intro s s' _ hs h; simp [foldE] at h; exact h ▸ hs
  | cons b bs ih =>
    intro s s' hf hs h
    simp only [foldE] at h
    split at h
    · next st' heq =>
      exact ih st' s' (fun st x st' hx => hf st x st' (List.mem_cons_of_mem _ hx))
        (hf s b st' (List.mem_cons_self) hs heq) h
    · simp at h

end Tbl

/-! ### tables sorted strictly by their (string) primary key -/

def SortedBy {α : Type} (key : α → String) (l : List α) : Prop := l.Pairwise (fun a b => key a < key b)

theorem str_lt_of_not (a b : String) (h1 : ¬ a < b) (h2 : b ≠ a) : b < a := by
  apply Classical.byContradiction
  intro h3
  exact h2 (String.le_antisymm (String.not_lt.mp h1) (String.not_lt.mp h3))

theorem sortedBy_nil {α : Type} (key : α → String) : SortedBy key [] := List.Pairwise.nil

theorem sortedBy_tupsert {α : Type} {key : α → String} (r : α) (l : List α) (h : SortedBy key l) :
    SortedBy key (tupsert key strLt r l) := by
  unfold SortedBy at h ⊢
  induction l with
  | nil => simp [tupsert]
  | cons x xs ih =>
    rw [List.pairwise_cons] at h
    obtain ⟨hx, hxs⟩ := h
    simp only [tupsert]
    by_cases heq : key x = key r
    · simp only [heq, if_true]
      rw [List.pairwise_cons]
      exact ⟨fun y hy => heq ▸ hx y hy, hxs⟩
    · simp only [heq, if_false]
      by_cases hlt : strLt (key r) (key x) = true
      · simp only [hlt, if_true]
        have hlt' : key r < key x := by simpa [strLt] using hlt
        rw [List.pairwise_cons]
        refine ⟨?_, List.pairwise_cons.mpr ⟨hx, hxs⟩⟩
        intro y hy
        rcases List.mem_cons.mp hy with rfl | hy
        · exact hlt'
        · exact String.lt_trans hlt' (hx y hy)
      · have hlt0 : strLt (key r) (key x) = false := by simpa using hlt
        simp only [hlt0, Bool.false_eq_true, if_false]
        have hnlt' : ¬ key r < key x := by simpa [strLt] using hlt
        rw [List.pairwise_cons]
        refine ⟨?_, ih hxs⟩
        intro y hy
        rcases mem_tupsert hy with rfl | hy
        · exact str_lt_of_not _ _ hnlt' heq
        · exact hx y hy

theorem sortedBy_sublist {α : Type} {key : α → String} {l l' : List α} (hs : l'.Sublist l) (h : SortedBy key l) :
    SortedBy key l' := List.Pairwise.sublist hs h

theorem terase_sublist {α κ : Type} [DecidableEq κ] (key : α → κ) (k : κ) (l : List α) : (terase key k l).Sublist l := by
  unfold terase; exact List.filter_sublist

theorem sortedBy_terase {α : Type} {key : α → String} (k : String) (l : List α) (h : SortedBy key l) :
    SortedBy key (terase key k l) := sortedBy_sublist (terase_sublist key k l) h

/-- one row per key -/
theorem sortedBy_unique {α : Type} {key : α → String} {l : List α} (h : SortedBy key l) {a b : α}
    (ha : a ∈ l) (hb : b ∈ l) (hk : key a = key b) : a = b := by
  unfold SortedBy at h
  induction l with
  | nil => simp at ha
  | cons x xs ih =>
    rw [List.pairwise_cons] at h
    rcases List.mem_cons.mp ha with ha | ha <;> rcases List.mem_cons.mp hb with hb | hb
    · rw [ha, hb]
    · have := h.1 b hb; rw [← ha, hk] at this; exact absurd this (String.lt_irrefl _)
    · have := h.1 a ha; rw [← hb, ← hk] at this; exact absurd this (String.lt_irrefl _)
    · exact ih h.2 ha hb

/-! ### the session-invalidation cascade -/

theorem checkFinish_cat (s : State) (idx : Nat) (p : Bool) (hc : Chk) (m : Bool) :
    (checkFinish s idx p hc m).nodes = s.nodes ∧ (checkFinish s idx p hc m).svcs = s.svcs ∧
    (checkFinish s idx p hc m).sessions = s.sessions ∧
    ∀ c' ∈ (checkFinish s idx p hc m).chks, c' ∈ s.chks ∨ ChkSame c' hc := by
  unfold checkFinish
  split
  · exact ⟨rfl, rfl, rfl, fun c h => Or.inl h⟩
  · refine ⟨rfl, rfl, rfl, ?_⟩
    intro c' h
    unfold chkInsert at h
    have h' : c' ∈ tupsert Chk.pk strLt (if p = true then hc else { hc with modify := idx }) s.chks := h
    rcases mem_tupsert h' with h1 | h1
    · right; rw [h1]; split <;> exact ⟨rfl, rfl, rfl⟩
    · exact Or.inl h1

/-- what `ensureCheckF` guarantees about the catalog tables -/
structure EnsSpec (s : State) (hc : Chk) (s' : State) : Prop where
  nodes : s'.nodes = s.nodes
  svcs : s'.svcs = s.svcs
  sess : ∀ x ∈ s'.sessions, x ∈ s.sessions
  node_found : (nodeFind s hc.node).isSome = true
  svc_found : hc.svcId ≠ "" → (svcFind s hc.node hc.svcId).isSome = true
  chks : ∀ c' ∈ s'.chks, (∃ c ∈ s.chks, ChkSame c' c) ∨ ChkSame c' hc

def FrDel (n : Nat) : Prop := ∀ s idx id s', deleteSessionF n s idx id = .ok s' → CasRel s s'
def FrChk (n : Nat) : Prop := ∀ s idx p hc s', ensureCheckF n s idx p hc = .ok s' → EnsSpec s hc s'

theorem EnsSpec.toCasRel {s s' : State} {hc : Chk} (h : EnsSpec s hc s') (hx : ∃ c ∈ s.chks, ChkSame hc c) : CasRel s s' where
  nodes := h.nodes
  svcs := h.svcs
  sess := h.sess
  chks := fun c' hc' => by
    rcases h.chks c' hc' with h1 | h1
    · exact h1
    · obtain ⟨c, hcm, hcs⟩ := hx
      exact ⟨c, hcm, h1.trans hcs⟩

theorem mem_sessionTypedChecks {s : State} {sess : Sess} {c : Chk} (h : c ∈ sessionTypedChecks s sess) : c ∈ s.chks := by
  unfold sessionTypedChecks at h
  exact (List.mem_filter.mp h).1

theorem frDel_zero : FrDel 0 := by
  intro s idx id s' hr
  rw [deleteSessionF] at hr
  split at hr
  · simp at hr; exact hr ▸ CasRel.refl s
  · simp at hr

theorem frDel_succ {n : Nat} (hq : FrChk n) : FrDel (n + 1) := by
  intro s idx id s' hr
  rw [deleteSessionF] at hr
  split at hr
  · simp at hr; exact hr ▸ CasRel.refl s
  · next sess hf =>
    simp only at hr
    -- the state the check rewrite starts from
    have hv : catView (dropSessionRefs (invalidateKeys
        { s with sessions := terase Sess.pk (lc id) s.sessions, index := idxSet s.index "sessions" idx } idx sess) idx id)
        = (s.nodes, s.svcs, s.chks, terase Sess.pk (lc id) s.sessions) := by
      rw [catView_dropSessionRefs, catView_invalidateKeys]; rfl
    generalize hs3 : dropSessionRefs (invalidateKeys
        { s with sessions := terase Sess.pk (lc id) s.sessions, index := idxSet s.index "sessions" idx } idx sess) idx id = s3 at hr hv
    simp only [catView, Prod.mk.injEq] at hv
    obtain ⟨e1, e2, e3, e4⟩ := hv
    have h3 : CasRel s s3 := by
      refine ⟨e1, e2, ?_, ?_⟩
      · intro c hc; exact ⟨c, e3 ▸ hc, ChkSame.rfl' c⟩
      · intro x hx
        rw [e4] at hx
        exact (mem_terase.mp hx).1
    refine foldE_ind_mem (fun st => CasRel s st) _ _ _ _ ?_ h3 hr
    intro st c st' hcm hst hstep
    have hE := hq st idx _ _ st' hstep
    have hc3 : c ∈ s3.chks := mem_sessionTypedChecks hcm
    obtain ⟨c0, hc0, hsame⟩ := h3.chks c hc3
    refine ⟨hE.nodes.trans hst.nodes, hE.svcs.trans hst.svcs, ?_, fun x hx => hst.sess x (hE.sess x hx)⟩
    intro c' hc'
    rcases hE.chks c' hc' with ⟨c1, hc1, h1⟩ | h1
    · obtain ⟨c2, hc2, h2⟩ := hst.chks c1 hc1
      exact ⟨c2, hc2, h1.trans h2⟩
    · exact ⟨c0, hc0, h1.trans (ChkSame.trans ⟨rfl, rfl, rfl⟩ hsame)⟩

theorem frChk_of {n : Nat} (hp : ∀ m, n = m + 1 → FrDel m) : FrChk n := by
  intro s idx p hc s' hr
  rw [ensureCheckF] at hr
  split at hr
  · simp at hr
  · next s1 hc1 md hprep =>
    obtain ⟨hv1, hsame1, hnode, hsvc⟩ := checkPrep_cat hprep
    have fin : ∀ s2, CasRel s1 s2 → EnsSpec s hc (checkFinish s2 idx p hc1 md) := by
      intro s2 h12
      obtain ⟨f1, f2, f3, f4⟩ := checkFinish_cat s2 idx p hc1 md
      refine ⟨f1.trans (h12.nodes.trans (catView_nodes hv1)), f2.trans (h12.svcs.trans (catView_svcs hv1)), ?_, hnode, hsvc, ?_⟩
      · intro x hx
        rw [f3] at hx
        exact (catView_sessions hv1) ▸ h12.sess x hx
      · intro c' hc'
        rcases f4 c' hc' with h1 | h1
        · obtain ⟨c, hcm, hcs⟩ := h12.chks c' h1
          exact Or.inl ⟨c, (catView_chks hv1) ▸ hcm, hcs⟩
        · exact Or.inr (h1.trans hsame1)
    split at hr
    · simp at hr; rw [← hr]; exact fin s1 (CasRel.refl s1)
    · simp at hr
    · next m _ =>
      split at hr
      · simp at hr
      · next s2 hfold =>
        simp at hr; rw [← hr]
        apply fin
        exact foldE_rel CasRel CasRel.refl (fun a b c => CasRel.trans) _
          (fun st sid st' h => hp m rfl st idx sid st' h) _ _ _ hfold

theorem fr_cascade (n : Nat) : FrDel n ∧ FrChk n := by
  induction n with
  | zero => exact ⟨frDel_zero, frChk_of (by intro m hm; omega)⟩
  | succ n ih =>
    exact ⟨frDel_succ ih.2, frChk_of (by intro m hm; have : m = n := by omega
                                         subst this; exact ih.1)⟩

theorem casRel_deleteSession {s s' : State} {idx : Nat} {id : String}
    (hr : deleteSession s idx id = .ok s') : CasRel s s' := (fr_cascade _).1 s idx id s' hr

theorem ensSpec_ensureCheck {s s' : State} {idx : Nat} {p : Bool} {hc : Chk}
    (hr : ensureCheck s idx p hc = .ok s') : EnsSpec s hc s' := (fr_cascade _).2 s idx p hc s' hr

end CV.Store
