/-
Helper lemmas about `CV.Keyed` (property C01, round 5): generic keyed-list facts, frame lemmas
(which tables a command family touches), and the referential-integrity invariant
"every binding rule names an existing auth method".
-/
import CV.FsmKeyed

namespace CV.Keyed

/-! ### keyed lists -/

theorem mem_upsertBy_self {α : Type} (key : α → String) (x : α) (l : List α) : x ∈ upsertBy key x l := by
  induction l with
  | nil => simp [upsertBy]
  | cons y ys ih =>
    simp only [upsertBy]
    split
    · simp
    · exact List.mem_cons_of_mem _ ih

theorem mem_upsertBy {α : Type} (key : α → String) (x y : α) (l : List α) (h : y ∈ upsertBy key x l) :
    y = x ∨ y ∈ l := by
  induction l with
  | nil => simp [upsertBy] at h; exact Or.inl h
  | cons z zs ih =>
    simp only [upsertBy] at h
    split at h
    · rcases List.mem_cons.mp h with h | h
      · exact Or.inl h
      · exact Or.inr (List.mem_cons_of_mem _ h)
    · rcases List.mem_cons.mp h with h | h
      · exact Or.inr (by simp [h])
      · rcases ih h with h | h
        · exact Or.inl h
        · exact Or.inr (List.mem_cons_of_mem _ h)

/-- a key present before an upsert is present after it -/
theorem key_mem_upsertBy {α : Type} (key : α → String) (x : α) (l : List α) (k : String)
    (h : ∃ m ∈ l, key m = k) : ∃ m ∈ upsertBy key x l, key m = k := by
  induction l with
  | nil => obtain ⟨m, hm, _⟩ := h; simp at hm
  | cons z zs ih =>
    obtain ⟨m, hm, hk⟩ := h
    simp only [upsertBy]
    split
    · rename_i hz
      rcases List.mem_cons.mp hm with rfl | hm
      · exact ⟨x, by simp, by rw [← hz, hk]⟩
      · exact ⟨m, List.mem_cons_of_mem _ hm, hk⟩
    · rcases List.mem_cons.mp hm with rfl | hm
      · exact ⟨m, by simp, hk⟩
      · obtain ⟨m', hm', hk'⟩ := ih ⟨m, hm, hk⟩
        exact ⟨m', List.mem_cons_of_mem _ hm', hk'⟩

theorem mem_eraseBy {α : Type} (key : α → String) (k : String) (l : List α) (y : α) :
    y ∈ eraseBy key k l ↔ y ∈ l ∧ key y ≠ k := by
  simp [eraseBy]

theorem find?_key_some {α : Type} (l : List α) (p : α → Bool) (x : α) (h : l.find? p = some x) :
    x ∈ l ∧ p x = true :=
  ⟨List.mem_of_find?_eq_some h, List.find?_some h⟩

/-! ### frame: which tables a step touches -/

theorem policySetOne_frame (s s' : State) (idx : Nat) (p : PolicyReq) (h : policySetOne s idx p = .ok s') :
    s'.rules = s.rules ∧ s'.methods = s.methods ∧ s'.roles = s.roles ∧ s'.feds = s.feds := by
  unfold policySetOne at h
  dsimp only at h
  repeat' split at h
  all_goals (cases h <;> exact ⟨rfl, rfl, rfl, rfl⟩)

theorem policyDeleteOne_frame (s s' : State) (idx : Nat) (id : String) (h : policyDeleteOne s idx id = .ok s') :
    s'.rules = s.rules ∧ s'.methods = s.methods ∧ s'.roles = s.roles ∧ s'.feds = s.feds := by
  unfold policyDeleteOne at h
  repeat' split at h
  all_goals (cases h <;> exact ⟨rfl, rfl, rfl, rfl⟩)

theorem roleSetOne_frame (s s' : State) (idx : Nat) (am : Bool) (r : RoleReq) (h : roleSetOne s idx am r = .ok s') :
    s'.rules = s.rules ∧ s'.methods = s.methods ∧ s'.policies = s.policies ∧ s'.feds = s.feds := by
  unfold roleSetOne at h
  dsimp only at h
  repeat' split at h
  all_goals (cases h <;> exact ⟨rfl, rfl, rfl, rfl⟩)

theorem roleDeleteOne_frame (s s' : State) (idx : Nat) (id : String) (h : roleDeleteOne s idx id = .ok s') :
    s'.rules = s.rules ∧ s'.methods = s.methods ∧ s'.policies = s.policies ∧ s'.feds = s.feds := by
  unfold roleDeleteOne at h
  repeat' split at h
  all_goals (cases h <;> exact ⟨rfl, rfl, rfl, rfl⟩)

/-- a property of the state that every successful step preserves is preserved by a batch -/
theorem batchE_preserves {α : Type} (P : State → Prop) (f : State → α → Except Err State)
    (hf : ∀ s s' x, P s → f s x = .ok s' → P s') :
    ∀ (xs : List α) (s s' : State), P s → batchE f s xs = .ok s' → P s' := by
  intro xs
  induction xs with
  | nil => intro s s' hs h; simp only [batchE] at h; injection h with h; subst h; exact hs
  | cons x xs ih =>
    intro s s' hs h
    simp only [batchE] at h
    split at h
    · cases h
    · rename_i s₁ h₁
      exact ih s₁ s' (hf s s₁ x hs h₁) h

theorem batch_preserves {α : Type} (P : State → Prop) (f : State → α → State)
    (hf : ∀ s x, P s → P (f s x)) : ∀ (xs : List α) (s : State), P s → P (batch f s xs) := by
  intro xs
  induction xs with
  | nil => intro s hs; exact hs
  | cons x xs ih => intro s hs; exact ih (f s x) (hf s x hs)

/-! ### referential integrity: every binding rule names an existing auth method -/

def RefInt (s : State) : Prop := ∀ r ∈ s.rules, ∃ m ∈ s.methods, m.key = lc r.method

theorem refInt_of_frame (s s' : State) (h : RefInt s) (h1 : s'.rules = s.rules) (h2 : s'.methods = s.methods) :
    RefInt s' := by
  intro r hr; rw [h1] at hr; rw [h2]; exact h r hr

theorem ruleSetOne_refInt (s s' : State) (idx : Nat) (r : RuleReq) (hs : RefInt s)
    (h : ruleSetOne s idx r = .ok s') : RefInt s' := by
  unfold ruleSetOne at h
  dsimp only at h
  split at h
  · cases h
  · split at h
    · cases h
    · split at h
      · cases h
      · rename_i m hm
        injection h with h
        subst h
        intro x hx
        simp only at hx ⊢
        rcases mem_upsertBy _ _ _ _ hx with rfl | hx
        · obtain ⟨hm1, hm2⟩ := find?_key_some _ _ _ hm
          exact ⟨m, hm1, by simpa using hm2⟩
        · exact hs x hx

theorem ruleDeleteOne_refInt (s : State) (idx : Nat) (id : String) (hs : RefInt s) :
    RefInt (ruleDeleteOne s idx id) := by
  unfold ruleDeleteOne
  split
  · exact hs
  · intro x hx
    simp only at hx ⊢
    exact hs x ((mem_eraseBy _ _ _ _).mp hx).1

theorem methodSetOne_refInt (s s' : State) (idx : Nat) (m : MethodReq) (hs : RefInt s)
    (h : methodSetOne s idx m = .ok s') : RefInt s' := by
  unfold methodSetOne at h
  dsimp only at h
  split at h
  · cases h
  · split at h
    · cases h
    · injection h with h
      subst h
      intro x hx
      simp only at hx ⊢
      exact key_mem_upsertBy _ _ _ _ (hs x hx)

theorem methodDeleteOne_refInt (s : State) (idx : Nat) (name : String) (hs : RefInt s) :
    RefInt (methodDeleteOne s idx name) := by
  unfold methodDeleteOne
  split
  · exact hs
  · rename_i m hm
    obtain ⟨_, hm2⟩ := find?_key_some _ _ _ hm
    have hk : m.key = lc name := by simpa using hm2
    intro x hx
    simp only [List.mem_filter] at hx ⊢
    obtain ⟨hx1, hx2⟩ := hx
    obtain ⟨m₂, hm₂, hk₂⟩ := hs x hx1
    refine ⟨m₂, (mem_eraseBy _ _ _ _).mpr ⟨hm₂, ?_⟩, hk₂⟩
    intro hc
    have : lc x.method = lc m.name := by
      rw [← hk₂, hc, ← hk]; rfl
    simp [this] at hx2

/-- every command preserves referential integrity -/
theorem apply_refInt (s : State) (idx : Nat) (c : Cmd) (hs : RefInt s) : RefInt (apply s idx c).1 := by
  have hc : ∀ (x : Except Err State), (∀ s', x = .ok s' → RefInt s') → RefInt (commit s x).1 := by
    intro x hx
    cases x with
    | error e => exact hs
    | ok s' => exact hx s' rfl
  cases c <;> simp only [apply]
  case policySet ps =>
    exact hc _ fun s' h => batchE_preserves RefInt _ (fun a b x ha hab =>
      let f := policySetOne_frame a b idx x hab; refInt_of_frame a b ha f.1 f.2.1) ps s s' hs h
  case policyDelete ids =>
    exact hc _ fun s' h => batchE_preserves RefInt _ (fun a b x ha hab =>
      let f := policyDeleteOne_frame a b idx x hab; refInt_of_frame a b ha f.1 f.2.1) ids s s' hs h
  case roleSet rs am =>
    exact hc _ fun s' h => batchE_preserves RefInt _ (fun a b x ha hab =>
      let f := roleSetOne_frame a b idx am x hab; refInt_of_frame a b ha f.1 f.2.1) rs s s' hs h
  case roleDelete ids =>
    exact hc _ fun s' h => batchE_preserves RefInt _ (fun a b x ha hab =>
      let f := roleDeleteOne_frame a b idx x hab; refInt_of_frame a b ha f.1 f.2.1) ids s s' hs h
  case ruleSet rs =>
    exact hc _ fun s' h => batchE_preserves RefInt _ (fun a b x ha hab => ruleSetOne_refInt a b idx x ha hab) rs s s' hs h
  case ruleDelete ids => exact batch_preserves RefInt _ (fun a x ha => ruleDeleteOne_refInt a idx x ha) ids s hs
  case methodSet ms =>
    exact hc _ fun s' h => batchE_preserves RefInt _ (fun a b x ha hab => methodSetOne_refInt a b idx x ha hab) ms s s' hs h
  case methodDelete ns => exact batch_preserves RefInt _ (fun a x ha => methodDeleteOne_refInt a idx x ha) ns s hs
  case fedUpsert f =>
    cases hf : fedUpsert s idx f with
    | error e => exact hs
    | ok s' =>
      unfold fedUpsert at hf
      dsimp only at hf
      split at hf
      · cases hf
      · cases hf; exact refInt_of_frame s _ hs rfl rfl
  case fedDelete dc =>
    unfold fedDelete
    split
    · exact hs
    · exact refInt_of_frame s _ hs rfl rfl
  all_goals exact hs

end CV.Keyed

namespace CV.Keyed

theorem batchE_append {α : Type} (f : State → α → Except Err State) (xs ys : List α) : ∀ (s : State),
    batchE f s (xs ++ ys) = match batchE f s xs with
      | .error e => .error e
      | .ok s' => batchE f s' ys := by
  induction xs with
  | nil => intro s; rfl
  | cons x xs ih =>
    intro s
    simp only [List.cons_append, batchE]
    cases f s x with
    | error e => rfl
    | ok s₁ => exact ih s₁

end CV.Keyed
