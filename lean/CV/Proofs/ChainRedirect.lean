/-
Helper lemmas for C15: the redirect loop in terms of the entries. `loopStep` is one iteration of
`RESOLVE_AGAIN` that jumps; a walk along `loopStep`s that comes back to a target ID already visited makes
the loop answer with the circular-redirect error.
-/
import CV.Chain
set_option linter.unusedVariables false
set_option linter.unusedSimpArgs false
namespace CV.Chain

/-- where the loop goes next from `(st, t)`: `none` when it stops (memoised node, protocol conflict, or no
    redirect / default subset applies) -/
def loopStep (es : Entries) (cx : Ctx) (st : St) (t : Target) : Option (St × Target) :=
  match alook t.id st.rmemo with
  | some _ => none
  | none =>
    match (if t.peer = "" then recordServiceProtocol es st.proto t.svc else .ok st.proto) with
    | .error _ => none
    | .ok p =>
      match redirectStep cx { st with proto := p } t (getResolver es t.svc) with
      | (st2, some t2) => some (st2, t2)
      | (st2, none) => subsetStep cx st2 t (getResolver es t.svc)

/-- following the entries from `(st, t)` through `steps` ends on a target whose ID was already visited -/
def Revisit (es : Entries) (cx : Ctx) (hist : List Target) : St × Target → List (St × Target) → Prop
  | (st, t), [] =>
    (∃ x ∈ hist, x.id = t.id) ∧ alook t.id st.rmemo = none ∧
    ∃ p, (if t.peer = "" then recordServiceProtocol es st.proto t.svc else .ok st.proto) = .ok p
  | (st, t), (st', t') :: rest =>
    (∀ x ∈ hist, x.id ≠ t.id) ∧ loopStep es cx st t = some (st', t') ∧ Revisit es cx (t :: hist) (st', t') rest

theorem loop_step_unfold (es : Entries) (cx : Ctx) (st0 : St) (t0 : Target) (st : St) (hist : List Target) (t : Target)
    (hst : LoadedIn (mkVals es cx st0 t0) st) (ht : InU (mkVals es cx st0 t0) t) (st' : St) (t' : Target)
    (hfresh : ∀ x ∈ hist, x.id ≠ t.id) (hstep : loopStep es cx st t = some (st', t')) :
    ∃ hst' ht', resolveLoop es cx st0 t0 st hist t hst ht = resolveLoop es cx st0 t0 st' (t :: hist) t' hst' ht' := by
  have hh : ¬ (hist.any fun x => x.id == t.id) = true := by
    intro h
    obtain ⟨x, hx, e⟩ := List.any_eq_true.mp h
    exact hfresh x hx (by simpa using e)
  unfold loopStep at hstep
  split at hstep
  · cases hstep
  · rename_i hm
    split at hstep
    · cases hstep
    · rename_i p hp
      have hi := redirectStep_inv (st := { st with proto := p }) (t := t) (vals_base es cx st0 t0)
        (vals_resolver es cx st0 t0 t.svc) hst ht
      split at hstep
      · rename_i st2 t2 h1
        simp only [Option.some.injEq, Prod.mk.injEq] at hstep
        obtain ⟨rfl, rfl⟩ := hstep
        refine ⟨by rw [h1] at hi; exact hi.1, by rw [h1] at hi; exact hi.2 _ rfl, ?_⟩
        rw [resolveLoop]
        simp only [hm, hp]
        rw [dif_neg hh]
        split
        · rename_i a b h1'
          rw [h1] at h1'
          simp only [Prod.mk.injEq, Option.some.injEq] at h1'
          obtain ⟨rfl, rfl⟩ := h1'
          rfl
        · rename_i a h1'
          rw [h1] at h1'; simp at h1'
      · rename_i st2 h1
        have hj := subsetStep_inv (vals_base es cx st0 t0) (vals_resolver es cx st0 t0 t.svc)
          (by rw [h1] at hi; exact hi.1) ht hstep
        refine ⟨hj.1, hj.2, ?_⟩
        rw [resolveLoop]
        simp only [hm, hp]
        rw [dif_neg hh]
        split
        · rename_i a b h1'
          rw [h1] at h1'; simp at h1'
        · rename_i a h1'
          rw [h1] at h1'
          simp only [Prod.mk.injEq, and_true] at h1'
          subst h1'
          split
          · rename_i a b h2'
            rw [hstep] at h2'
            simp only [Option.some.injEq, Prod.mk.injEq] at h2'
            obtain ⟨rfl, rfl⟩ := h2'
            rfl
          · rename_i h2'
            rw [hstep] at h2'; cases h2'

theorem revisit_is_error (es : Entries) (cx : Ctx) (st0 : St) (t0 : Target) (steps : List (St × Target)) :
    ∀ (hist : List Target) (st : St) (t : Target) (hst : LoadedIn (mkVals es cx st0 t0) st) (ht : InU (mkVals es cx st0 t0) t),
      Revisit es cx hist (st, t) steps →
      resolveLoop es cx st0 t0 st hist t hst ht = .error .circularRedirect := by
  induction steps with
  | nil =>
    intro hist st t hst ht ⟨hrev, hm, p, hp⟩
    rw [resolveLoop]
    simp only [hm, hp]
    have : (hist.any fun x => x.id == t.id) = true := by
      obtain ⟨x, hx, e⟩ := hrev
      exact List.any_eq_true.mpr ⟨x, hx, by simp [e]⟩
    simp [this]
  | cons s rest ih =>
    obtain ⟨st', t'⟩ := s
    intro hist st t hst ht ⟨hfresh, hstep, hrest⟩
    obtain ⟨hst', ht', e⟩ := loop_step_unfold es cx st0 t0 st hist t hst ht st' t' hfresh hstep
    rw [e]
    exact ih (t :: hist) st' t' hst' ht' hrest

/-- compile level: a chain that starts at its own resolver (no router, no splitter for the service) and
    whose redirects / default subsets come back to a visited target answers with the circular-redirect error -/
theorem compile_redirect_cycle (es : Entries) (cx : Ctx) (steps : List (St × Target))
    (hreq : ¬ (cx.svc = "" ∨ cx.ns = "" ∨ cx.part = "" ∨ cx.dc = "" ∨ cx.td = ""))
    (hrt : alook cx.svc es.routers = none) (hsp : alook cx.svc es.splitters = none)
    (hrev : Revisit es cx [] (newTarget cx {} { svc := cx.svc }) steps) :
    compile es cx = .error .circularRedirect := by
  have hsvc : (newTarget cx {} { svc := cx.svc }).2.svc = cx.svc := by
    unfold newTarget; simp only [alook]; unfold mkTarget; split <;> rfl
  have hloop := revisit_is_error es cx (newTarget cx {} { svc := cx.svc }).1 (newTarget cx {} { svc := cx.svc }).2 steps []
    (newTarget cx {} { svc := cx.svc }).1 (newTarget cx {} { svc := cx.svc }).2
    (vals_loaded es cx _ _) (vals_t es cx _ _) hrev
  unfold compile compileWith
  rw [if_neg hreq]
  unfold assemble
  simp only [hrt]
  have hs : splitterNode es cx [] (newTarget cx {} { svc := cx.svc }).1 (newTarget cx {} { svc := cx.svc }).2.svc
      = .ok ([], (newTarget cx {} { svc := cx.svc }).1, none) := by
    rw [splitterNode]
    simp only [List.not_mem_nil, dite_false]
    split
    · rfl
    · rename_i splits h; rw [hsvc, hsp] at h; cases h
  unfold splitterOrResolver
  rw [hs]
  simp only
  unfold resolverNode resolveCore
  rw [hloop]

end CV.Chain
