/-
Helper lemmas about the generic table operations of CV.Store (tupsert / terase / tfind / foldE) and
the "lock view" of a state (the four tables the lock invariant talks about).
-/
import CV.Store.Apply
namespace CV.Store
open CV

section Tbl
variable {α κ : Type} [DecidableEq κ]

theorem mem_tupsert {key : α → κ} {lt : κ → κ → Bool} {r x : α} {l : List α}
    (h : x ∈ tupsert key lt r l) : x = r ∨ x ∈ l := by
  induction l with
  | nil => simp [tupsert] at h; exact Or.inl h
  | cons y ys ih =>
    simp only [tupsert] at h
    split at h
    · simp at h; rcases h with h | h
      · exact Or.inl h
      · exact Or.inr (List.mem_cons_of_mem _ h)
    · split at h
      · simp at h; rcases h with h | h | h
        · exact Or.inl h
        · exact Or.inr (by simp [h])
        · exact Or.inr (List.mem_cons_of_mem _ h)
      · simp at h; rcases h with h | h
        · exact Or.inr (by simp [h])
        · rcases ih h with h | h
          · exact Or.inl h
          · exact Or.inr (List.mem_cons_of_mem _ h)

theorem self_mem_tupsert {key : α → κ} {lt : κ → κ → Bool} (r : α) (l : List α) :
    r ∈ tupsert key lt r l := by
  induction l with
  | nil => simp [tupsert]
  | cons y ys ih =>
    simp only [tupsert]
    split
    · simp
    · split
      · simp
      · simp [ih]

/-- a row survives an upsert unless it has the primary key of the upserted row -/
theorem mem_tupsert_of_mem {key : α → κ} {lt : κ → κ → Bool} {r y : α} {l : List α}
    (h : y ∈ l) : y ∈ tupsert key lt r l ∨ key y = key r := by
  induction l with
  | nil => simp at h
  | cons z zs ih =>
    simp only [tupsert]
    split
    · next hk =>
      simp at h; rcases h with h | h
      · exact Or.inr (by rw [h]; exact hk)
      · exact Or.inl (by simp [h])
    · split
      · exact Or.inl (by simp at h ⊢; rcases h with h | h <;> simp [h])
      · simp at h; rcases h with h | h
        · exact Or.inl (by simp [h])
        · rcases ih h with h | h
          · exact Or.inl (by simp [h])
          · exact Or.inr h

theorem tfind_some {key : α → κ} {k : κ} {l : List α} {x : α} (h : tfind key k l = some x) :
    x ∈ l ∧ key x = k := by
  unfold tfind at h
  exact ⟨List.mem_of_find?_eq_some h, by simpa using List.find?_some h⟩

theorem tfind_isSome_of_mem {key : α → κ} {k : κ} {l : List α} {x : α} (hx : x ∈ l) (hk : key x = k) :
    (tfind key k l).isSome = true := by
  unfold tfind
  rw [List.find?_isSome]
  exact ⟨x, hx, by simp [hk]⟩

theorem tfind_tupsert_self {key : α → κ} {lt : κ → κ → Bool} (r : α) (l : List α) :
    tfind key (key r) (tupsert key lt r l) = some r := by
  induction l with
  | nil => simp [tupsert, tfind]
  | cons x xs ih =>
    simp only [tupsert]
    split
    · simp [tfind]
    · split
      · simp [tfind]
      · next hne _ =>
        unfold tfind at ih ⊢
        rw [List.find?_cons_of_neg (by simpa using hne)]
        exact ih

theorem tfind_tupsert_ne {key : α → κ} {lt : κ → κ → Bool} (r : α) (l : List α) {k : κ} (hk : k ≠ key r) :
    tfind key k (tupsert key lt r l) = tfind key k l := by
  have hr : (key r == k) = false := by simpa using fun h => hk h.symm
  induction l with
  | nil => simp [tupsert, tfind, hr]
  | cons x xs ih =>
    simp only [tupsert]
    split
    · next he =>
      have hx : (key x == k) = false := by rw [he]; exact hr
      simp [tfind, List.find?_cons, hr, hx]
    · split
      · simp [tfind, List.find?_cons, hr]
      · unfold tfind at ih ⊢
        simp only [List.find?_cons]
        split
        · rfl
        · exact ih

theorem tfind_terase_self {key : α → κ} (k : κ) (l : List α) : tfind key k (terase key k l) = none := by
  unfold tfind terase
  rw [List.find?_eq_none]
  intro x hx
  simp only [List.mem_filter] at hx
  simpa using hx.2

theorem tfind_terase_ne {key : α → κ} (k k' : κ) (l : List α) (h : k' ≠ k) :
    tfind key k' (terase key k l) = tfind key k' l := by
  unfold tfind terase
  induction l with
  | nil => rfl
  | cons x xs ih =>
    simp only [List.filter_cons]
    by_cases hx : key x = k
    · simp only [hx, bne_self_eq_false, Bool.false_eq_true, if_false]
      rw [List.find?_cons_of_neg (by simpa [hx] using fun hh => h hh.symm)]
      exact ih
    · have : (key x != k) = true := by simpa using hx
      simp only [this, if_true, List.find?_cons]
      split
      · rfl
      · exact ih

theorem mem_terase {key : α → κ} {k : κ} {l : List α} {x : α} : x ∈ terase key k l ↔ x ∈ l ∧ key x ≠ k := by
  simp [terase]

end Tbl

/-- induction principle for `foldE` -/
theorem foldE_ind {β : Type} (P : State → Prop) (f : State → β → Except Err State)
    (hf : ∀ st b st', P st → f st b = .ok st' → P st') :
    ∀ (l : List β) (s s' : State), P s → foldE f l s = .ok s' → P s' := by
  intro l
  induction l with
  | nil => intro s s' hs h; simp [foldE] at h; exact h ▸ hs
  | cons b bs ih =>
    intro s s' hs h
    simp only [foldE] at h
    split at h
    · next st' heq => exact ih st' s' (hf s b st' hs heq) h
    · simp at h

/-- induction principle for `foldE` with a relation to the start state -/
theorem foldE_rel {β : Type} (R : State → State → Prop) (hrefl : ∀ s, R s s)
    (htrans : ∀ a b c, R a b → R b c → R a c) (f : State → β → Except Err State)
    (hf : ∀ st b st', f st b = .ok st' → R st st') :
    ∀ (l : List β) (s s' : State), foldE f l s = .ok s' → R s s' := by
  intro l
  induction l with
  | nil => intro s s' h; simp [foldE] at h; exact h ▸ hrefl s
  | cons b bs ih =>
    intro s s' h
    simp only [foldE] at h
    split at h
    · next st' heq => exact htrans _ _ _ (hf s b st' heq) (ih st' s' h)
    · simp at h

theorem kvSetTxn_ok {s : State} {idx : Nat} {e : KV} {upd : Bool} (h : e.key ≠ []) :
    ∃ s' w, kvSetTxn s idx e upd = .ok (s', w) := by
  simp only [kvSetTxn, h, if_false]
  repeat' split
  all_goals exact ⟨_, _, rfl⟩

/-! ### the lock view -/

/-- the tables the lock invariant is about -/
def lockView (s : State) : List KV × List Sess × List SessCheck × List PQ :=
  (s.kvs, s.sessions, s.sessChecks, s.queries)

@[simp] theorem lockView_setIdx (s : State) (k v) : lockView (s.setIdx k v) = lockView s := rfl
@[simp] theorem lockView_maxIdx (s : State) (k v) : lockView (s.maxIdx k v) = lockView s := rfl
@[simp] theorem lockView_delIdx (s : State) (k) : lockView (s.delIdx k) = lockView s := rfl
@[simp] theorem lockView_maxIdx2 (s : State) (k v) : lockView (s.maxIdx2 k v) = lockView s := rfl
@[simp] theorem lockView_bumpServiceIdx (s : State) (i n) : lockView (bumpServiceIdx s i n) = lockView s := rfl
@[simp] theorem lockView_chkInsert (s : State) (c i) : lockView (chkInsert s c i) = lockView s := rfl
@[simp] theorem lockView_tombInsert (s : State) (k i) : lockView (tombInsert s k i) = lockView s := rfl

@[simp] theorem lockView_with_chks (s : State) (c) : lockView { s with chks := c } = lockView s := rfl
@[simp] theorem lockView_with_svcs (s : State) (c) : lockView { s with svcs := c } = lockView s := rfl
@[simp] theorem lockView_with_nodes (s : State) (c) : lockView { s with nodes := c } = lockView s := rfl
@[simp] theorem lockView_with_index (s : State) (c) : lockView { s with index := c } = lockView s := rfl

theorem lockView_foldl {β : Type} (f : State → β → State) (hf : ∀ st b, lockView (f st b) = lockView st)
    (l : List β) (s : State) : lockView (l.foldl f s) = lockView s := by
  induction l generalizing s with
  | nil => rfl
  | cons b bs ih =>
    show lockView (bs.foldl f (f s b)) = lockView s
    rw [ih, hf]

@[simp] theorem lockView_updateAll (s : State) (i n) : lockView (updateAllServiceIndexesOfNode s i n) = lockView s := by
  unfold updateAllServiceIndexesOfNode
  exact lockView_foldl (fun st (v : Svc) => bumpServiceIdx st i v.name) (fun st b => rfl) _ s

@[simp] theorem lockView_nodeInsert (s : State) (n) : lockView (nodeInsert s n) = lockView s := by
  unfold nodeInsert; simp

@[simp] theorem lockView_svcInsert (s : State) (v) : lockView (svcInsert s v) = lockView s := by
  unfold svcInsert; simp

end CV.Store
