/-
C06: which index rows the primitives of the write paths touch. `OffCat k` says that row name `k` is none of
the literal rows the catalog / KV / session / prepared-query writers use and not a `service.<name>` row;
every primitive except the four that maintain `node.<name>` rows leaves such a row alone.
-/
import CV.Proofs.StoreQueryTbl
namespace CV.Store
open CV

/-- the literal index rows written by the model's primitives -/
def litRows : List String :=
  ["kvs", "tombstones", "sessions", "prepared-queries", "nodes", "peer.~:nodes", "services", "peer.~:services",
   "checks", "peer.~:checks", "service_kind.typical", "peer.~:service_kind.typical",
   "peer.~:service_last_extinction", "peer.~:node_last_extinction"]

/-- `k` is not a literal row -/
structure OffLit (k : String) : Prop where
  lit : ∀ l ∈ litRows, lc k ≠ lc l

/-- `k` is neither a literal row nor a per-service row -/
structure OffCat (k : String) : Prop where
  lit : ∀ l ∈ litRows, lc k ≠ lc l
  svc : ∀ n, lc k ≠ lc ("peer.~:service." ++ n)

theorem offCat_nodeKey (n : String) : OffCat (nodeKey n) := by
  constructor
  · intro l hl
    simp only [litRows, List.mem_cons, List.mem_nil_iff, or_false] at hl
    rcases hl with rfl | rfl | rfl | rfl | rfl | rfl | rfl | rfl | rfl | rfl | rfl | rfl | rfl | rfl <;>
      simp [nodeKey, lc_eq_iff, ikey, String.toList_append]
  · intro m; simp [nodeKey, lc_eq_iff, ikey, String.toList_append]

theorem OffCat.off {k : String} (h : OffCat k) : OffLit k := ⟨h.lit⟩

theorem offLit_svcKey (n : String) : OffLit (svcKey n) := by
  constructor
  intro l hl
  simp only [litRows, List.mem_cons, List.mem_nil_iff, or_false] at hl
  rcases hl with rfl | rfl | rfl | rfl | rfl | rfl | rfl | rfl | rfl | rfl | rfl | rfl | rfl | rfl <;>
    simp [svcKey, lc_eq_iff, ikey, String.toList_append]

variable {i : Nat} {k : String}

theorem get_maxIdx_ne (s : State) (k' : String) (v : Nat) (h : lc k ≠ lc k') :
    idxGet (s.maxIdx k' v).index k = idxGet s.index k := by
  show idxGet (idxMax s.index k' v) k = _
  rw [idxGet_idxMax, if_neg h]

theorem get_setIdx_ne (ix : Ix) (k' : String) (v : Nat) (h : lc k ≠ lc k') : idxGet (idxSet ix k' v) k = idxGet ix k := by
  rw [idxGet_idxSet, if_neg h]

theorem get_delIdx_ne (s : State) (k' : String) (h : lc k ≠ lc k') :
    idxGet (s.delIdx k').index k = idxGet s.index k := by
  show idxGet (idxDel s.index k') k = _
  rw [idxGet_idxDel, if_neg h]

theorem lc_peer (a b : String) (h : lc a = lc ("peer.~:" ++ b)) : lc a = lc ("peer.~:" ++ b) := h

theorem getl_maxIdx2_lit (hk : OffLit k) (s : State) (l : String) (v : Nat) (h1 : l ∈ litRows) (h2 : "peer.~:" ++ l ∈ litRows) :
    idxGet (s.maxIdx2 l v).index k = idxGet s.index k := by
  unfold State.maxIdx2
  rw [get_maxIdx_ne _ _ _ (hk.lit _ h2), get_maxIdx_ne _ _ _ (hk.lit _ h1)]

theorem get_bump (hk : OffCat k) (s : State) (nm : String) : idxGet (bumpServiceIdx s i nm).index k = idxGet s.index k := by
  unfold bumpServiceIdx
  rw [getl_maxIdx2_lit hk.off _ _ _ (by decide) (by decide), get_maxIdx_ne _ _ _ (hk.svc nm)]

theorem get_foldl_bump (hk : OffCat k) (l : List Svc) (s : State) :
    idxGet (l.foldl (fun st (v : Svc) => bumpServiceIdx st i v.name) s).index k = idxGet s.index k := by
  induction l generalizing s with
  | nil => rfl
  | cons v vs ih => rw [List.foldl_cons, ih, get_bump hk]

theorem get_updateAll (hk : OffCat k) (s : State) (node : String) :
    idxGet (updateAllServiceIndexesOfNode s i node).index k = idxGet s.index k := by
  unfold updateAllServiceIndexesOfNode; exact get_foldl_bump hk _ s

/-! ### the primitives that never touch an `OffCat` row -/

theorem getl_kvInsert (hk : OffLit k) (s : State) (e : KV) : idxGet (kvInsert s e).index k = idxGet s.index k :=
  get_setIdx_ne _ _ _ (hk.lit _ (by decide))

theorem getl_tombInsert (hk : OffLit k) (s : State) (key : Key) : idxGet (tombInsert s key i).index k = idxGet s.index k :=
  get_setIdx_ne _ _ _ (hk.lit _ (by decide))

theorem getl_kvDelete (hk : OffLit k) {s s' : State} {key : Key} (hr : kvDeleteTxn s i key = .ok s') :
    idxGet s'.index k = idxGet s.index k := by
  simp only [kvDeleteTxn] at hr
  repeat' (split at hr)
  all_goals (try simp at hr)
  all_goals (subst hr)
  · rfl
  · show idxGet (idxSet (tombInsert s key i).index "kvs" i) k = _
    rw [get_setIdx_ne _ _ _ (hk.lit _ (by decide)), getl_tombInsert hk]

theorem getl_kvDeleteTree (hk : OffLit k) (s : State) (p : Key) : idxGet (kvDeleteTreeTxn s i p).index k = idxGet s.index k := by
  unfold kvDeleteTreeTxn
  split
  · show idxGet (idxSet _ "kvs" i) k = _
    rw [get_setIdx_ne _ _ _ (hk.lit _ (by decide))]
    split
    · exact getl_tombInsert hk _ _
    · rfl
  · rfl

theorem getl_removeSessionRow (hk : OffLit k) (s : State) (id : String) :
    idxGet ({ s with sessions := terase Sess.pk (lc id) s.sessions, index := idxSet s.index "sessions" i } : State).index k
      = idxGet s.index k :=
  get_setIdx_ne _ _ _ (hk.lit _ (by decide))

theorem getl_invalidateKeys (hk : OffLit k) (s : State) (sess : Sess) :
    idxGet (invalidateKeys s i sess).index k = idxGet s.index k := by
  unfold invalidateKeys
  simp only
  split
  · rfl
  · have h1 : lc k ≠ lc "kvs" := hk.lit _ (by decide)
    have h2 : lc k ≠ lc "tombstones" := hk.lit _ (by decide)
    split
    · show idxGet (idxSet s.index "kvs" i) k = _
      rw [get_setIdx_ne _ _ _ h1]
    · show idxGet (idxSet (idxSet s.index "tombstones" i) "kvs" i) k = _
      rw [get_setIdx_ne _ _ _ h1, get_setIdx_ne _ _ _ h2]

theorem getl_dropSessionRefs (hk : OffLit k) (s : State) (id : String) :
    idxGet (dropSessionRefs s i id).index k = idxGet s.index k := by
  unfold dropSessionRefs
  simp only
  split
  · exact get_setIdx_ne _ _ _ (hk.lit _ (by decide))
  · rfl

/-- row `k` is the same in both states -/
structure KeyKeep (k : String) (s s' : State) : Prop where
  eq : idxGet s'.index k = idxGet s.index k

theorem keyKeep_refl (s : State) : KeyKeep k s s := ⟨rfl⟩
theorem keyKeep_bump (hk : OffCat k) (s : State) (nm : String) : KeyKeep k s (bumpServiceIdx s i nm) := ⟨get_bump hk s nm⟩
theorem keyKeep_updateAll (hk : OffCat k) (s : State) (node : String) :
    KeyKeep k s (updateAllServiceIndexesOfNode s i node) := ⟨get_updateAll hk s node⟩

theorem keyKeep_checkPrep (hk : OffCat k) {s s1 : State} {p : Bool} {hc hc1 : Chk} {md : Bool}
    (hr : checkPrep s i p hc = .ok (s1, hc1, md)) : KeyKeep k s s1 := by
  simp only [checkPrep] at hr
  repeat' (split at hr)
  all_goals (try simp at hr)
  all_goals (obtain ⟨rfl, -⟩ := hr)
  all_goals (first | exact keyKeep_refl _ | exact keyKeep_bump hk _ _ | exact keyKeep_updateAll hk _ _)

theorem get_checkPrep (hk : OffCat k) {s s1 : State} {p : Bool} {hc hc1 : Chk} {md : Bool}
    (hr : checkPrep s i p hc = .ok (s1, hc1, md)) : idxGet s1.index k = idxGet s.index k :=
  (keyKeep_checkPrep hk hr).eq

theorem getl_chkInsert (hk : OffLit k) (s : State) (c : Chk) : idxGet (chkInsert s c i).index k = idxGet s.index k := by
  unfold chkInsert
  exact getl_maxIdx2_lit hk _ _ _ (by decide) (by decide)

theorem getl_checkFinish (hk : OffLit k) (s : State) (p : Bool) (hc : Chk) (md : Bool) :
    idxGet (checkFinish s i p hc md).index k = idxGet s.index k := by
  unfold checkFinish
  split
  · rfl
  · exact getl_chkInsert hk _ _

theorem getl_insertSession (hk : OffLit k) (s : State) (x : Sess) : idxGet (insertSession s x i).index k = idxGet s.index k :=
  get_setIdx_ne _ _ _ (hk.lit _ (by decide))

theorem getl_pqSet (hk : OffLit k) {s s' : State} {id sess : String} (hr : pqSet s i id sess = .ok s') :
    idxGet s'.index k = idxGet s.index k := by
  simp only [pqSet] at hr
  repeat' (split at hr)
  all_goals (try simp at hr)
  all_goals (subst hr)
  all_goals exact get_setIdx_ne _ _ _ (hk.lit _ (by decide))

theorem getl_pqDelete (hk : OffLit k) (s : State) (id : String) : idxGet (pqDelete s i id).index k = idxGet s.index k := by
  unfold pqDelete
  split
  · rfl
  · exact get_setIdx_ne _ _ _ (hk.lit _ (by decide))

theorem get_deleteCheckPre (hk : OffCat k) (s : State) (node id : String) (x : Chk) :
    idxGet (deleteCheckPre s i node id x).index k = idxGet s.index k := by
  unfold deleteCheckPre
  simp only
  rw [getl_maxIdx2_lit hk.off _ _ _ (by decide) (by decide)]
  show idxGet (if x.svcId ≠ "" then _ else _ : State).index k = _
  split
  · rw [getl_maxIdx2_lit hk.off _ _ _ (by decide) (by decide), get_maxIdx_ne _ _ _ (hk.svc _)]
  · rw [getl_maxIdx2_lit hk.off _ _ _ (by decide) (by decide), get_updateAll hk]

/-! ### the same for rows that are also no per-service row -/

theorem get_maxIdx2_lit (hk : OffCat k) (s : State) (l : String) (v : Nat) (h1 : l ∈ litRows) (h2 : "peer.~:" ++ l ∈ litRows) :
    idxGet (s.maxIdx2 l v).index k = idxGet s.index k := getl_maxIdx2_lit hk.off s l v h1 h2
theorem get_kvInsert (hk : OffCat k) (s : State) (e : KV) : idxGet (kvInsert s e).index k = idxGet s.index k := getl_kvInsert hk.off s e
theorem get_kvDelete (hk : OffCat k) {s s' : State} {key : Key} (hr : kvDeleteTxn s i key = .ok s') :
    idxGet s'.index k = idxGet s.index k := getl_kvDelete hk.off hr
theorem get_kvDeleteTree (hk : OffCat k) (s : State) (p : Key) : idxGet (kvDeleteTreeTxn s i p).index k = idxGet s.index k :=
  getl_kvDeleteTree hk.off s p
theorem get_removeSessionRow (hk : OffCat k) (s : State) (id : String) :
    idxGet ({ s with sessions := terase Sess.pk (lc id) s.sessions, index := idxSet s.index "sessions" i } : State).index k
      = idxGet s.index k := getl_removeSessionRow hk.off s id
theorem get_invalidateKeys (hk : OffCat k) (s : State) (sess : Sess) :
    idxGet (invalidateKeys s i sess).index k = idxGet s.index k := getl_invalidateKeys hk.off s sess
theorem get_dropSessionRefs (hk : OffCat k) (s : State) (id : String) :
    idxGet (dropSessionRefs s i id).index k = idxGet s.index k := getl_dropSessionRefs hk.off s id
theorem get_chkInsert (hk : OffCat k) (s : State) (c : Chk) : idxGet (chkInsert s c i).index k = idxGet s.index k := getl_chkInsert hk.off s c
theorem get_checkFinish (hk : OffCat k) (s : State) (p : Bool) (hc : Chk) (md : Bool) :
    idxGet (checkFinish s i p hc md).index k = idxGet s.index k := getl_checkFinish hk.off s p hc md
theorem get_insertSession (hk : OffCat k) (s : State) (x : Sess) : idxGet (insertSession s x i).index k = idxGet s.index k :=
  getl_insertSession hk.off s x
theorem get_pqSet (hk : OffCat k) {s s' : State} {id sess : String} (hr : pqSet s i id sess = .ok s') :
    idxGet s'.index k = idxGet s.index k := getl_pqSet hk.off hr
theorem get_pqDelete (hk : OffCat k) (s : State) (id : String) : idxGet (pqDelete s i id).index k = idxGet s.index k :=
  getl_pqDelete hk.off s id

end CV.Store
