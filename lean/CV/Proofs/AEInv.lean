/-
The invariant that every step of `SyncChanges` preserves under every RPC outcome, and the
primitive effects the steps are composed of.
-/
import CV.Proofs.AECat
namespace CV.AE
open AMap

/-! ### vocabulary of the property -/

/-- the definition the agent currently wants registered for a service id (if any) -/
def liveSvc (l : Local) (id : Id) : Option SvcDef := (l.svcs.get? id).bind Ent.live?
def liveChk (l : Local) (k : Id) : Option ChkDef := (l.chks.get? k).bind Ent.live?

/-- every registered check that is bound to a service is bound to a registered service
    (`addCheckLocked` demands it, and the agent removes a service together with its checks) -/
def LocalWF (l : Local) : Prop := ∀ k d, liveChk l k = some d → d.sid ≠ "" → liveSvc l d.sid ≠ none

/-- the catalog never holds a check bound to a service it does not hold (`ensureCheckTxn`,
    `deleteServiceTxn`) -/
def CatWF (c : Cat) : Prop := ∀ k rc, c.chks.get? k = some rc → rc.sid ≠ "" → c.svcs.get? rc.sid ≠ none

def NoEmptyKey (l : Local) (c : Cat) : Prop :=
  l.svcs.get? "" = none ∧ l.chks.get? "" = none ∧ c.svcs.get? "" = none ∧ c.chks.get? "" = none

/-- no check whose removal is pending is bound, in the catalog, to another service than the one
    it is bound to locally -/
def NoRebound (l : Local) (c : Cat) : Prop :=
  ∀ k d tok loc b rc, l.chks.get? k = some (.ent d tok loc b true) → d.sid ≠ "" →
    c.chks.get? k = some rc → rc.sid = d.sid

/-- an entry marked in sync is held by the catalog, unless its id is in the refused set -/
def SoundExcept (Rs Rc : Id → Prop) (l : Local) (c : Cat) : Prop :=
  (∀ id d tok loc, l.svcs.get? id = some (.ent d tok loc true false) → Rs id ∨ c.svcs.get? id = some d) ∧
  (∀ k d tok loc, l.chks.get? k = some (.ent d tok loc true false) →
      Rc k ∨ ∃ rc, c.chks.get? k = some rc ∧ rc.core = d.core)

/-- what the catalog holds beyond the local records is confined to `Ps` / `Pc` (the check half
    only under `T`) -/
def Tight (T : Prop) (Ps Pc : Id → Prop) (l : Local) (c : Cat) : Prop :=
  (∀ id, l.svcs.get? id = none → c.svcs.get? id = none ∨ Ps id) ∧
  (T → ∀ k, l.chks.get? k = none → c.chks.get? k = none ∨ Pc k)

/-- `T` switches on the part that needs `NoRebound` (the check half of `Tight`) -/
structure GInv (T : Prop) (Rs Rc Ps Pc : Id → Prop) (l : Local) (c : Cat) : Prop where
  lwf : LocalWF l
  cwf : CatWF c
  nek : NoEmptyKey l c
  nrb : T → NoRebound l c
  snd : SoundExcept Rs Rc l c
  tgt : Tight T Ps Pc l c

/-! ### small facts about records -/

@[simp] theorem live?_setInSync {δ : Type} (e : Ent δ) (b : Bool) : (e.setInSync b).live? = e.live? := by
  cases e with
  | ghost x => rfl
  | ent d t lo x del => cases del <;> rfl

@[simp] theorem deleted_setInSync {δ : Type} (e : Ent δ) (b : Bool) : (e.setInSync b).deleted = e.deleted := by
  cases e <;> rfl

@[simp] theorem inSync_setInSync {δ : Type} (e : Ent δ) (b : Bool) : (e.setInSync b).inSync = b := by
  cases e <;> rfl

theorem live?_eq_some {δ : Type} (e : Ent δ) (d : δ) :
    e.live? = some d ↔ ∃ tok loc b, e = .ent d tok loc b false := by
  cases e with
  | ghost x => simp [Ent.live?]
  | ent d' t lo x del => cases del <;> simp [Ent.live?]

theorem live?_ne_none_of {δ : Type} (d : δ) (tok : String) (loc b : Bool) :
    (Ent.ent d tok loc b false).live? ≠ none := by simp [Ent.live?]

theorem live?_deleted {δ : Type} (e : Ent δ) (h : e.deleted = true) : e.live? = none := by
  cases e with
  | ghost x => rfl
  | ent d t lo x del => simp [Ent.deleted] at h; subst h; rfl

theorem deleted_of_not_live {δ : Type} (e : Ent δ) (h : e.live? = none) : e.deleted = true := by
  cases e with
  | ghost b => rfl
  | ent d t lo b del => cases del <;> simp_all [Ent.live?, Ent.deleted]

/-! ### lookups after the local primitives -/

theorem markSvc_svcs (l : Local) (id i : Id) :
    (markSvc l id).svcs.get? i = if i = id then (l.svcs.get? i).map (Ent.setInSync true) else l.svcs.get? i := by
  simp only [markSvc, get?_mapVals]
  split
  · rfl
  · cases l.svcs.get? i <;> simp [*]

theorem markSvc_chks (l : Local) (id : Id) : (markSvc l id).chks = l.chks := rfl
theorem markSvc_node (l : Local) (id : Id) : (markSvc l id).nodeInSync = l.nodeInSync := rfl

theorem markChks_chks (l : Local) (ks : List Id) (k : Id) :
    (markChks l ks).chks.get? k = if k ∈ ks then (l.chks.get? k).map (Ent.setInSync true) else l.chks.get? k := by
  simp only [markChks, get?_mapVals]
  split
  · rfl
  · cases l.chks.get? k <;> simp [*]

theorem markChks_svcs (l : Local) (ks : List Id) : (markChks l ks).svcs = l.svcs := rfl
theorem markChks_node (l : Local) (ks : List Id) : (markChks l ks).nodeInSync = l.nodeInSync := rfl

theorem liveSvc_markSvc (l : Local) (id i : Id) : liveSvc (markSvc l id) i = liveSvc l i := by
  simp only [liveSvc, markSvc_svcs]
  split
  · cases l.svcs.get? i <;> simp
  · rfl

theorem liveChk_markChks (l : Local) (ks : List Id) (k : Id) : liveChk (markChks l ks) k = liveChk l k := by
  simp only [liveChk, markChks_chks]
  split
  · cases l.chks.get? k <;> simp
  · rfl

end CV.AE
