/-
C06: concrete witnesses of the seven recorded findings, evaluated on the model (the same histories are
replayed on the real store by the harness on every run). Each witness is a short history from the empty
store; `…_reached` lemmas give the states explicitly (tables as literals, the index table as the chain of
writes the commands performed), the `…_run` lemmas evaluate the queries.
-/
import CV.Proofs.StoreQueryTbl
namespace CV.Store
open CV

theorem strLt_eval (a b : String) : strLt a b = decide (a.toList < b.toList) := by
  simp [strLt, String.lt_iff]
/-- compare strings through their characters (so that nothing has to evaluate `String.map`) -/
theorem str_eq_iff (a b : String) : a = b ↔ a.toList = b.toList :=
  ⟨fun h => by rw [h], String.toList_injective⟩
theorem idxGet_nil (k : String) : idxGet [] k = none := rfl
theorem idxVal_nil (k : String) : idxVal [] k = 0 := rfl

/-- evaluates the model's write functions on literal states; leaves the index-table primitives alone -/
macro "write_eval" : tactic => `(tactic|
  simp [apply, liftS, liftB, ensureRegistration, ensureNode, ensureService,
    ensureCheckIfNodeMatches, ensureCheck,
    ensureCheckF, fuelFor, checkPrep, checkFinish, chkInsert, sessionsToInvalidate, checkSessions, nodeInsert, svcInsert,
    svcSame, nodeSame, chkSame, deleteCheck, deleteCheckPre, deleteService, deleteServicePost, deleteNode, deleteNodePost,
    nodeFind, svcFind, chkFind, nodeFindByID, nameClash, tfind, tupsert, terase, foldE, bumpServiceIdx,
    updateAllServiceIndexesOfNode, State.maxIdx2, State.maxIdx, State.delIdx, State.setIdx, Node.pk, Svc.pk, Chk.pk, pk2,
    State.empty, kvSetTxn, kvInsert, kvFind, kvEqual, kvDeleteTxn, kvDeleteTreeTxn, tombInsert, KV.pk, Tomb.pk, keyLt,
    prefixMatch, critical, passing])

/-- … plus comparisons of (lower-cased, NUL-joined) primary keys, decided by evaluation -/
macro "write_eval!" : tactic => `(tactic|
  simp (config := {decide := true}) [apply, liftS, liftB, ensureRegistration, ensureNode, ensureService,
    ensureCheckIfNodeMatches, ensureCheck,
    ensureCheckF, fuelFor, checkPrep, checkFinish, chkInsert, sessionsToInvalidate, checkSessions, nodeInsert, svcInsert,
    svcSame, nodeSame, chkSame, deleteCheck, deleteCheckPre, deleteService, deleteServicePost, deleteNode, deleteNodePost,
    nodeFind, svcFind, chkFind, nodeFindByID, nameClash, tfind, tupsert, terase, foldE, bumpServiceIdx,
    updateAllServiceIndexesOfNode, State.maxIdx2, State.maxIdx, State.delIdx, State.setIdx, Node.pk, Svc.pk, Chk.pk, pk2,
    State.empty, strLt_eval, str_eq_iff, String.toList_append, lc_toList, nul, critical, passing])

/-- evaluates index-table lookups on a chain of writes -/
macro "idx_eval" : tactic => `(tactic|
  simp (config := {decide := true}) [idxGet_idxMax, idxGet_idxSet, idxGet_idxDel, idxVal_idxMax, idxVal_idxSet,
    lc_eq_iff, kSvcExt, kNodeExt, kServices, kNodes, kChecks, svcKey, nodeKey, idxVal, idxGet_nil, idxVal_nil])

/-! ### 1. an instance renamed in place -/

def nodeN1 : Node := ⟨"n1", "", "10.0.0.1", 0, 0⟩
def regWeb : Cmd := .register ⟨nodeN1, some ⟨"n1", "web", "web", 80, 0, 0⟩, []⟩
def regWebAsDb : Cmd := .register ⟨nodeN1, some ⟨"n1", "web", "db", 80, 0, 0⟩, []⟩

/-- after `register n1 {id web, name web} @10` -/
def wRename : State :=
  { nodes := [⟨"n1", "", "10.0.0.1", 10, 10⟩], svcs := [⟨"n1", "web", "web", 80, 10, 10⟩],
    index := (apply State.empty 10 regWeb).1.index }

theorem wRename_reached : (apply State.empty 10 regWeb).1 = wRename := by
  simp only [regWeb, nodeN1, wRename]
  write_eval

/-- after `register n1 {id web, name db} @12` -/
def wRename2 : State :=
  { nodes := [⟨"n1", "", "10.0.0.1", 10, 10⟩], svcs := [⟨"n1", "web", "db", 80, 10, 12⟩],
    index := (apply wRename 12 regWebAsDb).1.index }

theorem wRename2_reached : (apply wRename 12 regWebAsDb).1 = wRename2 := by
  simp only [regWebAsDb, nodeN1, wRename, wRename2]
  write_eval

theorem wRename_idx : idxGet wRename.index (svcKey "web") = some 10 := by
  simp only [wRename, regWeb, nodeN1]
  write_eval
  idx_eval

theorem wRename2_idx : idxGet wRename2.index kSvcExt = none ∧ idxGet wRename2.index (svcKey "web") = some 10 := by
  simp only [wRename2, wRename, regWeb, regWebAsDb, nodeN1]
  write_eval
  idx_eval

theorem web_ne_db : lc "db" ≠ lc "web" := by simp (config := {decide := true}) [lc_eq_iff]

theorem rename_run :
    (Query.serviceNodes "web").run wRename =
      (10, .svcNodes [⟨⟨"n1", "web", "web", 80, 10, 10⟩, some ⟨"n1", "", "10.0.0.1", 10, 10⟩⟩]) ∧
    (Query.serviceNodes "web").run wRename2 = (10, .svcNodes []) := by
  constructor
  · simp [Query.run, svcsNamed, maxIndexForService, wRename_idx, joinNode, nodeFind, tfind, Node.pk]
    simp [wRename]
  · have h := wRename2_idx
    have : svcsNamed wRename2 "web" = [] := by simp [svcsNamed, wRename2, web_ne_db]
    simp [Query.run, this, maxIndexForService, h.1, h.2]


/-- the watch-optimised CheckServiceNodes("web") watches only the `service.web` row, which does not move -/
theorem rename_csn :
    ((Query.csn "web").run wRename2).2 ≠ ((Query.csn "web").run wRename).2 ∧
    ((Query.csn "web").run wRename2).1 = ((Query.csn "web").run wRename).1 ∧
    (Query.csn "web").fired wRename wRename2 = false := by
  have h := wRename2_idx
  have h1 := wRename_idx
  have e2 : svcsNamed wRename2 "web" = [] := by simp [svcsNamed, wRename2, web_ne_db]
  have e1 : svcsNamed wRename "web" = [⟨"n1", "web", "web", 80, 10, 10⟩] := by simp [svcsNamed, wRename]
  refine ⟨?_, ?_, ?_⟩
  · simp [Query.run, e1, e2, csnResult, csnRows, csnRow, nodeFind, tfind, Node.pk]
    simp [wRename]
  · simp [Query.run, e1, e2, maxIndexForService, h.1, h.2, h1]
  · simp [Query.fired, Query.watch, e1, h1, WatchItem.changed, h.2]

/-! ### 4. NodeServices for a node name shorter than two bytes (repaired in /repo 8ebfe04: regression witness) -/

def regM : Cmd := .register ⟨⟨"m", "", "10.0.0.1", 0, 0⟩, none, []⟩
def deregM : Cmd := .deregister "m" "" ""

def wShort : State := { nodes := [⟨"m", "", "10.0.0.1", 10, 10⟩], index := (apply State.empty 10 regM).1.index }
theorem wShort_reached : (apply State.empty 10 regM).1 = wShort := by
  simp only [regM, wShort]
  write_eval

def wShort2 : State := { index := (apply wShort 12 deregM).1.index }
theorem wShort2_reached : (apply wShort 12 deregM).1 = wShort2 := by
  simp only [deregM, wShort, wShort2]
  write_eval

theorem wShort_idx : idxVal wShort.index (nodeKey "m") = 10 := by
  simp only [wShort, regM]
  write_eval
  idx_eval

theorem wShort2_ext : idxVal wShort2.index kNodeExt = 12 := by
  simp only [wShort2, wShort, deregM, regM]
  write_eval
  -- the outermost write is the node extinction row itself; everything below is ≤ 12 (no literal comparison
  -- of the long key strings in the kernel)
  exact idxVal_idxMax_self (k := kNodeExt) (idxLe_del (idxLe_max (idxLe_max (idxLe_max (idxLe_max (idxLe_max
    (idxLe_nil 12) _ (by omega)) _ (by omega)) _ (by omega)) _ (by omega)) _ (by omega)) _)

theorem short_run :
    (Query.nodeServices "m").run wShort = (10, .nodeSvcs (some (⟨"m", "", "10.0.0.1", 10, 10⟩, []))) ∧
    (Query.nodeServices "m").run wShort2 = (12, .nodeSvcs none) := by
  constructor
  · have : nodeFind wShort "m" = some ⟨"m", "", "10.0.0.1", 10, 10⟩ := by simp [nodeFind, tfind, wShort, Node.pk]
    simp [Query.run, nodeServicesHead, this, wShort_idx]
    simp [svcsOnNode, wShort]
  · have : nodeFind wShort2 "m" = none := by simp [nodeFind, tfind, wShort2]
    simp [Query.run, nodeServicesHead, this, wShort2_ext]

/-! ### 5. Services joined with their nodes -/

def regMweb : Cmd := .register ⟨⟨"m", "", "10.0.0.2", 0, 0⟩, some ⟨"m", "web", "web", 80, 0, 0⟩, []⟩
def regMaddr : Cmd := .register ⟨⟨"m", "", "10.0.0.1", 0, 0⟩, none, []⟩

def wJoin : State :=
  { nodes := [⟨"m", "", "10.0.0.2", 10, 10⟩], svcs := [⟨"m", "web", "web", 80, 10, 10⟩],
    index := (apply State.empty 10 regMweb).1.index }
theorem wJoin_reached : (apply State.empty 10 regMweb).1 = wJoin := by
  simp only [regMweb, wJoin]
  write_eval

def wJoin2 : State :=
  { nodes := [⟨"m", "", "10.0.0.1", 10, 12⟩], svcs := [⟨"m", "web", "web", 80, 10, 10⟩],
    index := (apply wJoin 12 regMaddr).1.index }
theorem wJoin2_reached : (apply wJoin 12 regMaddr).1 = wJoin2 := by
  simp only [regMaddr, wJoin, wJoin2]
  write_eval

theorem wJoin_idx : idxVal wJoin.index kServices = 10 ∧ idxVal wJoin2.index kServices = 10 := by
  simp only [wJoin2, wJoin, regMweb, regMaddr]
  write_eval
  idx_eval

theorem join_run :
    (Query.servicesJoin).run wJoin = (10, .svcNodes [⟨⟨"m", "web", "web", 80, 10, 10⟩, some ⟨"m", "", "10.0.0.2", 10, 10⟩⟩]) ∧
    (Query.servicesJoin).run wJoin2 = (10, .svcNodes [⟨⟨"m", "web", "web", 80, 10, 10⟩, some ⟨"m", "", "10.0.0.1", 10, 12⟩⟩]) := by
  have h := wJoin_idx
  constructor
  · simp [Query.run, h.1]; simp [wJoin, joinNode, nodeFind, tfind, Node.pk]
  · simp [Query.run, h.2]; simp [wJoin2, joinNode, nodeFind, tfind, Node.pk]


/-! ### 6. delete-tree above the list prefix, 7. list prefix with a leading NUL -/

def kvE (k : Key) : KV := ⟨k, "=v", 0, "", 0, 0, 0⟩
-- "a/b" = [97,47,98], "a/bc" = [97,47,98,99], "a/" = [97,47], "a" = [97]

/-- set a/b @10; set a/bc @12; delete a/b @20 -/
def wTree : State :=
  { kvs := [⟨[97, 47, 98, 99], "=v", 0, "", 0, 12, 12⟩], tombs := [⟨[97, 47, 98], 20⟩],
    index := (apply (apply (apply State.empty 10 (.kvSet (kvE [97, 47, 98]))).1 12 (.kvSet (kvE [97, 47, 98, 99]))).1 20
      (.kvDelete [97, 47, 98])).1.index }

theorem wTree_reached :
    (apply (apply (apply State.empty 10 (.kvSet (kvE [97, 47, 98]))).1 12 (.kvSet (kvE [97, 47, 98, 99]))).1 20
      (.kvDelete [97, 47, 98])).1 = wTree := by
  simp only [wTree, kvE]
  simp (config := {decide := true}) [apply, liftS, kvSetTxn, kvInsert, kvFind, tfind, tupsert, terase, kvEqual, kvDeleteTxn,
    tombInsert, KV.pk, Tomb.pk, keyLt, State.empty, Except.map]

/-- delete-tree "a" @22 -/
def wTree2 : State :=
  { tombs := [⟨[97], 22⟩, ⟨[97, 47, 98], 20⟩], index := (apply wTree 22 (.kvDeleteTree [97])).1.index }

theorem wTree2_reached : (apply wTree 22 (.kvDeleteTree [97])).1 = wTree2 := by
  simp only [wTree, wTree2]
  simp (config := {decide := true}) [apply, kvDeleteTreeTxn, prefixMatch, tombInsert, tupsert, Tomb.pk, keyLt]

theorem tree_run :
    kvList wTree [97, 47] = (20, [⟨[97, 47, 98, 99], "=v", 0, "", 0, 12, 12⟩]) ∧ kvList wTree2 [97, 47] = (20, []) := by
  constructor <;>
  simp (config := {decide := true}) [kvList, wTree, wTree2, prefixMatch, tombMaxIndex, trimNul, trimNulL, listMax, kvMaxIndex]

/-- set "\x00a" @16; set "\x00ab" @18 -/
def wNul : State :=
  { kvs := [⟨[0, 97], "=v", 0, "", 0, 16, 16⟩, ⟨[0, 97, 98], "=v", 0, "", 0, 18, 18⟩],
    index := (apply (apply State.empty 16 (.kvSet (kvE [0, 97]))).1 18 (.kvSet (kvE [0, 97, 98]))).1.index }

theorem wNul_reached : (apply (apply State.empty 16 (.kvSet (kvE [0, 97]))).1 18 (.kvSet (kvE [0, 97, 98]))).1 = wNul := by
  simp only [wNul, kvE]
  simp (config := {decide := true}) [apply, liftS, kvSetTxn, kvInsert, kvFind, tfind, tupsert, kvEqual, KV.pk, keyLt,
    State.empty, Except.map]

/-- delete "\x00ab" @22 -/
def wNul2 : State :=
  { kvs := [⟨[0, 97], "=v", 0, "", 0, 16, 16⟩], tombs := [⟨[0, 97, 98], 22⟩],
    index := (apply wNul 22 (.kvDelete [0, 97, 98])).1.index }

theorem wNul2_reached : (apply wNul 22 (.kvDelete [0, 97, 98])).1 = wNul2 := by
  simp only [wNul, wNul2]
  simp (config := {decide := true}) [apply, liftS, kvDeleteTxn, kvFind, tfind, terase, tombInsert, tupsert, KV.pk, Tomb.pk, keyLt]

theorem nul_run : (kvList wNul [0, 97]).1 = 18 ∧ (kvList wNul2 [0, 97]).1 = 16 ∧ (kvList wNul2 [0, 97]).2 ≠ (kvList wNul [0, 97]).2 := by
  refine ⟨?_, ?_, ?_⟩ <;>
  simp (config := {decide := true}) [kvList, wNul, wNul2, prefixMatch, tombMaxIndex, trimNul, trimNulL, listMax, kvMaxIndex]

end CV.Store
