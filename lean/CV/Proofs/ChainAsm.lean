/-
Helper lemmas for C15 (CV.Chain): invariants of the compiler state that `assembleChain` maintains
(every resolver node's target and failover targets are retained and loaded; splitter nodes are non-empty).
-/
import CV.Proofs.Chain
set_option linter.unusedVariables false
set_option linter.unusedSimpArgs false
namespace CV.Chain

/-- all splitter entries have at least one split (what `ServiceSplitterConfigEntry.Validate` enforces) -/
def SplitsNE (es : Entries) : Prop := ∀ n ss, alook n es.splitters = some ss → ss ≠ []

structure AInv (es : Entries) (st : St) : Prop where
  memo_ret   : ∀ id lb, (id, lb) ∈ st.rmemo → id ∈ st.retained
  ret_loaded : ∀ id ∈ st.retained, id ∈ akeys st.loaded
  node_tgt   : ∀ k d ct rt tgt fo lb, (k, Node.resolver d ct rt tgt fo lb) ∈ st.nodes →
                 tgt ∈ st.retained ∧ ∀ f ∈ fo, f ∈ st.retained
  node_ne    : SplitsNE es → ∀ k ss lb, (k, Node.splitter ss lb) ∈ st.nodes → ss ≠ []
  node_rt    : ∀ k rs, (k, Node.router rs) ∈ st.nodes → rs ≠ []

/-- `st'` differs from `st` only by more loaded targets (and possibly protocol / flags) -/
structure Same (st st' : St) : Prop where
  nodes    : st'.nodes = st.nodes
  rmemo    : st'.rmemo = st.rmemo
  retained : st'.retained = st.retained
  loaded   : ∀ k ∈ akeys st.loaded, k ∈ akeys st'.loaded

theorem Same.refl (st : St) : Same st st := ⟨rfl, rfl, rfl, fun _ h => h⟩

theorem Same.trans {a b c : St} (h1 : Same a b) (h2 : Same b c) : Same a c :=
  ⟨h2.nodes.trans h1.nodes, h2.rmemo.trans h1.rmemo, h2.retained.trans h1.retained,
   fun k hk => h2.loaded k (h1.loaded k hk)⟩

theorem AInv.of_same {es : Entries} {st st' : St} (h : AInv es st) (s : Same st st') : AInv es st' := by
  refine ⟨?_, ?_, ?_, ?_, fun k rs hm => h.node_rt k rs (s.nodes ▸ hm)⟩
  · intro id lb hm; rw [s.rmemo] at hm; rw [s.retained]; exact h.memo_ret id lb hm
  · intro id hm; rw [s.retained] at hm; exact s.loaded id (h.ret_loaded id hm)
  · intro k d ct rt tgt fo lb hm; rw [s.nodes] at hm; rw [s.retained]; exact h.node_tgt k d ct rt tgt fo lb hm
  · intro hes k ss lb hm; rw [s.nodes] at hm; exact h.node_ne hes k ss lb hm

theorem newTarget_same (cx : Ctx) (st : St) (o : Opts) : Same st (newTarget cx st o).1 := by
  unfold newTarget
  simp only
  split
  · exact Same.refl st
  · exact ⟨rfl, rfl, rfl, fun k hk => by simp only [akeys, List.map_append, List.mem_append]; exact Or.inl hk⟩

theorem redirectStep_same (cx : Ctx) (st : St) (t : Target) (r : Resolver) : Same st (redirectStep cx st t r).1 := by
  unfold redirectStep
  split
  · simp only; split <;> exact newTarget_same cx st _
  · exact Same.refl st

theorem subsetStep_same (cx : Ctx) (st st' : St) (t t' : Target) (r : Resolver)
    (h : subsetStep cx st t r = some (st', t')) : Same st st' := by
  unfold subsetStep at h
  split at h
  · have e := Option.some.inj h
    have := newTarget_same cx st (rewrite t { subset := r.defaultSubset })
    rw [e] at this; exact this
  · cases h

theorem resolveLoop_same (es : Entries) (cx : Ctx) (st0 : St) (t0 : Target) (st : St) (hist : List Target) (t : Target)
    (hst : LoadedIn (mkVals es cx st0 t0) st) (ht : InU (mkVals es cx st0 t0) t) (st' : St) (out : LoopOut)
    (h : resolveLoop es cx st0 t0 st hist t hst ht = .ok (st', out)) :
    Same st st' ∧ ∀ id lb, out = .memo id lb → (id, lb) ∈ st.rmemo := by
  fun_induction resolveLoop es cx st0 t0 st hist t hst ht generalizing st' out with
  | case1 st hist t hst ht lb hm =>
    cases h
    exact ⟨Same.refl st, fun id lb' e => by cases e; exact alook_mem hm⟩
  | case2 st hist t hst ht hm e he => cases h
  | case3 st hist t hst ht hm p hp hh => cases h
  | case4 st hist t hst ht hm p hp hh st2 t2 h1 hi ih =>
    have s1 : Same st { st with proto := p } := ⟨rfl, rfl, rfl, fun _ h => h⟩
    have s2 := redirectStep_same cx { st with proto := p } t (getResolver es t.svc)
    rw [h1] at s2
    obtain ⟨s3, hm3⟩ := ih st' out h
    refine ⟨s1.trans (s2.trans s3), ?_⟩
    intro id lb e
    have := hm3 id lb e
    rw [s2.rmemo] at this; exact this
  | case5 st hist t hst ht hm p hp hh st2 h1 hi st3 t3 h2 hj ih =>
    have s1 : Same st { st with proto := p } := ⟨rfl, rfl, rfl, fun _ h => h⟩
    have s2 := redirectStep_same cx { st with proto := p } t (getResolver es t.svc)
    rw [h1] at s2
    have s3 := subsetStep_same cx st2 st3 t t3 _ h2
    obtain ⟨s4, hm4⟩ := ih st' out h
    refine ⟨s1.trans (s2.trans (s3.trans s4)), ?_⟩
    intro id lb e
    have := hm4 id lb e
    rw [s3.rmemo, s2.rmemo] at this; exact this
  | case6 st hist t hst ht hm p hp hh st2 h1 hi h2 =>
    cases h
    have s1 : Same st { st with proto := p } := ⟨rfl, rfl, rfl, fun _ h => h⟩
    have s2 := redirectStep_same cx { st with proto := p } t (getResolver es t.svc)
    rw [h1] at s2
    exact ⟨s1.trans s2, fun id lb e => by cases e⟩

theorem akeys_aset_sup {α : Type} (k : String) (v : α) (l : List (String × α)) :
    k ∈ akeys (aset k v l) ∧ ∀ x ∈ akeys l, x ∈ akeys (aset k v l) := by
  induction l with
  | nil => simp [aset, akeys]
  | cons y ys ih =>
    obtain ⟨a, w⟩ := y
    by_cases ha : a = k
    · subst ha; simp [aset, akeys]
    · simp only [aset, ha, if_false, akeys, List.map_cons, List.mem_cons]
      refine ⟨Or.inr ih.1, ?_⟩
      intro x hx
      rcases hx with hx | hx
      · exact Or.inl hx
      · exact Or.inr (ih.2 x hx)

theorem finishResolve_spec (es : Entries) (cx : Ctx) (st st' : St) (t : Target) (r : Resolver) (node : Node)
    (h : finishResolve es cx st t r = .ok (st', node)) :
    st'.nodes = st.nodes ∧ st'.rmemo = st.rmemo ∧ st'.retained = t.id :: st.retained ∧
    (∀ k ∈ akeys st.loaded, k ∈ akeys st'.loaded) ∧ t.id ∈ akeys st'.loaded ∧
    ∃ d ct rt lb, node = .resolver d ct rt t.id [] lb := by
  unfold finishResolve at h
  simp only at h
  split at h
  · cases h
  · split at h
    · cases h
    · split at h
      · cases h
      · split at h
        · cases h
        · simp only [Except.ok.injEq, Prod.mk.injEq] at h
          obtain ⟨h1, h2⟩ := h
          subst h1 h2
          refine ⟨rfl, rfl, rfl, ?_, ?_, _, _, _, _, rfl⟩
          · exact (akeys_aset_sup t.id _ st.loaded).2
          · exact (akeys_aset_sup t.id _ st.loaded).1

theorem AInv.finish {es : Entries} {cx : Ctx} {st st' : St} {t : Target} {r : Resolver} {node : Node}
    (hi : AInv es st) (h : finishResolve es cx st t r = .ok (st', node)) : AInv es st' := by
  obtain ⟨hn, hm, hr, hl, htl, _⟩ := finishResolve_spec es cx st st' t r node h
  refine ⟨?_, ?_, ?_, ?_, fun k rs hmem => hi.node_rt k rs (hn ▸ hmem)⟩
  · intro id lb hmem; rw [hm] at hmem; rw [hr]; exact List.mem_cons_of_mem _ (hi.memo_ret id lb hmem)
  · intro id hmem; rw [hr] at hmem
    rcases List.mem_cons.mp hmem with rfl | hmem
    · exact htl
    · exact hl id (hi.ret_loaded id hmem)
  · intro k d ct rt tgt fo lb hmem; rw [hn] at hmem; rw [hr]
    have := hi.node_tgt k d ct rt tgt fo lb hmem
    exact ⟨List.mem_cons_of_mem _ this.1, fun f hf => List.mem_cons_of_mem _ (this.2 f hf)⟩
  · intro hes k ss lb hmem; rw [hn] at hmem; exact hi.node_ne hes k ss lb hmem

/-- what the callers of `resolveCore` rely on -/
structure CoreOut (es : Entries) (st st' : St) (rn : RNode) (x : Option (Target × Resolver × Node)) : Prop where
  inv   : AInv es st'
  mono  : ∀ id ∈ st.retained, id ∈ st'.retained
  ret   : rn.id ∈ st'.retained
  nodes : st'.nodes = st.nodes
  rmemo : st'.rmemo = st.rmemo
  fresh : ∀ t' r node, x = some (t', r, node) → rn.id = t'.id ∧ ∃ d ct rt lb, node = .resolver d ct rt t'.id [] lb

theorem resolveCore_spec (es : Entries) (cx : Ctx) (st st' : St) (t : Target) (rn : RNode)
    (x : Option (Target × Resolver × Node)) (hi : AInv es st)
    (h : resolveCore es cx st t = .ok (st', rn, x)) : CoreOut es st st' rn x := by
  unfold resolveCore at h
  split at h
  · cases h
  · rename_i st1 id lb hl
    cases h
    obtain ⟨s, hm⟩ := resolveLoop_same es cx st t st [] t _ _ st' _ hl
    have hi' := hi.of_same s
    refine ⟨hi', fun i h => by rw [s.retained]; exact h, ?_, s.nodes, s.rmemo, fun t' r node e => by cases e⟩
    rw [s.retained]
    exact hi.memo_ret id lb (hm id lb rfl)
  · rename_i st1 t' r hl
    obtain ⟨s, _⟩ := resolveLoop_same es cx st t st [] t _ _ st1 _ hl
    have hi1 := hi.of_same s
    split at h
    · cases h
    · rename_i st2 node hf
      cases h
      obtain ⟨hn, hm, hr, _, _, hnode⟩ := finishResolve_spec es cx st1 st' t' r node hf
      refine ⟨hi1.finish hf, ?_, ?_, hn.trans s.nodes, hm.trans s.rmemo, ?_⟩
      · intro i h; rw [hr, s.retained]; exact List.mem_cons_of_mem _ h
      · rw [hr]; exact List.mem_cons_self
      · intro t'' r'' node'' e
        cases e
        exact ⟨rfl, hnode⟩

theorem failoverTargets_same (cx : Ctx) (st : St) (t : Target) (os : List Opts) :
    Same st (failoverTargets cx st t os).1 := by
  induction os generalizing st with
  | nil => exact Same.refl st
  | cons o os ih =>
    simp only [failoverTargets]
    exact (newTarget_same cx st _).trans (ih _)

theorem failoverResolve_spec (es : Entries) (cx : Ctx) (st st' : St) (fts : List Target) (ids : List String)
    (hi : AInv es st) (h : failoverResolve es cx st fts = .ok (st', ids)) :
    AInv es st' ∧ (∀ id ∈ st.retained, id ∈ st'.retained) ∧ st'.nodes = st.nodes ∧ st'.rmemo = st.rmemo ∧
    ∀ i ∈ ids, i ∈ st'.retained := by
  induction fts generalizing st ids with
  | nil => simp only [failoverResolve, Except.ok.injEq, Prod.mk.injEq] at h; obtain ⟨rfl, rfl⟩ := h
           exact ⟨hi, fun _ h => h, rfl, rfl, fun i hi' => nomatch hi'⟩
  | cons ft rest ih =>
    rw [failoverResolve] at h
    split at h
    · cases h
    · rename_i st1 rn x hc
      have c := resolveCore_spec es cx st st1 ft rn x hi hc
      split at h
      · cases h
      · rename_i st2 ids' hr
        cases h
        obtain ⟨i2, m2, n2, r2, a2⟩ := ih st1 ids' c.inv hr
        refine ⟨i2, fun i h => m2 i (c.mono i h), n2.trans c.nodes, r2.trans c.rmemo, ?_⟩
        intro i hmem
        rcases List.mem_cons.mp hmem with rfl | hmem
        · exact m2 _ c.ret
        · exact a2 i hmem

theorem resolverNode_spec (es : Entries) (cx : Ctx) (st st' : St) (t : Target) (rn : RNode)
    (hi : AInv es st) (h : resolverNode es cx st t = .ok (st', rn)) :
    AInv es st' ∧ ∀ id ∈ st.retained, id ∈ st'.retained := by
  unfold resolverNode at h
  split at h
  · cases h
  · rename_i st1 rn1 hc
    cases h
    have c := resolveCore_spec es cx st st' t rn _ hi hc
    exact ⟨c.inv, c.mono⟩
  · rename_i st1 rn1 t' r node hc
    have c := resolveCore_spec es cx st st1 t rn1 _ hi hc
    obtain ⟨hid, d, ct, rt, lb, hnode⟩ := c.fresh t' r node rfl
    simp only at h
    -- the state with the memo mark
    have hi2 : AInv es { st1 with rmemo := (t'.id, r.lb) :: st1.rmemo } := by
      refine ⟨?_, c.inv.ret_loaded, c.inv.node_tgt, c.inv.node_ne, c.inv.node_rt⟩
      intro id lb' hmem
      rcases List.mem_cons.mp hmem with e | hmem
      · cases e; rw [← hid]; exact c.ret
      · exact c.inv.memo_ret id lb' hmem
    have s3 := failoverTargets_same cx { st1 with rmemo := (t'.id, r.lb) :: st1.rmemo } t' (failoverOpts r t')
    have hi3 := hi2.of_same s3
    split at h
    · cases h
    · rename_i st4 ids hf
      cases h
      obtain ⟨i4, m4, n4, r4, a4⟩ := failoverResolve_spec es cx _ st4 _ ids hi3 hf
      have hret1 : ∀ id ∈ st1.retained, id ∈ st4.retained := by
        intro id h; apply m4; rw [s3.retained]; exact h
      refine ⟨⟨i4.memo_ret, i4.ret_loaded, ?_, ?_, ?_⟩, fun id h => hret1 id (c.mono id h)⟩
      · intro k d' ct' rt' tgt fo lb' hmem
        simp only [List.mem_append, List.mem_singleton] at hmem
        rcases hmem with hmem | hmem
        · exact i4.node_tgt k d' ct' rt' tgt fo lb' hmem
        · subst hnode
          simp only [Node.withFailover, Prod.mk.injEq, Node.resolver.injEq] at hmem
          obtain ⟨_, _, _, _, rfl, rfl, _⟩ := hmem
          exact ⟨hret1 _ (hid ▸ c.ret), a4⟩
      · intro hes k ss lb' hmem
        simp only [List.mem_append, List.mem_singleton] at hmem
        rcases hmem with hmem | hmem
        · exact i4.node_ne hes k ss lb' hmem
        · subst hnode
          simp [Node.withFailover] at hmem
      · intro k rs hmem
        simp only [List.mem_append, List.mem_singleton] at hmem
        rcases hmem with hmem | hmem
        · exact i4.node_rt k rs hmem
        · subst hnode
          simp [Node.withFailover] at hmem

theorem AInv.flag {es : Entries} {st st' : St} (h : AInv es st) (hn : st'.nodes = st.nodes) (hm : st'.rmemo = st.rmemo)
    (hr : st'.retained = st.retained) (hl : st'.loaded = st.loaded) : AInv es st' :=
  h.of_same ⟨hn, hm, hr, fun k hk => by rw [hl]; exact hk⟩

theorem splitter_spec (es : Entries) (cx : Ctx) :
    (∀ (marks : List String) (st : St) (name : String), ∀ dm st' key, AInv es st →
        splitterNode es cx marks st name = .ok (dm, st', key) →
        AInv es st' ∧ ∀ id ∈ st.retained, id ∈ st'.retained) ∧
    (∀ (marks : List String) (st : St) (name : String) (splits : List Split) (lb : Option String),
        ∀ dm st' cs lb', AInv es st → splitLoop es cx marks st name splits lb = .ok (dm, st', cs, lb') →
        AInv es st' ∧ (∀ id ∈ st.retained, id ∈ st'.retained) ∧ cs.length = splits.length) := by
  apply splitterNode.mutual_induct es cx
    (motive1 := fun marks st name => ∀ dm st' key, AInv es st →
        splitterNode es cx marks st name = .ok (dm, st', key) →
        AInv es st' ∧ ∀ id ∈ st.retained, id ∈ st'.retained)
    (motive2 := fun marks st name splits lb => ∀ dm st' cs lb', AInv es st →
        splitLoop es cx marks st name splits lb = .ok (dm, st', cs, lb') →
        AInv es st' ∧ (∀ id ∈ st.retained, id ∈ st'.retained) ∧ cs.length = splits.length)
  · intro marks st name hm dm st' key hi h
    rw [splitterNode] at h
    simp only [hm, dite_true, Except.ok.injEq, Prod.mk.injEq] at h
    obtain ⟨_, rfl, _⟩ := h
    exact ⟨hi, fun _ h => h⟩
  · intro marks st name hm hs dm st' key hi h
    rw [splitterNode] at h
    simp only [hm, dite_false] at h
    split at h
    · simp only [Except.ok.injEq, Prod.mk.injEq] at h
      obtain ⟨_, rfl, _⟩ := h
      exact ⟨hi, fun _ h => h⟩
    · rename_i splits hs'; rw [hs] at hs'; cases hs'
  · intro marks st name hm splits hs hd dm st' key hi h
    rw [splitterNode] at h
    simp only [hm, dite_false] at h
    split at h
    · rename_i hs'; rw [hs] at hs'; cases hs'
    · rename_i splits' hs'
      simp only [hd, if_true, Except.ok.injEq, Prod.mk.injEq] at h
      obtain ⟨_, rfl, _⟩ := h
      exact ⟨hi.flag rfl rfl rfl rfl, fun _ h => h⟩
  · -- splitLoop failed
    intro marks st name hm splits hs hd e he ih dm st' key hi h
    rw [splitterNode] at h
    simp only [hm, dite_false] at h
    split at h
    · rename_i hs'; rw [hs] at hs'; cases hs'
    · rename_i splits' hs'
      rw [hs] at hs'; cases hs'
      simp only [hd, he] at h
      cases h
  · -- splitLoop succeeded: the splitter node is recorded
    intro marks st name hm splits hs hd dm1 st1 cs lb he ih dm st' key hi h
    rw [splitterNode] at h
    simp only [hm, dite_false] at h
    split at h
    · rename_i hs'; rw [hs] at hs'; cases hs'
    · rename_i splits' hs'
      rw [hs] at hs'; cases hs'
      simp only [hd, he, Except.ok.injEq, Prod.mk.injEq] at h
      obtain ⟨_, rfl, _⟩ := h
      obtain ⟨i1, m1, hlen⟩ := ih dm1 st1 cs lb hi he
      refine ⟨⟨i1.memo_ret, i1.ret_loaded, ?_, ?_, ?_⟩, m1⟩
      · intro k d ct rt tgt fo lb' hmem
        simp only [List.mem_append, List.mem_singleton] at hmem
        rcases hmem with hmem | hmem
        · exact i1.node_tgt k d ct rt tgt fo lb' hmem
        · simp at hmem
      · intro hes k ss lb' hmem
        simp only [List.mem_append, List.mem_singleton] at hmem
        rcases hmem with hmem | hmem
        · exact i1.node_ne hes k ss lb' hmem
        · simp only [Prod.mk.injEq, Node.splitter.injEq] at hmem
          obtain ⟨_, rfl, _⟩ := hmem
          intro e0
          have := hes name splits hs
          rw [e0] at hlen
          cases splits with
          | nil => exact this rfl
          | cons a b => simp at hlen
      · intro k rs hmem
        simp only [List.mem_append, List.mem_singleton] at hmem
        rcases hmem with hmem | hmem
        · exact i1.node_rt k rs hmem
        · simp at hmem
  · intro marks st name lb dm st' cs lb' hi h
    rw [splitLoop] at h
    simp only [Except.ok.injEq, Prod.mk.injEq] at h
    obtain ⟨_, rfl, rfl, _⟩ := h
    exact ⟨hi, fun _ h => h, rfl⟩
  all_goals
    intro marks st name lb s rest svc
  · -- the recursive splitter call failed
    intro e hc ih1 dm st' cs lb' hi h
    rw [splitLoop.eq_def] at h
    simp only [dite_eq_ite, svc] at hc
    simp only [hc] at h
    cases h
  · -- child splitter, rest failed
    intro dm1 st1 key hc e hr ih1 ih2 dm st' cs lb' hi h
    rw [splitLoop.eq_def] at h
    simp only [dite_eq_ite, svc] at hc
    simp only [hc, hr] at h
    cases h
  · -- child splitter, rest succeeded
    intro dm1 st1 key hc dm2 st2 cs2 lb2 hr ih1 ih2 dm st' cs lb' hi h
    rw [splitLoop.eq_def] at h
    simp only [dite_eq_ite, svc] at hc
    simp only [hc, hr, Except.ok.injEq, Prod.mk.injEq] at h
    obtain ⟨_, rfl, rfl, _⟩ := h
    have c1 : AInv es st1 ∧ ∀ id ∈ st.retained, id ∈ st1.retained := by
      split at hc
      · exact ih1 dm1 st1 (some key) hi hc
      · cases hc
    obtain ⟨i2, m2, l2⟩ := ih2 dm2 _ cs2 lb2 c1.1 hr
    exact ⟨i2, fun id h => m2 id (c1.2 id h), by simp [l2]⟩
  · -- resolver leg failed
    intro dm1 st1 hc nt e hr ih1 dm st' cs lb' hi h
    rw [splitLoop.eq_def] at h
    simp only [dite_eq_ite, svc] at hc
    simp only [nt, svc] at hr
    simp only [hc, hr] at h
    cases h
  · -- resolver leg ok, rest failed
    intro dm1 st1 hc nt st2 rn hr lb1 e hr2 ih1 ih2 dm st' cs lb' hi h
    rw [splitLoop.eq_def] at h
    simp only [dite_eq_ite, svc] at hc
    simp only [nt, svc] at hr
    simp only [lb1, dite_eq_ite] at hr2
    simp only [hc, hr, hr2] at h
    cases h
  · -- resolver leg ok, rest ok
    intro dm1 st1 hc nt st2 rn hr lb1 dm2 st3 cs2 lb2 hr2 ih1 ih2 dm st' cs lb' hi h
    rw [splitLoop.eq_def] at h
    simp only [dite_eq_ite, svc] at hc
    simp only [nt, svc] at hr
    simp only [lb1, dite_eq_ite] at hr2
    simp only [hc, hr, hr2, Except.ok.injEq, Prod.mk.injEq] at h
    obtain ⟨_, rfl, rfl, _⟩ := h
    have c1 : AInv es st1 ∧ ∀ id ∈ st.retained, id ∈ st1.retained := by
      split at hc
      · exact ih1 dm1 st1 none hi hc
      · simp only [Except.ok.injEq, Prod.mk.injEq] at hc
        obtain ⟨_, rfl, _⟩ := hc
        exact ⟨hi, fun _ h => h⟩
    have sN := newTarget_same cx st1 { svc := dflt s.svc name, subset := s.subset, ns := "default", part := "default" }
    obtain ⟨iR, mR⟩ := resolverNode_spec es cx _ st2 _ rn (c1.1.of_same sN) hr
    obtain ⟨i2, m2, l2⟩ := ih2 dm2 _ cs2 lb2 iR hr2
    refine ⟨i2, fun id h => m2 id (mR id ?_), by simp [l2]⟩
    rw [sN.retained]; exact c1.2 id h

theorem splitterOrResolver_spec (es : Entries) (cx : Ctx) (marks : List String) (st st' : St)
    (t : Target) (dm : List String) (key : String) (hi : AInv es st)
    (h : splitterOrResolver es cx marks st t = .ok (dm, st', key)) : AInv es st' := by
  unfold splitterOrResolver at h
  split at h
  · cases h
  · rename_i dm1 st1 k hs
    cases h
    exact ((splitter_spec es cx).1 marks st t.svc _ _ _ hi hs).1
  · rename_i dm1 st1 hs
    have i1 := ((splitter_spec es cx).1 marks st t.svc _ _ _ hi hs).1
    split at h
    · cases h
    · rename_i st2 rn hr
      cases h
      exact (resolverNode_spec es cx st1 _ t rn i1 hr).1

theorem routeLoop_spec (es : Entries) (cx : Ctx) (marks : List String) (st st' : St)
    (routes : List Route) (dm : List String) (rs : List (String × String)) (hi : AInv es st)
    (h : routeLoop es cx marks st routes = .ok (dm, st', rs)) : AInv es st' := by
  induction routes generalizing marks st dm rs with
  | nil => simp only [routeLoop, Except.ok.injEq, Prod.mk.injEq] at h; obtain ⟨_, rfl, _⟩ := h; exact hi
  | cons rt rest ih =>
    rw [routeLoop] at h
    have sN := newTarget_same cx st ⟨dflt rt.dest.svc cx.svc, rt.dest.subset, dflt rt.dest.ns "default", dflt rt.dest.part "default", "", ""⟩
    have iN := hi.of_same sN
    split at h
    · cases h
    · rename_i dm1 st1 key hr
      have i1 : AInv es st1 := by
        split at hr
        · exact splitterOrResolver_spec es cx _ _ _ _ _ _ iN hr
        · split at hr
          · cases hr
          · rename_i st2 rn hrn
            simp only [Except.ok.injEq, Prod.mk.injEq] at hr
            obtain ⟨_, rfl, _⟩ := hr
            exact (resolverNode_spec es cx _ _ _ rn iN hrn).1
      split at h
      · cases h
      · rename_i dm2 st2 rs2 hl
        cases h
        exact ih _ _ _ _ i1 hl

theorem AInv.empty {es : Entries} (st : St) (hn : st.nodes = []) (hm : st.rmemo = []) (hr : st.retained = []) : AInv es st :=
  ⟨fun id lb h => (by rw [hm] at h; cases h), fun id h => (by rw [hr] at h; cases h),
   fun k d ct rt tgt fo lb h => (by rw [hn] at h; cases h), fun _ k ss lb h => (by rw [hn] at h; cases h), fun k rs h => (by rw [hn] at h; cases h)⟩

theorem assemble_spec (es : Entries) (cx : Ctx) (st : St) (start : String)
    (h : assemble es cx = .ok (st, start)) : AInv es st := by
  unfold assemble at h
  split at h
  · rename_i routes hr
    split at h
    · simp only at h
      split at h
      · cases h
      · rename_i dm st1 key hs
        cases h
        exact splitterOrResolver_spec es cx _ _ _ _ _ _
          ((AInv.empty _ rfl rfl rfl).of_same (newTarget_same cx _ _)) hs
    · split at h
      · cases h
      · rename_i p hp
        split at h
        · cases h
        · rename_i dm st1 rs hl
          have i1 := routeLoop_spec es cx [] _ st1 routes dm rs (AInv.empty _ rfl rfl rfl) hl
          simp only at h
          split at h
          · cases h
          · rename_i dm2 st2 key hs
            cases h
            have i2 := splitterOrResolver_spec es cx _ _ _ _ _ _ (i1.of_same (newTarget_same cx _ _)) hs
            refine ⟨i2.memo_ret, i2.ret_loaded, ?_, ?_, ?_⟩
            · intro k d ct rt tgt fo lb hmem
              simp only [List.mem_append, List.mem_singleton] at hmem
              rcases hmem with hmem | hmem
              · exact i2.node_tgt k d ct rt tgt fo lb hmem
              · simp at hmem
            · intro hes k ss lb hmem
              simp only [List.mem_append, List.mem_singleton] at hmem
              rcases hmem with hmem | hmem
              · exact i2.node_ne hes k ss lb hmem
              · simp at hmem
            · intro k rs' hmem
              simp only [List.mem_append, List.mem_singleton] at hmem
              rcases hmem with hmem | hmem
              · exact i2.node_rt k rs' hmem
              · simp only [Prod.mk.injEq, Node.router.injEq] at hmem
                rw [hmem.2]; simp
  · simp only at h
    split at h
    · cases h
    · rename_i dm st1 key hs
      cases h
      exact splitterOrResolver_spec es cx _ _ _ _ _ _
        ((AInv.empty _ rfl rfl rfl).of_same (newTarget_same cx _ _)) hs

end CV.Chain
