/-
The catalog invariant of one `State` of the shared store model (no orphans) and what every base
function of the catalog does to the catalog tables (used by C07).

`NoOrphan s`: every service row, check row and session of `s` has its node; every service-scoped check
has its service instance (primary-key lookup, as the code does it); node names of service and check rows
are NUL-free in their lower-cased spelling (`NF`, which makes the two-part keys injective).
-/
import CV.Proofs.StoreCatFrame
namespace CV.Store
open CV

structure NoOrphan (s : State) : Prop where
  svc_node : ∀ v ∈ s.svcs, (nodeFind s v.node).isSome = true
  chk_node : ∀ c ∈ s.chks, (nodeFind s c.node).isSome = true
  chk_svc : ∀ c ∈ s.chks, c.svcId ≠ "" → (svcFind s c.node c.svcId).isSome = true
  sess_node : ∀ x ∈ s.sessions, (nodeFind s x.node).isSome = true
  nf_svc : ∀ v ∈ s.svcs, NF v.node
  nf_chk : ∀ c ∈ s.chks, NF c.node
  nf_node : ∀ n ∈ s.nodes, NF n.name
  /-- nodes and services are strictly sorted by primary key (one row per key) -/
  srt_nodes : SortedBy Node.pk s.nodes
  srt_svcs : SortedBy Svc.pk s.svcs

theorem NoOrphan.empty : NoOrphan State.empty :=
  ⟨by simp [State.empty], by simp [State.empty], by simp [State.empty], by simp [State.empty],
   by simp [State.empty], by simp [State.empty], by simp [State.empty], sortedBy_nil _, sortedBy_nil _⟩

theorem nodeFind_congr {s s' : State} (h : s'.nodes = s.nodes) (n : String) : nodeFind s' n = nodeFind s n := by
  unfold nodeFind; rw [h]

theorem svcFind_congr {s s' : State} (h : s'.svcs = s.svcs) (n i : String) : svcFind s' n i = svcFind s n i := by
  unfold svcFind; rw [h]

theorem NoOrphan.of_view {s s' : State} (h : catView s' = catView s) (hs : NoOrphan s) : NoOrphan s' := by
  have e1 := catView_nodes h; have e2 := catView_svcs h; have e3 := catView_chks h; have e4 := catView_sessions h
  refine ⟨?_, ?_, ?_, ?_, ?_, ?_, ?_, e1 ▸ hs.srt_nodes, e2 ▸ hs.srt_svcs⟩
  · intro v hv; rw [nodeFind_congr e1]; exact hs.svc_node v (e2 ▸ hv)
  · intro c hc; rw [nodeFind_congr e1]; exact hs.chk_node c (e3 ▸ hc)
  · intro c hc hne; rw [svcFind_congr e2]; exact hs.chk_svc c (e3 ▸ hc) hne
  · intro x hx; rw [nodeFind_congr e1]; exact hs.sess_node x (e4 ▸ hx)
  · intro v hv; exact hs.nf_svc v (e2 ▸ hv)
  · intro c hc; exact hs.nf_chk c (e3 ▸ hc)
  · intro n hn; exact hs.nf_node n (e1 ▸ hn)

theorem NoOrphan.of_casRel {s s' : State} (h : CasRel s s') (hs : NoOrphan s) : NoOrphan s' := by
  refine ⟨?_, ?_, ?_, ?_, ?_, ?_, fun n hn => hs.nf_node n (h.nodes ▸ hn), h.nodes ▸ hs.srt_nodes, h.svcs ▸ hs.srt_svcs⟩
  · intro v hv; rw [nodeFind_congr h.nodes]; exact hs.svc_node v (h.svcs ▸ hv)
  · intro c hc
    obtain ⟨c0, h0, hsame⟩ := h.chks c hc
    rw [nodeFind_congr h.nodes, hsame.1]; exact hs.chk_node c0 h0
  · intro c hc hne
    obtain ⟨c0, h0, hsame⟩ := h.chks c hc
    rw [svcFind_congr h.svcs, hsame.1, hsame.2.2]
    exact hs.chk_svc c0 h0 (by rw [← hsame.2.2]; exact hne)
  · intro x hx; rw [nodeFind_congr h.nodes]; exact hs.sess_node x (h.sess x hx)
  · intro v hv; exact hs.nf_svc v (h.svcs ▸ hv)
  · intro c hc
    obtain ⟨c0, h0, hsame⟩ := h.chks c hc
    rw [hsame.1]; exact hs.nf_chk c0 h0

theorem NoOrphan.of_ensSpec {s s' : State} {hc : Chk} (h : EnsSpec s hc s') (hnf : NF hc.node) (hs : NoOrphan s) :
    NoOrphan s' := by
  refine ⟨?_, ?_, ?_, ?_, ?_, ?_, fun n hn => hs.nf_node n (h.nodes ▸ hn), h.nodes ▸ hs.srt_nodes, h.svcs ▸ hs.srt_svcs⟩
  · intro v hv; rw [nodeFind_congr h.nodes]; exact hs.svc_node v (h.svcs ▸ hv)
  · intro c hcm
    rw [nodeFind_congr h.nodes]
    rcases h.chks c hcm with ⟨c0, h0, hsame⟩ | hsame
    · rw [hsame.1]; exact hs.chk_node c0 h0
    · rw [hsame.1]; exact h.node_found
  · intro c hcm hne
    rw [svcFind_congr h.svcs]
    rcases h.chks c hcm with ⟨c0, h0, hsame⟩ | hsame
    · rw [hsame.1, hsame.2.2]; exact hs.chk_svc c0 h0 (by rw [← hsame.2.2]; exact hne)
    · rw [hsame.1, hsame.2.2]; exact h.svc_found (by rw [← hsame.2.2]; exact hne)
  · intro x hx; rw [nodeFind_congr h.nodes]; exact hs.sess_node x (h.sess x hx)
  · intro v hv; exact hs.nf_svc v (h.svcs ▸ hv)
  · intro c hcm
    rcases h.chks c hcm with ⟨c0, h0, hsame⟩ | hsame
    · rw [hsame.1]; exact hs.nf_chk c0 h0
    · rw [hsame.1]; exact hnf

/-! ### deletions -/

theorem chkPk_of_same {a b : Chk} (h : ChkSame a b) : a.pk = b.pk := by
  unfold Chk.pk; rw [h.1, h.2.1]

theorem catView_deleteCheckPre (s : State) (idx : Nat) (node id : String) (x : Chk) :
    catView (deleteCheckPre s idx node id x) = (s.nodes, s.svcs, terase Chk.pk (pk2 node id) s.chks, s.sessions) := by
  unfold deleteCheckPre
  simp only
  split
  · rfl
  · have h := catView_updateAll s idx x.node
    simp only [catView, Prod.mk.injEq] at h
    obtain ⟨h1, h2, h3, h4⟩ := h
    simp only [catView, State.maxIdx2, State.maxIdx]
    rw [h1, h2, h3, h4]

/-- `deleteCheck`: nodes and services untouched; every remaining check row descends from a row with
    another primary key -/
theorem deleteCheck_spec {s s' : State} {idx : Nat} {node id : String} (hr : deleteCheck s idx node id = .ok s') :
    s'.nodes = s.nodes ∧ s'.svcs = s.svcs ∧ (∀ x ∈ s'.sessions, x ∈ s.sessions) ∧
    ∀ c' ∈ s'.chks, ∃ c ∈ s.chks, ChkSame c' c ∧ c.pk ≠ pk2 node id := by
  simp only [deleteCheck] at hr
  split at hr
  · next hnone =>
    simp at hr; subst hr
    exact ⟨rfl, rfl, fun _ h => h, fun c hc => ⟨c, hc, ChkSame.rfl' c, tfind_none hnone c hc⟩⟩
  · next x hx =>
    have hv := catView_deleteCheckPre s idx node id x
    generalize deleteCheckPre s idx node id x = s2 at hr hv
    simp only [catView, Prod.mk.injEq] at hv
    obtain ⟨e1, e2, e3, e4⟩ := hv
    have hrel : CasRel s2 s' :=
      foldE_rel CasRel CasRel.refl (fun a b c => CasRel.trans) _ (fun st sid st' h => casRel_deleteSession h) _ _ _ hr
    refine ⟨hrel.nodes.trans e1, hrel.svcs.trans e2, fun y hy => e4 ▸ hrel.sess y hy, ?_⟩
    intro c' hc'
    obtain ⟨c, hcm, hsame⟩ := hrel.chks c' hc'
    rw [e3] at hcm
    obtain ⟨h1, h2⟩ := mem_terase.mp hcm
    exact ⟨c, h1, hsame, h2⟩

/-- the check loop of `deleteService` / `deleteNode` -/
theorem foldE_deleteCheck_spec {idx : Nat} {node : String} : ∀ (l : List Chk) (s s' : State),
    foldE (fun st (c : Chk) => deleteCheck st idx node c.id) l s = .ok s' →
    s'.nodes = s.nodes ∧ s'.svcs = s.svcs ∧ (∀ x ∈ s'.sessions, x ∈ s.sessions) ∧
    ∀ c' ∈ s'.chks, ∃ c ∈ s.chks, ChkSame c' c ∧ ∀ x ∈ l, c.pk ≠ pk2 node x.id := by
  intro l
  induction l with
  | nil =>
    intro s s' h
    simp [foldE] at h; subst h
    exact ⟨rfl, rfl, fun _ h => h, fun c hc => ⟨c, hc, ChkSame.rfl' c, by simp⟩⟩
  | cons b bs ih =>
    intro s s' h
    simp only [foldE] at h
    split at h
    · next s1 h1 =>
      obtain ⟨a1, a2, a3, a4⟩ := deleteCheck_spec h1
      obtain ⟨b1, b2, b3, b4⟩ := ih s1 s' h
      refine ⟨b1.trans a1, b2.trans a2, fun x hx => a3 x (b3 x hx), ?_⟩
      intro c' hc'
      obtain ⟨c1, hc1, hs1, hn1⟩ := b4 c' hc'
      obtain ⟨c, hc, hs, hn⟩ := a4 c1 hc1
      refine ⟨c, hc, hs1.trans hs, ?_⟩
      intro x hx
      rcases List.mem_cons.mp hx with rfl | hx
      · exact hn
      · rw [← chkPk_of_same hs]; exact hn1 x hx
    · simp at h

theorem catView_deleteServicePost (s : State) (idx : Nat) (node id : String) (v : Svc) :
    catView (deleteServicePost s idx node id v) = (s.nodes, terase Svc.pk (pk2 node id) s.svcs, s.chks, s.sessions) := by
  unfold deleteServicePost
  simp only
  split <;> simp [catView, State.maxIdx2, State.maxIdx, State.delIdx]

/-- `deleteService`: the row with that primary key is erased, nodes untouched, and no remaining check
    descends from a check that was bound to the instance -/
theorem deleteService_spec {s s' : State} {idx : Nat} {node id : String} (hr : deleteService s idx node id = .ok s') :
    s'.nodes = s.nodes ∧ s'.svcs = terase Svc.pk (pk2 node id) s.svcs ∧ (∀ x ∈ s'.sessions, x ∈ s.sessions) ∧
    ∀ c' ∈ s'.chks, ∃ c ∈ s.chks, ChkSame c' c ∧
      ((svcFind s node id).isSome = true → ¬ (lc c.node = lc node ∧ lc c.svcId = lc id)) := by
  simp only [deleteService] at hr
  split at hr
  · next hnone =>
    simp at hr; subst hr
    refine ⟨rfl, (terase_of_tfind_none hnone).symm, fun _ h => h, fun c hc => ⟨c, hc, ChkSame.rfl' c, ?_⟩⟩
    intro h; rw [hnone] at h; simp at h
  · next v hv =>
    split at hr
    · simp at hr
    · next s1 hfold =>
      simp at hr; subst hr
      obtain ⟨a1, a2, a3, a4⟩ := foldE_deleteCheck_spec _ _ _ hfold
      have hp := catView_deleteServicePost s1 idx node id v
      simp only [catView, Prod.mk.injEq] at hp
      obtain ⟨p1, p2, p3, p4⟩ := hp
      refine ⟨p1.trans a1, by rw [p2, a2], fun x hx => a3 x (p4 ▸ hx), ?_⟩
      intro c' hc'
      rw [p3] at hc'
      obtain ⟨c, hc, hsame, hne⟩ := a4 c' hc'
      refine ⟨c, hc, hsame, fun _ hmatch => ?_⟩
      have hmem : c ∈ s.chks.filter (fun c => lc c.node == lc node && lc c.svcId == lc id) := by
        simp [List.mem_filter, hc, hmatch.1, hmatch.2]
      exact hne c hmem (pk2_congr hmatch.1 rfl)


theorem nodeFind_isSome_of_mem {s : State} {n : Node} {name : String} (h : n ∈ s.nodes) (hk : lc n.name = lc name) :
    (nodeFind s name).isSome = true := by
  unfold nodeFind
  exact tfind_isSome_of_mem h (by unfold Node.pk; exact hk)

theorem noOrphan_deleteCheck {s s' : State} {idx : Nat} {node id : String}
    (hr : deleteCheck s idx node id = .ok s') (hs : NoOrphan s) : NoOrphan s' := by
  obtain ⟨a1, a2, a3, a4⟩ := deleteCheck_spec hr
  exact NoOrphan.of_casRel ⟨a1, a2, fun c hc => by obtain ⟨c0, h0, hs0, _⟩ := a4 c hc; exact ⟨c0, h0, hs0⟩, a3⟩ hs

theorem svcFind_terase_of_ne {s : State} {node id n i : String} (h : pk2 n i ≠ pk2 node id) (t : List Svc) :
    tfind Svc.pk (pk2 n i) (terase Svc.pk (pk2 node id) t) = tfind Svc.pk (pk2 n i) t :=
  tfind_terase_ne _ _ _ h

theorem noOrphan_deleteService {s s' : State} {idx : Nat} {node id : String}
    (hr : deleteService s idx node id = .ok s') (hnf : NF node) (hs : NoOrphan s) : NoOrphan s' := by
  obtain ⟨a1, a2, a3, a4⟩ := deleteService_spec hr
  refine ⟨?_, ?_, ?_, ?_, ?_, ?_, fun n hn => hs.nf_node n (a1 ▸ hn), a1 ▸ hs.srt_nodes,
    by rw [a2]; exact sortedBy_terase _ _ hs.srt_svcs⟩
  · intro v hv
    rw [a2] at hv
    rw [nodeFind_congr a1]; exact hs.svc_node v (mem_terase.mp hv).1
  · intro c hc
    obtain ⟨c0, h0, hsame, _⟩ := a4 c hc
    rw [nodeFind_congr a1, hsame.1]; exact hs.chk_node c0 h0
  · intro c hc hne
    obtain ⟨c0, h0, hsame, hnm⟩ := a4 c hc
    have hne0 : c0.svcId ≠ "" := by rw [← hsame.2.2]; exact hne
    have h1 := hs.chk_svc c0 h0 hne0
    rw [hsame.1, hsame.2.2]
    unfold svcFind
    rw [a2]
    by_cases hk : pk2 c0.node c0.svcId = pk2 node id
    · -- the check names the deleted instance: it would have been deleted with it
      have hfound : (svcFind s node id).isSome = true := by unfold svcFind; rw [← hk]; exact h1
      obtain ⟨e1, e2⟩ := pk2_inj (hs.nf_chk c0 h0) hnf hk
      exact absurd ⟨e1, e2⟩ (hnm hfound)
    · rw [tfind_terase_ne _ _ _ hk]; exact h1
  · intro x hx; rw [nodeFind_congr a1]; exact hs.sess_node x (a3 x hx)
  · intro v hv; rw [a2] at hv; exact hs.nf_svc v (mem_terase.mp hv).1
  · intro c hc
    obtain ⟨c0, h0, hsame, _⟩ := a4 c hc
    rw [hsame.1]; exact hs.nf_chk c0 h0

/-! ### `deleteNode` -/

theorem catView_deleteNodePost (s : State) (idx : Nat) (name : String) :
    catView (deleteNodePost s idx name) = (terase Node.pk (lc name) s.nodes, s.svcs, s.chks, s.sessions) := by
  unfold deleteNodePost
  simp [catView, State.maxIdx2, State.maxIdx, State.delIdx]

/-- the service loop of `deleteNode` -/
theorem foldE_deleteService_spec {idx : Nat} {node : String} : ∀ (l : List Svc) (s s' : State),
    foldE (fun st (v : Svc) => deleteService st idx node v.id) l s = .ok s' →
    s'.nodes = s.nodes ∧ (∀ x ∈ s'.sessions, x ∈ s.sessions) ∧
    (∀ v' ∈ s'.svcs, v' ∈ s.svcs ∧ ∀ w ∈ l, v'.pk ≠ pk2 node w.id) ∧
    (∀ v ∈ s.svcs, (∀ w ∈ l, v.pk ≠ pk2 node w.id) → v ∈ s'.svcs) ∧
    (∀ c' ∈ s'.chks, ∃ c ∈ s.chks, ChkSame c' c) ∧ s'.svcs.Sublist s.svcs := by
  intro l
  induction l with
  | nil =>
    intro s s' h
    simp [foldE] at h; subst h
    exact ⟨rfl, fun _ h => h, fun v hv => ⟨hv, by simp⟩, fun v hv _ => hv, fun c hc => ⟨c, hc, ChkSame.rfl' c⟩,
      List.Sublist.refl _⟩
  | cons b bs ih =>
    intro s s' h
    simp only [foldE] at h
    split at h
    · next s1 h1 =>
      obtain ⟨a1, a2, a3, a4⟩ := deleteService_spec h1
      obtain ⟨b1, b2, b3, b4, b5, b6⟩ := ih s1 s' h
      refine ⟨b1.trans a1, fun x hx => a3 x (b2 x hx), ?_, ?_, ?_, b6.trans (by rw [a2]; exact terase_sublist _ _ _)⟩
      · intro v' hv'
        obtain ⟨m1, m2⟩ := b3 v' hv'
        rw [a2] at m1
        obtain ⟨m3, m4⟩ := mem_terase.mp m1
        refine ⟨m3, ?_⟩
        intro w hw
        rcases List.mem_cons.mp hw with rfl | hw
        · exact m4
        · exact m2 w hw
      · intro v hv hne
        apply b4 v
        · rw [a2]; exact mem_terase.mpr ⟨hv, hne b List.mem_cons_self⟩
        · intro w hw; exact hne w (List.mem_cons_of_mem _ hw)
      · intro c' hc'
        obtain ⟨c1, hc1, hs1⟩ := b5 c' hc'
        obtain ⟨c, hc, hs, _⟩ := a4 c1 hc1
        exact ⟨c, hc, hs1.trans hs⟩
    · simp at h

/-- the session loop at the end of `deleteNode` -/
theorem foldE_deleteSession_rel {idx : Nat} (l : List String) (s s' : State)
    (h : foldE (fun st sid => deleteSession st idx sid) l s = .ok s') : CasRel s s' :=
  foldE_rel CasRel CasRel.refl (fun a b c => CasRel.trans) _ (fun st sid st' h => casRel_deleteSession h) _ _ _ h

theorem mem_sessions_after_delete {s s' : State} {idx : Nat} {id : String}
    (hr : deleteSession s idx id = .ok s') : ∀ x ∈ s'.sessions, x ∈ s.sessions ∧ x.pk ≠ lc id := by
  intro x hx
  refine ⟨(casRel_deleteSession hr).sess x hx, ?_⟩
  unfold deleteSession at hr
  generalize fuelFor s = n at hr
  cases n with
  | zero =>
    rw [deleteSessionF] at hr
    split at hr
    · next hnone => simp at hr; subst hr; exact tfind_none hnone x hx
    · simp at hr
  | succ n =>
    rw [deleteSessionF] at hr
    split at hr
    · next hnone => simp at hr; subst hr; exact tfind_none hnone x hx
    · next sess hf =>
      simp only at hr
      have hv : catView (dropSessionRefs (invalidateKeys
          { s with sessions := terase Sess.pk (lc id) s.sessions, index := idxSet s.index "sessions" idx } idx sess) idx id)
          = (s.nodes, s.svcs, s.chks, terase Sess.pk (lc id) s.sessions) := by
        rw [catView_dropSessionRefs, catView_invalidateKeys]; rfl
      generalize dropSessionRefs (invalidateKeys
          { s with sessions := terase Sess.pk (lc id) s.sessions, index := idxSet s.index "sessions" idx } idx sess) idx id = s3 at hr hv
      simp only [catView, Prod.mk.injEq] at hv
      have hrel : ∀ y ∈ s'.sessions, y ∈ s3.sessions := by
        refine foldE_ind (fun st => ∀ y ∈ st.sessions, y ∈ s3.sessions) _ ?_ _ _ _ (fun _ h => h) hr
        intro st c st' hst hstep y hy
        exact hst y (((fr_cascade n).2 st idx _ _ st' hstep).sess y hy)
      have := hrel x hx
      rw [hv.2.2.2] at this
      exact (mem_terase.mp this).2

theorem foldE_deleteSession_gone {idx : Nat} : ∀ (l : List String) (s s' : State),
    foldE (fun st sid => deleteSession st idx sid) l s = .ok s' →
    ∀ x ∈ s'.sessions, x ∈ s.sessions ∧ ∀ sid ∈ l, x.pk ≠ lc sid := by
  intro l
  induction l with
  | nil => intro s s' h; simp [foldE] at h; subst h; exact fun x hx => ⟨hx, by simp⟩
  | cons b bs ih =>
    intro s s' h
    simp only [foldE] at h
    split at h
    · next s1 h1 =>
      intro x hx
      obtain ⟨m1, m2⟩ := ih s1 s' h x hx
      obtain ⟨m3, m4⟩ := mem_sessions_after_delete h1 x m1
      refine ⟨m3, ?_⟩
      intro sid hsid
      rcases List.mem_cons.mp hsid with rfl | hsid
      · exact m4
      · exact m2 sid hsid
    · simp at h

/-- `deleteNode` when the node exists: the node row is erased; nothing that remains names the node;
    every service row on another (NUL-free) node survives -/
structure DelNodeSpec (s : State) (name : String) (s' : State) : Prop where
  nodes : s'.nodes = terase Node.pk (lc name) s.nodes
  svcs : ∀ v' ∈ s'.svcs, v' ∈ s.svcs ∧ lc v'.node ≠ lc name
  svcs_sub : s'.svcs.Sublist s.svcs
  svcs_keep : NF name → ∀ v ∈ s.svcs, NF v.node → lc v.node ≠ lc name → v ∈ s'.svcs
  chks : ∀ c' ∈ s'.chks, ∃ c ∈ s.chks, ChkSame c' c ∧ lc c.node ≠ lc name
  sess : ∀ x ∈ s'.sessions, x ∈ s.sessions ∧ lc x.node ≠ lc name

theorem foldl_bump_view (idx : Nat) (l : List Svc) (s : State) :
    catView (l.foldl (fun st (v : Svc) => bumpServiceIdx st idx v.name) s) = catView s :=
  catView_foldl (fun st (v : Svc) => bumpServiceIdx st idx v.name) (fun st b => rfl) _ s

theorem deleteNode_spec {s s' : State} {idx : Nat} {name : String} (hr : deleteNode s idx name = .ok s') :
    (nodeFind s name = none ∧ s' = s) ∨ DelNodeSpec s name s' := by
  simp only [deleteNode] at hr
  split at hr
  · next hnone => simp at hr; exact Or.inl ⟨hnone, hr.symm⟩
  · next n hn =>
    right
    split at hr
    · simp at hr
    · next s2 hf2 =>
      split at hr
      · simp at hr
      · next s3 hf3 =>
        have hv1 := foldl_bump_view idx (List.filter (fun v => lc v.node == lc name) s.svcs) s
        generalize List.foldl (fun st (v : Svc) => bumpServiceIdx st idx v.name) s
            (List.filter (fun v => lc v.node == lc name) s.svcs) = s1 at hf2 hv1
        simp only [catView, Prod.mk.injEq] at hv1
        obtain ⟨v1, v2, v3, v4⟩ := hv1
        obtain ⟨a1, a2, a3, a4, a5, a6⟩ := foldE_deleteService_spec _ _ _ hf2
        obtain ⟨b1, b2, b3, b4⟩ := foldE_deleteCheck_spec _ _ _ hf3
        have hp := catView_deleteNodePost s3 idx name
        generalize deleteNodePost s3 idx name = s5 at hr hp
        simp only [catView, Prod.mk.injEq] at hp
        obtain ⟨p1, p2, p3, p4⟩ := hp
        have hrel := foldE_deleteSession_rel _ _ _ hr
        have hgone := foldE_deleteSession_gone _ _ _ hr
        refine ⟨?_, ?_, by rw [hrel.svcs, p2, b2]; exact v2 ▸ a6, ?_, ?_, ?_⟩
        · rw [hrel.nodes, p1, b1, a1, v1]
        · intro v' hv'
          rw [hrel.svcs, p2, b2] at hv'
          obtain ⟨m1, m2⟩ := a3 v' hv'
          rw [v2] at m1
          refine ⟨m1, ?_⟩
          intro hnode
          have hmem : v' ∈ List.filter (fun v => lc v.node == lc name) s.svcs := by
            simp [List.mem_filter, m1, hnode]
          exact m2 v' hmem (pk2_congr hnode rfl)
        · intro hnfn v hv hnfv hne
          rw [hrel.svcs, p2, b2]
          apply a4 v (v2 ▸ hv)
          intro w hw hk
          have hw' := (List.mem_filter.mp hw).1
          obtain ⟨e1, _⟩ := pk2_inj hnfv hnfn hk
          exact hne e1
        · intro c' hc'
          obtain ⟨c5, h5, hs5⟩ := hrel.chks c' hc'
          rw [p3] at h5
          obtain ⟨c2, h2, hs2, hn2⟩ := b4 c5 h5
          obtain ⟨c0, h0, hs0⟩ := a5 c2 h2
          rw [v3] at h0
          refine ⟨c0, h0, hs5.trans (hs2.trans hs0), ?_⟩
          intro hnode
          have hnode2 : lc c2.node = lc name := by rw [hs0.1]; exact hnode
          have hmem : c2 ∈ List.filter (fun ch => lc ch.node == lc name) s2.chks := by
            simp [List.mem_filter, h2, hnode2]
          exact hn2 c2 hmem (pk2_congr hnode2 rfl)
        · intro x hx
          obtain ⟨m1, m2⟩ := hgone x hx
          rw [p4] at m1
          have m3 : x ∈ s.sessions := v4 ▸ a2 x (b3 x m1)
          refine ⟨m3, ?_⟩
          intro hnode
          have hmem : x.id ∈ (List.filter (fun (y : Sess) => lc y.node == lc name) s5.sessions).map (·.id) := by
            apply List.mem_map.mpr
            exact ⟨x, by simp [List.mem_filter, p4, m1, hnode], rfl⟩
          exact m2 x.id hmem rfl


theorem nodeFind_terase_ne {s : State} {name n : String} (h : lc n ≠ lc name) :
    tfind Node.pk (lc n) (terase Node.pk (lc name) s.nodes) = nodeFind s n := by
  unfold nodeFind
  exact tfind_terase_ne _ _ _ h

theorem noOrphan_of_delNodeSpec {s s' : State} {name : String} (h : DelNodeSpec s name s') (hnf : NF name)
    (hs : NoOrphan s) : NoOrphan s' := by
  have nf : ∀ n, lc n ≠ lc name → nodeFind s' n = nodeFind s n := by
    intro n hn
    unfold nodeFind
    rw [h.nodes]
    exact tfind_terase_ne _ _ _ hn
  refine ⟨?_, ?_, ?_, ?_, ?_, ?_, fun n hn => hs.nf_node n (by rw [h.nodes] at hn; exact (mem_terase.mp hn).1),
    by rw [h.nodes]; exact sortedBy_terase _ _ hs.srt_nodes, sortedBy_sublist h.svcs_sub hs.srt_svcs⟩
  · intro v hv
    obtain ⟨m1, m2⟩ := h.svcs v hv
    rw [nf _ m2]; exact hs.svc_node v m1
  · intro c hc
    obtain ⟨c0, h0, hsame, hne⟩ := h.chks c hc
    rw [hsame.1, nf _ hne]; exact hs.chk_node c0 h0
  · intro c hc hne
    obtain ⟨c0, h0, hsame, hnn⟩ := h.chks c hc
    have hne0 : c0.svcId ≠ "" := by rw [← hsame.2.2]; exact hne
    have h1 := hs.chk_svc c0 h0 hne0
    rw [hsame.1, hsame.2.2]
    -- the service row found for c0 lives on c0's node, hence survives
    unfold svcFind at h1 ⊢
    cases hf : tfind Svc.pk (pk2 c0.node c0.svcId) s.svcs with
    | none => rw [hf] at h1; simp at h1
    | some v =>
      obtain ⟨hvm, hvk⟩ := tfind_some hf
      have hvn : lc v.node = lc c0.node := (pk2_inj (hs.nf_svc v hvm) (hs.nf_chk c0 h0) hvk).1
      have hkeep := h.svcs_keep hnf v hvm (hs.nf_svc v hvm) (by rw [hvn]; exact hnn)
      exact tfind_isSome_of_mem hkeep hvk
  · intro x hx
    obtain ⟨m1, m2⟩ := h.sess x hx
    rw [nf _ m2]; exact hs.sess_node x m1
  · intro v hv; exact hs.nf_svc v (h.svcs v hv).1
  · intro c hc
    obtain ⟨c0, h0, hsame, _⟩ := h.chks c hc
    rw [hsame.1]; exact hs.nf_chk c0 h0

theorem noOrphan_deleteNode {s s' : State} {idx : Nat} {name : String}
    (hr : deleteNode s idx name = .ok s') (hnf : NF name) (hs : NoOrphan s) : NoOrphan s' := by
  rcases deleteNode_spec hr with ⟨_, rfl⟩ | h
  · exact hs
  · exact noOrphan_of_delNodeSpec h hnf hs

/-! ### insertions -/

theorem catView_nodeInsert (s : State) (n : Node) :
    catView (nodeInsert s n) = (tupsert Node.pk strLt n s.nodes, s.svcs, s.chks, s.sessions) := by
  unfold nodeInsert
  simp only
  have h := catView_updateAll (({ s with nodes := tupsert Node.pk strLt n s.nodes }.maxIdx2 "nodes" n.modify).maxIdx
    ("peer.~:node." ++ n.name) n.modify) n.modify n.name
  rw [h]; rfl

theorem tfind_tupsert_mono {α κ : Type} [DecidableEq κ] {key : α → κ} {lt : κ → κ → Bool} (r : α) (l : List α) (k : κ)
    (h : (tfind key k l).isSome = true) : (tfind key k (tupsert key lt r l)).isSome = true := by
  by_cases hk : k = key r
  · rw [hk, tfind_tupsert_self]; rfl
  · rw [tfind_tupsert_ne r l hk]; exact h

theorem noOrphan_nodeInsert {s : State} (n : Node) (hnf : NF n.name) (hs : NoOrphan s) : NoOrphan (nodeInsert s n) := by
  have hv := catView_nodeInsert s n
  generalize nodeInsert s n = s' at hv
  simp only [catView, Prod.mk.injEq] at hv
  obtain ⟨e1, e2, e3, e4⟩ := hv
  have nf : ∀ m, (nodeFind s m).isSome = true → (nodeFind s' m).isSome = true := by
    intro m hm
    unfold nodeFind at hm ⊢
    rw [e1]; exact tfind_tupsert_mono _ _ _ hm
  refine ⟨?_, ?_, ?_, ?_, ?_, ?_, ?_, by rw [e1]; exact sortedBy_tupsert _ _ hs.srt_nodes, e2 ▸ hs.srt_svcs⟩
  rotate_right
  · intro m hm
    rw [e1] at hm
    rcases mem_tupsert hm with rfl | hm
    · exact hnf
    · exact hs.nf_node m hm
  · intro v hv; exact nf _ (hs.svc_node v (e2 ▸ hv))
  · intro c hc; exact nf _ (hs.chk_node c (e3 ▸ hc))
  · intro c hc hne; rw [svcFind_congr e2]; exact hs.chk_svc c (e3 ▸ hc) hne
  · intro x hx; exact nf _ (hs.sess_node x (e4 ▸ hx))
  · intro v hv; exact hs.nf_svc v (e2 ▸ hv)
  · intro c hc; exact hs.nf_chk c (e3 ▸ hc)

theorem nodeFind_nodeInsert_self (s : State) (n : Node) : (nodeFind (nodeInsert s n) n.name).isSome = true := by
  have hv := catView_nodeInsert s n
  generalize nodeInsert s n = s' at hv
  simp only [catView, Prod.mk.injEq] at hv
  unfold nodeFind
  rw [hv.1]
  have := tfind_tupsert_self (key := Node.pk) (lt := strLt) n s.nodes
  unfold Node.pk at this ⊢
  rw [this]; rfl

theorem catView_svcInsert (s : State) (v : Svc) :
    catView (svcInsert s v) = (s.nodes, tupsert Svc.pk strLt v s.svcs, s.chks, s.sessions) := by
  unfold svcInsert
  simp [catView, State.maxIdx2, State.maxIdx]

theorem noOrphan_svcInsert {s : State} (v : Svc) (hnode : (nodeFind s v.node).isSome = true) (hnf : NF v.node)
    (hs : NoOrphan s) : NoOrphan (svcInsert s v) := by
  have hv := catView_svcInsert s v
  generalize svcInsert s v = s' at hv
  simp only [catView, Prod.mk.injEq] at hv
  obtain ⟨e1, e2, e3, e4⟩ := hv
  refine ⟨?_, ?_, ?_, ?_, ?_, ?_, fun n hn => hs.nf_node n (e1 ▸ hn), e1 ▸ hs.srt_nodes,
    by rw [e2]; exact sortedBy_tupsert _ _ hs.srt_svcs⟩
  · intro w hw
    rw [e2] at hw
    rw [nodeFind_congr e1]
    rcases mem_tupsert hw with rfl | hw
    · exact hnode
    · exact hs.svc_node w hw
  · intro c hc; rw [nodeFind_congr e1]; exact hs.chk_node c (e3 ▸ hc)
  · intro c hc hne
    unfold svcFind
    rw [e2]
    exact tfind_tupsert_mono _ _ _ (hs.chk_svc c (e3 ▸ hc) hne)
  · intro x hx; rw [nodeFind_congr e1]; exact hs.sess_node x (e4 ▸ hx)
  · intro w hw
    rw [e2] at hw
    rcases mem_tupsert hw with rfl | hw
    · exact hnf
    · exact hs.nf_svc w hw
  · intro c hc; exact hs.nf_chk c (e3 ▸ hc)

theorem noOrphan_ensureCheck {s s' : State} {idx : Nat} {p : Bool} {hc : Chk}
    (hr : ensureCheck s idx p hc = .ok s') (hnf : NF hc.node) (hs : NoOrphan s) : NoOrphan s' :=
  NoOrphan.of_ensSpec (ensSpec_ensureCheck hr) hnf hs

theorem noOrphan_deleteSession {s s' : State} {idx : Nat} {id : String}
    (hr : deleteSession s idx id = .ok s') (hs : NoOrphan s) : NoOrphan s' :=
  NoOrphan.of_casRel (casRel_deleteSession hr) hs

theorem noOrphan_ensureNode {s s' : State} {idx : Nat} {n : Node}
    (hr : ensureNode s idx n = .ok s') (hnf : NF n.name) (hs : NoOrphan s) : NoOrphan s' := by
  simp only [ensureNode] at hr
  split at hr
  · simp at hr
  · next s1 byId hr1 =>
    have h1 : NoOrphan s1 := by
      split at hr1
      · split at hr1
        · next n0 hn0 =>
          split at hr1
          · split at hr1
            · simp at hr1
            · split at hr1
              · next sd hdel =>
                simp at hr1; obtain ⟨rfl, -⟩ := hr1
                refine noOrphan_deleteNode hdel ?_ hs
                unfold nodeFindByID at hn0
                exact hs.nf_node n0 (List.mem_of_find?_eq_some hn0)
              · simp at hr1
          · simp at hr1; obtain ⟨rfl, -⟩ := hr1; exact hs
        · split at hr1
          · simp at hr1
          · simp at hr1; obtain ⟨rfl, -⟩ := hr1; exact hs
      · simp at hr1; obtain ⟨rfl, -⟩ := hr1; exact hs
    repeat' (split at hr)
    all_goals (try simp at hr)
    all_goals (subst hr)
    all_goals (first | exact h1 | exact noOrphan_nodeInsert _ hnf h1)

end CV.Store
