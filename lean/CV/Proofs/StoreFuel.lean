/-
The recursion fuel of the session-invalidation cascade always suffices: `Err.fuel` (the model-internal
"budget exhausted" error) is never produced by `deleteSession` / `ensureCheck`, for any state.
Each level that consumes fuel removes a session row, and no function of the cascade adds one.
-/
import CV.Proofs.StoreCascade
namespace CV.Store
open CV

/-- number of session rows -/
def slen (s : State) : Nat := s.sessions.length

theorem length_filter_lt {α : Type} (p : α → Bool) (l : List α) (h : ∃ x ∈ l, p x = false) :
    (l.filter p).length < l.length := by
  induction l with
  | nil => obtain ⟨x, hx, -⟩ := h; simp at hx
  | cons a as ih =>
    obtain ⟨x, hx, hp⟩ := h
    by_cases ha : p a = true
    · simp only [List.filter_cons, ha, if_true, List.length_cons]
      rcases List.mem_cons.mp hx with rfl | hx'
      · rw [ha] at hp; cases hp
      · have := ih ⟨x, hx', hp⟩; omega
    · simp only [List.filter_cons, ha, List.length_cons]
      have := List.length_filter_le p as
      simp; omega

theorem slen_view {s s' : State} (h : lockView s' = lockView s) : slen s' = slen s := by
  unfold slen
  have : s'.sessions = s.sessions := congrArg (fun v => v.2.1) h
  rw [this]

/-- after the destroyed session's own row, locks, links and queries are gone there is one session less -/
theorem slen_removeSession {s : State} {idx : Nat} {id : String} {sess : Sess} (hf : sessFind s id = some sess) :
    slen (dropSessionRefs (invalidateKeys
      { s with sessions := terase Sess.pk (lc id) s.sessions, index := idxSet s.index "sessions" idx } idx sess) idx id)
      < slen s := by
  unfold slen
  rw [(dropSessionRefs_rest _ idx id).2.1, (invalidateKeys_rest _ idx sess).1]
  show (terase Sess.pk (lc id) s.sessions).length < s.sessions.length
  unfold terase
  apply length_filter_lt
  exact ⟨sess, (tfind_some hf).1, by simp [(tfind_some hf).2]⟩

/-- fuel-indexed statement: no `fuel` error, and the sessions table does not grow -/
def FuelDel (n : Nat) : Prop :=
  ∀ s idx id, 2 * slen s ≤ n →
    deleteSessionF n s idx id ≠ .error .fuel ∧ ∀ s', deleteSessionF n s idx id = .ok s' → slen s' ≤ slen s
def FuelChk (n : Nat) : Prop :=
  ∀ s idx p hc, 2 * slen s + 1 ≤ n →
    ensureCheckF n s idx p hc ≠ .error .fuel ∧ ∀ s', ensureCheckF n s idx p hc = .ok s' → slen s' ≤ slen s

/-- folding a step that neither runs out of fuel nor grows the sessions table -/
theorem foldE_fuel {β : Type} (f : State → β → Except Err State) (L : Nat)
    (hf : ∀ st b, slen st ≤ L → f st b ≠ .error .fuel ∧ ∀ st', f st b = .ok st' → slen st' ≤ slen st) :
    ∀ (l : List β) (s : State), slen s ≤ L →
      foldE f l s ≠ .error .fuel ∧ ∀ s', foldE f l s = .ok s' → slen s' ≤ slen s := by
  intro l
  induction l with
  | nil =>
    intro s _
    exact ⟨by simp [foldE], fun s' h => by simp [foldE] at h; rw [← h]; exact Nat.le_refl _⟩
  | cons b bs ih =>
    intro s hs
    obtain ⟨h1, h2⟩ := hf s b hs
    simp only [foldE]
    cases hq : f s b with
    | error e =>
      simp only
      exact ⟨fun hc => h1 (by rw [hq]; exact hc), fun s' hh => by cases hh⟩
    | ok st =>
      simp only
      have hst := h2 st hq
      obtain ⟨i1, i2⟩ := ih st (by omega)
      exact ⟨i1, fun s' hh => by have := i2 s' hh; omega⟩

theorem fuelDel_zero : FuelDel 0 := by
  intro s idx id hn
  have h0 : s.sessions = [] := by
    unfold slen at hn
    cases hs : s.sessions with
    | nil => rfl
    | cons a as => rw [hs] at hn; simp at hn
  have hf : sessFind s id = none := by simp [sessFind, tfind, h0]
  rw [deleteSessionF, hf]
  exact ⟨by simp, fun s' h => by simp at h; rw [← h]; exact Nat.le_refl _⟩

theorem fuelDel_succ {n : Nat} (hq : FuelChk n) : FuelDel (n + 1) := by
  intro s idx id hn
  rw [deleteSessionF]
  cases hf : sessFind s id with
  | none => exact ⟨by simp, fun s' h => by simp at h; rw [← h]; exact Nat.le_refl _⟩
  | some sess =>
    simp only
    have hlt := slen_removeSession (idx := idx) hf
    generalize dropSessionRefs (invalidateKeys
      { s with sessions := terase Sess.pk (lc id) s.sessions, index := idxSet s.index "sessions" idx } idx sess) idx id = s3
      at hlt ⊢
    have := foldE_fuel (fun st c => ensureCheckF n st idx false
        { c with status := critical, output := sessionCheckOutput sess critical }) (slen s - 1)
      (fun st b hst => hq st idx false _ (by omega)) (sessionTypedChecks s3 sess) s3 (by omega)
    exact ⟨this.1, fun s' h => by have := this.2 s' h; omega⟩

theorem fuelChk_of {n : Nat} (hp : ∀ m, n = m + 1 → FuelDel m) : FuelChk n := by
  intro s idx p hc hn
  rw [ensureCheckF]
  cases hprep : checkPrep s idx p hc with
  | error e =>
    simp only
    refine ⟨?_, fun s' h => by cases h⟩
    intro hcontra
    simp only [checkPrep] at hprep
    repeat' (split at hprep)
    all_goals (simp at hprep)
    all_goals (simp at hcontra; rw [← hprep] at hcontra; cases hcontra)
  | ok r =>
    obtain ⟨s1, hc1, md⟩ := r
    have h1 : slen s1 = slen s := slen_view (checkPrep_view hprep)
    simp only
    split
    · refine ⟨by simp, fun s' h => ?_⟩
      simp at h; rw [← h, slen_view (lockView_checkFinish _ _ _ _ _), h1]; exact Nat.le_refl _
    · omega
    · next k _ =>
      have := foldE_fuel (fun st sid => deleteSessionF k st idx sid) (slen s1)
        (fun st b hst => hp k rfl st idx b (by omega)) (sessionsToInvalidate s1 hc1) s1 (Nat.le_refl _)
      cases hfold : foldE (fun st sid => deleteSessionF k st idx sid) (sessionsToInvalidate s1 hc1) s1 with
      | error e =>
        simp only
        exact ⟨fun hcontra => this.1 (by rw [hfold]; exact hcontra), fun s' h => by cases h⟩
      | ok s2 =>
        simp only
        refine ⟨by simp, fun s' h => ?_⟩
        simp at h
        have := this.2 s2 hfold
        rw [← h, slen_view (lockView_checkFinish _ _ _ _ _)]
        omega

theorem fuel_cascade (n : Nat) : FuelDel n ∧ FuelChk n := by
  induction n with
  | zero => exact ⟨fuelDel_zero, fuelChk_of (by intro m hm; omega)⟩
  | succ n ih =>
    exact ⟨fuelDel_succ ih.2, fuelChk_of (by intro m hm; have : m = n := by omega
                                             subst this; exact ih.1)⟩

/-- `deleteSessionTxn` never runs out of recursion budget -/
theorem deleteSession_never_fuel (s : State) (idx : Nat) (id : String) : deleteSession s idx id ≠ .error .fuel :=
  ((fuel_cascade _).1 s idx id (by unfold fuelFor slen; omega)).1

/-- `ensureCheckTxn` never runs out of recursion budget -/
theorem ensureCheck_never_fuel (s : State) (idx : Nat) (p : Bool) (hc : Chk) : ensureCheck s idx p hc ≠ .error .fuel :=
  ((fuel_cascade _).2 s idx p hc (by unfold fuelFor slen; omega)).1

/-! ### hence no function of the model ever reports `fuel` -/

theorem foldE_nofuel {β : Type} (f : State → β → Except Err State) (hf : ∀ st b, f st b ≠ .error .fuel)
    (l : List β) (s : State) : foldE f l s ≠ .error .fuel := by
  induction l generalizing s with
  | nil => simp [foldE]
  | cons b bs ih =>
    simp only [foldE]
    cases hq : f s b with
    | error e => simp only; intro hc; exact hf s b (by rw [hq]; exact hc)
    | ok st => exact ih st

theorem deleteCheck_nofuel (s : State) (idx : Nat) (n i : String) : deleteCheck s idx n i ≠ .error .fuel := by
  simp only [deleteCheck]
  split
  · simp
  · exact foldE_nofuel _ (fun st b => deleteSession_never_fuel st idx b) _ _

theorem deleteService_nofuel (s : State) (idx : Nat) (n i : String) : deleteService s idx n i ≠ .error .fuel := by
  simp only [deleteService]
  split
  · simp
  · have := foldE_nofuel (fun st (c : Chk) => deleteCheck st idx n c.id) (fun st b => deleteCheck_nofuel st idx n b.id)
      (List.filter (fun c => lc c.node == lc n && lc c.svcId == lc i) s.chks) s
    split
    · next e he => intro hc; simp at hc; rw [hc] at he; exact this he
    · simp

theorem deleteNode_nofuel (s : State) (idx : Nat) (n : String) : deleteNode s idx n ≠ .error .fuel := by
  simp only [deleteNode]
  split
  · simp
  · split
    · next e he =>
      intro hc; simp at hc; rw [hc] at he
      exact foldE_nofuel _ (fun st (b : Svc) => deleteService_nofuel st idx n b.id) _ _ he
    · split
      · next e he =>
        intro hc; simp at hc; rw [hc] at he
        exact foldE_nofuel _ (fun st (b : Chk) => deleteCheck_nofuel st idx n b.id) _ _ he
      · exact foldE_nofuel _ (fun st b => deleteSession_never_fuel st idx b) _ _

theorem ensureNode_nofuel (s : State) (idx : Nat) (n : Node) : ensureNode s idx n ≠ .error .fuel := by
  intro hr
  simp only [ensureNode] at hr
  split at hr
  · next e he =>
    simp at hr; rw [hr] at he
    repeat' (split at he)
    all_goals (try simp at he)
    all_goals (rename_i hd; first | exact deleteNode_nofuel _ _ _ (by rw [hd, he]) | (rw [he] at hd; exact deleteNode_nofuel _ _ _ hd))
  · repeat' (split at hr)
    all_goals (simp at hr)

theorem ensureService_nofuel (s : State) (idx : Nat) (v : Svc) : ensureService s idx v ≠ .error .fuel := by
  intro hr
  unfold ensureService at hr
  repeat' (split at hr)
  all_goals (first | (simp at hr; done) | (simp only at hr; split at hr <;> simp at hr))

theorem ensureRegistration_nofuel (s : State) (idx : Nat) (r : RegReq) : ensureRegistration s idx r ≠ .error .fuel := by
  intro hr
  simp only [ensureRegistration] at hr
  split at hr
  · next e he =>
    simp at hr; rw [hr] at he
    repeat' (split at he)
    all_goals (first | (simp at he; done) | exact ensureNode_nofuel _ _ _ he)
  · split at hr
    · next e he =>
      simp at hr; rw [hr] at he
      repeat' (split at he)
      all_goals (first | (simp at he; done) | exact ensureService_nofuel _ _ _ he)
    · refine foldE_nofuel _ ?_ _ _ hr
      intro st c hc
      unfold ensureCheckIfNodeMatches at hc
      split at hc
      · simp at hc
      · exact ensureCheck_never_fuel _ _ _ _ hc

theorem sessionCreate_nofuel (s : State) (idx : Nat) (r : SessReq) : sessionCreate s idx r ≠ .error .fuel := by
  intro hr
  simp only [sessionCreate] at hr
  repeat' (split at hr)
  all_goals (try (simp at hr; done))
  · rename_i e he
    simp at hr; rw [hr] at he
    -- validateSessionChecks never reports fuel
    have : ∀ (l : List String), validateSessionChecks s r.node l ≠ .error .fuel := by
      intro l
      induction l with
      | nil => simp [validateSessionChecks]
      | cons c cs ih =>
        simp only [validateSessionChecks]
        repeat' split
        all_goals (first | (simp; done) | exact ih)
    exact this _ he
  · unfold updateSessionCheck at hr
    exact foldE_nofuel _ (fun st c => ensureCheck_never_fuel st idx false _) _ _ hr

theorem kvSetTxn_nofuel (s : State) (idx : Nat) (e : KV) (u : Bool) : kvSetTxn s idx e u ≠ .error .fuel := by
  intro hr
  by_cases hk : e.key = []
  · simp [kvSetTxn, hk] at hr
  · obtain ⟨s', w, h⟩ := kvSetTxn_ok (s := s) (idx := idx) (e := e) (upd := u) hk
    rw [h] at hr; cases hr

theorem kvDeleteTxn_nofuel (s : State) (idx : Nat) (k : Key) : kvDeleteTxn s idx k ≠ .error .fuel := by
  intro hr; simp only [kvDeleteTxn] at hr
  repeat' (split at hr)
  all_goals (simp at hr)

theorem kvDeleteCasTxn_nofuel (s : State) (idx c : Nat) (k : Key) : kvDeleteCasTxn s idx c k ≠ .error .fuel := by
  intro hr; simp only [kvDeleteCasTxn] at hr
  repeat' (split at hr)
  all_goals (first | (simp at hr; done) | (simp at hr; subst hr; exact kvDeleteTxn_nofuel _ _ _ (by assumption)))

theorem kvSetCasTxn_nofuel (s : State) (idx : Nat) (e : KV) : kvSetCasTxn s idx e ≠ .error .fuel := by
  intro hr; simp only [kvSetCasTxn] at hr
  repeat' (split at hr)
  all_goals (first | (simp at hr; done) | (simp at hr; subst hr; exact kvSetTxn_nofuel _ _ _ _ (by assumption)))

theorem lockDecision_nofuel (s : State) (idx : Nat) (e : KV) : lockDecision s idx e ≠ .error .fuel := by
  intro hr; simp only [lockDecision] at hr
  repeat' (split at hr)
  all_goals (simp at hr)

theorem unlockDecision_nofuel (s : State) (idx : Nat) (e : KV) : unlockDecision s idx e ≠ .error .fuel := by
  intro hr; simp only [unlockDecision] at hr
  repeat' (split at hr)
  all_goals (simp at hr)

theorem kvLockTxn_nofuel (s : State) (idx : Nat) (e : KV) : kvLockTxn s idx e ≠ .error .fuel := by
  intro hr; simp only [kvLockTxn] at hr
  repeat' (split at hr)
  all_goals (first
    | (simp at hr; done)
    | (simp at hr; subst hr; (first
        | exact lockDecision_nofuel _ _ _ (by assumption)
        | exact kvSetTxn_nofuel _ _ _ _ (by assumption))))

theorem kvUnlockTxn_nofuel (s : State) (idx : Nat) (e : KV) : kvUnlockTxn s idx e ≠ .error .fuel := by
  intro hr; simp only [kvUnlockTxn] at hr
  repeat' (split at hr)
  all_goals (first
    | (simp at hr; done)
    | (simp at hr; subst hr; (first
        | exact unlockDecision_nofuel _ _ _ (by assumption)
        | exact kvSetTxn_nofuel _ _ _ _ (by assumption))))

theorem kvGet_nofuel (s : State) (k : Key) : kvGet s k ≠ .error .fuel := by
  intro hr; simp only [kvGet] at hr; split at hr <;> simp at hr

theorem kvCheckSession_nofuel (s : State) (k : Key) (x : String) : kvCheckSession s k x ≠ .error .fuel := by
  intro hr; simp only [kvCheckSession] at hr
  repeat' (split at hr)
  all_goals (simp at hr)

theorem kvCheckIndex_nofuel (s : State) (k : Key) (c : Nat) : kvCheckIndex s k c ≠ .error .fuel := by
  intro hr; simp only [kvCheckIndex] at hr
  repeat' (split at hr)
  all_goals (simp at hr)

theorem pqSet_nofuel (s : State) (idx : Nat) (a b : String) : pqSet s idx a b ≠ .error .fuel := by
  intro hr; simp only [pqSet] at hr
  repeat' (split at hr)
  all_goals (simp at hr)

theorem ensureNodeCas_nofuel (s : State) (idx : Nat) (n : Node) : ensureNodeCas s idx n ≠ .error .fuel := by
  intro hr; unfold ensureNodeCas at hr
  repeat' (split at hr)
  all_goals (first | (simp at hr; done) | (simp at hr; subst hr; exact ensureNode_nofuel _ _ _ (by assumption)))

theorem deleteNodeCas_nofuel (s : State) (idx c : Nat) (n : String) : deleteNodeCas s idx c n ≠ .error .fuel := by
  intro hr; unfold deleteNodeCas at hr
  repeat' (split at hr)
  all_goals (first | (simp at hr; done) | (simp at hr; subst hr; exact deleteNode_nofuel _ _ _ (by assumption)))

theorem ensureServiceCas_nofuel (s : State) (idx : Nat) (v : Svc) : ensureServiceCas s idx v ≠ .error .fuel := by
  intro hr; unfold ensureServiceCas at hr
  repeat' (split at hr)
  all_goals (first | (simp at hr; done) | (simp at hr; subst hr; exact ensureService_nofuel _ _ _ (by assumption)))

theorem deleteServiceCas_nofuel (s : State) (idx c : Nat) (n i : String) : deleteServiceCas s idx c n i ≠ .error .fuel := by
  intro hr; unfold deleteServiceCas at hr
  repeat' (split at hr)
  all_goals (first | (simp at hr; done) | (simp at hr; subst hr; exact deleteService_nofuel _ _ _ _ (by assumption)))

theorem ensureCheckCas_nofuel (s : State) (idx : Nat) (c : Chk) : ensureCheckCas s idx c ≠ .error .fuel := by
  intro hr; unfold ensureCheckCas at hr
  repeat' (split at hr)
  all_goals (first | (simp at hr; done) | (simp at hr; subst hr; exact ensureCheck_never_fuel _ _ _ _ (by assumption)))

theorem deleteCheckCas_nofuel (s : State) (idx c : Nat) (n i : String) : deleteCheckCas s idx c n i ≠ .error .fuel := by
  intro hr; unfold deleteCheckCas at hr
  repeat' (split at hr)
  all_goals (first | (simp at hr; done) | (simp at hr; subst hr; exact deleteCheck_nofuel _ _ _ _ (by assumption)))

theorem txnStep_nofuel (s : State) (idx : Nat) (op : TxnOp) : txnStep s idx op ≠ .error .fuel := by
  intro hr
  cases op with
  | kv v e =>
    simp only [txnStep, txnKV] at hr
    cases v <;> simp only [okRes] at hr <;> repeat' (split at hr)
    all_goals (first
      | (simp at hr; done)
      | (simp at hr; subst hr; (first
          | exact kvSetTxn_nofuel _ _ _ _ (by assumption)
          | exact kvDeleteTxn_nofuel _ _ _ (by assumption)
          | exact kvDeleteCasTxn_nofuel _ _ _ _ (by assumption)
          | exact kvSetCasTxn_nofuel _ _ _ (by assumption)
          | exact kvLockTxn_nofuel _ _ _ (by assumption)
          | exact kvUnlockTxn_nofuel _ _ _ (by assumption)
          | exact kvGet_nofuel _ _ (by assumption)
          | exact kvCheckSession_nofuel _ _ _ (by assumption)
          | exact kvCheckIndex_nofuel _ _ _ (by assumption))))
  | node v n =>
    simp only [txnStep, txnNode] at hr
    cases v <;> simp only [okRes] at hr <;> repeat' (split at hr)
    all_goals (first
      | (simp at hr; done)
      | (simp at hr; subst hr; (first
          | exact ensureNode_nofuel _ _ _ (by assumption)
          | exact deleteNode_nofuel _ _ _ (by assumption)
          | exact ensureNodeCas_nofuel _ _ _ (by assumption)
          | exact deleteNodeCas_nofuel _ _ _ _ (by assumption))))
  | service v x =>
    simp only [txnStep, txnService] at hr
    cases v <;> simp only [okRes] at hr <;> repeat' (split at hr)
    all_goals (first
      | (simp at hr; done)
      | (simp at hr; subst hr; (first
          | exact ensureService_nofuel _ _ _ (by assumption)
          | exact deleteService_nofuel _ _ _ _ (by assumption)
          | exact ensureServiceCas_nofuel _ _ _ (by assumption)
          | exact deleteServiceCas_nofuel _ _ _ _ _ (by assumption))))
  | check v c =>
    simp only [txnStep, txnCheck] at hr
    cases v <;> simp only [okRes] at hr <;> repeat' (split at hr)
    all_goals (first
      | (simp at hr; done)
      | (simp at hr; subst hr; (first
          | exact ensureCheck_never_fuel _ _ _ _ (by assumption)
          | exact deleteCheck_nofuel _ _ _ _ (by assumption)
          | exact ensureCheckCas_nofuel _ _ _ (by assumption)
          | exact deleteCheckCas_nofuel _ _ _ _ _ (by assumption))))
  | sessionDelete id =>
    simp only [txnStep, okRes] at hr
    split at hr
    · simp at hr
    · simp at hr; subst hr; exact deleteSession_never_fuel _ _ _ (by assumption)

end CV.Store
