/-
Helper lemmas for C11: in clean schedules the indexes a subscription can still deliver are
ascending and bounded by the index of the last commit (so delivered indexes never decrease).
-/
import CV.Proofs.StreamInv
import CV.Proofs.StreamIdx
namespace CV.Stream

def stepIdxs (l : List Step) : List Nat := l.filterMap stepIdx

/-- `lo ≤ l[0] ≤ l[1] ≤ … ≤ hi` -/
def Asc : Nat → List Nat → Nat → Prop
  | lo, [], hi => lo ≤ hi
  | lo, i :: r, hi => lo ≤ i ∧ Asc i r hi

theorem Asc.mono_hi {lo hi hi' : Nat} {l : List Nat} (h : Asc lo l hi) (hh : hi ≤ hi') : Asc lo l hi' := by
  induction l generalizing lo with
  | nil => exact Nat.le_trans h hh
  | cons i r ih => exact ⟨h.1, ih h.2⟩

theorem Asc.snoc {lo hi j : Nat} {l : List Nat} (h : Asc lo l hi) (hj : hi ≤ j) : Asc lo (l ++ [j]) j := by
  induction l generalizing lo with
  | nil => exact ⟨Nat.le_trans h hj, Nat.le_refl _⟩
  | cons i r ih => exact ⟨h.1, ih h.2⟩

theorem Asc.mono_lo {lo lo' hi : Nat} {l : List Nat} (h : Asc lo l hi) (hh : lo' ≤ lo) : Asc lo' l hi := by
  cases l with
  | nil => exact Nat.le_trans hh h
  | cons i r => exact ⟨Nat.le_trans hh h.1, h.2⟩

theorem stepIdxs_append (a b : List Step) : stepIdxs (a ++ b) = stepIdxs a ++ stepIdxs b := by
  simp [stepIdxs, List.filterMap_append]

theorem stepIdxs_queue_snoc (k : Key) (q : List Batch) (b : Batch) :
    stepIdxs (queueItems k (q ++ [b])) = stepIdxs (queueItems k q) ++ (if evsFor k b.evs = [] then [] else [b.idx]) := by
  unfold queueItems
  rw [List.filterMap_append, stepIdxs_append]
  congr 1
  simp only [List.filterMap_cons, List.filterMap_nil, kItem]
  by_cases h : evsFor k b.evs = [] <;> simp [h, stepIdxs, stepIdx, mkItem]

structure MInv (y : Sys) : Prop where
  one  : 1 ≤ y.lastIdx
  ib   : IdxBound y.cat y.lastIdx
  mono : ∀ c ∈ y.clients, c.mono = true
  ord  : ∀ c ∈ y.clients, c.sub = .opened →
           Asc c.lastDelivered (stepIdxs (c.inbox ++ queueItems c.key y.queue)) y.lastIdx
  cord : ∀ e ∈ y.cache, Asc 0 (stepIdxs (e.steps ++ queueItems e.key y.queue)) y.lastIdx

theorem MInv.init (ttl : Bool) : MInv (Sys.init ttl) := by
  refine ⟨Nat.le_refl _, IdxBound.empty _, ?_, ?_, ?_⟩ <;> simp [Sys.init]

theorem asc_commit {lo n idx : Nat} {l : List Step} {k : Key} {q : List Batch} (b : Batch) (hb : b.idx = idx)
    (h : Asc lo (stepIdxs (l ++ queueItems k q)) n) (hn : n ≤ idx) :
    Asc lo (stepIdxs (l ++ queueItems k (q ++ [b]))) idx := by
  rw [stepIdxs_append, stepIdxs_queue_snoc, ← List.append_assoc, ← stepIdxs_append]
  by_cases he : evsFor k b.evs = []
  · simp only [he, ↓reduceIte, List.append_nil]; exact h.mono_hi hn
  · simp only [he, ↓reduceIte, hb]; exact h.snoc hn

theorem MInv.commit {y : Sys} (h : MInv y) (idx : Nat) (w : Write) (hi : y.lastIdx < idx) :
    MInv (commit y idx w) := by
  unfold CV.Stream.commit
  have hle : y.lastIdx ≤ idx := Nat.le_of_lt hi
  refine ⟨Nat.le_trans h.one hle, applyWrite_idxBound idx w h.ib hle, h.mono, ?_, ?_⟩
  · intro c hc ho
    exact asc_commit _ rfl (h.ord c hc ho) hle
  · intro e he
    exact asc_commit _ rfl (h.cord e he) hle

/-- every client after `publishOne` comes from an old one; only `sub` (opened → acl) and
    `inbox` (one appended item) may differ -/
theorem publishOne_mem {y : Sys} {b : Batch} {rest : List Batch} (hq : y.queue = b :: rest) :
    ∀ c' ∈ (publishOne y).clients, ∃ c ∈ y.clients,
      c'.m = c.m ∧ c'.key = c.key ∧ c'.id = c.id ∧ c'.mono = c.mono ∧ c'.lastDelivered = c.lastDelivered ∧
      (c'.sub = .opened → c.sub = .opened) ∧
      c'.inbox = (if c.key ∈ keysOf b.evs ∧ attached c then c.inbox ++ [Step.item (mkItem c.key b)] else c.inbox) ∧
      c'.authz = c.authz := by
  intro c' hc'
  have hn : (keysOf b.evs).Nodup := nodup_dedupKeys _
  rw [publishOne_eq y b rest hq, foldl_publishKey_clients b (keysOf b.evs) hn] at hc'
  simp only [List.map_map, List.mem_map, Function.comp_def] at hc'
  obtain ⟨c, hc, rfl⟩ := hc'
  refine ⟨c, hc, ?_⟩
  obtain ⟨f1, f2, f3, f4, f5⟩ := closeAcl_fields b c
  have fa := closeAcl_attached b c
  have f6 : (closeAcl b c).mono = c.mono ∧ (closeAcl b c).lastDelivered = c.lastDelivered := by
    unfold closeAcl; split <;> exact ⟨rfl, rfl⟩
  by_cases hk : c.key ∈ keysOf b.evs ∧ attached c
  · have hk' : (closeAcl b c).key ∈ keysOf b.evs ∧ attached (closeAcl b c) := by rw [f2, fa]; exact hk
    simp only [hk, hk', and_self, ↓reduceIte, f1, f2, f3, f4, f6, true_and]
    exact ⟨f5, closeAcl_authz b c⟩
  · have hk' : ¬ ((closeAcl b c).key ∈ keysOf b.evs ∧ attached (closeAcl b c)) := by rw [f2, fa]; exact hk
    simp only [hk', hk, ↓reduceIte]
    exact ⟨f1, f2, f3, f6.1, f6.2, f5, f4, closeAcl_authz b c⟩

theorem publishOne_cat_queue {y : Sys} {b : Batch} {rest : List Batch} (hq : y.queue = b :: rest) :
    (publishOne y).cat = y.cat ∧ (publishOne y).queue = rest ∧ (publishOne y).lastIdx = y.lastIdx := by
  rw [publishOne_eq y b rest hq]
  exact ⟨foldl_publishKey_cat _ _ _, foldl_publishKey_queue _ _ _, foldl_publishKey_lastIdx _ _ _⟩

theorem MInv.publishOne {y : Sys} (h : MInv y) (hc : ∀ e ∈ y.cache, hasBuf y e.key = true) : MInv (publishOne y) := by
  cases hq : y.queue with
  | nil => unfold CV.Stream.publishOne; rw [hq]; exact h
  | cons b rest =>
    obtain ⟨hcat, hqu, hli⟩ := publishOne_cat_queue hq
    refine ⟨by rw [hli]; exact h.one, by rw [hcat, hli]; exact h.ib, ?_, ?_, ?_⟩
    · intro c' hc'
      obtain ⟨c, hcm, -, -, -, hm, -⟩ := publishOne_mem hq c' hc'
      rw [hm]; exact h.mono c hcm
    · intro c' hc' ho
      obtain ⟨c, hcm, -, hk, -, -, hl, hs, hi, -⟩ := publishOne_mem hq c' hc'
      have hop := hs ho
      have hat : attached c = true := by simp [attached, hop]
      have := h.ord c hcm hop
      rw [hq] at this
      rw [hk, hi, hqu, hli, hl]
      simp only [hat, and_true]
      rw [pending_publish]
      exact this
    · intro e' he'
      have hn : (keysOf b.evs).Nodup := nodup_dedupKeys _
      rw [publishOne_eq y b rest hq, foldl_publishKey_cache b (keysOf b.evs) hn] at he'
      obtain ⟨e, he, rfl⟩ := List.mem_map.mp he'
      have hb : hasBuf { y with queue := rest, clients := y.clients.map (closeAcl b) } e.key = true := by
        rw [hasBuf_closeAcl]; exact hc e he
      have := h.cord e he
      rw [hq] at this
      rw [hqu, hli]
      simp only [hb, and_true]
      have hp := pending_publish e.key b rest e.steps
      by_cases hk : e.key ∈ keysOf b.evs
      · simp only [hk, ↓reduceIte] at hp ⊢
        rw [steps_append_tail, hp]; exact this
      · simp only [hk, ↓reduceIte] at hp ⊢
        rw [hp]; exact this

/-- generic step: one client replaced, possibly a different cache; catalog and queue unchanged -/
theorem MInv.replace {y : Sys} (h : MInv y) (c' : Client) (ca : List CacheEnt) (la : List (Key × Item))
    (hm : c'.mono = true)
    (ho : c'.sub = .opened → Asc c'.lastDelivered (stepIdxs (c'.inbox ++ queueItems c'.key y.queue)) y.lastIdx)
    (hca : ∀ e ∈ ca, Asc 0 (stepIdxs (e.steps ++ queueItems e.key y.queue)) y.lastIdx) :
    MInv { setClient { y with cache := ca } c' with lasts := la } := by
  refine ⟨h.one, h.ib, ?_, ?_, ?_⟩
  · intro d hd
    rcases mem_setClient (y := { y with cache := ca }) hd with rfl | ⟨hd', -⟩
    · exact hm
    · exact h.mono d hd'
  · intro d hd hop
    rcases mem_setClient (y := { y with cache := ca }) hd with rfl | ⟨hd', -⟩
    · exact ho hop
    · exact h.ord d hd' hop
  · exact hca

theorem stepIdx_visible {a : Authz} {t : Topic} {st0 st : Step} (h : visible a t st0 = some st) :
    stepIdx st = stepIdx st0 := by
  cases st0 with
  | nstf => simp only [visible, Option.some.injEq] at h; subst h; rfl
  | eos i p => simp only [visible, Option.some.injEq] at h; subst h; rfl
  | item it =>
    simp only [visible] at h
    split at h
    · cases h
    · simp only [Option.some.injEq] at h; subst h; rfl

theorem asc_tail {lo hi : Nat} {st0 : Step} {l : List Step} (h : Asc lo (stepIdxs (st0 :: l)) hi) :
    Asc lo (stepIdxs l) hi := by
  cases hs : stepIdx st0 with
  | none => simpa [stepIdxs, hs] using h
  | some i =>
    have : lo ≤ i ∧ Asc i (stepIdxs l) hi := by simpa [stepIdxs, hs, Asc] using h
    exact this.2.mono_lo this.1

theorem MInv.next {y : Sys} (h : MInv y) (id : Nat) : MInv (next y id).1 := by
  unfold CV.Stream.next CV.Stream.nextWith
  cases hg : getClient y id with
  | none => exact h
  | some c =>
    obtain ⟨hc, -⟩ := getClient_mem hg
    simp only
    cases hsub : c.sub with
    | none => exact h
    | force =>
      simp only
      by_cases hr : c.rpc
      · simp only [hr, ↓reduceIte]
        exact h.replace _ y.cache y.lasts (h.mono c hc) (by intro ho; simp at ho) h.cord
      · simp only [hr]
        exact h.replace _ y.cache y.lasts (h.mono c hc) (by intro ho; simp [hsub] at ho) h.cord
    | acl =>
      simp only
      by_cases hr : c.rpc
      · simp only [hr, ↓reduceIte]
        exact h.replace _ y.cache y.lasts (h.mono c hc) (by intro ho; simp at ho) h.cord
      · simp only [hr]
        exact h.replace _ y.cache y.lasts (h.mono c hc) (by intro ho; simp [hsub] at ho) h.cord
    | opened =>
      simp only
      cases hin : c.inbox with
      | nil => exact h
      | cons st0 rest =>
        simp only
        have ha := h.ord c hc hsub
        rw [hin] at ha
        cases hv : visible c.authz c.key.topic st0 with
        | none =>
          simp only
          exact h.replace _ y.cache y.lasts (h.mono c hc) (fun _ => asc_tail ha) h.cord
        | some st =>
          simp only
          have hsi := stepIdx_visible hv
          cases hidx : stepIdx st with
          | none =>
            simp only
            exact h.replace _ y.cache y.lasts (h.mono c hc) (fun _ => asc_tail ha) h.cord
          | some i =>
            simp only
            rw [hidx] at hsi
            have ha' : c.lastDelivered ≤ i ∧ Asc i (stepIdxs (rest ++ queueItems c.key y.queue)) y.lastIdx := by
              simpa [stepIdxs, ← hsi, Asc] using ha
            refine h.replace _ y.cache y.lasts ?_ (fun _ => ha'.2) h.cord
            simp [h.mono c hc, ha'.1]

theorem MInv.expire {y : Sys} (h : MInv y) : MInv (expire y) := by
  unfold CV.Stream.expire
  exact ⟨h.one, h.ib, h.mono, h.ord, (by intro e he; cases he)⟩

theorem MInv.addClient {y : Sys} (h : MInv y) (id : Nat) (k : Key) (t : String) (r : Bool) (a : Authz) :
    MInv (addClient y id k t r a) := by
  unfold CV.Stream.addClient
  cases hg : getClient y id with
  | some c => simpa using h
  | none =>
    simp only [Option.isSome_none, Bool.false_eq_true, ↓reduceIte]
    refine ⟨h.one, h.ib, ?_, ?_, h.cord⟩
    · intro c hc
      rcases List.mem_append.mp hc with hc | hc
      · exact h.mono c hc
      · simp only [List.mem_singleton] at hc; subst hc; rfl
    · intro c hc ho
      rcases List.mem_append.mp hc with hc | hc
      · exact h.ord c hc ho
      · simp only [List.mem_singleton] at hc; subst hc; simp at ho

theorem MInv.unsub {y : Sys} (h : MInv y) (id : Nat) : MInv (unsub y id) := by
  unfold CV.Stream.unsub
  cases hg : getClient y id with
  | none => exact h
  | some c =>
    obtain ⟨hc, -⟩ := getClient_mem hg
    simp only
    by_cases ha : attached c
    · simp only [ha, not_true_eq_false, ↓reduceIte]
      split
      · exact h.replace { c with sub := .none, inbox := [] } y.cache y.lasts (h.mono c hc) (by intro ho; simp at ho) h.cord
      · exact h.replace { c with sub := .none, inbox := [] } _ _ (h.mono c hc) (by intro ho; simp at ho)
          (fun e he => h.cord e (List.mem_filter.mp he).1)
    · simp only [ha, not_false_eq_true, ↓reduceIte]
      exact h

theorem MInv.restore {y : Sys} (h : MInv y) (c : Cat) (hib : IdxBound c y.lastIdx)
    (hna : ∀ d ∈ y.clients, attached d = false) : MInv (restore y c) := by
  unfold CV.Stream.restore
  refine ⟨h.one, hib, ?_, ?_, (by intro e he; cases he)⟩
  · intro d hd
    obtain ⟨d0, hd0, rfl⟩ := List.mem_map.mp hd
    split <;> exact h.mono d0 hd0
  · intro d hd ho
    obtain ⟨d0, hd0, rfl⟩ := List.mem_map.mp hd
    have := hna d0 hd0
    by_cases h1 : d0.sub = .opened
    · simp [attached, h1] at this
    · simp [h1] at ho

theorem asc_const (q si hi : Nat) (n : Nat) (h1 : q ≤ si) (h2 : si ≤ hi) :
    Asc 0 (List.replicate n q ++ [si]) hi := by
  have : ∀ lo, lo ≤ q → Asc lo (List.replicate n q ++ [si]) hi := by
    induction n with
    | zero => intro lo hlo; exact ⟨Nat.le_trans hlo h1, h2⟩
    | succ m ih => intro lo hlo; exact ⟨hlo, ih q (Nat.le_refl _)⟩
  exact this 0 (Nat.zero_le _)

theorem MInv.subscribe {y : Sys} (h : MInv y) (id : Nat) (hcl : CleanSub y id) : MInv (subscribe y id) := by
  unfold CV.Stream.subscribe
  obtain ⟨hq, hcl⟩ := hcl
  cases hg : getClient y id with
  | none => exact h
  | some c =>
    obtain ⟨hc, -⟩ := getClient_mem hg
    rw [hg] at hcl
    simp only at hcl ⊢
    by_cases ha : attached c = true
    · simp [ha]; exact h
    · rcases hcl with hcl | ⟨hnr, htail⟩
      · exact absurd hcl ha
      simp only [ha, Bool.false_eq_true, ↓reduceIte, hnr]
      have hpre : stepIdxs (preamble c) = [] := by
        unfold preamble; split <;> rfl
      cases hf : y.cache.find? (fun e => e.key = c.key) with
      | some en =>
        simp only
        have hen : en ∈ y.cache := List.mem_of_find?_eq_some hf
        have hek : en.key = c.key := by simpa using List.find?_some hf
        have := h.replace (openSub c (preamble c ++ en.steps)) y.cache y.lasts rfl (by
          intro _
          simp only [openSub]
          rw [List.append_assoc, stepIdxs_append, hpre, List.nil_append, ← hek]
          exact h.cord en hen) h.cord
        exact this
      | none =>
        simp only
        rw [hf] at htail
        simp only [Option.isSome_none, Bool.false_eq_true, false_or] at htail
        have hnew : Asc 0 (stepIdxs ((freshEnt c.key y.cat (lookup? c.key y.lasts)).steps ++ queueItems c.key y.queue)) y.lastIdx := by
          rw [hq]
          unfold CacheEnt.steps
          rw [htail]
          simp only [freshEnt, List.map_nil, List.append_nil, queueItems, List.filterMap_nil, List.map_map]
          have : stepIdxs (List.map (Step.item ∘ fun evs => ({ idx := queryIdx c.key y.cat, evs := evs, post := query c.key y.cat } : Item))
                (snapshotItems c.key y.cat) ++ [Step.eos (snapIdx c.key y.cat) (query c.key y.cat)])
              = List.replicate (snapshotItems c.key y.cat).length (queryIdx c.key y.cat) ++ [snapIdx c.key y.cat] := by
            rw [stepIdxs_append]
            congr 1
            generalize snapshotItems c.key y.cat = l
            induction l with
            | nil => rfl
            | cons a r ih =>
              simp only [List.map_cons, List.length_cons, List.replicate_succ]
              simp only [stepIdxs, List.filterMap_cons, Function.comp, stepIdx] at ih ⊢
              rw [ih]
          rw [this]
          exact asc_const _ _ _ _ (queryIdx_le_snapIdx _ _) (snapIdx_le h.ib h.one _)
        have := h.replace (openSub c (preamble c ++ (freshEnt c.key y.cat (lookup? c.key y.lasts)).steps))
          (if y.ttl then y.cache ++ [freshEnt c.key y.cat (lookup? c.key y.lasts)] else y.cache) y.lasts rfl (by
            intro _
            simp only [openSub]
            rw [List.append_assoc, stepIdxs_append, hpre, List.nil_append]
            exact hnew) (by
            intro e he
            split at he
            · rcases List.mem_append.mp he with he | he
              · exact h.cord e he
              · simp only [List.mem_singleton] at he; subst he; exact hnew
            · exact h.cord e he)
        exact this

end CV.Stream
