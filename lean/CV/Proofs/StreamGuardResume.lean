/-
Helper lemmas for C11, index-guard variant: the RESUME path of `Subscribe` is sound for the system
whose materializers apply the index guard, for subscriptions that start at ANY moment (also
while batches are queued).
-/
import CV.Proofs.StreamResume
namespace CV.Stream

/-! ### walking the chain of queued batches -/

theorem QChain.no_events {pc cat : Cat} {q : List Batch} (k : Key) (h : QChain pc q cat)
    (hn : ∀ b ∈ q, evsFor k b.evs = []) : ViewEq (query k cat) (query k pc) := by
  induction q generalizing pc with
  | nil => cases h; exact ViewEq.refl _
  | cons b r ih =>
    have h1 := h.1 k
    rw [hn b List.mem_cons_self, applyEvs_nil] at h1
    exact (ih h.2 (fun x hx => hn x (List.mem_cons_of_mem _ hx))).trans h1

theorem QChain.split {pc cat : Cat} {q1 q2 : List Batch} {b : Batch} (h : QChain pc (q1 ++ b :: q2) cat) :
    QChain b.cat q2 cat := by
  induction q1 generalizing pc with
  | nil => exact h.2
  | cons a r ih => exact ih h.2

/-- a queued batch whose index equals the index the query reports is the last queued batch that
    touches the key: the current query result is the one right after it -/
theorem query_at_reported_index {y : Sys} {pc : Cat} (hch : QChain pc y.queue y.cat)
    (hsort : y.queue.Pairwise (fun a b => a.idx < b.idx))
    (hqb : ∀ b ∈ y.queue, ∀ k, evsFor k b.evs ≠ [] → b.idx ≤ queryIdx k y.cat)
    {k : Key} {b : Batch} (hb : b ∈ y.queue) {n : Nat} (hle : queryIdx k y.cat ≤ n) (hidx : b.idx = n) :
    ViewEq (query k y.cat) (query k b.cat) := by
  obtain ⟨q1, q2, hq⟩ := List.append_of_mem hb
  rw [hq] at hch hsort
  have hc2 := hch.split
  apply hc2.no_events k
  intro b' hb'
  apply Classical.byContradiction
  intro hne
  have h1 : b'.idx ≤ queryIdx k y.cat := hqb b' (by rw [hq]; exact List.mem_append_right _ (List.mem_cons_of_mem _ hb')) k hne
  have h2 : b.idx < b'.idx := by
    rw [List.pairwise_append] at hsort
    exact (List.pairwise_cons.mp hsort.2.1).1 b' hb'
  omega

/-- replaying the queued batches of `k`, in order, from the query result as of the last published
    batch reaches the current query result (the guard lets every one of them through: their
    indexes are above the materializer's) -/
theorem SimG.of_qchain {B : Nat} {k : Key} {q : List Batch} {pc cat : Cat} {m : Mat}
    (hch : QChain pc q cat) (hsort : q.Pairwise (fun a b => a.idx < b.idx))
    (hlt : ∀ b ∈ q, m.index < b.idx) (hB : ∀ b ∈ q, b.idx ≤ B) (hmB : m.index ≤ B)
    (hl : m.h = .stream ∨ m.h = .resume) (hk : HOk m) (hex : Exact m) (hv : ViewEq m.view (query k pc)) :
    SimG B m (queueItems k q) (query k cat) := by
  induction q generalizing pc m with
  | nil =>
    cases hch
    exact ⟨hk, hex, fun _ => hv, hmB⟩
  | cons b r ih =>
    have hs := List.pairwise_cons.mp hsort
    unfold queueItems
    rw [List.filterMap_cons]
    by_cases he : evsFor k b.evs = []
    · simp only [kItem, he, ↓reduceIte]
      have h1 := hch.1 k
      rw [he, applyEvs_nil] at h1
      exact ih hch.2 hs.2 (fun x hx => hlt x (List.mem_cons_of_mem _ hx)) (fun x hx => hB x (List.mem_cons_of_mem _ hx))
        hmB hl hk hex (hv.trans h1.symm)
    · simp only [kItem, he, ↓reduceIte]
      have hbi := hlt b List.mem_cons_self
      have hne : b.idx ≠ 0 := by omega
      have happ : handleG m (.item (mkItem k b)) =
          { updateView m (evsFor k b.evs) b.idx (query k b.cat) with h := .stream } := by
        rw [handleG_item_new (mkItem k b) hbi]
        rcases hl with hl | hl <;> simp [handle, hl, mkItem]
      have hvnew : ViewEq (applyEvs m.view (evsFor k b.evs)) (query k b.cat) :=
        (applyEvs_congr hv _).trans (hch.1 k).symm
      refine ⟨hk, hex, ?_⟩
      rw [happ]
      apply ih hch.2 hs.2
      · intro x hx; simpa [updateView] using hs.1 x hx
      · exact fun x hx => hB x (List.mem_cons_of_mem _ hx)
      · simpa [updateView] using hB b List.mem_cons_self
      · exact Or.inl rfl
      · exact ⟨by simp, by intro hx; simp [updateView] at hx; exact absurd hx hne,
          by intro _; simpa [updateView] using hne, by intro acc hx; simp at hx⟩
      · intro _; simpa [updateView] using hvnew
      · simpa [updateView] using hvnew

/-! ### the invariant -/

/-- what is known about a pending (index, ghost result) pair of a subscriber of `k` -/
def PostOk (y : Sys) (k : Key) (n : Nat) (post : View) : Prop :=
  n ≤ y.lastIdx ∧
  (∀ it, lookup? k y.lasts = some it → it.idx = n → ViewEq post it.post) ∧
  (∀ b ∈ y.queue, evsFor k b.evs ≠ [] → b.idx = n → ViewEq post (query k b.cat))

def StepOkG (y : Sys) (k : Key) : Step → Prop
  | .nstf => True
  | .eos si post => PostOk y k si post
  | .item x => PostOk y k x.idx x.post

structure RG (y : Sys) (pc : Cat) : Prop where
  chain : QChain pc y.queue y.cat
  qsort : y.queue.Pairwise (fun a b => a.idx < b.idx)
  qle   : ∀ b ∈ y.queue, b.idx ≤ y.lastIdx
  qpos  : ∀ b ∈ y.queue, 0 < b.idx
  lbuf  : ∀ k it, lookup? k y.lasts = some it → hasBuf y k = true
  lpost : ∀ k it, lookup? k y.lasts = some it → ViewEq it.post (query k pc)
  lq    : ∀ k it, lookup? k y.lasts = some it → it.idx ≤ y.lastIdx ∧ ∀ b ∈ y.queue, it.idx < b.idx
  cidx  : ∀ c ∈ y.clients, c.m.index ≤ y.lastIdx
  p2    : ∀ c ∈ y.clients, c.m.index ≠ 0 → PostOk y c.key c.m.index c.m.view
  pend  : ∀ c ∈ y.clients, c.sub = .opened → ∀ st ∈ c.inbox, StepOkG y c.key st
  cpend : ∀ e ∈ y.cache, ∀ st ∈ e.steps, StepOkG y e.key st

theorem RG.init (ttl : Bool) : RG (Sys.init ttl) Cat.empty := by
  refine ⟨rfl, ?_, ?_, ?_, ?_, ?_, ?_, ?_, ?_, ?_, ?_⟩ <;> simp [Sys.init, lookup?]

theorem PostOk.commit {y : Sys} {k : Key} {n : Nat} {post : View} (idx : Nat) (w : Write) (hi : y.lastIdx < idx)
    (h : PostOk y k n post) : PostOk (commit y idx w) k n post := by
  unfold CV.Stream.commit
  obtain ⟨h1, h2, h3⟩ := h
  refine ⟨by simp only; omega, h2, ?_⟩
  intro b hb hne hbn
  rcases List.mem_append.mp hb with hb | hb
  · exact h3 b hb hne hbn
  · simp only [List.mem_singleton] at hb
    subst hb
    simp only at hbn
    omega

theorem StepOkG.commit {y : Sys} {k : Key} {st : Step} (idx : Nat) (w : Write) (hi : y.lastIdx < idx)
    (h : StepOkG y k st) : StepOkG (commit y idx w) k st := by
  cases st with
  | nstf => trivial
  | eos si post => exact PostOk.commit idx w hi h
  | item x => exact PostOk.commit idx w hi h

theorem RG.commit {y : Sys} {pc : Cat} (h : RG y pc) (idx : Nat) (w : Write) (hi : y.lastIdx < idx)
    (hf : Faithful y.cat idx w) : RG (commit y idx w) pc := by
  have hle := Nat.le_of_lt hi
  refine ⟨?_, ?_, ?_, ?_, ?_, h.lpost, ?_, ?_, ?_, ?_, ?_⟩
  · exact h.chain.snoc ⟨idx, (applyWrite idx y.cat w).2.1, (applyWrite idx y.cat w).2.2, (applyWrite idx y.cat w).1⟩ hf
  · show (y.queue ++ [_]).Pairwise _
    rw [List.pairwise_append]
    refine ⟨h.qsort, by simp, ?_⟩
    intro a ha b hb
    simp only [List.mem_singleton] at hb; subst hb
    have := h.qle a ha
    simp only; omega
  · intro b hb
    show b.idx ≤ idx
    rcases List.mem_append.mp hb with hb | hb
    · exact Nat.le_trans (h.qle b hb) hle
    · simp only [List.mem_singleton] at hb; subst hb; exact Nat.le_refl _
  · intro b hb
    rcases List.mem_append.mp hb with hb | hb
    · exact h.qpos b hb
    · simp only [List.mem_singleton] at hb; subst hb; show 0 < idx; omega
  · exact h.lbuf
  · intro k it hl
    obtain ⟨h1, h2⟩ := h.lq k it hl
    refine ⟨Nat.le_trans h1 hle, ?_⟩
    intro b hb
    rcases List.mem_append.mp hb with hb | hb
    · exact h2 b hb
    · simp only [List.mem_singleton] at hb; subst hb; simp only; omega
  · intro c hc
    exact Nat.le_trans (h.cidx c hc) hle
  · intro c hc hne
    exact (h.p2 c hc hne).commit idx w hi
  · intro c hc ho st hst
    exact (h.pend c hc ho st hst).commit idx w hi
  · intro e he st hst
    exact (h.cpend e he st hst).commit idx w hi

/-! ### publishOne -/

theorem PostOk.publish {y : Sys} {pc : Cat} (h : RG y pc) {b : Batch} {rest : List Batch} (hq : y.queue = b :: rest)
    {k : Key} {n : Nat} {post : View} (hs : PostOk y k n post) : PostOk (publishOne y) k n post := by
  obtain ⟨-, hqu, hli⟩ := publishOne_cat_queue hq
  have hbq : b ∈ y.queue := by rw [hq]; exact List.mem_cons_self
  obtain ⟨h1, h2, h3⟩ := hs
  refine ⟨hli ▸ h1, ?_, ?_⟩
  · intro it hl hidx
    rw [publishOne_lasts hq] at hl
    split at hl
    · rename_i hk
      simp only [Option.some.injEq] at hl
      subst hl
      exact h3 b hbq ((mem_keysOf k b.evs).mp hk.1) hidx
    · exact h2 it hl hidx
  · intro b' hb' hne hbn
    rw [hqu] at hb'
    exact h3 b' (by rw [hq]; exact List.mem_cons_of_mem _ hb') hne hbn

theorem StepOkG.publish {y : Sys} {pc : Cat} (h : RG y pc) {b : Batch} {rest : List Batch} (hq : y.queue = b :: rest)
    {k : Key} {st : Step} (hs : StepOkG y k st) : StepOkG (publishOne y) k st := by
  cases st with
  | nstf => trivial
  | eos si post => exact PostOk.publish h hq hs
  | item x => exact PostOk.publish h hq hs

theorem RG.publishOne {y : Sys} {pc : Cat} (h : RG y pc) : ∃ pc', RG (publishOne y) pc' := by
  cases hq : y.queue with
  | nil => exact ⟨pc, by unfold CV.Stream.publishOne; rw [hq]; exact h⟩
  | cons b rest =>
    refine ⟨b.cat, ?_⟩
    obtain ⟨hcat, hqu, hli⟩ := publishOne_cat_queue hq
    have hbq : b ∈ y.queue := by rw [hq]; exact List.mem_cons_self
    have hsub : ∀ x ∈ rest, x ∈ y.queue := fun x hx => by rw [hq]; exact List.mem_cons_of_mem _ hx
    have hch := h.chain
    rw [hq] at hch
    have hso := h.qsort
    rw [hq, List.pairwise_cons] at hso
    -- the step a subscriber of a routed key gets appended
    have hnewstep : ∀ k, k ∈ keysOf b.evs → hasBuf y k = true →
        StepOkG (CV.Stream.publishOne y) k (.item (mkItem k b)) := by
      intro k hk hb'
      refine ⟨by rw [hli]; exact h.qle b hbq, ?_, ?_⟩
      · intro it hl _
        rw [publishOne_lasts hq] at hl
        simp only [hk, hb', and_self, ↓reduceIte, Option.some.injEq] at hl
        subst hl
        exact ViewEq.refl _
      · intro b' hb'' _ hbn
        rw [hqu] at hb''
        have := hso.1 b' hb''
        simp only [mkItem] at hbn
        omega
    refine ⟨by rw [hqu, hcat]; exact hch.2, by rw [hqu]; exact hso.2,
      by rw [hqu, hli]; exact fun x hx => h.qle x (hsub x hx),
      by rw [hqu]; exact fun x hx => h.qpos x (hsub x hx), ?_, ?_, ?_, ?_, ?_, ?_, ?_⟩
    · intro k it hl
      rw [publishOne_hasBuf hq]
      rw [publishOne_lasts hq] at hl
      split at hl
      · rename_i hk; exact hk.2
      · exact h.lbuf k it hl
    · intro k it hl
      rw [publishOne_lasts hq] at hl
      split at hl
      · simp only [Option.some.injEq] at hl
        subst hl
        exact ViewEq.refl _
      · rename_i hk
        have hold := h.lpost k it hl
        have hbuf := h.lbuf k it hl
        have hnk : k ∉ keysOf b.evs := fun hm => hk ⟨hm, hbuf⟩
        have he : evsFor k b.evs = [] :=
          Classical.byContradiction fun hc => hnk ((mem_keysOf k b.evs).mpr hc)
        have := hch.1 k
        rw [he, applyEvs_nil] at this
        exact hold.trans this.symm
    · intro k it hl
      rw [hli, hqu]
      rw [publishOne_lasts hq] at hl
      split at hl
      · simp only [Option.some.injEq] at hl
        subst hl
        exact ⟨h.qle b hbq, fun x hx => hso.1 x hx⟩
      · obtain ⟨h1, h2⟩ := h.lq k it hl
        exact ⟨h1, fun x hx => h2 x (hsub x hx)⟩
    · intro c' hc'
      obtain ⟨c, hc, hm, -⟩ := publishOne_mem hq c' hc'
      rw [hm, hli]; exact h.cidx c hc
    · intro c' hc' hne
      obtain ⟨c, hc, hm, hk, -⟩ := publishOne_mem hq c' hc'
      rw [hm] at hne ⊢
      rw [hk]
      exact (h.p2 c hc hne).publish h hq
    · intro c' hc' ho st hst
      obtain ⟨c, hc, -, hk, -, -, -, hs, hin, -⟩ := publishOne_mem hq c' hc'
      have hop := hs ho
      have hat : attached c = true := by simp [attached, hop]
      rw [hk]
      rw [hin] at hst
      simp only [hat, and_true] at hst
      by_cases hkk : c.key ∈ keysOf b.evs
      · simp only [hkk, ↓reduceIte] at hst
        rcases List.mem_append.mp hst with hst | hst
        · exact (h.pend c hc hop st hst).publish h hq
        · simp only [List.mem_singleton] at hst
          subst hst
          exact hnewstep c.key hkk ((hasBuf_iff y c.key).mpr ⟨c, hc, rfl, hat⟩)
      · simp only [hkk, ↓reduceIte] at hst
        exact (h.pend c hc hop st hst).publish h hq
    · intro e' he' st hst
      rw [publishOne_cache hq] at he'
      obtain ⟨e, he, rfl⟩ := List.mem_map.mp he'
      by_cases hkk : e.key ∈ keysOf b.evs ∧ hasBuf y e.key = true
      · simp only [hkk, and_self, ↓reduceIte] at hst ⊢
        rw [steps_append_tail] at hst
        rcases List.mem_append.mp hst with hst | hst
        · exact (h.cpend e he st hst).publish h hq
        · simp only [List.mem_singleton] at hst
          subst hst
          exact hnewstep e.key hkk.1 hkk.2
      · simp only [hkk, ↓reduceIte] at hst ⊢
        exact (h.cpend e he st hst).publish h hq

/-! ### steps that replace one client -/

theorem PostOk.mono_lasts {y y' : Sys} {k : Key} {n : Nat} {post : View} (hq : y'.queue = y.queue)
    (hi : y'.lastIdx = y.lastIdx) (hl : ∀ it, lookup? k y'.lasts = some it → lookup? k y.lasts = some it)
    (h : PostOk y k n post) : PostOk y' k n post :=
  ⟨hi ▸ h.1, fun it hit => h.2.1 it (hl it hit), hq ▸ h.2.2⟩

theorem StepOkG.mono_lasts {y y' : Sys} {k : Key} {st : Step} (hq : y'.queue = y.queue) (hi : y'.lastIdx = y.lastIdx)
    (hl : ∀ it, lookup? k y'.lasts = some it → lookup? k y.lasts = some it)
    (h : StepOkG y k st) : StepOkG y' k st := by
  cases st with
  | nstf => trivial
  | eos si post => exact PostOk.mono_lasts hq hi hl h
  | item x => exact PostOk.mono_lasts hq hi hl h

theorem RG.replace {y : Sys} {pc : Cat} (h : RG y pc) {c : Client} (c' : Client) (ca : List CacheEnt)
    (la : List (Key × Item)) (hc : c ∈ y.clients) (hk : c'.key = c.key)
    (hla : ∀ k it, lookup? k la = some it → lookup? k y.lasts = some it)
    (hlb : ∀ k it, lookup? k la = some it → hasBuf (setClient y c') k = true)
    (hidx : c'.m.index ≤ y.lastIdx)
    (hp2 : c'.m.index ≠ 0 → PostOk y c.key c'.m.index c'.m.view)
    (hpend : c'.sub = .opened → ∀ st ∈ c'.inbox, StepOkG y c.key st)
    (hca : ∀ en ∈ ca, ∀ st ∈ en.steps, StepOkG y en.key st) :
    RG { setClient { y with cache := ca } c' with lasts := la } pc := by
  have hmono : ∀ k st, StepOkG y k st → StepOkG { setClient { y with cache := ca } c' with lasts := la } k st :=
    fun k st hs => StepOkG.mono_lasts (y := y) (y' := { setClient { y with cache := ca } c' with lasts := la })
      rfl rfl (hla k) hs
  have hmonop : ∀ k n post, PostOk y k n post → PostOk { setClient { y with cache := ca } c' with lasts := la } k n post :=
    fun k n post hs => PostOk.mono_lasts (y := y) (y' := { setClient { y with cache := ca } c' with lasts := la })
      rfl rfl (hla k) hs
  refine ⟨h.chain, h.qsort, h.qle, h.qpos, ?_, ?_, ?_, ?_, ?_, ?_, ?_⟩
  · intro k it hl; exact hlb k it hl
  · intro k it hl; exact h.lpost k it (hla k it hl)
  · intro k it hl; exact h.lq k it (hla k it hl)
  · intro d hd
    rcases mem_setClient (y := { y with cache := ca }) hd with rfl | ⟨hd', -⟩
    · exact hidx
    · exact h.cidx d hd'
  · intro d hd hi
    rcases mem_setClient (y := { y with cache := ca }) hd with rfl | ⟨hd', -⟩
    · rw [hk]; exact hmonop _ _ _ (hp2 hi)
    · exact hmonop _ _ _ (h.p2 d hd' hi)
  · intro d hd ho st hst
    rcases mem_setClient (y := { y with cache := ca }) hd with rfl | ⟨hd', -⟩
    · rw [hk]; exact hmono _ _ (hpend ho st hst)
    · exact hmono _ _ (h.pend d hd' ho st hst)
  · intro en hen st hst
    exact hmono _ _ (hca en hen st hst)

theorem handleG_cases (m : Mat) (st : Step) : handleG m st = m ∨ handleG m st = handle m st := by
  cases st with
  | nstf => exact Or.inr rfl
  | eos i p => exact Or.inr rfl
  | item it =>
    unfold handleG
    cases m.h with
    | stream => by_cases h : it.idx ≤ m.index <;> simp [h]
    | resume => by_cases h : it.idx ≤ m.index <;> simp [h]
    | snap acc => exact Or.inr rfl
    | bad => exact Or.inr rfl

theorem RG.nextG {y : Sys} {pc : Cat} (h : RG y pc) (hi : InvG y) (id : Nat)
    (hz : ∀ c, getClient y id = some c → c.authz = .all) : RG (nextG y id).1 pc := by
  unfold CV.Stream.nextG CV.Stream.nextWith
  cases hg : getClient y id with
  | none => exact h
  | some c =>
    obtain ⟨hc, -⟩ := getClient_mem hg
    simp only
    have hlb : ∀ (c' : Client), c'.id = c.id → c'.key = c.key → c'.sub = c.sub →
        ∀ k it, lookup? k y.lasts = some it → hasBuf (setClient y c') k = true := by
      intro c' e hk hs k it hl
      rw [hasBuf_congr (setClient_shape hi.ids hc e hk hs)]
      exact h.lbuf k it hl
    cases hsub : c.sub with
    | none => exact h
    | force =>
      simp only
      by_cases hr : c.rpc
      · simp only [hr, ↓reduceIte]
        exact h.replace _ y.cache y.lasts hc rfl (fun _ _ x => x) (hlb _ rfl rfl hsub.symm) (Nat.zero_le _)
          (by intro hx; simp [Mat.reset] at hx) (by intro ho; simp at ho) h.cpend
      · simp only [hr]
        exact h.replace _ y.cache y.lasts hc rfl (fun _ _ x => x) (hlb _ rfl rfl rfl) (h.cidx c hc)
          (h.p2 c hc) (fun ho => h.pend c hc ho) h.cpend
    | acl =>
      simp only
      by_cases hr : c.rpc
      · simp only [hr, ↓reduceIte]
        exact h.replace _ y.cache y.lasts hc rfl (fun _ _ x => x) (hlb _ rfl rfl hsub.symm) (Nat.zero_le _)
          (by intro hx; simp [Mat.reset] at hx) (by intro ho; simp at ho) h.cpend
      · simp only [hr]
        exact h.replace _ y.cache y.lasts hc rfl (fun _ _ x => x) (hlb _ rfl rfl rfl) (h.cidx c hc)
          (h.p2 c hc) (fun ho => h.pend c hc ho) h.cpend
    | opened =>
      simp only
      cases hin : c.inbox with
      | nil => exact h
      | cons st rest =>
        simp only [hz c hg, visible_all]
        have hs := hi.sim c hc hsub
        rw [hin] at hs
        obtain ⟨hk0, -, hrest⟩ := hs
        have hex := hrest.exact
        have hst : StepOkG y c.key st := h.pend c hc hsub st (by rw [hin]; exact List.mem_cons_self)
        have hrestok : ∀ s' ∈ rest, StepOkG y c.key s' := fun s' hs' =>
          h.pend c hc hsub s' (by rw [hin]; exact List.mem_cons_of_mem _ hs')
        have hfacts : (handleG c.m st).index ≤ y.lastIdx ∧
            ((handleG c.m st).index ≠ 0 → PostOk y c.key (handleG c.m st).index (handleG c.m st).view) := by
          rcases handleG_cases c.m st with he | he
          · rw [he]; exact ⟨h.cidx c hc, h.p2 c hc⟩
          · rw [he] at hex ⊢
            rcases handle_index hk0 st with h0 | ⟨si, post, rfl, h1, h2⟩ | ⟨x, rfl, h1, h2⟩
            · rw [h0]; exact ⟨Nat.zero_le _, fun hne => absurd rfl hne⟩
            · refine ⟨by rw [h1]; exact hst.1, fun hne => ?_⟩
              have hv := hex hne
              rw [h2] at hv
              rw [h1]
              exact ⟨hst.1, fun it hl hix => hv.trans (hst.2.1 it hl hix), fun b hb hne' hbn => hv.trans (hst.2.2 b hb hne' hbn)⟩
            · refine ⟨by rw [h1]; exact hst.1, fun hne => ?_⟩
              have hv := hex hne
              rw [h2] at hv
              rw [h1]
              exact ⟨hst.1, fun it hl hix => hv.trans (hst.2.1 it hl hix), fun b hb hne' hbn => hv.trans (hst.2.2 b hb hne' hbn)⟩
        cases hsi : stepIdx st with
        | none =>
          simp only
          exact h.replace _ y.cache y.lasts hc rfl (fun _ _ x => x) (hlb _ rfl rfl hsub.symm) hfacts.1 hfacts.2
            (fun _ => hrestok) h.cpend
        | some i =>
          simp only
          exact h.replace _ y.cache y.lasts hc rfl (fun _ _ x => x) (hlb _ rfl rfl hsub.symm) hfacts.1 hfacts.2
            (fun _ => hrestok) h.cpend

theorem RG.expire {y : Sys} {pc : Cat} (h : RG y pc) : RG (expire y) pc := by
  unfold CV.Stream.expire
  exact ⟨h.chain, h.qsort, h.qle, h.qpos, h.lbuf, h.lpost, h.lq, h.cidx, h.p2, h.pend, (by intro e he; cases he)⟩

theorem RG.addClient {y : Sys} {pc : Cat} (h : RG y pc) (id : Nat) (k : Key) (t : String) (r : Bool) (a : Authz) :
    RG (addClient y id k t r a) pc := by
  unfold CV.Stream.addClient
  cases hg : getClient y id with
  | some c => simpa using h
  | none =>
    simp only [Option.isSome_none, Bool.false_eq_true, ↓reduceIte]
    refine ⟨h.chain, h.qsort, h.qle, h.qpos, ?_, h.lpost, h.lq, ?_, ?_, ?_, h.cpend⟩
    · intro k' it hl
      obtain ⟨c, hc, hk, ha⟩ := (hasBuf_iff y k').mp (h.lbuf k' it hl)
      exact (hasBuf_iff _ k').mpr ⟨c, List.mem_append_left _ hc, hk, ha⟩
    · intro c hc
      rcases List.mem_append.mp hc with hc | hc
      · exact h.cidx c hc
      · simp only [List.mem_singleton] at hc; subst hc; exact Nat.zero_le _
    · intro c hc hi
      rcases List.mem_append.mp hc with hc | hc
      · exact h.p2 c hc hi
      · simp only [List.mem_singleton] at hc; subst hc; simp at hi
    · intro c hc ho st hst
      rcases List.mem_append.mp hc with hc | hc
      · exact h.pend c hc ho st hst
      · simp only [List.mem_singleton] at hc; subst hc; simp at ho

theorem RG.unsub {y : Sys} {pc : Cat} (h : RG y pc) (hi : InvG y) (id : Nat) : RG (unsub y id) pc := by
  unfold CV.Stream.unsub
  cases hg : getClient y id with
  | none => exact h
  | some c =>
    obtain ⟨hc, -⟩ := getClient_mem hg
    simp only
    by_cases ha : attached c
    · simp only [ha, not_true_eq_false, ↓reduceIte]
      have hoth : ∀ k, k ≠ c.key → hasBuf (setClient y { c with sub := .none, inbox := [] }) k = hasBuf y k :=
        fun k hk => hasBuf_setClient_other (c := c) (c' := { c with sub := .none, inbox := [] }) hi.ids hc rfl rfl hk
      by_cases hb : hasBuf (setClient y { c with sub := .none, inbox := [] }) c.key
      · simp only [hb, ↓reduceIte]
        refine h.replace { c with sub := .none, inbox := [] } y.cache y.lasts hc rfl (fun _ _ x => x) ?_
          (h.cidx c hc) (h.p2 c hc) (by intro ho; simp at ho) h.cpend
        intro k it hl
        by_cases hk : k = c.key
        · rw [hk]; exact hb
        · rw [hoth k hk]; exact h.lbuf k it hl
      · simp only [hb, Bool.false_eq_true, ↓reduceIte]
        refine h.replace { c with sub := .none, inbox := [] } (y.cache.filter fun e => e.key ≠ c.key) (erase c.key y.lasts)
          hc rfl ?_ ?_ (h.cidx c hc) (h.p2 c hc) (by intro ho; simp at ho)
          (fun en hen => h.cpend en (List.mem_filter.mp hen).1)
        · intro k it hl
          rw [lookup?_erase] at hl
          by_cases hk : k = c.key
          · simp [hk] at hl
          · simpa [hk] using hl
        · intro k it hl
          rw [lookup?_erase] at hl
          by_cases hk : k = c.key
          · simp [hk] at hl
          · simp only [hk, ↓reduceIte] at hl
            rw [hoth k hk]; exact h.lbuf k it hl
    · simp only [ha, not_false_eq_true, ↓reduceIte]
      exact h

/-! ### subscribe at any moment, resume included -/

theorem postOk_fresh {y : Sys} {pc : Cat} (h : RG y pc) (hi : InvG y) (k : Key) (n : Nat)
    (hlo : queryIdx k y.cat ≤ n) (hhi : n ≤ y.lastIdx) : PostOk y k n (query k y.cat) := by
  refine ⟨hhi, ?_, ?_⟩
  · intro it hl hidx
    have hno : ∀ b ∈ y.queue, evsFor k b.evs = [] := by
      intro b hb
      apply Classical.byContradiction
      intro hne
      have h1 := (h.lq k it hl).2 b hb
      have h2 := hi.qb b hb k hne
      omega
    exact (h.chain.no_events k hno).trans (h.lpost k it hl).symm
  · intro b hb _ hbn
    exact query_at_reported_index h.chain h.qsort hi.qb hb hlo hbn

theorem freshEnt_tail_nil {y : Sys} (hi : InvG y) (k : Key) : (freshEnt k y.cat (lookup? k y.lasts)).tail = [] := by
  simp only [freshEnt]
  cases hl : lookup? k y.lasts with
  | none => rfl
  | some it =>
    have h1 := hi.lb k it hl
    have h2 := queryIdx_le_snapIdx k y.cat
    simp only
    rw [if_neg (by omega)]

theorem stepOkG_fresh {y : Sys} {pc : Cat} (h : RG y pc) (hi : InvG y) (k : Key) :
    ∀ st ∈ (freshEnt k y.cat (lookup? k y.lasts)).steps, StepOkG y k st := by
  intro st hst
  unfold CacheEnt.steps at hst
  rw [freshEnt_tail_nil hi k] at hst
  simp only [freshEnt, List.map_nil, List.append_nil, List.map_map] at hst
  rcases List.mem_append.mp hst with hst | hst
  · obtain ⟨evs, -, rfl⟩ := List.mem_map.mp hst
    exact postOk_fresh h hi k _ (Nat.le_refl _) (queryIdx_le hi.ib k)
  · simp only [List.mem_singleton] at hst
    subst hst
    exact postOk_fresh h hi k _ (queryIdx_le_snapIdx k y.cat) (snapIdx_le hi.ib hi.one k)

theorem RG.subscribe {y : Sys} {pc : Cat} (h : RG y pc) (hi : InvG y) (id : Nat) : RG (subscribe y id) pc := by
  cases hg : getClient y id with
  | none => unfold CV.Stream.subscribe; rw [hg]; exact h
  | some c =>
    obtain ⟨hc, -⟩ := getClient_mem hg
    by_cases ha : attached c = true
    · unfold CV.Stream.subscribe; simp [hg, ha]; exact h
    · have ha' : attached c = false := by simpa using ha
      have hlb : ∀ inbox, ∀ k it, lookup? k y.lasts = some it → hasBuf (setClient y (openSub c inbox)) k = true :=
        fun inbox k it hl => hasBuf_setClient_mono (c' := openSub c inbox) hi.ids hc rfl ha' (h.lbuf k it hl)
      have hpre : ∀ st ∈ preamble c, StepOkG y c.key st := by
        intro st hst
        unfold preamble at hst
        split at hst
        · simp only [List.mem_singleton] at hst; subst hst; trivial
        · cases hst
      by_cases hres : resumes c (lookup? c.key y.lasts) = true
      · rw [subscribe_resume_eq hg ha' hres]
        exact h.replace (openSub c []) y.cache y.lasts hc rfl (fun _ _ x => x) (hlb []) (h.cidx c hc)
          (h.p2 c hc) (by intro _ st hst; cases hst) h.cpend
      · have hresf : resumes c (lookup? c.key y.lasts) = false := by simpa using hres
        unfold CV.Stream.subscribe
        simp only [hg, ha, Bool.false_eq_true, ↓reduceIte, hresf]
        cases hf : y.cache.find? (fun e => e.key = c.key) with
        | some en =>
          simp only
          have hen : en ∈ y.cache := List.mem_of_find?_eq_some hf
          have hek : en.key = c.key := by simpa using List.find?_some hf
          refine h.replace (openSub c (preamble c ++ en.steps)) y.cache y.lasts hc rfl (fun _ _ x => x) (hlb _)
            (h.cidx c hc) (h.p2 c hc) ?_ h.cpend
          intro _ st hst
          rcases List.mem_append.mp hst with hst | hst
          · exact hpre st hst
          · rw [← hek]; exact h.cpend en hen st hst
        | none =>
          simp only
          have hfresh := stepOkG_fresh h hi c.key
          refine h.replace (openSub c (preamble c ++ (freshEnt c.key y.cat (lookup? c.key y.lasts)).steps))
            (if y.ttl then y.cache ++ [freshEnt c.key y.cat (lookup? c.key y.lasts)] else y.cache) y.lasts
            hc rfl (fun _ _ x => x) (hlb _) (h.cidx c hc) (h.p2 c hc) ?_ ?_
          · intro _ st hst
            rcases List.mem_append.mp hst with hst | hst
            · exact hpre st hst
            · exact hfresh st hst
          · intro en hen st hst
            split at hen
            · rcases List.mem_append.mp hen with hen | hen
              · exact h.cpend en hen st hst
              · simp only [List.mem_singleton] at hen
                subst hen
                exact hfresh st hst
            · exact h.cpend en hen st hst

/-- **the resume path under the index guard.** A materializer that `Subscribe` would resume —
    at ANY moment, also while batches are queued — replays, from its own view, through exactly
    the queued batches of its key to the current direct-query result. -/
theorem resume_sim_guard {y : Sys} {pc : Cat} (h : RG y pc) (hi : InvG y) {c : Client} (hc : c ∈ y.clients)
    (hr : resumes c (lookup? c.key y.lasts) = true) :
    SimG y.lastIdx c.m.start (queueItems c.key y.queue) (query c.key y.cat) := by
  obtain ⟨hne, it, hl, hidx⟩ := resumes_true hr
  have hp := h.p2 c hc hne
  have hv : ViewEq c.m.view (query c.key pc) := (hp.2.1 it hl hidx).trans (h.lpost c.key it hl)
  have hkc := hi.hok c hc
  have hstart : c.m.start = { c.m with h := .resume } := by simp [Mat.start, hne]
  apply SimG.of_qchain h.chain h.qsort
  · intro b hb
    have := (h.lq c.key it hl).2 b hb
    show c.m.index < b.idx
    omega
  · exact h.qle
  · exact h.cidx c hc
  · right; rw [hstart]
  · exact hkc.start
  · exact hi.exact c hc
  · exact hv

theorem InvG.subscribeAny {y : Sys} {pc : Cat} (h : InvG y) (hr : RG y pc) (id : Nat) :
    InvG (CV.Stream.subscribe y id) := by
  cases hg : getClient y id with
  | none => unfold CV.Stream.subscribe; rw [hg]; exact h
  | some c =>
    obtain ⟨hc, -⟩ := getClient_mem hg
    by_cases ha : attached c = true
    · unfold CV.Stream.subscribe; simp [hg, ha]; exact h
    · have ha' : attached c = false := by simpa using ha
      by_cases hres : resumes c (lookup? c.key y.lasts) = true
      · rw [subscribe_resume_eq hg ha' hres]
        have hsim := resume_sim_guard hr h hc hres
        refine h.replace (openSub c []) y.cache y.lasts hc rfl (h.hok c hc).start (h.exact c hc)
          (fun _ => by
            show SimG y.lastIdx c.m.start ([] ++ queueItems c.key y.queue) (query c.key y.cat)
            rw [List.nil_append]; exact hsim) ?_ h.lb
        intro en hen
        exact ⟨h.cache en hen, hasBuf_setClient_mono (c' := openSub c []) h.ids hc rfl ha' (h.cbuf en hen)⟩
      · refine InvG.subscribe h id ?_
        unfold NoResume
        rw [hg]
        exact Or.inr (by simpa using hres)

end CV.Stream
