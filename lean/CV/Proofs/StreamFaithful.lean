/-
Helper lemmas for C11, catalog side: which writes are `Faithful` (their events describe exactly
what they do to every query).
-/
import CV.Proofs.StreamInv
namespace CV.Stream

theorem faithful_kv (c : Cat) (idx : Nat) : Faithful c idx .kv := fun _ => ViewEq.refl _
theorem faithful_tok (c : Cat) (idx : Nat) (t : String) : Faithful c idx (.tok t) := fun _ => ViewEq.refl _

def cfgVal (n : String) (v : Nat) : Val := ⟨n, v, 0, .typical⟩

theorem lookup?_cfg_named (n : String) (l : List (String × Nat)) (i : Id) :
    lookup? i ((l.filter (fun p => p.1 = n)).map fun p => (((p.1, ""), cfgVal p.1 p.2) : Id × Val)) =
      if i = (n, "") then (lookup? n l).map (cfgVal n) else none := by
  induction l with
  | nil => simp
  | cons p r ih =>
    obtain ⟨a, b⟩ := p
    by_cases ha : a = n
    · subst ha
      simp only [List.filter_cons, decide_true, ↓reduceIte, List.map_cons, lookup?_cons]
      by_cases hi : i = (a, "")
      · subst hi; simp
      · have : ¬ ((a, "") : Id) = i := fun e => hi e.symm
        simp [this, hi, ih]
    · simp only [List.filter_cons, ha, decide_false, Bool.false_eq_true, ↓reduceIte, ih, lookup?_cons]

theorem lookup?_cfg_wild (l : List (String × Nat)) (i : Id) :
    lookup? i (l.map fun p => (((p.1, ""), cfgVal p.1 p.2) : Id × Val)) =
      if i.2 = "" then (lookup? i.1 l).map (cfgVal i.1) else none := by
  induction l with
  | nil => simp
  | cons p r ih =>
    obtain ⟨a, b⟩ := p
    obtain ⟨i1, i2⟩ := i
    simp only [List.map_cons, lookup?_cons, ih, Prod.mk.injEq]
    by_cases h1 : a = i1
    · subst h1
      by_cases h2 : i2 = ""
      · subst h2; simp
      · have : ¬ "" = i2 := fun e => h2 e.symm
        simp [h2, this]
    · simp [h1]

theorem query_cfg_named (n : String) (c : Cat) :
    query ⟨.cfg, .named n⟩ c = (c.cfgs.filter (fun p => p.1 = n)).map fun p => (((p.1, ""), cfgVal p.1 p.2) : Id × Val) := rfl
theorem query_cfg_wild (c : Cat) :
    query ⟨.cfg, .wild⟩ c = c.cfgs.map fun p => (((p.1, ""), cfgVal p.1 p.2) : Id × Val) := rfl

/-- queries on the service topics do not look at config entries or index rows -/
theorem query_svc_congr (k : Key) (hk : k.topic ≠ .cfg) {c c' : Cat} (hs : c'.svcs = c.svcs) (hn : c'.nodes = c.nodes) :
    query k c' = query k c := by
  obtain ⟨t, sj⟩ := k
  cases t <;> cases sj <;> simp_all [query, render, nodeAddr]

theorem evsFor_cfg_single (k : Key) (n : String) (e : Ev) (he : e.key = ⟨.cfg, .named n⟩) :
    evsFor k [e] = if k = ⟨.cfg, .named n⟩ ∨ k = ⟨.cfg, .wild⟩ then [e] else [] := by
  unfold evsFor
  simp only [List.filter_cons, List.filter_nil, he, wildOf, Option.some.injEq]
  by_cases h1 : k = ⟨.cfg, .named n⟩
  · simp [h1]
  · by_cases h2 : k = ⟨.cfg, .wild⟩
    · simp [h2]
    · have a1 : ¬ (⟨.cfg, .named n⟩ : Key) = k := fun e => h1 e.symm
      have a2 : ¬ (⟨.cfg, .wild⟩ : Key) = k := fun e => h2 e.symm
      simp [h1, h2, a1, a2]

theorem faithful_cfgSet (c : Cat) (idx : Nat) (n : String) (v : Nat) : Faithful c idx (.cfgSet n v) := by
  intro k i
  simp only [applyWrite]
  rw [evsFor_cfg_single k n _ rfl]
  by_cases h1 : k = ⟨.cfg, .named n⟩
  · subst h1
    simp only [true_or, ↓reduceIte, applyEvs_cons, applyEvs_nil, lookup?_applyEv]
    rw [query_cfg_named, query_cfg_named, lookup?_cfg_named, lookup?_cfg_named]
    by_cases hi : i = (n, "")
    · simp [hi, lookup?_upsert, cfgVal]
    · simp [hi]
  · by_cases h2 : k = ⟨.cfg, .wild⟩
    · subst h2
      simp only [or_true, ↓reduceIte, applyEvs_cons, applyEvs_nil, lookup?_applyEv]
      rw [query_cfg_wild, query_cfg_wild, lookup?_cfg_wild, lookup?_cfg_wild]
      obtain ⟨i1, i2⟩ := i
      by_cases hi : i1 = n
      · subst hi
        by_cases h2 : i2 = ""
        · subst h2; simp [lookup?_upsert, cfgVal]
        · simp [h2]
      · by_cases h2 : i2 = ""
        · subst h2; simp [lookup?_upsert, hi]
        · simp [h2]
    · simp only [h1, h2, or_self, ↓reduceIte, applyEvs_nil]
      obtain ⟨t, sj⟩ := k
      cases t with
      | cfg =>
        cases sj with
        | wild => exact absurd rfl h2
        | named m =>
          have hm : m ≠ n := fun e => h1 (by rw [e])
          rw [query_cfg_named, query_cfg_named, lookup?_cfg_named, lookup?_cfg_named, lookup?_upsert]
          simp [hm]
      | health => exact congrArg (lookup? i) (query_svc_congr _ (by simp) (c := c) rfl rfl)
      | connect => exact congrArg (lookup? i) (query_svc_congr _ (by simp) (c := c) rfl rfl)

theorem faithful_cfgDel (c : Cat) (idx : Nat) (n : String) : Faithful c idx (.cfgDel n) := by
  intro k i
  simp only [applyWrite]
  cases hl : lookup? n c.cfgs with
  | none => rfl
  | some v =>
    simp only
    rw [evsFor_cfg_single k n _ rfl]
    by_cases h1 : k = ⟨.cfg, .named n⟩
    · subst h1
      simp only [true_or, ↓reduceIte, applyEvs_cons, applyEvs_nil, lookup?_applyEv]
      rw [query_cfg_named, query_cfg_named, lookup?_cfg_named, lookup?_cfg_named]
      by_cases hi : i = (n, "")
      · simp [hi, lookup?_erase]
      · simp [hi]
    · by_cases h2 : k = ⟨.cfg, .wild⟩
      · subst h2
        simp only [or_true, ↓reduceIte, applyEvs_cons, applyEvs_nil, lookup?_applyEv]
        rw [query_cfg_wild, query_cfg_wild, lookup?_cfg_wild, lookup?_cfg_wild]
        obtain ⟨i1, i2⟩ := i
        by_cases hi : i1 = n
        · subst hi
          by_cases h2 : i2 = ""
          · subst h2; simp [lookup?_erase]
          · simp [h2]
        · by_cases h2 : i2 = ""
          · subst h2; simp [lookup?_erase, hi]
          · simp [h2]
      · simp only [h1, h2, or_self, ↓reduceIte, applyEvs_nil]
        obtain ⟨t, sj⟩ := k
        cases t with
        | cfg =>
          cases sj with
          | wild => exact absurd rfl h2
          | named m =>
            have hm : m ≠ n := fun e => h1 (by rw [e])
            rw [query_cfg_named, query_cfg_named, lookup?_cfg_named, lookup?_cfg_named, lookup?_erase]
            simp [hm]
        | health => exact congrArg (lookup? i) (query_svc_congr _ (by simp) (c := c) rfl rfl)
        | connect => exact congrArg (lookup? i) (query_svc_congr _ (by simp) (c := c) rfl rfl)

end CV.Stream
