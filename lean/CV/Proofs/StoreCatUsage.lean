/-
Usage counters of the C07 model (`commitUsage`, usage.go `updateUsage`): the `nodes` counter is exact in every
reachable state — it equals the number of node rows of the local catalog. (The change set of a table with one
row per key has as many creations minus deletions as the table grew; every other delta of a transaction is
filed under another usage id.)
-/
import CV.Proofs.StoreCatVip
import CV.Store.CatXSpec
namespace CV.Store
open CV

/-! ### the delta map -/

def deltaGet (d : Deltas) (id : String) : Option Int := (d.find? (fun e => e.1 == id)).map (·.2)

theorem deltaGet_addDelta_self (d : Deltas) (id : String) (n : Int) :
    deltaGet (addDelta d id n) id = some ((deltaGet d id).getD 0 + n) := by
  induction d with
  | nil => simp [addDelta, deltaGet]
  | cons e rest ih =>
    obtain ⟨k, v⟩ := e
    unfold addDelta
    by_cases hk : k = id
    · simp [hk, deltaGet]
    · have hk' : (k == id) = false := by simpa using hk
      simp only [hk, if_false]
      unfold deltaGet at ih ⊢
      simp only [List.find?_cons, hk']
      exact ih

theorem deltaGet_addDelta_ne (d : Deltas) {id id' : String} (n : Int) (h : id' ≠ id) :
    deltaGet (addDelta d id' n) id = deltaGet d id := by
  induction d with
  | nil =>
    have : (id' == id) = false := by simpa using h
    simp [addDelta, deltaGet, this]
  | cons e rest ih =>
    obtain ⟨k, v⟩ := e
    unfold addDelta
    by_cases hk : k = id'
    · have hk2 : (k == id) = false := by rw [hk]; simpa using h
      simp [hk, deltaGet, List.find?_cons, hk2]
      have : (id' == id) = false := by simpa using h
      simp [this]
    · simp only [hk, if_false]
      unfold deltaGet at ih ⊢
      simp only [List.find?_cons]
      split
      · rfl
      · exact ih

/-- sum of +1 / −1 / 0 over a change list -/
def changeSum {α : Type} : List (Option α × Option α) → Int
  | [] => 0
  | ch :: rest => changeDelta ch + changeSum rest

/-- a change list as `changesOf` produces it: no (none, none) entries -/
def NoEmpty {α : Type} (chs : List (Option α × Option α)) : Prop := ∀ ch ∈ chs, ch ≠ (none, none)

theorem countDeltas_const_get {α : Type} (c : String) : ∀ (chs : List (Option α × Option α)) (d : Deltas), NoEmpty chs →
    deltaGet (countDeltas (fun _ => c) d chs) c =
      (if chs = [] then deltaGet d c else some ((deltaGet d c).getD 0 + changeSum chs)) := by
  intro chs
  induction chs with
  | nil => intro d _; simp [countDeltas]
  | cons ch rest ih =>
    intro d hne
    have hrest : NoEmpty rest := fun x hx => hne x (List.mem_cons_of_mem _ hx)
    obtain ⟨b, a⟩ := ch
    have step : deltaGet (countDeltas (fun _ => c) (addDelta d c (changeDelta (b, a))) rest) c =
        some ((deltaGet d c).getD 0 + changeSum ((b, a) :: rest)) := by
      rw [ih _ hrest, deltaGet_addDelta_self]
      split
      · next hr => subst hr; simp [changeSum]
      · simp [changeSum]; omega
    cases a with
    | some a' => simp only [countDeltas]; simpa using step
    | none =>
      cases b with
      | some b' => simp only [countDeltas]; simpa using step
      | none => exact absurd rfl (hne (none, none) List.mem_cons_self)

theorem countDeltas_other_get {α : Type} (idf : α → String) (c : String) (hc : ∀ a, idf a ≠ c) :
    ∀ (chs : List (Option α × Option α)) (d : Deltas), deltaGet (countDeltas idf d chs) c = deltaGet d c := by
  intro chs
  induction chs with
  | nil => intro d; simp [countDeltas]
  | cons ch rest ih =>
    intro d
    obtain ⟨b, a⟩ := ch
    cases a with
    | some a' => simp only [countDeltas]; rw [ih, deltaGet_addDelta_ne _ _ (hc a')]
    | none =>
      cases b with
      | some b' => simp only [countDeltas]; rw [ih, deltaGet_addDelta_ne _ _ (hc b')]
      | none => simp only [countDeltas]; exact ih d

/-! ### strings that are not "nodes" -/

theorem ne_of_head_ne {a b : String} {x y : Char} {xs ys : List Char} (ha : a.toList = x :: xs) (hb : b.toList = y :: ys)
    (h : x ≠ y) : a ≠ b := by
  intro hab
  rw [hab, hb] at ha
  injection ha with h1 _
  exact h h1.symm

theorem append_ne_nodes (p k : String) {x : Char} {xs : List Char} (hp : p.toList = x :: xs) (hx : x ≠ 'n') : p ++ k ≠ "nodes" := by
  have h1 : (p ++ k).toList = x :: (xs ++ k.toList) := by rw [String.toList_append, hp]; rfl
  exact ne_of_head_ne h1 (by decide : "nodes".toList = 'n' :: ['o', 'd', 'e', 's']) hx

theorem connectUsageName_ne_nodes (k : String) : connectUsageName k ≠ "nodes" :=
  append_ne_nodes "connect-mesh-" k (by decide : "connect-mesh-".toList = 'c' :: "onnect-mesh-".toList) (by decide)

theorem cfgUsage_ne_nodes (k : String) : "config-entries-" ++ k ≠ "nodes" :=
  append_ne_nodes "config-entries-" k (by decide : "config-entries-".toList = 'c' :: "onfig-entries-".toList) (by decide)

theorem lc_head {a : String} {x : Char} {xs : List Char} (ha : a.toList = x :: xs) :
    (lc a).toList = Char.toLower x :: xs.map Char.toLower := by
  unfold lc; rw [String.toList_map, ha]; rfl

/-- lower-casing keeps a usage id that does not start with n / N away from "nodes" -/
theorem lc_append_ne_nodes (p k : String) {x : Char} {xs : List Char} (hp : p.toList = x :: xs) (hx : Char.toLower x ≠ 'n') :
    lc (p ++ k) ≠ "nodes" := by
  have h1 : (p ++ k).toList = x :: (xs ++ k.toList) := by rw [String.toList_append, hp]; rfl
  exact ne_of_head_ne (lc_head h1) (by decide : "nodes".toList = 'n' :: ['o', 'd', 'e', 's']) hx

theorem lc_nodes_lit : lc "nodes" = "nodes" := by
  apply String.ext; rw [lc, String.toList_map]; decide


/-! ### every other delta of a transaction is filed under another id -/

theorem billable_ne_nodes : billableName ≠ "nodes" := by decide
theorem services_ne_nodes : ("services" : String) ≠ "nodes" := by decide
theorem serviceNames_ne_nodes : ("service-names" : String) ≠ "nodes" := by decide
theorem kvs_ne_nodes : ("kvs" : String) ≠ "nodes" := by decide

theorem connectDeltas_get (d : Deltas) (ch : Option (Svc × SvcX) × Option (Svc × SvcX)) :
    deltaGet (connectDeltas d ch) "nodes" = deltaGet d "nodes" := by
  obtain ⟨b, a⟩ := ch
  cases b <;> cases a <;> simp only [connectDeltas]
  all_goals (repeat' split)
  all_goals (simp only [deltaGet_addDelta_ne _ _ (connectUsageName_ne_nodes _)])

theorem billableDeltas_get (d : Deltas) (ch : Option (Svc × SvcX) × Option (Svc × SvcX)) :
    deltaGet (billableDeltas d ch) "nodes" = deltaGet d "nodes" := by
  obtain ⟨b, a⟩ := ch
  cases b <;> cases a <;> simp only [billableDeltas]
  all_goals (repeat' split)
  all_goals (simp only [deltaGet_addDelta_ne _ _ billable_ne_nodes])

theorem serviceDeltas_get : ∀ (chs : List (Option (Svc × SvcX) × Option (Svc × SvcX))) (d m : Deltas),
    deltaGet (serviceDeltas (d, m) chs).1 "nodes" = deltaGet d "nodes" := by
  intro chs
  induction chs with
  | nil => intro d m; rfl
  | cons ch rest ih =>
    intro d m
    simp only [serviceDeltas]
    rw [ih, billableDeltas_get, connectDeltas_get, deltaGet_addDelta_ne _ _ services_ne_nodes]

theorem serviceNameDeltas_get (post : Cat) : ∀ (m d : Deltas),
    deltaGet (serviceNameDeltas post d m) "nodes" = deltaGet d "nodes" := by
  intro m
  induction m with
  | nil => intro d; rfl
  | cons e rest ih =>
    intro d
    obtain ⟨name, delta⟩ := e
    simp only [serviceNameDeltas]
    rw [ih]
    repeat' split
    all_goals (first | rfl | exact deltaGet_addDelta_ne _ _ serviceNames_ne_nodes)

theorem changesOf_noEmpty {α κ : Type} [DecidableEq α] [DecidableEq κ] (key : α → κ) (pre post : List α) :
    NoEmpty (changesOf key pre post) := by
  intro ch hch
  unfold changesOf at hch
  rcases List.mem_append.mp hch with h | h
  · obtain ⟨a, _, ha⟩ := List.mem_filterMap.mp h
    split at ha
    · simp at ha; rw [← ha]; simp
    · split at ha
      · simp at ha
      · simp at ha; rw [← ha]; simp
  · obtain ⟨b, _, hb⟩ := List.mem_filterMap.mp h
    split at hb
    · simp at hb; rw [← hb]; simp
    · simp at hb

/-- the `nodes` delta of a committed transaction: the creations minus the deletions of local node rows (absent
    when no node row changed) -/
theorem usageDeltas_nodes (pre post : XState) :
    deltaGet (usageDeltas pre post) "nodes" =
      (if changesOf Node.pk pre.loc.st.nodes post.loc.st.nodes = [] then none
       else some (changeSum (changesOf Node.pk pre.loc.st.nodes post.loc.st.nodes))) := by
  unfold usageDeltas
  simp only
  rw [serviceNameDeltas_get,
    countDeltas_other_get (fun (c : CfgRow) => "config-entries-" ++ c.kind) "nodes" (fun c => cfgUsage_ne_nodes c.kind),
    countDeltas_other_get (fun (_ : KV) => "kvs") "nodes" (fun _ => kvs_ne_nodes)]
  generalize hsd : serviceDeltas (countDeltas (fun (_ : Node) => "nodes") [] (changesOf Node.pk pre.loc.st.nodes post.loc.st.nodes), [])
    (changesOf (fun r => Svc.pk r.1) pre.loc.rows post.loc.rows) = sd
  have := serviceDeltas_get (changesOf (fun r => Svc.pk r.1) pre.loc.rows post.loc.rows)
    (countDeltas (fun (_ : Node) => "nodes") [] (changesOf Node.pk pre.loc.st.nodes post.loc.st.nodes)) []
  rw [hsd] at this
  obtain ⟨d1, m⟩ := sd
  simp only at this ⊢
  rw [this, countDeltas_const_get "nodes" _ _ (changesOf_noEmpty _ _ _)]
  split
  · rfl
  · simp [deltaGet]


/-! ### the change set of a table with one row per key -/

section Count
variable {κ : Type} [DecidableEq κ]

theorem filter_ne_of_not_mem (x : κ) : ∀ (l : List κ), x ∉ l → l.filter (fun y => decide (y ≠ x)) = l := by
  intro l h
  rw [List.filter_eq_self]
  intro y hy
  simp only [decide_eq_true_eq]
  intro hyx; exact h (hyx ▸ hy)

theorem filter_ne_length (x : κ) : ∀ (l : List κ), l.Nodup → x ∈ l → (l.filter (fun y => decide (y ≠ x))).length + 1 = l.length := by
  intro l
  induction l with
  | nil => intro _ h; simp at h
  | cons y ys ih =>
    intro hn hm
    rw [List.nodup_cons] at hn
    by_cases hyx : y = x
    · subst hyx
      simp only [List.filter_cons, ne_eq, not_true_eq_false, decide_false, Bool.false_eq_true, if_false, List.length_cons]
      rw [filter_ne_of_not_mem y ys hn.1]
    · have hm' : x ∈ ys := by
        rcases List.mem_cons.mp hm with h | h
        · exact absurd h.symm hyx
        · exact h
      simp only [List.filter_cons, ne_eq, hyx, not_false_eq_true, decide_true, if_true, List.length_cons]
      rw [ih hn.2 hm']

/-- |l1| + |l2 \ l1| = |l2| + |l1 \ l2| for duplicate-free lists -/
theorem union_count : ∀ (l1 l2 : List κ), l1.Nodup → l2.Nodup →
    l1.length + (l2.filter (fun y => decide (y ∉ l1))).length = l2.length + (l1.filter (fun y => decide (y ∉ l2))).length := by
  intro l1
  induction l1 with
  | nil => intro l2 _ _; simp
  | cons x xs ih =>
    intro l2 h1 h2
    rw [List.nodup_cons] at h1
    have hih := ih l2 h1.2 h2
    -- l2 \ (x :: xs) = (l2 \ xs) \ {x}
    have hsplit : l2.filter (fun y => decide (y ∉ x :: xs)) = (l2.filter (fun y => decide (y ∉ xs))).filter (fun y => decide (y ≠ x)) := by
      rw [List.filter_filter]
      apply List.filter_congr
      intro y _
      simp only [List.mem_cons, not_or, ne_eq, Bool.decide_and, Bool.and_comm]
    have hLn : (l2.filter (fun y => decide (y ∉ xs))).Nodup := List.Nodup.sublist List.filter_sublist h2
    by_cases hx : x ∈ l2
    · have hxL : x ∈ l2.filter (fun y => decide (y ∉ xs)) := by
        simp only [List.mem_filter, decide_eq_true_eq]; exact ⟨hx, h1.1⟩
      have := filter_ne_length x _ hLn hxL
      simp only [List.filter_cons, hx, not_true_eq_false, decide_false, Bool.false_eq_true, if_false, List.length_cons]
      rw [hsplit]
      omega
    · have hxL : x ∉ l2.filter (fun y => decide (y ∉ xs)) := by
        simp only [List.mem_filter, decide_eq_true_eq, not_and]; intro h; exact absurd h hx
      simp only [List.filter_cons, hx, not_false_eq_true, decide_true, if_true, List.length_cons]
      rw [hsplit, filter_ne_of_not_mem x _ hxL]
      omega

end Count

theorem sortedBy_keys_nodup {α : Type} {key : α → String} {l : List α} (h : SortedBy key l) : (l.map key).Nodup := by
  unfold SortedBy at h
  rw [List.Nodup, List.pairwise_map]
  exact h.imp (fun hab heq => by rw [heq] at hab; exact String.lt_irrefl _ hab)

theorem tfind_none_iff {α : Type} {key : α → String} (k : String) (l : List α) : tfind key k l = none ↔ k ∉ l.map key := by
  constructor
  · intro h hm
    obtain ⟨a, ha, hk⟩ := List.mem_map.mp hm
    exact tfind_none h a ha hk
  · intro h
    unfold tfind
    rw [List.find?_eq_none]
    intro a ha
    simp only [beq_iff_eq]
    intro hk; exact h (List.mem_map.mpr ⟨a, ha, hk⟩)

theorem changeSum_append {α : Type} (a b : List (Option α × Option α)) : changeSum (a ++ b) = changeSum a + changeSum b := by
  induction a with
  | nil => simp [changeSum]
  | cons x xs ih => simp only [List.cons_append, changeSum, ih]; omega

/-- the change of a row of the old table -/
def delF {α : Type} [DecidableEq α] (key : α → String) (post : List α) (a : α) : Option (Option α × Option α) :=
  match tfind key (key a) post with
  | none => some (some a, none)
  | some b => if a = b then none else some (some a, some b)

/-- the change of a row of the new table whose key is new -/
def creF {α : Type} (key : α → String) (pre : List α) (b : α) : Option (Option α × Option α) :=
  match tfind key (key b) pre with
  | none => some (none, some b)
  | some _ => none

theorem changesOf_eq {α : Type} [DecidableEq α] (key : α → String) (pre post : List α) :
    changesOf key pre post = pre.filterMap (delF key post) ++ post.filterMap (creF key pre) := rfl

theorem changeSum_deleted {α : Type} [DecidableEq α] (key : α → String) (post : List α) : ∀ (pre : List α),
    changeSum (pre.filterMap (delF key post)) =
    - (((pre.map key).filter (fun k => decide (k ∉ post.map key))).length : Int) := by
  intro pre
  induction pre with
  | nil => simp [changeSum]
  | cons a rest ih =>
    simp only [List.filterMap_cons, List.map_cons, List.filter_cons]
    unfold delF
    cases hf : tfind key (key a) post with
    | none =>
      have : key a ∉ post.map key := (tfind_none_iff _ _).mp hf
      simp only [this, not_false_eq_true, decide_true, if_true, List.length_cons, changeSum, changeDelta]
      have ih' := ih
      unfold delF at ih'
      rw [ih']
      omega
    | some b =>
      have : ¬ key a ∉ post.map key := fun h => by rw [(tfind_none_iff _ _).mpr h] at hf; simp at hf
      simp only [this, decide_false, Bool.false_eq_true, if_false]
      have ih' := ih
      unfold delF at ih'
      by_cases hab : a = b
      · rw [if_pos hab]; exact ih'
      · rw [if_neg hab]; simp only [changeSum, changeDelta]; rw [ih']; omega

theorem changeSum_created {α : Type} (key : α → String) (pre : List α) : ∀ (post : List α),
    changeSum (post.filterMap (creF key pre)) =
    (((post.map key).filter (fun k => decide (k ∉ pre.map key))).length : Int) := by
  intro post
  induction post with
  | nil => simp [changeSum]
  | cons b rest ih =>
    simp only [List.filterMap_cons, List.map_cons, List.filter_cons]
    unfold creF
    have ih' := ih
    unfold creF at ih'
    cases hf : tfind key (key b) pre with
    | none =>
      have : key b ∉ pre.map key := (tfind_none_iff _ _).mp hf
      simp only [this, not_false_eq_true, decide_true, if_true, List.length_cons, changeSum, changeDelta]
      rw [ih']
      omega
    | some a =>
      have : ¬ key b ∉ pre.map key := fun h => by rw [(tfind_none_iff _ _).mpr h] at hf; simp at hf
      simp only [this, decide_false, Bool.false_eq_true, if_false]
      exact ih'

/-- **creations minus deletions = growth**, for tables with one row per key -/
theorem changeSum_changesOf {α : Type} [DecidableEq α] {key : α → String} {pre post : List α}
    (h1 : SortedBy key pre) (h2 : SortedBy key post) :
    changeSum (changesOf key pre post) = (post.length : Int) - (pre.length : Int) := by
  rw [changesOf_eq, changeSum_append, changeSum_deleted, changeSum_created]
  have := union_count (pre.map key) (post.map key) (sortedBy_keys_nodup h1) (sortedBy_keys_nodup h2)
  simp only [List.length_map] at this
  omega


/-! ### the ids of a transaction's delta map are distinct, and only "nodes" lower-cases to "nodes" -/

def OkId (id : String) : Prop := id = "nodes" ∨ lc id ≠ "nodes"

structure GoodD (d : Deltas) : Prop where
  nodup : (d.map (·.1)).Nodup
  ids : ∀ e ∈ d, OkId e.1

theorem GoodD.nil : GoodD [] := ⟨by simp, by simp⟩

theorem addDelta_ids (d : Deltas) (id : String) (n : Int) : (addDelta d id n).map (·.1) = if id ∈ d.map (·.1) then d.map (·.1) else d.map (·.1) ++ [id] := by
  induction d with
  | nil => simp [addDelta]
  | cons e rest ih =>
    obtain ⟨k, v⟩ := e
    unfold addDelta
    by_cases hk : k = id
    · simp [hk]
    · simp only [hk, if_false, List.map_cons, ih, List.mem_cons]
      have : ¬ id = k := fun h => hk h.symm
      simp only [this, false_or]
      split <;> simp

theorem GoodD.add {d : Deltas} (h : GoodD d) {id : String} (hid : OkId id) (n : Int) : GoodD (addDelta d id n) := by
  refine ⟨?_, ?_⟩
  · rw [addDelta_ids]
    split
    · exact h.nodup
    · next hn =>
      rw [List.nodup_append]
      exact ⟨h.nodup, by simp, by intro a ha b hb; simp at hb; subst hb; exact fun hh => hn (hh ▸ ha)⟩
  · intro e he
    have : e.1 ∈ (addDelta d id n).map (·.1) := List.mem_map.mpr ⟨e, he, rfl⟩
    rw [addDelta_ids] at this
    split at this
    · obtain ⟨e', he', hk⟩ := List.mem_map.mp this
      rw [← hk]; exact h.ids e' he'
    · rcases List.mem_append.mp this with h1 | h1
      · obtain ⟨e', he', hk⟩ := List.mem_map.mp h1
        rw [← hk]; exact h.ids e' he'
      · simp at h1; rw [h1]; exact hid

theorem lc_ne_nodes_of_head {a : String} {x : Char} {xs : List Char} (ha : a.toList = x :: xs) (hx : Char.toLower x ≠ 'n') :
    lc a ≠ "nodes" :=
  ne_of_head_ne (lc_head ha) (by decide : "nodes".toList = 'n' :: ['o', 'd', 'e', 's']) hx

theorem okId_nodes : OkId "nodes" := Or.inl rfl
theorem okId_services : OkId "services" :=
  Or.inr (lc_ne_nodes_of_head (by decide : "services".toList = 's' :: "ervices".toList) (by decide))
theorem okId_serviceNames : OkId "service-names" :=
  Or.inr (lc_ne_nodes_of_head (by decide : "service-names".toList = 's' :: "ervice-names".toList) (by decide))
theorem okId_kvs : OkId "kvs" := Or.inr (lc_ne_nodes_of_head (by decide : "kvs".toList = 'k' :: "vs".toList) (by decide))
theorem okId_billable : OkId billableName :=
  Or.inr (lc_ne_nodes_of_head (by decide : billableName.toList = 'b' :: "illable-services".toList) (by decide))
theorem okId_connect (k : String) : OkId (connectUsageName k) :=
  Or.inr (lc_append_ne_nodes "connect-mesh-" k (by decide : "connect-mesh-".toList = 'c' :: "onnect-mesh-".toList) (by decide))
theorem okId_cfg (k : String) : OkId ("config-entries-" ++ k) :=
  Or.inr (lc_append_ne_nodes "config-entries-" k (by decide : "config-entries-".toList = 'c' :: "onfig-entries-".toList) (by decide))

theorem goodD_countDeltas {α : Type} (idf : α → String) (hid : ∀ a, OkId (idf a)) :
    ∀ (chs : List (Option α × Option α)) (d : Deltas), GoodD d → GoodD (countDeltas idf d chs) := by
  intro chs
  induction chs with
  | nil => intro d h; exact h
  | cons ch rest ih =>
    intro d h
    obtain ⟨b, a⟩ := ch
    cases a with
    | some a' => simp only [countDeltas]; exact ih _ (h.add (hid a') _)
    | none =>
      cases b with
      | some b' => simp only [countDeltas]; exact ih _ (h.add (hid b') _)
      | none => simp only [countDeltas]; exact ih _ h

theorem goodD_connectDeltas (d : Deltas) (ch : Option (Svc × SvcX) × Option (Svc × SvcX)) (h : GoodD d) : GoodD (connectDeltas d ch) := by
  obtain ⟨b, a⟩ := ch
  cases b <;> cases a <;> simp only [connectDeltas]
  all_goals (repeat' split)
  all_goals (repeat (first | exact h | refine GoodD.add ?_ (okId_connect _) _))

theorem goodD_billableDeltas (d : Deltas) (ch : Option (Svc × SvcX) × Option (Svc × SvcX)) (h : GoodD d) : GoodD (billableDeltas d ch) := by
  obtain ⟨b, a⟩ := ch
  cases b <;> cases a <;> simp only [billableDeltas]
  all_goals (repeat' split)
  all_goals (repeat (first | exact h | refine GoodD.add ?_ okId_billable _))

theorem goodD_serviceDeltas : ∀ (chs : List (Option (Svc × SvcX) × Option (Svc × SvcX))) (d m : Deltas),
    GoodD d → GoodD (serviceDeltas (d, m) chs).1 := by
  intro chs
  induction chs with
  | nil => intro d m h; exact h
  | cons ch rest ih =>
    intro d m h
    simp only [serviceDeltas]
    exact ih _ _ (goodD_billableDeltas _ _ (goodD_connectDeltas _ _ (h.add okId_services _)))

theorem goodD_serviceNameDeltas (post : Cat) : ∀ (m d : Deltas), GoodD d → GoodD (serviceNameDeltas post d m) := by
  intro m
  induction m with
  | nil => intro d h; exact h
  | cons e rest ih =>
    intro d h
    obtain ⟨name, delta⟩ := e
    simp only [serviceNameDeltas]
    apply ih
    repeat' split
    all_goals (first | exact h | exact h.add okId_serviceNames _)

theorem goodD_usageDeltas (pre post : XState) : GoodD (usageDeltas pre post) := by
  unfold usageDeltas
  simp only
  apply goodD_serviceNameDeltas
  refine goodD_countDeltas (fun (c : CfgRow) => "config-entries-" ++ c.kind) (fun c => okId_cfg c.kind) _ _ ?_
  refine goodD_countDeltas (fun (_ : KV) => "kvs") (fun _ => okId_kvs) _ _ ?_
  generalize hsd : serviceDeltas (countDeltas (fun (_ : Node) => "nodes") [] (changesOf Node.pk pre.loc.st.nodes post.loc.st.nodes), [])
    (changesOf (fun r => Svc.pk r.1) pre.loc.rows post.loc.rows) = sd
  have := goodD_serviceDeltas (changesOf (fun r => Svc.pk r.1) pre.loc.rows post.loc.rows)
    (countDeltas (fun (_ : Node) => "nodes") [] (changesOf Node.pk pre.loc.st.nodes post.loc.st.nodes)) []
    (goodD_countDeltas _ (fun _ => okId_nodes) _ _ GoodD.nil)
  rw [hsd] at this
  obtain ⟨d1, m⟩ := sd
  exact this

/-! ### `writeUsageDeltas` -/

def usageCount (u : List UsageRow) (id : String) : Nat :=
  match tfind UsageRow.pk (lc id) u with
  | some r => r.count
  | none => 0

theorem usageGet_eq (s : XState) (id : String) : usageGet s id = usageCount s.usage id := rfl

theorem writeUsage_other (idx : Nat) : ∀ (d : Deltas) (u : List UsageRow), (∀ e ∈ d, lc e.1 ≠ "nodes") →
    usageCount (writeUsage idx u d) "nodes" = usageCount u "nodes" := by
  intro d
  induction d with
  | nil => intro u _; rfl
  | cons e rest ih =>
    intro u h
    obtain ⟨id, delta⟩ := e
    simp only [writeUsage]
    rw [ih _ (fun x hx => h x (List.mem_cons_of_mem _ hx))]
    unfold usageCount
    rw [lc_nodes_lit, tfind_tupsert_ne (key := UsageRow.pk)]
    unfold UsageRow.pk
    exact fun hh => h (id, delta) List.mem_cons_self hh.symm

theorem usageCount_tupsert_self (u : List UsageRow) (n idx : Nat) :
    usageCount (tupsert UsageRow.pk strLt ⟨"nodes", n, idx⟩ u) "nodes" = n := by
  unfold usageCount
  have : lc "nodes" = UsageRow.pk ⟨"nodes", n, idx⟩ := rfl
  rw [this, tfind_tupsert_self]

theorem usageCount_tupsert_other (u : List UsageRow) (id : String) (n idx : Nat) (h : lc id ≠ "nodes") :
    usageCount (tupsert UsageRow.pk strLt ⟨id, n, idx⟩ u) "nodes" = usageCount u "nodes" := by
  unfold usageCount
  rw [lc_nodes_lit, tfind_tupsert_ne (key := UsageRow.pk)]
  unfold UsageRow.pk
  exact fun hh => h hh.symm

theorem writeUsage_get (idx : Nat) : ∀ (d : Deltas) (u : List UsageRow), GoodD d →
    usageCount (writeUsage idx u d) "nodes" =
      (match deltaGet d "nodes" with
       | some δ => (((usageCount u "nodes" : Nat) : Int) + δ).toNat
       | none => usageCount u "nodes") := by
  intro d
  induction d with
  | nil => intro u _; rfl
  | cons e rest ih =>
    intro u h
    obtain ⟨id, delta⟩ := e
    have hrest : GoodD rest := by
      refine ⟨?_, fun x hx => h.ids x (List.mem_cons_of_mem _ hx)⟩
      have := h.nodup
      simp only [List.map_cons, List.nodup_cons] at this
      exact this.2
    by_cases hid : id = "nodes"
    · subst hid
      -- the tail does not mention "nodes" again, and nothing in it lower-cases to "nodes"
      have htail : ∀ x ∈ rest, lc x.1 ≠ "nodes" := by
        intro x hx
        have hne : x.1 ≠ "nodes" := by
          have := h.nodup
          simp only [List.map_cons, List.nodup_cons, List.mem_map, not_exists, not_and] at this
          exact fun hh => this.1 x hx hh
        rcases h.ids x (List.mem_cons_of_mem _ hx) with h1 | h1
        · exact absurd h1 hne
        · exact h1
      simp only [writeUsage]
      rw [writeUsage_other idx rest _ htail]
      have hdg : deltaGet (("nodes", delta) :: rest) "nodes" = some delta := by simp [deltaGet]
      rw [hdg, usageCount_tupsert_self]
      unfold usageCount
      cases tfind UsageRow.pk (lc "nodes") u <;> rfl
    · have hlc : lc id ≠ "nodes" := by
        rcases h.ids (id, delta) List.mem_cons_self with h1 | h1
        · exact absurd h1 hid
        · exact h1
      simp only [writeUsage]
      rw [ih _ hrest, usageCount_tupsert_other _ _ _ _ hlc]
      have hdg : deltaGet ((id, delta) :: rest) "nodes" = deltaGet rest "nodes" := by
        have : (id == "nodes") = false := by simpa using hid
        simp [deltaGet, List.find?_cons, this]
      rw [hdg]

/-! ### the `nodes` counter is exact -/

/-- one committed command keeps `usage[nodes]` = number of local node rows (given the catalog invariant, which
    provides one node row per key before and after) -/
theorem usage_nodes_applyX {s : XState} (idx : Nat) (c : XCmd) (hwf : c.wf) (hs : CatOK s)
    (h : usageGet s "nodes" = s.loc.st.nodes.length) :
    usageGet (applyX s idx c).1 "nodes" = (applyX s idx c).1.loc.st.nodes.length := by
  have hpost : CatOK (stepX s idx c).1 := catOK_stepX idx c hwf hs
  have e : (applyX s idx c).1 = commitUsage s (stepX s idx c).1 idx := rfl
  rw [e]
  generalize hp : (stepX s idx c).1 = post at hpost
  have hu : post.usage = s.usage := by rw [← hp]; exact usage_stepX s idx c
  have s1 : SortedBy Node.pk s.loc.st.nodes := by have := (hs.orphan "").srt_nodes; rw [← loc_eq_cat] at this; exact this
  have s2 : SortedBy Node.pk post.loc.st.nodes := by have := (hpost.orphan "").srt_nodes; rw [← loc_eq_cat] at this; exact this
  have hsum := changeSum_changesOf s1 s2
  show usageCount (writeUsage idx post.usage (usageDeltas s post)) "nodes" = post.loc.st.nodes.length
  rw [writeUsage_get idx _ _ (goodD_usageDeltas s post), usageDeltas_nodes, hu]
  rw [usageGet_eq] at h
  split
  · next δ hδ =>
    split at hδ
    · simp at hδ
    · simp at hδ; subst hδ
      rw [h, hsum]
      have : ((s.loc.st.nodes.length : Nat) : Int) + ((post.loc.st.nodes.length : Int) - (s.loc.st.nodes.length : Int)) =
          ((post.loc.st.nodes.length : Nat) : Int) := by omega
      rw [this, Int.toNat_natCast]
  · next hδ =>
    split at hδ
    · next hnil =>
      rw [hnil] at hsum
      simp only [changeSum] at hsum
      rw [h]; omega
    · simp at hδ

/-- **`usage[nodes]` is exact in every reachable state** -/
theorem usage_nodes_replayX : ∀ (log : XLog) (s : XState), XLog.wf log → CatOK s →
    usageGet s "nodes" = s.loc.st.nodes.length →
    usageGet (replayX s log) "nodes" = (replayX s log).loc.st.nodes.length := by
  intro log
  induction log with
  | nil => intro s _ _ h; exact h
  | cons ic rest ih =>
    intro s hwf hs h
    unfold replayX
    simp only [List.foldl_cons]
    exact ih _ (fun x hx => hwf x (List.mem_cons_of_mem _ hx)) (catOK_applyX ic.1 ic.2 (hwf ic List.mem_cons_self) hs)
      (usage_nodes_applyX ic.1 ic.2 (hwf ic List.mem_cons_self) hs h)

end CV.Store
