/-
Helper lemmas for C11: the invariant of clean schedules and its preservation by every action.
-/
import CV.Proofs.StreamPub
import CV.Proofs.StreamNamed
namespace CV.Stream

/-- the events of a write describe exactly what the write does to every query -/
def Faithful (c : Cat) (idx : Nat) (w : Write) : Prop :=
  ∀ k, ViewEq (query k (applyWrite idx c w).1) (applyEvs (query k c) (evsFor k (applyWrite idx c w).2.1))

/-- The invariant of clean schedules. A subscriber with a restricted token is described through an
    unfiltered TWIN materializer (`Rel`): the twin consumes the shared items themselves, and the
    existing simulation predicate speaks about the twin; the subscriber's own view is the
    ACL-filter of the twin's. For a token that may read everything the twin is the materializer. -/
structure Inv (y : Sys) : Prop where
  wf    : WF y.cat
  hok   : ∀ c ∈ y.clients, HOk c.m
  exact : ∀ c ∈ y.clients, FExact c.authz c.key c.m
  sim   : ∀ c ∈ y.clients, c.sub = .opened → ∃ mu, Rel c.authz c.key c.m mu ∧
            Sim mu (c.inbox ++ queueItems c.key y.queue) (query c.key y.cat)
  cache : ∀ e ∈ y.cache, ∀ e0, Sim ⟨.snap [], [], 0, e0⟩ (e.steps ++ queueItems e.key y.queue) (query e.key y.cat)
  cbuf  : ∀ e ∈ y.cache, hasBuf y e.key = true
  ids   : (y.clients.map (·.id)).Nodup
  az    : ∀ c ∈ y.clients, AuthzOk c.authz c.key
  inam  : ∀ c ∈ y.clients, c.sub = .opened → ∀ st ∈ c.inbox, StepNamed c.key st
  cnam  : ∀ e ∈ y.cache, ∀ st ∈ e.steps, StepNamed e.key st
  qnam  : ∀ b ∈ y.queue, ∀ e ∈ b.evs, nameOk e.key e.id e.val

theorem Inv.init (ttl : Bool) : Inv (Sys.init ttl) := by
  refine ⟨WF.empty, ?_, ?_, ?_, ?_, ?_, ?_, ?_, ?_, ?_, ?_⟩ <;> simp [Sys.init]

/-- the item a queued batch becomes for key `k` is named for `k` -/
theorem stepNamed_mkItem {k : Key} {b : Batch} (h : ∀ e ∈ b.evs, nameOk e.key e.id e.val) :
    StepNamed k (.item (mkItem k b)) := evsFor_named h

/-! ### commit -/

theorem sim_commit {m : Mat} {l : List Step} {k : Key} {c : Cat} {q : List Batch} (idx : Nat) (w : Write)
    (hidx : idx ≠ 0) (hf : Faithful c idx w)
    (h : Sim m (l ++ queueItems k q) (query k c)) :
    Sim m (l ++ queueItems k (q ++ [⟨idx, (applyWrite idx c w).2.1, (applyWrite idx c w).2.2, (applyWrite idx c w).1⟩]))
      (query k (applyWrite idx c w).1) := by
  unfold queueItems
  rw [List.filterMap_append, ← List.append_assoc]
  simp only [List.filterMap_cons, List.filterMap_nil]
  unfold kItem
  by_cases he : evsFor k (applyWrite idx c w).2.1 = []
  · simp only [he, ↓reduceIte, List.append_nil]
    apply Sim.congr_fin _ h
    have := hf k
    rw [he] at this
    exact this.symm
  · simp only [he, ↓reduceIte]
    have := Sim.append_item (mkItem k ⟨idx, (applyWrite idx c w).2.1, (applyWrite idx c w).2.2, (applyWrite idx c w).1⟩) h hidx
    apply this
    intro v hv
    exact (applyEvs_congr hv _).trans (hf k).symm

theorem Inv.commit {y : Sys} (h : Inv y) (idx : Nat) (w : Write) (hidx : idx ≠ 0) (hf : Faithful y.cat idx w) :
    Inv (commit y idx w) := by
  unfold CV.Stream.commit
  refine ⟨applyWrite_wf idx w h.wf, h.hok, h.exact, ?_, ?_, h.cbuf, h.ids, h.az, h.inam, h.cnam, ?_⟩
  · intro c hc ho
    obtain ⟨mu, hr, hs⟩ := h.sim c hc ho
    exact ⟨mu, hr, sim_commit idx w hidx hf hs⟩
  · intro e he e0
    exact sim_commit idx w hidx hf (h.cache e he e0)
  · intro b hb
    rcases List.mem_append.mp hb with hb | hb
    · exact h.qnam b hb
    · simp only [List.mem_singleton] at hb
      subst hb
      exact applyWrite_named idx y.cat w

/-! ### publishOne -/

def closeAcl (b : Batch) (c : Client) : Client :=
  if c.sub = .opened ∧ b.close.contains c.tok then { c with sub := .acl } else c

theorem closeAcl_attached (b : Batch) (c : Client) : attached (closeAcl b c) = attached c := by
  unfold closeAcl attached
  split
  · rename_i h; simp [h.1]
  · rfl

theorem closeAcl_authz (b : Batch) (c : Client) : (closeAcl b c).authz = c.authz := by
  unfold closeAcl; split <;> rfl

theorem closeAcl_fields (b : Batch) (c : Client) :
    (closeAcl b c).m = c.m ∧ (closeAcl b c).key = c.key ∧ (closeAcl b c).id = c.id ∧
    (closeAcl b c).inbox = c.inbox ∧ ((closeAcl b c).sub = .opened → c.sub = .opened) := by
  unfold closeAcl
  split
  · rename_i h; exact ⟨rfl, rfl, rfl, rfl, fun _ => h.1⟩
  · exact ⟨rfl, rfl, rfl, rfl, id⟩

theorem publishOne_eq (y : Sys) (b : Batch) (rest : List Batch) (hq : y.queue = b :: rest) :
    publishOne y = (keysOf b.evs).foldl (publishKey b)
      { y with queue := rest, clients := y.clients.map (closeAcl b) } := by
  unfold publishOne
  rw [hq]
  rfl

theorem hasBuf_closeAcl (y : Sys) (b : Batch) (rest : List Batch) (k : Key) :
    hasBuf { y with queue := rest, clients := y.clients.map (closeAcl b) } k = hasBuf y k := by
  unfold hasBuf
  simp only [List.any_map, Function.comp_def]
  congr 1
  funext c
  rw [closeAcl_attached, (closeAcl_fields b c).2.1]

theorem steps_append_tail (e : CacheEnt) (it : Item) :
    ({ e with tail := e.tail ++ [it] } : CacheEnt).steps = e.steps ++ [.item it] := by
  simp [CacheEnt.steps, List.append_assoc]

theorem Inv.publishOne {y : Sys} (h : Inv y) : Inv (publishOne y) := by
  cases hq : y.queue with
  | nil => unfold CV.Stream.publishOne; rw [hq]; exact h
  | cons b rest =>
    rw [publishOne_eq y b rest hq]
    have hn := nodup_dedupKeys ((b.evs.flatMap fun e => e.key :: (wildOf e.key).toList))
    have hcl := foldl_publishKey_clients b (keysOf b.evs) hn
      { y with queue := rest, clients := y.clients.map (closeAcl b) }
    have hca := foldl_publishKey_cache b (keysOf b.evs) hn
      { y with queue := rest, clients := y.clients.map (closeAcl b) }
    have hcat := foldl_publishKey_cat b (keysOf b.evs)
      { y with queue := rest, clients := y.clients.map (closeAcl b) }
    have hqu := foldl_publishKey_queue b (keysOf b.evs)
      { y with queue := rest, clients := y.clients.map (closeAcl b) }
    have hsh := foldl_publishKey_shape b (keysOf b.evs)
      { y with queue := rest, clients := y.clients.map (closeAcl b) }
    -- every resulting client comes from an old one
    have hfrom : ∀ c' ∈ ((keysOf b.evs).foldl (publishKey b)
        { y with queue := rest, clients := y.clients.map (closeAcl b) }).clients,
        ∃ c ∈ y.clients, c'.m = c.m ∧ c'.key = c.key ∧ c'.id = c.id ∧ (c'.sub = .opened → c.sub = .opened) ∧
          c'.inbox = (if c.key ∈ keysOf b.evs ∧ attached c then c.inbox ++ [Step.item (mkItem c.key b)] else c.inbox) ∧
          c'.authz = c.authz := by
      intro c' hc'
      rw [hcl] at hc'
      simp only [List.map_map, List.mem_map, Function.comp_def] at hc'
      obtain ⟨c, hc, rfl⟩ := hc'
      refine ⟨c, hc, ?_⟩
      obtain ⟨f1, f2, f3, f4, f5⟩ := closeAcl_fields b c
      have f6 := closeAcl_authz b c
      have fa := closeAcl_attached b c
      by_cases hk : c.key ∈ keysOf b.evs ∧ attached c
      · have hk' : (closeAcl b c).key ∈ keysOf b.evs ∧ attached (closeAcl b c) := by rw [f2, fa]; exact hk
        simp [hk, hk', f1, f2, f3, f4, f6]
        exact f5
      · have hk' : ¬ ((closeAcl b c).key ∈ keysOf b.evs ∧ attached (closeAcl b c)) := by rw [f2, fa]; exact hk
        simp only [hk', hk, ↓reduceIte]
        exact ⟨f1, f2, f3, f5, f4, f6⟩
    have hbq : b ∈ y.queue := by rw [hq]; exact List.mem_cons_self
    refine ⟨by rw [hcat]; exact h.wf, ?_, ?_, ?_, ?_, ?_, ?_, ?_, ?_, ?_, ?_⟩
    · intro c' hc'
      obtain ⟨c, hc, hm, -⟩ := hfrom c' hc'
      rw [hm]; exact h.hok c hc
    · intro c' hc'
      obtain ⟨c, hc, hm, hk, -, -, -, ha⟩ := hfrom c' hc'
      rw [hm, hk, ha]; exact h.exact c hc
    · intro c' hc' ho
      obtain ⟨c, hc, hm, hk, -, hs, hi, ha⟩ := hfrom c' hc'
      have hop := hs ho
      have hat : attached c = true := by simp [attached, hop]
      obtain ⟨mu, hr, this⟩ := h.sim c hc hop
      rw [hq] at this
      refine ⟨mu, by rw [hm, hk, ha]; exact hr, ?_⟩
      rw [hk, hi, hqu, hcat]
      simp only [hat, and_true]
      rw [pending_publish]
      exact this
    · intro e' he' e0
      rw [hca] at he'
      obtain ⟨e, he, rfl⟩ := List.mem_map.mp he'
      have hb : hasBuf { y with queue := rest, clients := y.clients.map (closeAcl b) } e.key = true := by
        rw [hasBuf_closeAcl]; exact h.cbuf e he
      have := h.cache e he e0
      rw [hq] at this
      rw [hqu, hcat]
      simp only [hb, and_true]
      by_cases hk : e.key ∈ keysOf b.evs
      · simp only [hk, ↓reduceIte]
        rw [steps_append_tail]
        have hp := pending_publish e.key b rest e.steps
        simp only [hk, ↓reduceIte] at hp
        rw [hp]; exact this
      · simp only [hk, ↓reduceIte]
        have hp := pending_publish e.key b rest e.steps
        simp only [hk, ↓reduceIte] at hp
        rw [hp]; exact this
    · intro e' he'
      rw [hca] at he'
      obtain ⟨e, he, rfl⟩ := List.mem_map.mp he'
      have hkey : (if e.key ∈ keysOf b.evs ∧ hasBuf { y with queue := rest, clients := y.clients.map (closeAcl b) } e.key = true
          then ({ e with tail := e.tail ++ [mkItem e.key b] } : CacheEnt) else e).key = e.key := by
        split <;> rfl
      rw [hkey, hasBuf_congr hsh, hasBuf_closeAcl]
      exact h.cbuf e he
    · have : (((keysOf b.evs).foldl (publishKey b)
          { y with queue := rest, clients := y.clients.map (closeAcl b) }).clients.map (·.id)) = y.clients.map (·.id) := by
        rw [hcl]
        simp only [List.map_map]
        apply List.map_congr_left
        intro c _
        simp only [Function.comp_def]
        have f3 := (closeAcl_fields b c).2.2.1
        split <;> simp [f3]
      rw [this]; exact h.ids
    · intro c' hc'
      obtain ⟨c, hc, -, hk, -, -, -, ha⟩ := hfrom c' hc'
      rw [hk, ha]; exact h.az c hc
    · intro c' hc' ho st hst
      obtain ⟨c, hc, -, hk, -, hs, hi, -⟩ := hfrom c' hc'
      rw [hk]
      rw [hi] at hst
      split at hst
      · rcases List.mem_append.mp hst with hst | hst
        · exact h.inam c hc (hs ho) st hst
        · simp only [List.mem_singleton] at hst
          subst hst
          exact stepNamed_mkItem (h.qnam b hbq)
      · exact h.inam c hc (hs ho) st hst
    · intro e' he' st hst
      rw [hca] at he'
      obtain ⟨e, he, rfl⟩ := List.mem_map.mp he'
      by_cases hcond : e.key ∈ keysOf b.evs ∧
          hasBuf { y with queue := rest, clients := y.clients.map (closeAcl b) } e.key = true
      · rw [if_pos hcond] at hst ⊢
        rw [steps_append_tail] at hst
        rcases List.mem_append.mp hst with hst | hst
        · exact h.cnam e he st hst
        · simp only [List.mem_singleton] at hst
          subst hst
          exact stepNamed_mkItem (k := e.key) (h.qnam b hbq)
      · rw [if_neg hcond] at hst ⊢
        exact h.cnam e he st hst
    · intro b' hb'
      rw [hqu] at hb'
      exact h.qnam b' (by rw [hq]; exact List.mem_cons_of_mem _ hb')

/-! ### setClient -/

theorem getClient_mem {y : Sys} {id : Nat} {c : Client} (h : getClient y id = some c) :
    c ∈ y.clients ∧ c.id = id := by
  unfold getClient at h
  exact ⟨List.mem_of_find?_eq_some h, by simpa using List.find?_some h⟩

theorem eq_of_id_eq {l : List Client} (hn : (l.map (·.id)).Nodup) {c d : Client}
    (hc : c ∈ l) (hd : d ∈ l) (e : d.id = c.id) : d = c := by
  induction l with
  | nil => cases hc
  | cons a r ih =>
    rw [List.map_cons, List.nodup_cons] at hn
    rcases List.mem_cons.mp hc with rfl | hc' <;> rcases List.mem_cons.mp hd with rfl | hd'
    · rfl
    · exact absurd (List.mem_map.mpr ⟨d, hd', e⟩) hn.1
    · exact absurd (List.mem_map.mpr ⟨c, hc', e.symm⟩) hn.1
    · exact ih hn.2 hc' hd'

theorem mem_setClient {y : Sys} {c c' : Client} (h : c' ∈ (setClient y c).clients) :
    c' = c ∨ (c' ∈ y.clients ∧ c'.id ≠ c.id) := by
  unfold setClient at h
  obtain ⟨d, hd, rfl⟩ := List.mem_map.mp h
  by_cases e : d.id = c.id
  · simp [e]
  · simp [e, hd]

theorem setClient_ids (y : Sys) (c : Client) :
    (setClient y c).clients.map (·.id) = y.clients.map (·.id) := by
  unfold setClient
  rw [List.map_map]
  apply List.map_congr_left
  intro d _
  by_cases e : d.id = c.id <;> simp [e]

theorem mem_setClient_self {y : Sys} {c c' : Client} (hc : c ∈ y.clients) (e : c'.id = c.id) :
    c' ∈ (setClient y c').clients := by
  unfold setClient
  exact List.mem_map.mpr ⟨c, hc, by simp [e]⟩

/-- replacing a client by one with the same key and subscription state does not change which
    buffers exist -/
theorem setClient_shape {y : Sys} (hn : (y.clients.map (·.id)).Nodup) {c c' : Client} (hc : c ∈ y.clients)
    (e : c'.id = c.id) (hk : c'.key = c.key) (hs : c'.sub = c.sub) :
    (setClient y c').clients.map (fun c => (c.key, c.sub)) = y.clients.map (fun c => (c.key, c.sub)) := by
  unfold setClient
  rw [List.map_map]
  apply List.map_congr_left
  intro d hd
  by_cases ed : d.id = c'.id
  · have : d = c := eq_of_id_eq hn hc hd (ed.trans e)
    subst this
    simp [ed, hk, hs]
  · simp [ed]

theorem hasBuf_iff (y : Sys) (k : Key) :
    hasBuf y k = true ↔ ∃ c ∈ y.clients, c.key = k ∧ attached c = true := by
  unfold hasBuf
  rw [List.any_eq_true]
  constructor
  · rintro ⟨c, hc, hp⟩; exact ⟨c, hc, by simpa using hp⟩
  · rintro ⟨c, hc, hp⟩; exact ⟨c, hc, by simpa using hp⟩

theorem mem_setClient_of_ne {y : Sys} {c d : Client} (hd : d ∈ y.clients) (e : d.id ≠ c.id) :
    d ∈ (setClient y c).clients := by
  unfold setClient
  exact List.mem_map.mpr ⟨d, hd, by simp [e]⟩

theorem bool_eq_of_iff {a b : Bool} (h : a = true ↔ b = true) : a = b := by
  cases a <;> cases b <;> simp_all

/-- changing one client does not affect buffers of other keys -/
theorem hasBuf_setClient_other {y : Sys} (hn : (y.clients.map (·.id)).Nodup) {c c' : Client} (hc : c ∈ y.clients)
    (e : c'.id = c.id) (hk : c'.key = c.key) {k : Key} (hne : k ≠ c.key) :
    hasBuf (setClient y c') k = hasBuf y k := by
  apply bool_eq_of_iff
  rw [hasBuf_iff, hasBuf_iff]
  constructor
  · rintro ⟨d, hd, hdk, hda⟩
    rcases mem_setClient hd with rfl | ⟨hd', -⟩
    · exact absurd (hdk.symm.trans hk) hne
    · exact ⟨d, hd', hdk, hda⟩
  · rintro ⟨d, hd, hdk, hda⟩
    refine ⟨d, mem_setClient_of_ne hd ?_, hdk, hda⟩
    intro ed
    have : d = c := eq_of_id_eq hn hc hd (ed.trans e)
    subst this
    exact hne hdk.symm

/-- attaching a client only adds buffers -/
theorem hasBuf_setClient_mono {y : Sys} (hn : (y.clients.map (·.id)).Nodup) {c c' : Client} (hc : c ∈ y.clients)
    (e : c'.id = c.id) (hua : attached c = false) {k : Key} (h : hasBuf y k = true) :
    hasBuf (setClient y c') k = true := by
  rw [hasBuf_iff] at h ⊢
  obtain ⟨d, hd, hdk, hda⟩ := h
  refine ⟨d, mem_setClient_of_ne hd ?_, hdk, hda⟩
  intro ed
  have : d = c := eq_of_id_eq hn hc hd (ed.trans e)
  subst this
  rw [hua] at hda
  cases hda

/-! ### next -/

/-- generic step: client `c` is replaced by `c'` with the same id, key, authorizer and subscription
    state, nothing else changes -/
theorem Inv.replace {y : Sys} (h : Inv y) {c c' : Client} (hc : c ∈ y.clients)
    (e : c'.id = c.id) (hk : c'.key = c.key) (hs : c'.sub = c.sub) (ha : c'.authz = c.authz)
    (hok : HOk c'.m) (hex : FExact c'.authz c'.key c'.m)
    (hsim : c'.sub = .opened → ∃ mu, Rel c'.authz c'.key c'.m mu ∧
      Sim mu (c'.inbox ++ queueItems c'.key y.queue) (query c'.key y.cat))
    (hin : c'.sub = .opened → ∀ st ∈ c'.inbox, StepNamed c'.key st) :
    Inv (setClient y c') := by
  have hsh := setClient_shape h.ids hc e hk hs
  refine ⟨h.wf, ?_, ?_, ?_, h.cache, ?_, by rw [setClient_ids]; exact h.ids, ?_, ?_, h.cnam, h.qnam⟩
  · intro d hd
    rcases mem_setClient hd with rfl | ⟨hd', -⟩
    · exact hok
    · exact h.hok d hd'
  · intro d hd
    rcases mem_setClient hd with rfl | ⟨hd', -⟩
    · exact hex
    · exact h.exact d hd'
  · intro d hd ho
    rcases mem_setClient hd with rfl | ⟨hd', -⟩
    · exact hsim ho
    · exact h.sim d hd' ho
  · intro e' he'
    have : hasBuf (setClient y c') e'.key = hasBuf y e'.key := hasBuf_congr hsh e'.key
    rw [this]; exact h.cbuf e' he'
  · intro d hd
    rcases mem_setClient hd with rfl | ⟨hd', -⟩
    · rw [ha, hk]; exact h.az c hc
    · exact h.az d hd'
  · intro d hd ho
    rcases mem_setClient hd with rfl | ⟨hd', -⟩
    · exact hin ho
    · exact h.inam d hd' ho

/-- what consuming the head of the inbox does to a subscriber (filtered or not) and its twin -/
theorem Inv.consume {y : Sys} (h : Inv y) {c : Client} (hc : c ∈ y.clients) (hsub : c.sub = .opened)
    {st0 : Step} {rest : List Step} (hin : c.inbox = st0 :: rest) :
    match visible c.authz c.key.topic st0 with
    | none => ∃ mu, Rel c.authz c.key c.m mu ∧ Sim mu (rest ++ queueItems c.key y.queue) (query c.key y.cat)
    | some st => HOk (handle c.m st) ∧ FExact c.authz c.key (handle c.m st) ∧
        ∃ mu, Rel c.authz c.key (handle c.m st) mu ∧ Sim mu (rest ++ queueItems c.key y.queue) (query c.key y.cat) := by
  obtain ⟨mu, hr, hs⟩ := h.sim c hc hsub
  rw [hin] at hs
  obtain ⟨hku, hexu, hrest⟩ := hs
  have hun : StepUniform c.authz c.key st0 :=
    stepUniform_of_named (h.az c hc) (h.inam c hc hsub st0 (by rw [hin]; exact List.mem_cons_self))
  have := Rel.step st0 hr (h.hok c hc) hku hrest.hok hexu hun
  cases hv : visible c.authz c.key.topic st0 with
  | none =>
    rw [hv] at this
    exact ⟨_, this, hrest⟩
  | some st =>
    rw [hv] at this
    exact ⟨this.2.1, this.2.2, _, this.1, hrest⟩

theorem Inv.next {y : Sys} (h : Inv y) (id : Nat) : Inv (next y id).1 := by
  unfold CV.Stream.next CV.Stream.nextWith
  cases hg : getClient y id with
  | none => exact h
  | some c =>
    obtain ⟨hc, -⟩ := getClient_mem hg
    simp only
    cases hsub : c.sub with
    | none => exact h
    | force =>
      simp only
      by_cases hr : c.rpc
      · simp only [hr, ↓reduceIte]
        exact h.replace hc rfl rfl hsub.symm rfl (HOk.reset _) (by intro hi; simp [Mat.reset] at hi)
          (by intro ho; simp at ho) (by intro ho; simp at ho)
      · simp only [hr]
        exact h.replace hc rfl rfl rfl rfl (h.hok c hc) (h.exact c hc) (fun ho => h.sim c hc ho)
          (fun ho => h.inam c hc ho)
    | acl =>
      simp only
      by_cases hr : c.rpc
      · simp only [hr, ↓reduceIte]
        exact h.replace hc rfl rfl hsub.symm rfl (HOk.reset _) (by intro hi; simp [Mat.reset] at hi)
          (by intro ho; simp at ho) (by intro ho; simp at ho)
      · simp only [hr]
        exact h.replace hc rfl rfl rfl rfl (h.hok c hc) (h.exact c hc) (fun ho => h.sim c hc ho)
          (fun ho => h.inam c hc ho)
    | opened =>
      simp only
      cases hin : c.inbox with
      | nil => exact h
      | cons st0 rest =>
        simp only
        have hcons := h.consume hc hsub hin
        have hrestn : ∀ s' ∈ rest, StepNamed c.key s' := fun s' hs' =>
          h.inam c hc hsub s' (by rw [hin]; exact List.mem_cons_of_mem _ hs')
        cases hv : visible c.authz c.key.topic st0 with
        | none =>
          rw [hv] at hcons
          simp only
          exact h.replace hc rfl rfl hsub.symm rfl (h.hok c hc) (h.exact c hc) (fun _ => hcons) (fun _ => hrestn)
        | some st =>
          rw [hv] at hcons
          obtain ⟨hk', hex', htw⟩ := hcons
          simp only
          cases hidx : stepIdx st with
          | none =>
            simp only
            exact h.replace hc rfl rfl hsub.symm rfl hk' hex' (fun _ => htw) (fun _ => hrestn)
          | some i =>
            simp only
            exact h.replace hc rfl rfl hsub.symm rfl hk' hex' (fun _ => htw) (fun _ => hrestn)

/-! ### unsub, expire, addClient, restore -/

theorem Inv.expire {y : Sys} (h : Inv y) : Inv (expire y) := by
  unfold CV.Stream.expire
  exact ⟨h.wf, h.hok, h.exact, h.sim, (by intro e he; cases he), (by intro e he; cases he), h.ids, h.az, h.inam,
    (by intro e he; cases he), h.qnam⟩

theorem Inv.addClient {y : Sys} (h : Inv y) (id : Nat) (k : Key) (t : String) (r : Bool) (a : Authz)
    (hak : AuthzOk a k) : Inv (addClient y id k t r a) := by
  unfold CV.Stream.addClient
  cases hg : getClient y id with
  | some c => simpa using h
  | none =>
    simp only [Option.isSome_none, Bool.false_eq_true, ↓reduceIte]
    have hnew : HOk (⟨.snap [], [], 0, []⟩ : Mat) :=
      ⟨by simp, fun _ => rfl, by intro hh; simp at hh, fun _ _ => rfl⟩
    refine ⟨h.wf, ?_, ?_, ?_, h.cache, ?_, ?_, ?_, ?_, h.cnam, h.qnam⟩
    rotate_left 5
    · intro c hc
      rcases List.mem_append.mp hc with hc | hc
      · exact h.az c hc
      · simp only [List.mem_singleton] at hc; subst hc; exact hak
    · intro c hc ho
      rcases List.mem_append.mp hc with hc | hc
      · exact h.inam c hc ho
      · simp only [List.mem_singleton] at hc; subst hc; simp at ho
    · intro c hc
      rcases List.mem_append.mp hc with hc | hc
      · exact h.hok c hc
      · simp only [List.mem_singleton] at hc; subst hc; exact hnew
    · intro c hc
      rcases List.mem_append.mp hc with hc | hc
      · exact h.exact c hc
      · simp only [List.mem_singleton] at hc; subst hc; intro hi; simp at hi
    · intro c hc ho
      rcases List.mem_append.mp hc with hc | hc
      · exact h.sim c hc ho
      · simp only [List.mem_singleton] at hc; subst hc; simp at ho
    · intro e he
      have := (hasBuf_iff y e.key).mp (h.cbuf e he)
      obtain ⟨c, hc, hk, ha⟩ := this
      exact (hasBuf_iff _ e.key).mpr ⟨c, List.mem_append_left _ hc, hk, ha⟩
    · rw [List.map_append, List.nodup_append]
      refine ⟨h.ids, by simp, ?_⟩
      intro a ha b hb
      simp only [List.map_cons, List.map_nil, List.mem_singleton] at hb
      subst hb
      intro hab
      obtain ⟨c, hc, hci⟩ := List.mem_map.mp ha
      unfold getClient at hg
      have := List.find?_eq_none.mp hg c hc
      simp [hci, hab] at this

theorem Inv.unsub {y : Sys} (h : Inv y) (id : Nat) : Inv (unsub y id) := by
  unfold CV.Stream.unsub
  cases hg : getClient y id with
  | none => exact h
  | some c =>
    obtain ⟨hc, -⟩ := getClient_mem hg
    simp only
    by_cases ha : attached c
    · simp only [ha, not_true_eq_false, ↓reduceIte]
      -- the client after Unsubscribe
      have hmem : ∀ d ∈ (setClient y { c with sub := .none, inbox := [] }).clients,
          d = { c with sub := .none, inbox := [] } ∨ d ∈ y.clients := by
        intro d hd
        rcases mem_setClient hd with rfl | ⟨hd', -⟩
        · exact Or.inl rfl
        · exact Or.inr hd'
      have base : ∀ (la : List (Key × Item)) (ca : List CacheEnt),
          (∀ e ∈ ca, e ∈ y.cache ∧ hasBuf (setClient y { c with sub := .none, inbox := [] }) e.key = true) →
          Inv { setClient y { c with sub := .none, inbox := [] } with lasts := la, cache := ca } := by
        intro la ca hca
        refine ⟨h.wf, ?_, ?_, ?_, ?_, ?_, by rw [show ({ setClient y { c with sub := .none, inbox := [] } with lasts := la, cache := ca } : Sys).clients = (setClient y { c with sub := .none, inbox := [] }).clients from rfl, setClient_ids]; exact h.ids, ?_, ?_, ?_, h.qnam⟩
        rotate_left 5
        · intro d hd
          rcases hmem d hd with rfl | hd'
          · exact h.az c hc
          · exact h.az d hd'
        · intro d hd ho
          rcases hmem d hd with rfl | hd'
          · simp at ho
          · exact h.inam d hd' ho
        · intro e he st hst
          exact h.cnam e (hca e he).1 st hst
        · intro d hd
          rcases hmem d hd with rfl | hd'
          · exact h.hok c hc
          · exact h.hok d hd'
        · intro d hd
          rcases hmem d hd with rfl | hd'
          · exact h.exact c hc
          · exact h.exact d hd'
        · intro d hd ho
          rcases hmem d hd with rfl | hd'
          · simp at ho
          · exact h.sim d hd' ho
        · intro e he e0
          exact h.cache e (hca e he).1 e0
        · intro e he
          have := (hca e he).2
          rw [hasBuf_iff] at this ⊢
          exact this
      by_cases hb : hasBuf (setClient y { c with sub := .none, inbox := [] }) c.key
      · simp only [hb, ↓reduceIte]
        have := base (setClient y { c with sub := .none, inbox := [] }).lasts
          (setClient y { c with sub := .none, inbox := [] }).cache (by
            intro e he
            refine ⟨he, ?_⟩
            by_cases hk : e.key = c.key
            · rw [hk]; exact hb
            · rw [hasBuf_setClient_other (c := c) (c' := { c with sub := .none, inbox := [] }) h.ids hc rfl rfl hk]
              exact h.cbuf e he)
        exact this
      · simp only [hb, Bool.false_eq_true, ↓reduceIte]
        apply base
        intro e he
        have he' := List.mem_filter.mp he
        have hk : e.key ≠ c.key := by simpa using he'.2
        exact ⟨he'.1, by
          rw [hasBuf_setClient_other (c := c) (c' := { c with sub := .none, inbox := [] }) h.ids hc rfl rfl hk]
          exact h.cbuf e he'.1⟩
    · simp only [ha, not_false_eq_true, ↓reduceIte]
      exact h

theorem Inv.restore {y : Sys} (h : Inv y) (c : Cat) (hwf : WF c) (hq : y.queue = [])
    (hna : ∀ d ∈ y.clients, attached d = false) : Inv (restore y c) := by
  unfold CV.Stream.restore
  have hsame : (y.clients.map fun d => if d.sub = .opened then { d with sub := .force } else d) = y.clients := by
    calc _ = y.clients.map id := by
          apply List.map_congr_left
          intro d hd
          have := hna d hd
          simp only [attached, ne_eq, decide_not, Bool.not_eq_eq_eq_not, Bool.not_false, decide_eq_true_eq] at this
          simp [this]
      _ = y.clients := by simp
  rw [hsame]
  refine ⟨hwf, h.hok, h.exact, ?_, (by intro e he; cases he), (by intro e he; cases he), h.ids, h.az, ?_,
    (by intro e he; cases he), (by rw [hq]; intro b hb; cases hb)⟩
  · intro d hd ho
    have := hna d hd
    simp [attached, ho] at this
  · intro d hd ho
    have := hna d hd
    simp [attached, ho] at this

/-! ### subscribe -/

/-- a subscription that starts while nothing is queued, does not take the resume path, and whose
    fresh snapshot is spliced at the very end of the topic buffer -/
def CleanSub (y : Sys) (id : Nat) : Prop :=
  y.queue = [] ∧
  match getClient y id with
  | none => True
  | some c => attached c = true ∨
      (resumes c (lookup? c.key y.lasts) = false ∧
       ((y.cache.find? (fun e => e.key = c.key)).isSome ∨
          (freshEnt c.key y.cat (lookup? c.key y.lasts)).tail = []))

theorem snapIdx_ne_zero (k : Key) (c : Cat) : snapIdx k c ≠ 0 := by
  unfold snapIdx
  simp only
  split <;> simp_all

/-- generic step: an unattached client `c` is replaced by an opened `c'`; the cache may grow
    by entries for `c.key` -/
theorem Inv.attach {y : Sys} (h : Inv y) {c c' : Client} (hc : c ∈ y.clients) (hua : attached c = false)
    (e : c'.id = c.id) (hk : c'.key = c.key) (hs : c'.sub = .opened) (ha : c'.authz = c.authz)
    (hok : HOk c'.m) (hex : FExact c'.authz c'.key c'.m)
    (hsim : ∃ mu, Rel c'.authz c'.key c'.m mu ∧ Sim mu (c'.inbox ++ queueItems c'.key y.queue) (query c'.key y.cat))
    (hin : ∀ st ∈ c'.inbox, StepNamed c'.key st)
    (ca : List CacheEnt)
    (hca : ∀ en ∈ ca, en ∈ y.cache ∨ (en.key = c.key ∧ (∀ st ∈ en.steps, StepNamed en.key st) ∧
        ∀ e0, Sim ⟨.snap [], [], 0, e0⟩ (en.steps ++ queueItems en.key y.queue) (query en.key y.cat))) :
    Inv (setClient { y with cache := ca } c') := by
  have hself : c' ∈ (setClient { y with cache := ca } c').clients :=
    mem_setClient_self (y := { y with cache := ca }) hc e
  refine ⟨h.wf, ?_, ?_, ?_, ?_, ?_, by rw [setClient_ids]; exact h.ids, ?_, ?_, ?_, h.qnam⟩
  · intro d hd
    rcases mem_setClient hd with rfl | ⟨hd', -⟩
    · exact hok
    · exact h.hok d hd'
  · intro d hd
    rcases mem_setClient hd with rfl | ⟨hd', -⟩
    · exact hex
    · exact h.exact d hd'
  · intro d hd ho
    rcases mem_setClient hd with rfl | ⟨hd', -⟩
    · exact hsim
    · exact h.sim d hd' ho
  · intro en hen e0
    rcases hca en hen with ho | ⟨-, -, hn⟩
    · exact h.cache en ho e0
    · exact hn e0
  · intro en hen
    rcases hca en hen with ho | ⟨hkey, -⟩
    · exact hasBuf_setClient_mono (y := { y with cache := ca }) h.ids hc e hua (h.cbuf en ho)
    · rw [hasBuf_iff]
      exact ⟨c', hself, by rw [hk, hkey], by simp [attached, hs]⟩
  · intro d hd
    rcases mem_setClient hd with rfl | ⟨hd', -⟩
    · rw [ha, hk]; exact h.az c hc
    · exact h.az d hd'
  · intro d hd ho
    rcases mem_setClient hd with rfl | ⟨hd', -⟩
    · exact hin
    · exact h.inam d hd' ho
  · intro en hen st hst
    rcases hca en hen with ho | ⟨-, hn, -⟩
    · exact h.cnam en ho st hst
    · exact hn st hst

theorem HOk.start {m : Mat} (h : HOk m) : HOk m.start := by
  unfold Mat.start
  by_cases hi : m.index = 0
  · simp only [hi, ↓reduceIte]
    exact ⟨by simp, fun _ => h.empty hi, by intro hh; simp at hh, fun _ _ => rfl⟩
  · simp only [hi, ↓reduceIte]
    exact ⟨by simp, h.empty, fun _ => hi, by intro acc hh; simp at hh⟩

/-- what the snapshot path delivers to a starting materializer -/
theorem sim_snapshot_path {m : Mat} {pre : List Step} {q : List Batch} {cat : Cat} {k : Key} (hkc : HOk m)
    (hpre : pre = if m.index ≠ 0 then [.nstf] else [])
    (en : CacheEnt) (hek : en.key = k)
    (hsim : ∀ e0, Sim ⟨.snap [], [], 0, e0⟩ (en.steps ++ queueItems en.key q) (query en.key cat)) :
    Sim m.start ((pre ++ en.steps) ++ queueItems k q) (query k cat) := by
  rw [← hek, hpre]
  by_cases hi : m.index = 0
  · simp only [hi, ne_eq, not_true_eq_false, ↓reduceIte, List.nil_append]
    have hm : m.start = ⟨.snap [], [], 0, m.expect⟩ := by
      unfold Mat.start
      have hv := hkc.empty hi
      cases hcm : m
      simp_all
    rw [hm]; exact hsim _
  · simp only [ne_eq, hi, not_false_eq_true, ↓reduceIte, List.cons_append, List.nil_append]
    have hr : m.start.h = .resume := by simp [Mat.start, hi]
    have he : m.start.expect = m.expect := rfl
    refine Sim.nstf hkc.start hr ?_
    rw [he]; exact hsim _

/-- the twin of a subscriber that starts through the snapshot path: a materializer holding the
    direct-query result the subscriber's view is the filter of -/
def startTwin (m : Mat) : Mat := { m.start with view := if m.index = 0 then [] else m.expect }

theorem startTwin_rel {a : Authz} {k : Key} {m : Mat} (hk : HOk m) (hex : FExact a k m) : Rel a k m.start (startTwin m) := by
  unfold startTwin Mat.start
  by_cases hi : m.index = 0
  · simp only [hi, ↓reduceIte]
    refine ⟨Or.inr ⟨[], rfl, rfl, fun e he => by cases he⟩, ?_, by simp [hi]⟩
    rw [hk.empty hi]; exact IsFilterOf.nil a k
  · simp only [hi, ↓reduceIte]
    exact ⟨Or.inl ⟨Or.inr rfl, Or.inr rfl, fun _ => rfl⟩, hex hi, Iff.rfl⟩

theorem startTwin_hok {m : Mat} (hk : HOk m) : HOk (startTwin m) := by
  unfold startTwin Mat.start
  by_cases hi : m.index = 0
  · simp only [hi, ↓reduceIte]
    exact ⟨by simp, fun _ => rfl, by intro hh; simp at hh, fun _ _ => rfl⟩
  · simp only [hi, ↓reduceIte]
    exact ⟨by simp, fun h0 => absurd h0 hi, fun _ => hi, by intro acc hh; simp at hh⟩

theorem startTwin_start (m : Mat) : (startTwin m).start = startTwin m := by
  unfold startTwin Mat.start
  by_cases hi : m.index = 0 <;> simp [hi]

theorem sim_freshEnt {y : Sys} (h : Inv y) (hq : y.queue = []) (k : Key) (last : Option Item)
    (ht : (freshEnt k y.cat last).tail = []) (e0 : View) :
    Sim ⟨.snap [], [], 0, e0⟩ ((freshEnt k y.cat last).steps ++ queueItems (freshEnt k y.cat last).key y.queue)
      (query (freshEnt k y.cat last).key y.cat) := by
  rw [hq]
  unfold CacheEnt.steps
  rw [ht]
  simp only [freshEnt, List.map_nil, List.append_nil, queueItems, List.filterMap_nil]
  apply Sim.snapshot [] _ _ _ e0 (snapIdx_ne_zero _ _)
  simp only [List.nil_append, List.flatMap_map]
  have := snapshot_exact k h.wf
  simpa [List.flatMap_id'] using this

theorem freshEnt_named (k : Key) (c : Cat) (last : Option Item) (ht : (freshEnt k c last).tail = []) :
    ∀ st ∈ (freshEnt k c last).steps, StepNamed k st := by
  intro st hst
  unfold CacheEnt.steps at hst
  rw [ht] at hst
  simp only [freshEnt, List.map_nil, List.append_nil, List.map_map] at hst
  rcases List.mem_append.mp hst with hst | hst
  · obtain ⟨evs, hevs, rfl⟩ := List.mem_map.mp hst
    exact snapshotItems_named k c evs hevs
  · simp only [List.mem_singleton] at hst
    subst hst
    trivial

theorem preamble_named (c : Client) : ∀ st ∈ preamble c, StepNamed c.key st := by
  intro st hst
  unfold preamble at hst
  split at hst
  · simp only [List.mem_singleton] at hst; subst hst; trivial
  · cases hst

theorem Inv.subscribe {y : Sys} (h : Inv y) (id : Nat) (hcl : CleanSub y id) : Inv (subscribe y id) := by
  unfold CV.Stream.subscribe
  obtain ⟨hq, hcl⟩ := hcl
  cases hg : getClient y id with
  | none => exact h
  | some c =>
    obtain ⟨hc, -⟩ := getClient_mem hg
    rw [hg] at hcl
    simp only at hcl ⊢
    by_cases ha : attached c = true
    · simp [ha]; exact h
    · have ha' : attached c = false := by simpa using ha
      rcases hcl with hcl | ⟨hnr, htail⟩
      · exact absurd hcl ha
      simp only [ha, Bool.false_eq_true, ↓reduceIte, hnr]
      have hkc := h.hok c hc
      have hex := h.exact c hc
      have hex' : FExact c.authz c.key c.m.start := hex
      have htw : ∀ (en : CacheEnt), en.key = c.key →
          (∀ e0, Sim ⟨.snap [], [], 0, e0⟩ (en.steps ++ queueItems en.key y.queue) (query en.key y.cat)) →
          ∃ mu, Rel c.authz c.key c.m.start mu ∧
            Sim mu ((preamble c ++ en.steps) ++ queueItems c.key y.queue) (query c.key y.cat) := by
        intro en hek hsim
        refine ⟨startTwin c.m, startTwin_rel hkc hex, ?_⟩
        have := sim_snapshot_path (m := startTwin c.m) (pre := preamble c) (q := y.queue) (cat := y.cat) (k := c.key)
          (startTwin_hok hkc) (by
            unfold preamble startTwin Mat.start
            by_cases hi : c.m.index = 0 <;> simp [hi]) en hek hsim
        rw [startTwin_start] at this
        exact this
      cases hf : y.cache.find? (fun e => e.key = c.key) with
      | some en =>
        simp only
        have hen : en ∈ y.cache := List.mem_of_find?_eq_some hf
        have hek : en.key = c.key := by simpa using List.find?_some hf
        exact h.attach (c' := openSub c (preamble c ++ en.steps)) hc ha' rfl rfl rfl rfl hkc.start hex'
          (htw en hek (h.cache en hen)) (by
            intro st hst
            rcases List.mem_append.mp hst with hst | hst
            · exact preamble_named c st hst
            · show StepNamed c.key st
              rw [← hek]; exact h.cnam en hen st hst) y.cache (fun e he => Or.inl he)
      | none =>
        simp only
        rw [hf] at htail
        simp only [Option.isSome_none, Bool.false_eq_true, false_or] at htail
        have hnew := sim_freshEnt h hq c.key (lookup? c.key y.lasts) htail
        have hnam := freshEnt_named c.key y.cat (lookup? c.key y.lasts) htail
        refine h.attach (c' := openSub c (preamble c ++ (freshEnt c.key y.cat (lookup? c.key y.lasts)).steps))
          hc ha' rfl rfl rfl rfl hkc.start hex' (htw _ rfl hnew) (by
            intro st hst
            rcases List.mem_append.mp hst with hst | hst
            · exact preamble_named c st hst
            · exact hnam st hst) _ ?_
        intro e he
        by_cases ht : y.ttl
        · simp only [ht, ↓reduceIte] at he
          rcases List.mem_append.mp he with he | he
          · exact Or.inl he
          · simp only [List.mem_singleton] at he
            subst he
            exact Or.inr ⟨rfl, hnam, hnew⟩
        · simp only [ht, Bool.false_eq_true, ↓reduceIte] at he
          exact Or.inl he

end CV.Stream
