/-
Helper lemmas for C17: the clean-up pass of `handleUpdateService` deregisters EVERY stored check it finds
missing — the de-duplication of node checks (keyed by node AND check id) loses no pair and repeats none —
and a variant of the de-duplication keyed by the check id alone (what a Go `map[CheckID]node` would do).
-/
import CV.Proofs.PeerFinal
set_option linter.unusedSectionVars false
set_option linter.unusedSimpArgs false
namespace CV.Peer

/-- a stored check that the clean-up finds missing is deregistered, node check or service check -/
theorem cleanup_deregisters (p : String) (snap : Snap) (st : List CSN) {x : CSN} (hx : x ∈ st) {ss : SSvc}
    (hss : snapInst snap x.node.name x.svc.sid = some ss) {k : Chk} (hk : k ∈ x.chks) (hg : chkGone ss k) :
    Op.deregChk p k.node k.cid ∈ cleanupCmds p (cleanup p snap st) := by
  obtain ⟨a, b, _⟩ := cleanup_spec p snap st
  simp only [cleanupCmds, List.mem_append, List.mem_map]
  by_cases hs : k.sid = ""
  · right
    exact ⟨(k.node, k.cid), (b (k.node, k.cid)).mpr ⟨x, hx, ss, hss, k, hk, hg, hs, rfl⟩, rfl⟩
  · left
    exact (a _).mpr ⟨x, hx, Or.inr ⟨ss, hss, k, hk, hg, hs, rfl⟩⟩

theorem nodup_insertNew {α : Type} [DecidableEq α] (l : List α) (a : α) (h : l.Nodup) : (insertNew l a).Nodup := by
  unfold insertNew
  split
  · exact h
  · rename_i hn
    rw [List.nodup_append]
    refine ⟨h, by simp, fun x hx y hy => ?_⟩
    simp only [List.mem_singleton] at hy
    subst hy
    intro e
    subst e
    exact hn hx

theorem cleanupChecks_nodup (p : String) (ss : SSvc) (ks : List Chk) (acc : Cleanup) (h : acc.nchks.Nodup) :
    (cleanupChecks p ss ks acc).nchks.Nodup := by
  induction ks generalizing acc with
  | nil => simpa [cleanupChecks] using h
  | cons k ks ih =>
    simp only [cleanupChecks]
    split
    · exact ih acc h
    · split
      · exact ih _ (nodup_insertNew _ _ h)
      · exact ih _ h

theorem cleanupOne_nodup (p : String) (snap : Snap) (x : CSN) (acc : Cleanup) (h : acc.nchks.Nodup) :
    (cleanupOne p snap x acc).nchks.Nodup := by
  unfold cleanupOne
  split
  · exact h
  · split
    · exact h
    · exact cleanupChecks_nodup p _ _ acc h

/-- the de-duplicated list of node checks to delete names every (node, check id) pair once -/
theorem cleanup_nodup (p : String) (snap : Snap) (st : List CSN) : (cleanup p snap st).nchks.Nodup := by
  unfold cleanup
  suffices ∀ acc : Cleanup, acc.nchks.Nodup → (st.foldl (fun acc x => cleanupOne p snap x acc) acc).nchks.Nodup from
    this {} List.nodup_nil
  induction st with
  | nil => intro acc h; simpa using h
  | cons x xs ih => intro acc h; simp only [List.foldl_cons]; exact ih _ (cleanupOne_nodup p snap x acc h)

/-- After a processed update no check is left under the (node, check id) of a stored check that the clean-up
    found missing: it was deregistered after all registrations, and everything that follows only removes rows. -/
theorem handleUpdate_removes_gone_checks {c : Cat} {p sn : String} {is : List Inst}
    (he : (handleUpdate c p sn is).err = none) (hp : (handleUpdate c p sn is).panic = false)
    {st : List CSN} {snap : Snap} (hst : csn c p sn = .ok st) (hsnap : mkSnap is = some snap)
    {x : CSN} (hx : x ∈ st) {ss : SSvc} (hss : snapInst snap x.node.name x.svc.sid = some ss)
    {k : Chk} (hk : k ∈ x.chks) (hg : chkGone ss k) :
    ∀ y ∈ (handleUpdate c p sn is).cat.chks, ¬(y.peer = p ∧ y.node = k.node ∧ y.cid = k.cid) := by
  obtain ⟨st', snap', c1, l1, hst', hsnap', _, hcat⟩ := handleUpdate_ok he hp
  rw [hst] at hst'; cases hst'
  rw [hsnap] at hsnap'; cases hsnap'
  intro y hy
  rw [hcat] at hy
  have hy2 := (sub_dropUnused p _ _).chks y hy
  exact (runOps_deregs _ c1 (cleanupCmds_dereg p snap st)).2.2.2.2 p k.node k.cid
    (cleanup_deregisters p snap st hx hss hk hg) y hy2

theorem pairwise_key_eq {l : List Inst}
    (h : l.Pairwise (fun a b => ¬(a.node.name = b.node.name ∧ a.svc.sid = b.svc.sid))) {i j : Inst}
    (hi : i ∈ l) (hj : j ∈ l) (e1 : i.node.name = j.node.name) (e2 : i.svc.sid = j.svc.sid) : i = j := by
  induction l with
  | nil => cases hi
  | cons a l ih =>
    obtain ⟨h1, h2⟩ := List.pairwise_cons.mp h
    simp only [List.mem_cons] at hi hj
    rcases hi with rfl | hi <;> rcases hj with rfl | hj
    · rfl
    · exact absurd ⟨e1, e2⟩ (h1 j hj)
    · exact absurd ⟨e1.symm, e2.symm⟩ (h1 i hi)
    · exact ih h2 hi hj

/-! ### the variant: de-duplication keyed by the check id alone

`map[types.CheckID]string` (check id ↦ node) instead of `map[nodeCheckTuple]struct{}`: a later node replaces an
earlier one under the same check id. The model keeps, per check id, the LAST node recorded. -/

def dedupByCid : List (String × String) → List (String × String)
  | [] => []
  | (n, k) :: rest => if rest.any (fun e => decide (e.2 = k)) then dedupByCid rest else (n, k) :: dedupByCid rest

/-- `handleUpdate` with the node-check de-duplication keyed by the check id alone; everything else as it is -/
def handleUpdateCidDedup (c : Cat) (p sn : String) (insts : List Inst) : Res :=
  match csn c p sn with
  | .error e => { cat := c, err := some e }
  | .ok st =>
    match mkSnap insts with
    | none => { cat := c, panic := true }
    | some snap =>
      match runOps c (snap.flatMap (regOpsNode p st)) with
      | (c1, some e, l1) => { cat := c1, err := some e, log := l1 }
      | (c1, none, l1) =>
        let cl := cleanup p snap st
        let ops2 := cl.ops ++ (dedupByCid cl.nchks).map fun (n, k) => .deregChk p n k
        let (c2, _, l2) := runOps c1 ops2
        let (c3, l3) := dropUnused p c2 cl.unused
        { cat := c3, log := l1 ++ l2 ++ l3 }

end CV.Peer
