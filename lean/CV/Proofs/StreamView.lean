/-
Helper lemmas for C11: association-list views, `applyEvs`, extensional view equality.
-/
import CV.Stream
namespace CV.Stream

/-- two views hold the same entry for every id -/
def ViewEq (a b : View) : Prop := ∀ id, lookup? id a = lookup? id b

theorem ViewEq.refl (a : View) : ViewEq a a := fun _ => rfl
theorem ViewEq.symm {a b : View} (h : ViewEq a b) : ViewEq b a := fun i => (h i).symm
theorem ViewEq.trans {a b c : View} (h : ViewEq a b) (g : ViewEq b c) : ViewEq a c :=
  fun i => (h i).trans (g i)

section
variable {α β : Type} [DecidableEq α]

@[simp] theorem lookup?_nil (k : α) : lookup? k ([] : List (α × β)) = none := rfl

@[simp] theorem lookup?_cons (k a : α) (b : β) (l : List (α × β)) :
    lookup? k ((a, b) :: l) = if a = k then some b else lookup? k l := rfl

theorem lookup?_filter_ne (k j : α) (l : List (α × β)) :
    lookup? k (l.filter (fun p => p.1 ≠ j)) = if k = j then none else lookup? k l := by
  induction l with
  | nil => simp
  | cons p r ih =>
    obtain ⟨a, b⟩ := p
    by_cases h : a = j
    · subst h
      simp only [List.filter_cons, ne_eq, not_true_eq_false, decide_false, Bool.false_eq_true,
        ↓reduceIte, ih, lookup?_cons]
      by_cases hk : k = a
      · simp [hk]
      · have : ¬ a = k := fun e => hk e.symm
        simp [hk, this]
    · simp only [List.filter_cons, ne_eq, h, not_false_eq_true, decide_true, ↓reduceIte,
        lookup?_cons, ih]
      by_cases hk : a = k
      · subst hk; simp [h]
      · simp [hk]

theorem lookup?_upsert (k j : α) (v : β) (l : List (α × β)) :
    lookup? k (upsert j v l) = if k = j then some v else lookup? k l := by
  unfold upsert
  rw [lookup?_cons, lookup?_filter_ne]
  by_cases h : j = k
  · subst h; simp
  · have : ¬ k = j := fun e => h e.symm
    simp [h, this]

theorem lookup?_erase (k j : α) (l : List (α × β)) :
    lookup? k (erase j l) = if k = j then none else lookup? k l := by
  unfold erase; exact lookup?_filter_ne k j l
end

theorem lookup?_applyEv (i : Id) (v : View) (e : Ev) :
    lookup? i (applyEv v e) =
      if i = e.id then (if e.del then none else some e.val) else lookup? i v := by
  unfold applyEv
  by_cases hd : e.del
  · simp [hd, lookup?_erase]
  · simp [hd, lookup?_upsert]

theorem applyEv_congr {a b : View} (h : ViewEq a b) (e : Ev) : ViewEq (applyEv a e) (applyEv b e) := by
  intro i
  rw [lookup?_applyEv, lookup?_applyEv, h i]

theorem applyEvs_congr {a b : View} (h : ViewEq a b) (es : List Ev) :
    ViewEq (applyEvs a es) (applyEvs b es) := by
  induction es generalizing a b with
  | nil => exact h
  | cons e r ih => exact ih (applyEv_congr h e)

@[simp] theorem applyEvs_nil (v : View) : applyEvs v [] = v := rfl
@[simp] theorem applyEvs_cons (v : View) (e : Ev) (r : List Ev) :
    applyEvs v (e :: r) = applyEvs (applyEv v e) r := rfl
theorem applyEvs_append (v : View) (a b : List Ev) :
    applyEvs v (a ++ b) = applyEvs (applyEvs v a) b := by
  simp [applyEvs, List.foldl_append]

end CV.Stream
