/-
Helper lemmas for C17: survival of rows through the deletion phases, and the assembled statement behind
`import_exact_partial`.
-/
import CV.Proofs.PeerExact
set_option linter.unusedSectionVars false
set_option linter.unusedSimpArgs false
namespace CV.Peer

/-! ### rows that no deregistration names survive -/

theorem runOps_deregs_keep (ops : List Op) (c : Cat) (h : ∀ o ∈ ops, o.isDereg = true) :
    (∀ x ∈ c.nodes, (∀ p n, Op.deregNode p n ∈ ops → ¬(x.peer = p ∧ x.name = n)) → x ∈ (runOps c ops).1.nodes) ∧
    (∀ x ∈ c.svcs, (∀ p n i, Op.deregSvc p n i ∈ ops → ¬(x.peer = p ∧ x.node = n ∧ x.sid = i)) →
        (∀ p n, Op.deregNode p n ∈ ops → ¬(x.peer = p ∧ x.node = n)) → x ∈ (runOps c ops).1.svcs) ∧
    (∀ x ∈ c.chks, (∀ p n k, Op.deregChk p n k ∈ ops → ¬(x.peer = p ∧ x.node = n ∧ x.cid = k)) →
        (∀ p n i, Op.deregSvc p n i ∈ ops → ¬(x.peer = p ∧ x.node = n ∧ x.sid = i)) →
        (∀ p n, Op.deregNode p n ∈ ops → ¬(x.peer = p ∧ x.node = n)) → x ∈ (runOps c ops).1.chks) := by
  induction ops generalizing c with
  | nil => simp [runOps]
  | cons o os ih =>
    obtain ⟨c1, h1, _⟩ := applyOp_dereg c o (h o (by simp))
    obtain ⟨a, b, d⟩ := ih c1 (fun o' ho' => h o' (by simp [ho']))
    simp only [runOps, h1]
    refine ⟨fun x hx hn => ?_, fun x hx hs hn => ?_, fun x hx hk hs hn => ?_⟩
    · apply a x _ (fun p n hm => hn p n (by simp [hm]))
      cases o with
      | reg r => simp [Op.isDereg] at h
      | deregSvc p n i => simp only [applyOp, Except.ok.injEq] at h1; subst h1; simpa using hx
      | deregChk p n k => simp only [applyOp, Except.ok.injEq] at h1; subst h1; simpa using hx
      | deregNode p n =>
        simp only [applyOp, Except.ok.injEq] at h1; subst h1
        exact mem_delNode_nodes.mpr ⟨hx, hn p n (by simp)⟩
    · apply b x _ (fun p n i hm => hs p n i (by simp [hm])) (fun p n hm => hn p n (by simp [hm]))
      cases o with
      | reg r => simp [Op.isDereg] at h
      | deregSvc p n i =>
        simp only [applyOp, Except.ok.injEq] at h1; subst h1
        exact mem_delSvc_svcs.mpr ⟨hx, hs p n i (by simp)⟩
      | deregChk p n k => simp only [applyOp, Except.ok.injEq] at h1; subst h1; simpa using hx
      | deregNode p n =>
        simp only [applyOp, Except.ok.injEq] at h1; subst h1
        exact mem_delNode_svcs.mpr ⟨hx, fun hh => hn p n (by simp) hh.1⟩
    · apply d x _ (fun p n k hm => hk p n k (by simp [hm])) (fun p n i hm => hs p n i (by simp [hm]))
        (fun p n hm => hn p n (by simp [hm]))
      cases o with
      | reg r => simp [Op.isDereg] at h
      | deregSvc p n i =>
        simp only [applyOp, Except.ok.injEq] at h1; subst h1
        exact mem_delSvc_chks.mpr ⟨hx, fun hh => hs p n i (by simp) hh.1⟩
      | deregChk p n k =>
        simp only [applyOp, Except.ok.injEq] at h1; subst h1
        exact mem_delChk.mpr ⟨hx, hk p n k (by simp)⟩
      | deregNode p n =>
        simp only [applyOp, Except.ok.injEq] at h1; subst h1
        exact mem_delNode_chks.mpr ⟨hx, fun hh => hn p n (by simp) hh.1⟩

/-- `dropUnused` never removes a service instance; it removes nodes (and their checks) only among `ns` -/
theorem dropUnused_keep (p : String) (ns : List String) (c : Cat) :
    (∀ x ∈ c.nodes, ¬(x.peer = p ∧ x.name ∈ ns) → x ∈ (dropUnused p c ns).1.nodes) ∧
    (∀ x ∈ c.svcs, x ∈ (dropUnused p c ns).1.svcs) ∧
    (∀ x ∈ c.chks, ¬(x.peer = p ∧ x.node ∈ ns) → x ∈ (dropUnused p c ns).1.chks) := by
  induction ns generalizing c with
  | nil => simp [dropUnused]
  | cons n ns ih =>
    simp only [dropUnused]
    split
    · obtain ⟨a, b, d⟩ := ih c
      exact ⟨fun x hx hn => a x hx (fun hh => hn ⟨hh.1, by simp [hh.2]⟩), b,
        fun x hx hn => d x hx (fun hh => hn ⟨hh.1, by simp [hh.2]⟩)⟩
    · rename_i hh
      obtain ⟨a, b, d⟩ := ih (delNode c p n)
      simp only [hasSvc, Bool.and_eq_true, List.any_eq_true, nodeAt_iff, svcOn_iff, not_and, not_exists] at hh
      refine ⟨fun x hx hn => ?_, fun x hx => ?_, fun x hx hn => ?_⟩
      · apply a x _ (fun h2 => hn ⟨h2.1, by simp [h2.2]⟩)
        exact mem_delNode_nodes.mpr ⟨hx, fun h2 => hn ⟨h2.1, by simp [h2.2]⟩⟩
      · apply b x
        apply mem_delNode_svcs.mpr ⟨hx, ?_⟩
        rintro ⟨h2, e, he, h3⟩
        exact hh ⟨e, he, h3⟩ x hx h2.1 h2.2
      · apply d x _ (fun h2 => hn ⟨h2.1, by simp [h2.2]⟩)
        exact mem_delNode_chks.mpr ⟨hx, fun h2 => hn ⟨h2.1.1, by simp [h2.1.2]⟩⟩

/-! ### the normalised snapshot, read through the received instances -/

theorem snapNode_none {snap : Snap} {is : List Inst} (hs : SnapIs snap is) {n : String}
    (h : snapNode snap n = none) : ∀ j ∈ is, j.node.name ≠ n := by
  intro j hj hn
  obtain ⟨nd, hnd, e, _⟩ := hs.bwd j hj
  have := List.find?_eq_none.mp h nd hnd
  simp [e, hn] at this

theorem snapInst_some {snap : Snap} {is : List Inst} (hs : SnapIs snap is) {n i : String} {ss : SSvc}
    (h : snapInst snap n i = some ss) : ∃ j ∈ is, j.node.name = n ∧ j.svc.sid = i ∧ ss.chks = j.chks := by
  unfold snapInst snapNode at h
  split at h
  · cases h
  · rename_i nd hnd
    have h1 := List.mem_of_find?_eq_some hnd
    have h2 := List.find?_some hnd
    have h3 := List.mem_of_find?_eq_some h
    have h4 := List.find?_some h
    simp only [decide_eq_true_eq] at h2 h4
    obtain ⟨j, hj, e1, e2, e3⟩ := hs.fwd nd h1 ss h3
    exact ⟨j, hj, by rw [← e1]; exact h2, by rw [← e2]; exact h4, e3⟩

/-! ### the assembled statement -/

theorem handleUpdate_exact {c : Cat} {p sn : String} {is : List Inst}
    (wf : WF c) (ok : SnapOK sn is) (fr : Fresh c p is)
    (nr : NoReuse c p sn is) (cv : Covered c p sn is)
    (he : (handleUpdate c p sn is).err = none) (hp : (handleUpdate c p sn is).panic = false) :
    WF (handleUpdate c p sn is).cat ∧
    (∀ i ∈ is, nodeRow p i.node ∈ (handleUpdate c p sn is).cat.nodes ∧
        svcRow p i.node.name i.svc ∈ (handleUpdate c p sn is).cat.svcs ∧
        ∀ k ∈ i.chks, chkRow p k ∈ (handleUpdate c p sn is).cat.chks) ∧
    (∀ s ∈ (handleUpdate c p sn is).cat.svcs, s.peer = p → s.name = sn → ∃ i ∈ is, s = svcRow p i.node.name i.svc) ∧
    (∀ i ∈ is, ∀ k ∈ (handleUpdate c p sn is).cat.chks, k.peer = p → k.node = i.node.name →
        (k.sid = "" ∨ k.sid = i.svc.sid) → ∃ d ∈ i.chks, k = chkRow p d) := by
  obtain ⟨st, snap, c1, l1, hst, hsnap, hr, hcat⟩ := handleUpdate_ok he hp
  obtain ⟨snap', hsnap', swf, sis⟩ := mkSnap_is ok
  rw [hsnap] at hsnap'; cases hsnap'
  have ph := phase1 wf ok sis fr hst hr
  have hd := runOps_deregs _ c1 (cleanupCmds_dereg p snap st)
  have hk := runOps_deregs_keep _ c1 (cleanupCmds_dereg p snap st)
  have hdu := dropUnused_keep p (cleanup p snap st).unused (runOps c1 (cleanupCmds p (cleanup p snap st))).1
  have hsub : Sub (handleUpdate c p sn is).cat c1 := by
    rw [hcat]; exact Sub.trans (sub_dropUnused p _ _) hd.2.2.1
  have hsub2 : Sub (handleUpdate c p sn is).cat (runOps c1 (cleanupCmds p (cleanup p snap st))).1 := by
    rw [hcat]; exact sub_dropUnused p _ _
  have wfF : WF (handleUpdate c p sn is).cat := WF.of_sub ph.wf hsub
  obtain ⟨cops, cnch, cunu⟩ := cleanup_spec p snap st
  -- what the clean-up commands are
  have cmdSvc : ∀ q n i, Op.deregSvc q n i ∈ cleanupCmds p (cleanup p snap st) →
      q = p ∧ ∀ j ∈ is, ¬(j.node.name = n ∧ j.svc.sid = i) := by
    intro q n i hm
    simp only [cleanupCmds, List.mem_append, List.mem_map] at hm
    rcases hm with hm | ⟨nk, _, hm⟩
    · obtain ⟨x, hx, h1 | ⟨ss, _, k, _, _, _, h1⟩⟩ := (cops _).mp hm
      · obtain ⟨h1, h2⟩ := h1
        simp only [Op.deregSvc.injEq] at h2
        obtain ⟨rfl, rfl, rfl⟩ := h2
        refine ⟨rfl, fun j hj hkey => ?_⟩
        have := ((mkSnap_keys hsnap).2 x.node.name x.svc.sid).mpr ⟨j, hj, hkey⟩
        exact this h1
      · cases h1
    · cases hm
  have cmdNode : ∀ q n, Op.deregNode q n ∉ cleanupCmds p (cleanup p snap st) := by
    intro q n hm
    simp only [cleanupCmds, List.mem_append, List.mem_map] at hm
    rcases hm with hm | ⟨nk, _, hm⟩
    · obtain ⟨x, hx, h1 | ⟨ss, _, k, _, _, _, h1⟩⟩ := (cops _).mp hm
      · cases h1.2
      · cases h1
    · cases hm
  have cmdChk : ∀ q n k, Op.deregChk q n k ∈ cleanupCmds p (cleanup p snap st) →
      q = p ∧ ∃ x ∈ st, ∃ j ∈ is, j.node.name = x.node.name ∧ j.svc.sid = x.svc.sid ∧
        ∃ kk ∈ x.chks, (∀ d ∈ j.chks, d.cid ≠ kk.cid) ∧ n = kk.node ∧ k = kk.cid := by
    intro q n k hm
    simp only [cleanupCmds, List.mem_append, List.mem_map] at hm
    rcases hm with hm | ⟨nk, hnk, hm⟩
    · obtain ⟨x, hx, h1 | ⟨ss, hss, kk, hkk, hgone, _, h1⟩⟩ := (cops _).mp hm
      · cases h1.2
      · simp only [Op.deregChk.injEq] at h1
        obtain ⟨rfl, rfl, rfl⟩ := h1
        obtain ⟨j, hj, e1, e2, e3⟩ := snapInst_some sis hss
        refine ⟨rfl, x, hx, j, hj, e1, e2, kk, hkk, ?_, rfl, rfl⟩
        intro d hd hc
        exact hgone ⟨d, by rw [e3]; exact hd, hc⟩
    · obtain ⟨x, hx, ss, hss, kk, hkk, hgone, _, h1⟩ := (cnch _).mp hnk
      simp only [Op.deregChk.injEq] at hm
      obtain ⟨rfl, rfl, rfl⟩ := hm
      obtain ⟨j, hj, e1, e2, e3⟩ := snapInst_some sis hss
      refine ⟨rfl, x, hx, j, hj, e1, e2, kk, hkk, ?_, by rw [h1], by rw [h1]⟩
      intro d hd hc
      exact hgone ⟨d, by rw [e3]; exact hd, hc⟩
  have unusedOut : ∀ n ∈ (cleanup p snap st).unused, ∀ j ∈ is, j.node.name ≠ n := by
    intro n hn
    obtain ⟨x, _, h1, rfl⟩ := (cunu n).mp hn
    exact snapNode_none sis h1
  -- a stored instance, seen through the view
  have viewChk : ∀ x ∈ st, ∀ kk ∈ x.chks, kk ∈ c.chks ∧ kk.peer = p ∧ kk.node = x.node.name ∧
      (kk.sid = "" ∨ kk.sid = x.svc.sid) := by
    intro x hx kk hkk
    obtain ⟨_, _, _, _, _, hnn, hch⟩ := (csn_ok hst).1 x hx
    rw [hch] at hkk
    simp only [List.mem_append, List.mem_filter, chkOfNode_iff, chkOfSvc_iff] at hkk
    rcases hkk with hkk | hkk
    · exact ⟨hkk.1, hkk.2.1, by rw [hnn]; exact hkk.2.2.1, Or.inl hkk.2.2.2⟩
    · exact ⟨hkk.1, hkk.2.1, by rw [hnn]; exact hkk.2.2.1, Or.inr hkk.2.2.2⟩
  -- received rows survive the deletion phases
  have present : ∀ i ∈ is, nodeRow p i.node ∈ (handleUpdate c p sn is).cat.nodes ∧
      svcRow p i.node.name i.svc ∈ (handleUpdate c p sn is).cat.svcs ∧
      ∀ k ∈ i.chks, chkRow p k ∈ (handleUpdate c p sn is).cat.chks := by
    intro i hi
    rw [hcat]
    refine ⟨?_, ?_, ?_⟩
    · apply hdu.1
      · exact hk.1 _ (ph.nodeIn i hi) (fun q n hm => absurd hm (cmdNode q n))
      · rintro ⟨_, hn⟩
        exact unusedOut _ hn i hi rfl
    · apply hdu.2.1
      apply hk.2.1 _ (ph.svcIn i hi)
      · intro q n i' hm hkey
        simp only [svcRow] at hkey
        exact (cmdSvc q n i' hm).2 i hi ⟨hkey.2.1, hkey.2.2⟩
      · exact fun q n hm => absurd hm (cmdNode q n)
    · intro k hkc
      obtain ⟨_, hkn, _, hks⟩ := ok.chk i hi k hkc
      apply hdu.2.2
      · apply hk.2.2 _ (ph.chkIn i hi k hkc)
        · intro q n k' hm hkey
          obtain ⟨rfl, x, hx, j, hj, e1, e2, kk, hkk, hgone, rfl, rfl⟩ := cmdChk q n k' hm
          obtain ⟨v1, v2, v3, v4⟩ := viewChk x hx kk hkk
          obtain ⟨xs, xp, xn, _, _, xnn, _⟩ := (csn_ok hst).1 x hx
          simp only [chkRow] at hkey
          have hsame : j.node.name = i.node.name := by rw [e1, ← v3, ← hkey.2.1, hkn]
          exact nr kk v1 v2 j hj (by rw [v3, e1]) (by rw [e2]; exact v4)
            ⟨x.svc, xs, xp, by rw [← xnn, e1], e2.symm, xn⟩ hgone i hi hsame.symm k hkc hkey.2.2
        · intro q n i' hm hkey
          simp only [chkRow] at hkey
          obtain ⟨rfl, hno⟩ := cmdSvc q n i' hm
          -- the deregistered service id is a stored one, hence non-empty
          have hne : i' ≠ "" := by
            simp only [cleanupCmds, List.mem_append, List.mem_map] at hm
            rcases hm with hm | ⟨nk, _, hm⟩
            · obtain ⟨x, hx, h1 | ⟨ss, _, k2, _, _, _, h1⟩⟩ := (cops _).mp hm
              · have h2 := h1.2
                simp only [Op.deregSvc.injEq] at h2
                obtain ⟨_, _, rfl⟩ := h2
                exact wf.sid x.svc ((csn_ok hst).1 x hx).1
              · cases h1
            · cases hm
          rcases hks with hks | ⟨hks, _⟩
          · exact hne (by rw [← hkey.2.2, hks])
          · exact hno i hi ⟨by rw [← hkey.2.1, hkn], by rw [← hkey.2.2, hks]⟩
        · exact fun q n hm => absurd hm (cmdNode q n)
      · rintro ⟨_, hn⟩
        simp only [chkRow] at hn
        exact unusedOut _ hn i hi hkn.symm
  refine ⟨wfF, present, ?_, ?_⟩
  · -- instances of (p, sn) are exactly the received ones
    intro s hs hsp hsn
    obtain ⟨i, hi, e1, e2⟩ := handleUpdate_instances_in_snapshot he hp s hs hsp hsn
    refine ⟨i, hi, ?_⟩
    exact wfF.svcs s hs _ (present i hi).2.1 (by simp [svcRow, hsp]) (by simp [svcRow, e1]) (by simp [svcRow, e2])
  · -- checks in the view of a received instance are exactly the received ones
    intro i hi k hkf hkp hkn hks
    have hk1 := hsub.chks k hkf
    have hisid := (ok.inst i hi).2.1
    -- a received check with the same id on this node, listed by some instance j, is listed by i
    have tgt : ∀ j ∈ is, j.node.name = i.node.name → ∀ d ∈ j.chks, k = chkRow p d → ∃ d ∈ i.chks, k = chkRow p d := by
      intro j hj hjn d hd hkd
      obtain ⟨_, hdn, _, hds⟩ := ok.chk j hj d hd
      have hsid : d.sid = k.sid := by rw [hkd]; rfl
      rcases hks with hks | hks
      · exact ⟨d, ok.nodeChks j hj i hi hjn d hd (by rw [hsid, hks]), hkd⟩
      · rcases hds with hds | ⟨hds, _⟩
        · exact absurd (by rw [← hks, ← hsid, hds]) hisid
        · have := inst_unique ok hj hi hjn (by rw [← hds, hsid, hks])
          subst this
          exact ⟨d, hd, hkd⟩
    -- a received check with this id on this node forces k to be that row
    have same : ∀ j ∈ is, j.node.name = i.node.name → ∀ d ∈ j.chks, d.cid = k.cid → k = chkRow p d := by
      intro j hj hjn d hd hc
      obtain ⟨_, hdn, _, _⟩ := ok.chk j hj d hd
      exact ph.wf.chks k hk1 _ (ph.chkIn j hj d hd) (by simp [chkRow, hkp]) (by simp [chkRow, hkn, hdn, hjn])
        (by simp [chkRow, hc])
    rcases ph.chkFrom k hk1 with h0 | ⟨j, hj, d, hd, rfl⟩
    · rcases cv k h0 hkp i hi hkn hks with ⟨d, hd, hc⟩ | ⟨j, hj, hjn, ⟨s, hs, hsp, hsn, hsi, hsnm⟩, hks2⟩
      · exact ⟨d, hd, same i hi rfl d hd hc⟩
      · obtain ⟨x, hx, hxs⟩ := (csn_ok hst).2 s hs hsp hsnm
        obtain ⟨_, _, _, _, _, xnn, xch⟩ := (csn_ok hst).1 x hx
        by_cases hex : ∃ d ∈ j.chks, d.cid = k.cid
        · obtain ⟨d, hd, hc⟩ := hex
          exact tgt j hj hjn d hd (same j hj hjn d hd hc)
        · exfalso
          -- the clean-up deletes k
          have hkx : k ∈ x.chks := by
            rw [xch, hxs]
            simp only [List.mem_append, List.mem_filter, chkOfNode_iff, chkOfSvc_iff]
            rcases hks2 with h2 | h2
            · exact Or.inl ⟨h0, hkp, by rw [hkn, hsn, hjn], h2⟩
            · exact Or.inr ⟨h0, hkp, by rw [hkn, hsn, hjn], by rw [h2, hsi]⟩
          have hinst : ∃ ss, snapInst snap x.node.name x.svc.sid = some ss ∧ ss.chks = j.chks := by
            cases hsi' : snapInst snap x.node.name x.svc.sid with
            | none =>
              exfalso
              have := ((mkSnap_keys hsnap).2 x.node.name x.svc.sid).mpr ⟨j, hj, by rw [xnn, hxs, hsn], by rw [hxs, hsi]⟩
              exact this hsi'
            | some ss =>
              obtain ⟨j', hj', e1, e2, e3⟩ := snapInst_some sis hsi'
              have := inst_unique ok hj' hj (by rw [e1, xnn, hxs, hsn]) (by rw [e2, hxs, hsi])
              subst this
              exact ⟨ss, rfl, e3⟩
          obtain ⟨ss, hss, hssc⟩ := hinst
          have hgone : chkGone ss k := by
            rintro ⟨e, he1, he2⟩
            exact hex ⟨e, by rw [← hssc]; exact he1, he2⟩
          have hop : Op.deregChk p k.node k.cid ∈ cleanupCmds p (cleanup p snap st) := by
            simp only [cleanupCmds, List.mem_append, List.mem_map]
            by_cases hsid : k.sid = ""
            · right
              exact ⟨(k.node, k.cid), (cnch _).mpr ⟨x, hx, ss, hss, k, hkx, hgone, hsid, rfl⟩, rfl⟩
            · left
              exact (cops _).mpr ⟨x, hx, Or.inr ⟨ss, hss, k, hkx, hgone, hsid, rfl⟩⟩
          exact hd.2.2.2.2 p k.node k.cid hop k (hsub2.chks k hkf) ⟨hkp, rfl, rfl⟩
    · obtain ⟨_, hdn, _, _⟩ := ok.chk j hj d hd
      have hjn : j.node.name = i.node.name := by
        simp only [chkRow] at hkn
        rw [← hdn, hkn]
      exact tgt j hj hjn d hd rfl

/-! ### from rows to the view -/

theorem csnAll_total (c : Cat) (p : String) (l : List Svc) (h : ∀ s ∈ l, ∃ x, csnOf c p s = .ok x) :
    ∃ L, csnAll c p l = .ok L := by
  induction l with
  | nil => exact ⟨[], rfl⟩
  | cons s ss ih =>
    obtain ⟨x, hx⟩ := h s (by simp)
    obtain ⟨L, hL⟩ := ih (fun t ht => h t (by simp [ht]))
    exact ⟨x :: L, by simp [csnAll, hx, hL]⟩

theorem viewIs_of_rows {r : Cat} {p sn : String} {is : List Inst} (wf : WF r) (ok : SnapOK sn is)
    (present : ∀ i ∈ is, nodeRow p i.node ∈ r.nodes ∧ svcRow p i.node.name i.svc ∈ r.svcs ∧
        ∀ k ∈ i.chks, chkRow p k ∈ r.chks)
    (svcs : ∀ s ∈ r.svcs, s.peer = p → s.name = sn → ∃ i ∈ is, s = svcRow p i.node.name i.svc)
    (chks : ∀ i ∈ is, ∀ k ∈ r.chks, k.peer = p → k.node = i.node.name → (k.sid = "" ∨ k.sid = i.svc.sid) →
        ∃ d ∈ i.chks, k = chkRow p d) :
    ViewIs r p sn is := by
  have hnode : ∀ i ∈ is, r.nodes.find? (nodeAt p i.node.name) = some (nodeRow p i.node) := by
    intro i hi
    cases hf : r.nodes.find? (nodeAt p i.node.name) with
    | none =>
      exact absurd ⟨rfl, rfl⟩ (find_node_none hf _ (present i hi).1)
    | some e =>
      obtain ⟨h1, h2, h3⟩ := find_node hf
      rw [wf.nodes e h1 _ (present i hi).1 (by simp [nodeRow, h2]) (by simp [nodeRow, h3])]
  have htot : ∀ s ∈ r.svcs.filter (fun s => decide (s.peer = p ∧ s.name = sn)), ∃ x, csnOf r p s = .ok x := by
    intro s hs
    simp only [List.mem_filter, decide_eq_true_eq] at hs
    obtain ⟨i, hi, rfl⟩ := svcs s hs.1 hs.2.1 hs.2.2
    simp only [csnOf, svcRow, hnode i hi]
    exact ⟨_, rfl⟩
  obtain ⟨L, hL⟩ := csnAll_total r p _ htot
  have hcsn : csn r p sn = .ok L := hL
  refine ⟨L, hcsn, ?_, ?_⟩
  · intro x hx
    obtain ⟨xs, xp, xn, xnode, xnp, xnn, xch⟩ := (csn_ok hcsn).1 x hx
    obtain ⟨i, hi, hsv⟩ := svcs x.svc xs xp xn
    have hxn : x.node = nodeRow p i.node := by
      refine wf.nodes _ xnode _ (present i hi).1 (by simp [nodeRow, xnp]) ?_
      rw [xnn, hsv]; rfl
    refine ⟨i, hi, hxn, hsv, fun k => ?_⟩
    rw [xch, hsv]
    simp only [List.mem_append, List.mem_filter, chkOfNode_iff, chkOfSvc_iff, svcRow]
    constructor
    · rintro (⟨h1, h2, h3, h4⟩ | ⟨h1, h2, h3, h4⟩)
      · exact chks i hi k h1 h2 h3 (Or.inl h4)
      · exact chks i hi k h1 h2 h3 (Or.inr h4)
    · rintro ⟨d, hd, rfl⟩
      obtain ⟨_, hdn, _, hds⟩ := ok.chk i hi d hd
      rcases hds with hds | ⟨hds, _⟩
      · exact Or.inl ⟨(present i hi).2.2 d hd, rfl, hdn, hds⟩
      · exact Or.inr ⟨(present i hi).2.2 d hd, rfl, hdn, hds⟩
  · intro i hi
    exact (csn_ok hcsn).2 _ (present i hi).2.1 rfl (ok.inst i hi).2.2

/-! ### refuting the view equation on a concrete catalog -/

deriving instance DecidableEq for Except

/-- a check in the view that no received check accounts for refutes `ViewIs` -/
theorem not_viewIs_of_stale {r : Cat} {p sn : String} {is : List Inst} {L : List CSN} {x : CSN} {k : Chk}
    (hL : csn r p sn = .ok L) (hx : x ∈ L) (hk : k ∈ x.chks) (hno : ∀ i ∈ is, ∀ d ∈ i.chks, k ≠ chkRow p d) :
    ¬ ViewIs r p sn is := by
  rintro ⟨L', hL', h1, _⟩
  rw [hL] at hL'; cases hL'
  obtain ⟨i, hi, _, _, hc⟩ := h1 x hx
  obtain ⟨d, hd, e⟩ := (hc k).mp hk
  exact hno i hi d hd e


end CV.Peer
