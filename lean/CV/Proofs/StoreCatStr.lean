/-
String facts used by the C07 proofs: lower-casing is idempotent and distributes over append, literals,
cancellation of a common prefix, inequality by a differing character.
-/
import CV.Proofs.StoreCatFrame
namespace CV.Store
open CV

theorem toLower_idem (c : Char) : c.toLower.toLower = c.toLower := by
  unfold Char.toLower
  by_cases h : c.val ≥ 'A'.val ∧ c.val ≤ 'Z'.val
  · simp only [h, and_self, dite_true]
    have h2 : ¬ ((c.val + ('a'.val - 'A'.val)) ≥ 'A'.val ∧ (c.val + ('a'.val - 'A'.val)) ≤ 'Z'.val) := by
      obtain ⟨h1, h3⟩ := h
      intro ⟨_, hb⟩
      have k3 : c.val.toNat ≤ 90 := UInt32.le_iff_toNat_le.mp h3
      have k4 : (c.val + ('a'.val - 'A'.val)).toNat ≤ 90 := UInt32.le_iff_toNat_le.mp hb
      have k5 : (c.val + ('a'.val - 'A'.val)).toNat = (c.val.toNat + 32) % 4294967296 := by
        rw [UInt32.toNat_add]; rfl
      have k6 : (c.val.toNat + 32) % 4294967296 = c.val.toNat + 32 := Nat.mod_eq_of_lt (by omega)
      have k7 : c.val.toNat + 32 ≤ 90 := by rw [← k6, ← k5]; exact k4
      have k1 : 65 ≤ c.val.toNat := UInt32.le_iff_toNat_le.mp h1
      omega
    simp only [h2, dite_false]
  · simp only [h, dite_false]

theorem lc_idem (s : String) : lc (lc s) = lc s := by
  apply String.ext
  simp only [lc, String.toList_map, List.map_map]
  apply List.map_congr_left
  intro c _
  exact toLower_idem c

theorem lc_append (a b : String) : lc (a ++ b) = lc a ++ lc b := by
  apply String.ext
  simp [lc, String.toList_map, String.toList_append]

theorem lc_of_toList (s t : String) (h : s.toList.map Char.toLower = t.toList) : lc s = t := by
  apply String.ext; rw [lc, String.toList_map]; exact h

theorem append_cancel_left {p a b : String} (h : p ++ a = p ++ b) : a = b := by
  have := congrArg String.toList h
  simp only [String.toList_append] at this
  exact String.ext (List.append_cancel_left this)

theorem str_ne_of_toList_ne {a b : String} (h : a.toList ≠ b.toList) : a ≠ b := fun hab => h (by rw [hab])

/-- two strings whose character lists start with different characters differ -/
theorem str_ne_of_head {a b : String} {x y : Char} {xs ys : List Char} (ha : a.toList = x :: xs) (hb : b.toList = y :: ys)
    (h : x ≠ y) : a ≠ b := by
  apply str_ne_of_toList_ne
  rw [ha, hb]
  intro hh; injection hh with h1 _; exact h h1

theorem lc_eq_empty {q : String} : lc q = "" ↔ q = "" := by
  constructor
  · intro h
    have := congrArg String.toList h
    rw [lc, String.toList_map] at this
    apply String.ext
    cases hq : q.toList with
    | nil => rfl
    | cons x xs => rw [hq] at this; simp at this
  · intro h; subst h; exact lc_of_toList _ _ (by decide)

end CV.Store
