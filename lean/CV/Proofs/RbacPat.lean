/-
C14 helper lemmas, part 3: the regular-expression layer. The token reading of the patterns
that `makeSpiffePattern` / `makeSpiffeMeshGatewayPattern` emit, applied to the URI SAN a caller
presents, recognises exactly the structured identity (`identM`, `isGw`).
-/
import CV.Proofs.RbacSem
namespace CV.Rbac

theorem dropLit_append (l s : Bytes) : dropLit l (l ++ s) = some s := by
  induction l with
  | nil => cases s <;> rfl
  | cons a l ih => simp [dropLit, ih]

theorem dropLit_append_left (p l s : Bytes) : dropLit (p ++ l) (p ++ s) = dropLit l s := by
  induction p with
  | nil => rfl
  | cons a p ih => simp [dropLit, ih]

/-- comparing one `/`-terminated segment -/
theorem dropLit_seg (x y l r : Bytes) (hx : 47 ∉ x) (hy : 47 ∉ y) :
    dropLit (x ++ 47 :: l) (y ++ 47 :: r) = if x = y then dropLit l r else none := by
  induction x generalizing y with
  | nil =>
    cases y with
    | nil => simp [dropLit]
    | cons b y =>
      have : (47 : Nat) ≠ b := by intro h; apply hy; simp [h]
      simp [dropLit, this]
  | cons a x ih =>
    have ha : a ≠ 47 := by intro h; apply hx; simp [h]
    cases y with
    | nil => simp [dropLit, ha]
    | cons b y =>
      have hx' : 47 ∉ x := fun h => hx (List.mem_cons_of_mem _ h)
      have hy' : 47 ∉ y := fun h => hy (List.mem_cons_of_mem _ h)
      simp only [List.cons_append, dropLit]
      by_cases hab : a = b
      · simp [hab, ih y hx' hy']
      · simp [hab]

theorem hostEq_refl (t : Bytes) : hostEq t t = true := by
  induction t with
  | nil => rfl
  | cons a t ih => simp [hostEq, ih]

theorem dropHost_len (T t r : Bytes) (h : T.length = t.length) :
    dropHost T (t ++ r) = if hostEq T t then some r else none := by
  induction T generalizing t with
  | nil =>
    cases t with
    | nil => cases r <;> simp [dropHost, hostEq]
    | cons _ _ => simp at h
  | cons a T ih =>
    cases t with
    | nil => simp at h
    | cons b t =>
      have h' : T.length = t.length := by simpa using h
      simp only [List.cons_append, dropHost, hostEq, ih t h']
      by_cases hc : (a = b ∨ a = 46 ∧ ¬b = 10)
      · simp [hc]
      · simp [hc]

/-- `[^/]+` in front of something that must start with `/` takes exactly the segment -/
theorem matchPlus_seg (k : Bytes → Bool) (hk : ∀ s, k s = true → ∃ t, s = 47 :: t)
    (x r : Bytes) (hx : 47 ∉ x) (hne : x ≠ []) :
    matchPlus (fun b => decide (b ≠ 47)) k (x ++ 47 :: r) = k (47 :: r) := by
  induction x with
  | nil => exact absurd rfl hne
  | cons c x ih =>
    have hc : c ≠ 47 := by intro h; apply hx; simp [h]
    have hx' : 47 ∉ x := fun h => hx (List.mem_cons_of_mem _ h)
    cases x with
    | nil => simp [matchPlus, hc]
    | cons d x =>
      have hd : d ≠ 47 := by intro h; apply hx'; simp [h]
      have hkd : k (d :: (x ++ 47 :: r)) = false := by
        cases hkv : k (d :: (x ++ 47 :: r)) with
        | false => rfl
        | true =>
          obtain ⟨t, ht⟩ := hk _ hkv
          simp at ht; exact absurd ht.1 hd
      have := ih hx' (by simp)
      simp only [List.cons_append] at this ⊢
      rw [matchPlus]
      simp only [hc, ne_eq, not_false_eq_true, decide_true, Bool.true_and, hkd, Bool.false_or]
      exact this

theorem matchPlus_last (x : Bytes) (cls : Nat → Bool) :
    matchPlus cls (fun s => s.isEmpty) x = (!x.isEmpty && x.all cls) := by
  induction x with
  | nil => rfl
  | cons c x ih =>
    cases x with
    | nil => simp [matchPlus]
    | cons d x =>
      rw [matchPlus, ih]
      simp

theorem escapePath_safe (s : Bytes) (h : s.all pathSafeByte = true) : escapePath s = s := by
  induction s with
  | nil => rfl
  | cons b s ih =>
    simp only [List.all_cons, Bool.and_eq_true] at h
    simp [escapePath, h.1, ih h.2]

theorem escapePath_append (a b : Bytes) : escapePath (a ++ b) = escapePath a ++ escapePath b := by
  induction a with
  | nil => rfl
  | cons x a ih =>
    simp only [List.cons_append, escapePath]
    split <;> simp [ih]

/-! ### the path of a service identity against the pattern of a source -/

theorem nsStep (ns rest : Bytes) (hns : 47 ∉ ns) :
    dropLit cNsDefaultDc (cNs ++ ns ++ cDc ++ rest) = if ns = cDefault then some rest else none := by
  have e1 : cNsDefaultDc = cNs ++ (cDefault ++ 47 :: [100, 99, 47]) := by decide
  have e2 : cNs ++ ns ++ cDc ++ rest = cNs ++ (ns ++ 47 :: ([100, 99, 47] ++ rest)) := by
    simp [cDc, List.append_assoc]
  rw [e1, e2, dropLit_append_left, dropLit_seg _ _ _ _ (by decide) hns, dropLit_append]
  by_cases h : ns = cDefault
  · simp [h]
  · have : ¬ cDefault = ns := fun e => h e.symm
    simp [h, this]

theorem dropLit_path (ap' ap ns rest : Bytes) (h' : 47 ∉ apName ap') (h : 47 ∉ apName ap) (hns : 47 ∉ ns) :
    dropLit (apSeg ap' ++ cNsDefaultDc) (apSeg ap ++ cNs ++ ns ++ cDc ++ rest)
      = if apSeg ap = apSeg ap' ∧ ns = cDefault then some rest else none := by
  unfold apSeg
  by_cases d' : apName ap' = cDefault <;> by_cases d : apName ap = cDefault
  · simp only [d', d, if_true, List.nil_append, true_and]
    exact nsStep ns rest hns
  · simp only [d', d, if_true, if_false, List.nil_append]
    have : ¬ (cAp ++ apName ap = []) := by simp [cAp]
    simp [this, cNsDefaultDc, cAp, dropLit]
  · simp only [d', d, if_true, if_false, List.nil_append]
    have : ¬ ([] = cAp ++ apName ap') := by simp [cAp]
    simp [this, cNs, cAp, dropLit]
  · simp only [d', d, if_false]
    have e1 : cAp ++ apName ap' ++ cNsDefaultDc = cAp ++ (apName ap' ++ 47 :: [110, 115, 47, 100, 101, 102, 97, 117, 108, 116, 47, 100, 99, 47]) := by
      simp [cNsDefaultDc, List.append_assoc]
    have e2 : cAp ++ apName ap ++ cNs ++ ns ++ cDc ++ rest
        = cAp ++ (apName ap ++ 47 :: ([110, 115, 47] ++ ns ++ cDc ++ rest)) := by
      simp [cNs, List.append_assoc]
    rw [e1, e2, dropLit_append_left, dropLit_seg _ _ _ _ h' h]
    by_cases hp : apName ap' = apName ap
    · have hn := nsStep ns rest hns
      have e3 : (47 :: [110, 115, 47, 100, 101, 102, 97, 117, 108, 116, 47, 100, 99, 47] : Bytes) = cNsDefaultDc := by decide
      have e4 : (47 :: ([110, 115, 47] ++ ns ++ cDc ++ rest) : Bytes) = cNs ++ ns ++ cDc ++ rest := by
        simp [cNs, List.append_assoc]
      have e5 : dropLit [110, 115, 47, 100, 101, 102, 97, 117, 108, 116, 47, 100, 99, 47] ([110, 115, 47] ++ ns ++ cDc ++ rest)
          = dropLit cNsDefaultDc (cNs ++ ns ++ cDc ++ rest) := by
        rw [← e3, ← e4]; simp [dropLit]
      simp only [hp, if_true, e5, hn, true_and]
    · have : ¬ (cAp ++ apName ap = cAp ++ apName ap') := by
        intro e; exact hp (List.append_cancel_left e).symm
      simp [hp, this]

/-! ### `makeSpiffePattern` against a service identity -/

theorem dropLit_full (l s : Bytes) :
    (match dropLit l s with | some s' => s'.isEmpty | none => false) = decide (s = l) := by
  induction l generalizing s with
  | nil => cases s <;> simp [dropLit]
  | cons a l ih =>
    cases s with
    | nil => simp [dropLit]
    | cons b s =>
      simp only [dropLit]
      by_cases hab : a = b
      · simp [hab, ih s]
      · have : ¬ b = a := fun e => hab e.symm
        simp [hab, this]

/-- the path of a service identity, after the trust domain -/
def svcPath (ap ns dc name : Bytes) : Bytes := apSeg ap ++ cNs ++ ns ++ cDc ++ dc ++ cSvc ++ name

/-- the identity is printable without URL escaping and its fields are path segments -/
structure SvcSafe (ap ns dc name : Bytes) : Prop where
  url : (svcPath ap ns dc name).all pathSafeByte = true
  apOk : 47 ∉ apName ap
  nsOk : 47 ∉ ns
  dcOk : 47 ∉ dc
  dcNe : dc ≠ []
  nameOk : 47 ∉ name
  nameNe : name ≠ []

/-- the unquoted trust domain of the pattern recognises the caller's trust domain exactly
    (all consul trust domains are `<uuid>.consul`: equal length, and `.` is the only metacharacter) -/
structure TdExact (T td : Bytes) : Prop where
  len : T.length = td.length
  exact : hostEq T td = true → T = td

theorem spiffe_svc_safe (td ap ns dc name : Bytes) (h : SvcSafe ap ns dc name) :
    spiffe (.svc td ap ns dc name) = cSpiffe ++ (td ++ svcPath ap ns dc name) := by
  have := escapePath_safe _ h.url
  simp only [svcPath] at this
  simp only [spiffe, svcPath, List.append_assoc] at this ⊢
  rw [this]

theorem last_tok (s : Src) (name : Bytes) (hn : 47 ∉ name) (hn0 : name ≠ []) :
    matchToks [if s.name = star then Tok.seg else Tok.lit s.name] name = (decide (s.name = star) || decide (name = s.name)) := by
  by_cases hs : s.name = star
  · simp only [hs, if_true, matchToks, decide_true, Bool.true_or]
    have := matchPlus_last name (fun b => decide (b ≠ 47))
    rw [this]
    have h1 : name.isEmpty = false := by cases name <;> simp_all
    have h2 : name.all (fun b => decide (b ≠ 47)) = true := by
      simp only [List.all_eq_true, decide_eq_true_eq]
      intro b hb e; exact hn (e ▸ hb)
    rw [h1, h2]; rfl
  · simp only [hs, if_false, matchToks, decide_false, Bool.false_or]
    exact dropLit_full s.name name

theorem svc_tail (s : Src) (dc name : Bytes) (hdc : 47 ∉ dc) (hdc0 : dc ≠ []) (hn : 47 ∉ name) (hn0 : name ≠ []) :
    matchToks [Tok.seg, Tok.lit cSvc, if s.name = star then Tok.seg else Tok.lit s.name] (dc ++ cSvc ++ name)
      = (decide (s.name = star) || decide (name = s.name)) := by
  have e : dc ++ cSvc ++ name = dc ++ 47 :: ([115, 118, 99, 47] ++ name) := by simp [cSvc, List.append_assoc]
  rw [e]
  show matchPlus (fun b => decide (b ≠ 47)) (matchToks [Tok.lit cSvc, if s.name = star then Tok.seg else Tok.lit s.name]) _ = _
  rw [matchPlus_seg _ _ dc _ hdc hdc0]
  · have e2 : (47 :: ([115, 118, 99, 47] ++ name) : Bytes) = cSvc ++ name := by simp [cSvc]
    rw [e2]
    simp only [matchToks, dropLit_append]
    exact last_tok s name hn hn0
  · intro t ht
    simp only [matchToks] at ht
    cases t with
    | nil => simp [cSvc, dropLit] at ht
    | cons b t =>
      by_cases hb : b = 47
      · exact ⟨t, by rw [hb]⟩
      · have : ¬ (47 = b) := fun e => hb e.symm
        simp [cSvc, dropLit, this] at ht

/-- `pattern_layer` for the certificate principal: the pattern of a source, read as RE2 reads
    it, matches the URI SAN of a service identity iff the identity belongs to the source. -/
theorem idToks_svc (s : Src) (td ap ns dc name : Bytes) (hs : SvcSafe ap ns dc name) (ht : TdExact s.td td)
    (hsap : 47 ∉ apName (srcAp s)) :
    matchToks (idToks s) (spiffe (.svc td ap ns dc name)) = identM s (.svc td ap ns dc name) := by
  rw [spiffe_svc_safe td ap ns dc name hs]
  simp only [idToks, idToksBody, matchToks, dropLit_append, dropHost_len _ _ _ ht.len]
  by_cases hh : hostEq s.td td = true
  · have htd : s.td = td := ht.exact hh
    simp only [hh, if_true, svcPath]
    have e : apSeg ap ++ cNs ++ ns ++ cDc ++ dc ++ cSvc ++ name = apSeg ap ++ cNs ++ ns ++ cDc ++ (dc ++ cSvc ++ name) := by
      simp [List.append_assoc]
    rw [e, dropLit_path (srcAp s) ap ns _ hsap hs.apOk hs.nsOk]
    by_cases hc : apSeg ap = apSeg (srcAp s) ∧ ns = cDefault
    · simp only [hc, and_self, if_true]
      have := svc_tail s dc name hs.dcOk hs.dcNe hs.nameOk hs.nameNe
      simp only [matchToks] at this
      rw [this]
      simp [identM, htd, hc.1, hc.2]
    · simp only [hc, if_false]
      simp only [identM]
      by_cases h1 : apSeg ap = apSeg (srcAp s)
      · have : ¬ ns = cDefault := fun h2 => hc ⟨h1, h2⟩
        simp [this]
      · simp [h1]
  · have htd : ¬ td = s.td := by
      intro e; apply hh; rw [e]; exact hostEq_refl _
    simp [hh, identM, htd]

/-! ### mesh-gateway identities and the mesh-gateway pattern -/

def IdentSafe : Ident → Prop
  | .svc _ ap ns dc name => SvcSafe ap ns dc name
  | .gw _ dc => dc.all pathSafeByte = true ∧ 47 ∉ dc ∧ dc ≠ []
  | .raw _ => False

def identTd : Ident → Bytes
  | .svc td _ _ _ _ => td
  | .gw td _ => td
  | .raw _ => []

theorem spiffe_gw_safe (td dc : Bytes) (h : dc.all pathSafeByte = true) :
    spiffe (.gw td dc) = cSpiffe ++ (td ++ (cGwPath ++ dc)) := by
  have h1 : escapePath cGwPath = cGwPath := escapePath_safe _ (by decide)
  simp only [spiffe, escapePath_append, h1, escapePath_safe dc h, List.append_assoc]

theorem matchToks_seg_last (x : Bytes) (hx : 47 ∉ x) (hne : x ≠ []) : matchToks [Tok.seg] x = true := by
  show matchPlus (fun b => decide (b ≠ 47)) (fun s => s.isEmpty) x = true
  rw [matchPlus_last]
  have h1 : x.isEmpty = false := by cases x <;> simp_all
  have h2 : x.all (fun b => decide (b ≠ 47)) = true := by
    simp only [List.all_eq_true, decide_eq_true_eq]
    intro b hb e; exact hx (e ▸ hb)
  rw [h1, h2]; rfl

theorem dropLit_ns_gw (ap' rest : Bytes) : dropLit (apSeg ap' ++ cNsDefaultDc) (cGwPath ++ rest) = none := by
  unfold apSeg
  split <;> simp [cNsDefaultDc, cGwPath, cAp, dropLit]

theorem dropLit_gw_svc (ap rest : Bytes) : dropLit cGwPath (apSeg ap ++ cNs ++ rest) = none := by
  unfold apSeg
  split <;> simp [cNs, cGwPath, cAp, dropLit]

theorem idToks_ident (s : Src) (id : Ident) (hid : IdentSafe id) (ht : TdExact s.td (identTd id))
    (hsap : 47 ∉ apName (srcAp s)) : matchToks (idToks s) (spiffe id) = identM s id := by
  cases id with
  | svc td ap ns dc name => exact idToks_svc s td ap ns dc name hid ht hsap
  | raw _ => exact absurd hid (by simp [IdentSafe])
  | gw td dc =>
    have ht' : TdExact s.td td := ht
    obtain ⟨h1, _, _⟩ := hid
    rw [spiffe_gw_safe td dc h1]
    simp only [idToks, idToksBody, matchToks, dropLit_append, dropHost_len _ _ _ ht'.len, identM]
    by_cases hh : hostEq s.td td = true
    · simp only [hh, if_true, dropLit_ns_gw]
    · simp [hh]

theorem gwToks_ident (T : Bytes) (id : Ident) (hid : IdentSafe id) (ht : TdExact T (identTd id)) :
    matchToks (gwToks T) (spiffe id) = isGw T id := by
  cases id with
  | raw _ => exact absurd hid (by simp [IdentSafe])
  | gw td dc =>
    have ht' : TdExact T td := ht
    obtain ⟨h1, h2, h3⟩ := hid
    rw [spiffe_gw_safe td dc h1]
    simp only [gwToks, matchToks, dropLit_append, dropHost_len _ _ _ ht'.len, isGw]
    by_cases hh : hostEq T td = true
    · have := matchToks_seg_last dc h2 h3
      simp only [matchToks] at this
      simp only [hh, if_true, dropLit_append, this]
      simp [ht'.exact hh]
    · have : ¬ td = T := by intro e; apply hh; rw [e]; exact hostEq_refl _
      simp [hh, this]
  | svc td ap ns dc name =>
    have ht' : TdExact T td := ht
    rw [spiffe_svc_safe td ap ns dc name hid]
    have e : svcPath ap ns dc name = apSeg ap ++ cNs ++ (ns ++ cDc ++ dc ++ cSvc ++ name) := by
      simp [svcPath, List.append_assoc]
    simp only [gwToks, matchToks, dropLit_append, dropHost_len _ _ _ ht'.len, isGw, e]
    by_cases hh : hostEq T td = true
    · simp only [hh, if_true, dropLit_gw_svc]
    · simp [hh]

/-! ### the XFCC pattern against an XFCC header -/

/-- the last part of the `tail` token as a predicate: `(?:,.*)?$` -/
def tailB : Bytes → Bool
  | [] => true
  | c :: t => c = 44 && t.all (· ≠ 10)

/-- every remainder after a `;URI=` that starts at a position ≥ 1 of the comma-free prefix -/
def uriSplits : Bytes → List Bytes
  | [] => []
  | c :: s => if c = 44 then [] else (match dropLit cUri s with | some r => [r] | none => []) ++ uriSplits s

theorem matchPlus_uri (K : Bytes → Bool) (h : Bytes) :
    matchPlus (fun b => decide (b ≠ 44)) (fun s => match dropLit cUri s with | some s' => K s' | none => false) h
      = (uriSplits h).any K := by
  induction h with
  | nil => rfl
  | cons c s ih =>
    simp only [matchPlus, uriSplits]
    by_cases hc : c = 44
    · simp [hc]
    · simp only [hc, ne_eq, not_false_eq_true, decide_true, Bool.true_and, if_false, List.any_append, ih]
      cases dropLit cUri s <;> simp

/-- what follows the first element of an XFCC header -/
def xfccRest : List XElem → Bytes
  | [] => []
  | e :: es => 44 :: xfccHeader (e :: es)

theorem xfccHeader_cons (e : XElem) (es : List XElem) :
    xfccHeader (e :: es) = e.pre ++ cUri ++ spiffe e.uri ++ xfccRest es := by
  cases es with
  | nil => simp [xfccHeader, xfccElem, xfccRest]
  | cons e' es => simp [xfccHeader, xfccElem, xfccRest, List.append_assoc]

theorem tailB_rest (es : List XElem) (h : 10 ∉ xfccRest es) : tailB (xfccRest es) = true := by
  cases es with
  | nil => rfl
  | cons e es =>
    simp only [xfccRest, tailB, decide_true, Bool.true_and, List.all_eq_true, decide_eq_true_eq]
    intro b hb e'
    apply h
    simp only [xfccRest, List.mem_cons]
    exact Or.inr (e' ▸ hb)

/-- exact name, then `(?:,.*)?$` -/
theorem lit_then_tail (l x T : Bytes) (hl : 44 ∉ l) (hx : 44 ∉ x) (hT : tailB T = true) :
    (match dropLit l (x ++ T) with | some r => tailB r | none => false) = decide (x = l) := by
  induction l generalizing x with
  | nil =>
    cases x with
    | nil => simp [dropLit, hT]
    | cons c x =>
      have : c ≠ 44 := by intro h; apply hx; simp [h]
      simp [dropLit, tailB, this]
  | cons a l ih =>
    have ha : a ≠ 44 := by intro h; apply hl; simp [h]
    have hl' : 44 ∉ l := fun h => hl (List.mem_cons_of_mem _ h)
    cases x with
    | nil =>
      cases T with
      | nil => simp [dropLit]
      | cons t T =>
        simp only [tailB, Bool.and_eq_true, decide_eq_true_eq] at hT
        have : ¬ a = t := by rw [hT.1]; exact ha
        simp [dropLit, this]
    | cons c x =>
      have hx' : 44 ∉ x := fun h => hx (List.mem_cons_of_mem _ h)
      simp only [List.cons_append, dropLit]
      by_cases hac : a = c
      · have := ih x hl' hx'
        simp [hac, this]
      · have : ¬ c = a := fun e => hac e.symm
        simp [hac, this]

theorem matchToks_tail (t : Bytes) : matchToks [Tok.tail] t = tailB t := by
  cases t <;> simp [matchToks, tailB]

theorem last_tok_tail (s : Src) (name T : Bytes) (hn : 47 ∉ name) (hn0 : name ≠ []) (hc : 44 ∉ name)
    (hsc : 44 ∉ s.name) (hT : tailB T = true) :
    matchToks [if s.name = star then Tok.seg else Tok.lit s.name, Tok.tail] (name ++ T)
      = (decide (s.name = star) || decide (name = s.name)) := by
  by_cases hs : s.name = star
  · simp only [hs, if_true, decide_true, Bool.true_or]
    show matchPlus (fun b => decide (b ≠ 47)) (matchToks [Tok.tail]) (name ++ T) = true
    -- take exactly `name`
    have key : ∀ (x : Bytes), x ≠ [] → 47 ∉ x →
        matchPlus (fun b => decide (b ≠ 47)) (matchToks [Tok.tail]) (x ++ T) = true := by
      intro x
      induction x with
      | nil => intro h; exact absurd rfl h
      | cons c x ih =>
        intro _ hx
        have hc' : c ≠ 47 := by intro h; apply hx; simp [h]
        have hx' : 47 ∉ x := fun h => hx (List.mem_cons_of_mem _ h)
        cases x with
        | nil => simp [matchPlus, hc', matchToks_tail, hT]
        | cons d x =>
          have := ih (by simp) hx'
          simp only [List.cons_append] at this ⊢
          rw [matchPlus]
          simp only [hc', ne_eq, not_false_eq_true, decide_true, Bool.true_and, this, Bool.or_true]
    exact key name hn0 hn
  · simp only [hs, if_false, decide_false, Bool.false_or, matchToks]
    have := lit_then_tail s.name name T hsc hc hT
    cases hd : dropLit s.name (name ++ T) with
    | none => simpa [hd] using this
    | some r =>
      simp only [hd] at this ⊢
      rw [← this]
      cases r <;> simp [tailB]

theorem svc_tail_x (s : Src) (dc name T : Bytes) (hdc : 47 ∉ dc) (hdc0 : dc ≠ []) (hn : 47 ∉ name) (hn0 : name ≠ [])
    (hc : 44 ∉ name) (hsc : 44 ∉ s.name) (hT : tailB T = true) :
    matchToks [Tok.seg, Tok.lit cSvc, if s.name = star then Tok.seg else Tok.lit s.name, Tok.tail] (dc ++ cSvc ++ name ++ T)
      = (decide (s.name = star) || decide (name = s.name)) := by
  have e : dc ++ cSvc ++ name ++ T = dc ++ 47 :: ([115, 118, 99, 47] ++ (name ++ T)) := by simp [cSvc, List.append_assoc]
  rw [e]
  show matchPlus (fun b => decide (b ≠ 47))
    (matchToks [Tok.lit cSvc, if s.name = star then Tok.seg else Tok.lit s.name, Tok.tail]) _ = _
  rw [matchPlus_seg _ _ dc _ hdc hdc0]
  · have e2 : (47 :: ([115, 118, 99, 47] ++ (name ++ T)) : Bytes) = cSvc ++ (name ++ T) := by simp [cSvc]
    rw [e2]
    have := last_tok_tail s name T hn hn0 hc hsc hT
    simp only [matchToks, dropLit_append] at this ⊢
    exact this
  · intro t ht
    simp only [matchToks] at ht
    cases t with
    | nil => simp [cSvc, dropLit] at ht
    | cons b t =>
      by_cases hb : b = 47
      · exact ⟨t, by rw [hb]⟩
      · have : ¬ (47 = b) := fun e => hb e.symm
        simp [cSvc, dropLit, this] at ht

/-- the caller's service name contains no comma (a comma is where `(?:,.*)?$` lets the pattern end) -/
def identNoComma : Ident → Prop
  | .svc _ _ _ _ name => 44 ∉ name
  | _ => True

/-- the body of the XFCC pattern against `URI ++ rest of the header` -/
theorem idBody_tail (s : Src) (id : Ident) (T : Bytes) (hid : IdentSafe id) (ht : TdExact s.td (identTd id))
    (hsap : 47 ∉ apName (srcAp s)) (hc : identNoComma id) (hsc : 44 ∉ s.name) (hT : tailB T = true) :
    matchToks (idToksBody s ++ [Tok.tail]) (spiffe id ++ T) = identM s id := by
  cases id with
  | raw _ => exact absurd hid (by simp [IdentSafe])
  | gw td dc =>
    have ht' : TdExact s.td td := ht
    obtain ⟨h1, _, _⟩ := hid
    rw [spiffe_gw_safe td dc h1]
    simp only [idToksBody, List.cons_append, List.nil_append, matchToks, List.append_assoc, dropLit_append,
      dropHost_len _ _ _ ht'.len, identM]
    by_cases hh : hostEq s.td td = true
    · simp only [hh, if_true, dropLit_ns_gw]
    · simp [hh]
  | svc td ap ns dc name =>
    have ht' : TdExact s.td td := ht
    have hs : SvcSafe ap ns dc name := hid
    rw [spiffe_svc_safe td ap ns dc name hs]
    simp only [idToksBody, List.cons_append, List.nil_append, matchToks, List.append_assoc, dropLit_append,
      dropHost_len _ _ _ ht'.len]
    by_cases hh : hostEq s.td td = true
    · have htd : s.td = td := ht'.exact hh
      simp only [hh, if_true, svcPath]
      have e : apSeg ap ++ cNs ++ ns ++ cDc ++ dc ++ cSvc ++ name ++ T
          = apSeg ap ++ cNs ++ ns ++ cDc ++ (dc ++ cSvc ++ name ++ T) := by simp [List.append_assoc]
      have e0 : apSeg ap ++ (cNs ++ (ns ++ (cDc ++ (dc ++ (cSvc ++ (name ++ T))))))
          = apSeg ap ++ cNs ++ ns ++ cDc ++ (dc ++ cSvc ++ name ++ T) := by simp [List.append_assoc]
      rw [e, dropLit_path (srcAp s) ap ns _ hsap hs.apOk hs.nsOk]
      by_cases hcnd : apSeg ap = apSeg (srcAp s) ∧ ns = cDefault
      · simp only [hcnd, and_self, if_true]
        have := svc_tail_x s dc name T hs.dcOk hs.dcNe hs.nameOk hs.nameNe hc hsc hT
        simp only [matchToks] at this
        rw [this]
        simp [identM, htd, hcnd.1, hcnd.2]
      · simp only [hcnd, if_false]
        simp only [identM]
        by_cases h1 : apSeg ap = apSeg (srcAp s)
        · have : ¬ ns = cDefault := fun h2 => hcnd ⟨h1, h2⟩
          simp [this]
        · simp [h1]
    · have htd : ¬ td = s.td := by
        intro e; apply hh; rw [e]; exact hostEq_refl _
      simp [hh, identM, htd]

/-- the XFCC pattern of a source against an XFCC header whose first element carries `;URI=`
    exactly where its URI starts: it matches iff that URI belongs to the source -/
theorem xfccToks_header (s : Src) (e : XElem) (es : List XElem) (hid : IdentSafe e.uri)
    (ht : TdExact s.td (identTd e.uri)) (hsap : 47 ∉ apName (srcAp s)) (hc : identNoComma e.uri) (hsc : 44 ∉ s.name)
    (hsplit : uriSplits (xfccHeader (e :: es)) = [spiffe e.uri ++ xfccRest es]) (hnl : 10 ∉ xfccRest es) :
    matchToks (xfccToks s) (xfccHeader (e :: es)) = identM s e.uri := by
  have hT := tailB_rest es hnl
  show matchPlus (fun b => decide (b ≠ 44))
    (matchToks ([Tok.lit cUri] ++ idToksBody s ++ [Tok.tail])) (xfccHeader (e :: es)) = _
  have hk : matchToks ([Tok.lit cUri] ++ idToksBody s ++ [Tok.tail])
      = fun t => match dropLit cUri t with | some s' => matchToks (idToksBody s ++ [Tok.tail]) s' | none => false := by
    funext t; rfl
  rw [hk, matchPlus_uri, hsplit]
  simp only [List.any_cons, List.any_nil, Bool.or_false]
  exact idBody_tail s e.uri _ hid ht hsap hc hsc hT

end CV.Rbac
