/-
Helper lemmas for C13, part 3: the store invariant, what the match lists contain, and the link
between the two decision pipelines and `mostSpecific`.
-/
import CV.Proofs.IxnDecide
import CV.Proofs.IxnLower
set_option linter.unusedSimpArgs false
set_option linter.unusedVariables false
namespace CV.Ixn

def srcKey (s : Src) : Name × Name := (s.peer, s.name)

/-- what `normalize` + `validate` guarantee for a stored service-intentions entry -/
structure EntryWF (e : Entry) : Prop where
  prec : ∀ s ∈ e.sources, s.prec = precOf s.name e.name
  nodup : e.sources.Pairwise fun a b => srcKey a ≠ srcKey b

/-- the invariant of the store: config entries are unique per name (memdb primary key) and
    well-formed; legacy rows are unique per id and per (source, destination) (memdb unique indexes),
    local, named (`Intention.Validate`: SourceName / DestinationName must be set — rows with an empty
    name are not covered by memdb's unique index), carry the computed precedence, and the names memdb
    lower-cases in its index keys (entry names, legacy row names) are lower case — names differing only
    in letter case collide in those indexes (see the `case_…_counterexample` theorems) -/
structure StoreWF (st : Store) : Prop where
  names : st.entries.Pairwise fun a b => a.name ≠ b.name
  entries : ∀ e ∈ st.entries, EntryWF e
  rowIds : st.rows.Pairwise fun a b => a.1 ≠ b.1
  rowKeys : st.rows.Pairwise fun a b => ¬ (a.2.src = b.2.src ∧ a.2.dst = b.2.dst)
  rowLocal : ∀ r ∈ st.rows, r.2.peer = [] ∧ r.2.prec = precOf r.2.src r.2.dst
  rowNamed : ∀ r ∈ st.rows, r.2.src ≠ [] ∧ r.2.dst ≠ []
  lowerEntries : ∀ e ∈ st.entries, Lower e.name
  lowerRows : ∀ r ∈ st.rows, Lower r.2.src ∧ Lower r.2.dst

/-- the exact-match form of `destRaw` -/
def destRawX (es : List Entry) (n : Name) : List Ixn :=
  (matchNames n).flatMap fun m => match getEntryX es m with
    | none => []
    | some e => e.toIxns

theorem matchNames_lower {n : Name} (hn : Lower n) : ∀ m ∈ matchNames n, Lower m := by
  intro m hm
  unfold matchNames at hm
  split at hm <;> simp at hm
  · subst hm; exact lower_star
  · rcases hm with rfl | rfl
    · exact hn
    · exact lower_star

theorem destRaw_lower {es : List Entry} (hl : ∀ e ∈ es, Lower e.name) {n : Name} (hn : Lower n) :
    destRaw es n = destRawX es n := by
  unfold destRaw destRawX
  apply flatMap_congr_mem
  intro m hm
  simp only [getEntry_lower hl (matchNames_lower hn m hm)]
  cases getEntryX es m <;> rfl

theorem getEntryX_eq_some {es : List Entry} (h : es.Pairwise fun a b => a.name ≠ b.name) {m : Name} {e : Entry} :
    getEntryX es m = some e ↔ e ∈ es ∧ e.name = m := by
  constructor
  · intro hf
    exact ⟨List.mem_of_find?_eq_some hf, by simpa using List.find?_some hf⟩
  · intro ⟨he, hn⟩
    induction es with
    | nil => cases he
    | cons x xs ih =>
      rw [List.pairwise_cons] at h
      unfold getEntryX
      rw [List.find?_cons]
      rcases List.mem_cons.mp he with rfl | he'
      · simp [hn]
      · have : x.name ≠ m := by rw [← hn]; exact h.1 e he'
        simp [this]
        exact ih h.2 he'

theorem getEntryX_eq_none {es : List Entry} {m : Name} : getEntryX es m = none ↔ ∀ e ∈ es, e.name ≠ m := by
  simp [getEntryX, List.find?_eq_none]

theorem mem_flatten_cfg {st : Store} (hc : st.cfgMode = true) {i : Ixn} :
    i ∈ flatten st ↔ ∃ e ∈ st.entries, ∃ s ∈ e.sources, i = toIxn e s := by
  simp [flatten, hc, Entry.toIxns, List.mem_flatMap, List.mem_map, eq_comm]

theorem mem_flatten_legacy {st : Store} (hc : st.cfgMode = false) {i : Ixn} :
    i ∈ flatten st ↔ ∃ r ∈ st.rows, r.2 = i := by
  simp [flatten, hc, List.mem_map]

theorem mem_destRawX {es : List Entry} (h : es.Pairwise fun a b => a.name ≠ b.name) {n : Name} {i : Ixn} :
    i ∈ destRawX es n ↔ (∃ e ∈ es, ∃ s ∈ e.sources, i = toIxn e s) ∧ (i.dst = n ∨ i.dst = star) := by
  unfold destRawX
  rw [List.mem_flatMap]
  constructor
  · rintro ⟨m, hm, hi⟩
    cases hg : getEntryX es m with
    | none => simp [hg] at hi
    | some e =>
      simp only [hg, Entry.toIxns, List.mem_map] at hi
      obtain ⟨s, hs, rfl⟩ := hi
      obtain ⟨he, hn⟩ := (getEntryX_eq_some h).mp hg
      refine ⟨⟨e, he, s, hs, rfl⟩, ?_⟩
      simp only [toIxn, hn]
      unfold matchNames at hm
      split at hm <;> simp at hm <;> grind
  · rintro ⟨⟨e, he, s, hs, rfl⟩, hd⟩
    refine ⟨e.name, ?_, ?_⟩
    · simp only [toIxn] at hd
      unfold matchNames
      split <;> simp <;> grind
    · rw [(getEntryX_eq_some h).mpr ⟨he, rfl⟩]
      simp only [Entry.toIxns, List.mem_map]
      exact ⟨s, hs, rfl⟩

theorem mem_sourceRaw {es : List Entry} {n : Name} {i : Ixn} :
    i ∈ sourceRaw es n ↔ ∃ e ∈ es, ∃ s ∈ e.sources, i = toIxn e s ∧ (s.name = n ∨ s.name = star) ∧
      ∃ c ∈ e.sources, c.peer = [] ∧ c.name = s.name := by
  unfold sourceRaw
  simp only [List.mem_flatMap, List.mem_filter, List.mem_map, List.any_eq_true, Bool.and_eq_true, decide_eq_true_eq]
  constructor
  · rintro ⟨m, hm, e, ⟨he, c, hc, hcp, hcn⟩, s, ⟨hs, hsn⟩, rfl⟩
    refine ⟨e, he, s, hs, rfl, ?_, c, hc, hcp, by rw [hcn, hsn]⟩
    unfold matchNames at hm
    split at hm <;> simp at hm <;> grind
  · rintro ⟨e, he, s, hs, rfl, hn, c, hc, hcp, hcn⟩
    refine ⟨s.name, ?_, e, ⟨he, c, hc, hcp, hcn⟩, s, ⟨hs, rfl⟩, rfl⟩
    unfold matchNames
    split <;> simp <;> grind

theorem mem_legacyRawX {rows : List Ixn} (hne : ∀ r ∈ rows, r.src ≠ [] ∧ r.dst ≠ []) {side : Side} {n : Name} {i : Ixn} :
    i ∈ legacyRawX rows side n ↔ i ∈ rows ∧
      (match side with | .source => i.src = n ∨ i.src = star | .destination => i.dst = n ∨ i.dst = star) := by
  unfold legacyRawX
  simp only [List.mem_flatMap, List.mem_filter]
  constructor
  · rintro ⟨m, hm, hi, hf⟩
    refine ⟨hi, ?_⟩
    unfold legacyNames at hm
    cases side <;> simp at hf ⊢ <;> split at hm <;> simp at hm <;> grind
  · rintro ⟨hi, hf⟩
    cases side
    · refine ⟨i.src, ?_, hi, by simp [(hne i hi).1]⟩
      simp at hf
      unfold legacyNames
      split <;> simp <;> grind
    · refine ⟨i.dst, ?_, hi, by simp [(hne i hi).2]⟩
      simp at hf
      unfold legacyNames
      split <;> simp <;> grind

/-! ### no duplicates -/

theorem toIxn_key_ne {e e' : Entry} {a b : Src} (h : srcKey a ≠ srcKey b ∨ e.name ≠ e'.name) :
    (toIxn e a).key ≠ (toIxn e' b).key := by
  simp only [toIxn, Ixn.key, srcKey, ne_eq, Prod.mk.injEq] at *
  grind

theorem entry_keysNodup {e : Entry} (h : EntryWF e) (p : Src → Bool) :
    KeysNodup ((e.sources.filter p).map (toIxn e)) := by
  unfold KeysNodup
  rw [List.pairwise_map]
  exact (h.nodup.filter p).imp fun hab => toIxn_key_ne (Or.inl hab)

theorem entry_keysNodup' {e : Entry} (h : EntryWF e) : KeysNodup (e.sources.map (toIxn e)) := by
  unfold KeysNodup
  rw [List.pairwise_map]
  exact h.nodup.imp fun hab => toIxn_key_ne (Or.inl hab)

theorem flatten_keysNodup {st : Store} (h : StoreWF st) : KeysNodup (flatten st) := by
  unfold flatten KeysNodup
  split
  · rw [List.pairwise_flatMap]
    constructor
    · intro e he
      exact entry_keysNodup' (h.entries e he)
    · apply h.names.imp
      intro a b hab x hx y hy
      simp only [Entry.toIxns, List.mem_map] at hx hy
      obtain ⟨sa, _, rfl⟩ := hx
      obtain ⟨sb, _, rfl⟩ := hy
      exact toIxn_key_ne (Or.inr hab)
  · rw [List.pairwise_map]
    have hl := h.rowLocal
    have hk := h.rowKeys
    -- rows are local, so distinct (source, destination) means distinct keys
    apply hk.imp
    intro a b hab
    simp only [Ixn.key, ne_eq, Prod.mk.injEq]
    grind

theorem flatten_precWF {st : Store} (h : StoreWF st) : PrecWF (flatten st) := by
  intro i hi
  unfold flatten at hi
  split at hi
  · simp only [List.mem_flatMap, Entry.toIxns, List.mem_map] at hi
    obtain ⟨e, he, s, hs, rfl⟩ := hi
    exact (h.entries e he).prec s hs
  · simp only [List.mem_map] at hi
    obtain ⟨r, hr, rfl⟩ := hi
    exact (h.rowLocal r hr).2

theorem destRawX_keysNodup {es : List Entry} (hn : es.Pairwise fun a b => a.name ≠ b.name)
    (hw : ∀ e ∈ es, EntryWF e) (n : Name) : KeysNodup (destRawX es n) := by
  have one : ∀ m, KeysNodup (match getEntryX es m with | none => [] | some e => e.toIxns) := by
    intro m
    cases hg : getEntryX es m with
    | none => simp [KeysNodup]
    | some e =>
      exact entry_keysNodup' (hw e ((getEntryX_eq_some hn).mp hg).1)
  have dstOf : ∀ m x, x ∈ (match getEntryX es m with | none => [] | some e => e.toIxns) → x.dst = m := by
    intro m x hx
    cases hg : getEntryX es m with
    | none => simp [hg] at hx
    | some e =>
      simp only [hg, Entry.toIxns, List.mem_map] at hx
      obtain ⟨s, _, rfl⟩ := hx
      exact ((getEntryX_eq_some hn).mp hg).2
  unfold destRawX KeysNodup
  rw [List.pairwise_flatMap]
  refine ⟨fun m _ => one m, ?_⟩
  unfold matchNames
  split
  · simp
  · next hne =>
    simp only [List.pairwise_cons, List.mem_cons, List.not_mem_nil, or_false, forall_eq, List.Pairwise.nil,
      and_true, false_imp_iff, implies_true]
    intro x hx y hy
    have := dstOf _ x hx
    have := dstOf _ y hy
    simp only [Ixn.key, ne_eq, Prod.mk.injEq]
    grind

theorem sourceRaw_keysNodup {es : List Entry} (hn : es.Pairwise fun a b => a.name ≠ b.name)
    (hw : ∀ e ∈ es, EntryWF e) (n : Name) : KeysNodup (sourceRaw es n) := by
  unfold sourceRaw KeysNodup
  rw [List.pairwise_flatMap]
  constructor
  · intro m _
    rw [List.pairwise_flatMap]
    constructor
    · intro e he
      exact entry_keysNodup (hw e (List.mem_filter.mp he).1) _
    · apply (hn.filter _).imp
      intro a b hab x hx y hy
      simp only [List.mem_map] at hx hy
      obtain ⟨sa, _, rfl⟩ := hx
      obtain ⟨sb, _, rfl⟩ := hy
      exact toIxn_key_ne (Or.inr hab)
  · have srcOf : ∀ m x, x ∈ ((es.filter fun e => e.sources.any fun s => s.peer = [] && s.name = m).flatMap fun e =>
        (e.sources.filter (·.name = m)).map (toIxn e)) → x.src = m := by
      intro m x hx
      simp only [List.mem_flatMap, List.mem_map, List.mem_filter, decide_eq_true_eq] at hx
      obtain ⟨e, _, s, ⟨_, hs⟩, rfl⟩ := hx
      exact hs
    unfold matchNames
    split
    · simp
    · simp only [List.pairwise_cons, List.mem_cons, List.not_mem_nil, or_false, forall_eq, List.Pairwise.nil,
        and_true, false_imp_iff, implies_true]
      intro x hx y hy
      have := srcOf _ x hx
      have := srcOf _ y hy
      simp only [Ixn.key, ne_eq, Prod.mk.injEq]
      grind

theorem legacyRawX_keysNodup {rows : List Ixn} (hk : KeysNodup rows) (side : Side) (n : Name) :
    KeysNodup (legacyRawX rows side n) := by
  unfold legacyRawX KeysNodup
  rw [List.pairwise_flatMap]
  refine ⟨fun m _ => hk.filter _, ?_⟩
  unfold legacyNames
  split
  · simp
  · simp only [List.pairwise_cons, List.mem_cons, List.not_mem_nil, or_false, forall_eq, List.Pairwise.nil,
      and_true, false_imp_iff, implies_true]
    intro x hx y hy
    simp only [List.mem_filter] at hx hy
    simp only [Ixn.key, ne_eq, Prod.mk.injEq]
    cases side <;> simp at hx hy <;> grind

theorem KeysNodup.nodup {xs : List Ixn} (h : KeysNodup xs) : xs.Nodup := by
  rw [List.nodup_iff_pairwise_ne]
  exact h.imp fun hab heq => hab (by rw [heq])

/-! ### what a match list is, in terms of the stored set -/

/-- Specification of `IntentionMatch`: the stored intentions covering the name on the queried side.
    A source match additionally requires a *local* intention with the same (source, destination) —
    for a local intention that is itself; a peer-sourced one is only returned next to such a local twin
    (this is what the source index + `SourceServiceName() == sn` loop of the Go code compute). -/
def inMatch (F : List Ixn) (side : Side) (n : Name) (i : Ixn) : Prop :=
  i ∈ F ∧ match side with
    | .destination => i.dst = n ∨ i.dst = star
    | .source => (i.src = n ∨ i.src = star) ∧ ∃ c ∈ F, c.peer = [] ∧ c.src = i.src ∧ c.dst = i.dst

theorem entry_unique {es : List Entry} (hn : es.Pairwise fun a b => a.name ≠ b.name) {e e' : Entry}
    (he : e ∈ es) (he' : e' ∈ es) (h : e.name = e'.name) : e = e' := by
  have := (getEntryX_eq_some hn).mpr ⟨he, h⟩
  have := (getEntryX_eq_some hn).mpr ⟨he', rfl⟩
  simp_all

/-- every match list is the precedence sort of a duplicate-free list with exactly the specified members -/
theorem matchList_eq_sort {st : Store} (h : StoreWF st) (side : Side) (n : Name) (hn : Lower n) :
    ∃ R, matchList st side n = sortIxns R ∧ KeysNodup R ∧ ∀ i, i ∈ R ↔ inMatch (flatten st) side n i := by
  unfold matchList
  cases hc : st.cfgMode with
  | true =>
    cases side with
    | destination =>
      refine ⟨destRawX st.entries n, by simp [destRaw_lower h.lowerEntries hn], destRawX_keysNodup h.names h.entries n, ?_⟩
      intro i
      rw [mem_destRawX h.names, inMatch, mem_flatten_cfg hc]
    | source =>
      refine ⟨sourceRaw st.entries n, by simp, sourceRaw_keysNodup h.names h.entries n, ?_⟩
      intro i
      rw [mem_sourceRaw, inMatch, mem_flatten_cfg hc]
      constructor
      · rintro ⟨e, he, s, hs, rfl, hn, c, hcm, hcp, hcn⟩
        refine ⟨⟨e, he, s, hs, rfl⟩, hn, toIxn e c, ?_, hcp, hcn, rfl⟩
        exact (mem_flatten_cfg hc).mpr ⟨e, he, c, hcm, rfl⟩
      · rintro ⟨⟨e, he, s, hs, rfl⟩, hn, c, hcf, hcp, hcs, hcd⟩
        obtain ⟨e', he', c', hc', rfl⟩ := (mem_flatten_cfg hc).mp hcf
        have : e' = e := entry_unique h.names he' he hcd
        subst this
        exact ⟨e', he, s, hs, rfl, hn, c', hc', hcp, hcs⟩
  | false =>
    have hk : KeysNodup (st.rows.map (·.2)) := by
      have := flatten_keysNodup h
      simpa [flatten, hc] using this
    have hlow : ∀ r ∈ st.rows.map (·.2), Lower r.src ∧ Lower r.dst := by
      intro r hr
      obtain ⟨x, hx, rfl⟩ := List.mem_map.mp hr
      exact h.lowerRows x hx
    refine ⟨legacyRawX (st.rows.map (·.2)) side n, by simp [legacyRaw_lower hlow hn], legacyRawX_keysNodup hk side n, ?_⟩
    intro i
    have hnamed : ∀ r ∈ st.rows.map (·.2), r.src ≠ [] ∧ r.dst ≠ [] := by
      intro r hr
      obtain ⟨x, hx, rfl⟩ := List.mem_map.mp hr
      exact h.rowNamed x hx
    rw [mem_legacyRawX hnamed]
    unfold inMatch
    have hf : flatten st = st.rows.map (·.2) := by simp [flatten, hc]
    rw [hf]
    cases side with
    | destination => simp
    | source =>
      simp only
      constructor
      · rintro ⟨hi, hn⟩
        refine ⟨hi, hn, i, hi, ?_, rfl, rfl⟩
        obtain ⟨r, hr, rfl⟩ := List.mem_map.mp hi
        exact (h.rowLocal r hr).1
      · rintro ⟨hi, hn, _⟩
        exact ⟨hi, hn⟩

theorem mem_matchList {st : Store} (h : StoreWF st) (side : Side) (n : Name) (hn : Lower n) (i : Ixn) :
    i ∈ matchList st side n ↔ inMatch (flatten st) side n i := by
  obtain ⟨R, hR, _, hm⟩ := matchList_eq_sort h side n hn
  rw [hR, sortIxns, mem_isort, hm]

/-! ### both decision pipelines pick the most specific stored intention -/

theorem authz_most_specific {st : Store} (h : StoreWF st) (peer s d : Name) (hs : s ≠ star) (hd : d ≠ star)
    (hld : Lower d) (da ap : Bool) :
    authzDecision st peer s d da ap = verdict (mostSpecific (flatten st) peer s d) da ap := by
  obtain ⟨R, hR, hRk, hm⟩ := matchList_eq_sort h .destination d hld
  have hF := (flatten_keysNodup h).keyInj
  have hsub : ∀ i ∈ R, i ∈ flatten st := fun i hi => ((hm i).mp hi).1
  unfold authzDecision decision
  rw [hR]
  congr 1
  have e1 : (sortIxns R).find? (ixnMatch .source peer s) = (sortIxns R).find? (covers peer s d) := by
    apply find?_congr_mem
    intro j hj
    have := ((hm j).mp (mem_isort.mp hj)).2
    simp only at this
    simp only [ixnMatch, covers]
    grind
  rw [e1, mostSpecific_sorted ((flatten_precWF h).subset hsub) (hF.subset hsub) hs hd]
  apply mostSpecific_congr hF hsub
  intro i hi hc
  apply (hm i).mpr
  refine ⟨hi, ?_⟩
  simp only [covers] at hc ⊢
  grind

theorem check_most_specific {st : Store} (h : StoreWF st) (s d : Name) (hs : s ≠ star) (hd : d ≠ star)
    (hls : Lower s) (da ap : Bool) :
    checkDecision st s d da ap = verdict (mostSpecific (flatten st) [] s d) da ap := by
  obtain ⟨R, hR, hRk, hm⟩ := matchList_eq_sort h .source s hls
  have hF := (flatten_keysNodup h).keyInj
  have hsub : ∀ i ∈ R, i ∈ flatten st := fun i hi => ((hm i).mp hi).1
  have hwf := (flatten_precWF h).subset hsub
  unfold checkDecision decision
  rw [hR]
  congr 1
  -- a peer-sourced intention is never the first match: its local twin sorts strictly before it
  have e0 : (sortIxns R).find? (ixnMatch .destination [] d) =
      (sortIxns R).find? (fun x => ixnMatch .destination [] d x && decide (x.peer = [])) := by
    apply find?_sorted_restrict (lt := less) (isort_sorted less_strictWeak R) less_irrefl
    intro x hx hp hq
    obtain ⟨hxF, _, c, hcF, hcp, hcs, hcd⟩ := (hm x).mp (mem_isort.mp hx)
    have hcR : c ∈ R := by
      apply (hm c).mpr
      refine ⟨hcF, ?_, c, hcF, hcp, rfl, rfl⟩
      have := ((hm x).mp (mem_isort.mp hx)).2.1
      rw [hcs]; exact this
    refine ⟨c, mem_isort.mpr hcR, ?_, by simp [hcp], ?_⟩
    · simp only [ixnMatch] at hp ⊢; rw [hcd]; exact hp
    · have p1 := hwf c hcR
      have p2 := hwf x (mem_isort.mp hx)
      have hne : x.peer ≠ [] := by simpa using hq
      have hlt : c.peer < x.peer := by
        rw [hcp]
        cases hxp : x.peer with
        | nil => exact absurd hxp hne
        | cons a as => exact List.nil_lt_cons a as
      have : c.prec = x.prec := by rw [p1, p2, hcs, hcd]
      simp only [less, bLt, this, ne_eq, not_true_eq_false, if_false]
      rw [if_pos (by rw [hcp]; exact fun h => hne h.symm)]
      simpa using hlt
  have e1 : (sortIxns R).find? (fun x => ixnMatch .destination [] d x && decide (x.peer = [])) =
      (sortIxns R).find? (covers [] s d) := by
    apply find?_congr_mem
    intro j hj
    have := ((hm j).mp (mem_isort.mp hj)).2.1
    simp only [ixnMatch, covers]
    grind
  rw [e0, e1, mostSpecific_sorted hwf (hF.subset hsub) hs hd]
  apply mostSpecific_congr hF hsub
  intro i hi hc
  apply (hm i).mpr
  simp only [covers, Bool.and_eq_true, decide_eq_true_eq, Bool.or_eq_true] at hc
  refine ⟨hi, ?_, i, hi, hc.1.1, rfl, rfl⟩
  grind

end CV.Ixn
