/-
Helper lemmas for C15: the `Err.internal` branches of the model (places where the Go code would
dereference nil / hit an "impossible" error, and the flatten pass bound) are unreachable.
-/
import CV.Proofs.ChainFlat
import CV.Proofs.ChainCongr
set_option linter.unusedVariables false
set_option linter.unusedSimpArgs false
namespace CV.Chain

def Err.isInternal : Err → Bool
  | .internal _ => true
  | _ => false

/-- on a closed table the detector only ever answers "ok" or "circular reference" -/
theorem dfs_no_internal (nodes : List (String × Node)) (hC : ClosedK nodes) :
    (∀ (path : List String) (k : String), k ∈ akeys nodes → ∀ e, dfsNode nodes path k = .error e → e.isInternal = false) ∧
    (∀ (path ks : List String), (∀ c ∈ ks, c ∈ akeys nodes) → ∀ e, dfsList nodes path ks = .error e → e.isInternal = false) := by
  apply dfsNode.mutual_induct nodes
    (motive1 := fun path k => k ∈ akeys nodes → ∀ e, dfsNode nodes path k = .error e → e.isInternal = false)
    (motive2 := fun path ks => (∀ c ∈ ks, c ∈ akeys nodes) → ∀ e, dfsList nodes path ks = .error e → e.isInternal = false)
  · intro path k hk _ e h
    rw [dfsNode] at h; simp only [hk, dite_true] at h; cases h; rfl
  · intro path k hk hn hkey e h
    obtain ⟨v, hv⟩ := alook_some_of_mem_keys hkey
    rw [hn] at hv; cases hv
  · intro path k hk n hn ih hkey e h
    rw [dfsNode] at h; simp only [hk, dite_false] at h
    split at h
    · rename_i h'; rw [hn] at h'; cases h'
    · rename_i n' h'
      rw [hn] at h'; cases h'
      exact ih (fun c hc => hC k n hn c (List.mem_reverse.mp hc)) e h
  · intro path _ e h
    rw [dfsList] at h; cases h
  · intro path c cs e' he ih1 hall e h
    rw [dfsList] at h; simp only [he] at h
    cases h
    exact ih1 (hall c List.mem_cons_self) e' he
  · intro path c cs a he ih1 ih2 hall e h
    rw [dfsList] at h; simp only [he] at h
    exact ih2 (fun x hx => hall x (List.mem_cons_of_mem _ hx)) e h

/-- the detector's only non-internal error is the circular reference -/
theorem dfs_err_kind (nodes : List (String × Node)) :
    (∀ (path : List String) (k : String), ∀ e, dfsNode nodes path k = .error e → e = .circularRef ∨ e.isInternal = true) ∧
    (∀ (path ks : List String), ∀ e, dfsList nodes path ks = .error e → e = .circularRef ∨ e.isInternal = true) := by
  apply dfsNode.mutual_induct nodes
    (motive1 := fun path k => ∀ e, dfsNode nodes path k = .error e → e = .circularRef ∨ e.isInternal = true)
    (motive2 := fun path ks => ∀ e, dfsList nodes path ks = .error e → e = .circularRef ∨ e.isInternal = true)
  · intro path k hk e h
    rw [dfsNode] at h; simp only [hk, dite_true] at h; cases h; exact Or.inl rfl
  · intro path k hk hn e h
    rw [dfsNode] at h; simp only [hk, dite_false] at h
    split at h
    · cases h; exact Or.inr rfl
    · rename_i n h'; rw [hn] at h'; cases h'
  · intro path k hk n hn ih e h
    rw [dfsNode] at h; simp only [hk, dite_false] at h
    split at h
    · rename_i h'; rw [hn] at h'; cases h'
    · rename_i n' h'
      rw [hn] at h'; cases h'
      exact ih e h
  · intro path e h
    rw [dfsList] at h; cases h
  · intro path c cs e' he ih1 e h
    rw [dfsList] at h; simp only [he] at h
    cases h
    exact ih1 e' he
  · intro path c cs a he ih1 ih2 e h
    rw [dfsList] at h; simp only [he] at h
    exact ih2 e h

/-- on a closed table the unused-node sweep cannot fail -/
theorem reach_total (nodes : List (String × Node)) (hC : ClosedK nodes) (todo visited : List String)
    (ht : ∀ k ∈ todo, k ∈ akeys nodes) : ∃ vis, reach nodes todo visited = .ok vis := by
  fun_induction reach nodes todo visited with
  | case1 visited => exact ⟨_, rfl⟩
  | case2 visited k rest hv ih => exact ih (fun x hx => ht x (List.mem_cons_of_mem _ hx))
  | case3 visited k rest hv hn =>
    obtain ⟨v, hv'⟩ := alook_some_of_mem_keys (ht k List.mem_cons_self)
    rw [hn] at hv'; cases hv'
  | case4 visited k rest hv n hn ih =>
    apply ih
    intro x hx
    rcases List.mem_append.mp hx with hx | hx
    · exact hC k n hn x hx
    · exact ht x (List.mem_cons_of_mem _ hx)

theorem flattenLoop_closedK (fuel : Nat) (order : List String) (nodes n' : List (String × Node))
    (hC : ClosedK nodes) (h : flattenLoop fuel order nodes = some n') : ClosedK n' :=
  flattenLoop_pres ClosedK (fun nodes k ss lb ss' ch hI hk ha => closedK_step nodes k ss ss' lb ch hI hk ha)
    fuel order nodes n' hC h

/-! ### assembly only fails with the documented graph errors -/

theorem recordProtocol_err (cur p : String) (e : Err) (h : recordProtocol cur p = .error e) : e.isInternal = false := by
  unfold recordProtocol at h
  simp only at h
  split at h
  · cases h
  · by_cases hc : cur = (if p = "" then "tcp" else lower p)
    · simp [hc] at h
    · simp only [ne_eq, hc, not_false_eq_true, if_true, Except.error.injEq] at h
      rw [← h]; rfl

theorem recordServiceProtocol_err (es : Entries) (cur svc : String) (e : Err)
    (h : recordServiceProtocol es cur svc = .error e) : e.isInternal = false := by
  unfold recordServiceProtocol at h
  split at h
  · exact recordProtocol_err _ _ _ h
  · split at h <;> exact recordProtocol_err _ _ _ h

theorem resolveLoop_err (es : Entries) (cx : Ctx) (st0 : St) (t0 : Target) (st : St) (hist : List Target) (t : Target)
    (hst : LoadedIn (mkVals es cx st0 t0) st) (ht : InU (mkVals es cx st0 t0) t) (e : Err)
    (h : resolveLoop es cx st0 t0 st hist t hst ht = .error e) : e.isInternal = false := by
  fun_induction resolveLoop es cx st0 t0 st hist t hst ht with
  | case1 st hist t hst ht lb hm => cases h
  | case2 st hist t hst ht hm e' he =>
    cases h
    simp only [dite_eq_ite] at he
    split at he
    · exact recordServiceProtocol_err es _ _ _ he
    · cases he
  | case3 st hist t hst ht hm p hp hh => cases h; rfl
  | case4 st hist t hst ht hm p hp hh st2 t2 h1 hi ih => exact ih h
  | case5 st hist t hst ht hm p hp hh st2 h1 hi st3 t3 h2 hj ih => exact ih h
  | case6 st hist t hst ht hm p hp hh st2 h1 hi h2 => cases h

theorem finishResolve_err (es : Entries) (cx : Ctx) (st : St) (t : Target) (r : Resolver) (e : Err)
    (h : finishResolve es cx st t r = .error e) : e.isInternal = false := by
  unfold finishResolve at h
  split at h
  · cases h; rfl
  · simp only at h
    split at h
    · cases h; rfl
    · split at h
      · cases h; rfl
      · split at h
        · cases h; rfl
        · cases h

theorem resolveCore_err (es : Entries) (cx : Ctx) (st : St) (t : Target) (e : Err)
    (h : resolveCore es cx st t = .error e) : e.isInternal = false := by
  unfold resolveCore at h
  split at h
  · rename_i e' he; cases h; exact resolveLoop_err es cx st t st [] t _ _ _ he
  · cases h
  · split at h
    · rename_i e' he; cases h; exact finishResolve_err es cx _ _ _ _ he
    · cases h

theorem failoverResolve_err (es : Entries) (cx : Ctx) (st : St) (fts : List Target) (e : Err)
    (h : failoverResolve es cx st fts = .error e) : e.isInternal = false := by
  induction fts generalizing st with
  | nil => simp [failoverResolve] at h
  | cons ft rest ih =>
    rw [failoverResolve] at h
    split at h
    · rename_i e' he; cases h; exact resolveCore_err es cx _ _ _ he
    · split at h
      · rename_i e' he; cases h; exact ih _ he
      · cases h

theorem resolverNode_err (es : Entries) (cx : Ctx) (st : St) (t : Target) (e : Err)
    (h : resolverNode es cx st t = .error e) : e.isInternal = false := by
  unfold resolverNode at h
  split at h
  · rename_i e' he; cases h; exact resolveCore_err es cx _ _ _ he
  · cases h
  · simp only at h
    split at h
    · rename_i e' he; cases h; exact failoverResolve_err es cx _ _ _ he
    · cases h

theorem splitter_err (es : Entries) (cx : Ctx) :
    (∀ (marks : List String) (st : St) (name : String), ∀ e, splitterNode es cx marks st name = .error e → e.isInternal = false) ∧
    (∀ (marks : List String) (st : St) (name : String) (splits : List Split) (lb : Option String),
        ∀ e, splitLoop es cx marks st name splits lb = .error e → e.isInternal = false) := by
  apply splitterNode.mutual_induct es cx
    (motive1 := fun marks st name => ∀ e, splitterNode es cx marks st name = .error e → e.isInternal = false)
    (motive2 := fun marks st name splits lb => ∀ e, splitLoop es cx marks st name splits lb = .error e → e.isInternal = false)
  · intro marks st name hm e h
    rw [splitterNode_eq] at h; simp only [hm, if_true] at h; cases h
  · intro marks st name hm hs e h
    rw [splitterNode_eq] at h; simp only [hm, if_false, hs] at h; cases h
  · intro marks st name hm splits hs hd e h
    rw [splitterNode_eq] at h; simp only [hm, if_false, hs, hd, if_true] at h; cases h
  · intro marks st name hm splits hs hd e' he ih e h
    rw [splitterNode_eq] at h; simp only [hm, if_false, hs, hd, he] at h
    cases h; exact ih e' he
  · intro marks st name hm splits hs hd dm st1 cs lb he ih e h
    rw [splitterNode_eq] at h; simp only [hm, if_false, hs, hd, he] at h; cases h
  · intro marks st name lb e h
    rw [splitLoop] at h; cases h
  all_goals
    intro marks st name lb s rest svc
  · intro e' hc ih1 e h
    rw [splitLoop.eq_def] at h
    simp only [dite_eq_ite, svc] at hc
    simp only [hc] at h
    cases h
    split at hc
    · exact ih1 e' hc
    · cases hc
  · intro dm1 st1 key hc e' hr ih1 ih2 e h
    rw [splitLoop.eq_def] at h
    simp only [dite_eq_ite, svc] at hc
    simp only [hc, hr] at h
    cases h; exact ih2 e' hr
  · intro dm1 st1 key hc dm2 st2 cs2 lb2 hr ih1 ih2 e h
    rw [splitLoop.eq_def] at h
    simp only [dite_eq_ite, svc] at hc
    simp only [hc, hr] at h
    cases h
  · intro dm1 st1 hc nt e' hr ih1 e h
    rw [splitLoop.eq_def] at h
    simp only [dite_eq_ite, svc] at hc
    simp only [nt, svc] at hr
    simp only [hc, hr] at h
    cases h; exact resolverNode_err es cx _ _ _ hr
  · intro dm1 st1 hc nt st2 rn hr lb1 e' hr2 ih1 ih2 e h
    rw [splitLoop.eq_def] at h
    simp only [dite_eq_ite, svc] at hc
    simp only [nt, svc] at hr
    simp only [lb1, dite_eq_ite] at hr2
    simp only [hc, hr, hr2] at h
    cases h; exact ih2 e' (by simpa [lb1] using hr2)
  · intro dm1 st1 hc nt st2 rn hr lb1 dm2 st3 cs2 lb2 hr2 ih1 ih2 e h
    rw [splitLoop.eq_def] at h
    simp only [dite_eq_ite, svc] at hc
    simp only [nt, svc] at hr
    simp only [lb1, dite_eq_ite] at hr2
    simp only [hc, hr, hr2] at h
    cases h

theorem splitterOrResolver_err (es : Entries) (cx : Ctx) (marks : List String) (st : St) (t : Target) (e : Err)
    (h : splitterOrResolver es cx marks st t = .error e) : e.isInternal = false := by
  unfold splitterOrResolver at h
  split at h
  · rename_i e' he; cases h; exact (splitter_err es cx).1 _ _ _ _ he
  · cases h
  · split at h
    · rename_i e' he; cases h; exact resolverNode_err es cx _ _ _ he
    · cases h

theorem routeLoop_err (es : Entries) (cx : Ctx) (marks : List String) (st : St) (routes : List Route) (e : Err)
    (h : routeLoop es cx marks st routes = .error e) : e.isInternal = false := by
  induction routes generalizing marks st with
  | nil => simp [routeLoop] at h
  | cons rt rest ih =>
    rw [routeLoop] at h
    split at h
    · rename_i e' he
      cases h
      split at he
      · exact splitterOrResolver_err es cx _ _ _ _ he
      · split at he
        · rename_i e'' he'; cases he; exact resolverNode_err es cx _ _ _ he'
        · cases he
    · split at h
      · rename_i e' he; cases h; exact ih _ _ he
      · cases h

theorem assemble_err (es : Entries) (cx : Ctx) (e : Err) (h : assemble es cx = .error e) : e.isInternal = false := by
  unfold assemble at h
  split at h
  · split at h
    · simp only at h
      split at h
      · rename_i e' he; cases h; exact splitterOrResolver_err es cx _ _ _ _ he
      · cases h
    · split at h
      · rename_i e' he; cases h; exact recordServiceProtocol_err es _ _ _ he
      · split at h
        · rename_i e' he; cases h; exact routeLoop_err es cx _ _ _ _ he
        · simp only at h
          split at h
          · rename_i e' he; cases h; exact splitterOrResolver_err es cx _ _ _ _ he
          · cases h
  · simp only at h
    split at h
    · rename_i e' he; cases h; exact splitterOrResolver_err es cx _ _ _ _ he
    · cases h

/-- `compile` never ends in one of the model's `Err.internal` branches -/
theorem compile_never_internal' (es : Entries) (cx : Ctx) (e : Err) (h : compile es cx = .error e) :
    e.isInternal = false := by
  unfold compile compileWith at h
  split at h
  · cases h; rfl
  · split at h
    · rename_i e' he; cases h; exact assemble_err es cx _ he
    · rename_i st start ha
      have A := assemble_closed es cx st start ha
      have hC0 : ClosedK st.nodes := fun k n hk m hm => A.closed k n (alook_mem hk) m hm
      unfold finishCompile at h
      split at h
      · rename_i e' he; cases h
        exact (dfs_no_internal st.nodes hC0).1 [] start A.has _ he
      · rename_i u hd
        cases u
        split at h
        · rename_i hf
          obtain ⟨n', hn'⟩ := flatten_bound_sufficient es cx st start ha hd
          rw [hf] at hn'; cases hn'
        · rename_i nodes1 hf
          have hI := flattenLoop_inv _ _ _ _ hf
          have hC1 := flattenLoop_closedK _ _ _ _ hC0 hf
          split at h
          · rename_i e' he
            obtain ⟨vis, hv⟩ := reach_total nodes1 hC1 [start] [] (fun k hk => by
              simp only [List.mem_singleton] at hk; subst hk; rw [hI.keys]; exact A.has)
            rw [he] at hv; cases hv
          · rename_i vis hr
            simp only at h
            split at h
            · cases h; rfl
            · rename_i hadv
              split at h
              · rename_i e' he
                exfalso
                -- the start node and its target exist, so `determineIfDefaultChain` cannot fail
                let g : Chain := { proto := "", start := start, isDefault := false, customized := false,
                                   nodes := nodes1.filter fun kv => vis.contains kv.1,
                                   targets := st.loaded.filter fun kv => st.retained.contains kv.1 }
                have s : Stages (fun nodes => sortKeys (akeys nodes)) es cx g st nodes1 vis :=
                  ⟨ha, hd, hf, hr, rfl, rfl, by simpa using hadv⟩
                obtain ⟨n, hn⟩ := alook_some_of_mem_keys s.closed_nodes.1
                unfold isDefaultChain at he
                rw [show alook start (nodes1.filter fun kv => vis.contains kv.1) = some n from hn] at he
                cases n with
                | router rs => cases he
                | splitter ss lb => cases he
                | resolver d ct rt tgt fo lb =>
                  simp only at he
                  split at he
                  · cases he
                  · obtain ⟨v, hv⟩ := alook_some_of_mem_keys (s.closed_targets start d ct rt tgt fo lb hn).1
                    rw [show alook tgt (st.loaded.filter fun kv => st.retained.contains kv.1) = some v from hv] at he
                    cases he
              · cases h

theorem reach_err_internal (nodes : List (String × Node)) (todo visited : List String) (e : Err)
    (h : reach nodes todo visited = .error e) : e.isInternal = true := by
  fun_induction reach nodes todo visited with
  | case1 visited => cases h
  | case2 visited k rest hv ih => exact ih h
  | case3 visited k rest hv hn => cases h; rfl
  | case4 visited k rest hv n hn ih => exact ih h

theorem isDefaultChain_err_internal (cx : Ctx) (nodes : List (String × Node)) (targets : List (String × TInfo))
    (start : String) (e : Err) (h : isDefaultChain cx nodes targets start = .error e) : e.isInternal = true := by
  unfold isDefaultChain at h
  split at h
  · cases h; rfl
  · split at h
    · cases h
    · split at h
      · cases h; rfl
      · cases h
  · cases h

/-- success characterised: a well-formed request compiles when assembly succeeds, the detector finds no
    cycle and the protocol permits the routing features used -/
theorem compile_ok_of (es : Entries) (cx : Ctx) (st : St) (start : String)
    (hreq : ¬ (cx.svc = "" ∨ cx.ns = "" ∨ cx.part = "" ∨ cx.dc = "" ∨ cx.td = ""))
    (ha : assemble es cx = .ok (st, start)) (hd : dfsNode st.nodes [] start = .ok ())
    (hadv : (!httpLike st.proto && st.adv) = false) : ∃ g, compile es cx = .ok g ∧ g.start = start := by
  cases hc : compile es cx with
  | ok g =>
    refine ⟨g, rfl, ?_⟩
    obtain ⟨st', n1, vis, s⟩ := compileWith_stages _ es cx g hc
    have := s.asm
    rw [ha] at this
    simp only [Except.ok.injEq, Prod.mk.injEq] at this
    exact this.2.symm
  | error e =>
    exfalso
    have hint := compile_never_internal' es cx e hc
    unfold compile compileWith at hc
    rw [if_neg hreq, ha] at hc
    simp only at hc
    unfold finishCompile at hc
    rw [hd] at hc
    simp only at hc
    split at hc
    · cases hc; simp [Err.isInternal] at hint
    · split at hc
      · rename_i e' he
        cases hc
        rw [reach_err_internal _ _ _ _ he] at hint; cases hint
      · simp only [hadv, Bool.false_eq_true, if_false] at hc
        split at hc
        · rename_i e' he
          cases hc
          rw [isDefaultChain_err_internal _ _ _ _ _ he] at hint; cases hint
        · cases hc

/-- a cycle reachable in the assembled graph is reported as *the* circular-reference error
    (for a well-formed request; a malformed one is rejected before assembly) -/
theorem compile_cycle_error (es : Entries) (cx : Ctx) (st : St) (start k : String)
    (hreq : ¬ (cx.svc = "" ∨ cx.ns = "" ∨ cx.part = "" ∨ cx.dc = "" ∨ cx.td = ""))
    (ha : assemble es cx = .ok (st, start)) (hr : Reach st.nodes start k) (hc : Reach1 st.nodes k k) :
    compile es cx = .error .circularRef := by
  have A := assemble_closed es cx st start ha
  have hC0 : ClosedK st.nodes := fun k n hk m hm => A.closed k n (alook_mem hk) m hm
  cases hd : dfsNode st.nodes [] start with
  | ok u => cases u; exact absurd hc (fun hc => good_no_cycle st.nodes start k hd hr hc)
  | error e =>
    have h1 := (dfs_err_kind st.nodes).1 [] start e hd
    have h2 := (dfs_no_internal st.nodes hC0).1 [] start A.has e hd
    have he : e = .circularRef := by
      rcases h1 with h1 | h1
      · exact h1
      · rw [h2] at h1; cases h1
    subst he
    unfold compile compileWith
    rw [if_neg hreq, ha]
    simp only
    unfold finishCompile
    rw [hd]

end CV.Chain
