/-
Helper lemmas for C17 (exporter side): the association maps of CV.PeerExport and the invariant that links the
duplicate-suppression table to what the importing side holds.
-/
import CV.PeerExport
set_option linter.unusedSectionVars false
set_option linter.unusedSimpArgs false
namespace CV.PeerX

theorem get_set_same (m : Map) (k : String) (v : Nat) : get (set m k v) k = some v := by
  simp [get, set]

theorem get_set_other (m : Map) (k k' : String) (v : Nat) (h : k' ≠ k) : get (set m k v) k' = get m k' := by
  simp only [get, set, List.find?_cons]
  have : decide ((k, v).1 = k') = false := by simp; exact fun e => h e.symm
  simp only [this]
  congr 1
  induction m with
  | nil => rfl
  | cons e t ih =>
    simp only [List.filter_cons]
    by_cases he : e.1 = k
    · have h1 : decide (e.1 ≠ k) = false := by simp [he]
      have h2 : decide (e.1 = k') = false := by simp [he]; exact fun e' => h e'.symm
      simp only [h1, List.find?_cons, h2]
      exact ih
    · have h1 : decide (e.1 ≠ k) = true := by simp [he]
      simp only [h1, if_true, List.find?_cons]
      split
      · rfl
      · exact ih

theorem get_keep (m : Map) (p : String → Bool) (k : String) : get (keep m p) k = if p k then get m k else none := by
  simp only [get, keep]
  induction m with
  | nil => simp
  | cons e t ih =>
    by_cases he : e.1 = k
    · cases hp : p e.1 with
      | true =>
        have hk : p k = true := he ▸ hp
        simp only [List.filter_cons, hp, if_true, List.find?_cons, he, decide_true, hk]
      | false =>
        have hk : p k = false := he ▸ hp
        simp only [List.filter_cons, hp, Bool.false_eq_true, if_false, hk] at ih ⊢
        exact ih
    · cases hp : p e.1 with
      | true =>
        simp only [List.filter_cons, hp, if_true, List.find?_cons, he, decide_false]
        exact ih
      | false =>
        simp only [List.filter_cons, hp, Bool.false_eq_true, if_false, List.find?_cons, he, decide_false]
        exact ih

/-- whatever the duplicate suppression would skip for a service is what the importer holds for it, and
    what a running watch last produced has reached the importer -/
structure Inv (s : St) : Prop where
  ver : ∀ n h, get s.versions n = some h → get s.peer n = some h
  off : ∀ n h, n ∈ s.watched → get s.offered n = some h → get s.peer n = some h

theorem inv_init : Inv {} := ⟨by simp [get], by simp⟩

theorem inv_step (s : St) (e : Ev) (hi : Inv s) : Inv (step .always s e).1 := by
  cases e with
  | list names =>
    simp only [step, doClean, if_true]
    constructor
    · intro n h hv
      simp only [get_keep, List.mem_eraseDups, decide_eq_true_eq] at hv
      split at hv
      · rename_i hn
        have := hi.ver n h hv
        split
        · simp only [get_keep, decide_eq_true_eq, hn, if_true]; exact this
        · exact this
      · cases hv
    · intro n h hw ho
      simp only [get_keep, List.mem_eraseDups, decide_eq_true_eq] at ho hw
      split at ho
      · rename_i hn
        have := hi.off n h hn.1 ho
        split
        · simp only [get_keep, decide_eq_true_eq, hn.2, if_true]; exact this
        · exact this
      · cases ho
  | data n0 h0 =>
    simp only [step]
    split
    · rename_i hdup
      constructor
      · exact hi.ver
      · intro n h hw ho
        simp only at hw ho ⊢
        by_cases hn : n = n0
        · subst hn
          simp only [hw, if_true, get_set_same, Option.some.injEq] at ho
          subst ho
          exact hi.ver n h0 hdup
        · split at ho
          · rw [get_set_other _ _ _ _ hn] at ho; exact hi.off n h hw ho
          · exact hi.off n h hw ho
    · constructor
      · intro n h hv
        simp only at hv ⊢
        by_cases hn : n = n0
        · subst hn
          rw [get_set_same] at hv ⊢; exact hv
        · rw [get_set_other _ _ _ _ hn] at hv ⊢; exact hi.ver n h hv
      · intro n h hw ho
        simp only at hw ho ⊢
        by_cases hn : n = n0
        · subst hn
          simp only [hw, if_true, get_set_same] at ho
          rw [get_set_same]; exact ho
        · rw [get_set_other _ _ _ _ hn]
          split at ho
          · rw [get_set_other _ _ _ _ hn] at ho; exact hi.off n h hw ho
          · exact hi.off n h hw ho

theorem inv_run (evs : List Ev) (s : St) (hi : Inv s) : Inv (run .always s evs) := by
  induction evs generalizing s with
  | nil => exact hi
  | cons e es ih => simp only [run, List.foldl_cons]; exact ih _ (inv_step s e hi)

/-! ### snapshots that arrive while their watch is running -/

/-- every snapshot of the sequence belongs to a service that is watched when it is handled -/
def Timely (pol : Policy) : St → List Ev → Prop
  | _, [] => True
  | s, e :: es => (match e with
      | .data n _ => n ∈ s.watched
      | .list _ => True) ∧ Timely pol (step pol s e).1 es

/-- the importer holds nothing for a service that is not exported; the watched set is the last list -/
structure Inv2 (s : St) : Prop where
  held : ∀ n h, get s.peer n = some h → n ∈ s.watched
  lst : ∀ L, s.listVer = some L → s.watched = L.eraseDups

theorem inv2_init : Inv2 {} := ⟨by simp [get], by simp⟩

theorem inv2_step (pol : Policy) (s : St) (e : Ev) (hi : Inv2 s)
    (ht : match e with | .data n _ => n ∈ s.watched | .list _ => True) : Inv2 (step pol s e).1 := by
  cases e with
  | list names =>
    simp only [step]
    constructor
    · intro n h hp
      simp only at hp ⊢
      split at hp
      · simp only [get_keep, decide_eq_true_eq] at hp
        split at hp
        · rename_i hn; exact List.mem_eraseDups.mpr hn
        · cases hp
      · rename_i hs
        simp only [ne_eq, decide_eq_true_eq, Decidable.not_not] at hs
        rw [← hi.lst names hs]
        exact hi.held n h hp
    · intro L hL
      simp only [Option.some.injEq] at hL
      subst hL; rfl
  | data n0 h0 =>
    simp only at ht
    simp only [step]
    split
    · exact ⟨hi.held, hi.lst⟩
    · constructor
      · intro n h hp
        simp only at hp ⊢
        by_cases hn : n = n0
        · subst hn; exact ht
        · rw [get_set_other _ _ _ _ hn] at hp; exact hi.held n h hp
      · exact hi.lst

theorem inv2_run (pol : Policy) (evs : List Ev) (s : St) (hi : Inv2 s) (ht : Timely pol s evs) : Inv2 (run pol s evs) := by
  induction evs generalizing s with
  | nil => exact hi
  | cons e es ih =>
    simp only [run, List.foldl_cons]
    exact ih _ (inv2_step pol s e hi ht.1) ht.2

end CV.PeerX
