/-
Helper lemmas for C17: what an update leaves alone inside the same peer — instances and checks of other
services, nodes that are still used — and which nodes it removes.
-/
import CV.Proofs.PeerFinal
set_option linter.unusedSectionVars false
set_option linter.unusedSimpArgs false
namespace CV.Peer

/-- `dropUnused` keeps every node and check of the peer that still carries a service instance, and a node among
    `ns` that survives carries one -/
theorem dropUnused_used (p : String) (ns : List String) (c : Cat) :
    (∀ x ∈ c.nodes, (∃ s ∈ c.svcs, s.peer = p ∧ s.node = x.name) → x ∈ (dropUnused p c ns).1.nodes) ∧
    (∀ x ∈ c.chks, (∃ s ∈ c.svcs, s.peer = p ∧ s.node = x.node) → x ∈ (dropUnused p c ns).1.chks) ∧
    (∀ x ∈ (dropUnused p c ns).1.nodes, x.peer = p → x.name ∈ ns →
        ∃ s ∈ (dropUnused p c ns).1.svcs, s.peer = p ∧ s.node = x.name) := by
  induction ns generalizing c with
  | nil => exact ⟨fun x hx _ => hx, fun x hx _ => hx, fun x _ _ hn => by cases hn⟩
  | cons n ns ih =>
    simp only [dropUnused]
    split
    · rename_i hh
      obtain ⟨a, b, d⟩ := ih c
      refine ⟨a, b, fun x hx hp hn => ?_⟩
      simp only [List.mem_cons] at hn
      rcases hn with rfl | hn
      · simp only [hasSvc, Bool.and_eq_true, List.any_eq_true, svcOn_iff] at hh
        obtain ⟨_, s, hs, h1, h2⟩ := hh
        exact ⟨s, (dropUnused_keep p ns c).2.1 s hs, h1, h2⟩
      · exact d x hx hp hn
    · rename_i hh
      obtain ⟨a, b, d⟩ := ih (delNode c p n)
      simp only [hasSvc, Bool.and_eq_true, List.any_eq_true, nodeAt_iff, svcOn_iff, not_and, not_exists] at hh
      have svcSame : ∀ s ∈ c.svcs, s ∈ (delNode c p n).svcs := by
        intro s hs
        apply mem_delNode_svcs.mpr ⟨hs, ?_⟩
        rintro ⟨h2, e, he, h3⟩
        exact hh ⟨e, he, h3⟩ s hs h2.1 h2.2
      refine ⟨fun x hx hs => ?_, fun x hx hs => ?_, fun x hx hp hn => ?_⟩
      · obtain ⟨s, hs1, hs2, hs3⟩ := hs
        apply a x _ ⟨s, svcSame s hs1, hs2, hs3⟩
        apply mem_delNode_nodes.mpr ⟨hx, ?_⟩
        intro hk
        exact hh ⟨x, hx, hk⟩ s hs1 hs2 (by rw [hs3, hk.2])
      · obtain ⟨s, hs1, hs2, hs3⟩ := hs
        apply b x _ ⟨s, svcSame s hs1, hs2, hs3⟩
        apply mem_delNode_chks.mpr ⟨hx, ?_⟩
        rintro ⟨hk, e, he, h3⟩
        exact hh ⟨e, he, h3⟩ s hs1 hs2 (by rw [hs3, hk.2])
      · simp only [List.mem_cons] at hn
        rcases hn with rfl | hn
        · exfalso
          have hx1 := (sub_dropUnused p ns (delNode c p x.name)).nodes x hx
          exact (mem_delNode_nodes.mp hx1).2 ⟨hp, rfl⟩
        · exact d x hx hp hn

/-- Within the same peer, an update of `sn` leaves the instances of every other service alone — unless the
    snapshot itself claims their (node, id) — together with their service checks; and a node disappears only
    if it carried an instance of `sn` before and carries nothing afterwards. -/
theorem handleUpdate_other {c : Cat} {p sn : String} {is : List Inst}
    (wf : WF c) (ok : SnapOK sn is) (fr : Fresh c p is)
    (he : (handleUpdate c p sn is).err = none) (hp : (handleUpdate c p sn is).panic = false) :
    (∀ s ∈ c.svcs, s.peer = p → s.name ≠ sn → (∀ i ∈ is, ¬(s.node = i.node.name ∧ s.sid = i.svc.sid)) →
        s ∈ (handleUpdate c p sn is).cat.svcs) ∧
    (∀ k ∈ c.chks, k.peer = p → (∃ s ∈ c.svcs, s.peer = p ∧ s.name ≠ sn ∧ s.node = k.node ∧ s.sid = k.sid ∧
          ∀ i ∈ is, ¬(s.node = i.node.name ∧ s.sid = i.svc.sid)) →
        (∀ i ∈ is, ∀ d ∈ i.chks, ¬(k.node = d.node ∧ k.cid = d.cid)) → k ∈ (handleUpdate c p sn is).cat.chks) ∧
    (∀ x ∈ c.nodes, x.peer = p → (∀ i ∈ is, x.name ≠ i.node.name) →
        (x ∈ (handleUpdate c p sn is).cat.nodes ↔
          (¬(∃ s ∈ c.svcs, s.peer = p ∧ s.name = sn ∧ s.node = x.name) ∨
           ∃ s ∈ (handleUpdate c p sn is).cat.svcs, s.peer = p ∧ s.node = x.name))) := by
  obtain ⟨st, snap, c1, l1, hst, hsnap, hr, hcat⟩ := handleUpdate_ok he hp
  obtain ⟨snap', hsnap', swf, sis⟩ := mkSnap_is ok
  rw [hsnap] at hsnap'; cases hsnap'
  have ph := phase1 wf ok sis fr hst hr
  have hd := runOps_deregs _ c1 (cleanupCmds_dereg p snap st)
  have hk := runOps_deregs_keep _ c1 (cleanupCmds_dereg p snap st)
  have hdu := dropUnused_keep p (cleanup p snap st).unused (runOps c1 (cleanupCmds p (cleanup p snap st))).1
  have hdu2 := dropUnused_used p (cleanup p snap st).unused (runOps c1 (cleanupCmds p (cleanup p snap st))).1
  obtain ⟨cops, cnch, cunu⟩ := cleanup_spec p snap st
  have cmdNode : ∀ q n, Op.deregNode q n ∉ cleanupCmds p (cleanup p snap st) := by
    intro q n hm
    simp only [cleanupCmds, List.mem_append, List.mem_map] at hm
    rcases hm with hm | ⟨nk, _, hm⟩
    · obtain ⟨x, hx, h1 | ⟨ss, _, k, _, _, _, h1⟩⟩ := (cops _).mp hm
      · cases h1.2
      · cases h1
    · cases hm
  -- every clean-up command is about a stored instance of sn
  have cmdSvc : ∀ q n i, Op.deregSvc q n i ∈ cleanupCmds p (cleanup p snap st) →
      q = p ∧ ∃ x ∈ st, n = x.svc.node ∧ i = x.svc.sid := by
    intro q n i hm
    simp only [cleanupCmds, List.mem_append, List.mem_map] at hm
    rcases hm with hm | ⟨nk, _, hm⟩
    · obtain ⟨x, hx, h1 | ⟨ss, _, k, _, _, _, h1⟩⟩ := (cops _).mp hm
      · have h2 := h1.2
        simp only [Op.deregSvc.injEq] at h2
        obtain ⟨rfl, rfl, rfl⟩ := h2
        exact ⟨rfl, x, hx, ((csn_ok hst).1 x hx).2.2.2.2.2.1, rfl⟩
      · cases h1
    · cases hm
  have cmdChk : ∀ q n k, Op.deregChk q n k ∈ cleanupCmds p (cleanup p snap st) →
      q = p ∧ ∃ x ∈ st, ∃ kk ∈ x.chks, n = kk.node ∧ k = kk.cid := by
    intro q n k hm
    simp only [cleanupCmds, List.mem_append, List.mem_map] at hm
    rcases hm with hm | ⟨nk, hnk, hm⟩
    · obtain ⟨x, hx, h1 | ⟨ss, hss, kk, hkk, _, _, h1⟩⟩ := (cops _).mp hm
      · cases h1.2
      · simp only [Op.deregChk.injEq] at h1
        obtain ⟨rfl, rfl, rfl⟩ := h1
        exact ⟨rfl, x, hx, kk, hkk, rfl, rfl⟩
    · obtain ⟨x, hx, ss, hss, kk, hkk, _, _, h1⟩ := (cnch _).mp hnk
      simp only [Op.deregChk.injEq] at hm
      obtain ⟨rfl, rfl, rfl⟩ := hm
      exact ⟨rfl, x, hx, kk, hkk, by rw [h1], by rw [h1]⟩
  have svcKept : ∀ s ∈ c.svcs, s.peer = p → s.name ≠ sn → (∀ i ∈ is, ¬(s.node = i.node.name ∧ s.sid = i.svc.sid)) →
      s ∈ (handleUpdate c p sn is).cat.svcs := by
    intro s hs hsp hsn hun
    rw [hcat]
    apply hdu.2.1
    apply hk.2.1
    · apply ph.svcKeep s hs
      intro i hi hkey
      exact hun i hi hkey.2
    · intro q n i hm hkey
      obtain ⟨rfl, x, hx, rfl, rfl⟩ := cmdSvc q n i hm
      obtain ⟨xs, xp, xn, _⟩ := (csn_ok hst).1 x hx
      have := wf.svcs s hs x.svc xs (by rw [hsp, xp]) hkey.2.1 hkey.2.2
      exact hsn (by rw [this]; exact xn)
    · exact fun q n hm => absurd hm (cmdNode q n)
  refine ⟨svcKept, ?_, ?_⟩
  · intro k hkc hkp ⟨s, hs, hsp, hsn, hsnode, hssid, hun⟩ hno
    have hsF := svcKept s hs hsp hsn hun
    rw [hcat] at hsF ⊢
    apply hdu2.2.1 _ _ ⟨s, (sub_dropUnused p _ _).svcs s hsF, hsp, hsnode⟩
    apply hk.2.2
    · exact ph.chkKeep k hkc (fun i hi d hd hkey => hno i hi d hd ⟨hkey.2.1, hkey.2.2⟩)
    · intro q n k' hm hkey
      obtain ⟨rfl, x, hx, kk, hkk, rfl, rfl⟩ := cmdChk q n k' hm
      obtain ⟨xs, xp, xn, _, _, xnn, xch⟩ := (csn_ok hst).1 x hx
      rw [xch] at hkk
      simp only [List.mem_append, List.mem_filter, chkOfNode_iff, chkOfSvc_iff] at hkk
      have hkk' : kk ∈ c.chks ∧ kk.peer = q ∧ kk.node = x.svc.node ∧ (kk.sid = "" ∨ kk.sid = x.svc.sid) := by
        rcases hkk with h | h
        · exact ⟨h.1, h.2.1, h.2.2.1, Or.inl h.2.2.2⟩
        · exact ⟨h.1, h.2.1, h.2.2.1, Or.inr h.2.2.2⟩
      have e := wf.chks k hkc kk hkk'.1 (by rw [hkp, hkk'.2.1]) hkey.2.1 hkey.2.2
      subst e
      rcases hkk'.2.2.2 with h | h
      · exact wf.sid s hs (by rw [hssid, h])
      · have := wf.svcs s hs x.svc xs (by rw [hsp, xp]) (by rw [hsnode, hkk'.2.2.1]) (by rw [hssid, h])
        exact hsn (by rw [this]; exact xn)
    · intro q n i hm hkey
      obtain ⟨rfl, x, hx, rfl, rfl⟩ := cmdSvc q n i hm
      obtain ⟨xs, xp, xn, _⟩ := (csn_ok hst).1 x hx
      have := wf.svcs s hs x.svc xs (by rw [hsp, xp]) (by rw [hsnode, hkey.2.1]) (by rw [hssid, hkey.2.2])
      exact hsn (by rw [this]; exact xn)
    · exact fun q n hm => absurd hm (cmdNode q n)
  · intro x hx hxp hno
    have hx1 : x ∈ c1.nodes := ph.nodeKeep x hx (fun i hi hkey => hno i hi hkey.2)
    have hx2 : x ∈ (runOps c1 (cleanupCmds p (cleanup p snap st))).1.nodes :=
      hk.1 x hx1 (fun q n hm => absurd hm (cmdNode q n))
    have hunused : x.name ∈ (cleanup p snap st).unused ↔ ∃ s ∈ c.svcs, s.peer = p ∧ s.name = sn ∧ s.node = x.name := by
      rw [cunu]
      constructor
      · rintro ⟨y, hy, _, e⟩
        obtain ⟨ys, yp, yn, _, _, ynn, _⟩ := (csn_ok hst).1 y hy
        exact ⟨y.svc, ys, yp, yn, by rw [e, ynn]⟩
      · rintro ⟨s, hs, hsp, hsn, hsnode⟩
        obtain ⟨y, hy, e⟩ := (csn_ok hst).2 s hs hsp hsn
        obtain ⟨_, _, _, _, _, ynn, _⟩ := (csn_ok hst).1 y hy
        refine ⟨y, hy, ?_, by rw [ynn, e, hsnode]⟩
        cases hsn' : snapNode snap y.node.name with
        | none => rfl
        | some nd =>
          exfalso
          have h1 := List.mem_of_find?_eq_some hsn'
          have h2 := List.find?_some hsn'
          simp only [decide_eq_true_eq] at h2
          obtain ⟨ss, hss⟩ := sis.nonempty nd h1
          obtain ⟨i, hi, e1, _, _⟩ := sis.fwd nd h1 ss hss
          exact hno i hi (by rw [← e1, h2, ynn, e, hsnode])
    rw [hcat]
    constructor
    · intro hxF
      by_cases hu : x.name ∈ (cleanup p snap st).unused
      · exact Or.inr (hdu2.2.2 x hxF hxp hu)
      · exact Or.inl (fun h => hu (hunused.mpr h))
    · rintro (h | ⟨s, hs, hsp, hsnode⟩)
      · exact hdu.1 x hx2 (fun hh => h (hunused.mp hh.2))
      · exact hdu2.1 x hx2 ⟨s, (sub_dropUnused p _ _).svcs s hs, hsp, hsnode⟩

end CV.Peer
