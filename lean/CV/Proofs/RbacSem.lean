/-
C14 helper lemmas, part 2: the structured reading of SPIFFE identities (`callerSem`) satisfies
what the translation needs (`SrcRel`) when source clusters have distinct certificate identities.
-/
import CV.Proofs.Rbac
namespace CV.Rbac

theorem ixnSourceMatches_iff (a b : Src) :
    ixnSourceMatches a b = true ↔ a.name ≠ star ∧ b.name = star ∧ a.peer = b.peer := by
  unfold ixnSourceMatches countWild
  by_cases ha : a.name = star <;> by_cases hb : b.name = star <;> simp [ha, hb]

/-- the certificate identity (trust domain, printed partition segment) of a source cluster -/
def identityOf (env : Env) (peer : Name) : Option (Name × Name) :=
  (srcOf env peer []).map fun s => (s.td, apSeg (srcAp s))

/-- distinct source clusters (the local one, peers with a trust bundle) have distinct identities -/
def EnvOK (env : Env) : Prop :=
  ∀ p q x y, p ≠ q → identityOf env p = some x → identityOf env q = some y → x ≠ y

theorem srcOf_fields (env : Env) (p n : Name) (a : Src) (h : srcOf env p n = some a) :
    a.peer = p ∧ a.name = n ∧ identityOf env p = some (a.td, apSeg (srcAp a)) := by
  unfold identityOf srcOf at *
  split at h
  · next hp => simp at h; subst h; simp [hp, srcAp]
  · next hp =>
    split at h
    · simp at h
    · next b hb => simp at h; subst h; simp [hp, hb, srcAp]

theorem identM_cover (a b : Src) (id : Ident) (htd : b.td = a.td) (hap : apSeg (srcAp b) = apSeg (srcAp a))
    (hb : b.name = star) (h : identM a id = true) : identM b id = true := by
  cases id with
  | svc td ap ns dc name =>
    simp only [identM, Bool.and_eq_true, decide_eq_true_eq, Bool.or_eq_true] at h ⊢
    refine ⟨⟨⟨?_, ?_⟩, h.1.2⟩, Or.inl hb⟩
    · rw [htd]; exact h.1.1.1
    · rw [hap]; exact h.1.1.2
  | gw _ _ => simp [identM] at h
  | raw _ => simp [identM] at h

theorem identM_identity (a : Src) (id : Ident) (h : identM a id = true) :
    ∃ td ap ns dc name, id = .svc td ap ns dc name ∧ td = a.td ∧ apSeg ap = apSeg (srcAp a) ∧
      (a.name = star ∨ name = a.name) := by
  cases id with
  | svc td ap ns dc name =>
    simp only [identM, Bool.and_eq_true, decide_eq_true_eq, Bool.or_eq_true] at h
    exact ⟨td, ap, ns, dc, name, rfl, h.1.1.1, h.1.1.2, h.2⟩
  | gw _ _ => simp [identM] at h
  | raw _ => simp [identM] at h

/-- two different sources, neither covering the other, never both match one identity -/
theorem identM_disj (env : Env) (hok : EnvOK env) (a b : Src) (ha : EnvSrc env a) (hb : EnvSrc env b)
    (hk : a.key ≠ b.key) (hab : ixnSourceMatches a b = false) (hba : ixnSourceMatches b a = false)
    (id : Ident) (h1 : identM a id = true) (h2 : identM b id = true) : False := by
  obtain ⟨p, n, hsa⟩ := ha
  obtain ⟨q, n', hsb⟩ := hb
  obtain ⟨hap, han, hai⟩ := srcOf_fields env p n a hsa
  obtain ⟨hbp, hbn, hbi⟩ := srcOf_fields env q n' b hsb
  obtain ⟨td, ap, ns, dc, name, rfl, e1, e2, e3⟩ := identM_identity a id h1
  obtain ⟨td', ap', ns', dc', name', hid, f1, f2, f3⟩ := identM_identity b _ h2
  cases hid
  by_cases hpq : p = q
  · -- same cluster: the names must differ and both be exact
    have hpeer : a.peer = b.peer := by rw [hap, hbp, hpq]
    have hn : a.name ≠ b.name := by
      intro hn; apply hk; simp [Src.key, hpeer, hn]
    have hab' : ¬ (a.name ≠ star ∧ b.name = star ∧ a.peer = b.peer) := by
      intro h; have := (ixnSourceMatches_iff a b).mpr h; simp [hab] at this
    have hba' : ¬ (b.name ≠ star ∧ a.name = star ∧ b.peer = a.peer) := by
      intro h; have := (ixnSourceMatches_iff b a).mpr h; simp [hba] at this
    by_cases hsa' : a.name = star
    · by_cases hsb' : b.name = star
      · exact hn (hsa'.trans hsb'.symm)
      · exact hba' ⟨hsb', hsa', hpeer.symm⟩
    · by_cases hsb' : b.name = star
      · exact hab' ⟨hsa', hsb', hpeer⟩
      · cases e3 with
        | inl e => exact hsa' e
        | inr e =>
          cases f3 with
          | inl f => exact hsb' f
          | inr f => exact hn (e.symm.trans f)
  · exact hok p q _ _ hpq hai hbi (by rw [← e1, ← f1, ← e2, ← f2])

/-- `callerSem` satisfies the requirements of the translation in every OK environment -/
theorem callerSem_rel (env : Env) (hok : EnvOK env) (xf : Bool) (c : Caller) :
    SrcRel (fun s => srcM callerSem env xf s c) (EnvSrc env) := by
  constructor
  · intro a b ha hb hab hm
    obtain ⟨hna, hnb, hpeer⟩ := (ixnSourceMatches_iff a b).mp hab
    obtain ⟨p, n, hsa⟩ := ha
    obtain ⟨q, n', hsb⟩ := hb
    obtain ⟨hap, _, hai⟩ := srcOf_fields env p n a hsa
    obtain ⟨hbp, _, hbi⟩ := srcOf_fields env q n' b hsb
    have hpq : p = q := by rw [← hap, ← hbp, hpeer]
    rw [hpq, hbi] at hai
    simp only [Option.some.injEq, Prod.mk.injEq] at hai
    simp only [srcM, hpeer] at hm ⊢
    split at hm
    · next hc =>
      simp only [hc, if_true]
      simp only [Bool.and_eq_true] at hm ⊢
      refine ⟨hm.1, ?_⟩
      have := hm.2
      simp only [callerSem] at this ⊢
      split at this
      · next e es he => (try simp only [he]); exact identM_cover a b _ hai.1 hai.2 hnb this
      · simp at this
    · next hc =>
      simp only [hc, if_false]
      exact identM_cover a b _ hai.1 hai.2 hnb hm
  · intro a b ha hb hk hab hba hma hmb
    simp only [srcM] at hma hmb
    by_cases hca : (xf && decide (a.peer ≠ [])) = true
    · by_cases hcb : (xf && decide (b.peer ≠ [])) = true
      · simp only [hca, hcb, if_true, Bool.and_eq_true, callerSem] at hma hmb
        have h1 := hma.2
        have h2 := hmb.2
        split at h1
        · next e es he =>
          simp only [he] at h2
          exact identM_disj env hok a b ha hb hk hab hba _ h1 h2
        · simp at h1
      · simp only [hca, hcb, if_true, if_false, Bool.and_eq_true, callerSem] at hma hmb
        have hg := hma.1
        cases hd : c.direct with
        | gw t d => rw [hd] at hmb; simp [identM] at hmb
        | svc _ _ _ _ _ => rw [hd] at hg; simp [isGw] at hg
        | raw _ => rw [hd] at hg; simp [isGw] at hg
    · by_cases hcb : (xf && decide (b.peer ≠ [])) = true
      · simp only [hca, hcb, if_true, if_false, Bool.and_eq_true, callerSem] at hma hmb
        have hg := hmb.1
        cases hd : c.direct with
        | gw t d => rw [hd] at hma; simp [identM] at hma
        | svc _ _ _ _ _ => rw [hd] at hg; simp [isGw] at hg
        | raw _ => rw [hd] at hg; simp [isGw] at hg
      · simp only [hca, hcb, if_false, callerSem] at hma hmb
        exact identM_disj env hok a b ha hb hk hab hba _ hma hmb

/-! ### a decidable check for `EnvOK` -/

def envCheck (env : Env) : Bool :=
  let ps := [] :: env.bundles.map (·.peer)
  ps.all fun p => ps.all fun q => p == q || identityOf env p != identityOf env q

theorem identityOf_some_mem (env : Env) (p : Name) (x : Name × Name) (h : identityOf env p = some x) :
    p ∈ ([] : Name) :: env.bundles.map (·.peer) := by
  unfold identityOf srcOf at h
  by_cases hp : p = []
  · simp [hp]
  · simp only [hp, if_false] at h
    cases hb : lookupBundle env.bundles p with
    | none => simp [hb] at h
    | some b =>
      unfold lookupBundle at hb
      have hm := List.mem_of_find?_eq_some hb
      have hpred := List.find?_some hb
      simp only [decide_eq_true_eq] at hpred
      simp only [List.mem_reverse] at hm
      simp only [List.mem_cons, List.mem_map]
      exact Or.inr ⟨b, hm, hpred⟩

theorem envOK_of_check (env : Env) (h : envCheck env = true) : EnvOK env := by
  intro p q x y hpq hx hy hxy
  have hp := identityOf_some_mem env p x hx
  have hq := identityOf_some_mem env q y hy
  simp only [envCheck, List.all_eq_true] at h
  have := h p hp q hq
  simp only [Bool.or_eq_true, beq_iff_eq, bne_iff_ne, ne_eq] at this
  cases this with
  | inl e => exact hpq e
  | inr e => exact e (by rw [hx, hy, hxy])

/-! ### totality, membership -/

theorem mem_ins {α : Type} (lt : α → α → Bool) (x a : α) (l : List α) : a ∈ ins lt x l ↔ a = x ∨ a ∈ l := by
  induction l with
  | nil => simp [ins]
  | cons y ys ih =>
    simp only [ins]
    split
    · simp only [List.mem_cons, ih]; grind
    · simp

theorem mem_isort {α : Type} (lt : α → α → Bool) (a : α) (l : List α) : a ∈ isort lt l ↔ a ∈ l := by
  induction l with
  | nil => simp [isort]
  | cons y ys ih => simp [isort, mem_ins, ih]

theorem mem_dedupGo (seen : List (Name × Name)) (xs : List Ixn) (i : Ixn) (h : i ∈ dedupGo seen xs) : i ∈ xs := by
  induction xs generalizing seen with
  | nil => simp [dedupGo] at h
  | cons j xs ih =>
    simp only [dedupGo] at h
    split at h
    · exact List.mem_cons_of_mem _ (ih seen h)
    · cases List.mem_cons.mp h with
      | inl e => rw [e]; exact List.mem_cons_self
      | inr e => exact List.mem_cons_of_mem _ (ih _ e)

theorem panics_false (dflt : Bool) (rs : List RIxn) (h : ∀ x ∈ rs, x.src.peer ≠ star) : panics dflt rs = false := by
  match rs with
  | [] => rfl
  | [x] => simp [panics, h x (by simp)]
  | x :: y :: rest =>
    simp only [panics, List.any_eq_false, decide_eq_true_eq]
    intro z hz; exact h z hz

theorem intermediate_peer (env : Env) (http : Bool) (ixns : List Ixn) (x : RIxn) (hx : x ∈ intermediate env http ixns) :
    ∃ i ∈ ixns, x.src.peer = i.peer := by
  obtain ⟨i, hi, hs⟩ := mem_toRIxns env http _ x hx
  have h1 := mem_dedupGo [] _ i hi
  have h2 := (mem_isort less i ixns).mp h1
  exact ⟨i, h2, (srcOf_fields env _ _ _ hs).1⟩

/-! ### two readings of the leaves that agree on the sources of the environment -/

theorem srcRel_congr (m1 m2 : Src → Bool) (S : Src → Prop) (h : ∀ s, S s → m1 s = m2 s) (hr : SrcRel m2 S) :
    SrcRel m1 S := by
  constructor
  · intro a b ha hb hab hm
    rw [h a ha] at hm; rw [h b hb]; exact hr.cover a b ha hb hab hm
  · intro a b ha hb hk hab hba hma hmb
    rw [h a ha] at hma; rw [h b hb] at hmb
    exact hr.disj a b ha hb hk hab hba hma hmb

theorem specAllow_congr {C D : Type} (σ : Sem C) (τ : Sem D) (env : Env) (ixns : List Ixn) (dflt http : Bool)
    (c : C) (d : D) (r : Req)
    (h : ∀ s, EnvSrc env s → srcM σ env (expectXFCC env http ixns) s c = srcM τ env (expectXFCC env http ixns) s d)
    (hmeta : ∀ p v, σ.metaM p v c = τ.metaM p v d) :
    specAllow σ env ixns dflt http c r = specAllow τ env ixns dflt http d r := by
  unfold specAllow
  have hm : (fun p v => σ.metaM p v c) = (fun p v => τ.metaM p v d) := by funext p v; exact hmeta p v
  rw [hm]
  have : ixnM σ env (expectXFCC env http ixns) c = ixnM τ env (expectXFCC env http ixns) d := by
    funext peer name
    unfold ixnM
    cases hs : srcOf env peer name with
    | none => rfl
    | some s => exact h s ⟨peer, name, hs⟩
  rw [this]

/-- the sources of the given intentions -/
def IxnSrc (env : Env) (ixns : List Ixn) (s : Src) : Prop := ∃ i ∈ ixns, srcOf env i.peer i.name = some s

theorem IxnSrc_env (env : Env) (ixns : List Ixn) (s : Src) (h : IxnSrc env ixns s) : EnvSrc env s := by
  obtain ⟨i, _, hi⟩ := h; exact ⟨i.peer, i.name, hi⟩

theorem srcRel_mono (m : Src → Bool) (S S' : Src → Prop) (h : ∀ s, S' s → S s) (hr : SrcRel m S) : SrcRel m S' :=
  ⟨fun a b ha hb => hr.cover a b (h a ha) (h b hb), fun a b ha hb => hr.disj a b (h a ha) (h b hb)⟩

theorem find?_congr_mem {α : Type} (l : List α) (p q : α → Bool) (h : ∀ a ∈ l, p a = q a) : l.find? p = l.find? q := by
  induction l with
  | nil => rfl
  | cons a l ih =>
    simp only [List.find?_cons, h a List.mem_cons_self]
    rw [ih (fun b hb => h b (List.mem_cons_of_mem _ hb))]

theorem specAllow_congr_ixns {C D : Type} (σ : Sem C) (τ : Sem D) (env : Env) (ixns : List Ixn) (dflt http : Bool)
    (c : C) (d : D) (r : Req)
    (h : ∀ s, IxnSrc env ixns s →
      srcM σ env (expectXFCC env http ixns) s c = srcM τ env (expectXFCC env http ixns) s d)
    (hmeta : ∀ p v, σ.metaM p v c = τ.metaM p v d) :
    specAllow σ env ixns dflt http c r = specAllow τ env ixns dflt http d r := by
  have hm : (fun p v => σ.metaM p v c) = (fun p v => τ.metaM p v d) := by funext p v; exact hmeta p v
  unfold specAllow specAllowM
  rw [hm]
  rw [find?_congr_mem (sortIxns ixns) _ (fun i => ixnM τ env (expectXFCC env http ixns) d i.peer i.name)]
  intro i hi
  have hi' : i ∈ ixns := (mem_isort less i ixns).mp hi
  unfold ixnM
  cases hs : srcOf env i.peer i.name with
  | none => rfl
  | some s => exact h s ⟨i, hi', hs⟩

/-! ### the sort puts higher precedence first -/

theorem less_prec (a b : Ixn) (h : less a b = true) : b.prec ≤ a.prec := by
  unfold less at h
  split at h
  · simp only [gt_iff_lt, decide_eq_true_eq] at h; omega
  · next hp => simp only [ne_eq, Decidable.not_not] at hp; omega

theorem not_less_prec (a b : Ixn) (h : less a b = false) : a.prec ≤ b.prec := by
  unfold less at h
  split at h
  · simp only [gt_iff_lt, decide_eq_false_iff_not] at h; omega
  · next hp => simp only [ne_eq, Decidable.not_not] at hp; omega

theorem ins_sorted (x : Ixn) (l : List Ixn) (h : l.Pairwise (fun a b => b.prec ≤ a.prec)) :
    (ins less x l).Pairwise (fun a b => b.prec ≤ a.prec) := by
  induction l with
  | nil => simp [ins]
  | cons y ys ih =>
    have hp := List.pairwise_cons.mp h
    simp only [ins]
    split
    · next hl =>
      apply List.pairwise_cons.mpr
      refine ⟨?_, ih hp.2⟩
      intro z hz
      cases (mem_ins less x z ys).mp hz with
      | inl e => rw [e]; exact less_prec y x hl
      | inr e => exact hp.1 z e
    · next hl =>
      have hxy : y.prec ≤ x.prec := not_less_prec y x (by simpa using hl)
      apply List.pairwise_cons.mpr
      refine ⟨?_, h⟩
      intro z hz
      cases List.mem_cons.mp hz with
      | inl e => rw [e]; exact hxy
      | inr e => exact Nat.le_trans (hp.1 z e) hxy

theorem sortIxns_sorted (l : List Ixn) : (sortIxns l).Pairwise (fun a b => b.prec ≤ a.prec) := by
  induction l with
  | nil => simp [sortIxns, isort]
  | cons x xs ih => exact ins_sorted x _ ih

theorem find?_sorted_max (l : List Ixn) (p : Ixn → Bool) (h : l.Pairwise (fun a b => b.prec ≤ a.prec))
    (i : Ixn) (hf : l.find? p = some i) : ∀ j ∈ l, p j = true → j.prec ≤ i.prec := by
  induction l with
  | nil => simp at hf
  | cons a t ih =>
    have hp := List.pairwise_cons.mp h
    simp only [List.find?_cons] at hf
    cases hpa : p a with
    | true =>
      simp only [hpa] at hf
      cases hf
      intro j hj _
      cases List.mem_cons.mp hj with
      | inl e => rw [e]; exact Nat.le_refl _
      | inr e => exact hp.1 j e
    | false =>
      simp only [hpa] at hf
      intro j hj hpj
      cases List.mem_cons.mp hj with
      | inl e => rw [e, hpa] at hpj; cases hpj
      | inr e => exact ih hp.2 hf j e hpj

end CV.Rbac
