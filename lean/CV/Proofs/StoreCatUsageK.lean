/-
Usage counters of the C07 wrapper, part 5: `kvs`. The KV table of the local catalog's base state stays strictly
sorted by key through every wrapper command (the base ladder `KvClosed` / `kvSorted_*` does the work per function),
so the change-set argument gives the exact counter.
-/
import CV.Proofs.StoreCatUsageC
import CV.Proofs.StoreSorted
namespace CV.Store
open CV

/-- the KV table of the local catalog is strictly sorted by key -/
def KvQ (s : XState) : Prop := KvSorted s.loc.st

theorem kq_of_step {p : String} {s s' : XState} {st' : State} (k : CatStep p s s' st') (h : p = "" → KvSorted st')
    (hs : KvQ s) : KvQ s' := by
  unfold KvQ at hs ⊢
  by_cases hp : p = ""
  · subst hp
    have : s'.loc.st = st' := by rw [loc_eq_cat]; exact k.st
    rw [this]; exact h rfl
  · have hnot : ¬ samePeer p "" := by unfold samePeer; simp [hp]
    have : s'.loc = s.loc := by rw [loc_eq_cat, loc_eq_cat]; exact k.other "" hnot
    rw [this]; exact hs

theorem kq_of_frame {s s' : XState} (f : XFrame s s') (hs : KvQ s) : KvQ s' := by
  unfold KvQ at hs ⊢; rw [f.loc]; exact hs

theorem kvs_svcInsert (st : State) (v : Svc) : (svcInsert st v).kvs = st.kvs := by
  unfold svcInsert
  simp only [State.maxIdx2, State.maxIdx, State.setIdx]
  repeat' split
  all_goals rfl

theorem kq_ensureServiceX {s s' : XState} {p node : String} {idx : Nat} {q : SvcReq}
    (h : ensureServiceX s p idx node q = .ok s') (hs : KvQ s) : KvQ s' := by
  obtain ⟨st', k, -, hst, -⟩ := ensureServiceX_step h
  refine kq_of_step k ?_ hs
  intro hp; subst hp
  have h0 : KvSorted (s.cat "").st := by rw [← loc_eq_cat]; exact hs
  rcases hst with rfl | ⟨v, rfl, -⟩
  · exact h0
  · exact (kvSorted_closed idx).kvs_only _ _ (kvs_svcInsert _ v) h0

theorem kq_deleteServiceX {s s' : XState} {p node id : String} {idx : Nat}
    (h : deleteServiceX s p idx node id = .ok s') (hs : KvQ s) : KvQ s' := by
  obtain ⟨st', d, k, -⟩ := deleteServiceX_step h
  refine kq_of_step k ?_ hs
  intro hp; subst hp
  exact kc_deleteService (kvSorted_closed idx) d (by rw [← loc_eq_cat]; exact hs)

theorem kq_deleteNodeX {s s' : XState} {p name : String} {idx : Nat}
    (h : deleteNodeX s p idx name = .ok s') (hs : KvQ s) : KvQ s' := by
  obtain ⟨st', d, k, -⟩ := deleteNodeX_step h
  refine kq_of_step k ?_ hs
  intro hp; subst hp
  exact kc_deleteNode (kvSorted_closed idx) d (by rw [← loc_eq_cat]; exact hs)

theorem kq_ensureNodeX {s s' : XState} {p : String} {idx : Nat} {node : Node}
    (h : ensureNodeX s p idx node = .ok s') (hs : KvQ s) : KvQ s' := by
  obtain ⟨st', d, k, -⟩ := ensureNodeX_step h
  refine kq_of_step k ?_ hs
  intro hp; subst hp
  exact kc_ensureNode (kvSorted_closed idx) d (by rw [← loc_eq_cat]; exact hs)

theorem kq_onSt {s s' : XState} {p : String} {f : State → Except Err State}
    (h : s.onSt p f = .ok s') (hf : ∀ st st', f st = .ok st' → KvSorted st → KvSorted st') (hs : KvQ s) : KvQ s' := by
  unfold XState.onSt at h
  simp only at h
  split at h
  · next st' hst =>
    simp at h; subst h
    have k : CatStep p s (s.setCat p { s.cat p with st := st' }) st' := CatStep.setCat s _
    refine kq_of_step k ?_ hs
    intro hp; subst hp
    exact hf _ _ hst (by rw [← loc_eq_cat]; exact hs)
  · simp at h

theorem kvSorted_foldE_checks {idx : Nat} {node : String} : ∀ (l : List Chk) (st st' : State),
    foldE (fun st c => ensureCheckIfNodeMatches st idx node c) l st = .ok st' → KvSorted st → KvSorted st' := by
  intro l
  induction l with
  | nil => intro st st' h hs; simp [foldE] at h; subst h; exact hs
  | cons b bs ih =>
    intro st st' h hs
    simp only [foldE] at h
    split at h
    · next st1 h1 =>
      unfold ensureCheckIfNodeMatches at h1
      split at h1
      · simp at h1
      · exact ih st1 st' h (kc_ensureCheck (kvSorted_closed idx) h1 hs)
    · simp at h

theorem kq_registerX {s s' : XState} {idx : Nat} {r : XRegReq}
    (h : registerX s idx r = .ok s') (hs : KvQ s) : KvQ s' := by
  unfold registerX at h
  extract_lets p r1 at h
  have h1 : ∀ s1, r1 = Except.ok s1 → KvQ s1 := by
    intro s1 hr
    unfold r1 at hr
    split at hr
    · split at hr
      · simp at hr; exact hr ▸ hs
      · exact kq_ensureNodeX hr hs
    · exact kq_ensureNodeX hr hs
  clear_value r1
  split at h
  · simp at h
  · next _ s1 =>
    have hs1 := h1 s1 rfl
    extract_lets c1 r2 at h
    have h2 : ∀ s2, r2 = Except.ok s2 → KvQ s2 := by
      intro s2 hr
      unfold r2 at hr
      split at hr
      · simp at hr; exact hr ▸ hs1
      · split at hr
        · split at hr
          · simp at hr; exact hr ▸ hs1
          · exact kq_ensureServiceX hr hs1
        · simp at hr
        · exact kq_ensureServiceX hr hs1
    clear_value r2
    split at h
    · simp at h
    · next _ s2 => exact kq_onSt h (fun st st' hst => kvSorted_foldE_checks _ _ _ hst) (h2 s2 rfl)

theorem kq_deregisterX {s s' : XState} {idx : Nat} {p node svcId chkId : String}
    (h : deregisterX s idx p node svcId chkId = .ok s') (hs : KvQ s) : KvQ s' := by
  unfold deregisterX at h
  split at h
  · exact kq_deleteServiceX h hs
  · split at h
    · exact kq_onSt h (fun st st' hst => kc_deleteCheck (kvSorted_closed idx) hst) hs
    · exact kq_deleteNodeX h hs

theorem kq_coordUpdate (s : XState) (us : List CoordRow) (hs : KvQ s) : KvQ (coordUpdate s us) := by
  unfold coordUpdate
  induction us generalizing s with
  | nil => exact hs
  | cons u rest ih =>
    simp only [List.foldl_cons]
    apply ih
    split
    · exact hs
    · exact hs

theorem kq_txnNodeX {s s' : XState} {idx : Nat} {v : CatVerb} {n : Node} {rs : List TxnRes}
    (h : txnNodeX s idx v n = .ok (s', rs)) (hs : KvQ s) : KvQ s' := by
  unfold txnNodeX at h
  cases v <;> simp only at h
  · split at h
    · simp [okResX] at h; exact h.1 ▸ hs
    · simp at h
  · split at h
    · next s1 h1 => simp [okResX] at h; exact h.1 ▸ kq_ensureNodeX h1 hs
    · simp at h
  · split at h
    · next s1 h1 =>
      simp [okResX] at h
      unfold ensureNodeCasX at h1
      split at h1
      · simp at h1
      · split at h1
        · next s2 h2 => simp at h1; exact h.1 ▸ h1 ▸ kq_ensureNodeX h2 hs
        · simp at h1
    · simp at h
    · simp at h
  · split at h
    · next s1 h1 => simp [okResX] at h; exact h.1 ▸ kq_deleteNodeX h1 hs
    · simp at h
  · split at h
    · next s1 h1 =>
      simp [okResX] at h
      unfold deleteNodeCasX at h1
      split at h1
      · simp at h1
      · split at h1
        · simp at h1
        · split at h1
          · next s2 h2 => simp at h1; exact h.1 ▸ h1 ▸ kq_deleteNodeX h2 hs
          · simp at h1
    · simp at h
    · simp at h

theorem kq_txnServiceX {s s' : XState} {idx : Nat} {v : CatVerb} {node : String} {q : SvcReq} {rs : List TxnRes}
    (h : txnServiceX s idx v node q = .ok (s', rs)) (hs : KvQ s) : KvQ s' := by
  unfold txnServiceX at h
  cases v <;> simp only at h
  · split at h
    · simp [okResX] at h; exact h.1 ▸ hs
    · simp at h
  · split at h
    · next s1 h1 => simp [okResX] at h; exact h.1 ▸ kq_ensureServiceX h1 hs
    · simp at h
  · split at h
    · next s1 h1 =>
      simp [okResX] at h
      unfold ensureServiceCasX at h1
      split at h1
      · simp at h1
      · split at h1
        · next s2 h2 => simp at h1; exact h.1 ▸ h1 ▸ kq_ensureServiceX h2 hs
        · simp at h1
    · simp at h
    · simp at h
  · split at h
    · next s1 h1 => simp [okResX] at h; exact h.1 ▸ kq_deleteServiceX h1 hs
    · simp at h
  · split at h
    · next s1 h1 =>
      simp [okResX] at h
      unfold deleteServiceCasX at h1
      split at h1
      · simp at h1
      · split at h1
        · simp at h1
        · split at h1
          · next s2 h2 => simp at h1; exact h.1 ▸ h1 ▸ kq_deleteServiceX h2 hs
          · simp at h1
    · simp at h
    · simp at h

theorem kq_txnStepX {s s' : XState} {idx : Nat} {op : XTxnOp} {rs : List TxnRes}
    (h : txnStepX s idx op = .ok (s', rs)) (hs : KvQ s) : KvQ s' := by
  cases op with
  | service v node q => exact kq_txnServiceX h hs
  | base bop =>
    cases bop with
    | node v n => exact kq_txnNodeX h hs
    | service v x => exact kq_txnServiceX h hs
    | kv v e =>
      simp only [txnStepX] at h
      split at h
      · next st' rs' hst => simp [okResX] at h; obtain ⟨rfl, -⟩ := h; exact kvSorted_txnStep hst hs
      · simp at h
    | check v c =>
      simp only [txnStepX] at h
      split at h
      · next st' rs' hst => simp [okResX] at h; obtain ⟨rfl, -⟩ := h; exact kvSorted_txnStep hst hs
      · simp at h
    | sessionDelete id =>
      simp only [txnStepX] at h
      split at h
      · next st' rs' hst => simp [okResX] at h; obtain ⟨rfl, -⟩ := h; exact kvSorted_txnStep hst hs
      · simp at h

theorem kq_txnLoopX (idx : Nat) : ∀ (ops : List XTxnOp) (i : Nat) (s : XState) (rs : List TxnRes) (es : List (Nat × XErr)),
    KvQ s → KvQ (txnLoopX idx ops i s rs es).1 := by
  intro ops
  induction ops with
  | nil => intro i s rs es hs; exact hs
  | cons op rest ih =>
    intro i s rs es hs
    simp only [txnLoopX]
    split
    · next s' r hstep => exact ih _ _ _ _ (kq_txnStepX hstep hs)
    · exact ih _ _ _ _ hs

theorem kq_txnRWX {s : XState} (idx : Nat) (ops : List XTxnOp) (hs : KvQ s) : KvQ (txnRWX s idx ops).1 := by
  unfold txnRWX
  have := kq_txnLoopX idx ops 0 s [] [] hs
  generalize txnLoopX idx ops 0 s [] [] = r at this
  obtain ⟨s', rs, es⟩ := r
  simp only
  split
  · exact this
  · exact hs

theorem kq_store_plain {s : XState} (idx : Nat) (c : Cmd) (hc : c.isPlain = true) (hs : KvQ s) :
    KvQ (stepX s idx (.store c)).1 := by
  have hstep : (stepX s idx (.store c)).1 = { s with loc := { s.loc with st := (apply s.loc.st idx c).1 } } := by
    cases c <;> first | (simp [Cmd.isPlain] at hc; done) | rfl
  rw [hstep]
  exact kvSorted_apply idx c hs

theorem kq_stepX {s : XState} (idx : Nat) (c : XCmd) (hs : KvQ s) : KvQ (stepX s idx c).1 := by
  cases c with
  | register r => exact vc_liftSX (P := KvQ) hs (fun s' h => kq_registerX h hs)
  | deregister p node svcId chkId => exact vc_liftSX (P := KvQ) hs (fun s' h => kq_deregisterX h hs)
  | coords us => exact kq_coordUpdate s us hs
  | sysmeta k v => exact kq_of_frame (xframe_sysMetaSet s k v) hs
  | configSet kind name dest tok => exact vc_liftSX (P := KvQ) hs (fun s' h => kq_of_frame (xframe_configUpsert h) hs)
  | configDelete kind name => exact kq_of_frame (xframe_configDelete s kind name) hs
  | txn ops => simp only [stepX]; exact kq_txnRWX idx ops hs
  | store c =>
    cases c with
    | register r => exact vc_liftSX (P := KvQ) hs (fun s' h => kq_registerX h hs)
    | deregister node svcId chkId => exact vc_liftSX (P := KvQ) hs (fun s' h => kq_deregisterX h hs)
    | txn ops => simp only [stepX]; exact kq_txnRWX idx _ hs
    | kvSet e => exact kq_store_plain idx _ rfl hs
    | kvCas e => exact kq_store_plain idx _ rfl hs
    | kvDelete k => exact kq_store_plain idx _ rfl hs
    | kvDeleteCas k ci => exact kq_store_plain idx _ rfl hs
    | kvDeleteTree p => exact kq_store_plain idx _ rfl hs
    | kvLock e => exact kq_store_plain idx _ rfl hs
    | kvUnlock e => exact kq_store_plain idx _ rfl hs
    | sessionCreate r => exact kq_store_plain idx _ rfl hs
    | sessionDestroy id => exact kq_store_plain idx _ rfl hs
    | reap u => exact kq_store_plain idx _ rfl hs
    | pqSet id sess => exact kq_store_plain idx _ rfl hs
    | pqDelete id => exact kq_store_plain idx _ rfl hs

theorem kq_applyX {s : XState} (idx : Nat) (c : XCmd) (hs : KvQ s) : KvQ (applyX s idx c).1 := kq_stepX idx c hs

/-! ### the counter -/

theorem kvs_keys_nodup {st : State} (h : KvSorted st) : (st.kvs.map KV.pk).Nodup := by
  unfold KvSorted at h
  unfold List.Nodup
  rw [List.pairwise_map]
  refine List.Pairwise.imp ?_ h
  intro a b hab heq
  have : a.key = b.key := heq
  rw [this] at hab
  exact absurd hab (by simp)

theorem lc_kvs : lc "kvs" = "kvs" := lc_of_toList _ _ (by decide)

theorem kvs_ne_of_head {c : String} {y : Char} {ys : List Char} (hc : c.toList = y :: ys) (hy : y ≠ 'k') : c ≠ "kvs" :=
  str_ne_of_head hc (by decide : "kvs".toList = 'k' :: "vs".toList) hy

theorem idsOk_kvs : IdsOk "kvs" where
  nodes := Or.inr (by rw [lc_of_toList "nodes" "nodes" (by decide), lc_kvs]; decide)
  services := Or.inr (by rw [lc_lit_services, lc_kvs]; decide)
  kvs := Or.inl rfl
  names := Or.inr (by rw [lc_of_toList "service-names" "service-names" (by decide), lc_kvs]; decide)
  billable := Or.inr (by rw [lc_of_toList billableName billableName (by decide), lc_kvs]; decide)
  conn := fun k => Or.inr (by rw [lc_cun, lc_raw, lc_kvs]; exact kvs_ne_of_head (cun_head _) (by decide))
  native := Or.inr (by rw [lc_cun, lc_native, lc_kvs]; exact kvs_ne_of_head (cun_head _) (by decide))

theorem usageDeltas_kvs (pre post : XState) (h1 : KvQ pre) (h2 : KvQ post) :
    dval (usageDeltas pre post) "kvs" = (post.loc.st.kvs.length : Int) - (pre.loc.st.kvs.length : Int) := by
  rw [usageDeltas_dval]
  rw [countDeltas_const_dval "nodes" "kvs", if_neg (by decide),
    countDeltas_const_dval "kvs" "kvs", if_pos rfl,
    countDeltas_other_dval (fun (r : CfgRow) => "config-entries-" ++ r.kind) "kvs"
      (fun r => fun hh => kvs_ne_of_head (cfgid_head r.kind) (by decide) hh),
    serviceNameDeltas_other_dval _ (by decide)]
  rw [sum_map_wSum (fun _ => 0) _ (fun ch => by
    rw [svcStep_dval, if_neg (by decide),
      connect_other ch (c := "kvs") (fun x => kvs_ne_of_head (cun_head x) (by decide)),
      billable_other ch (by decide)]
    obtain ⟨b, a⟩ := ch
    cases b <;> cases a <;> simp [optW])]
  have hz : ∀ (l : List (Option (Svc × SvcX) × Option (Svc × SvcX))), wSum (fun _ => (0 : Int)) l = 0 := by
    intro l; induction l with
    | nil => rfl
    | cons ch rest ih => obtain ⟨b, a⟩ := ch; cases b <;> cases a <;> simp [wSum, optW, ih]
  rw [hz, wSum_changesOf _ _ _ _ (kvs_keys_nodup h1) (kvs_keys_nodup h2), listSum_one, listSum_one]
  omega

theorem usage_kvs_applyX {s : XState} (idx : Nat) (c : XCmd) (hs : KvQ s)
    (h : usageGet s "kvs" = s.loc.st.kvs.length) :
    usageGet (applyX s idx c).1 "kvs" = (applyX s idx c).1.loc.st.kvs.length := by
  have hpost : KvQ (stepX s idx c).1 := kq_stepX idx c hs
  have hcfg : ∀ r, (r ∈ s.cfg ∨ r ∈ (stepX s idx c).1.cfg) → OkFor "kvs" ("config-entries-" ++ r.kind) := fun r _ =>
    Or.inr (cfgid_ne_of_head r.kind (by rw [lc_kvs]; decide : (lc "kvs").toList = 'k' :: "vs".toList) (by decide))
  show usageGet (applyX s idx c).1 "kvs" = (stepX s idx c).1.loc.st.kvs.length
  exact usage_step_generic idx c "kvs" _ _ (goodFor_usageDeltas idsOk_kvs _ _ hcfg) (usageDeltas_kvs s _ hs hpost) h

theorem usage_kvs_replayX : ∀ (log : XLog) (s : XState), KvQ s → usageGet s "kvs" = s.loc.st.kvs.length →
    usageGet (replayX s log) "kvs" = (replayX s log).loc.st.kvs.length := by
  intro log
  induction log with
  | nil => intro s _ h; exact h
  | cons ic rest ih =>
    intro s hs h
    unfold replayX
    simp only [List.foldl_cons]
    exact ih _ (kq_applyX ic.1 ic.2 hs) (usage_kvs_applyX ic.1 ic.2 hs h)

end CV.Store
