/-
Helper lemmas for C04: the lock invariant is preserved by every function of the store model.
-/
import CV.Proofs.StoreBasic
namespace CV.Store
open CV

/-- some row of the sessions table has this id (ids are compared as memdb does: case-folded) -/
def Live (ss : List Sess) (id : String) : Prop := ∃ x ∈ ss, lc x.id = lc id

def LockInvV (v : List KV × List Sess × List SessCheck × List PQ) : Prop :=
  (∀ e ∈ v.1, e.session ≠ "" → Live v.2.1 e.session) ∧
  (∀ m ∈ v.2.2.1, Live v.2.1 m.session) ∧
  (∀ q ∈ v.2.2.2, q.session ≠ "" → Live v.2.1 q.session)

/-- Every lock holder, every session-check link and every session-bound prepared query names a
    session that currently exists. -/
def LockInv (s : State) : Prop := LockInvV (lockView s)

theorem LockInv_of_view {s s' : State} (h : lockView s' = lockView s) : LockInv s → LockInv s' := by
  unfold LockInv; rw [h]; exact id

theorem live_of_sessionLive {s : State} {id : String} (h : sessionLive s id = true) : Live s.sessions id := by
  unfold sessionLive sessFind at h
  cases hf : tfind Sess.pk (lc id) s.sessions with
  | none => simp [hf] at h
  | some x => exact ⟨x, (tfind_some hf).1, (tfind_some hf).2⟩

theorem sessionLive_of_live {s : State} {id : String} (h : Live s.sessions id) : sessionLive s id = true := by
  obtain ⟨x, hx, hk⟩ := h
  unfold sessionLive sessFind
  exact tfind_isSome_of_mem hx hk

theorem sessionLive_iff {s : State} {id : String} : sessionLive s id = true ↔ Live s.sessions id :=
  ⟨live_of_sessionLive, sessionLive_of_live⟩

theorem lockInv_empty : LockInv State.empty := by
  simp [LockInv, LockInvV, lockView, State.empty]

/-! ### KV -/

theorem lockInv_kvInsert {s : State} {e : KV} (h : LockInv s)
    (he : e.session ≠ "" → Live s.sessions e.session) : LockInv (kvInsert s e) := by
  obtain ⟨h1, h2, h3⟩ := h
  refine ⟨?_, h2, h3⟩
  intro x hx hs
  rcases mem_tupsert hx with rfl | hx
  · exact he hs
  · exact h1 x hx hs

theorem kvFind_mem {s : State} {k : Key} {x : KV} (h : kvFind s k = some x) : x ∈ s.kvs ∧ x.key = k :=
  tfind_some h

theorem live_of_kvFind {s : State} {k : Key} {x : KV} (hf : kvFind s k = some x) (h : LockInv s) :
    x.session ≠ "" → Live s.sessions x.session := h.1 x (kvFind_mem hf).1

set_option linter.unnecessarySimpa false

theorem lockInv_kvSetTxn {s s' : State} {idx : Nat} {e w : KV} {upd : Bool}
    (hr : kvSetTxn s idx e upd = .ok (s', w)) (h : LockInv s)
    (he : upd = true → e.session ≠ "" → Live s.sessions e.session) : LockInv s' := by
  cases upd <;> simp only [kvSetTxn] at hr <;> repeat' (split at hr)
  all_goals (try simp at hr)
  all_goals (obtain ⟨rfl, -⟩ := hr)
  all_goals (first | exact h | skip)
  all_goals (apply lockInv_kvInsert h)
  all_goals (first | contradiction | (simpa using he rfl) | (simp; done) | (simp; exact live_of_kvFind (by assumption) h))

theorem lockInv_filter_kvs {s : State} (p : KV → Bool) (h : LockInv s) :
    LockInv { s with kvs := s.kvs.filter p } := by
  obtain ⟨h1, h2, h3⟩ := h
  refine ⟨?_, h2, h3⟩
  intro x hx hs
  exact h1 x (List.mem_filter.mp hx).1 hs

theorem lockInv_terase_kvs {s : State} (k : Key) (h : LockInv s) :
    LockInv { s with kvs := terase KV.pk k s.kvs } := by
  unfold terase; exact lockInv_filter_kvs _ h

theorem lockInv_kvDeleteTxn {s s' : State} {idx : Nat} {k : Key}
    (hr : kvDeleteTxn s idx k = .ok s') (h : LockInv s) : LockInv s' := by
  simp only [kvDeleteTxn] at hr
  repeat' (split at hr)
  all_goals (try simp at hr)
  all_goals (subst hr)
  · exact h
  · have := lockInv_terase_kvs k (LockInv_of_view (lockView_tombInsert s k idx) h)
    exact LockInv_of_view (by rfl) this

theorem lockInv_kvDeleteTreeTxn {s : State} {idx : Nat} {p : Key} (h : LockInv s) :
    LockInv (kvDeleteTreeTxn s idx p) := by
  unfold kvDeleteTreeTxn
  split
  · have h1 := lockInv_filter_kvs (fun e => !prefixMatch p e.key) h
    split
    · exact LockInv_of_view rfl (LockInv_of_view (lockView_tombInsert _ p idx) h1)
    · exact LockInv_of_view rfl h1
  · exact h

theorem lockInv_kvDeleteCasTxn {s s' : State} {idx c : Nat} {k : Key} {b : Bool}
    (hr : kvDeleteCasTxn s idx c k = .ok (s', b)) (h : LockInv s) : LockInv s' := by
  simp only [kvDeleteCasTxn] at hr
  repeat' (split at hr)
  all_goals (try simp at hr)
  all_goals (obtain ⟨rfl, -⟩ := hr)
  all_goals (first | exact h | exact lockInv_kvDeleteTxn (by assumption) h)

theorem lockInv_kvSetCasTxn {s s' : State} {idx : Nat} {e w : KV} {b : Bool}
    (hr : kvSetCasTxn s idx e = .ok (s', b, w)) (h : LockInv s) : LockInv s' := by
  simp only [kvSetCasTxn] at hr
  repeat' (split at hr)
  all_goals (try simp at hr)
  all_goals (obtain ⟨rfl, -⟩ := hr)
  all_goals (first | exact h | exact lockInv_kvSetTxn (by assumption) h (by simp))

theorem lockDecision_some {s : State} {idx : Nat} {e e' : KV} (h : lockDecision s idx e = .ok (some e')) :
    e'.session = e.session ∧ e'.key = e.key ∧ e.key ≠ [] ∧ e.session ≠ "" ∧ sessionLive s e.session = true := by
  simp only [lockDecision] at h
  repeat' (split at h)
  all_goals (try simp at h)
  all_goals (subst h)
  all_goals (simp_all)

theorem unlockDecision_some {s : State} {idx : Nat} {e e' : KV} (h : unlockDecision s idx e = .ok (some e')) :
    e'.session = "" ∧ e'.key = e.key ∧ e.key ≠ [] := by
  simp only [unlockDecision] at h
  repeat' (split at h)
  all_goals (try simp at h)
  all_goals (subst h)
  all_goals (simp_all)

theorem lockInv_kvLockTxn {s s' : State} {idx : Nat} {e w : KV} {b : Bool}
    (hr : kvLockTxn s idx e = .ok (s', b, w)) (h : LockInv s) : LockInv s' := by
  simp only [kvLockTxn] at hr
  repeat' (split at hr)
  all_goals (try simp at hr)
  all_goals (obtain ⟨rfl, -⟩ := hr)
  · exact h
  · rename_i e' hd _ _ _ hs
    obtain ⟨h1, -, -, -, h5⟩ := lockDecision_some hd
    exact lockInv_kvSetTxn hs h (fun _ _ => h1 ▸ live_of_sessionLive h5)

theorem lockInv_kvUnlockTxn {s s' : State} {idx : Nat} {e w : KV} {b : Bool}
    (hr : kvUnlockTxn s idx e = .ok (s', b, w)) (h : LockInv s) : LockInv s' := by
  simp only [kvUnlockTxn] at hr
  repeat' (split at hr)
  all_goals (try simp at hr)
  all_goals (obtain ⟨rfl, -⟩ := hr)
  · exact h
  · rename_i e' hd _ _ _ hs
    exact lockInv_kvSetTxn hs h (fun _ hne => absurd (unlockDecision_some hd).1 hne)

/-- the verdict of a lock command is `true` exactly when `lockDecision` hands an entry to the write -/
theorem apply_lock_true_iff (s : State) (idx : Nat) (e : KV) :
    (apply s idx (.kvLock e)).2 = .bool true ↔ ∃ e', lockDecision s idx e = .ok (some e') := by
  simp only [apply, kvLockTxn]
  cases hd : lockDecision s idx e with
  | error er => simp [liftB, Except.map]
  | ok o =>
    cases o with
    | none => simp [liftB, Except.map]
    | some e' =>
      obtain ⟨s', w, hk⟩ := kvSetTxn_ok (s := s) (idx := idx) (e := e') (upd := true)
        (by rw [(lockDecision_some hd).2.1]; exact (lockDecision_some hd).2.2.1)
      simp [hk, liftB, Except.map]

theorem apply_unlock_true_iff (s : State) (idx : Nat) (e : KV) :
    (apply s idx (.kvUnlock e)).2 = .bool true ↔ ∃ e', unlockDecision s idx e = .ok (some e') := by
  simp only [apply, kvUnlockTxn]
  cases hd : unlockDecision s idx e with
  | error er => simp [liftB, Except.map]
  | ok o =>
    cases o with
    | none => simp [liftB, Except.map]
    | some e' =>
      obtain ⟨s', w, hk⟩ := kvSetTxn_ok (s := s) (idx := idx) (e := e') (upd := true)
        (by rw [(unlockDecision_some hd).2.1]; exact (unlockDecision_some hd).2.2)
      simp [hk, liftB, Except.map]

theorem lockInv_reapTxn {s : State} {u : Nat} (h : LockInv s) : LockInv (reapTxn s u) :=
  LockInv_of_view rfl h

/-! ### session invalidation -/

theorem mem_invalidateKeys {s : State} {idx : Nat} {sess : Sess} {e' : KV}
    (h : e' ∈ (invalidateKeys s idx sess).kvs) (hs : e'.session ≠ "") :
    e' ∈ s.kvs ∧ lc e'.session ≠ lc sess.id := by
  unfold invalidateKeys at h
  simp only at h
  split at h
  · next hemp =>
    refine ⟨h, ?_⟩
    intro hc
    simp [List.isEmpty_iff] at hemp
    have := hemp e' h
    simp [heldBy, hs, hc] at this
  · split at h
    · simp only [List.mem_map] at h
      obtain ⟨e, he, rfl⟩ := h
      by_cases hh : heldBy sess.id e = true
      · simp [hh] at hs
      · have hf : heldBy sess.id e = false := by simpa using hh
        simp only [hf] at hs ⊢
        simp only [Bool.false_eq_true, if_false] at hs ⊢
        refine ⟨he, ?_⟩
        intro hc
        simp [heldBy, hs, hc] at hf
    · simp only [List.mem_filter] at h
      refine ⟨h.1, ?_⟩
      intro hc
      have := h.2
      simp [heldBy, hs, hc] at this

theorem invalidateKeys_rest (s : State) (idx : Nat) (sess : Sess) :
    (invalidateKeys s idx sess).sessions = s.sessions ∧ (invalidateKeys s idx sess).sessChecks = s.sessChecks ∧
    (invalidateKeys s idx sess).queries = s.queries := by
  unfold invalidateKeys
  simp only
  split
  · exact ⟨rfl, rfl, rfl⟩
  · split <;> exact ⟨rfl, rfl, rfl⟩

theorem dropSessionRefs_rest (s : State) (idx : Nat) (id : String) :
    (dropSessionRefs s idx id).kvs = s.kvs ∧ (dropSessionRefs s idx id).sessions = s.sessions ∧
    (dropSessionRefs s idx id).sessChecks = s.sessChecks.filter (fun m => lc m.session != lc id) := by
  unfold dropSessionRefs
  simp only
  split <;> exact ⟨rfl, rfl, rfl⟩

theorem mem_dropSessionRefs_queries {s : State} {idx : Nat} {id : String} {q : PQ}
    (h : q ∈ (dropSessionRefs s idx id).queries) : q ∈ s.queries ∧ (q.session ≠ "" → lc q.session ≠ lc id) := by
  unfold dropSessionRefs at h
  simp only at h
  split at h
  · simp only [List.mem_filter] at h
    refine ⟨h.1, ?_⟩
    intro hs hc
    have := h.2
    simp [hs, hc] at this
  · next hany =>
    refine ⟨h, ?_⟩
    intro hs hc
    apply hany
    simp only [List.any_eq_true]
    exact ⟨q, h, by simp [hs, hc]⟩

theorem live_terase {ss : List Sess} {x id : String} (h : Live ss x) (hne : lc x ≠ lc id) :
    Live (terase Sess.pk (lc id) ss) x := by
  obtain ⟨y, hy, hk⟩ := h
  refine ⟨y, ?_, hk⟩
  rw [mem_terase]
  exact ⟨hy, by simp [Sess.pk, hk, hne]⟩

/-- removing a session together with its locks, check links and queries keeps the invariant -/
theorem lockInv_removeSession {s : State} {idx : Nat} {id : String} {sess : Sess}
    (hf : sessFind s id = some sess) (h : LockInv s) :
    LockInv (dropSessionRefs (invalidateKeys
      { s with sessions := terase Sess.pk (lc id) s.sessions, index := idxSet s.index "sessions" idx } idx sess) idx id) := by
  have hid : lc sess.id = lc id := (tfind_some hf).2
  obtain ⟨h1, h2, h3⟩ := h
  generalize hs1 : ({ s with sessions := terase Sess.pk (lc id) s.sessions, index := idxSet s.index "sessions" idx } : State) = s1
  have e1 : s1.kvs = s.kvs := by rw [← hs1]
  have e2 : s1.sessions = terase Sess.pk (lc id) s.sessions := by rw [← hs1]
  have e3 : s1.sessChecks = s.sessChecks := by rw [← hs1]
  have e4 : s1.queries = s.queries := by rw [← hs1]
  obtain ⟨i1, i2, i3⟩ := invalidateKeys_rest s1 idx sess
  obtain ⟨d1, d2, d3⟩ := dropSessionRefs_rest (invalidateKeys s1 idx sess) idx id
  refine ⟨?_, ?_, ?_⟩
  · intro e he hs
    simp only [lockView] at he ⊢
    rw [d1] at he
    obtain ⟨hm, hne⟩ := mem_invalidateKeys he hs
    rw [d2, i1, e2]
    rw [e1] at hm
    exact live_terase (h1 e hm hs) (by rw [← hid]; exact hne)
  · intro m hm
    simp only [lockView] at hm ⊢
    rw [d3, i2, e3] at hm
    rw [d2, i1, e2]
    simp only [List.mem_filter] at hm
    exact live_terase (h2 m hm.1) (by simpa using hm.2)
  · intro q hq hs
    simp only [lockView] at hq ⊢
    obtain ⟨hm, hne⟩ := mem_dropSessionRefs_queries hq
    rw [i3, e4] at hm
    rw [d2, i1, e2]
    exact live_terase (h3 q hm hs) (hne hs)

theorem checkPrep_view {s s1 : State} {idx : Nat} {p : Bool} {hc hc1 : Chk} {m : Bool}
    (hr : checkPrep s idx p hc = .ok (s1, hc1, m)) : lockView s1 = lockView s := by
  simp only [checkPrep] at hr
  repeat' (split at hr)
  all_goals (try simp at hr)
  all_goals (obtain ⟨rfl, -⟩ := hr)
  all_goals (first | rfl | simp)

theorem lockView_checkFinish (s : State) (idx : Nat) (p : Bool) (hc : Chk) (m : Bool) :
    lockView (checkFinish s idx p hc m) = lockView s := by
  unfold checkFinish
  split <;> simp

def PresDel (n : Nat) : Prop :=
  ∀ s idx id s', deleteSessionF n s idx id = .ok s' → LockInv s → LockInv s'
def PresChk (n : Nat) : Prop :=
  ∀ s idx p hc s', ensureCheckF n s idx p hc = .ok s' → LockInv s → LockInv s'

theorem presDel_zero : PresDel 0 := by
  intro s idx id s' hr h
  rw [deleteSessionF] at hr
  split at hr
  · simp at hr; exact hr ▸ h
  · simp at hr

theorem presDel_succ {n : Nat} (hq : PresChk n) : PresDel (n + 1) := by
  intro s idx id s' hr h
  rw [deleteSessionF] at hr
  split at hr
  · simp at hr; exact hr ▸ h
  · next sess hf =>
    simp only at hr
    exact foldE_ind LockInv _ (fun st c st' hst hc => hq st idx _ _ st' hc hst) _ _ _
      (lockInv_removeSession hf h) hr

theorem presChk_of {n : Nat} (hp : ∀ m, n = m + 1 → PresDel m) : PresChk n := by
  intro s idx p hc s' hr h
  rw [ensureCheckF] at hr
  split at hr
  · simp at hr
  · next s1 hc1 md hprep =>
    have h1 : LockInv s1 := LockInv_of_view (checkPrep_view hprep) h
    split at hr
    · simp at hr; rw [← hr]; exact LockInv_of_view (lockView_checkFinish _ _ _ _ _) h1
    · simp at hr
    · next m _ =>
      split at hr
      · simp at hr
      · next s2 hfold =>
        simp at hr; rw [← hr]
        refine LockInv_of_view (lockView_checkFinish _ _ _ _ _) ?_
        exact foldE_ind LockInv _ (fun st sid st' hst hc => hp m rfl st idx sid st' hc hst) _ _ _ h1 hfold

theorem lockInv_cascade (n : Nat) : PresDel n ∧ PresChk n := by
  induction n with
  | zero => exact ⟨presDel_zero, presChk_of (by intro m hm; omega)⟩
  | succ n ih =>
    exact ⟨presDel_succ ih.2, presChk_of (by intro m hm; have : m = n := by omega
                                             subst this; exact ih.1)⟩

theorem lockInv_deleteSession {s s' : State} {idx : Nat} {id : String}
    (hr : deleteSession s idx id = .ok s') (h : LockInv s) : LockInv s' :=
  (lockInv_cascade _).1 s idx id s' hr h

theorem lockInv_ensureCheck {s s' : State} {idx : Nat} {p : Bool} {hc : Chk}
    (hr : ensureCheck s idx p hc = .ok s') (h : LockInv s) : LockInv s' :=
  (lockInv_cascade _).2 s idx p hc s' hr h

/-! ### session create, prepared queries -/

theorem live_tupsert {ss : List Sess} {x : Sess} {id : String} (h : Live ss id) :
    Live (tupsert Sess.pk strLt x ss) id := by
  obtain ⟨y, hy, hk⟩ := h
  rcases mem_tupsert_of_mem (key := Sess.pk) (lt := strLt) (r := x) hy with hm | hk'
  · exact ⟨y, hm, hk⟩
  · exact ⟨x, self_mem_tupsert x ss, by simp only [Sess.pk] at hk'; rw [← hk', hk]⟩

theorem mem_foldl_tupsert_sc {node id : String} (cs : List String) (t : List SessCheck) {m : SessCheck}
    (h : m ∈ cs.foldl (fun t c => tupsert SessCheck.pk strLt ⟨node, c, id⟩ t) t) : m ∈ t ∨ m.session = id := by
  induction cs generalizing t with
  | nil => exact Or.inl h
  | cons c cs ih =>
    rcases ih _ h with h | h
    · rcases mem_tupsert h with rfl | h
      · exact Or.inr rfl
      · exact Or.inl h
    · exact Or.inr h

theorem lockInv_insertSession {s : State} {x : Sess} {idx : Nat} (h : LockInv s) :
    LockInv (insertSession s x idx) := by
  obtain ⟨h1, h2, h3⟩ := h
  refine ⟨?_, ?_, ?_⟩
  · intro e he hs; exact live_tupsert (h1 e he hs)
  · intro m hm
    simp only [lockView, insertSession] at hm ⊢
    rcases mem_foldl_tupsert_sc _ _ hm with hm | hm
    · exact live_tupsert (h2 m hm)
    · exact ⟨x, self_mem_tupsert x _, by rw [hm]⟩
  · intro q hq hs; exact live_tupsert (h3 q hq hs)

theorem lockInv_updateSessionCheck {s s' : State} {idx : Nat} {x : Sess} {st : String}
    (hr : updateSessionCheck s idx x st = .ok s') (h : LockInv s) : LockInv s' := by
  unfold updateSessionCheck at hr
  exact foldE_ind LockInv _ (fun a c a' ha hc => lockInv_ensureCheck hc ha) _ _ _ h hr

theorem lockInv_sessionCreate {s s' : State} {idx : Nat} {r : SessReq}
    (hr : sessionCreate s idx r = .ok s') (h : LockInv s) : LockInv s' := by
  simp only [sessionCreate] at hr
  repeat' (split at hr)
  all_goals (try simp at hr)
  all_goals (exact lockInv_updateSessionCheck hr (lockInv_insertSession h))

theorem lockInv_pqSet {s s' : State} {idx : Nat} {id sess : String}
    (hr : pqSet s idx id sess = .ok s') (h : LockInv s) : LockInv s' := by
  simp only [pqSet] at hr
  repeat' (split at hr)
  all_goals (try simp at hr)
  all_goals (subst hr)
  all_goals (
    obtain ⟨h1, h2, h3⟩ := h
    refine ⟨h1, h2, ?_⟩
    intro q hq hs
    rcases mem_tupsert hq with rfl | hq
    · apply live_of_sessionLive
      simp only [ne_eq] at hs
      simp_all
    · exact h3 q hq hs)

theorem lockInv_pqDelete {s : State} {idx : Nat} {id : String} (h : LockInv s) : LockInv (pqDelete s idx id) := by
  unfold pqDelete
  split
  · exact h
  · obtain ⟨h1, h2, h3⟩ := h
    refine ⟨h1, h2, ?_⟩
    intro q hq hs
    exact h3 q (mem_terase.mp hq).1 hs

/-! ### catalog -/

@[simp] theorem lockView_deleteCheckPre (s : State) (idx : Nat) (node id : String) (x : Chk) :
    lockView (deleteCheckPre s idx node id x) = lockView s := by
  unfold deleteCheckPre
  simp only
  split <;> simp

@[simp] theorem lockView_deleteServicePost (s : State) (idx : Nat) (node id : String) (v : Svc) :
    lockView (deleteServicePost s idx node id v) = lockView s := by
  unfold deleteServicePost
  simp only
  split <;> simp

@[simp] theorem lockView_deleteNodePost (s : State) (idx : Nat) (name : String) :
    lockView (deleteNodePost s idx name) = lockView s := by
  unfold deleteNodePost
  simp

theorem lockInv_deleteCheck {s s' : State} {idx : Nat} {node id : String}
    (hr : deleteCheck s idx node id = .ok s') (h : LockInv s) : LockInv s' := by
  simp only [deleteCheck] at hr
  split at hr
  · simp at hr; exact hr ▸ h
  · exact foldE_ind LockInv _ (fun a c a' ha hc => lockInv_deleteSession hc ha) _ _ _
      (LockInv_of_view (lockView_deleteCheckPre _ _ _ _ _) h) hr

theorem lockInv_deleteService {s s' : State} {idx : Nat} {node id : String}
    (hr : deleteService s idx node id = .ok s') (h : LockInv s) : LockInv s' := by
  simp only [deleteService] at hr
  split at hr
  · simp at hr; exact hr ▸ h
  · split at hr
    · simp at hr
    · next s1 hfold =>
      simp at hr; rw [← hr]
      have h1 : LockInv s1 := foldE_ind LockInv _ (fun a c a' ha hc => lockInv_deleteCheck hc ha) _ _ _ h hfold
      exact LockInv_of_view (lockView_deleteServicePost _ _ _ _ _) h1

theorem lockInv_deleteNode {s s' : State} {idx : Nat} {name : String}
    (hr : deleteNode s idx name = .ok s') (h : LockInv s) : LockInv s' := by
  simp only [deleteNode] at hr
  split at hr
  · simp at hr; exact hr ▸ h
  · split at hr
    · simp at hr
    · next s2 hf2 =>
      split at hr
      · simp at hr
      · next s3 hf3 =>
        have h1 : LockInv (List.foldl (fun st (v : Svc) => bumpServiceIdx st idx v.name) s
            (List.filter (fun v => lc v.node == lc name) s.svcs)) :=
          LockInv_of_view (lockView_foldl (fun st (v : Svc) => bumpServiceIdx st idx v.name) (fun st b => rfl) _ s) h
        have h2 : LockInv s2 := foldE_ind LockInv _ (fun a c a' ha hc => lockInv_deleteService hc ha) _ _ _ h1 hf2
        have h3 : LockInv s3 := foldE_ind LockInv _ (fun a c a' ha hc => lockInv_deleteCheck hc ha) _ _ _ h2 hf3
        exact foldE_ind LockInv _ (fun a c a' ha hc => lockInv_deleteSession hc ha) _ _ _
          (LockInv_of_view (lockView_deleteNodePost _ _ _) h3) hr

theorem lockInv_ensureNode {s s' : State} {idx : Nat} {n : Node}
    (hr : ensureNode s idx n = .ok s') (h : LockInv s) : LockInv s' := by
  simp only [ensureNode] at hr
  split at hr
  · simp at hr
  · next s1 byId hr1 =>
    have h1 : LockInv s1 := by
      repeat' (split at hr1)
      all_goals (try simp at hr1)
      all_goals (obtain ⟨rfl, -⟩ := hr1)
      all_goals (first | exact h | exact lockInv_deleteNode (by assumption) h)
    repeat' (split at hr)
    all_goals (try simp at hr)
    all_goals (subst hr)
    all_goals (first | exact h1 | exact LockInv_of_view (lockView_nodeInsert _ _) h1)

theorem lockInv_ensureService {s s' : State} {idx : Nat} {v : Svc}
    (hr : ensureService s idx v = .ok s') (h : LockInv s) : LockInv s' := by
  unfold ensureService at hr
  split at hr
  · simp at hr
  · split at hr
    · simp only at hr
      split at hr
      · simp at hr; exact hr ▸ h
      · simp at hr; rw [← hr]; exact LockInv_of_view (lockView_svcInsert _ _) h
    · simp at hr; rw [← hr]; exact LockInv_of_view (lockView_svcInsert _ _) h

theorem lockInv_ensureRegistration {s s' : State} {idx : Nat} {r : RegReq}
    (hr : ensureRegistration s idx r = .ok s') (h : LockInv s) : LockInv s' := by
  simp only [ensureRegistration] at hr
  split at hr
  · simp at hr
  · next s1 hr1 =>
    have h1 : LockInv s1 := by
      repeat' (split at hr1)
      all_goals (try simp at hr1)
      all_goals (first | exact hr1 ▸ h | exact lockInv_ensureNode hr1 h)
    split at hr
    · simp at hr
    · next s2 hr2 =>
      have h2 : LockInv s2 := by
        repeat' (split at hr2)
        all_goals (try simp at hr2)
        all_goals (first | exact hr2 ▸ h1 | exact lockInv_ensureService hr2 h1)
      refine foldE_ind LockInv _ ?_ _ _ _ h2 hr
      intro a c a' ha hc
      unfold ensureCheckIfNodeMatches at hc
      split at hc
      · simp at hc
      · exact lockInv_ensureCheck hc ha

/-! ### CAS wrappers, transactions, apply -/

theorem lockInv_ensureNodeCas {s s' : State} {idx : Nat} {n : Node} {b : Bool}
    (hr : ensureNodeCas s idx n = .ok (s', b)) (h : LockInv s) : LockInv s' := by
  unfold ensureNodeCas at hr
  repeat' (split at hr)
  all_goals (try simp at hr)
  all_goals (obtain ⟨rfl, -⟩ := hr)
  all_goals (first | exact h | exact lockInv_ensureNode (by assumption) h)

theorem lockInv_deleteNodeCas {s s' : State} {idx c : Nat} {n : String} {b : Bool}
    (hr : deleteNodeCas s idx c n = .ok (s', b)) (h : LockInv s) : LockInv s' := by
  unfold deleteNodeCas at hr
  repeat' (split at hr)
  all_goals (try simp at hr)
  all_goals (obtain ⟨rfl, -⟩ := hr)
  all_goals (first | exact h | exact lockInv_deleteNode (by assumption) h)

theorem lockInv_ensureServiceCas {s s' : State} {idx : Nat} {v : Svc} {b : Bool}
    (hr : ensureServiceCas s idx v = .ok (s', b)) (h : LockInv s) : LockInv s' := by
  unfold ensureServiceCas at hr
  repeat' (split at hr)
  all_goals (try simp at hr)
  all_goals (obtain ⟨rfl, -⟩ := hr)
  all_goals (first | exact h | exact lockInv_ensureService (by assumption) h)

theorem lockInv_deleteServiceCas {s s' : State} {idx c : Nat} {n i : String} {b : Bool}
    (hr : deleteServiceCas s idx c n i = .ok (s', b)) (h : LockInv s) : LockInv s' := by
  unfold deleteServiceCas at hr
  repeat' (split at hr)
  all_goals (try simp at hr)
  all_goals (obtain ⟨rfl, -⟩ := hr)
  all_goals (first | exact h | exact lockInv_deleteService (by assumption) h)

theorem lockInv_ensureCheckCas {s s' : State} {idx : Nat} {c : Chk} {b : Bool}
    (hr : ensureCheckCas s idx c = .ok (s', b)) (h : LockInv s) : LockInv s' := by
  unfold ensureCheckCas at hr
  repeat' (split at hr)
  all_goals (try simp at hr)
  all_goals (obtain ⟨rfl, -⟩ := hr)
  all_goals (first | exact h | exact lockInv_ensureCheck (by assumption) h)

theorem lockInv_deleteCheckCas {s s' : State} {idx c : Nat} {n i : String} {b : Bool}
    (hr : deleteCheckCas s idx c n i = .ok (s', b)) (h : LockInv s) : LockInv s' := by
  unfold deleteCheckCas at hr
  repeat' (split at hr)
  all_goals (try simp at hr)
  all_goals (obtain ⟨rfl, -⟩ := hr)
  all_goals (first | exact h | exact lockInv_deleteCheck (by assumption) h)

theorem lockInv_txnKV {s s' : State} {idx : Nat} {v : KvVerb} {e : KV} {rs : List TxnRes}
    (hr : txnKV s idx v e = .ok (s', rs)) (h : LockInv s) : LockInv s' := by
  unfold txnKV at hr
  cases v <;> simp only [okRes] at hr <;> repeat' (split at hr)
  all_goals (try simp at hr)
  all_goals (try (obtain ⟨rfl, -⟩ := hr))
  all_goals (first
    | exact h
    | exact lockInv_kvSetTxn (by assumption) h (by simp)
    | exact lockInv_kvDeleteTxn (by assumption) h
    | exact lockInv_kvDeleteCasTxn (by assumption) h
    | exact lockInv_kvDeleteTreeTxn h
    | exact lockInv_kvSetCasTxn (by assumption) h
    | exact lockInv_kvLockTxn (by assumption) h
    | exact lockInv_kvUnlockTxn (by assumption) h)

theorem lockInv_txnNode {s s' : State} {idx : Nat} {v : CatVerb} {n : Node} {rs : List TxnRes}
    (hr : txnNode s idx v n = .ok (s', rs)) (h : LockInv s) : LockInv s' := by
  unfold txnNode at hr
  cases v <;> simp only [okRes] at hr <;> repeat' (split at hr)
  all_goals (try simp at hr)
  all_goals (try (obtain ⟨rfl, -⟩ := hr))
  all_goals (first
    | exact h
    | exact lockInv_ensureNode (by assumption) h
    | exact lockInv_ensureNodeCas (by assumption) h
    | exact lockInv_deleteNode (by assumption) h
    | exact lockInv_deleteNodeCas (by assumption) h)

theorem lockInv_txnService {s s' : State} {idx : Nat} {v : CatVerb} {x : Svc} {rs : List TxnRes}
    (hr : txnService s idx v x = .ok (s', rs)) (h : LockInv s) : LockInv s' := by
  unfold txnService at hr
  cases v <;> simp only [okRes] at hr <;> repeat' (split at hr)
  all_goals (try simp at hr)
  all_goals (try (obtain ⟨rfl, -⟩ := hr))
  all_goals (first
    | exact h
    | exact lockInv_ensureService (by assumption) h
    | exact lockInv_ensureServiceCas (by assumption) h
    | exact lockInv_deleteService (by assumption) h
    | exact lockInv_deleteServiceCas (by assumption) h)

theorem lockInv_txnCheck {s s' : State} {idx : Nat} {v : CatVerb} {c : Chk} {rs : List TxnRes}
    (hr : txnCheck s idx v c = .ok (s', rs)) (h : LockInv s) : LockInv s' := by
  unfold txnCheck at hr
  cases v <;> simp only [okRes] at hr <;> repeat' (split at hr)
  all_goals (try simp at hr)
  all_goals (try (obtain ⟨rfl, -⟩ := hr))
  all_goals (first
    | exact h
    | exact lockInv_ensureCheck (by assumption) h
    | exact lockInv_ensureCheckCas (by assumption) h
    | exact lockInv_deleteCheck (by assumption) h
    | exact lockInv_deleteCheckCas (by assumption) h)

theorem lockInv_txnStep {s s' : State} {idx : Nat} {op : TxnOp} {rs : List TxnRes}
    (hr : txnStep s idx op = .ok (s', rs)) (h : LockInv s) : LockInv s' := by
  cases op with
  | kv v e => exact lockInv_txnKV hr h
  | node v n => exact lockInv_txnNode hr h
  | service v x => exact lockInv_txnService hr h
  | check v c => exact lockInv_txnCheck hr h
  | sessionDelete id =>
    simp only [txnStep, okRes] at hr
    split at hr
    · simp at hr; exact hr.1 ▸ lockInv_deleteSession (by assumption) h
    · simp at hr

theorem lockInv_txnLoop {idx : Nat} (ops : List TxnOp) (i : Nat) (s : State) (rs : List TxnRes) (es : List (Nat × Err))
    (h : LockInv s) : LockInv (txnLoop idx ops i s rs es).1 := by
  induction ops generalizing i s rs es with
  | nil => exact h
  | cons op ops ih =>
    simp only [txnLoop]
    split
    · next s' r hstep => exact ih _ _ _ _ (lockInv_txnStep hstep h)
    · exact ih _ _ _ _ h

theorem lockInv_txnRW {s : State} {idx : Nat} {ops : List TxnOp} (h : LockInv s) : LockInv (txnRW s idx ops).1 := by
  unfold txnRW
  have := lockInv_txnLoop (idx := idx) ops 0 s [] [] h
  generalize txnLoop idx ops 0 s [] [] = r at this
  obtain ⟨s', rs, es⟩ := r
  simp only
  split
  · exact this
  · exact h

theorem lockInv_liftS {s : State} {r : Except Err State} (h : LockInv s) (hr : ∀ s', r = .ok s' → LockInv s') :
    LockInv (liftS s r).1 := by
  cases r with
  | ok s' => exact hr s' rfl
  | error e => exact h

theorem lockInv_liftB {s : State} {r : Except Err (State × Bool)} (h : LockInv s)
    (hr : ∀ s' b, r = .ok (s', b) → LockInv s') : LockInv (liftB s r).1 := by
  cases r with
  | ok p => obtain ⟨s', b⟩ := p
            simp only [liftB]
            split
            · exact hr s' b rfl
            · exact h
  | error e => exact h

/-- one committed command preserves the lock invariant -/
theorem lockInv_apply {s : State} (idx : Nat) (c : Cmd) (h : LockInv s) : LockInv (apply s idx c).1 := by
  cases c with
  | kvSet e =>
    apply lockInv_liftS h
    intro s' hr
    cases hq : kvSetTxn s idx e false with
    | error x => simp [hq, Except.map] at hr
    | ok p => obtain ⟨s1, w⟩ := p
              simp [hq, Except.map] at hr
              exact hr ▸ lockInv_kvSetTxn hq h (by simp)
  | kvCas e =>
    apply lockInv_liftB h
    intro s' b hr
    cases hq : kvSetCasTxn s idx e with
    | error x => simp [hq, Except.map] at hr
    | ok p => obtain ⟨s1, b1, w⟩ := p
              simp [hq, Except.map] at hr
              exact hr.1 ▸ lockInv_kvSetCasTxn hq h
  | kvDelete k => exact lockInv_liftS h (fun s' hr => lockInv_kvDeleteTxn hr h)
  | kvDeleteCas k c => exact lockInv_liftB h (fun s' b hr => lockInv_kvDeleteCasTxn hr h)
  | kvDeleteTree p => exact lockInv_kvDeleteTreeTxn h
  | kvLock e =>
    apply lockInv_liftB h
    intro s' b hr
    cases hq : kvLockTxn s idx e with
    | error x => simp [hq, Except.map] at hr
    | ok p => obtain ⟨s1, b1, w⟩ := p
              simp [hq, Except.map] at hr
              exact hr.1 ▸ lockInv_kvLockTxn hq h
  | kvUnlock e =>
    apply lockInv_liftB h
    intro s' b hr
    cases hq : kvUnlockTxn s idx e with
    | error x => simp [hq, Except.map] at hr
    | ok p => obtain ⟨s1, b1, w⟩ := p
              simp [hq, Except.map] at hr
              exact hr.1 ▸ lockInv_kvUnlockTxn hq h
  | sessionCreate r => exact lockInv_liftS h (fun s' hr => lockInv_sessionCreate hr h)
  | sessionDestroy id => exact lockInv_liftS h (fun s' hr => lockInv_deleteSession hr h)
  | register r => exact lockInv_liftS h (fun s' hr => lockInv_ensureRegistration hr h)
  | deregister node svcId chkId =>
    simp only [apply]
    split
    · exact lockInv_liftS h (fun s' hr => lockInv_deleteService hr h)
    · split
      · exact lockInv_liftS h (fun s' hr => lockInv_deleteCheck hr h)
      · exact lockInv_liftS h (fun s' hr => lockInv_deleteNode hr h)
  | reap u => exact lockInv_reapTxn h
  | pqSet id sess => exact lockInv_liftS h (fun s' hr => lockInv_pqSet hr h)
  | pqDelete id => exact lockInv_pqDelete h
  | txn ops =>
    simp only [apply]
    have := lockInv_txnRW (idx := idx) (ops := ops) h
    generalize txnRW s idx ops = r at this
    obtain ⟨s', rs, es⟩ := r
    exact this

theorem lockInv_replay (s : State) (log : Log) (h : LockInv s) : LockInv (replay s log) := by
  unfold replay
  induction log generalizing s with
  | nil => exact h
  | cons ic rest ih => exact ih _ (lockInv_apply ic.1 ic.2 h)

end CV.Store
