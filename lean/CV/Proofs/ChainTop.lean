/-
Helper lemmas for C15: what a successful `compile` went through.
-/
import CV.Proofs.ChainAsm
set_option linter.unusedVariables false
namespace CV.Chain

/-- the stages of a successful compilation -/
structure Stages (order : List (String × Node) → List String) (es : Entries) (cx : Ctx) (g : Chain)
    (st : St) (nodes1 : List (String × Node)) (vis : List String) : Prop where
  asm    : assemble es cx = .ok (st, g.start)
  dfs    : dfsNode st.nodes [] g.start = .ok ()
  flat   : flattenLoop (st.nodes.length + 1) (order st.nodes) st.nodes = some nodes1
  rch    : reach nodes1 [g.start] [] = .ok vis
  nodes  : g.nodes = nodes1.filter fun kv => vis.contains kv.1
  tgts   : g.targets = st.loaded.filter fun kv => st.retained.contains kv.1
  adv    : (!httpLike st.proto && st.adv) = false

theorem compileWith_stages (order : List (String × Node) → List String) (es : Entries) (cx : Ctx) (g : Chain)
    (h : compileWith order es cx = .ok g) : ∃ st nodes1 vis, Stages order es cx g st nodes1 vis := by
  unfold compileWith at h
  split at h
  · cases h
  · split at h
    · cases h
    · rename_i st start ha
      unfold finishCompile at h
      split at h
      · cases h
      · rename_i u hd
        cases u
        split at h
        · cases h
        · rename_i nodes1 hf
          split at h
          · cases h
          · rename_i vis hr
            simp only at h
            split at h
            · cases h
            · rename_i hadv
              split at h
              · cases h
              · rename_i d hdef
                cases h
                exact ⟨st, nodes1, vis, ha, hd, hf, hr, rfl, rfl, by simpa using hadv⟩

/-- `b` is reachable from `a` in at least one step -/
def Reach1 (nodes : List (String × Node)) (a b : String) : Prop := ∃ c, Edge nodes a c ∧ Reach nodes c b

theorem good_reach (nodes : List (String × Node)) (a b : String) (hg : Good nodes a) (hr : Reach nodes a b) :
    Good nodes b ∧ rankOf nodes b ≤ rankOf nodes a := by
  induction hr with
  | refl => exact ⟨hg, Nat.le_refl _⟩
  | step _ he ih =>
    obtain ⟨n, hn, hm⟩ := he
    obtain ⟨g2, r2⟩ := good_edge nodes _ n ih.1 hn _ hm
    exact ⟨g2, by omega⟩

/-- a clean detector run excludes every cycle reachable from the start node -/
theorem good_no_cycle (nodes : List (String × Node)) (start k : String) (hg : Good nodes start)
    (hr : Reach nodes start k) (hc : Reach1 nodes k k) : False := by
  obtain ⟨gk, _⟩ := good_reach nodes start k hg hr
  obtain ⟨c, ⟨n, hn, hm⟩, hck⟩ := hc
  obtain ⟨gc, rc⟩ := good_edge nodes k n gk hn c hm
  have := (good_reach nodes c k gc hck).2
  omega

theorem compileWith_error_of_dfs (order : List (String × Node) → List String) (es : Entries) (cx : Ctx)
    (st : St) (start : String) (ha : assemble es cx = .ok (st, start)) (hd : dfsNode st.nodes [] start ≠ .ok ()) :
    ∃ e, compileWith order es cx = .error e := by
  unfold compileWith
  split
  · exact ⟨_, rfl⟩
  · rw [ha]
    simp only
    unfold finishCompile
    split
    · exact ⟨_, rfl⟩
    · rename_i u h
      cases u
      exact absurd h hd

section
variable {order : List (String × Node) → List String} {es : Entries} {cx : Ctx} {g : Chain}
  {st : St} {nodes1 : List (String × Node)} {vis : List String}

/-- node lookups in the result are lookups in the flattened table, restricted to reachable keys -/
theorem Stages.look (s : Stages order es cx g st nodes1 vis) (k : String) (n : Node) :
    alook k g.nodes = some n ↔ (k ∈ vis ∧ alook k nodes1 = some n) := by
  rw [s.nodes]
  constructor
  · intro h
    have hk := akeys_filter_key (fun k => vis.contains k) nodes1 k (alook_key_mem h)
    have hv : k ∈ vis := by simpa using hk.1
    exact ⟨hv, by rw [← alook_filter_key (fun k => vis.contains k) k nodes1 (by simpa using hv)]; exact h⟩
  · intro ⟨hv, h⟩
    rw [alook_filter_key (fun k => vis.contains k) k nodes1 (by simpa using hv)]; exact h

theorem Stages.vis_spec (s : Stages order es cx g st nodes1 vis) :
    g.start ∈ vis ∧ ∀ k ∈ vis, ∃ n, alook k nodes1 = some n ∧ ∀ m ∈ n.next, m ∈ vis := by
  obtain ⟨_, h2, h3⟩ := reach_spec nodes1 [g.start] [] vis s.rch
  refine ⟨h2 _ List.mem_cons_self, ?_⟩
  intro k hk
  rcases h3 k hk with h | h
  · cases h
  · exact h

theorem Stages.flatInv (s : Stages order es cx g st nodes1 vis) : FlatInv st.nodes nodes1 :=
  flattenLoop_inv _ _ _ _ s.flat

theorem Stages.good (s : Stages order es cx g st nodes1 vis) : ∀ k ∈ vis, Good st.nodes k := by
  apply reach_pres (Good st.nodes) nodes1 [g.start] [] vis _ (fun k h => nomatch h) _ s.rch
  · intro k n hg hn m hm
    exact (s.flatInv.rank k n hn hg m hm).1
  · intro k hk
    rcases List.mem_cons.mp hk with rfl | h
    · exact s.dfs
    · cases h

/-- closed: the start node and every `NextNode` exist -/
theorem Stages.closed_nodes (s : Stages order es cx g st nodes1 vis) :
    g.start ∈ akeys g.nodes ∧ ∀ k n, alook k g.nodes = some n → ∀ m ∈ n.next, m ∈ akeys g.nodes := by
  obtain ⟨hs, hv⟩ := s.vis_spec
  have key : ∀ k ∈ vis, k ∈ akeys g.nodes := by
    intro k hk
    obtain ⟨n, hn, _⟩ := hv k hk
    exact alook_key_mem ((s.look k n).mpr ⟨hk, hn⟩)
  refine ⟨key _ hs, ?_⟩
  intro k n h m hm
  obtain ⟨hk, hn⟩ := (s.look k n).mp h
  obtain ⟨n', hn', hnext⟩ := hv k hk
  rw [hn] at hn'; cases hn'
  exact key m (hnext m hm)

/-- closed: every resolver's target and failover targets are among the retained targets -/
theorem Stages.closed_targets (s : Stages order es cx g st nodes1 vis)
    (k : String) (d : Bool) (ct rt : Nat) (tgt : String) (fo : List String) (lb : Option String)
    (h : alook k g.nodes = some (.resolver d ct rt tgt fo lb)) :
    tgt ∈ akeys g.targets ∧ ∀ f ∈ fo, f ∈ akeys g.targets := by
  obtain ⟨_, hn⟩ := (s.look k _).mp h
  have h0 := s.flatInv.same k _ hn rfl
  have hi := assemble_spec es cx st g.start s.asm
  obtain ⟨h1, h2⟩ := hi.node_tgt k d ct rt tgt fo lb (alook_mem h0)
  have key : ∀ id ∈ st.retained, id ∈ akeys g.targets := by
    intro id hid
    obtain ⟨v, hv⟩ := alook_some_of_mem_keys (hi.ret_loaded id hid)
    rw [s.tgts]
    apply alook_key_mem (v := v)
    rw [alook_filter_key (fun k => st.retained.contains k) id st.loaded (by simpa using hid)]
    exact hv
  exact ⟨key _ h1, fun f hf => key f (h2 f hf)⟩

/-- acyclic: one rank function decreases along every edge of the result -/
theorem Stages.ranked (s : Stages order es cx g st nodes1 vis) :
    ∀ k n, alook k g.nodes = some n → ∀ m ∈ n.next, rankOf st.nodes m < rankOf st.nodes k := by
  intro k n h m hm
  obtain ⟨hk, hn⟩ := (s.look k n).mp h
  exact (s.flatInv.rank k n hn (s.good k hk) m hm).2

/-- dead ends are resolvers (given that no splitter entry is empty) -/
theorem Stages.terminal (s : Stages order es cx g st nodes1 vis) (hes : SplitsNE es)
    (k : String) (n : Node) (h : alook k g.nodes = some n) (hnext : n.next = []) :
    ∃ d ct rt tgt fo lb, n = .resolver d ct rt tgt fo lb := by
  obtain ⟨_, hn⟩ := (s.look k n).mp h
  have hi := assemble_spec es cx st g.start s.asm
  cases n with
  | resolver d ct rt tgt fo lb => exact ⟨d, ct, rt, tgt, fo, lb, rfl⟩
  | router rs =>
    have h0 := s.flatInv.same k _ hn rfl
    have := hi.node_rt k rs (alook_mem h0)
    simp only [Node.next, List.map_eq_nil_iff] at hnext
    exact absurd hnext this
  | splitter ss lb =>
    have ne0 : NE st.nodes := fun k ss lb h => hi.node_ne hes k ss lb (alook_mem h)
    have := s.flatInv.ne ne0 k ss lb hn
    simp only [Node.next, List.map_eq_nil_iff] at hnext
    exact absurd hnext this

/-- flattened: when the visiting order covers every key, no splitter of the result points at a splitter -/
theorem Stages.flattened (s : Stages order es cx g st nodes1 vis) (hord : ∀ k ∈ akeys st.nodes, k ∈ order st.nodes)
    (k : String) (ss : List CSplit) (lb : Option String) (h : alook k g.nodes = some (.splitter ss lb)) :
    ∀ x ∈ ss, ∀ n, alook x.next g.nodes = some n → n.isSplitter = false := by
  obtain ⟨_, hn⟩ := (s.look k _).mp h
  have hk : k ∈ order st.nodes := by
    apply hord
    rw [← s.flatInv.keys]
    exact alook_key_mem hn
  intro x hx n hxn
  exact flattenLoop_flat _ _ _ _ s.flat k hk ss lb hn x hx n ((s.look _ n).mp hxn).2

/-- nothing unused: every node of the result is reachable from the start node within the result -/
theorem Stages.reachable (s : Stages order es cx g st nodes1 vis) :
    ∀ k ∈ akeys g.nodes, Reach g.nodes g.start k := by
  have hv := s.vis_spec
  have hr : ∀ k ∈ vis, k ∈ vis ∧ Reach g.nodes g.start k := by
    apply reach_pres (fun k => k ∈ vis ∧ Reach g.nodes g.start k) nodes1 [g.start] [] vis _ (fun k h => nomatch h) _ s.rch
    · intro k n ⟨hk, hr⟩ hn m hm
      obtain ⟨n', hn', hnext⟩ := hv.2 k hk
      rw [hn] at hn'; cases hn'
      exact ⟨hnext m hm, Reach.step hr ⟨n, (s.look k n).mpr ⟨hk, hn⟩, hm⟩⟩
    · intro k hk
      rcases List.mem_cons.mp hk with rfl | h
      · exact ⟨hv.1, Reach.refl _⟩
      · cases h
  intro k hk
  obtain ⟨n, hn⟩ := alook_some_of_mem_keys hk
  exact (hr k ((s.look k n).mp hn).1).2
end

end CV.Chain
