/-
`NoOrphan` through the commands of the shared store model that the C07 wrapper passes straight to the
base `apply` / `txnStep`: KV verbs, sessions, prepared queries, tombstone reaping, and the check / session
verbs of a transaction.
-/
import CV.Proofs.StoreCatInv
namespace CV.Store
open CV

theorem catView_kvInsert (s : State) (e : KV) : catView (kvInsert s e) = catView s := rfl
theorem catView_tombInsert (s : State) (k : Key) (i : Nat) : catView (tombInsert s k i) = catView s := rfl

theorem catView_kvSetTxn {s s' : State} {idx : Nat} {e w : KV} {u : Bool}
    (h : kvSetTxn s idx e u = .ok (s', w)) : catView s' = catView s := by
  simp only [kvSetTxn] at h
  repeat' (split at h)
  all_goals (try simp at h)
  all_goals (obtain ⟨rfl, -⟩ := h)
  all_goals rfl

theorem catView_kvDeleteTxn {s s' : State} {idx : Nat} {k : Key}
    (h : kvDeleteTxn s idx k = .ok s') : catView s' = catView s := by
  simp only [kvDeleteTxn] at h
  repeat' (split at h)
  all_goals (try simp at h)
  all_goals (subst h)
  all_goals rfl

theorem catView_kvDeleteCasTxn {s s' : State} {idx c : Nat} {k : Key} {b : Bool}
    (h : kvDeleteCasTxn s idx c k = .ok (s', b)) : catView s' = catView s := by
  simp only [kvDeleteCasTxn] at h
  repeat' (split at h)
  all_goals (try simp at h)
  all_goals (try (obtain ⟨rfl, -⟩ := h))
  all_goals (first | rfl | (next hd => exact catView_kvDeleteTxn hd) | skip)

theorem catView_kvDeleteTreeTxn (s : State) (idx : Nat) (p : Key) : catView (kvDeleteTreeTxn s idx p) = catView s := by
  unfold kvDeleteTreeTxn
  split
  · simp only
    split <;> rfl
  · rfl

theorem catView_kvSetCasTxn {s s' : State} {idx : Nat} {e w : KV} {b : Bool}
    (h : kvSetCasTxn s idx e = .ok (s', b, w)) : catView s' = catView s := by
  simp only [kvSetCasTxn] at h
  repeat' (split at h)
  all_goals (try simp at h)
  all_goals (try (obtain ⟨rfl, -⟩ := h))
  all_goals (first | rfl | (next hd => exact catView_kvSetTxn hd) | skip)

theorem catView_kvLockTxn {s s' : State} {idx : Nat} {e w : KV} {b : Bool}
    (h : kvLockTxn s idx e = .ok (s', b, w)) : catView s' = catView s := by
  simp only [kvLockTxn] at h
  repeat' (split at h)
  all_goals (try simp at h)
  all_goals (try (obtain ⟨rfl, -⟩ := h))
  all_goals (first | rfl | (next hd => exact catView_kvSetTxn hd) | skip)

theorem catView_kvUnlockTxn {s s' : State} {idx : Nat} {e w : KV} {b : Bool}
    (h : kvUnlockTxn s idx e = .ok (s', b, w)) : catView s' = catView s := by
  simp only [kvUnlockTxn] at h
  repeat' (split at h)
  all_goals (try simp at h)
  all_goals (try (obtain ⟨rfl, -⟩ := h))
  all_goals (first | rfl | (next hd => exact catView_kvSetTxn hd) | skip)

theorem catView_reapTxn (s : State) (u : Nat) : catView (reapTxn s u) = catView s := rfl

theorem catView_pqSet {s s' : State} {idx : Nat} {id sess : String}
    (h : pqSet s idx id sess = .ok s') : catView s' = catView s := by
  simp only [pqSet] at h
  repeat' (split at h)
  all_goals (try simp at h)
  all_goals (subst h)
  all_goals rfl

theorem catView_pqDelete (s : State) (idx : Nat) (id : String) : catView (pqDelete s idx id) = catView s := by
  unfold pqDelete
  split <;> rfl

/-! ### sessions -/

theorem noOrphan_updateSessionCheck {s s' : State} {idx : Nat} {x : Sess} {st : String}
    (hr : updateSessionCheck s idx x st = .ok s') (hs : NoOrphan s) : NoOrphan s' := by
  unfold updateSessionCheck at hr
  have hnf : ∀ c ∈ sessionTypedChecks s x, NF c.node := fun c hc => hs.nf_chk c (mem_sessionTypedChecks hc)
  refine foldE_ind_mem NoOrphan _ _ _ _ ?_ hs hr
  intro a c a' hc ha hstep
  exact noOrphan_ensureCheck hstep (hnf c hc) ha

theorem noOrphan_sessionCreate {s s' : State} {idx : Nat} {r : SessReq}
    (hr : sessionCreate s idx r = .ok s') (hs : NoOrphan s) : NoOrphan s' := by
  simp only [sessionCreate] at hr
  repeat' (split at hr)
  all_goals (try simp at hr)
  all_goals (refine noOrphan_updateSessionCheck hr ?_)
  all_goals (
    next hnode _ _ =>
    refine ⟨hs.svc_node, hs.chk_node, hs.chk_svc, ?_, hs.nf_svc, hs.nf_chk, hs.nf_node, hs.srt_nodes, hs.srt_svcs⟩
    intro y hy
    have hy' : y ∈ tupsert Sess.pk strLt _ s.sessions := hy
    rcases mem_tupsert hy' with rfl | hy'
    · show (nodeFind s r.node).isSome = true
      rw [hnode]; rfl
    · exact hs.sess_node y hy')

/-- the commands the wrapper hands to the base `apply` unchanged -/
def Cmd.isPlain : Cmd → Bool
  | .register _ => false
  | .deregister _ _ _ => false
  | .txn _ => false
  | _ => true

theorem liftS_fst_cases (s : State) (r : Except Err State) :
    (liftS s r).1 = s ∨ ∃ s', r = .ok s' ∧ (liftS s r).1 = s' := by
  cases r with
  | ok s' => exact Or.inr ⟨s', rfl, rfl⟩
  | error e => exact Or.inl rfl

theorem noOrphan_apply_plain {s : State} (idx : Nat) (c : Cmd) (hc : c.isPlain = true) (hs : NoOrphan s) :
    NoOrphan (apply s idx c).1 := by
  cases c with
  | register r => simp [Cmd.isPlain] at hc
  | deregister a b d => simp [Cmd.isPlain] at hc
  | txn ops => simp [Cmd.isPlain] at hc
  | kvSet e =>
    simp only [apply]
    cases h : kvSetTxn s idx e false with
    | error er => simpa [liftS, Except.map] using hs
    | ok p => exact NoOrphan.of_view (by simpa [liftS, Except.map] using catView_kvSetTxn (w := p.2) (s' := p.1) h) hs
  | kvCas e =>
    simp only [apply]
    cases h : kvSetCasTxn s idx e with
    | error er => simpa [liftB, Except.map] using hs
    | ok p =>
      obtain ⟨s', b, w⟩ := p
      cases b with
      | false => simpa [liftB, Except.map] using hs
      | true => exact NoOrphan.of_view (by simpa [liftB, Except.map] using catView_kvSetCasTxn h) hs
  | kvDelete k =>
    simp only [apply]
    cases h : kvDeleteTxn s idx k with
    | error er => simpa [liftS] using hs
    | ok s' => exact NoOrphan.of_view (by simpa [liftS] using catView_kvDeleteTxn h) hs
  | kvDeleteCas k ci =>
    simp only [apply]
    cases h : kvDeleteCasTxn s idx ci k with
    | error er => simpa [liftB] using hs
    | ok p =>
      obtain ⟨s', b⟩ := p
      cases b with
      | false => simpa [liftB] using hs
      | true => exact NoOrphan.of_view (by simpa [liftB] using catView_kvDeleteCasTxn h) hs
  | kvDeleteTree p => exact NoOrphan.of_view (catView_kvDeleteTreeTxn s idx p) hs
  | kvLock e =>
    simp only [apply]
    cases h : kvLockTxn s idx e with
    | error er => simpa [liftB, Except.map] using hs
    | ok p =>
      obtain ⟨s', b, w⟩ := p
      cases b with
      | false => simpa [liftB, Except.map] using hs
      | true => exact NoOrphan.of_view (by simpa [liftB, Except.map] using catView_kvLockTxn h) hs
  | kvUnlock e =>
    simp only [apply]
    cases h : kvUnlockTxn s idx e with
    | error er => simpa [liftB, Except.map] using hs
    | ok p =>
      obtain ⟨s', b, w⟩ := p
      cases b with
      | false => simpa [liftB, Except.map] using hs
      | true => exact NoOrphan.of_view (by simpa [liftB, Except.map] using catView_kvUnlockTxn h) hs
  | sessionCreate r =>
    simp only [apply]
    cases h : sessionCreate s idx r with
    | error er => simpa [liftS] using hs
    | ok s' => simpa [liftS] using noOrphan_sessionCreate h hs
  | sessionDestroy id =>
    simp only [apply]
    cases h : deleteSession s idx id with
    | error er => simpa [liftS] using hs
    | ok s' => simpa [liftS] using noOrphan_deleteSession h hs
  | reap u => exact NoOrphan.of_view (catView_reapTxn s u) hs
  | pqSet id sess =>
    simp only [apply]
    cases h : pqSet s idx id sess with
    | error er => simpa [liftS] using hs
    | ok s' => exact NoOrphan.of_view (by simpa [liftS] using catView_pqSet h) hs
  | pqDelete id => exact NoOrphan.of_view (catView_pqDelete s idx id) hs


theorem nodes_updateSessionCheck {s s' : State} {idx : Nat} {x : Sess} {st : String}
    (hr : updateSessionCheck s idx x st = .ok s') : s'.nodes = s.nodes := by
  unfold updateSessionCheck at hr
  exact foldE_rel (fun a b => b.nodes = a.nodes) (fun _ => rfl) (fun a b c h1 h2 => h2.trans h1) _
    (fun a c a' h => (ensSpec_ensureCheck h).nodes) _ _ _ hr

theorem nodes_sessionCreate {s s' : State} {idx : Nat} {r : SessReq}
    (hr : sessionCreate s idx r = .ok s') : s'.nodes = s.nodes := by
  simp only [sessionCreate] at hr
  repeat' (split at hr)
  all_goals (try simp at hr)
  all_goals (exact (nodes_updateSessionCheck hr).trans rfl)

theorem nodes_apply_plain {s : State} (idx : Nat) (c : Cmd) (hc : c.isPlain = true) : (apply s idx c).1.nodes = s.nodes := by
  cases c with
  | register r => simp [Cmd.isPlain] at hc
  | deregister a b d => simp [Cmd.isPlain] at hc
  | txn ops => simp [Cmd.isPlain] at hc
  | kvSet e =>
    simp only [apply]
    cases h : kvSetTxn s idx e false with
    | error er => simp [liftS, Except.map]
    | ok p => simpa [liftS, Except.map] using catView_nodes (catView_kvSetTxn (w := p.2) (s' := p.1) h)
  | kvCas e =>
    simp only [apply]
    cases h : kvSetCasTxn s idx e with
    | error er => simp [liftB, Except.map]
    | ok p =>
      obtain ⟨s', b, w⟩ := p
      cases b with
      | false => simp [liftB, Except.map]
      | true => simpa [liftB, Except.map] using catView_nodes (catView_kvSetCasTxn h)
  | kvDelete k =>
    simp only [apply]
    cases h : kvDeleteTxn s idx k with
    | error er => simp [liftS]
    | ok s' => simpa [liftS] using catView_nodes (catView_kvDeleteTxn h)
  | kvDeleteCas k ci =>
    simp only [apply]
    cases h : kvDeleteCasTxn s idx ci k with
    | error er => simp [liftB]
    | ok p =>
      obtain ⟨s', b⟩ := p
      cases b with
      | false => simp [liftB]
      | true => simpa [liftB] using catView_nodes (catView_kvDeleteCasTxn h)
  | kvDeleteTree p => exact catView_nodes (catView_kvDeleteTreeTxn s idx p)
  | kvLock e =>
    simp only [apply]
    cases h : kvLockTxn s idx e with
    | error er => simp [liftB, Except.map]
    | ok p =>
      obtain ⟨s', b, w⟩ := p
      cases b with
      | false => simp [liftB, Except.map]
      | true => simpa [liftB, Except.map] using catView_nodes (catView_kvLockTxn h)
  | kvUnlock e =>
    simp only [apply]
    cases h : kvUnlockTxn s idx e with
    | error er => simp [liftB, Except.map]
    | ok p =>
      obtain ⟨s', b, w⟩ := p
      cases b with
      | false => simp [liftB, Except.map]
      | true => simpa [liftB, Except.map] using catView_nodes (catView_kvUnlockTxn h)
  | sessionCreate r =>
    simp only [apply]
    cases h : sessionCreate s idx r with
    | error er => simp [liftS]
    | ok s' => simpa [liftS] using nodes_sessionCreate h
  | sessionDestroy id =>
    simp only [apply]
    cases h : deleteSession s idx id with
    | error er => simp [liftS]
    | ok s' => simpa [liftS] using (casRel_deleteSession h).nodes
  | reap u => rfl
  | pqSet id sess =>
    simp only [apply]
    cases h : pqSet s idx id sess with
    | error er => simp [liftS]
    | ok s' => simpa [liftS] using catView_nodes (catView_pqSet h)
  | pqDelete id => exact catView_nodes (catView_pqDelete s idx id)


theorem svcs_updateSessionCheck {s s' : State} {idx : Nat} {x : Sess} {st : String}
    (hr : updateSessionCheck s idx x st = .ok s') : s'.svcs = s.svcs := by
  unfold updateSessionCheck at hr
  exact foldE_rel (fun a b => b.svcs = a.svcs) (fun _ => rfl) (fun a b c h1 h2 => h2.trans h1) _
    (fun a c a' h => (ensSpec_ensureCheck h).svcs) _ _ _ hr

theorem svcs_sessionCreate {s s' : State} {idx : Nat} {r : SessReq}
    (hr : sessionCreate s idx r = .ok s') : s'.svcs = s.svcs := by
  simp only [sessionCreate] at hr
  repeat' (split at hr)
  all_goals (try simp at hr)
  all_goals (exact (svcs_updateSessionCheck hr).trans rfl)

theorem svcs_apply_plain {s : State} (idx : Nat) (c : Cmd) (hc : c.isPlain = true) : (apply s idx c).1.svcs = s.svcs := by
  cases c with
  | register r => simp [Cmd.isPlain] at hc
  | deregister a b d => simp [Cmd.isPlain] at hc
  | txn ops => simp [Cmd.isPlain] at hc
  | kvSet e =>
    simp only [apply]
    cases h : kvSetTxn s idx e false with
    | error er => simp [liftS, Except.map]
    | ok p => simpa [liftS, Except.map] using catView_svcs (catView_kvSetTxn (w := p.2) (s' := p.1) h)
  | kvCas e =>
    simp only [apply]
    cases h : kvSetCasTxn s idx e with
    | error er => simp [liftB, Except.map]
    | ok p =>
      obtain ⟨s', b, w⟩ := p
      cases b with
      | false => simp [liftB, Except.map]
      | true => simpa [liftB, Except.map] using catView_svcs (catView_kvSetCasTxn h)
  | kvDelete k =>
    simp only [apply]
    cases h : kvDeleteTxn s idx k with
    | error er => simp [liftS]
    | ok s' => simpa [liftS] using catView_svcs (catView_kvDeleteTxn h)
  | kvDeleteCas k ci =>
    simp only [apply]
    cases h : kvDeleteCasTxn s idx ci k with
    | error er => simp [liftB]
    | ok p =>
      obtain ⟨s', b⟩ := p
      cases b with
      | false => simp [liftB]
      | true => simpa [liftB] using catView_svcs (catView_kvDeleteCasTxn h)
  | kvDeleteTree p => exact catView_svcs (catView_kvDeleteTreeTxn s idx p)
  | kvLock e =>
    simp only [apply]
    cases h : kvLockTxn s idx e with
    | error er => simp [liftB, Except.map]
    | ok p =>
      obtain ⟨s', b, w⟩ := p
      cases b with
      | false => simp [liftB, Except.map]
      | true => simpa [liftB, Except.map] using catView_svcs (catView_kvLockTxn h)
  | kvUnlock e =>
    simp only [apply]
    cases h : kvUnlockTxn s idx e with
    | error er => simp [liftB, Except.map]
    | ok p =>
      obtain ⟨s', b, w⟩ := p
      cases b with
      | false => simp [liftB, Except.map]
      | true => simpa [liftB, Except.map] using catView_svcs (catView_kvUnlockTxn h)
  | sessionCreate r =>
    simp only [apply]
    cases h : sessionCreate s idx r with
    | error er => simp [liftS]
    | ok s' => simpa [liftS] using svcs_sessionCreate h
  | sessionDestroy id =>
    simp only [apply]
    cases h : deleteSession s idx id with
    | error er => simp [liftS]
    | ok s' => simpa [liftS] using (casRel_deleteSession h).svcs
  | reap u => rfl
  | pqSet id sess =>
    simp only [apply]
    cases h : pqSet s idx id sess with
    | error er => simp [liftS]
    | ok s' => simpa [liftS] using catView_svcs (catView_pqSet h)
  | pqDelete id => exact catView_svcs (catView_pqDelete s idx id)


end CV.Store
