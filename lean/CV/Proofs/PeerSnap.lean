/-
Helper lemmas for C17: the normalised snapshot built by `newHealthSnapshot` (`mkSnap`).
-/
import CV.Proofs.PeerView
set_option linter.unusedSectionVars false
set_option linter.unusedSimpArgs false
namespace CV.Peer

/-- Go map keys are unique: node names in the snapshot, service ids per node -/
structure SnapWF (snap : Snap) : Prop where
  names : snap.Pairwise (fun a b => a.node.name ≠ b.node.name)
  sids : ∀ nd ∈ snap, nd.svcs.Pairwise (fun a b => a.svc.sid ≠ b.svc.sid)

theorem pairwise_append_singleton {α : Type} {R : α → α → Prop} {l : List α} {a : α}
    (h : l.Pairwise R) (ha : ∀ x ∈ l, R x a) : (l ++ [a]).Pairwise R := by
  rw [List.pairwise_append]
  exact ⟨h, List.pairwise_singleton R a, fun x hx y hy => by simp at hy; subst hy; exact ha x hx⟩

theorem pairwise_map_key {α κ : Type} (key : α → κ) (f : α → α) (l : List α) (hk : ∀ a, key (f a) = key a)
    (h : l.Pairwise (fun a b => key a ≠ key b)) : (l.map f).Pairwise (fun a b => key a ≠ key b) := by
  rw [List.pairwise_map]
  exact h.imp (fun hab => by rwa [hk, hk])

theorem addSvc_sids (ss : List SSvc) (s : SvcDef) (ks : List ChkDef)
    (h : ss.Pairwise (fun a b => a.svc.sid ≠ b.svc.sid)) : (addSvc ss s ks).Pairwise (fun a b => a.svc.sid ≠ b.svc.sid) := by
  unfold addSvc
  split
  · apply pairwise_map_key (fun e : SSvc => e.svc.sid) _ ss _ h
    intro a; split <;> rfl
  · rename_i hn
    simp only [List.any_eq_true, decide_eq_true_eq, not_exists, not_and] at hn
    exact pairwise_append_singleton h (fun x hx => hn x hx)

theorem mem_addSvc_sid (ss : List SSvc) (s : SvcDef) (ks : List ChkDef) (i : String) :
    (∃ e ∈ addSvc ss s ks, e.svc.sid = i) ↔ (∃ e ∈ ss, e.svc.sid = i) ∨ s.sid = i := by
  unfold addSvc
  split
  · rename_i h
    simp only [List.any_eq_true, decide_eq_true_eq] at h
    simp only [List.mem_map]
    constructor
    · rintro ⟨e, ⟨a, ha, rfl⟩, he⟩
      left; refine ⟨a, ha, ?_⟩
      split at he <;> exact he
    · rintro (⟨e, he, hi⟩ | hi)
      · refine ⟨_, ⟨e, he, rfl⟩, ?_⟩
        split <;> exact hi
      · obtain ⟨e, he, hs⟩ := h
        refine ⟨_, ⟨e, he, rfl⟩, ?_⟩
        split <;> simp_all
  · simp only [List.mem_append, List.mem_singleton]
    constructor
    · rintro ⟨e, he | he, hi⟩
      · exact Or.inl ⟨e, he, hi⟩
      · subst he; exact Or.inr hi
    · rintro (⟨e, he, hi⟩ | hi)
      · exact ⟨e, Or.inl he, hi⟩
      · exact ⟨_, Or.inr rfl, hi⟩

theorem addInst_wf (snap : Snap) (x : Inst) (h : SnapWF snap) : SnapWF (addInst snap x) := by
  unfold addInst
  split
  · constructor
    · apply pairwise_map_key (fun e : SNode => e.node.name) _ snap _ h.names
      intro a; split <;> rfl
    · intro nd hnd
      simp only [List.mem_map] at hnd
      obtain ⟨a, ha, rfl⟩ := hnd
      split
      · exact addSvc_sids _ _ _ (h.sids a ha)
      · exact h.sids a ha
  · rename_i hn
    simp only [List.any_eq_true, decide_eq_true_eq, not_exists, not_and] at hn
    constructor
    · exact pairwise_append_singleton h.names (fun y hy => hn y hy)
    · intro nd hnd
      simp only [List.mem_append, List.mem_singleton] at hnd
      rcases hnd with hnd | hnd
      · exact h.sids nd hnd
      · subst hnd; exact addSvc_sids [] _ _ List.Pairwise.nil

/-- the snapshot has an instance with this (node name, service id) -/
def hasKey (snap : Snap) (n i : String) : Prop := ∃ nd ∈ snap, nd.node.name = n ∧ ∃ ss ∈ nd.svcs, ss.svc.sid = i

theorem hasKey_addInst (snap : Snap) (x : Inst) (n i : String) :
    hasKey (addInst snap x) n i ↔ hasKey snap n i ∨ (x.node.name = n ∧ x.svc.sid = i) := by
  unfold addInst hasKey
  split
  · rename_i h
    simp only [List.any_eq_true, decide_eq_true_eq] at h
    simp only [List.mem_map]
    constructor
    · rintro ⟨nd, ⟨a, ha, rfl⟩, hn, hss⟩
      by_cases hx : a.node.name = x.node.name
      · simp only [hx, if_true] at hn hss
        rcases (mem_addSvc_sid a.svcs x.svc x.chks i).mp hss with h1 | h1
        · exact Or.inl ⟨a, ha, by rw [hx]; exact hn, h1⟩
        · exact Or.inr ⟨hn, h1⟩
      · simp only [hx, if_false] at hn hss
        exact Or.inl ⟨a, ha, hn, hss⟩
    · rintro (⟨a, ha, hn, hss⟩ | ⟨hn, hi⟩)
      · refine ⟨_, ⟨a, ha, rfl⟩, ?_, ?_⟩
        · split <;> exact hn
        · split
          · exact (mem_addSvc_sid _ _ _ _).mpr (Or.inl hss)
          · exact hss
      · obtain ⟨a, ha, hx⟩ := h
        refine ⟨_, ⟨a, ha, rfl⟩, ?_, ?_⟩
        · simp only [hx, if_true]; exact hn
        · simp only [hx, if_true]
          exact (mem_addSvc_sid _ _ _ _).mpr (Or.inr hi)
  · simp only [List.mem_append, List.mem_singleton]
    constructor
    · rintro ⟨nd, hnd | hnd, hn, hss⟩
      · exact Or.inl ⟨nd, hnd, hn, hss⟩
      · subst hnd
        rcases (mem_addSvc_sid [] x.svc x.chks i).mp hss with ⟨e, he, _⟩ | h1
        · cases he
        · exact Or.inr ⟨hn, h1⟩
    · rintro (⟨nd, hnd, hn, hss⟩ | ⟨hn, hi⟩)
      · exact ⟨nd, Or.inl hnd, hn, hss⟩
      · exact ⟨_, Or.inr rfl, hn, (mem_addSvc_sid [] x.svc x.chks i).mpr (Or.inr hi)⟩

theorem foldl_addInst (is : List Inst) (snap : Snap) (h : SnapWF snap) :
    SnapWF (is.foldl addInst snap) ∧
    ∀ n i, hasKey (is.foldl addInst snap) n i ↔ hasKey snap n i ∨ ∃ x ∈ is, x.node.name = n ∧ x.svc.sid = i := by
  induction is generalizing snap with
  | nil => simp [h]
  | cons x xs ih =>
    simp only [List.foldl_cons]
    obtain ⟨a, b⟩ := ih (addInst snap x) (addInst_wf snap x h)
    refine ⟨a, fun n i => ?_⟩
    rw [b, hasKey_addInst]
    simp only [List.mem_cons]
    grind

theorem snapInst_isSome_iff {snap : Snap} (h : SnapWF snap) (n i : String) :
    snapInst snap n i ≠ none ↔ hasKey snap n i := by
  unfold snapInst snapNode hasKey
  constructor
  · intro hs
    split at hs
    · exact absurd rfl hs
    · rename_i nd hnd
      have h1 := List.mem_of_find?_eq_some hnd
      have h2 := List.find?_some hnd
      simp only [decide_eq_true_eq] at h2
      cases hf : nd.svcs.find? (fun e => decide (e.svc.sid = i)) with
      | none => exact absurd hf hs
      | some ss =>
        have h3 := List.mem_of_find?_eq_some hf
        have h4 := List.find?_some hf
        simp only [decide_eq_true_eq] at h4
        exact ⟨nd, h1, h2, ss, h3, h4⟩
  · rintro ⟨nd, hnd, hn, ss, hss, hi⟩
    have : snap.find? (fun e => decide (e.node.name = n)) = some nd := by
      rw [List.find?_eq_some_iff_append]
      simp only [decide_eq_true_eq, hn, true_and]
      obtain ⟨l1, l2, rfl⟩ := List.append_of_mem hnd
      refine ⟨l1, l2, rfl, ?_⟩
      intro a ha
      have hp := h.names
      rw [List.pairwise_append] at hp
      have := hp.2.2 a ha nd (by simp)
      simp only [Bool.not_eq_true', decide_eq_false_iff_not]
      rw [← hn]; exact this
    simp only [this]
    intro hf
    have := List.find?_eq_none.mp hf ss hss
    simp [hi] at this

/-- `mkSnap` keeps exactly the (node, service id) keys of the received instances, each once. -/
theorem mkSnap_keys {is : List Inst} {snap : Snap} (h : mkSnap is = some snap) :
    SnapWF snap ∧ ∀ n i, snapInst snap n i ≠ none ↔ ∃ x ∈ is, x.node.name = n ∧ x.svc.sid = i := by
  unfold mkSnap at h
  split at h
  · cases h
    have wf0 : SnapWF ([] : Snap) := ⟨List.Pairwise.nil, by simp⟩
    obtain ⟨a, b⟩ := foldl_addInst is [] wf0
    refine ⟨a, fun n i => ?_⟩
    rw [snapInst_isSome_iff a, b]
    simp [hasKey]
  · cases h

theorem foldl_addChk (ks acc : List ChkDef) (h1 : ks.Pairwise (fun a b => a.cid ≠ b.cid))
    (h2 : ∀ a ∈ acc, ∀ k ∈ ks, a.cid ≠ k.cid) : ks.foldl addChk acc = acc ++ ks := by
  induction ks generalizing acc with
  | nil => simp
  | cons k ks ih =>
    simp only [List.foldl_cons]
    have hk : addChk acc k = acc ++ [k] := by
      unfold addChk
      split
      · rename_i h
        simp only [List.any_eq_true, decide_eq_true_eq] at h
        obtain ⟨a, ha, e⟩ := h
        exact absurd e (h2 a ha k (by simp))
      · rfl
    rw [hk, ih]
    · simp
    · exact (List.pairwise_cons.mp h1).2
    · intro a ha b hb
      simp only [List.mem_append, List.mem_singleton] at ha
      rcases ha with ha | rfl
      · exact h2 a ha b (by simp [hb])
      · exact (List.pairwise_cons.mp h1).1 b hb

/-- the snapshot holds exactly the instances of `done`, each as received -/
structure SnapIs (snap : Snap) (done : List Inst) : Prop where
  fwd : ∀ nd ∈ snap, ∀ ss ∈ nd.svcs, ∃ i ∈ done, nd.node = i.node ∧ ss.svc = i.svc ∧ ss.chks = i.chks
  bwd : ∀ i ∈ done, ∃ nd ∈ snap, nd.node = i.node ∧ ∃ ss ∈ nd.svcs, ss.svc = i.svc ∧ ss.chks = i.chks
  nonempty : ∀ nd ∈ snap, ∃ ss, ss ∈ nd.svcs

theorem addInst_is (snap : Snap) (done : List Inst) (x : Inst) (h : SnapIs snap done)
    (hc : x.chks.Pairwise (fun a b => a.cid ≠ b.cid))
    (hnode : ∀ i ∈ done, i.node.name = x.node.name → i.node = x.node)
    (hkey : ∀ i ∈ done, ¬(i.node.name = x.node.name ∧ i.svc.sid = x.svc.sid)) :
    SnapIs (addInst snap x) (done ++ [x]) := by
  have hfold : x.chks.foldl addChk [] = x.chks := by
    rw [foldl_addChk x.chks [] hc (by simp)]; simp
  have hadd : ∀ e ∈ snap, e.node.name = x.node.name → addSvc e.svcs x.svc x.chks = e.svcs ++ [⟨x.svc, x.chks⟩] := by
    intro e he hn
    unfold addSvc
    split
    · rename_i h1
      simp only [List.any_eq_true, decide_eq_true_eq] at h1
      obtain ⟨ss, hss, hs⟩ := h1
      obtain ⟨i, hi, e1, e2, _⟩ := h.fwd e he ss hss
      exact absurd ⟨by rw [← e1]; exact hn, by rw [← e2]; exact hs⟩ (hkey i hi)
    · rw [hfold]
  have hnew : addSvc [] x.svc x.chks = [⟨x.svc, x.chks⟩] := by
    simp [addSvc, hfold]
  unfold addInst
  split
  · rename_i hany
    simp only [List.any_eq_true, decide_eq_true_eq] at hany
    obtain ⟨e0, he0, hn0⟩ := hany
    have hnode0 : e0.node = x.node := by
      obtain ⟨ss, hss⟩ := h.nonempty e0 he0
      obtain ⟨i, hi, e1, _, _⟩ := h.fwd e0 he0 ss hss
      rw [e1]; exact hnode i hi (by rw [← e1]; exact hn0)
    refine ⟨?_, ?_, ?_⟩
    · intro nd hnd ss hss
      simp only [List.mem_map] at hnd
      obtain ⟨e, he, rfl⟩ := hnd
      by_cases hn : e.node.name = x.node.name
      · simp only [hn, if_true] at hss ⊢
        rw [hadd e he hn] at hss
        simp only [List.mem_append, List.mem_singleton] at hss
        rcases hss with hss | rfl
        · obtain ⟨i, hi, e1, e2, e3⟩ := h.fwd e he ss hss
          exact ⟨i, by simp [hi], e1, e2, e3⟩
        · refine ⟨x, by simp, ?_, rfl, rfl⟩
          obtain ⟨ss, hss⟩ := h.nonempty e he
          obtain ⟨i, hi, e1, _, _⟩ := h.fwd e he ss hss
          rw [e1]; exact hnode i hi (by rw [← e1]; exact hn)
      · simp only [hn, if_false] at hss ⊢
        obtain ⟨i, hi, e1, e2, e3⟩ := h.fwd e he ss hss
        exact ⟨i, by simp [hi], e1, e2, e3⟩
    · intro i hi
      simp only [List.mem_append, List.mem_singleton] at hi
      rcases hi with hi | rfl
      · obtain ⟨nd, hnd, e1, ss, hss, e2, e3⟩ := h.bwd i hi
        refine ⟨_, List.mem_map.mpr ⟨nd, hnd, rfl⟩, ?_, ?_⟩
        · split <;> exact e1
        · by_cases hn : nd.node.name = i.node.name ∧ nd.node.name = x.node.name
          · simp only [hn.2, if_true]
            rw [hadd nd hnd hn.2]
            exact ⟨ss, by simp [hss], e2, e3⟩
          · by_cases hn2 : nd.node.name = x.node.name
            · simp only [hn2, if_true]
              rw [hadd nd hnd hn2]
              exact ⟨ss, by simp [hss], e2, e3⟩
            · simp only [hn2, if_false]
              exact ⟨ss, hss, e2, e3⟩
      · refine ⟨_, List.mem_map.mpr ⟨e0, he0, rfl⟩, ?_, ?_⟩
        · simp only [hn0, if_true]; exact hnode0
        · simp only [hn0, if_true]
          rw [hadd e0 he0 hn0]
          exact ⟨⟨i.svc, i.chks⟩, by simp, rfl, rfl⟩
    · intro nd hnd
      simp only [List.mem_map] at hnd
      obtain ⟨e, he, rfl⟩ := hnd
      obtain ⟨ss, hss⟩ := h.nonempty e he
      by_cases hn : e.node.name = x.node.name
      · simp only [hn, if_true]
        rw [hadd e he hn]
        exact ⟨ss, by simp [hss]⟩
      · simp only [hn, if_false]
        exact ⟨ss, hss⟩
  · rename_i hany
    refine ⟨?_, ?_, ?_⟩
    · intro nd hnd ss hss
      simp only [List.mem_append, List.mem_singleton] at hnd
      rcases hnd with hnd | rfl
      · obtain ⟨i, hi, e1, e2, e3⟩ := h.fwd nd hnd ss hss
        exact ⟨i, by simp [hi], e1, e2, e3⟩
      · simp only [hnew, List.mem_singleton] at hss
        subst hss
        exact ⟨x, by simp, rfl, rfl, rfl⟩
    · intro i hi
      simp only [List.mem_append, List.mem_singleton] at hi
      rcases hi with hi | rfl
      · obtain ⟨nd, hnd, e1, ss, hss, e2, e3⟩ := h.bwd i hi
        exact ⟨nd, by simp [hnd], e1, ss, hss, e2, e3⟩
      · exact ⟨⟨i.node, addSvc [] i.svc i.chks⟩, by simp, rfl, ⟨i.svc, i.chks⟩, by simp [hnew], rfl, rfl⟩
    · intro nd hnd
      simp only [List.mem_append, List.mem_singleton] at hnd
      rcases hnd with hnd | rfl
      · exact h.nonempty nd hnd
      · exact ⟨⟨x.svc, x.chks⟩, by simp [hnew]⟩

theorem foldl_addInst_is (is : List Inst) (snap : Snap) (done : List Inst) (h : SnapIs snap done)
    (hc : ∀ x ∈ is, x.chks.Pairwise (fun a b => a.cid ≠ b.cid))
    (hnode : ∀ i ∈ done ++ is, ∀ j ∈ done ++ is, i.node.name = j.node.name → i.node = j.node)
    (hkey : (done ++ is).Pairwise (fun a b => ¬(a.node.name = b.node.name ∧ a.svc.sid = b.svc.sid))) :
    SnapIs (is.foldl addInst snap) (done ++ is) := by
  induction is generalizing snap done with
  | nil => simpa using h
  | cons x xs ih =>
    simp only [List.foldl_cons]
    have e : done ++ x :: xs = (done ++ [x]) ++ xs := by simp
    rw [e] at hnode hkey ⊢
    apply ih (addInst snap x) (done ++ [x])
    · apply addInst_is snap done x h (hc x (by simp))
      · intro i hi hn
        exact hnode i (by simp [hi]) x (by simp) hn
      · intro i hi
        have := List.pairwise_append.mp (List.pairwise_append.mp hkey).1
        exact this.2.2 i hi x (by simp)
    · exact fun y hy => hc y (by simp [hy])
    · exact hnode
    · exact hkey

/-- Under `SnapOK` the normalised snapshot is the received instance list, grouped by node. -/
theorem mkSnap_is {sn : String} {is : List Inst} (ok : SnapOK sn is) :
    ∃ snap, mkSnap is = some snap ∧ SnapWF snap ∧ SnapIs snap is := by
  have hall : is.all instOK = true := by
    simp only [List.all_eq_true, instOK, Bool.and_eq_true, decide_eq_true_eq]
    intro i hi
    exact ⟨⟨(ok.inst i hi).1, (ok.inst i hi).2.1⟩, fun k hk => (ok.chk i hi k hk).1⟩
  refine ⟨is.foldl addInst [], by simp [mkSnap, hall], ?_, ?_⟩
  · exact (foldl_addInst is [] ⟨List.Pairwise.nil, by simp⟩).1
  · have := foldl_addInst_is is [] [] ⟨by simp, by simp, by simp⟩ ok.cids
      (by simpa using ok.node) (by simpa using ok.keys)
    simpa using this

end CV.Peer
