/-
Helper lemmas for C11, catalog side: whole-node deregistration and registrations that change a
node which already has instances are `Faithful` (the latter unless they hit one of the two known
unfaithful shapes).
-/
import CV.Proofs.StreamFaithReg
namespace CV.Stream

/-- all events for one cell agree: that is the effect -/
theorem effK_of_all_same {k : Key} {i : Id} {l : List Ev} {d : Option Val} (dl : Bool) (v : Val)
    (hex : ∃ x ∈ l, x.key = k ∧ x.id = i)
    (hall : ∀ x ∈ l, x.key = k → x.id = i → x.del = dl ∧ x.val = v) :
    effK k i l d = if dl then none else some v := by
  unfold effK
  cases hl : lastFor i (l.filter fun e => e.key = k) with
  | some e =>
    have hmem : ∀ (l' : List Ev) (e : Ev), lastFor i l' = some e → e ∈ l' ∧ e.id = i := by
      intro l'
      induction l' with
      | nil => intro e h; simp [lastFor] at h
      | cons a r ih =>
        intro e h
        rw [lastFor] at h
        cases hr : lastFor i r with
        | some x =>
          rw [hr] at h
          simp only [Option.some.injEq] at h
          subst h
          exact ⟨List.mem_cons_of_mem _ (ih x hr).1, (ih x hr).2⟩
        | none =>
          rw [hr] at h
          by_cases ha : a.id = i
          · simp only [ha, ↓reduceIte, Option.some.injEq] at h
            subst h
            exact ⟨List.mem_cons_self, ha⟩
          · simp [ha] at h
    obtain ⟨hm, hid⟩ := hmem _ e hl
    have hm' := List.mem_filter.mp hm
    obtain ⟨h1, h2⟩ := hall e hm'.1 (by simpa using hm'.2) hid
    simp [effect, h1, h2]
  | none =>
    exfalso
    obtain ⟨x, hx, hxk, hxi⟩ := hex
    have hallne : ∀ (l' : List Ev), lastFor i l' = none → ∀ x ∈ l', x.id ≠ i := by
      intro l'
      induction l' with
      | nil => intro _ x hx; cases hx
      | cons a r ih =>
        intro h x hx
        rw [lastFor] at h
        cases hr : lastFor i r with
        | some y => rw [hr] at h; cases h
        | none =>
          rw [hr] at h
          rcases List.mem_cons.mp hx with rfl | hx
          · intro e; simp [e] at h
          · exact ih hr x hx
    exact hallne _ hl x (List.mem_filter.mpr ⟨hx, by simpa using hxk⟩) hxi

/-! ### whole-node deregistration -/

theorem foldl_dropSvc_svcs (idx : Nat) (ss : List Svc) (c : Cat) :
    (ss.foldl (dropSvc idx) c).svcs =
      c.svcs.filter (fun t => ¬ ss.any (fun s => t.node = s.node ∧ t.sid = s.sid)) := by
  induction ss generalizing c with
  | nil =>
    simp only [List.foldl_nil, List.any_nil, Bool.false_eq_true, not_false_eq_true, decide_true]
    exact (List.filter_eq_self.mpr (fun _ _ => rfl)).symm
  | cons s r ih =>
    rw [List.foldl_cons, ih, dropSvc_svcs, List.filter_filter]
    apply List.filter_congr
    intro t _
    simp only [List.any_cons, Bool.not_or, Bool.decide_and, Bool.and_comm]
    by_cases h1 : t.node = s.node ∧ t.sid = s.sid <;> simp [h1]

theorem foldl_dropSvc_nodes (idx : Nat) (ss : List Svc) (c : Cat) : (ss.foldl (dropSvc idx) c).nodes = c.nodes := by
  induction ss generalizing c with
  | nil => rfl
  | cons s r ih => rw [List.foldl_cons, ih, dropSvc_nodes]

theorem foldl_dropSvc_cfgs (idx : Nat) (ss : List Svc) (c : Cat) : (ss.foldl (dropSvc idx) c).cfgs = c.cfgs := by
  induction ss generalizing c with
  | nil => rfl
  | cons s r ih => rw [List.foldl_cons, ih, dropSvc_cfgs]

/-- dropping every instance of a node keeps exactly the instances of the other nodes -/
theorem dropNode_svcs (idx : Nat) (c : Cat) (node : String) :
    ((svcsOnNode c node).foldl (dropSvc idx) c).svcs = c.svcs.filter (fun t => t.node ≠ node) := by
  rw [foldl_dropSvc_svcs]
  apply List.filter_congr
  intro t ht
  by_cases hn : t.node = node
  · have : (svcsOnNode c node).any (fun s => t.node = s.node ∧ t.sid = s.sid) = true := by
      rw [List.any_eq_true]
      exact ⟨t, List.mem_filter.mpr ⟨ht, by simpa using hn⟩, by simp⟩
    rw [this]; simp [hn]
  · have : (svcsOnNode c node).any (fun s => t.node = s.node ∧ t.sid = s.sid) = false := by
      rw [Bool.eq_false_iff]
      intro h
      rw [List.any_eq_true] at h
      obtain ⟨s, hs, hp⟩ := h
      have hsn : s.node = node := by simpa using (List.mem_filter.mp hs).2
      simp only [decide_eq_true_eq] at hp
      exact hn (hp.1.trans hsn)
    rw [this]; simp [hn]

theorem find?_filter_node (l : List Svc) (node : String) (i : Id) :
    (l.filter (fun t => t.node ≠ node)).find? (fun t => t.node = i.1 ∧ t.sid = i.2) =
      if i.1 = node then none else l.find? (fun t => t.node = i.1 ∧ t.sid = i.2) := by
  induction l with
  | nil => simp
  | cons a r ih =>
    by_cases ha : a.node = node
    · have hf : (List.filter (fun t => decide (t.node ≠ node)) (a :: r)) = List.filter (fun t => decide (t.node ≠ node)) r := by
        simp [ha]
      rw [hf, ih]
      by_cases hi : i.1 = node
      · simp [hi]
      · have hd : decide (a.node = i.1 ∧ a.sid = i.2) = false := by
          rw [decide_eq_false_iff_not]; intro e; exact hi (e.1.symm.trans ha)
        rw [if_neg hi, if_neg hi, List.find?_cons, hd]
    · have hf : (List.filter (fun t => decide (t.node ≠ node)) (a :: r)) = a :: List.filter (fun t => decide (t.node ≠ node)) r := by
        simp [ha]
      rw [hf, List.find?_cons, List.find?_cons, ih]
      by_cases hai : a.node = i.1 ∧ a.sid = i.2
      · have : ¬ i.1 = node := fun e => ha (hai.1.trans e)
        simp [hai, this]
      · have hd : decide (a.node = i.1 ∧ a.sid = i.2) = false := by
          rw [decide_eq_false_iff_not]; exact hai
        rw [hd]

theorem nodeAddr_erase_ne {c c' : Cat} {node n : String} (h : n ≠ node) (hc : c'.nodes = erase node c.nodes) :
    nodeAddr c' n = nodeAddr c n := by
  unfold nodeAddr
  rw [hc, lookup?_erase]
  simp [h]

theorem mem_copies_map {c : Cat} {ss : List Svc} {del : Bool} {x : Ev}
    (h : x ∈ (ss.map fun t => (⟨hkey t.name, del, t.key, val c t⟩ : Ev)).flatMap connectCopy) :
    ∃ t ∈ ss, ∃ n, connSubj t = some n ∧ x = ⟨ckey n, del, t.key, val c t⟩ := by
  obtain ⟨e, he, hx⟩ := List.mem_flatMap.mp h
  obtain ⟨t, ht, rfl⟩ := List.mem_map.mp he
  rw [connectCopy_of] at hx
  cases hcs : connSubj t with
  | none => rw [hcs] at hx; cases hx
  | some n =>
    rw [hcs] at hx
    simp only [List.mem_singleton] at hx
    exact ⟨t, ht, n, hcs, hx⟩

theorem faithful_dereg_node {c : Cat} (h : WF c) (idx : Nat) (node : String) :
    Faithful c idx (.dereg node none) := by
  cases hl : lookup? node c.nodes with
  | none =>
    intro k
    simp only [applyWrite, hl]
    exact ViewEq.refl _
  | some a =>
    have hev : (applyWrite idx c (.dereg node none)).2.1 =
        ((svcsOnNode c node).map fun t => (⟨hkey t.name, true, t.key, val c t⟩ : Ev)) ++
        ((svcsOnNode c node).map fun t => (⟨hkey t.name, true, t.key, val c t⟩ : Ev)).flatMap connectCopy := by
      simp only [applyWrite, hl]
      rfl
    have hsv : (applyWrite idx c (.dereg node none)).1.svcs = c.svcs.filter (fun t => t.node ≠ node) := by
      simp only [applyWrite, hl]
      exact dropNode_svcs idx c node
    have hnd : (applyWrite idx c (.dereg node none)).1.nodes = erase node c.nodes := by
      simp only [applyWrite, hl]
      rw [foldl_dropSvc_nodes]
    have hon : ∀ t ∈ svcsOnNode c node, t ∈ c.svcs ∧ t.node = node := by
      intro t ht
      have := List.mem_filter.mp ht
      exact ⟨this.1, by simpa using this.2⟩
    apply faithful_of_cells h
    · simp only [applyWrite, hl]
      rw [foldl_dropSvc_cfgs]
    · rw [hev]
      intro e he
      rcases List.mem_append.mp he with he | he
      · obtain ⟨t, -, rfl⟩ := List.mem_map.mp he; simp [hkey]
      · rw [connectCopy_topic he]; simp
    · intro k hk i
      rw [hev]
      change _ = effK k i _ _
      have hcell' : cell k (applyWrite idx c (.dereg node none)).1 i = if i.1 = node then none else cell k c i := by
        unfold cell findSvc
        rw [hsv, find?_filter_node]
        by_cases hi : i.1 = node
        · simp [hi]
        · simp only [hi, ↓reduceIte]
          cases hf : c.svcs.find? (fun t => t.node = i.1 ∧ t.sid = i.2) with
          | none => rfl
          | some t =>
            have ht := List.find?_some hf
            simp only [decide_eq_true_eq] at ht
            simp only [Option.filter]
            split
            · simp only [Option.map, val, render, Option.some.injEq, Val.mk.injEq, true_and, and_true]
              exact nodeAddr_erase_ne (by rw [ht.1]; exact hi) hnd
            · rfl
      rw [hcell']
      by_cases hi : i.1 = node
      · simp only [hi, ↓reduceIte]
        symm
        apply effK_deleted
        · intro x hx _ _
          rcases List.mem_append.mp hx with hx | hx
          · obtain ⟨t, -, rfl⟩ := List.mem_map.mp hx; rfl
          · obtain ⟨t, -, n, -, rfl⟩ := mem_copies_map hx; rfl
        · unfold cell
          cases hf : findSvc c i.1 i.2 with
          | none => left; rfl
          | some t =>
            obtain ⟨htm, ht1, ht2⟩ := findSvc_some hf
            have htk : t.key = i := by obtain ⟨i1, i2⟩ := i; simp only [Svc.key]; rw [ht1, ht2]
            have hts : t ∈ svcsOnNode c node := List.mem_filter.mpr ⟨htm, by simpa using ht1.trans hi⟩
            by_cases hb : belongs k t = true
            · right
              rcases (belongs_iff k hk t).mp hb with rfl | ⟨n, hcs, rfl⟩
              · exact ⟨⟨hkey t.name, true, t.key, val c t⟩, List.mem_append_left _ (List.mem_map.mpr ⟨t, hts, rfl⟩), rfl, htk⟩
              · refine ⟨⟨ckey n, true, t.key, val c t⟩, List.mem_append_right _ ?_, rfl, htk⟩
                rw [List.mem_flatMap]
                refine ⟨⟨hkey t.name, true, t.key, val c t⟩, List.mem_map.mpr ⟨t, hts, rfl⟩, ?_⟩
                rw [connectCopy_of, hcs]; simp
            · left
              have : belongs k t = false := by simpa using hb
              simp [Option.filter, this]
      · simp only [hi, ↓reduceIte]
        symm
        apply effK_none
        intro x hx hxk
        apply hi
        rw [← hxk.2]
        rcases List.mem_append.mp hx with hx | hx
        · obtain ⟨t, ht, rfl⟩ := List.mem_map.mp hx
          exact (hon t ht).2
        · obtain ⟨t, ht, n, -, rfl⟩ := mem_copies_map hx
          exact (hon t ht).2

/-! ### a registration that changes a node which already has instances -/

theorem val_setNode (idx : Nat) (c : Cat) (node : String) (addr : Nat) (t : Svc) :
    val (setNode idx c node addr) t = if t.node = node then ⟨t.name, t.port, addr, t.kind⟩ else val c t := by
  simp only [val, render, nodeAddr, setNode, lookup?_upsert]
  by_cases h : t.node = node <;> simp [h]

theorem mem_regs {c2 : Cat} {ss : List Svc} {x : Ev} :
    x ∈ ss.map (regEv c2) ↔ ∃ t ∈ ss, x = ⟨hkey t.name, false, t.key, val c2 t⟩ := by
  rw [List.mem_map]
  constructor
  · rintro ⟨t, ht, rfl⟩; exact ⟨t, ht, rfl⟩
  · rintro ⟨t, ht, rfl⟩; exact ⟨t, ht, rfl⟩

theorem regs_eq (c2 : Cat) (ss : List Svc) :
    ss.map (regEv c2) = ss.map fun t => (⟨hkey t.name, false, t.key, val c2 t⟩ : Ev) := rfl

/-- the instance with id `i` on `node`, as a member of `svcsOnNode` -/
theorem mem_svcsOnNode_of_find {c : Cat} {node : String} {i : Id} {t : Svc} (hf : findSvc c i.1 i.2 = some t)
    (hi : i.1 = node) : t ∈ svcsOnNode c node ∧ t.key = i := by
  obtain ⟨htm, h1, h2⟩ := findSvc_some hf
  refine ⟨List.mem_filter.mpr ⟨htm, by simpa using h1.trans hi⟩, ?_⟩
  obtain ⟨i1, i2⟩ := i
  simp only [Svc.key]; rw [h1, h2]

/-- in a well-formed catalog the instance found under an id is the only one with that key -/
theorem eq_of_key_eq {c : Cat} (h : WF c) {t u : Svc} (ht : t ∈ c.svcs) (hu : u ∈ c.svcs) (e : t.key = u.key) : t = u := by
  have hn := h.svcs
  generalize c.svcs = l at hn ht hu
  induction l with
  | nil => cases ht
  | cons a r ih =>
    rw [List.map_cons, List.nodup_cons] at hn
    rcases List.mem_cons.mp ht with rfl | ht' <;> rcases List.mem_cons.mp hu with rfl | hu'
    · rfl
    · exact absurd (List.mem_map.mpr ⟨u, hu', e.symm⟩) hn.1
    · exact absurd (List.mem_map.mpr ⟨t, ht', e⟩) hn.1
    · exact ih hn.2 ht' hu'

/-- cells of instances other than the registered one, on the changed node: every instance of the
    node is re-registered with the new address -/
theorem cell_node_reregistered {c2 : Cat} (h2 : WF c2) (k : Key) (hk : k.topic ≠ .cfg) (node : String) (i : Id)
    (hi : i.1 = node) (S : List Ev) (hS : ∀ x ∈ S ++ S.flatMap connectCopy, x.id ≠ i) (d : Option Val)
    (hd : d = none ∨ ∃ t, findSvc c2 i.1 i.2 = some t ∧ belongs k t = true) :
    cell k c2 i =
      effK k i (((svcsOnNode c2 node).map (regEv c2) ++ S) ++
        ((svcsOnNode c2 node).map (regEv c2) ++ S).flatMap connectCopy) d := by
  have hSplit : ∀ x, x ∈ ((svcsOnNode c2 node).map (regEv c2) ++ S) ++
        ((svcsOnNode c2 node).map (regEv c2) ++ S).flatMap connectCopy → x.id = i →
        x ∈ (svcsOnNode c2 node).map (regEv c2) ∨ x ∈ ((svcsOnNode c2 node).map (regEv c2)).flatMap connectCopy := by
    intro x hx hxi
    rw [List.flatMap_append] at hx
    rcases List.mem_append.mp hx with hx | hx
    · rcases List.mem_append.mp hx with hx | hx
      · exact Or.inl hx
      · exact absurd hxi (hS x (List.mem_append_left _ hx))
    · rcases List.mem_append.mp hx with hx | hx
      · exact Or.inr hx
      · exact absurd hxi (hS x (List.mem_append_right _ hx))
  unfold cell
  cases hf : findSvc c2 i.1 i.2 with
  | none =>
    simp only [Option.filter, Option.map]
    symm
    rw [effK_none]
    · rcases hd with hd | ⟨t, ht, -⟩
      · exact hd
      · rw [hf] at ht; cases ht
    · intro x hx hxk
      rcases hSplit x hx hxk.2 with hx | hx
      · obtain ⟨t, ht, rfl⟩ := mem_regs.mp hx
        have htm := (List.mem_filter.mp ht).1
        have : findSvc c2 t.key.1 t.key.2 ≠ none := by
          unfold findSvc
          intro e
          have := List.find?_eq_none.mp e t htm
          simp [Svc.key] at this
        have hti : t.key = i := hxk.2
        rw [hti] at this
        exact this hf
      · rw [regs_eq] at hx
        obtain ⟨t, ht, n, -, rfl⟩ := mem_copies_map hx
        have htm := (List.mem_filter.mp ht).1
        have : findSvc c2 t.key.1 t.key.2 ≠ none := by
          unfold findSvc
          intro e
          have := List.find?_eq_none.mp e t htm
          simp [Svc.key] at this
        have hti : t.key = i := hxk.2
        rw [hti] at this
        exact this hf
  | some t =>
    obtain ⟨hts, htk⟩ := mem_svcsOnNode_of_find hf hi
    have htm := (List.mem_filter.mp hts).1
    have huniq : ∀ u ∈ svcsOnNode c2 node, u.key = i → u = t := fun u hu e =>
      eq_of_key_eq h2 (List.mem_filter.mp hu).1 htm (e.trans htk.symm)
    by_cases hb : belongs k t = true
    · simp only [Option.filter, hb, ↓reduceIte, Option.map]
      symm
      rw [effK_of_all_same false (val c2 t)]
      · rfl
      · rcases (belongs_iff k hk t).mp hb with rfl | ⟨n, hcs, rfl⟩
        · exact ⟨⟨hkey t.name, false, t.key, val c2 t⟩,
            List.mem_append_left _ (List.mem_append_left _ (mem_regs.mpr ⟨t, hts, rfl⟩)), rfl, htk⟩
        · refine ⟨⟨ckey n, false, t.key, val c2 t⟩, List.mem_append_right _ ?_, rfl, htk⟩
          rw [List.mem_flatMap]
          refine ⟨⟨hkey t.name, false, t.key, val c2 t⟩, List.mem_append_left _ (mem_regs.mpr ⟨t, hts, rfl⟩), ?_⟩
          rw [connectCopy_of, hcs]; simp
      · intro x hx _ hxi
        rcases hSplit x hx hxi with hx | hx
        · obtain ⟨u, hu, rfl⟩ := mem_regs.mp hx
          have := huniq u hu hxi
          subst this
          exact ⟨rfl, rfl⟩
        · rw [regs_eq] at hx
          obtain ⟨u, hu, n, -, rfl⟩ := mem_copies_map hx
          have := huniq u hu hxi
          subst this
          exact ⟨rfl, rfl⟩
    · have hbf : belongs k t = false := by simpa using hb
      simp only [Option.filter, hbf, Bool.false_eq_true, ↓reduceIte, Option.map]
      symm
      rw [effK_none]
      · rcases hd with hd | ⟨t', ht', hb'⟩
        · exact hd
        · rw [hf] at ht'; cases ht'; exact absurd hb' hb
      · intro x hx hxk
        rcases hSplit x hx hxk.2 with hx | hx
        · obtain ⟨u, hu, rfl⟩ := mem_regs.mp hx
          have := huniq u hu hxk.2
          subst this
          exact hb ((belongs_iff k hk u).mpr (Or.inl hxk.1.symm))
        · rw [regs_eq] at hx
          obtain ⟨u, hu, n, hcs, rfl⟩ := mem_copies_map hx
          have := huniq u hu hxk.2
          subst this
          exact hb ((belongs_iff k hk u).mpr (Or.inr ⟨n, hcs, hxk.1.symm⟩))

theorem cell_some_witness {k : Key} {c : Cat} {i : Id} :
    cell k c i = none ∨ ∃ t, findSvc c i.1 i.2 = some t ∧ belongs k t = true := by
  unfold cell
  cases hf : findSvc c i.1 i.2 with
  | none => left; rfl
  | some t =>
    by_cases hb : belongs k t = true
    · right; exact ⟨t, rfl, hb⟩
    · left
      have : belongs k t = false := by simpa using hb
      simp [Option.filter, this]

/-- cells of other nodes are untouched by a change of `node` -/
theorem cell_other_node {k : Key} {c c2 : Cat} {node : String} {i : Id} (hi : i.1 ≠ node)
    (hfind : findSvc c2 i.1 i.2 = findSvc c i.1 i.2)
    (hval : ∀ t : Svc, t.node ≠ node → val c2 t = val c t) : cell k c2 i = cell k c i := by
  unfold cell
  rw [hfind]
  cases hf : findSvc c i.1 i.2 with
  | none => rfl
  | some t =>
    obtain ⟨-, h1, -⟩ := findSvc_some hf
    simp only [Option.filter]
    split
    · simp only [Option.map, Option.some.injEq]
      exact hval t (by rw [h1]; exact hi)
    · rfl

theorem faithful_reg_node_change {c : Cat} (h : WF c) (idx : Nat) (node : String) (addr : Nat) :
    Faithful c idx (.reg node addr none) := by
  by_cases hch : lookup? node c.nodes = some addr
  · intro k
    have : applyWrite idx c (.reg node addr none) = (c, [], []) := by simp [applyWrite, hch]
    rw [this]; exact ViewEq.refl _
  · have hon : svcsOnNode (setNode idx c node addr) node = svcsOnNode c node := rfl
    have hall : applyWrite idx c (.reg node addr none) =
        (setNode idx c node addr,
         ((svcsOnNode (setNode idx c node addr) node).map (regEv (setNode idx c node addr)) ++ []) ++
           ((svcsOnNode (setNode idx c node addr) node).map (regEv (setNode idx c node addr)) ++ []).flatMap connectCopy, []) := by
      simp [applyWrite, hch]
    have h2 : WF (setNode idx c node addr) := ⟨h.svcs, h.cfgs⟩
    apply faithful_of_cells h
    · rw [hall]; rfl
    · rw [hall]
      intro e he
      simp only [List.append_nil] at he
      rcases List.mem_append.mp he with he | he
      · obtain ⟨t, -, rfl⟩ := mem_regs.mp he; simp [hkey]
      · rw [connectCopy_topic he]; simp
    · intro k hk i
      rw [hall]
      simp only
      by_cases hi : i.1 = node
      · exact cell_node_reregistered h2 k hk node i hi [] (by intro x hx; cases hx) _ (by
          rcases cell_some_witness (k := k) (c := c) (i := i) with h0 | ⟨t, ht, hb⟩
          · exact Or.inl h0
          · exact Or.inr ⟨t, ht, hb⟩)
      · rw [cell_other_node (c := c) (c2 := setNode idx c node addr) hi rfl (fun t ht => by simp [val_setNode, ht])]
        change _ = effK k i _ _
        symm
        apply effK_none
        intro x hx hxk
        apply hi
        rw [← hxk.2]
        simp only [List.append_nil] at hx
        rcases List.mem_append.mp hx with hx | hx
        · obtain ⟨t, ht, rfl⟩ := mem_regs.mp hx
          show t.node = node
          simpa using (List.mem_filter.mp ht).2
        · rw [regs_eq] at hx
          obtain ⟨t, ht, n, -, rfl⟩ := mem_copies_map hx
          show t.node = node
          simpa using (List.mem_filter.mp ht).2

/-- the unfaithful shape D2: the registration renames an instance whose Connect subject stays the
    same (relevant only together with a node change: the deregistration of the old name is then
    ordered after the node-level re-registration) -/
def RenameSameSubject (c : Cat) (node : String) (s : Svc) : Prop :=
  ∃ b, findSvc c node s.sid = some b ∧ b.name ≠ s.name ∧ connSubj b = connSubj s ∧ connSubj s ≠ none

theorem split_of_mem_nodup {l : List Svc} {s : Svc} (hm : s ∈ l) (hn : (l.map Svc.key).Nodup) :
    ∃ l1 l2, l = l1 ++ s :: l2 ∧ (∀ u ∈ l1, u.key ≠ s.key) ∧ (∀ u ∈ l2, u.key ≠ s.key) := by
  obtain ⟨l1, l2, rfl⟩ := List.append_of_mem hm
  refine ⟨l1, l2, rfl, ?_, ?_⟩
  · intro u hu e
    rw [List.map_append, List.map_cons, List.nodup_append] at hn
    exact hn.2.2 u.key (List.mem_map.mpr ⟨u, hu, rfl⟩) s.key List.mem_cons_self e
  · intro u hu e
    rw [List.map_append, List.map_cons, List.nodup_append, List.nodup_cons] at hn
    exact hn.2.1.1 (List.mem_map.mpr ⟨u, hu, e⟩)

/-- the cell of the registered instance itself when the node changes too -/
theorem cell_registered_nodechg {c c2 : Cat} (h2 : WF c2) (k : Key) (hk : k.topic ≠ .cfg) (node : String) (s : Svc)
    (hn : s.node = node) (hs2 : findSvc c2 s.node s.sid = some s)
    (bq : Option Svc) (hbq : bq = findSvc c node s.sid) (S : List Ev)
    (hS : S = regPre c s bq ∨ (S = [] ∧ bq = some s))
    (hd1 : ¬ LeavesNative c node s) (hd2 : ¬ RenameSameSubject c node s)
    (hdest : ∀ b d, findSvc c node s.sid = some b → b.kind = .proxy d → d ≠ "") :
    (if belongs k s then some (val c2 s) else none) =
      effK k s.key (((svcsOnNode c2 node).map (regEv c2) ++ S) ++
        ((svcsOnNode c2 node).map (regEv c2) ++ S).flatMap connectCopy) (cell k c s.key) := by
  have hbkey : ∀ b, bq = some b → b.key = s.key := by
    intro b hb
    rw [hbq] at hb
    obtain ⟨-, h1, h2⟩ := findSvc_some hb
    simp only [Svc.key, Prod.mk.injEq]
    exact ⟨h1.trans hn.symm, h2⟩
  -- facts about S and its copies
  have hSmem : ∀ x ∈ S, x.id = s.key ∧ x.del = true ∧
      (∃ b, bq = some b ∧ ((b.name ≠ s.name ∧ x.key = hkey b.name) ∨
        (∃ d, b.kind = .proxy d ∧ d ≠ destOf s.kind ∧ x.key = ckey d))) := by
    intro x hx
    rcases hS with rfl | ⟨rfl, -⟩
    · cases hb : bq with
      | none => rw [hb] at hx; cases hx
      | some b =>
        rw [hb] at hx
        rcases mem_regPre.mp hx with ⟨hne, rfl⟩ | ⟨d, hkd, hdd, rfl⟩
        · exact ⟨hbkey b hb, rfl, b, rfl, Or.inl ⟨hne, rfl⟩⟩
        · exact ⟨hbkey b hb, rfl, b, rfl, Or.inr ⟨d, hkd, hdd, rfl⟩⟩
    · cases hx
  have hScopy : ∀ x ∈ S.flatMap connectCopy, x.id = s.key ∧ x.del = true ∧
      ∃ b n, bq = some b ∧ b.name ≠ s.name ∧ connSubj b = some n ∧ x.key = ckey n := by
    intro x hx
    rcases hS with rfl | ⟨rfl, -⟩
    · cases hb : bq with
      | none => rw [hb] at hx; cases hx
      | some b =>
        rw [hb] at hx
        obtain ⟨hne, n, hcs, rfl⟩ := mem_copies_regPre.mp hx
        exact ⟨hbkey b hb, rfl, b, n, rfl, hne, hcs, rfl⟩
    · cases hx
  -- the registered instance inside the node-level re-registrations
  have hsm : s ∈ svcsOnNode c2 node := by
    obtain ⟨htm, -, -⟩ := findSvc_some hs2
    exact List.mem_filter.mpr ⟨htm, by simpa using hn⟩
  have hnd : ((svcsOnNode c2 node).map Svc.key).Nodup :=
    List.Nodup.sublist (List.Sublist.map _ List.filter_sublist) h2.svcs
  obtain ⟨l1, l2, hl, hl1, hl2⟩ := split_of_mem_nodup hsm hnd
  have hb := belongs_iff k hk s
  by_cases hbel : belongs k s = true
  · simp only [hbel, ↓reduceIte]
    symm
    rcases hb.mp hbel with rfl | ⟨n, hcs, rfl⟩
    · -- health topic of the new name
      rw [hl, List.map_append, List.map_cons, regEv_eq]
      simp only [List.append_assoc, List.cons_append]
      rw [effK_last (e := ⟨hkey s.name, false, s.key, val c2 s⟩) rfl rfl]
      · rfl
      · intro x hx hxk
        rcases List.mem_append.mp hx with hx | hx
        · obtain ⟨u, hu, rfl⟩ := mem_regs.mp hx
          exact hl2 u hu hxk.2
        · rcases List.mem_append.mp hx with hx | hx
          · obtain ⟨-, -, b, hbb, hor⟩ := hSmem x hx
            rcases hor with ⟨hne, hkx⟩ | ⟨d, -, -, hkx⟩
            · rw [hkx] at hxk
              simp only [hkey, Key.mk.injEq, Subj.named.injEq, true_and] at hxk
              exact hne hxk.1
            · rw [hkx] at hxk
              simp [hkey, ckey] at hxk
          · have := connectCopy_topic hx
            rw [hxk.1] at this
            simp [hkey] at this
    · -- connect topic of the new subject
      rw [hl]
      simp only [List.map_append, List.map_cons, List.flatMap_append, List.flatMap_cons, regEv_eq]
      rw [connectCopy_of, hcs]
      simp only [List.append_assoc, List.cons_append, List.nil_append, List.singleton_append]
      have hreassoc : ∀ (A B C D E F : List Ev) (r e : Ev),
          A ++ (r :: (B ++ (C ++ (D ++ (e :: (E ++ F)))))) = (A ++ r :: B ++ C ++ D) ++ e :: (E ++ F) := by
        intros; simp [List.append_assoc]
      rw [hreassoc]
      rw [effK_last (e := ⟨ckey n, false, s.key, val c2 s⟩) rfl rfl]
      · rfl
      · intro x hx hxk
        rcases List.mem_append.mp hx with hx | hx
        · rw [regs_eq] at hx
          obtain ⟨u, hu, m, -, rfl⟩ := mem_copies_map hx
          exact hl2 u hu hxk.2
        · obtain ⟨-, -, b, m, hbb, hne, hcb, hkx⟩ := hScopy x hx
          rw [hkx] at hxk
          have hmn : m = n := by simpa [ckey] using hxk.1
          apply hd2
          refine ⟨b, by rw [← hbq]; exact hbb, hne, ?_, by rw [hcs]; simp⟩
          rw [hcb, hcs, hmn]
  · have hbf : belongs k s = false := by simpa using hbel
    simp only [hbf, Bool.false_eq_true, ↓reduceIte]
    symm
    apply effK_deleted
    · intro x hx hxk hxi
      rw [List.flatMap_append] at hx
      rcases List.mem_append.mp hx with hx | hx
      · rcases List.mem_append.mp hx with hx | hx
        · obtain ⟨u, hu, rfl⟩ := mem_regs.mp hx
          exfalso
          have hus : u = s := eq_of_key_eq h2 (List.mem_filter.mp hu).1 (List.mem_filter.mp hsm).1 hxi
          subst hus
          exact hbel (hb.mpr (Or.inl hxk.symm))
        · exact (hSmem x hx).2.1
      · rcases List.mem_append.mp hx with hx | hx
        · rw [regs_eq] at hx
          obtain ⟨u, hu, m, hcu, rfl⟩ := mem_copies_map hx
          exfalso
          have hus : u = s := eq_of_key_eq h2 (List.mem_filter.mp hu).1 (List.mem_filter.mp hsm).1 hxi
          subst hus
          exact hbel (hb.mpr (Or.inr ⟨m, hcu, hxk.symm⟩))
        · exact (hScopy x hx).2.1
    · have hcell : cell k c s.key = (bq.filter (belongs k)).map (val c) := by
        unfold cell; simp only [Svc.key]; rw [hn, hbq]
      rw [hcell]
      cases hbq' : bq with
      | none => left; rfl
      | some b =>
        by_cases hbb : belongs k b = true
        · right
          have hbk := hbkey b hbq'
          have hbf' : findSvc c node s.sid = some b := by rw [← hbq]; exact hbq'
          -- the registration changes the instance (otherwise b = s belongs to k)
          have hSpre : S = regPre c s (some b) := by
            rcases hS with h | ⟨-, h⟩
            · rw [h, hbq']
            · rw [hbq'] at h
              cases h
              exact absurd hbb hbel
          rcases (belongs_iff k hk b).mp hbb with rfl | ⟨n, hcs, rfl⟩
          · have hne : b.name ≠ s.name := by
              intro e; apply hbel; exact hb.mpr (Or.inl (by rw [e]))
            refine ⟨⟨hkey b.name, true, b.key, val c b⟩, ?_, rfl, hbk⟩
            apply List.mem_append_left; apply List.mem_append_right
            rw [hSpre]
            exact mem_regPre.mpr (Or.inl ⟨hne, rfl⟩)
          · cases hkind : b.kind with
            | typical => simp [connSubj, hkind] at hcs
            | native =>
              have hnn : n = b.name := by simp [connSubj, hkind] at hcs; exact hcs.symm
              subst hnn
              by_cases hne : b.name = s.name
              · exfalso
                have hsn : s.kind = .native := by
                  apply Classical.byContradiction
                  intro hs
                  exact hd1 ⟨b, hbf', hkind, hne, hs⟩
                apply hbel
                exact hb.mpr (Or.inr ⟨b.name, by simp [connSubj, hsn, hne], rfl⟩)
              · refine ⟨⟨ckey b.name, true, b.key, val c b⟩, ?_, rfl, hbk⟩
                apply List.mem_append_right
                rw [List.flatMap_append]
                apply List.mem_append_right
                rw [hSpre]
                exact mem_copies_regPre.mpr ⟨hne, b.name, hcs, rfl⟩
            | proxy d =>
              have hnn : n = d := by simp [connSubj, hkind] at hcs; exact hcs.symm
              subst hnn
              have hdd : n ≠ destOf s.kind := by
                intro e
                apply hbel
                cases hsk : s.kind with
                | typical => rw [hsk] at e; simp only [destOf] at e; exact absurd e (hdest b n hbf' hkind)
                | native => rw [hsk] at e; simp only [destOf] at e; exact absurd e (hdest b n hbf' hkind)
                | proxy d' =>
                  rw [hsk] at e; simp only [destOf] at e
                  exact hb.mpr (Or.inr ⟨n, by simp [connSubj, hsk, e], rfl⟩)
              refine ⟨⟨ckey n, true, b.key, val c b⟩, ?_, rfl, hbk⟩
              apply List.mem_append_left; apply List.mem_append_right
              rw [hSpre]
              exact mem_regPre.mpr (Or.inr ⟨n, hkind, hdd, rfl⟩)
        · left
          have : belongs k b = false := by simpa using hbb
          simp [Option.filter, this]

theorem regPre_ids {c : Cat} {node : String} {s : Svc} (hn : s.node = node) :
    ∀ x ∈ regPre c s (findSvc c node s.sid) ++ (regPre c s (findSvc c node s.sid)).flatMap connectCopy,
      x.id = s.key := by
  have hbkey : ∀ b, findSvc c node s.sid = some b → b.key = s.key := by
    intro b hb
    obtain ⟨-, h1, h2⟩ := findSvc_some hb
    simp only [Svc.key, Prod.mk.injEq]
    exact ⟨h1.trans hn.symm, h2⟩
  intro x hx
  cases hb : findSvc c node s.sid with
  | none => rw [hb] at hx; simp [regPre] at hx
  | some b =>
    rw [hb] at hx
    rcases List.mem_append.mp hx with hx | hx
    · rcases mem_regPre.mp hx with ⟨-, rfl⟩ | ⟨d, -, -, rfl⟩ <;> exact hbkey b hb
    · obtain ⟨-, n, -, rfl⟩ := mem_copies_regPre.mp hx
      exact hbkey b hb

theorem applyWrite_reg_nodechg (idx : Nat) (c : Cat) (node : String) (addr : Nat) (s : Svc)
    (hch : lookup? node c.nodes ≠ some addr) :
    applyWrite idx c (.reg node addr (some s)) =
      if findSvc c node s.sid = some s then
        (setNode idx c node addr,
         ((svcsOnNode (setNode idx c node addr) node).map (regEv (setNode idx c node addr)) ++ []) ++
          ((svcsOnNode (setNode idx c node addr) node).map (regEv (setNode idx c node addr)) ++ []).flatMap connectCopy, [])
      else
        (regCat idx (setNode idx c node addr) s,
         ((svcsOnNode (regCat idx (setNode idx c node addr) s) node).map (regEv (regCat idx (setNode idx c node addr) s)) ++
            regPre c s (findSvc c node s.sid)) ++
          ((svcsOnNode (regCat idx (setNode idx c node addr) s) node).map (regEv (regCat idx (setNode idx c node addr) s)) ++
            regPre c s (findSvc c node s.sid)).flatMap connectCopy, []) := by
  by_cases hs : findSvc c node s.sid = some s
  · simp [applyWrite, hch, hs]
  · rw [if_neg hs]
    simp only [applyWrite, ne_eq, hch, not_false_eq_true, ↓reduceIte, Option.bind_some, hs]
    cases hf : findSvc c node s.sid with
    | none => simp [regPre]
    | some b => cases hk : b.kind <;> simp [regPre, hk, List.flatMap_append, List.append_assoc]

/-- the faithfulness of a registration that changes the node (address) AND carries a service,
    whatever instances the node already has; excluded: exactly the two known unfaithful shapes -/
theorem faithful_reg_nodechg {c : Cat} (h : WF c) (idx : Nat) (node : String) (addr : Nat) (s : Svc)
    (hn : s.node = node) (hch : lookup? node c.nodes ≠ some addr)
    (hd1 : ¬ LeavesNative c node s) (hd2 : ¬ RenameSameSubject c node s)
    (hdest : ∀ b d, findSvc c node s.sid = some b → b.kind = .proxy d → d ≠ "") :
    Faithful c idx (.reg node addr (some s)) := by
  have hwf2 := applyWrite_wf idx (.reg node addr (some s)) h
  have hall := applyWrite_reg_nodechg idx c node addr s hch
  -- common facts about the resulting catalog `c2` and the service part `S` of the events
  have core : ∀ (c2 : Cat) (S : List Ev), WF c2 →
      (∀ i : Id, findSvc c2 i.1 i.2 = if i = s.key then some s else findSvc c i.1 i.2) →
      (∀ t : Svc, val c2 t = if t.node = node then ⟨t.name, t.port, addr, t.kind⟩ else val c t) →
      (S = regPre c s (findSvc c node s.sid) ∨ (S = [] ∧ findSvc c node s.sid = some s)) →
      ∀ k, k.topic ≠ .cfg → ∀ i,
        cell k c2 i = effK k i (((svcsOnNode c2 node).map (regEv c2) ++ S) ++
          ((svcsOnNode c2 node).map (regEv c2) ++ S).flatMap connectCopy) (cell k c i) := by
    intro c2 S h2 hfind hval hS k hk i
    have hSid : ∀ x ∈ S ++ S.flatMap connectCopy, x.id = s.key := by
      rcases hS with rfl | ⟨rfl, -⟩
      · exact regPre_ids hn
      · intro x hx; cases hx
    have hskey1 : s.key.1 = node := hn
    by_cases hi : i = s.key
    · subst hi
      have hs2 : findSvc c2 s.node s.sid = some s := by
        have := hfind s.key
        simpa [Svc.key] using this
      have hc2 : cell k c2 s.key = if belongs k s then some (val c2 s) else none := by
        unfold cell
        simp only [Svc.key, hs2, Option.filter]
        split <;> rfl
      rw [hc2]
      exact cell_registered_nodechg h2 k hk node s hn hs2 _ rfl S hS hd1 hd2 hdest
    · by_cases hin : i.1 = node
      · refine cell_node_reregistered h2 k hk node i hin S (fun x hx e => hi (e.symm.trans (hSid x hx))) _ ?_
        rcases cell_some_witness (k := k) (c := c) (i := i) with h0 | ⟨t, ht, hb⟩
        · exact Or.inl h0
        · refine Or.inr ⟨t, ?_, hb⟩
          rw [hfind i, if_neg hi]; exact ht
      · rw [cell_other_node (c := c) (c2 := c2) hin (by rw [hfind i, if_neg hi])
          (fun t ht => by rw [hval t, if_neg ht])]
        symm
        apply effK_none
        intro x hx hxk
        apply hin
        rw [← hxk.2]
        rw [List.flatMap_append] at hx
        rcases List.mem_append.mp hx with hx | hx
        · rcases List.mem_append.mp hx with hx | hx
          · obtain ⟨t, ht, rfl⟩ := mem_regs.mp hx
            show t.node = node
            simpa using (List.mem_filter.mp ht).2
          · rw [hSid x (List.mem_append_left _ hx)]; exact hskey1
        · rcases List.mem_append.mp hx with hx | hx
          · rw [regs_eq] at hx
            obtain ⟨t, ht, n, -, rfl⟩ := mem_copies_map hx
            show t.node = node
            simpa using (List.mem_filter.mp ht).2
          · rw [hSid x (List.mem_append_right _ hx)]; exact hskey1
  by_cases hs : findSvc c node s.sid = some s
  · rw [if_pos hs] at hall
    rw [hall] at hwf2
    have hfs : findSvc c s.node s.sid = some s := by rw [hn]; exact hs
    apply faithful_of_cells h
    · rw [hall]; rfl
    · rw [hall]
      intro e he
      simp only [List.append_nil] at he
      rcases List.mem_append.mp he with he | he
      · obtain ⟨t, -, rfl⟩ := mem_regs.mp he; simp [hkey]
      · rw [connectCopy_topic he]; simp
    · intro k hk i
      rw [hall]
      exact core (setNode idx c node addr) [] hwf2 (by
          intro i
          show findSvc c i.1 i.2 = _
          by_cases hi : i = s.key
          · rw [if_pos hi, hi]; exact hfs
          · rw [if_neg hi]) (val_setNode idx c node addr) (Or.inr ⟨rfl, hs⟩) k hk i
  · rw [if_neg hs] at hall
    rw [hall] at hwf2
    apply faithful_of_cells h
    · rw [hall]; rfl
    · rw [hall]
      intro e he
      simp only at he
      rcases List.mem_append.mp he with he | he
      · rcases List.mem_append.mp he with he | he
        · obtain ⟨t, -, rfl⟩ := mem_regs.mp he; simp [hkey]
        · cases hb : findSvc c node s.sid with
          | none => rw [hb] at he; simp [regPre] at he
          | some b =>
            rw [hb] at he
            rcases mem_regPre.mp he with ⟨-, rfl⟩ | ⟨d, -, -, rfl⟩
            · simp [hkey]
            · simp [ckey]
      · rw [connectCopy_topic he]; simp
    · intro k hk i
      rw [hall]
      exact core (regCat idx (setNode idx c node addr) s) _ hwf2 (by
          intro i
          show (putSvc c.svcs s).find? _ = _
          rw [find?_putSvc]
          rfl) (fun t => by rw [regCat_val, val_setNode]) (Or.inl rfl) k hk i

/-- an existing sidecar under this id has a non-empty destination (always true for a validated
    registration) -/
def DestOk (c : Cat) (node sid : String) : Prop :=
  match findSvc c node sid with
  | some b => (match b.kind with
      | .proxy d => d ≠ ""
      | _ => True)
  | none => True

instance (c : Cat) (node sid : String) : Decidable (DestOk c node sid) := by
  unfold DestOk
  cases findSvc c node sid with
  | none => exact isTrue trivial
  | some b =>
    simp only
    cases b.kind <;> exact inferInstance

theorem DestOk.elim {c : Cat} {node sid : String} (h : DestOk c node sid) :
    ∀ b d, findSvc c node sid = some b → b.kind = .proxy d → d ≠ "" := by
  intro b d hb hk
  unfold DestOk at h
  rw [hb] at h
  simp only [hk] at h
  exact h

/-- the writes whose faithfulness is PROVED — a syntactic, decidable condition on the write and the
    catalog. Every write of the model qualifies except a service registration that
      * makes a connect-native instance non-native under the same name (`LeavesNative`, the known
        mechanism `catalog-events:no-connect-deregister-when-instance-stops-being-connect-native`), or
      * changes the node AND renames an instance whose Connect subject stays the same
        (`RenameSameSubject` together with a node change, the known mechanism
        `catalog-events:deregister-of-renamed-instance-ordered-after-node-reregistration`),
    (plus two well-formedness conditions: the service is registered on the request's node, and an
    existing sidecar has a non-empty destination). -/
def CleanWrite (c : Cat) : Write → Prop
  | .kv => True
  | .tok _ => True
  | .cfgSet _ _ => True
  | .cfgDel _ => True
  | .dereg _ _ => True
  | .reg _ _ none => True
  | .reg node addr (some s) =>
      s.node = node ∧ ¬ LeavesNative c node s ∧ DestOk c node s.sid ∧
      (lookup? node c.nodes ≠ some addr → ¬ RenameSameSubject c node s)

instance (c : Cat) (node : String) (s : Svc) : Decidable (LeavesNative c node s) := by
  unfold LeavesNative
  cases h : findSvc c node s.sid with
  | none => exact isFalse (by rintro ⟨b, hb, -⟩; cases hb)
  | some b =>
    by_cases hp : b.kind = .native ∧ b.name = s.name ∧ s.kind ≠ .native
    · exact isTrue ⟨b, rfl, hp⟩
    · exact isFalse (by rintro ⟨b', hb', hr⟩; cases hb'; exact hp hr)

instance (c : Cat) (node : String) (s : Svc) : Decidable (RenameSameSubject c node s) := by
  unfold RenameSameSubject
  cases h : findSvc c node s.sid with
  | none => exact isFalse (by rintro ⟨b, hb, -⟩; cases hb)
  | some b =>
    by_cases hp : b.name ≠ s.name ∧ connSubj b = connSubj s ∧ connSubj s ≠ none
    · exact isTrue ⟨b, rfl, hp⟩
    · exact isFalse (by rintro ⟨b', hb', hr⟩; cases hb'; exact hp hr)

instance (c : Cat) (w : Write) : Decidable (CleanWrite c w) := by
  cases w with
  | reg node addr svc =>
    cases svc with
    | none => exact isTrue trivial
    | some s => unfold CleanWrite; exact inferInstance
  | _ => exact isTrue trivial

theorem faithful_of_cleanWrite {c : Cat} (h : WF c) (idx : Nat) (w : Write) (hw : CleanWrite c w) :
    Faithful c idx w := by
  cases w with
  | kv => exact faithful_kv c idx
  | tok t => exact faithful_tok c idx t
  | cfgSet n v => exact faithful_cfgSet c idx n v
  | cfgDel n => exact faithful_cfgDel c idx n
  | dereg node sid =>
    cases sid with
    | some sid => exact faithful_dereg_svc h idx node sid
    | none => exact faithful_dereg_node h idx node
  | reg node addr svc =>
    cases svc with
    | none => exact faithful_reg_node_change h idx node addr
    | some s =>
      obtain ⟨hn, h1, h2, h3⟩ := hw
      by_cases hch : lookup? node c.nodes = some addr
      · exact faithful_reg_svc h idx node addr s hn hch h1 h2.elim
      · exact faithful_reg_nodechg h idx node addr s hn hch h1 (h3 hch) h2.elim

end CV.Stream
