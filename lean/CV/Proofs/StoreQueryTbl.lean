/-
C06, table-level read paths. What one command running at Raft index `i` does to the index table is a
sequence of `idxSet / idxMax` writes of the value `i` and deletions of `service.<n>` / `node.<n>` rows
(`IxOps`); `IxHit i k` says one of the writes was to row `k`. For every primitive state transformer of
the model (see CV.Proofs.StoreLadder): whenever it changes one of the six result tables it also writes
that table's index row (`Tbl1`). The ladder lifts this to `apply`.
-/
import CV.Proofs.StoreQueryIdx
import CV.Proofs.StoreLadder
namespace CV.Store
open CV

abbrev Ix := List (String × Nat)

/-- a sequence of index-table writes of a command running at index `i` -/
inductive IxOps (i : Nat) : Ix → Ix → Prop
  | refl (ix) : IxOps i ix ix
  | set {ix ix'} (k : String) : IxOps i ix ix' → IxOps i ix (idxSet ix' k i)
  | max {ix ix'} (k : String) : IxOps i ix ix' → IxOps i ix (idxMax ix' k i)
  | delSvc {ix ix'} (n : String) : IxOps i ix ix' → IxOps i ix (idxDel ix' ("peer.~:service." ++ n))
  | delNode {ix ix'} (n : String) : IxOps i ix ix' → IxOps i ix (idxDel ix' ("peer.~:node." ++ n))

/-- … one of which wrote row `k` -/
inductive IxHit (i : Nat) (k : String) : Ix → Ix → Prop
  | hereSet {ix ix'} (k' : String) : lc k' = lc k → IxOps i ix ix' → IxHit i k ix (idxSet ix' k' i)
  | hereMax {ix ix'} (k' : String) : lc k' = lc k → IxOps i ix ix' → IxHit i k ix (idxMax ix' k' i)
  | set {ix ix'} (k' : String) : IxHit i k ix ix' → IxHit i k ix (idxSet ix' k' i)
  | max {ix ix'} (k' : String) : IxHit i k ix ix' → IxHit i k ix (idxMax ix' k' i)
  | delSvc {ix ix'} (n : String) : IxHit i k ix ix' → IxHit i k ix (idxDel ix' ("peer.~:service." ++ n))
  | delNode {ix ix'} (n : String) : IxHit i k ix ix' → IxHit i k ix (idxDel ix' ("peer.~:node." ++ n))

variable {i : Nat}

theorem IxHit.ops {k : String} {a b : Ix} (h : IxHit i k a b) : IxOps i a b := by
  induction h with
  | hereSet k' _ ho => exact .set k' ho
  | hereMax k' _ ho => exact .max k' ho
  | set k' _ ih => exact .set k' ih
  | max k' _ ih => exact .max k' ih
  | delSvc n _ ih => exact .delSvc n ih
  | delNode n _ ih => exact .delNode n ih

theorem IxOps.trans {a b c : Ix} (h1 : IxOps i a b) (h2 : IxOps i b c) : IxOps i a c := by
  induction h2 with
  | refl => exact h1
  | set k _ ih => exact .set k ih
  | max k _ ih => exact .max k ih
  | delSvc n _ ih => exact .delSvc n ih
  | delNode n _ ih => exact .delNode n ih

/-- a hit followed by more writes -/
theorem IxHit.then {k : String} {a b c : Ix} (h1 : IxHit i k a b) (h2 : IxOps i b c) : IxHit i k a c := by
  induction h2 with
  | refl => exact h1
  | set k' _ ih => exact .set k' ih
  | max k' _ ih => exact .max k' ih
  | delSvc n _ ih => exact .delSvc n ih
  | delNode n _ ih => exact .delNode n ih

/-- writes followed by a hit -/
theorem IxHit.after {k : String} {a b c : Ix} (h1 : IxOps i a b) (h2 : IxHit i k b c) : IxHit i k a c := by
  induction h2 with
  | hereSet k' he ho => exact .hereSet k' he (h1.trans ho)
  | hereMax k' he ho => exact .hereMax k' he (h1.trans ho)
  | set k' _ ih => exact .set k' ih
  | max k' _ ih => exact .max k' ih
  | delSvc n _ ih => exact .delSvc n ih
  | delNode n _ ih => exact .delNode n ih

theorem IxOps.le {a b : Ix} (h : IxOps i a b) (h0 : IdxLe i a) : IdxLe i b := by
  induction h with
  | refl => exact h0
  | set k _ ih => exact idxLe_set ih k (Nat.le_refl _)
  | max k _ ih => exact idxLe_max ih k (Nat.le_refl _)
  | delSvc n _ ih => exact idxLe_del ih _
  | delNode n _ ih => exact idxLe_del ih _

/-- a row name outside the two deletable families -/
def Stable (k : String) : Prop :=
  (∀ n, lc k ≠ lc ("peer.~:service." ++ n)) ∧ (∀ n, lc k ≠ lc ("peer.~:node." ++ n))


/-- rows outside the deletable families never go down during a command -/
theorem IxOps.mono {a b : Ix} (h : IxOps i a b) (h0 : IdxLe i a) {k : String} (hk : Stable k) :
    idxVal a k ≤ idxVal b k := by
  induction h with
  | refl => exact Nat.le_refl _
  | set k' hh ih =>
    rw [idxVal_idxSet]; split
    · have := (hh.le h0).val k; omega
    · exact ih
  | max k' hh ih =>
    rename_i ix2
    rw [idxVal_idxMax]; split
    · next he => have := idxVal_congr ix2 he; omega
    · exact ih
  | delSvc n _ ih => unfold idxVal; rw [idxGet_idxDel, if_neg (hk.1 n)]; exact ih
  | delNode n _ ih => unfold idxVal; rw [idxGet_idxDel, if_neg (hk.2 n)]; exact ih

/-- a stable row that was written during the command holds exactly the command's index afterwards -/
theorem IxHit.val {k : String} {a b : Ix} (h : IxHit i k a b) (h0 : IdxLe i a) (hk : Stable k) : idxVal b k = i := by
  induction h with
  | hereSet k' he ho => rw [idxVal_idxSet, if_pos he.symm]
  | hereMax k' he ho =>
    rename_i ix2
    rw [idxVal_idxMax, if_pos he.symm]
    exact Nat.max_eq_right ((ho.le h0).val k')
  | set k' hh ih => rw [idxVal_idxSet]; split <;> simp [ih]
  | max k' hh ih =>
    rename_i ix2
    rw [idxVal_idxMax]; split
    · next he => have := idxVal_congr ix2 he; have := (hh.ops.le h0).val k; omega
    · exact ih
  | delSvc n _ ih => unfold idxVal at ih ⊢; rw [idxGet_idxDel, if_neg (hk.1 n)]; exact ih
  | delNode n _ ih => unfold idxVal at ih ⊢; rw [idxGet_idxDel, if_neg (hk.2 n)]; exact ih

/-! ### stable rows -/

theorem stable_kvs : Stable "kvs" := by constructor <;> intro n <;> simp [lc_eq_iff, ikey, String.toList_append]
theorem stable_tombstones : Stable "tombstones" := by
  constructor <;> intro n <;> simp [lc_eq_iff, ikey, String.toList_append]
theorem stable_sessions : Stable kSessions := by
  constructor <;> intro n <;> simp [kSessions, lc_eq_iff, ikey, String.toList_append]
theorem stable_pq : Stable kPQ := by constructor <;> intro n <;> simp [kPQ, lc_eq_iff, ikey, String.toList_append]
theorem stable_nodes : Stable kNodes := by constructor <;> intro n <;> simp [kNodes, lc_eq_iff, ikey, String.toList_append]
theorem stable_services : Stable kServices := by
  constructor <;> intro n <;> simp [kServices, lc_eq_iff, ikey, String.toList_append]
theorem stable_checks : Stable kChecks := by
  constructor <;> intro n <;> simp [kChecks, lc_eq_iff, ikey, String.toList_append]
theorem stable_svcExt : Stable kSvcExt := by
  constructor <;> intro n <;> simp [kSvcExt, lc_eq_iff, ikey, String.toList_append]
theorem stable_nodeExt : Stable kNodeExt := by
  constructor <;> intro n <;> simp [kNodeExt, lc_eq_iff, ikey, String.toList_append]

/-! ### the one-step relation -/

/-- between `s` and `s'` (same command, index `i`): the index table moved by writes of `i`, and every
    result table that changed had its index row written -/
structure Tbl1 (i : Nat) (s s' : State) : Prop where
  ops : IxOps i s.index s'.index
  kvs : s'.kvs ≠ s.kvs → IxHit i "kvs" s.index s'.index
  sessions : s'.sessions ≠ s.sessions → IxHit i kSessions s.index s'.index
  nodes : s'.nodes ≠ s.nodes → IxHit i kNodes s.index s'.index
  svcs : s'.svcs ≠ s.svcs → IxHit i kServices s.index s'.index
  chks : s'.chks ≠ s.chks → IxHit i kChecks s.index s'.index
  queries : s'.queries ≠ s.queries → IxHit i kPQ s.index s'.index

theorem Tbl1.refl (s : State) : Tbl1 i s s :=
  ⟨.refl _, fun h => absurd rfl h, fun h => absurd rfl h, fun h => absurd rfl h, fun h => absurd rfl h,
   fun h => absurd rfl h, fun h => absurd rfl h⟩

theorem hit_trans {α : Type} [DecidableEq α] {k : String} {a b c : State} (f : State → α)
    (o1 : IxOps i a.index b.index) (o2 : IxOps i b.index c.index)
    (h1 : f b ≠ f a → IxHit i k a.index b.index) (h2 : f c ≠ f b → IxHit i k b.index c.index)
    (h : f c ≠ f a) : IxHit i k a.index c.index := by
  by_cases hb : f b = f a
  · exact IxHit.after o1 (h2 (by rw [hb]; exact h))
  · exact (h1 hb).then o2

theorem Tbl1.trans {a b c : State} (h1 : Tbl1 i a b) (h2 : Tbl1 i b c) : Tbl1 i a c where
  ops := h1.ops.trans h2.ops
  kvs := hit_trans (·.kvs) h1.ops h2.ops h1.kvs h2.kvs
  sessions := hit_trans (·.sessions) h1.ops h2.ops h1.sessions h2.sessions
  nodes := hit_trans (·.nodes) h1.ops h2.ops h1.nodes h2.nodes
  svcs := hit_trans (·.svcs) h1.ops h2.ops h1.svcs h2.svcs
  chks := hit_trans (·.chks) h1.ops h2.ops h1.chks h2.chks
  queries := hit_trans (·.queries) h1.ops h2.ops h1.queries h2.queries

/-- a step that only writes the index table -/
theorem Tbl1.ofOps {s s' : State} (ho : IxOps i s.index s'.index) (h1 : s'.kvs = s.kvs) (h2 : s'.sessions = s.sessions)
    (h3 : s'.nodes = s.nodes) (h4 : s'.svcs = s.svcs) (h5 : s'.chks = s.chks) (h6 : s'.queries = s.queries) :
    Tbl1 i s s' :=
  ⟨ho, fun h => absurd h1 h, fun h => absurd h2 h, fun h => absurd h3 h, fun h => absurd h4 h,
   fun h => absurd h5 h, fun h => absurd h6 h⟩

/-! ### index writes leave the tables alone -/

@[simp] theorem maxIdx_kvs (s : State) (k : String) (v : Nat) : (s.maxIdx k v).kvs = s.kvs := rfl
@[simp] theorem maxIdx_tombs (s : State) (k : String) (v : Nat) : (s.maxIdx k v).tombs = s.tombs := rfl
@[simp] theorem maxIdx_sessions (s : State) (k : String) (v : Nat) : (s.maxIdx k v).sessions = s.sessions := rfl
@[simp] theorem maxIdx_sessChecks (s : State) (k : String) (v : Nat) : (s.maxIdx k v).sessChecks = s.sessChecks := rfl
@[simp] theorem maxIdx_nodes (s : State) (k : String) (v : Nat) : (s.maxIdx k v).nodes = s.nodes := rfl
@[simp] theorem maxIdx_svcs (s : State) (k : String) (v : Nat) : (s.maxIdx k v).svcs = s.svcs := rfl
@[simp] theorem maxIdx_chks (s : State) (k : String) (v : Nat) : (s.maxIdx k v).chks = s.chks := rfl
@[simp] theorem maxIdx_queries (s : State) (k : String) (v : Nat) : (s.maxIdx k v).queries = s.queries := rfl
@[simp] theorem maxIdx_loc (s : State) (k : String) (v : Nat) : (s.maxIdx k v).loc = s.loc := rfl
@[simp] theorem maxIdx2_kvs (s : State) (k : String) (v : Nat) : (s.maxIdx2 k v).kvs = s.kvs := rfl
@[simp] theorem maxIdx2_tombs (s : State) (k : String) (v : Nat) : (s.maxIdx2 k v).tombs = s.tombs := rfl
@[simp] theorem maxIdx2_sessions (s : State) (k : String) (v : Nat) : (s.maxIdx2 k v).sessions = s.sessions := rfl
@[simp] theorem maxIdx2_sessChecks (s : State) (k : String) (v : Nat) : (s.maxIdx2 k v).sessChecks = s.sessChecks := rfl
@[simp] theorem maxIdx2_nodes (s : State) (k : String) (v : Nat) : (s.maxIdx2 k v).nodes = s.nodes := rfl
@[simp] theorem maxIdx2_svcs (s : State) (k : String) (v : Nat) : (s.maxIdx2 k v).svcs = s.svcs := rfl
@[simp] theorem maxIdx2_chks (s : State) (k : String) (v : Nat) : (s.maxIdx2 k v).chks = s.chks := rfl
@[simp] theorem maxIdx2_queries (s : State) (k : String) (v : Nat) : (s.maxIdx2 k v).queries = s.queries := rfl
@[simp] theorem maxIdx2_loc (s : State) (k : String) (v : Nat) : (s.maxIdx2 k v).loc = s.loc := rfl
@[simp] theorem setIdx_kvs (s : State) (k : String) (v : Nat) : (s.setIdx k v).kvs = s.kvs := rfl
@[simp] theorem setIdx_tombs (s : State) (k : String) (v : Nat) : (s.setIdx k v).tombs = s.tombs := rfl
@[simp] theorem setIdx_sessions (s : State) (k : String) (v : Nat) : (s.setIdx k v).sessions = s.sessions := rfl
@[simp] theorem setIdx_sessChecks (s : State) (k : String) (v : Nat) : (s.setIdx k v).sessChecks = s.sessChecks := rfl
@[simp] theorem setIdx_nodes (s : State) (k : String) (v : Nat) : (s.setIdx k v).nodes = s.nodes := rfl
@[simp] theorem setIdx_svcs (s : State) (k : String) (v : Nat) : (s.setIdx k v).svcs = s.svcs := rfl
@[simp] theorem setIdx_chks (s : State) (k : String) (v : Nat) : (s.setIdx k v).chks = s.chks := rfl
@[simp] theorem setIdx_queries (s : State) (k : String) (v : Nat) : (s.setIdx k v).queries = s.queries := rfl
@[simp] theorem setIdx_loc (s : State) (k : String) (v : Nat) : (s.setIdx k v).loc = s.loc := rfl
@[simp] theorem delIdx_kvs (s : State) (k : String) : (s.delIdx k).kvs = s.kvs := rfl
@[simp] theorem delIdx_tombs (s : State) (k : String) : (s.delIdx k).tombs = s.tombs := rfl
@[simp] theorem delIdx_sessions (s : State) (k : String) : (s.delIdx k).sessions = s.sessions := rfl
@[simp] theorem delIdx_sessChecks (s : State) (k : String) : (s.delIdx k).sessChecks = s.sessChecks := rfl
@[simp] theorem delIdx_nodes (s : State) (k : String) : (s.delIdx k).nodes = s.nodes := rfl
@[simp] theorem delIdx_svcs (s : State) (k : String) : (s.delIdx k).svcs = s.svcs := rfl
@[simp] theorem delIdx_chks (s : State) (k : String) : (s.delIdx k).chks = s.chks := rfl
@[simp] theorem delIdx_queries (s : State) (k : String) : (s.delIdx k).queries = s.queries := rfl
@[simp] theorem delIdx_loc (s : State) (k : String) : (s.delIdx k).loc = s.loc := rfl

/-- a step that changes (at most) the services table and writes its index row -/
theorem Tbl1.ofSvcs {s s' : State} (hit : IxHit i kServices s.index s'.index) (h1 : s'.kvs = s.kvs)
    (h2 : s'.sessions = s.sessions) (h3 : s'.nodes = s.nodes) (h5 : s'.chks = s.chks) (h6 : s'.queries = s.queries) :
    Tbl1 i s s' :=
  ⟨hit.ops, fun h => absurd h1 h, fun h => absurd h2 h, fun h => absurd h3 h, fun _ => hit,
   fun h => absurd h5 h, fun h => absurd h6 h⟩

/-! ### index-only helpers -/

theorem ops_bump (s : State) (n : String) : IxOps i s.index (bumpServiceIdx s i n).index := by
  unfold bumpServiceIdx State.maxIdx2 State.maxIdx
  exact .max _ (.max _ (.max _ (.refl _)))

theorem bump_tables (s : State) (n : String) :
    (bumpServiceIdx s i n).kvs = s.kvs ∧ (bumpServiceIdx s i n).sessions = s.sessions ∧
    (bumpServiceIdx s i n).nodes = s.nodes ∧ (bumpServiceIdx s i n).svcs = s.svcs ∧
    (bumpServiceIdx s i n).chks = s.chks ∧ (bumpServiceIdx s i n).queries = s.queries :=
  ⟨rfl, rfl, rfl, rfl, rfl, rfl⟩

theorem tbl_bump (s : State) (n : String) : Tbl1 i s (bumpServiceIdx s i n) :=
  .ofOps (ops_bump s n) rfl rfl rfl rfl rfl rfl

theorem tbl_foldl_bump (l : List Svc) (s : State) :
    Tbl1 i s (l.foldl (fun st (v : Svc) => bumpServiceIdx st i v.name) s) := by
  induction l generalizing s with
  | nil => exact .refl s
  | cons v vs ih => exact (tbl_bump s v.name).trans (ih _)

theorem tbl_updateAll (s : State) (node : String) : Tbl1 i s (updateAllServiceIndexesOfNode s i node) := by
  unfold updateAllServiceIndexesOfNode
  exact tbl_foldl_bump _ s

/-- the tables of a fold of index bumps are those of the start -/
theorem foldl_bump_tables (l : List Svc) (s : State) :
    let s' := l.foldl (fun st (v : Svc) => bumpServiceIdx st i v.name) s
    s'.kvs = s.kvs ∧ s'.sessions = s.sessions ∧ s'.nodes = s.nodes ∧ s'.svcs = s.svcs ∧ s'.chks = s.chks ∧
    s'.queries = s.queries := by
  induction l generalizing s with
  | nil => exact ⟨rfl, rfl, rfl, rfl, rfl, rfl⟩
  | cons v vs ih => exact ih (bumpServiceIdx s i v.name)

/-! ### the primitives -/

theorem tbl_kvInsert (s : State) (e : KV) (he : e.modify = i) : Tbl1 i s (kvInsert s e) := by
  subst he
  have hit : IxHit e.modify "kvs" s.index (kvInsert s e).index := .hereSet "kvs" rfl (.refl _)
  exact ⟨hit.ops, fun _ => hit, fun h => absurd rfl h, fun h => absurd rfl h, fun h => absurd rfl h,
    fun h => absurd rfl h, fun h => absurd rfl h⟩

theorem tbl_kvDelete {s s' : State} {k : Key} (hr : kvDeleteTxn s i k = .ok s') : Tbl1 i s s' := by
  simp only [kvDeleteTxn] at hr
  repeat' (split at hr)
  all_goals (try simp at hr)
  all_goals (subst hr)
  · exact .refl s
  · have hit : IxHit i "kvs" s.index (idxSet (tombInsert s k i).index "kvs" i) :=
      .hereSet "kvs" rfl (.set "tombstones" (.refl _))
    exact ⟨hit.ops, fun _ => hit, fun h => absurd rfl h, fun h => absurd rfl h, fun h => absurd rfl h,
      fun h => absurd rfl h, fun h => absurd rfl h⟩

theorem tbl_kvDeleteTree (s : State) (p : Key) : Tbl1 i s (kvDeleteTreeTxn s i p) := by
  unfold kvDeleteTreeTxn
  split
  · split
    · have hit : IxHit i "kvs" s.index
          (idxSet (tombInsert { s with kvs := s.kvs.filter (fun e => !prefixMatch p e.key) } p i).index "kvs" i) :=
        .hereSet "kvs" rfl (.set "tombstones" (.refl _))
      exact ⟨hit.ops, fun _ => hit, fun h => absurd rfl h, fun h => absurd rfl h, fun h => absurd rfl h,
        fun h => absurd rfl h, fun h => absurd rfl h⟩
    · have hit : IxHit i "kvs" s.index (idxSet s.index "kvs" i) := .hereSet "kvs" rfl (.refl _)
      exact ⟨hit.ops, fun _ => hit, fun h => absurd rfl h, fun h => absurd rfl h, fun h => absurd rfl h,
        fun h => absurd rfl h, fun h => absurd rfl h⟩
  · exact .refl s

theorem tbl_removeSessionRow (s : State) (id : String) :
    Tbl1 i s { s with sessions := terase Sess.pk (lc id) s.sessions, index := idxSet s.index "sessions" i } := by
  have hit : IxHit i kSessions s.index (idxSet s.index "sessions" i) := .hereSet "sessions" rfl (.refl _)
  exact ⟨hit.ops, fun h => absurd rfl h, fun _ => hit, fun h => absurd rfl h, fun h => absurd rfl h,
    fun h => absurd rfl h, fun h => absurd rfl h⟩

theorem tbl_invalidateKeys (s : State) (sess : Sess) : Tbl1 i s (invalidateKeys s i sess) := by
  unfold invalidateKeys
  simp only
  split
  · exact .refl s
  · split
    · have hit : IxHit i "kvs" s.index (idxSet s.index "kvs" i) := .hereSet "kvs" rfl (.refl _)
      exact ⟨hit.ops, fun _ => hit, fun h => absurd rfl h, fun h => absurd rfl h, fun h => absurd rfl h,
        fun h => absurd rfl h, fun h => absurd rfl h⟩
    · have hit : IxHit i "kvs" s.index (idxSet (idxSet s.index "tombstones" i) "kvs" i) :=
        .hereSet "kvs" rfl (.set "tombstones" (.refl _))
      exact ⟨hit.ops, fun _ => hit, fun h => absurd rfl h, fun h => absurd rfl h, fun h => absurd rfl h,
        fun h => absurd rfl h, fun h => absurd rfl h⟩

theorem tbl_dropSessionRefs (s : State) (id : String) : Tbl1 i s (dropSessionRefs s i id) := by
  unfold dropSessionRefs
  simp only
  split
  · have hit : IxHit i kPQ s.index (idxSet s.index "prepared-queries" i) := .hereSet "prepared-queries" rfl (.refl _)
    exact ⟨hit.ops, fun h => absurd rfl h, fun h => absurd rfl h, fun h => absurd rfl h, fun h => absurd rfl h,
      fun h => absurd rfl h, fun _ => hit⟩
  · exact .ofOps (.refl _) rfl rfl rfl rfl rfl rfl

theorem tbl_checkPrep {s s1 : State} {p : Bool} {hc hc1 : Chk} {md : Bool}
    (hr : checkPrep s i p hc = .ok (s1, hc1, md)) : Tbl1 i s s1 := by
  simp only [checkPrep] at hr
  repeat' (split at hr)
  all_goals (try simp at hr)
  all_goals (obtain ⟨rfl, -⟩ := hr)
  all_goals (first | exact .refl _ | exact tbl_bump _ _ | exact tbl_updateAll _ _)

theorem tbl_chkInsert (s : State) (c : Chk) : Tbl1 i s (chkInsert s c i) := by
  have hit : IxHit i kChecks s.index (chkInsert s c i).index := by
    unfold chkInsert State.maxIdx2 State.maxIdx
    exact .hereMax _ rfl (.max _ (.refl _))
  exact ⟨hit.ops, fun h => absurd rfl h, fun h => absurd rfl h, fun h => absurd rfl h, fun h => absurd rfl h,
    fun _ => hit, fun h => absurd rfl h⟩

theorem tbl_checkFinish (s : State) (p : Bool) (hc : Chk) (md : Bool) : Tbl1 i s (checkFinish s i p hc md) := by
  unfold checkFinish
  split
  · exact .refl s
  · exact tbl_chkInsert s _

theorem tbl_insertSession (s : State) (x : Sess) : Tbl1 i s (insertSession s x i) := by
  have hit : IxHit i kSessions s.index (insertSession s x i).index := .hereSet "sessions" rfl (.refl _)
  exact ⟨hit.ops, fun h => absurd rfl h, fun _ => hit, fun h => absurd rfl h, fun h => absurd rfl h,
    fun h => absurd rfl h, fun h => absurd rfl h⟩

theorem tbl_pqSet {s s' : State} {id sess : String} (hr : pqSet s i id sess = .ok s') : Tbl1 i s s' := by
  simp only [pqSet] at hr
  repeat' (split at hr)
  all_goals (try simp at hr)
  all_goals (subst hr)
  all_goals
    have hit : IxHit i kPQ s.index (idxSet s.index "prepared-queries" i) := .hereSet "prepared-queries" rfl (.refl _)
    exact ⟨hit.ops, fun h => absurd rfl h, fun h => absurd rfl h, fun h => absurd rfl h, fun h => absurd rfl h,
      fun h => absurd rfl h, fun _ => hit⟩

theorem tbl_pqDelete (s : State) (id : String) : Tbl1 i s (pqDelete s i id) := by
  unfold pqDelete
  split
  · exact .refl s
  · have hit : IxHit i kPQ s.index (idxSet s.index "prepared-queries" i) := .hereSet "prepared-queries" rfl (.refl _)
    exact ⟨hit.ops, fun h => absurd rfl h, fun h => absurd rfl h, fun h => absurd rfl h, fun h => absurd rfl h,
      fun h => absurd rfl h, fun _ => hit⟩

theorem tbl_nodeInsert (s : State) (n : Node) (hn : n.modify = i) : Tbl1 i s (nodeInsert s n) := by
  subst hn
  unfold nodeInsert
  simp only
  refine Tbl1.trans ?_ (tbl_updateAll _ _)
  have hit : IxHit n.modify kNodes s.index
      ((({ s with nodes := tupsert Node.pk strLt n s.nodes } : State).maxIdx2 "nodes" n.modify).maxIdx
        ("peer.~:node." ++ n.name) n.modify).index := by
    unfold State.maxIdx2 State.maxIdx
    exact .max _ (.hereMax _ rfl (.max _ (.refl _)))
  exact ⟨hit.ops, fun h => absurd rfl h, fun h => absurd rfl h, fun _ => hit, fun h => absurd rfl h,
    fun h => absurd rfl h, fun h => absurd rfl h⟩

theorem tbl_deleteCheckPre (s : State) (node id : String) (x : Chk) : Tbl1 i s (deleteCheckPre s i node id x) := by
  unfold deleteCheckPre
  simp only
  have h1 : Tbl1 i s (if x.svcId ≠ "" then
      (s.maxIdx ("peer.~:service." ++ x.svcName) i).maxIdx2 "service_kind.typical" i
    else (updateAllServiceIndexesOfNode s i x.node).maxIdx2 "services" i) := by
    split
    · refine .ofOps ?_ rfl rfl rfl rfl rfl rfl
      unfold State.maxIdx2 State.maxIdx
      exact .max _ (.max _ (.max _ (.refl _)))
    · refine (tbl_updateAll s x.node).trans (.ofOps ?_ rfl rfl rfl rfl rfl rfl)
      unfold State.maxIdx2 State.maxIdx
      exact .max _ (.max _ (.refl _))
  refine h1.trans ?_
  generalize (if x.svcId ≠ "" then _ else _ : State) = s1
  have hit : IxHit i kChecks s1.index
      (({ s1 with chks := terase Chk.pk (pk2 node id) s1.chks } : State).maxIdx2 "checks" i).index := by
    unfold State.maxIdx2 State.maxIdx
    exact .hereMax _ rfl (.max _ (.refl _))
  exact ⟨hit.ops, fun h => absurd rfl h, fun h => absurd rfl h, fun h => absurd rfl h, fun h => absurd rfl h,
    fun _ => hit, fun h => absurd rfl h⟩

theorem ops_max (s : State) (k : String) : IxOps i s.index (s.maxIdx k i).index := .max k (.refl _)
theorem ops_max2 (s : State) (k : String) : IxOps i s.index (s.maxIdx2 k i).index := .max _ (.max _ (.refl _))
theorem hit_max2 (s : State) (k k' : String) (h : lc ("peer.~:" ++ k) = lc k') :
    IxHit i k' s.index (s.maxIdx2 k i).index := .hereMax _ h (.max _ (.refl _))

theorem peer_services : lc ("peer.~:" ++ "services") = lc kServices := by
  simp [kServices, lc_eq_iff, ikey, String.toList_append]
theorem peer_nodes : lc ("peer.~:" ++ "nodes") = lc kNodes := by
  simp [kNodes, lc_eq_iff, ikey, String.toList_append]
theorem peer_checks : lc ("peer.~:" ++ "checks") = lc kChecks := by
  simp [kChecks, lc_eq_iff, ikey, String.toList_append]

/-- `deleteServicePost` up to the branch on "was it the last instance" -/
def dspMid (s : State) (i : Nat) (node id : String) : State :=
  let s2 := s.maxIdx2 "checks" i
  let s3 := { s2 with svcs := terase Svc.pk (pk2 node id) s2.svcs }
  (((s3.maxIdx2 "services" i).maxIdx2 "service_kind.typical" i).maxIdx2 "nodes" i).maxIdx ("peer.~:node." ++ node) i

theorem deleteServicePost_eq (s : State) (i : Nat) (node id : String) (v : Svc) :
    deleteServicePost s i node id v =
      if (dspMid s i node id).svcs.any (fun w => lc w.name == lc v.name) then
        (dspMid s i node id).maxIdx ("peer.~:service." ++ v.name) i
      else ((dspMid s i node id).delIdx ("peer.~:service." ++ v.name)).maxIdx "peer.~:service_last_extinction" i := rfl

theorem tbl_dspMid (s : State) (node id : String) : Tbl1 i s (dspMid s i node id) := by
  unfold dspMid
  simp only
  have h1 : Tbl1 i s (s.maxIdx2 "checks" i) := .ofOps (ops_max2 s _) rfl rfl rfl rfl rfl rfl
  refine h1.trans ?_
  generalize s.maxIdx2 "checks" i = s2
  have hit : IxHit i kServices s2.index
      (({ s2 with svcs := terase Svc.pk (pk2 node id) s2.svcs } : State).maxIdx2 "services" i).index :=
    hit_max2 _ "services" kServices peer_services
  have hit' := ((hit.then (ops_max2 _ "service_kind.typical")).then (ops_max2 _ "nodes")).then
    (ops_max _ ("peer.~:node." ++ node))
  exact .ofSvcs hit' (by simp) (by simp) (by simp) (by simp) (by simp)

theorem tbl_deleteServicePost (s : State) (node id : String) (v : Svc) : Tbl1 i s (deleteServicePost s i node id v) := by
  rw [deleteServicePost_eq]
  refine (tbl_dspMid s node id).trans ?_
  generalize dspMid s i node id = s4
  split
  · exact .ofOps (ops_max _ _) rfl rfl rfl rfl rfl rfl
  · exact .ofOps (by unfold State.maxIdx State.delIdx; exact .max _ (.delSvc _ (.refl _))) rfl rfl rfl rfl rfl rfl

theorem tbl_deleteNodePost (s : State) (name : String) : Tbl1 i s (deleteNodePost s i name) := by
  have hit : IxHit i kNodes s.index (deleteNodePost s i name).index := by
    unfold deleteNodePost State.maxIdx2 State.maxIdx State.delIdx
    exact .max _ (.delNode _ (.hereMax _ rfl (.max _ (.refl _))))
  exact ⟨hit.ops, fun h => absurd rfl h, fun h => absurd rfl h, fun _ => hit, fun h => absurd rfl h,
    fun h => absurd rfl h, fun h => absurd rfl h⟩

theorem tbl_svcInsert (s : State) (v : Svc) (hv : v.modify = i) : Tbl1 i s (svcInsert s v) := by
  subst hv
  unfold svcInsert
  simp only
  have hit : IxHit v.modify kServices s.index
      (({ s with svcs := tupsert Svc.pk strLt v s.svcs } : State).maxIdx2 "services" v.modify).index :=
    hit_max2 _ "services" kServices peer_services
  have hit' := (((hit.then (ops_max _ ("peer.~:service." ++ v.name))).then (ops_max2 _ "service_kind.typical")).then
    (ops_max2 _ "nodes")).then (ops_max _ ("peer.~:node." ++ v.node))
  exact .ofSvcs hit' (by simp) (by simp) (by simp) (by simp) (by simp)

/-! ### the ladder instance and `apply` -/

theorem tbl_closed (i : Nat) (s0 : State) : PrimClosed i Guard.any (Tbl1 i s0) where
  kvInsert s e he h := h.trans (tbl_kvInsert s e he)
  kvDelete s s' k hr h := h.trans (tbl_kvDelete hr)
  kvDeleteTree s p _ h := h.trans (tbl_kvDeleteTree s p)
  removeSessionRow s id h := h.trans (tbl_removeSessionRow s id)
  invalidateKeys s sess h := h.trans (tbl_invalidateKeys s sess)
  dropSessionRefs s id h := h.trans (tbl_dropSessionRefs s id)
  checkPrep s s1 p hc hc1 md hr _ h := h.trans (tbl_checkPrep hr)
  checkFinish _ _ s p _ hc1 md _ _ _ _ _ h := h.trans (tbl_checkFinish s p hc1 md)
  chkRows _ _ _ _ := trivial
  insertSession s x h := h.trans (tbl_insertSession s x)
  pqSet s s' id sess hr h := h.trans (tbl_pqSet hr)
  pqDelete s id h := h.trans (tbl_pqDelete s id)
  nodeInsert s n hn _ h := h.trans (tbl_nodeInsert s n hn)
  nodeNames _ _ _ _ := trivial
  deleteCheckPre s node id x _ h := h.trans (tbl_deleteCheckPre s node id x)
  deleteServicePost s node id v _ _ _ h := h.trans (tbl_deleteServicePost s node id v)
  deleteNodePost s name _ _ _ h := h.trans (tbl_deleteNodePost s name)
  bumpServiceIdx s name _ h := h.trans (tbl_bump s name)
  svcInsert s v hv _ _ _ h := h.trans (tbl_svcInsert s v hv)

/-- every command: whenever one of the six result tables changes, its index row is written -/
theorem tbl_apply (s : State) (i : Nat) (c : Cmd) : Tbl1 i s (apply s i c).1 := by
  by_cases hc : ∀ u, c ≠ .reap u
  · exact pc_apply (tbl_closed i s) c hc (Cmd.ok_any c) (.refl s)
  · have : ∃ u, c = .reap u := by
      cases c <;> simp at hc ⊢
    obtain ⟨u, rfl⟩ := this
    exact .ofOps (.refl _) rfl rfl rfl rfl rfl rfl

end CV.Store
