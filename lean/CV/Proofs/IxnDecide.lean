/-
Helper lemmas for C13, part 2: the first match in a precedence-sorted list is the most
specific covering intention.
-/
import CV.Proofs.IxnSort
set_option linter.unusedSimpArgs false
set_option linter.unusedVariables false
namespace CV.Ixn

/-! ### specification-level notions -/

/-- the intention is exactly `peer/s → d` -/
def hasKey (peer s d : Name) (i : Ixn) : Bool := i.peer = peer && i.src = s && i.dst = d

/-- the intention covers a connection from `peer/s` to `d` (exact or wildcard on either side) -/
def covers (peer s d : Name) (i : Ixn) : Bool :=
  i.peer = peer && (i.src = star || i.src = s) && (i.dst = star || i.dst = d)

/-- "Most specific wins", written without any sorting: exact destination before wildcard
    destination, then exact source before wildcard source. -/
def mostSpecific (xs : List Ixn) (peer s d : Name) : Option Ixn :=
  (xs.find? (hasKey peer s d)).or <| (xs.find? (hasKey peer star d)).or <|
  (xs.find? (hasKey peer s star)).or (xs.find? (hasKey peer star star))

/-- stored precedences are the ones `normalize` / `UpdatePrecedence` compute -/
def PrecWF (xs : List Ixn) : Prop := ∀ i ∈ xs, i.prec = precOf i.src i.dst

/-- at most one intention per (peer, source, destination) -/
def KeysNodup (xs : List Ixn) : Prop := xs.Pairwise fun a b => a.key ≠ b.key

/-- the key determines the intention (weaker than `KeysNodup`: literal repetitions are allowed) -/
def KeyInj (xs : List Ixn) : Prop := ∀ a ∈ xs, ∀ b ∈ xs, a.key = b.key → a = b

/-- specificity rank: destination exactness counts double -/
def spec (i : Ixn) : Nat := (if i.dst = star then 0 else 2) + (if i.src = star then 0 else 1)

theorem keysNodup_eq {xs : List Ixn} (h : KeysNodup xs) {a b : Ixn} (ha : a ∈ xs) (hb : b ∈ xs)
    (hk : a.key = b.key) : a = b := by
  induction xs with
  | nil => cases ha
  | cons x xs ih =>
    unfold KeysNodup at h ih; rw [List.pairwise_cons] at h
    rcases List.mem_cons.mp ha with rfl | ha' <;> rcases List.mem_cons.mp hb with rfl | hb'
    · rfl
    · exact absurd hk (h.1 b hb')
    · exact absurd hk.symm (h.1 a ha')
    · exact ih h.2 ha' hb'

theorem KeysNodup.keyInj {xs : List Ixn} (h : KeysNodup xs) : KeyInj xs :=
  fun _ ha _ hb hk => keysNodup_eq h ha hb hk

theorem KeyInj.subset {F R : List Ixn} (h : KeyInj F) (hsub : ∀ i ∈ R, i ∈ F) : KeyInj R :=
  fun a ha b hb hk => h a (hsub a ha) b (hsub b hb) hk

theorem PrecWF.subset {F R : List Ixn} (h : PrecWF F) (hsub : ∀ i ∈ R, i ∈ F) : PrecWF R :=
  fun i hi => h i (hsub i hi)

theorem precOf_cases (s d : Name) :
    precOf s d = (if d = star then (if s = star then 5 else 6) else (if s = star then 8 else 9)) := by
  unfold precOf countExact; split <;> split <;> simp_all

theorem star_ne_nil : star ≠ ([] : Name) := by decide

/-- core step: an element that covers the pair and whose precedence strictly exceeds that of every
    other covering element is what `find?` returns on the sorted list -/
theorem find?_sorted_of_max {R : List Ixn} {p : Ixn → Bool} {i : Ixn} (hi : i ∈ R) (hp : p i = true)
    (hmax : ∀ j ∈ R, p j = true → j = i ∨ j.prec < i.prec) : (sortIxns R).find? p = some i := by
  apply find?_sorted_first (lt := less) (isort_sorted less_strictWeak R) (mem_isort.mpr hi) hp
  intro j hj hpj
  rcases hmax j (mem_isort.mp hj) hpj with h | h
  · exact Or.inl h
  · right
    have hne : i.prec ≠ j.prec := by omega
    simp [less, hne]; omega

theorem mostSpecific_sorted {R : List Ixn} (hwf : PrecWF R) (hk : KeyInj R) {peer s d : Name}
    (hs : s ≠ star) (hd : d ≠ star) :
    (sortIxns R).find? (covers peer s d) = mostSpecific R peer s d := by
  have E : ∀ a b, a ∈ R → b ∈ R → a.peer = b.peer → a.src = b.src → a.dst = b.dst → a = b :=
    fun a b ha hb h1 h2 h3 => hk a ha b hb (by simp [Ixn.key, h1, h2, h3])
  have P := fun j (hj : j ∈ R) => (hwf j hj).trans (precOf_cases j.src j.dst)
  have N : ∀ {a b c : Name}, R.find? (hasKey a b c) = none → ∀ j ∈ R, ¬ (j.peer = a ∧ j.src = b ∧ j.dst = c) := by
    intro a b c h j hj
    have := List.find?_eq_none.mp h j hj
    simpa [hasKey, and_assoc] using this
  have S : ∀ {a b c : Name} {i : Ixn}, R.find? (hasKey a b c) = some i → i ∈ R ∧ i.peer = a ∧ i.src = b ∧ i.dst = c := by
    intro a b c i h
    have := List.find?_some h
    exact ⟨List.mem_of_find?_eq_some h, by simpa [hasKey, and_assoc] using this⟩
  have C : ∀ j, covers peer s d j = true ↔ (j.peer = peer ∧ (j.src = star ∨ j.src = s) ∧ (j.dst = star ∨ j.dst = d)) := by
    intro j; simp [covers, and_assoc]
  unfold mostSpecific
  cases h1 : R.find? (hasKey peer s d) with
  | some i =>
    obtain ⟨hi, hki⟩ := S h1
    have pi := P i hi
    simp only [Option.some_or]
    apply find?_sorted_of_max hi
    · rw [C]; grind
    · intro j hj hc
      rw [C] at hc
      have := E j i hj hi
      have pj := P j hj
      grind
  | none =>
    have n1 := N h1
    cases h2 : R.find? (hasKey peer star d) with
    | some i =>
      obtain ⟨hi, hki⟩ := S h2
      have pi := P i hi
      simp only [Option.none_or, Option.some_or]
      apply find?_sorted_of_max hi
      · rw [C]; grind
      · intro j hj hc
        rw [C] at hc
        have := E j i hj hi
        have pj := P j hj
        have := n1 j hj
        grind
    | none =>
      have n2 := N h2
      cases h3 : R.find? (hasKey peer s star) with
      | some i =>
        obtain ⟨hi, hki⟩ := S h3
        have pi := P i hi
        simp only [Option.none_or, Option.some_or]
        apply find?_sorted_of_max hi
        · rw [C]; grind
        · intro j hj hc
          rw [C] at hc
          have := E j i hj hi
          have pj := P j hj
          have := n1 j hj
          have := n2 j hj
          grind
      | none =>
        have n3 := N h3
        cases h4 : R.find? (hasKey peer star star) with
        | some i =>
          obtain ⟨hi, hki⟩ := S h4
          simp only [Option.none_or]
          apply find?_sorted_of_max hi
          · rw [C]; grind
          · intro j hj hc
            rw [C] at hc
            have := E j i hj hi
            have := n1 j hj
            have := n2 j hj
            have := n3 j hj
            grind
        | none =>
          have n4 := N h4
          simp only [Option.none_or]
          apply find?_none_of_forall
          intro j hj
          have hj' := mem_isort.mp hj
          have := n1 j hj'
          have := n2 j hj'
          have := n3 j hj'
          have := n4 j hj'
          cases hc : covers peer s d j with
          | false => rfl
          | true => rw [C] at hc; grind

/-- `find?` for an exact key only depends on which elements of that key are present -/
theorem find?_hasKey_congr {F R : List Ixn} (hF : KeyInj F) (hsub : ∀ i ∈ R, i ∈ F) {a b c : Name}
    (hall : ∀ i ∈ F, hasKey a b c i = true → i ∈ R) : R.find? (hasKey a b c) = F.find? (hasKey a b c) := by
  cases hf : F.find? (hasKey a b c) with
  | none =>
    apply find?_none_of_forall
    intro j hj
    have := List.find?_eq_none.mp hf j (hsub j hj)
    simpa using this
  | some i =>
    have hi := List.mem_of_find?_eq_some hf
    have hki := List.find?_some hf
    cases hr : R.find? (hasKey a b c) with
    | none =>
      have := List.find?_eq_none.mp hr i (hall i hi hki)
      simp [hki] at this
    | some i' =>
      have hi' := hsub i' (List.mem_of_find?_eq_some hr)
      have hki' := List.find?_some hr
      congr 1
      apply hF i' hi' i hi
      simp [hasKey] at hki hki'
      simp [Ixn.key, hki, hki']

/-- `mostSpecific` only looks at the four candidate keys -/
theorem mostSpecific_congr {F R : List Ixn} (hF : KeyInj F) (hsub : ∀ i ∈ R, i ∈ F) {peer s d : Name}
    (hall : ∀ i ∈ F, covers peer s d i = true → i ∈ R) : mostSpecific R peer s d = mostSpecific F peer s d := by
  unfold mostSpecific
  rw [find?_hasKey_congr hF hsub, find?_hasKey_congr hF hsub, find?_hasKey_congr hF hsub, find?_hasKey_congr hF hsub]
  all_goals
    intro i hi hk
    apply hall i hi
    simp [hasKey, covers] at hk ⊢
    simp [hk]

/-- lists with the same members have the same most specific intention -/
theorem mostSpecific_ext {F G : List Ixn} (hF : KeyInj F) (h : ∀ i, i ∈ G ↔ i ∈ F) (peer s d : Name) :
    mostSpecific G peer s d = mostSpecific F peer s d :=
  mostSpecific_congr hF (fun i hi => (h i).mp hi) (fun i hi _ => (h i).mpr hi)

/-- on a sorted list, a restriction `q` of the predicate does not change the first match when every
    match outside `q` has a strictly earlier match inside `q` -/
theorem find?_sorted_restrict {α : Type} {lt : α → α → Bool} {p q : α → Bool} {xs : List α} (hs : Sorted lt xs)
    (hirr : ∀ a, lt a a = false)
    (h : ∀ x ∈ xs, p x = true → q x = false → ∃ y ∈ xs, p y = true ∧ q y = true ∧ lt y x = true) :
    xs.find? p = xs.find? (fun x => p x && q x) := by
  induction xs with
  | nil => rfl
  | cons x xs ih =>
    unfold Sorted at hs ih
    rw [List.pairwise_cons] at hs
    rw [List.find?_cons, List.find?_cons]
    cases hpx : p x with
    | false =>
      simp only [Bool.false_and]
      apply ih hs.2
      intro x' hx' hp' hq'
      obtain ⟨y, hy, hpy, hqy, hlt⟩ := h x' (List.mem_cons_of_mem _ hx') hp' hq'
      rcases List.mem_cons.mp hy with rfl | hy'
      · rw [hpx] at hpy; cases hpy
      · exact ⟨y, hy', hpy, hqy, hlt⟩
    | true =>
      cases hqx : q x with
      | true => simp
      | false =>
        exfalso
        obtain ⟨y, hy, _, hqy, hlt⟩ := h x List.mem_cons_self hpx hqx
        rcases List.mem_cons.mp hy with rfl | hy'
        · rw [hirr] at hlt; cases hlt
        · rw [hs.1 y hy'] at hlt; cases hlt

theorem covers_iff_hasKey (peer s d : Name) (j : Ixn) :
    covers peer s d j = true ↔
      (hasKey peer s d j = true ∨ hasKey peer star d j = true ∨ hasKey peer s star j = true ∨ hasKey peer star star j = true) := by
  simp only [covers, hasKey, Bool.and_eq_true, Bool.or_eq_true, decide_eq_true_eq]
  grind

/-- nothing covers the pair exactly when `mostSpecific` finds nothing -/
theorem mostSpecific_eq_none_iff (F : List Ixn) (peer s d : Name) :
    mostSpecific F peer s d = none ↔ ∀ i ∈ F, covers peer s d i = false := by
  unfold mostSpecific
  simp only [Option.or_eq_none_iff, List.find?_eq_none]
  constructor
  · rintro ⟨h1, h2, h3, h4⟩ i hi
    have := covers_iff_hasKey peer s d i
    have := h1 i hi; have := h2 i hi; have := h3 i hi; have := h4 i hi
    cases hc : covers peer s d i with
    | false => rfl
    | true => simp_all
  · intro h
    refine ⟨?_, ?_, ?_, ?_⟩ <;>
    · intro i hi hk
      have := (covers_iff_hasKey peer s d i).mpr (by simp [hk])
      rw [h i hi] at this; cases this

/-- what `mostSpecific` returns is stored, covers the pair, and no stored covering intention is more
    specific (destination exactness first, then source exactness) -/
theorem mostSpecific_some {F : List Ixn} {peer s d : Name} (hs : s ≠ star) (hd : d ≠ star) {i : Ixn}
    (h : mostSpecific F peer s d = some i) :
    i ∈ F ∧ covers peer s d i = true ∧ ∀ j ∈ F, covers peer s d j = true → spec j ≤ spec i := by
  have N : ∀ {a b c : Name}, F.find? (hasKey a b c) = none → ∀ j ∈ F, ¬ (j.peer = a ∧ j.src = b ∧ j.dst = c) := by
    intro a b c h j hj
    have := List.find?_eq_none.mp h j hj
    simpa [hasKey, and_assoc] using this
  have S : ∀ {a b c : Name} {i : Ixn}, F.find? (hasKey a b c) = some i → i ∈ F ∧ i.peer = a ∧ i.src = b ∧ i.dst = c := by
    intro a b c i h
    have := List.find?_some h
    exact ⟨List.mem_of_find?_eq_some h, by simpa [hasKey, and_assoc] using this⟩
  have C : ∀ j, covers peer s d j = true ↔ (j.peer = peer ∧ (j.src = star ∨ j.src = s) ∧ (j.dst = star ∨ j.dst = d)) := by
    intro j; simp [covers, and_assoc]
  unfold mostSpecific at h
  simp only [C, spec]
  cases h1 : F.find? (hasKey peer s d) with
  | some i1 =>
    simp only [h1, Option.some_or, Option.some.injEq] at h
    subst h
    obtain ⟨hi, hk⟩ := S h1
    refine ⟨hi, by grind, ?_⟩
    intro j _ _
    grind
  | none =>
    have n1 := N h1
    cases h2 : F.find? (hasKey peer star d) with
    | some i2 =>
      simp only [h1, h2, Option.none_or, Option.some_or, Option.some.injEq] at h
      subst h
      obtain ⟨hi, hk⟩ := S h2
      refine ⟨hi, by grind, ?_⟩
      intro j hj hc
      have := n1 j hj
      grind
    | none =>
      have n2 := N h2
      cases h3 : F.find? (hasKey peer s star) with
      | some i3 =>
        simp only [h1, h2, h3, Option.none_or, Option.some_or, Option.some.injEq] at h
        subst h
        obtain ⟨hi, hk⟩ := S h3
        refine ⟨hi, by grind, ?_⟩
        intro j hj hc
        have := n1 j hj
        have := n2 j hj
        grind
      | none =>
        have n3 := N h3
        simp only [h1, h2, h3, Option.none_or] at h
        obtain ⟨hi, hk⟩ := S h
        refine ⟨hi, by grind, ?_⟩
        intro j hj hc
        have := n1 j hj
        have := n2 j hj
        have := n3 j hj
        grind

theorem less_irrefl (a : Ixn) : less a a = false := by
  have := bytes_irrefl a.dst
  simp [less, bLt, this]

end CV.Ixn
