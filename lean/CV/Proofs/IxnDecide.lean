/-
Helper lemmas for C13, part 2: the first match in a precedence-sorted list is the most
specific covering intention.
-/
import CV.Proofs.IxnSort
namespace CV.Ixn

/-! ### specification-level notions -/

/-- the intention is exactly `peer/s → d` -/
def hasKey (peer s d : Name) (i : Ixn) : Bool := i.peer = peer && i.src = s && i.dst = d

/-- the intention covers a connection from `peer/s` to `d` (exact or wildcard on either side) -/
def covers (peer s d : Name) (i : Ixn) : Bool :=
  i.peer = peer && (i.src = star || i.src = s) && (i.dst = star || i.dst = d)

/-- "Most specific wins", written without any sorting: exact destination before wildcard
    destination, then exact source before wildcard source. -/
def mostSpecific (xs : List Ixn) (peer s d : Name) : Option Ixn :=
  xs.find? (hasKey peer s d) <|> xs.find? (hasKey peer star d) <|>
  xs.find? (hasKey peer s star) <|> xs.find? (hasKey peer star star)

/-- stored precedences are the ones `normalize` / `UpdatePrecedence` compute -/
def PrecWF (xs : List Ixn) : Prop := ∀ i ∈ xs, i.prec = precOf i.src i.dst

/-- at most one intention per (peer, source, destination) -/
def KeysNodup (xs : List Ixn) : Prop := xs.Pairwise fun a b => a.key ≠ b.key

/-- specificity rank: destination exactness counts double -/
def spec (i : Ixn) : Nat := (if i.dst = star then 0 else 2) + (if i.src = star then 0 else 1)

theorem keysNodup_eq {xs : List Ixn} (h : KeysNodup xs) {a b : Ixn} (ha : a ∈ xs) (hb : b ∈ xs)
    (hk : a.key = b.key) : a = b := by
  induction xs with
  | nil => cases ha
  | cons x xs ih =>
    unfold KeysNodup at h ih; rw [List.pairwise_cons] at h
    rcases List.mem_cons.mp ha with rfl | ha' <;> rcases List.mem_cons.mp hb with rfl | hb'
    · rfl
    · exact absurd hk (h.1 b hb')
    · exact absurd hk.symm (h.1 a ha')
    · exact ih h.2 ha' hb'

theorem precOf_cases (s d : Name) :
    precOf s d = (if d = star then (if s = star then 5 else 6) else (if s = star then 8 else 9)) := by
  unfold precOf countExact; split <;> split <;> simp_all

theorem star_ne_nil : star ≠ ([] : Name) := by decide

/-- core step: an element that covers the pair and whose precedence strictly exceeds that of every
    other covering element is what `find?` returns on the sorted list -/
theorem find?_sorted_of_max {R : List Ixn} {p : Ixn → Bool} {i : Ixn} (hi : i ∈ R) (hp : p i = true)
    (hmax : ∀ j ∈ R, p j = true → j = i ∨ j.prec < i.prec) : (sortIxns R).find? p = some i := by
  apply find?_sorted_first (lt := less) (isort_sorted less_strictWeak R) (mem_isort.mpr hi) hp
  intro j hj hpj
  rcases hmax j (mem_isort.mp hj) hpj with h | h
  · exact Or.inl h
  · right; unfold less; simp; omega

theorem mostSpecific_sorted {R : List Ixn} (hwf : PrecWF R) (hk : KeysNodup R) {peer s d : Name}
    (hs : s ≠ star) (hd : d ≠ star) :
    (sortIxns R).find? (covers peer s d) = mostSpecific R peer s d := by
  have E := fun a b (ha : a ∈ R) (hb : b ∈ R) (h : a.key = b.key) => keysNodup_eq hk ha hb h
  have P := fun j (hj : j ∈ R) => (hwf j hj).trans (precOf_cases j.src j.dst)
  unfold mostSpecific
  cases h1 : R.find? (hasKey peer s d) with
  | some i =>
    have hi := List.mem_of_find?_eq_some h1
    have hki := List.find?_some h1
    simp only [Option.some_orElse, Option.orElse_eq_orElse, Option.or_some] 
    apply find?_sorted_of_max hi
    · simp [hasKey, covers] at hki ⊢; grind
    · intro j hj hc
      have := E j i hj hi
      have pj := P j hj; have pi := P i hi
      simp [hasKey, covers, Ixn.key] at hki hc this
      grind
  | none =>
    have n1 := List.find?_eq_none.mp h1
    cases h2 : R.find? (hasKey peer star d) with
    | some i =>
      have hi := List.mem_of_find?_eq_some h2
      have hki := List.find?_some h2
      simp only [Option.orElse_eq_orElse, Option.none_or, Option.or_some]
      apply find?_sorted_of_max hi
      · simp [hasKey, covers] at hki ⊢; grind
      · intro j hj hc
        have := E j i hj hi
        have pj := P j hj; have pi := P i hi
        have := n1 j hj
        simp [hasKey, covers, Ixn.key] at hki hc this
        grind
    | none =>
      have n2 := List.find?_eq_none.mp h2
      cases h3 : R.find? (hasKey peer s star) with
      | some i =>
        have hi := List.mem_of_find?_eq_some h3
        have hki := List.find?_some h3
        simp only [Option.orElse_eq_orElse, Option.none_or, Option.or_some]
        apply find?_sorted_of_max hi
        · simp [hasKey, covers] at hki ⊢; grind
        · intro j hj hc
          have := E j i hj hi
          have pj := P j hj; have pi := P i hi
          have := n1 j hj; have := n2 j hj
          simp [hasKey, covers, Ixn.key] at hki hc this
          grind
      | none =>
        have n3 := List.find?_eq_none.mp h3
        cases h4 : R.find? (hasKey peer star star) with
        | some i =>
          have hi := List.mem_of_find?_eq_some h4
          have hki := List.find?_some h4
          simp only [Option.orElse_eq_orElse, Option.none_or]
          apply find?_sorted_of_max hi
          · simp [hasKey, covers] at hki ⊢; grind
          · intro j hj hc
            have := E j i hj hi
            have := n1 j hj; have := n2 j hj; have := n3 j hj
            simp [hasKey, covers, Ixn.key] at hki hc this
            grind
        | none =>
          have n4 := List.find?_eq_none.mp h4
          simp only [Option.orElse_eq_orElse, Option.none_or]
          apply find?_none_of_forall
          intro j hj
          have := n1 j (mem_isort.mp hj); have := n2 j (mem_isort.mp hj)
          have := n3 j (mem_isort.mp hj); have := n4 j (mem_isort.mp hj)
          simp [hasKey, covers] at *
          grind

end CV.Ixn
