/-
Helper lemmas for C17: the registration phase of `handleUpdateService` on a well-formed catalog — the exact
content of the three tables after a list of coherent registration commands.
-/
import CV.Proofs.PeerWF
set_option linter.unusedSectionVars false
set_option linter.unusedSimpArgs false
namespace CV.Peer

theorem regChks_spec (ks : List ChkDef) {c c' : Cat} (wf : WF c) {p rn : String}
    (hco : ∀ k ∈ ks, ∀ k' ∈ ks, k.node = k'.node → k.cid = k'.cid → k = k')
    (hnm : ∀ k ∈ ks, k.sid ≠ "" → ∀ s ∈ c.svcs, s.peer = p → s.node = k.node → s.sid = k.sid → s.name = k.sname)
    (h : regChks c p rn ks = .ok c') :
    c'.nodes = c.nodes ∧ c'.svcs = c.svcs ∧ WF c' ∧
    ∀ x, x ∈ c'.chks ↔ (∃ k ∈ ks, x = chkRow p k) ∨
      (x ∈ c.chks ∧ ∀ k ∈ ks, ¬(x.peer = p ∧ x.node = k.node ∧ x.cid = k.cid)) := by
  induction ks generalizing c with
  | nil => simp [regChks] at h; subst h; exact ⟨rfl, rfl, wf, by simp⟩
  | cons k ks ih =>
    simp only [regChks] at h
    split at h
    · rename_i c1 h1
      obtain ⟨sname, hsn, n1, s1, k1⟩ := regChk_spec wf h1
      have hname : sname = k.sname := by
        by_cases hs : k.sid = ""
        · exact hsn.1 hs
        · obtain ⟨s, hs1, hs2, hs3, hs4, hs5⟩ := hsn.2 hs
          rw [hs5]; exact hnm k (by simp) hs s hs1 hs2 hs3 hs4
      subst hname
      have wf1 : WF c1 := WF.of_chks wf _ n1 s1 k1
      obtain ⟨n2, s2, wf2, k2⟩ := ih wf1 (fun a ha b hb => hco a (by simp [ha]) b (by simp [hb]))
        (fun a ha hs s hs' => hnm a (by simp [ha]) hs s (by rw [← s1]; exact hs')) h
      refine ⟨n2.trans n1, s2.trans s1, wf2, fun x => ?_⟩
      rw [k2]
      simp only [k1, List.mem_cons, chkRow]
      have hco' := hco k (by simp)
      constructor
      · rintro (⟨a, ha, rfl⟩ | ⟨h3 | h3, h4⟩)
        · exact Or.inl ⟨a, Or.inr ha, rfl⟩
        · exact Or.inl ⟨k, Or.inl rfl, h3⟩
        · refine Or.inr ⟨h3.1, ?_⟩
          rintro a (rfl | ha)
          · exact h3.2
          · exact h4 a ha
      · rintro (⟨a, rfl | ha, rfl⟩ | ⟨h3, h4⟩)
        · by_cases hex : ∃ b ∈ ks, a.node = b.node ∧ a.cid = b.cid
          · obtain ⟨b, hb, e1, e2⟩ := hex
            have := hco' b (by simp [hb]) e1 e2
            subst this
            exact Or.inl ⟨a, hb, rfl⟩
          · refine Or.inr ⟨Or.inl rfl, ?_⟩
            intro b hb hk
            exact hex ⟨b, hb, hk.2.1, hk.2.2⟩
        · exact Or.inl ⟨a, ha, rfl⟩
        · exact Or.inr ⟨Or.inr ⟨h3, h4 k (Or.inl rfl)⟩, fun a ha => h4 a (Or.inr ha)⟩
    · cases h

/-- one registration transaction on a well-formed catalog: an upsert of the rows it carries -/
theorem register_spec {c c' : Cat} (wf : WF c) {r : RegReq}
    (hid : r.node.id ≠ "" → ∀ e ∈ c.nodes, e.peer = r.peer → e.id = r.node.id → e.name = r.node.name)
    (hsid : ∀ sd, r.svc = some sd → sd.sid ≠ "")
    (hco : ∀ k ∈ r.chks, ∀ k' ∈ r.chks, k.node = k'.node → k.cid = k'.cid → k = k')
    (hnm : ∀ k ∈ r.chks, k.sid ≠ "" →
      (∀ s ∈ c.svcs, s.peer = r.peer → s.node = k.node → s.sid = k.sid → s.name = k.sname) ∧
      (∀ sd, r.svc = some sd → r.node.name = k.node → sd.sid = k.sid → sd.name = k.sname))
    (h : register c r = .ok c') :
    WF c' ∧
    (∀ x, x ∈ c'.nodes ↔ x = nodeRow r.peer r.node ∨ (x ∈ c.nodes ∧ ¬(x.peer = r.peer ∧ x.name = r.node.name))) ∧
    (∀ x, x ∈ c'.svcs ↔ (∃ sd, r.svc = some sd ∧ x = svcRow r.peer r.node.name sd) ∨
      (x ∈ c.svcs ∧ ∀ sd, r.svc = some sd → ¬(x.peer = r.peer ∧ x.node = r.node.name ∧ x.sid = sd.sid))) ∧
    (∀ x, x ∈ c'.chks ↔ (∃ k ∈ r.chks, x = chkRow r.peer k) ∨
      (x ∈ c.chks ∧ ∀ k ∈ r.chks, ¬(x.peer = r.peer ∧ x.node = k.node ∧ x.cid = k.cid))) := by
  unfold register at h
  split at h
  · cases h
  · rename_i c1 h1
    obtain ⟨s1, k1, n1⟩ := regNode_spec wf hid h1
    have wf1 : WF c1 := WF.of_nodes wf _ s1 k1 n1
    split at h
    · cases h
    · rename_i c2 h2
      have step2 : WF c2 ∧ c2.nodes = c1.nodes ∧ c2.chks = c1.chks ∧
          (∀ x, x ∈ c2.svcs ↔ (∃ sd, r.svc = some sd ∧ x = svcRow r.peer r.node.name sd) ∨
            (x ∈ c1.svcs ∧ ∀ sd, r.svc = some sd → ¬(x.peer = r.peer ∧ x.node = r.node.name ∧ x.sid = sd.sid))) := by
        split at h2
        · rename_i sd hsd
          obtain ⟨a, b, d⟩ := regSvc_spec wf1 h2
          refine ⟨WF.of_svcs wf1 _ (hsid sd hsd) a b d, a, b, fun x => ?_⟩
          rw [d]
          simp only [hsd, Option.some.injEq, svcRow]
          constructor
          · rintro (rfl | h3)
            · exact Or.inl ⟨sd, rfl, rfl⟩
            · exact Or.inr ⟨h3.1, fun sd' e => e ▸ h3.2⟩
          · rintro (⟨sd', e, rfl⟩ | h3)
            · exact Or.inl (by rw [e])
            · exact Or.inr ⟨h3.1, h3.2 sd rfl⟩
        · rename_i hnone
          cases h2
          exact ⟨wf1, rfl, rfl, fun x => by simp [hnone]⟩
      obtain ⟨wf2, n2, k2, s2⟩ := step2
      have hnm2 : ∀ k ∈ r.chks, k.sid ≠ "" → ∀ s ∈ c2.svcs, s.peer = r.peer → s.node = k.node → s.sid = k.sid → s.name = k.sname := by
        intro k hk hs s hs2 e1 e2 e3
        rcases (s2 s).mp hs2 with ⟨sd, hsd, rfl⟩ | ⟨h3, _⟩
        · exact (hnm k hk hs).2 sd hsd e2 e3
        · rw [s1] at h3; exact (hnm k hk hs).1 s h3 e1 e2 e3
      obtain ⟨n3, s3, wf3, k3⟩ := regChks_spec r.chks wf2 hco hnm2 h
      refine ⟨wf3, fun x => ?_, fun x => ?_, fun x => ?_⟩
      · rw [n3, n2, n1]; rfl
      · rw [s3, s2, s1]
      · rw [k3, k2, k1]

/-! ### a list of registrations -/

/-- the coherence conditions under which a list of registrations for peer `p` is a plain upsert -/
structure RegsOK (c : Cat) (p : String) (ops : List Op) : Prop where
  regs : ∀ o ∈ ops, ∃ r, o = .reg r ∧ r.peer = p
  hid : ∀ r, .reg r ∈ ops → r.node.id ≠ "" → ∀ e ∈ c.nodes, e.peer = p → e.id = r.node.id → e.name = r.node.name
  cid : ∀ r r', .reg r ∈ ops → .reg r' ∈ ops → r.node.id = r'.node.id → r.node.id ≠ "" → r.node.name = r'.node.name
  cnode : ∀ r r', .reg r ∈ ops → .reg r' ∈ ops → r.node.name = r'.node.name → r.node = r'.node
  csvc : ∀ r r' sd sd', .reg r ∈ ops → .reg r' ∈ ops → r.svc = some sd → r'.svc = some sd' →
    r.node.name = r'.node.name → sd.sid = sd'.sid → sd = sd'
  sid : ∀ r sd, .reg r ∈ ops → r.svc = some sd → sd.sid ≠ ""
  cchk : ∀ r r', .reg r ∈ ops → .reg r' ∈ ops → ∀ k ∈ r.chks, ∀ k' ∈ r'.chks, k.node = k'.node → k.cid = k'.cid → k = k'
  nmc : ∀ r, .reg r ∈ ops → ∀ k ∈ r.chks, k.sid ≠ "" →
    ∀ s ∈ c.svcs, s.peer = p → s.node = k.node → s.sid = k.sid → s.name = k.sname
  nmo : ∀ r r' sd, .reg r ∈ ops → .reg r' ∈ ops → ∀ k ∈ r.chks, k.sid ≠ "" → r'.svc = some sd →
    r'.node.name = k.node → sd.sid = k.sid → sd.name = k.sname

theorem runRegs_spec (ops : List Op) (c : Cat) (p : String) (wf : WF c) (ok : RegsOK c p ops)
    (h : (runOps c ops).2.1 = none) :
    WF (runOps c ops).1 ∧
    (∀ x, x ∈ (runOps c ops).1.nodes ↔ (∃ r, .reg r ∈ ops ∧ x = nodeRow p r.node) ∨
      (x ∈ c.nodes ∧ ∀ r, .reg r ∈ ops → ¬(x.peer = p ∧ x.name = r.node.name))) ∧
    (∀ x, x ∈ (runOps c ops).1.svcs ↔ (∃ r sd, .reg r ∈ ops ∧ r.svc = some sd ∧ x = svcRow p r.node.name sd) ∨
      (x ∈ c.svcs ∧ ∀ r sd, .reg r ∈ ops → r.svc = some sd → ¬(x.peer = p ∧ x.node = r.node.name ∧ x.sid = sd.sid))) ∧
    (∀ x, x ∈ (runOps c ops).1.chks ↔ (∃ r, .reg r ∈ ops ∧ ∃ k ∈ r.chks, x = chkRow p k) ∨
      (x ∈ c.chks ∧ ∀ r, .reg r ∈ ops → ∀ k ∈ r.chks, ¬(x.peer = p ∧ x.node = k.node ∧ x.cid = k.cid))) := by
  induction ops generalizing c with
  | nil => simp [runOps, wf]
  | cons o os ih =>
    obtain ⟨r, rfl, hp⟩ := ok.regs o (by simp)
    simp only [runOps] at h ⊢
    simp only [applyOp] at h ⊢
    split at h
    · simp at h
    · rename_i c1 h1
      simp only [h1]
      simp only at h
      have hr : Op.reg r ∈ Op.reg r :: os := by simp
      have mem : ∀ r', Op.reg r' ∈ os → Op.reg r' ∈ Op.reg r :: os := fun r' h' => by simp [h']
      obtain ⟨wf1, n1, s1, k1⟩ := register_spec wf (r := r)
        (by rw [hp]; exact ok.hid r hr)
        (fun sd hsd => ok.sid r sd hr hsd)
        (ok.cchk r r hr hr)
        (fun k hk hs => ⟨by rw [hp]; exact ok.nmc r hr k hk hs, fun sd hsd => ok.nmo r r sd hr hr k hk hs hsd⟩)
        h1
      rw [hp] at n1 s1 k1
      have ok1 : RegsOK c1 p os := by
        refine ⟨fun o ho => ok.regs o (by simp [ho]), ?_, ?_, ?_, ?_, ?_, ?_, ?_, ?_⟩
        · intro r' hr' hne e he hep hei
          rcases (n1 e).mp he with rfl | ⟨he1, _⟩
          · simp only [nodeRow] at hei ⊢
            exact ok.cid r r' hr (mem r' hr') hei (by rw [hei]; exact hne)
          · exact ok.hid r' (mem r' hr') hne e he1 hep hei
        · exact fun a b ha hb => ok.cid a b (mem a ha) (mem b hb)
        · exact fun a b ha hb => ok.cnode a b (mem a ha) (mem b hb)
        · exact fun a b sd sd' ha hb => ok.csvc a b sd sd' (mem a ha) (mem b hb)
        · exact fun a sd ha => ok.sid a sd (mem a ha)
        · exact fun a b ha hb => ok.cchk a b (mem a ha) (mem b hb)
        · intro r' hr' k hk hs s hs1 e1 e2 e3
          rcases (s1 s).mp hs1 with ⟨sd, hsd, rfl⟩ | ⟨h3, _⟩
          · simp only [svcRow] at e2 e3 ⊢
            exact ok.nmo r' r sd (mem r' hr') hr k hk hs hsd e2 e3
          · exact ok.nmc r' (mem r' hr') k hk hs s h3 e1 e2 e3
        · exact fun a b sd ha hb => ok.nmo a b sd (mem a ha) (mem b hb)
      obtain ⟨wf2, n2, s2, k2⟩ := ih c1 wf1 ok1 h
      refine ⟨wf2, fun x => ?_, fun x => ?_, fun x => ?_⟩
      · rw [n2, n1]
        simp only [List.mem_cons, Op.reg.injEq]
        have hc := fun r' (h' : Op.reg r' ∈ os) => ok.cnode r r' hr (mem r' h')
        constructor
        · rintro (⟨r', hr', rfl⟩ | ⟨h3 | h3, h4⟩)
          · exact Or.inl ⟨r', Or.inr hr', rfl⟩
          · exact Or.inl ⟨r, Or.inl rfl, h3⟩
          · refine Or.inr ⟨h3.1, ?_⟩
            rintro r' (rfl | hr')
            · exact h3.2
            · exact h4 r' hr'
        · rintro (⟨r', rfl | hr', rfl⟩ | ⟨h3, h4⟩)
          · by_cases hex : ∃ b, Op.reg b ∈ os ∧ r'.node.name = b.node.name
            · obtain ⟨b, hb, e1⟩ := hex
              exact Or.inl ⟨b, hb, by rw [hc b hb e1]⟩
            · refine Or.inr ⟨Or.inl rfl, ?_⟩
              intro b hb hk
              exact hex ⟨b, hb, by simpa [nodeRow] using hk.2⟩
          · exact Or.inl ⟨r', hr', rfl⟩
          · exact Or.inr ⟨Or.inr ⟨h3, h4 r (Or.inl rfl)⟩, fun a ha => h4 a (Or.inr ha)⟩
      · rw [s2, s1]
        simp only [List.mem_cons, Op.reg.injEq]
        have hc := fun r' sd sd' (h' : Op.reg r' ∈ os) => ok.csvc r r' sd sd' hr (mem r' h')
        constructor
        · rintro (⟨r', sd, hr', hsd, rfl⟩ | ⟨⟨sd, hsd, rfl⟩ | h3, h4⟩)
          · exact Or.inl ⟨r', sd, Or.inr hr', hsd, rfl⟩
          · exact Or.inl ⟨r, sd, Or.inl rfl, hsd, rfl⟩
          · refine Or.inr ⟨h3.1, ?_⟩
            rintro r' sd (rfl | hr') hsd
            · exact h3.2 sd hsd
            · exact h4 r' sd hr' hsd
        · rintro (⟨r', sd, rfl | hr', hsd, rfl⟩ | ⟨h3, h4⟩)
          · by_cases hex : ∃ b sd', Op.reg b ∈ os ∧ b.svc = some sd' ∧ r'.node.name = b.node.name ∧ sd.sid = sd'.sid
            · obtain ⟨b, sd', hb, hsd', e1, e2⟩ := hex
              refine Or.inl ⟨b, sd', hb, hsd', ?_⟩
              rw [hc b sd sd' hb hsd hsd' e1 e2, e1]
            · refine Or.inr ⟨Or.inl ⟨sd, hsd, rfl⟩, ?_⟩
              intro b sd' hb hsd' hk
              simp only [svcRow] at hk
              exact hex ⟨b, sd', hb, hsd', hk.2.1, hk.2.2⟩
          · exact Or.inl ⟨r', sd, hr', hsd, rfl⟩
          · exact Or.inr ⟨Or.inr ⟨h3, fun sd hsd => h4 r sd (Or.inl rfl) hsd⟩, fun a sd ha => h4 a sd (Or.inr ha)⟩
      · rw [k2, k1]
        simp only [List.mem_cons, Op.reg.injEq]
        have hc := fun r' (h' : Op.reg r' ∈ os) => ok.cchk r r' hr (mem r' h')
        constructor
        · rintro (⟨r', hr', k, hk, rfl⟩ | ⟨⟨k, hk, rfl⟩ | h3, h4⟩)
          · exact Or.inl ⟨r', Or.inr hr', k, hk, rfl⟩
          · exact Or.inl ⟨r, Or.inl rfl, k, hk, rfl⟩
          · refine Or.inr ⟨h3.1, ?_⟩
            rintro r' (rfl | hr') k hk
            · exact h3.2 k hk
            · exact h4 r' hr' k hk
        · rintro (⟨r', rfl | hr', k, hk, rfl⟩ | ⟨h3, h4⟩)
          · by_cases hex : ∃ b k', Op.reg b ∈ os ∧ k' ∈ b.chks ∧ k.node = k'.node ∧ k.cid = k'.cid
            · obtain ⟨b, k', hb, hk', e1, e2⟩ := hex
              refine Or.inl ⟨b, hb, k', hk', ?_⟩
              rw [hc b hb k hk k' hk' e1 e2]
            · refine Or.inr ⟨Or.inl ⟨k, hk, rfl⟩, ?_⟩
              intro b hb k' hk' hkk
              simp only [chkRow] at hkk
              exact hex ⟨b, k', hb, hk', hkk.2.1, hkk.2.2⟩
          · exact Or.inl ⟨r', hr', k, hk, rfl⟩
          · exact Or.inr ⟨Or.inr ⟨h3, fun k hk => h4 r (Or.inl rfl) k hk⟩, fun a ha => h4 a (Or.inr ha)⟩

end CV.Peer
