/-
Helper lemmas for C17: the registration phase of `handleUpdateService` on a well-formed catalog — the exact
content of the three tables after a list of coherent registration commands.
-/
import CV.Proofs.PeerWF
set_option linter.unusedSectionVars false
set_option linter.unusedSimpArgs false
namespace CV.Peer

theorem regChks_spec (ks : List ChkDef) {c c' : Cat} (wf : WF c) {p rn : String}
    (hco : ∀ k ∈ ks, ∀ k' ∈ ks, k.node = k'.node → k.cid = k'.cid → k = k')
    (hnm : ∀ k ∈ ks, k.sid ≠ "" → ∀ s ∈ c.svcs, s.peer = p → s.node = k.node → s.sid = k.sid → s.name = k.sname)
    (h : regChks c p rn ks = .ok c') :
    c'.nodes = c.nodes ∧ c'.svcs = c.svcs ∧ WF c' ∧
    ∀ x, x ∈ c'.chks ↔ (∃ k ∈ ks, x = chkRow p k) ∨
      (x ∈ c.chks ∧ ∀ k ∈ ks, ¬(x.peer = p ∧ x.node = k.node ∧ x.cid = k.cid)) := by
  induction ks generalizing c with
  | nil => simp [regChks] at h; subst h; exact ⟨rfl, rfl, wf, by simp⟩
  | cons k ks ih =>
    simp only [regChks] at h
    split at h
    · rename_i c1 h1
      obtain ⟨sname, hsn, n1, s1, k1⟩ := regChk_spec wf h1
      have hname : sname = k.sname := by
        by_cases hs : k.sid = ""
        · exact hsn.1 hs
        · obtain ⟨s, hs1, hs2, hs3, hs4, hs5⟩ := hsn.2 hs
          rw [hs5]; exact hnm k (by simp) hs s hs1 hs2 hs3 hs4
      subst hname
      have wf1 : WF c1 := WF.of_chks wf _ n1 s1 k1
      obtain ⟨n2, s2, wf2, k2⟩ := ih wf1 (fun a ha b hb => hco a (by simp [ha]) b (by simp [hb]))
        (fun a ha hs s hs' => hnm a (by simp [ha]) hs s (by rw [← s1]; exact hs')) h
      refine ⟨n2.trans n1, s2.trans s1, wf2, fun x => ?_⟩
      rw [k2]
      simp only [k1, List.mem_cons, chkRow]
      have hco' := hco k (by simp)
      constructor
      · rintro (⟨a, ha, rfl⟩ | ⟨h3 | h3, h4⟩)
        · exact Or.inl ⟨a, Or.inr ha, rfl⟩
        · exact Or.inl ⟨k, Or.inl rfl, h3⟩
        · refine Or.inr ⟨h3.1, ?_⟩
          rintro a (rfl | ha)
          · exact h3.2
          · exact h4 a ha
      · rintro (⟨a, rfl | ha, rfl⟩ | ⟨h3, h4⟩)
        · by_cases hex : ∃ b ∈ ks, a.node = b.node ∧ a.cid = b.cid
          · obtain ⟨b, hb, e1, e2⟩ := hex
            have := hco' b (by simp [hb]) e1 e2
            subst this
            exact Or.inl ⟨a, hb, rfl⟩
          · refine Or.inr ⟨Or.inl rfl, ?_⟩
            intro b hb hk
            exact hex ⟨b, hb, hk.2.1, hk.2.2⟩
        · exact Or.inl ⟨a, ha, rfl⟩
        · exact Or.inr ⟨Or.inr ⟨h3, h4 k (Or.inl rfl)⟩, fun a ha => h4 a (Or.inr ha)⟩
    · cases h

/-- one registration transaction on a well-formed catalog: an upsert of the rows it carries -/
theorem register_spec {c c' : Cat} (wf : WF c) {r : RegReq}
    (hid : r.node.id ≠ "" → ∀ e ∈ c.nodes, e.peer = r.peer → e.id = r.node.id → e.name = r.node.name)
    (hsid : ∀ sd, r.svc = some sd → sd.sid ≠ "")
    (hco : ∀ k ∈ r.chks, ∀ k' ∈ r.chks, k.node = k'.node → k.cid = k'.cid → k = k')
    (hnm : ∀ k ∈ r.chks, k.sid ≠ "" →
      ((∀ s ∈ c.svcs, s.peer = r.peer → s.node = k.node → s.sid = k.sid → s.name = k.sname) ∨
       (∃ sd, r.svc = some sd ∧ r.node.name = k.node ∧ sd.sid = k.sid)) ∧
      (∀ sd, r.svc = some sd → r.node.name = k.node → sd.sid = k.sid → sd.name = k.sname))
    (h : register c r = .ok c') :
    WF c' ∧
    (∀ x, x ∈ c'.nodes ↔ x = nodeRow r.peer r.node ∨ (x ∈ c.nodes ∧ ¬(x.peer = r.peer ∧ x.name = r.node.name))) ∧
    (∀ x, x ∈ c'.svcs ↔ (∃ sd, r.svc = some sd ∧ x = svcRow r.peer r.node.name sd) ∨
      (x ∈ c.svcs ∧ ∀ sd, r.svc = some sd → ¬(x.peer = r.peer ∧ x.node = r.node.name ∧ x.sid = sd.sid))) ∧
    (∀ x, x ∈ c'.chks ↔ (∃ k ∈ r.chks, x = chkRow r.peer k) ∨
      (x ∈ c.chks ∧ ∀ k ∈ r.chks, ¬(x.peer = r.peer ∧ x.node = k.node ∧ x.cid = k.cid))) := by
  unfold register at h
  split at h
  · cases h
  · rename_i c1 h1
    obtain ⟨s1, k1, n1⟩ := regNode_spec wf hid h1
    have wf1 : WF c1 := WF.of_nodes wf _ s1 k1 n1
    split at h
    · cases h
    · rename_i c2 h2
      have step2 : WF c2 ∧ c2.nodes = c1.nodes ∧ c2.chks = c1.chks ∧
          (∀ x, x ∈ c2.svcs ↔ (∃ sd, r.svc = some sd ∧ x = svcRow r.peer r.node.name sd) ∨
            (x ∈ c1.svcs ∧ ∀ sd, r.svc = some sd → ¬(x.peer = r.peer ∧ x.node = r.node.name ∧ x.sid = sd.sid))) := by
        split at h2
        · rename_i sd hsd
          obtain ⟨a, b, d⟩ := regSvc_spec wf1 h2
          refine ⟨WF.of_svcs wf1 _ (hsid sd hsd) a b d, a, b, fun x => ?_⟩
          rw [d]
          simp only [hsd, Option.some.injEq, svcRow]
          constructor
          · rintro (rfl | h3)
            · exact Or.inl ⟨sd, rfl, rfl⟩
            · exact Or.inr ⟨h3.1, fun sd' e => e ▸ h3.2⟩
          · rintro (⟨sd', e, rfl⟩ | h3)
            · exact Or.inl (by rw [e])
            · exact Or.inr ⟨h3.1, h3.2 sd rfl⟩
        · rename_i hnone
          cases h2
          exact ⟨wf1, rfl, rfl, fun x => by simp [hnone]⟩
      obtain ⟨wf2, n2, k2, s2⟩ := step2
      have hnm2 : ∀ k ∈ r.chks, k.sid ≠ "" → ∀ s ∈ c2.svcs, s.peer = r.peer → s.node = k.node → s.sid = k.sid → s.name = k.sname := by
        intro k hk hs s hs2 e1 e2 e3
        rcases (s2 s).mp hs2 with ⟨sd, hsd, rfl⟩ | ⟨h3, h4⟩
        · exact (hnm k hk hs).2 sd hsd e2 e3
        · rcases (hnm k hk hs).1 with h5 | ⟨sd, hsd, e4, e5⟩
          · rw [s1] at h3; exact h5 s h3 e1 e2 e3
          · exact absurd ⟨e1, by rw [e2, e4], by rw [e3, e5]⟩ (h4 sd hsd)
      obtain ⟨n3, s3, wf3, k3⟩ := regChks_spec r.chks wf2 hco hnm2 h
      refine ⟨wf3, fun x => ?_, fun x => ?_, fun x => ?_⟩
      · rw [n3, n2, n1]; rfl
      · rw [s3, s2, s1]
      · rw [k3, k2, k1]

/-! ### a list of registrations -/

/-- the coherence conditions under which a list of registrations for peer `p` is a plain upsert -/
structure RegsOK (c : Cat) (p : String) (ops : List Op) : Prop where
  regs : ∀ o ∈ ops, ∃ r, o = .reg r ∧ r.peer = p
  hid : ∀ r, .reg r ∈ ops → r.node.id ≠ "" → ∀ e ∈ c.nodes, e.peer = p → e.id = r.node.id → e.name = r.node.name
  cid : ∀ r r', .reg r ∈ ops → .reg r' ∈ ops → r.node.id = r'.node.id → r.node.id ≠ "" → r.node.name = r'.node.name
  cnode : ∀ r r', .reg r ∈ ops → .reg r' ∈ ops → r.node.name = r'.node.name → r.node = r'.node
  csvc : ∀ r r' sd sd', .reg r ∈ ops → .reg r' ∈ ops → r.svc = some sd → r'.svc = some sd' →
    r.node.name = r'.node.name → sd.sid = sd'.sid → sd = sd'
  sid : ∀ r sd, .reg r ∈ ops → r.svc = some sd → sd.sid ≠ ""
  cchk : ∀ r r', .reg r ∈ ops → .reg r' ∈ ops → ∀ k ∈ r.chks, ∀ k' ∈ r'.chks, k.node = k'.node → k.cid = k'.cid → k = k'
  nmo : ∀ r r' sd, .reg r ∈ ops → .reg r' ∈ ops → ∀ k ∈ r.chks, k.sid ≠ "" → r'.svc = some sd →
    r'.node.name = k.node → sd.sid = k.sid → sd.name = k.sname

/-! ### what is known about the service rows a check registration will look up -/

/-- `K n i nm`: the catalog has a service row of peer `p` at (node `n`, id `i`) and every such row has name `nm` -/
def KL (c : Cat) (p : String) (K : String → String → String → Prop) : Prop :=
  ∀ n i nm, K n i nm → (∃ s ∈ c.svcs, s.peer = p ∧ s.node = n ∧ s.sid = i) ∧
    ∀ s ∈ c.svcs, s.peer = p → s.node = n → s.sid = i → s.name = nm

/-- the registrations do not contradict what `K` knows -/
def KCo (K : String → String → String → Prop) (ops : List Op) : Prop :=
  ∀ r sd n i nm, Op.reg r ∈ ops → K n i nm → r.svc = some sd → r.node.name = n → sd.sid = i → sd.name = nm

/-- after a registration its own service row is known too -/
def addK (K : String → String → String → Prop) (r : RegReq) : String → String → String → Prop :=
  fun n i nm => K n i nm ∨ ∃ sd, r.svc = some sd ∧ r.node.name = n ∧ sd.sid = i ∧ sd.name = nm

/-- along the command list every service check finds its service row: it is known already (`K`), or it is registered
    by the same request or by an earlier one -/
def Pres : (String → String → String → Prop) → List Op → Prop
  | _, [] => True
  | K, .reg r :: os =>
    (∀ k ∈ r.chks, k.sid ≠ "" → K k.node k.sid k.sname ∨ ∃ sd, r.svc = some sd ∧ r.node.name = k.node ∧ sd.sid = k.sid) ∧
    Pres (addK K r) os
  | K, _ :: os => Pres K os

theorem Pres.mono {K K' : String → String → String → Prop} (h : ∀ n i nm, K n i nm → K' n i nm) (ops : List Op) :
    Pres K ops → Pres K' ops := by
  induction ops generalizing K K' with
  | nil => exact fun _ => trivial
  | cons o os ih =>
    cases o with
    | reg r =>
      simp only [Pres]
      rintro ⟨a, b⟩
      refine ⟨fun k hk hne => ?_, ih (fun n i nm hni => ?_) b⟩
      · rcases a k hk hne with h1 | h1
        · exact Or.inl (h _ _ _ h1)
        · exact Or.inr h1
      · rcases hni with h1 | h1
        · exact Or.inl (h _ _ _ h1)
        · exact Or.inr h1
    | deregSvc p n i => simp only [Pres]; exact ih h
    | deregChk p n k => simp only [Pres]; exact ih h
    | deregNode p n => simp only [Pres]; exact ih h

/-- the (node, id, name) triples a command list registers -/
def addsKey (ops : List Op) (n i nm : String) : Prop :=
  ∃ r sd, Op.reg r ∈ ops ∧ r.svc = some sd ∧ r.node.name = n ∧ sd.sid = i ∧ sd.name = nm

theorem Pres.append {K : String → String → String → Prop} (a b : List Op) :
    Pres K (a ++ b) ↔ Pres K a ∧ Pres (fun n i nm => K n i nm ∨ addsKey a n i nm) b := by
  induction a generalizing K with
  | nil =>
    simp only [List.nil_append, Pres, true_and]
    constructor
    · exact Pres.mono (fun n i nm h => Or.inl h) b
    · apply Pres.mono
      rintro n i nm (h | ⟨r, _, hr, _⟩)
      · exact h
      · cases hr
  | cons o os ih =>
    have drop : ∀ (o : Op), (∀ r, o ≠ .reg r) →
        ((Pres K os ∧ Pres (fun n i nm => K n i nm ∨ addsKey os n i nm) b) ↔
         (Pres K os ∧ Pres (fun n i nm => K n i nm ∨ addsKey (o :: os) n i nm) b)) := by
      intro o ho
      constructor
      · rintro ⟨h1, h2⟩
        refine ⟨h1, Pres.mono ?_ b h2⟩
        rintro n i nm (h | ⟨r', sd, hr', e⟩)
        · exact Or.inl h
        · exact Or.inr ⟨r', sd, by simp [hr'], e⟩
      · rintro ⟨h1, h2⟩
        refine ⟨h1, Pres.mono ?_ b h2⟩
        rintro n i nm (h | ⟨r', sd, hr', e⟩)
        · exact Or.inl h
        · simp only [List.mem_cons] at hr'
          rcases hr' with hr' | hr'
          · exact absurd hr'.symm (ho r')
          · exact Or.inr ⟨r', sd, hr', e⟩
    cases o with
    | reg r =>
      simp only [List.cons_append, Pres, ih, and_assoc]
      constructor
      · rintro ⟨h1, h2, h3⟩
        refine ⟨h1, h2, Pres.mono ?_ b h3⟩
        rintro n i nm ((h | ⟨sd, e1, e2, e3, e4⟩) | ⟨r', sd, hr', e⟩)
        · exact Or.inl h
        · exact Or.inr ⟨r, sd, by simp, e1, e2, e3, e4⟩
        · exact Or.inr ⟨r', sd, by simp [hr'], e⟩
      · rintro ⟨h1, h2, h3⟩
        refine ⟨h1, h2, Pres.mono ?_ b h3⟩
        rintro n i nm (h | ⟨r', sd, hr', e1, e2, e3, e4⟩)
        · exact Or.inl (Or.inl h)
        · simp only [List.mem_cons, Op.reg.injEq] at hr'
          rcases hr' with rfl | hr'
          · exact Or.inl (Or.inr ⟨sd, e1, e2, e3, e4⟩)
          · exact Or.inr ⟨r', sd, hr', e1, e2, e3, e4⟩
    | deregSvc p n i => simp only [List.cons_append, Pres, ih]; exact drop _ (by intro r h; cases h)
    | deregChk p n k => simp only [List.cons_append, Pres, ih]; exact drop _ (by intro r h; cases h)
    | deregNode p n => simp only [List.cons_append, Pres, ih]; exact drop _ (by intro r h; cases h)

theorem Pres.nochk {K : String → String → String → Prop} (ops : List Op) (h : ∀ r, Op.reg r ∈ ops → r.chks = []) : Pres K ops := by
  induction ops generalizing K with
  | nil => trivial
  | cons o os ih =>
    cases o with
    | reg r =>
      simp only [Pres]
      refine ⟨?_, ih (fun r' hr' => h r' (by simp [hr']))⟩
      rw [h r (by simp)]; simp
    | deregSvc p n i => simp only [Pres]; exact ih (fun r' hr' => h r' (by simp [hr']))
    | deregChk p n k => simp only [Pres]; exact ih (fun r' hr' => h r' (by simp [hr']))
    | deregNode p n => simp only [Pres]; exact ih (fun r' hr' => h r' (by simp [hr']))

/-- one step of a coherent registration list: the effect of the head and everything the tail needs again -/
theorem regs_tail {c c1 : Cat} {p : String} {r : RegReq} {os : List Op} {K : String → String → String → Prop}
    (wf : WF c) (ok : RegsOK c p (.reg r :: os)) (kl : KL c p K) (kco : KCo K (.reg r :: os))
    (hhead : ∀ k ∈ r.chks, k.sid ≠ "" → K k.node k.sid k.sname ∨ ∃ sd, r.svc = some sd ∧ r.node.name = k.node ∧ sd.sid = k.sid)
    (h1 : register c r = .ok c1) :
    WF c1 ∧
    (∀ x, x ∈ c1.nodes ↔ x = nodeRow p r.node ∨ (x ∈ c.nodes ∧ ¬(x.peer = p ∧ x.name = r.node.name))) ∧
    (∀ x, x ∈ c1.svcs ↔ (∃ sd, r.svc = some sd ∧ x = svcRow p r.node.name sd) ∨
      (x ∈ c.svcs ∧ ∀ sd, r.svc = some sd → ¬(x.peer = p ∧ x.node = r.node.name ∧ x.sid = sd.sid))) ∧
    (∀ x, x ∈ c1.chks ↔ (∃ k ∈ r.chks, x = chkRow p k) ∨
      (x ∈ c.chks ∧ ∀ k ∈ r.chks, ¬(x.peer = p ∧ x.node = k.node ∧ x.cid = k.cid))) ∧
    RegsOK c1 p os ∧ KL c1 p (addK K r) ∧ KCo (addK K r) os := by
  obtain ⟨r0, e0, hp⟩ := ok.regs (.reg r) (by simp)
  cases e0
  have hr : Op.reg r ∈ Op.reg r :: os := by simp
  have mem : ∀ r', Op.reg r' ∈ os → Op.reg r' ∈ Op.reg r :: os := fun r' h' => by simp [h']
  obtain ⟨wf1, n1, s1, k1⟩ := register_spec wf (r := r)
    (by rw [hp]; exact ok.hid r hr)
    (fun sd hsd => ok.sid r sd hr hsd)
    (ok.cchk r r hr hr)
    (fun k hk hs => ⟨by
        rcases hhead k hk hs with hK | hsv
        · left; rw [hp]; exact (kl _ _ _ hK).2
        · exact Or.inr hsv, fun sd hsd => ok.nmo r r sd hr hr k hk hs hsd⟩)
    h1
  rw [hp] at n1 s1 k1
  refine ⟨wf1, n1, s1, k1, ?_, ?_, ?_⟩
  · refine ⟨fun o ho => ok.regs o (by simp [ho]), ?_, ?_, ?_, ?_, ?_, ?_, ?_⟩
    · intro r' hr' hne e he hep hei
      rcases (n1 e).mp he with rfl | ⟨he1, _⟩
      · simp only [nodeRow] at hei ⊢
        exact ok.cid r r' hr (mem r' hr') hei (by rw [hei]; exact hne)
      · exact ok.hid r' (mem r' hr') hne e he1 hep hei
    · exact fun a b ha hb => ok.cid a b (mem a ha) (mem b hb)
    · exact fun a b ha hb => ok.cnode a b (mem a ha) (mem b hb)
    · exact fun a b sd sd' ha hb => ok.csvc a b sd sd' (mem a ha) (mem b hb)
    · exact fun a sd ha => ok.sid a sd (mem a ha)
    · exact fun a b ha hb => ok.cchk a b (mem a ha) (mem b hb)
    · exact fun a b sd ha hb => ok.nmo a b sd (mem a ha) (mem b hb)
  · intro n i nm hK
    rcases hK with hK | ⟨sd, hsd, e1, e2, e3⟩
    · obtain ⟨⟨s, hs, a1, a2, a3⟩, hall⟩ := kl n i nm hK
      constructor
      · by_cases hkey : ∃ sd, r.svc = some sd ∧ r.node.name = n ∧ sd.sid = i
        · obtain ⟨sd, hsd, e1, e2⟩ := hkey
          exact ⟨_, (s1 _).mpr (Or.inl ⟨sd, hsd, rfl⟩), rfl, e1, e2⟩
        · refine ⟨s, (s1 s).mpr (Or.inr ⟨hs, fun sd hsd hk => hkey ⟨sd, hsd, ?_, ?_⟩⟩), a1, a2, a3⟩
          · rw [← hk.2.1, a2]
          · rw [← hk.2.2, a3]
      · intro s' hs' b1 b2 b3
        rcases (s1 s').mp hs' with ⟨sd, hsd, rfl⟩ | ⟨h3, _⟩
        · simp only [svcRow] at b2 b3 ⊢
          exact kco r sd n i nm hr hK hsd b2 b3
        · exact hall s' h3 b1 b2 b3
    · constructor
      · exact ⟨_, (s1 _).mpr (Or.inl ⟨sd, hsd, rfl⟩), rfl, e1, e2⟩
      · intro s' hs' b1 b2 b3
        rcases (s1 s').mp hs' with ⟨sd', hsd', rfl⟩ | ⟨_, h4⟩
        · rw [hsd] at hsd'; cases hsd'; simp only [svcRow]; exact e3
        · exact absurd ⟨b1, by rw [b2, e1], by rw [b3, e2]⟩ (h4 sd hsd)
  · intro r' sd' n i nm hr' hK hsd' e1 e2
    rcases hK with hK | ⟨sd, hsd, a1, a2, a3⟩
    · exact kco r' sd' n i nm (mem r' hr') hK hsd' e1 e2
    · rw [← a3, ok.csvc r r' sd sd' hr (mem r' hr') hsd hsd' (by rw [a1, e1]) (by rw [a2, e2])]

theorem runRegs_spec (ops : List Op) (c : Cat) (p : String) (wf : WF c) (ok : RegsOK c p ops)
    (K : String → String → String → Prop) (kl : KL c p K) (kco : KCo K ops) (hpres : Pres K ops)
    (h : (runOps c ops).2.1 = none) :
    WF (runOps c ops).1 ∧
    (∀ x, x ∈ (runOps c ops).1.nodes ↔ (∃ r, .reg r ∈ ops ∧ x = nodeRow p r.node) ∨
      (x ∈ c.nodes ∧ ∀ r, .reg r ∈ ops → ¬(x.peer = p ∧ x.name = r.node.name))) ∧
    (∀ x, x ∈ (runOps c ops).1.svcs ↔ (∃ r sd, .reg r ∈ ops ∧ r.svc = some sd ∧ x = svcRow p r.node.name sd) ∨
      (x ∈ c.svcs ∧ ∀ r sd, .reg r ∈ ops → r.svc = some sd → ¬(x.peer = p ∧ x.node = r.node.name ∧ x.sid = sd.sid))) ∧
    (∀ x, x ∈ (runOps c ops).1.chks ↔ (∃ r, .reg r ∈ ops ∧ ∃ k ∈ r.chks, x = chkRow p k) ∨
      (x ∈ c.chks ∧ ∀ r, .reg r ∈ ops → ∀ k ∈ r.chks, ¬(x.peer = p ∧ x.node = k.node ∧ x.cid = k.cid))) := by
  induction ops generalizing c K with
  | nil => simp [runOps, wf]
  | cons o os ih =>
    obtain ⟨r, rfl, hp⟩ := ok.regs o (by simp)
    simp only [runOps] at h ⊢
    simp only [applyOp] at h ⊢
    split at h
    · simp at h
    · rename_i c1 h1
      simp only [h1]
      simp only at h
      have hr : Op.reg r ∈ Op.reg r :: os := by simp
      have mem : ∀ r', Op.reg r' ∈ os → Op.reg r' ∈ Op.reg r :: os := fun r' h' => by simp [h']
      simp only [Pres] at hpres
      obtain ⟨wf1, n1, s1, k1, ok1, kl1, kco1⟩ := regs_tail wf ok kl kco hpres.1 h1
      obtain ⟨wf2, n2, s2, k2⟩ := ih c1 wf1 ok1 (addK K r) kl1 kco1 hpres.2 h
      refine ⟨wf2, fun x => ?_, fun x => ?_, fun x => ?_⟩
      · rw [n2, n1]
        simp only [List.mem_cons, Op.reg.injEq]
        have hc := fun r' (h' : Op.reg r' ∈ os) => ok.cnode r r' hr (mem r' h')
        constructor
        · rintro (⟨r', hr', rfl⟩ | ⟨h3 | h3, h4⟩)
          · exact Or.inl ⟨r', Or.inr hr', rfl⟩
          · exact Or.inl ⟨r, Or.inl rfl, h3⟩
          · refine Or.inr ⟨h3.1, ?_⟩
            rintro r' (rfl | hr')
            · exact h3.2
            · exact h4 r' hr'
        · rintro (⟨r', rfl | hr', rfl⟩ | ⟨h3, h4⟩)
          · by_cases hex : ∃ b, Op.reg b ∈ os ∧ r'.node.name = b.node.name
            · obtain ⟨b, hb, e1⟩ := hex
              exact Or.inl ⟨b, hb, by rw [hc b hb e1]⟩
            · refine Or.inr ⟨Or.inl rfl, ?_⟩
              intro b hb hk
              exact hex ⟨b, hb, by simpa [nodeRow] using hk.2⟩
          · exact Or.inl ⟨r', hr', rfl⟩
          · exact Or.inr ⟨Or.inr ⟨h3, h4 r (Or.inl rfl)⟩, fun a ha => h4 a (Or.inr ha)⟩
      · rw [s2, s1]
        simp only [List.mem_cons, Op.reg.injEq]
        have hc := fun r' sd sd' (h' : Op.reg r' ∈ os) => ok.csvc r r' sd sd' hr (mem r' h')
        constructor
        · rintro (⟨r', sd, hr', hsd, rfl⟩ | ⟨⟨sd, hsd, rfl⟩ | h3, h4⟩)
          · exact Or.inl ⟨r', sd, Or.inr hr', hsd, rfl⟩
          · exact Or.inl ⟨r, sd, Or.inl rfl, hsd, rfl⟩
          · refine Or.inr ⟨h3.1, ?_⟩
            rintro r' sd (rfl | hr') hsd
            · exact h3.2 sd hsd
            · exact h4 r' sd hr' hsd
        · rintro (⟨r', sd, rfl | hr', hsd, rfl⟩ | ⟨h3, h4⟩)
          · by_cases hex : ∃ b sd', Op.reg b ∈ os ∧ b.svc = some sd' ∧ r'.node.name = b.node.name ∧ sd.sid = sd'.sid
            · obtain ⟨b, sd', hb, hsd', e1, e2⟩ := hex
              refine Or.inl ⟨b, sd', hb, hsd', ?_⟩
              rw [hc b sd sd' hb hsd hsd' e1 e2, e1]
            · refine Or.inr ⟨Or.inl ⟨sd, hsd, rfl⟩, ?_⟩
              intro b sd' hb hsd' hk
              simp only [svcRow] at hk
              exact hex ⟨b, sd', hb, hsd', hk.2.1, hk.2.2⟩
          · exact Or.inl ⟨r', sd, hr', hsd, rfl⟩
          · exact Or.inr ⟨Or.inr ⟨h3, fun sd hsd => h4 r sd (Or.inl rfl) hsd⟩, fun a sd ha => h4 a sd (Or.inr ha)⟩
      · rw [k2, k1]
        simp only [List.mem_cons, Op.reg.injEq]
        have hc := fun r' (h' : Op.reg r' ∈ os) => ok.cchk r r' hr (mem r' h')
        constructor
        · rintro (⟨r', hr', k, hk, rfl⟩ | ⟨⟨k, hk, rfl⟩ | h3, h4⟩)
          · exact Or.inl ⟨r', Or.inr hr', k, hk, rfl⟩
          · exact Or.inl ⟨r, Or.inl rfl, k, hk, rfl⟩
          · refine Or.inr ⟨h3.1, ?_⟩
            rintro r' (rfl | hr') k hk
            · exact h3.2 k hk
            · exact h4 r' hr' k hk
        · rintro (⟨r', rfl | hr', k, hk, rfl⟩ | ⟨h3, h4⟩)
          · by_cases hex : ∃ b k', Op.reg b ∈ os ∧ k' ∈ b.chks ∧ k.node = k'.node ∧ k.cid = k'.cid
            · obtain ⟨b, k', hb, hk', e1, e2⟩ := hex
              refine Or.inl ⟨b, hb, k', hk', ?_⟩
              rw [hc b hb k hk k' hk' e1 e2]
            · refine Or.inr ⟨Or.inl ⟨k, hk, rfl⟩, ?_⟩
              intro b hb k' hk' hkk
              simp only [chkRow] at hkk
              exact hex ⟨b, k', hb, hk', hkk.2.1, hkk.2.2⟩
          · exact Or.inl ⟨r', hr', k, hk, rfl⟩
          · exact Or.inr ⟨Or.inr ⟨h3, fun k hk => h4 r (Or.inl rfl) k hk⟩, fun a ha => h4 a (Or.inr ha)⟩

end CV.Peer
