/-
C06: the naming discipline as a DECIDABLE predicate on the log of commands. `LogDisc log` says
  * every node name a command mentions is NUL-free when lower-cased,
  * two service payloads with the same instance key (node, id) carry the same service name
    (no instance is renamed in place),
  * two check payloads with the same check key (node, id) are bound to the same service id
    (no check is rebound).
From it a `Disc` is read off (`Disc.ofLog`) that every command of the log follows (`logDisc_ok`); the
per-state invariant `CatDisc` then holds along the replay of the log from the empty store (`catDisc_replay`).
-/
import CV.Proofs.StoreQuerySvc
namespace CV.Store
open CV

/-- the service payloads (node, id, name) of the log -/
def logSvcs (log : Log) : List (String × String × String) := log.flatMap (fun ic => ic.2.svcs)
/-- the check payloads (node, id, service id) of the log -/
def logChks (log : Log) : List (String × String × String) := log.flatMap (fun ic => ic.2.chks)
/-- the node names the log mentions -/
def logNodes (log : Log) : List String := log.flatMap (fun ic => ic.2.nodes)

/-- same key ⇒ same third component -/
def Functional (l : List (String × String × String)) : Prop :=
  ∀ t ∈ l, ∀ u ∈ l, pk2 t.1 t.2.1 = pk2 u.1 u.2.1 → lc t.2.2 = lc u.2.2

instance (l : List (String × String × String)) : Decidable (Functional l) := by unfold Functional; infer_instance

/-- the discipline, on the log -/
structure LogDisc (log : Log) : Prop where
  nodes : ∀ a ∈ logNodes log, NF a
  chkNodes : ∀ t ∈ logChks log, NF t.1
  noRename : Functional (logSvcs log)
  noRebind : Functional (logChks log)

instance (log : Log) : Decidable (LogDisc log) :=
  if h : (∀ a ∈ logNodes log, NF a) ∧ (∀ t ∈ logChks log, NF t.1) ∧ Functional (logSvcs log) ∧ Functional (logChks log)
  then isTrue ⟨h.1, h.2.1, h.2.2.1, h.2.2.2⟩
  else isFalse (fun d => h ⟨d.nodes, d.chkNodes, d.noRename, d.noRebind⟩)

/-- look a key up in a payload list -/
def lookup3 (l : List (String × String × String)) (k : String) : String :=
  match l.find? (fun t => pk2 t.1 t.2.1 == k) with
  | some t => lc t.2.2
  | none => ""

theorem lookup3_mem {l : List (String × String × String)} (h : Functional l) {t : String × String × String} (ht : t ∈ l) :
    lc t.2.2 = lookup3 l (pk2 t.1 t.2.1) := by
  unfold lookup3
  cases hf : l.find? (fun u => pk2 u.1 u.2.1 == pk2 t.1 t.2.1) with
  | none =>
    rw [List.find?_eq_none] at hf
    exact absurd (by simp) (hf t ht)
  | some u =>
    have hu := List.mem_of_find?_eq_some hf
    have hk : pk2 u.1 u.2.1 = pk2 t.1 t.2.1 := by simpa using List.find?_some hf
    exact (h u hu t ht hk).symm

/-- the discipline the log follows -/
def Disc.ofLog (log : Log) : Disc where
  nmf := lookup3 (logSvcs log)
  svf := lookup3 (logChks log)

theorem logDisc_ok {log : Log} (h : LogDisc log) : ∀ ic ∈ log, ic.2.ok (Disc.ofLog log).guard := by
  intro ic hic
  refine ⟨fun _ _ => trivial, ?_, ?_, ?_⟩
  · intro t ht
    have : t ∈ logSvcs log := List.mem_flatMap.mpr ⟨ic, hic, ht⟩
    exact lookup3_mem h.noRename this
  · intro a ha
    exact h.nodes a (List.mem_flatMap.mpr ⟨ic, hic, ha⟩)
  · intro t ht
    have : t ∈ logChks log := List.mem_flatMap.mpr ⟨ic, hic, ht⟩
    exact ⟨h.chkNodes t this, lookup3_mem h.noRebind this⟩

/-- a prefix of a disciplined log is disciplined -/
theorem logDisc_mem_take {log : Log} {D : Disc} (h : ∀ ic ∈ log, ic.2.ok D.guard) (k : Nat) :
    ∀ ic ∈ log.take k, ic.2.ok D.guard := fun ic hic => h ic (List.mem_of_mem_take hic)

/-- the per-state invariant along the replay of a log whose commands follow `D` -/
theorem catDisc_replay {D : Disc} (s : State) (log : Log) (hs : CatDisc D s) (h : ∀ ic ∈ log, ic.2.ok D.guard) :
    CatDisc D (replay s log) := by
  induction log generalizing s with
  | nil => exact hs
  | cons ic rest ih =>
    exact ih (apply s ic.1 ic.2).1 (disc_apply ic.2 (h ic List.mem_cons_self) hs)
      (fun x hx => h x (List.mem_cons_of_mem _ hx))

/-- from the empty store: a disciplined log keeps the discipline in every state it reaches -/
theorem catDisc_of_logDisc {log : Log} (h : LogDisc log) (k : Nat) :
    CatDisc (Disc.ofLog log) (replay State.empty (log.take k)) :=
  catDisc_replay _ _ (catDisc_empty _) (logDisc_mem_take (logDisc_ok h) k)

end CV.Store
